import Asn1cModel.L2.Tlv
import Asn1cModel.Proofs.BerTlv
import Asn1cModel.Proofs.Integer
/-
  L2 TLV layer: `parseTlv` inverts `Tlv.enc` on well-formed trees (any length form, indefinite
  included), prefix-extension stability of the parser and the "proper prefix ⇒ more" theorem.
  Helper lemmas for C01 / C03 / C05.
-/
namespace Asn1c.Proofs.L2Tlv
open Asn1c Asn1c.Impl.BerTlv Asn1c.L2 Asn1c.Proofs.BerTlv

/-! ### identifier octets -/

/-- a tag that fits `ber_tlv_tag_t` -/
def TagOk (t : Tag) : Prop := t.cls < 4 ∧ t.num < 2 ^ 30

instance (t : Tag) : Decidable (TagOk t) := by unfold TagOk; infer_instance

theorem tagSerialize_shape' (t : Tag) :
    ∃ m bs, m ≤ 31 ∧ tagSerialize t = (t.cls * 64 + m) :: bs ∧ (m = 0 → t.num = 0 ∧ bs = []) := by
  unfold tagSerialize
  split
  · exact ⟨t.num, [], by omega, rfl, fun h => ⟨h, rfl⟩⟩
  · exact ⟨31, _, by omega, rfl, fun h => by omega⟩

theorem tagSerialize_shape (t : Tag) :
    ∃ m bs, m ≤ 31 ∧ tagSerialize t = (t.cls * 64 + m) :: bs := by
  obtain ⟨m, bs, h1, h2, _⟩ := tagSerialize_shape' t
  exact ⟨m, bs, h1, h2⟩

theorem tagOctets_false (t : Tag) : tagOctets t false = tagSerialize t := by
  obtain ⟨m, bs, _, h⟩ := tagSerialize_shape t
  simp [tagOctets, h]

theorem tagOctets_length (t : Tag) (c : Bool) : (tagOctets t c).length = (tagSerialize t).length := by
  obtain ⟨m, bs, _, h⟩ := tagSerialize_shape t
  simp [tagOctets, h]

theorem tagOctets_ne_nil (t : Tag) (c : Bool) : tagOctets t c ≠ [] := by
  obtain ⟨m, bs, _, h⟩ := tagSerialize_shape t
  simp [tagOctets, h]

theorem fetchTag_add32 (b : Nat) (l : Bytes) (h : b % 64 < 32) :
    fetchTag ((b + 32) :: l) = fetchTag (b :: l) := by
  have e1 : (b + 32) / 64 = b / 64 := by omega
  have e2 : (b + 32) % 32 = b % 32 := by omega
  simp only [fetchTag, e1, e2]

/-- header lemma, identifier part: `ber_fetch_tag` recovers the tag and `BER_TLV_CONSTRUCTED`
    recovers the P/C bit from the identifier octets written by `der_write_TL` -/
theorem fetchTag_tagOctets (t : Tag) (c : Bool) (r : Bytes) (h : TagOk t) :
    fetchTag (tagOctets t c ++ r) = .ok t (tagOctets t c).length ∧
    isConstructed ((tagOctets t c ++ r).headD 0) = c := by
  obtain ⟨m, bs, hm, hs⟩ := tagSerialize_shape t
  have hft := fetchTag_serialize t r h.1 h.2
  have hc := h.1
  rw [tagOctets_length]
  cases c with
  | false =>
    rw [tagOctets_false]
    refine ⟨hft, ?_⟩
    rw [hs]
    simp only [List.cons_append, List.headD_cons, isConstructed]
    have : (t.cls * 64 + m) / 32 % 2 = 0 := by omega
    rw [this]; rfl
  | true =>
    simp only [tagOctets, hs, if_true, List.cons_append]
    rw [fetchTag_add32 _ _ (by omega)]
    rw [hs] at hft
    refine ⟨hft, ?_⟩
    simp only [List.headD_cons, isConstructed]
    have : (t.cls * 64 + m + 32) / 32 % 2 = 1 := by omega
    rw [this]; rfl

/-! ### length octets -/

/-- no intermediate accumulator of the `ber_fetch_length` loop overflows -/
def okPref : Nat → Bytes → Prop
  | _, [] => True
  | len, b :: bs => len < 2 ^ 55 ∧ okPref (len * 256 + b) bs

theorem fetchLenLoop_append (l : Bytes) (len s j : Nat) (r : Bytes) (h : okPref len l) :
    fetchLenLoop len s (l.length + j) (l ++ r) = fetchLenLoop (ofBE len l) (s + l.length) j r := by
  induction l generalizing len s with
  | nil => simp [ofBE]
  | cons b bs ih =>
    obtain ⟨h1, h2⟩ := h
    have e : (b :: bs).length + j = (bs.length + j) + 1 := by simp; omega
    rw [e, List.cons_append, fetchLenLoop]
    have : len / 2 ^ 55 = 0 := Nat.div_eq_of_lt h1
    rw [if_neg (by omega), ih _ _ h2, ofBE]
    congr 1
    simp; omega

theorem ofBE_snoc (len : Nat) (l : Bytes) (d : Nat) : ofBE len (l ++ [d]) = ofBE len l * 256 + d := by
  induction l generalizing len with
  | nil => simp [ofBE]
  | cons b bs ih => simp [ofBE, ih]

theorem okPref_snoc (len : Nat) (l : Bytes) (d : Nat) :
    okPref len (l ++ [d]) ↔ okPref len l ∧ ofBE len l < 2 ^ 55 := by
  induction l generalizing len with
  | nil => simp [okPref, ofBE]
  | cons b bs ih => simp [okPref, ofBE, ih, and_assoc]

theorem toBE_zero : toBE 0 = [] := by rw [toBE]; simp
theorem toBE_pos (n : Nat) (h : n ≠ 0) : toBE n = toBE (n / 256) ++ [n % 256] := by
  rw [toBE]; simp [h]

theorem ofBE_toBE (n : Nat) : ofBE 0 (toBE n) = n := by
  induction n using Nat.strong_induction_on with
  | _ n ih =>
    by_cases h : n = 0
    · subst h; rw [toBE_zero]; rfl
    · rw [toBE_pos n h, ofBE_snoc, ih (n / 256) (by omega)]; omega

theorem okPref_toBE (n : Nat) (h : n < 2 ^ 63) : okPref 0 (toBE n) := by
  induction n using Nat.strong_induction_on with
  | _ n ih =>
    by_cases h0 : n = 0
    · subst h0; rw [toBE_zero]; trivial
    · rw [toBE_pos n h0, okPref_snoc, ofBE_toBE]
      exact ⟨ih (n / 256) (by omega) (by omega), by omega⟩

theorem toBE_small (n : Nat) (h0 : n ≠ 0) (h : n < 256) : toBE n = [n] := by
  rw [toBE_pos n h0]
  have : n / 256 = 0 := by omega
  rw [this, toBE_zero]; simp; omega

theorem toBE_ne_nil (n : Nat) (h0 : n ≠ 0) : toBE n ≠ [] := by
  rw [toBE_pos n h0]; simp

theorem okPref_zeros (z : Nat) (l : Bytes) (h : okPref 0 l) : okPref 0 (List.replicate z 0 ++ l) := by
  induction z with
  | zero => simpa using h
  | succ z ih => rw [List.replicate_succ, List.cons_append]; exact ⟨by omega, ih⟩

theorem ofBE_zeros (z : Nat) (l : Bytes) : ofBE 0 (List.replicate z 0 ++ l) = ofBE 0 l := by
  induction z with
  | zero => simp
  | succ z ih => rw [List.replicate_succ, List.cons_append, ofBE]; exact ih

/-- the digits written by a non-minimal definite form -/
def lenDigits (n k : Nat) : Bytes :=
  List.replicate (if n ≤ 127 then k - 1 else k) 0 ++ (if n = 0 then [0] else toBE n)

theorem lenForm_pos (n k : Nat) (hk : k ≠ 0) :
    lenForm n k = (128 + (lenDigits n k).length) :: lenDigits n k := by
  simp [lenForm, hk, lenDigits]

theorem lenDigits_props (n k : Nat) (hn : n < 2 ^ 63) :
    okPref 0 (lenDigits n k) ∧ ofBE 0 (lenDigits n k) = n ∧ 1 ≤ (lenDigits n k).length := by
  unfold lenDigits
  refine ⟨okPref_zeros _ _ ?_, ?_, ?_⟩
  · split
    · exact ⟨by omega, trivial⟩
    · exact okPref_toBE n hn
  · rw [ofBE_zeros]
    split
    · rename_i h; subst h; rfl
    · exact ofBE_toBE n
  · rw [List.length_append]
    by_cases h0 : n = 0
    · simp [h0]
    · have := List.length_pos_iff.mpr (toBE_ne_nil n h0)
      rw [if_neg h0]; omega

theorem toBE_length_lenOctets (n : Nat) (h : n < 2 ^ 64) (h1 : 1 ≤ n) : (toBE n).length = lenOctets n := by
  obtain ⟨k, a, b, c⟩ := lenOctets_spec n h h1
  rw [toBE_eq_toBEn k n a b, toBEn_length, c]

theorem lenSerialize_length (n : Nat) :
    (lenSerialize n).length = if n ≤ 127 then 1 else 1 + lenOctets n := by
  unfold lenSerialize
  split
  · rfl
  · simp [toBEn_length]; omega

/-- the length octets of form `k` are acceptable to `ber_fetch_length` (at most 126 digits) -/
def LenFormOk (n k : Nat) : Prop := (lenForm n k).length ≤ 127

instance (n k : Nat) : Decidable (LenFormOk n k) := by unfold LenFormOk; infer_instance

theorem lenFormOk_zero (n : Nat) : LenFormOk n 0 := by
  unfold LenFormOk lenForm
  rw [if_pos rfl, lenSerialize_length]
  have : lenOctets n ≤ 8 := by unfold lenOctets; (repeat' split) <;> omega
  split <;> omega

/-- header lemma, length part: `ber_fetch_length` recovers the length and `formOf` the form -/
theorem fetchLength_lenForm (n k : Nat) (c : Bool) (r : Bytes) (hn : n ≤ 2 ^ 62 - 1)
    (hk : LenFormOk n k) :
    fetchLength c (lenForm n k ++ r) = .ok n (lenForm n k).length ∧
    formOf n (lenForm n k).length = k := by
  by_cases hk0 : k = 0
  · subst hk0
    have e : lenForm n 0 = lenSerialize n := by simp [lenForm]
    rw [e]
    refine ⟨fetchLength_serialize n c r hn, ?_⟩
    rw [lenSerialize_length]
    unfold formOf
    by_cases h : n ≤ 127
    · rw [if_pos h, if_pos (by omega)]
    · rw [if_neg h, if_neg h, toBE_length_lenOctets n (by omega) (by omega)]
      split <;> omega
  · unfold LenFormOk at hk
    rw [lenForm_pos n k hk0] at hk ⊢
    obtain ⟨p1, p2, p3⟩ := lenDigits_props n k (by omega)
    simp only [List.length_cons] at hk
    constructor
    · rw [List.cons_append, fetchLength]
      rw [if_neg (by omega)]
      have e1 : ((128 + (lenDigits n k).length) == 128) = false := by
        apply Bool.eq_false_iff.mpr; intro h; have := eq_of_beq h; omega
      have e2 : ((128 + (lenDigits n k).length) == 255) = false := by
        apply Bool.eq_false_iff.mpr; intro h; have := eq_of_beq h; omega
      simp only [e1, e2, Bool.and_false, Bool.false_eq_true, if_false]
      have e3 : (128 + (lenDigits n k).length) % 128 = (lenDigits n k).length + 0 := by omega
      rw [e3, fetchLenLoop_append _ _ _ _ _ p1, p2, fetchLenLoop]
      rw [if_neg (by omega)]
      simp only [List.length_cons]
      congr 1; omega
    · simp only [List.length_cons]
      unfold formOf
      rw [if_neg (by omega)]
      have hl : (lenDigits n k).length = (if n ≤ 127 then k - 1 else k) + (if n = 0 then 1 else (toBE n).length) := by
        unfold lenDigits
        rw [List.length_append, List.length_replicate]
        congr 1
        split <;> rfl
      rw [hl]
      by_cases h127 : n ≤ 127
      · rw [if_pos h127, if_pos h127]
        by_cases h0 : n = 0
        · rw [if_pos h0]; omega
        · rw [if_neg h0, toBE_small n h0 (by omega)]; simp; omega
      · rw [if_neg h127, if_neg h127, if_neg (by omega)]; omega

/-! ### one parser step on a well-formed header -/

theorem drop_two (T L R : Bytes) : (T ++ (L ++ R)).drop (T.length + L.length) = R := by
  rw [← List.append_assoc, ← List.length_append, List.drop_left]

theorem parseTlv_header (f : Nat) (t : Tag) (c : Bool) (n k : Nat) (body : Bytes)
    (ht : TagOk t) (hn : n ≤ 2 ^ 62 - 1) (hk : LenFormOk n k) :
    parseTlv (f + 1) (tagOctets t c ++ (lenForm n k ++ body)) =
      if body.length < n then .more
      else if c then
        match parseAll f (body.take n) with
        | some cs => .ok (.cons t (some k) cs) (body.drop n)
        | none => .fail
      else .ok (.prim t k (body.take n)) (body.drop n) := by
  obtain ⟨h1, h2⟩ := fetchTag_tagOctets t c (lenForm n k ++ body) ht
  obtain ⟨h3, h4⟩ := fetchLength_lenForm n k c body hn hk
  rw [parseTlv]
  simp only [h1, h2, List.drop_left, h3, drop_two, h4]
  have : ¬ ((n : Int) < 0) := by omega
  simp only [this, if_false, Int.toNat_natCast, h4]
  rfl

theorem parseTlv_header_indef (f : Nat) (t : Tag) (body : Bytes) (ht : TagOk t) :
    parseTlv (f + 1) (tagOctets t true ++ (128 :: body)) =
      match parseUntilEoc f body with
      | .ok cs rest => .ok (.cons t none cs) rest
      | .more => .more
      | .fail => .fail := by
  obtain ⟨h1, h2⟩ := fetchTag_tagOctets t true (128 :: body) ht
  have h3 : fetchLength true (128 :: body) = .ok (-1) 1 := by
    simp [fetchLength]
  have e : (tagOctets t true ++ 128 :: body).drop ((tagOctets t true).length + 1) = body := by
    have := drop_two (tagOctets t true) [128] body
    simpa using this
  rw [parseTlv]
  simp only [h1, h2, List.drop_left, h3, e]
  rfl

/-! ### well-formed TLV trees -/

/-- the end-of-contents TLV `00 00` -/
def isEoc : Tlv → Bool
  | .prim t k c => t.cls == 0 && t.num == 0 && k == 0 && c.isEmpty
  | .cons _ _ _ => false

mutual
/-- executable well-formedness of a TLV tree (see `Tlv.Wf`) -/
def wfB : Tlv → Bool
  | .prim t k c => decide (TagOk t) && decide (c.length ≤ 2 ^ 62 - 1) && decide (LenFormOk c.length k)
  | .cons t (some k) cs =>
    decide (TagOk t) && decide ((Tlv.encList cs).length ≤ 2 ^ 62 - 1) &&
      decide (LenFormOk (Tlv.encList cs).length k) && wfListB cs
  | .cons t none cs => decide (TagOk t) && wfListB cs && cs.all (fun c => !isEoc c)
def wfListB : List Tlv → Bool
  | [] => true
  | x :: xs => wfB x && wfListB xs
end

/-- **well-formed TLV tree**: tags fit `ber_tlv_tag_t`; every definite content length is at most
    RSSIZE_MAX = 2^62-1 and is written with at most 126 length octets; an indefinite node has no
    child that is the end-of-contents TLV `00 00`. -/
def Wf (x : Tlv) : Prop := wfB x = true
def WfList (xs : List Tlv) : Prop := wfListB xs = true

instance (x : Tlv) : Decidable (Wf x) := by unfold Wf; infer_instance
instance (xs : List Tlv) : Decidable (WfList xs) := by unfold WfList; infer_instance

theorem wf_prim (t : Tag) (k : Nat) (c : Bytes) :
    Wf (.prim t k c) ↔ TagOk t ∧ c.length ≤ 2 ^ 62 - 1 ∧ LenFormOk c.length k := by
  simp [Wf, wfB, and_assoc]

theorem wf_cons_def (t : Tag) (k : Nat) (cs : List Tlv) :
    Wf (.cons t (some k) cs) ↔ TagOk t ∧ (Tlv.encList cs).length ≤ 2 ^ 62 - 1 ∧
      LenFormOk (Tlv.encList cs).length k ∧ WfList cs := by
  simp [Wf, WfList, wfB, and_assoc]

theorem wf_cons_indef (t : Tag) (cs : List Tlv) :
    Wf (.cons t none cs) ↔ TagOk t ∧ WfList cs ∧ ∀ c ∈ cs, isEoc c = false := by
  simp [Wf, WfList, wfB, and_assoc]

theorem wfList_nil : WfList [] := rfl
theorem wfList_cons (x : Tlv) (xs : List Tlv) : WfList (x :: xs) ↔ Wf x ∧ WfList xs := by
  simp [Wf, WfList, wfListB]

theorem wfList_iff (xs : List Tlv) : WfList xs ↔ ∀ x ∈ xs, Wf x := by
  induction xs with
  | nil => simp [wfList_nil]
  | cons x xs ih => simp [wfList_cons, ih]

/-! ### normal forms of `Tlv.enc` -/

theorem enc_prim (t : Tag) (k : Nat) (c : Bytes) :
    (Tlv.prim t k c).enc = tagOctets t false ++ (lenForm c.length k ++ c) := by
  simp [Tlv.enc]

theorem enc_cons_def (t : Tag) (k : Nat) (cs : List Tlv) :
    (Tlv.cons t (some k) cs).enc =
      tagOctets t true ++ (lenForm (Tlv.encList cs).length k ++ Tlv.encList cs) := by
  simp [Tlv.enc]

theorem enc_cons_indef (t : Tag) (cs : List Tlv) :
    (Tlv.cons t none cs).enc = tagOctets t true ++ (128 :: (Tlv.encList cs ++ [0, 0])) := by
  simp [Tlv.enc]

theorem encList_nil : Tlv.encList [] = [] := by simp [Tlv.encList]
theorem encList_cons (x : Tlv) (xs : List Tlv) : Tlv.encList (x :: xs) = x.enc ++ Tlv.encList xs := by
  simp [Tlv.encList]

theorem lenForm_head (n k : Nat) : ∃ b tl, lenForm n k = b :: tl ∧ (b = 0 → n = 0 ∧ k = 0) := by
  unfold lenForm
  by_cases hk : k = 0
  · rw [if_pos hk]
    unfold lenSerialize
    split
    · exact ⟨n, [], rfl, fun h => ⟨h, hk⟩⟩
    · exact ⟨_, _, rfl, fun h => by omega⟩
  · rw [if_neg hk]
    exact ⟨_, _, rfl, fun h => by omega⟩

/-- an encoding has at least two octets, and starts with `00 00` only if it is the EOC TLV -/
theorem enc_head2 (x : Tlv) (hx : Wf x) :
    ∃ b0 b1 tl, x.enc = b0 :: b1 :: tl ∧ ((b0 = 0 ∧ b1 = 0) → isEoc x = true) := by
  cases x with
  | prim t k c =>
    obtain ⟨m, bs, hm, hs, hz⟩ := tagSerialize_shape' t
    obtain ⟨b, tl, hl, hb⟩ := lenForm_head c.length k
    have hc := ((wf_prim t k c).mp hx).1.1
    rw [enc_prim, tagOctets_false, hs, hl]
    cases bs with
    | nil =>
      refine ⟨t.cls * 64 + m, b, tl ++ c, by simp, ?_⟩
      rintro ⟨h0, h1⟩
      obtain ⟨hn, rfl⟩ := hb h1
      have := hz (by omega)
      have hcls : t.cls = 0 := by omega
      have hce : c = [] := List.length_eq_zero_iff.mp hn
      simp [isEoc, hcls, this.1, hce]
    | cons b' bs' =>
      refine ⟨t.cls * 64 + m, b', bs' ++ (b :: tl ++ c), by simp, ?_⟩
      rintro ⟨h0, _⟩
      have := (hz (by omega)).2
      simp at this
  | cons t form cs =>
    obtain ⟨m, bs, hm, hs⟩ := tagSerialize_shape t
    cases form with
    | none =>
      rw [enc_cons_indef]
      simp only [tagOctets, hs, if_true]
      cases bs with
      | nil => exact ⟨t.cls * 64 + m + 32, 128, Tlv.encList cs ++ [0, 0], by simp, by omega⟩
      | cons b' bs' => exact ⟨t.cls * 64 + m + 32, b', bs' ++ 128 :: (Tlv.encList cs ++ [0, 0]), by simp, by omega⟩
    | some k =>
      obtain ⟨b, tl, hl, hb⟩ := lenForm_head (Tlv.encList cs).length k
      rw [enc_cons_def, hl]
      simp only [tagOctets, hs, if_true]
      cases bs with
      | nil => exact ⟨t.cls * 64 + m + 32, b, tl ++ Tlv.encList cs, by simp, by omega⟩
      | cons b' bs' => exact ⟨t.cls * 64 + m + 32, b', bs' ++ b :: (tl ++ Tlv.encList cs), by simp, by omega⟩

/-! ### the parser inverts the serialiser -/

theorem size_pos (x : Tlv) : 1 ≤ x.size := by
  cases x <;> simp [Tlv.size]
theorem sizeList_pos (xs : List Tlv) : 1 ≤ Tlv.sizeList xs := by
  cases xs with
  | nil => simp [Tlv.sizeList]
  | cons x xs => have := size_pos x; simp [Tlv.sizeList]; omega

theorem parseAll_nil (f : Nat) : parseAll (f + 1) [] = some [] := by simp [parseAll]
theorem parseAll_cons (f : Nat) (b : Nat) (bs : Bytes) :
    parseAll (f + 1) (b :: bs) =
      match parseTlv f (b :: bs) with
      | .ok t rest => (parseAll f rest).map (t :: ·)
      | _ => none := by
  rw [parseAll]; rfl

theorem parseUntilEoc_eoc (f : Nat) (rest : Bytes) : parseUntilEoc (f + 1) (0 :: 0 :: rest) = .ok [] rest := by
  simp [parseUntilEoc]

theorem parseUntilEoc_step (f : Nat) (b0 b1 : Nat) (tl : Bytes) (h : ¬ (b0 = 0 ∧ b1 = 0)) :
    parseUntilEoc (f + 1) (b0 :: b1 :: tl) =
      match parseTlv f (b0 :: b1 :: tl) with
      | .ok t rest =>
        match parseUntilEoc f rest with
        | .ok ts rest' => .ok (t :: ts) rest'
        | .more => .more
        | .fail => .fail
      | .more => .more
      | .fail => .fail := by
  rw [parseUntilEoc]
  · rfl
  · intro _ h1; cases h1
  · intro r e0 h1
    injection h1 with e1 e2
    exact h ⟨e0, e1⟩

theorem parse_enc_all (fuel : Nat) :
    (∀ x, Wf x → x.size ≤ fuel → ∀ rest, parseTlv fuel (x.enc ++ rest) = .ok x rest) ∧
    (∀ cs, WfList cs → Tlv.sizeList cs ≤ fuel → parseAll fuel (Tlv.encList cs) = some cs) ∧
    (∀ cs, WfList cs → (∀ c ∈ cs, isEoc c = false) → Tlv.sizeList cs ≤ fuel →
        ∀ rest, parseUntilEoc fuel (Tlv.encList cs ++ (0 :: 0 :: rest)) = .ok cs rest) := by
  induction fuel with
  | zero =>
    refine ⟨fun x _ h => ?_, fun cs _ h => ?_, fun cs _ _ h => ?_⟩
    · have := size_pos x; omega
    · have := sizeList_pos cs; omega
    · have := sizeList_pos cs; omega
  | succ f ih =>
    obtain ⟨ih1, ih2, ih3⟩ := ih
    refine ⟨?_, ?_, ?_⟩
    · intro x hx hs rest
      cases x with
      | prim t k c =>
        obtain ⟨ht, hn, hk⟩ := (wf_prim t k c).mp hx
        rw [enc_prim, List.append_assoc, List.append_assoc, parseTlv_header f t false _ k _ ht hn hk]
        simp
      | cons t form cs =>
        cases form with
        | some k =>
          obtain ⟨ht, hn, hk, hcs⟩ := (wf_cons_def t k cs).mp hx
          rw [enc_cons_def, List.append_assoc, List.append_assoc, parseTlv_header f t true _ k _ ht hn hk]
          have hsz : Tlv.sizeList cs ≤ f := by simp [Tlv.size] at hs; omega
          simp [ih2 cs hcs hsz]
        | none =>
          obtain ⟨ht, hcs, he⟩ := (wf_cons_indef t cs).mp hx
          rw [enc_cons_indef, List.append_assoc, List.cons_append, parseTlv_header_indef f t _ ht]
          have hsz : Tlv.sizeList cs ≤ f := by simp [Tlv.size] at hs; omega
          have := ih3 cs hcs he hsz rest
          simp only [List.append_assoc, List.cons_append, List.nil_append]
          rw [this]
    · intro cs hcs hs
      cases cs with
      | nil => rw [encList_nil, parseAll_nil]
      | cons x xs =>
        obtain ⟨hx, hxs⟩ := (wfList_cons x xs).mp hcs
        obtain ⟨b0, b1, tl, he, _⟩ := enc_head2 x hx
        have h1 := size_pos x
        have h2 := sizeList_pos xs
        simp only [Tlv.sizeList] at hs
        have := ih1 x hx (by omega) (Tlv.encList xs)
        rw [encList_cons]
        rw [he] at this ⊢
        rw [List.cons_append, parseAll_cons]
        rw [List.cons_append, List.cons_append] at this
        rw [List.cons_append, this]
        simp [ih2 xs hxs (by omega)]
    · intro cs hcs hne hs rest
      cases cs with
      | nil =>
        rw [encList_nil, List.nil_append, parseUntilEoc_eoc]
      | cons x xs =>
        obtain ⟨hx, hxs⟩ := (wfList_cons x xs).mp hcs
        obtain ⟨b0, b1, tl, he, h00⟩ := enc_head2 x hx
        have hxe : isEoc x = false := hne x (by simp)
        have h1 := size_pos x
        have h2 := sizeList_pos xs
        simp only [Tlv.sizeList] at hs
        have := ih1 x hx (by omega) (Tlv.encList xs ++ 0 :: 0 :: rest)
        rw [encList_cons, List.append_assoc]
        rw [he] at this ⊢
        rw [List.cons_append, List.cons_append] at this ⊢
        rw [parseUntilEoc_step f b0 b1 _ (fun h => by rw [h00 h] at hxe; cases hxe), this]
        simp only []
        rw [ih3 xs hxs (fun c hc => hne c (by simp [hc])) (by omega) rest]

/-- **`parseTlv` inverts `Tlv.enc`** on every well-formed tree: any length form (non-minimal
    definite, indefinite), any nesting, whatever follows the encoding. -/
theorem parseTlv_enc_any_form (x : Tlv) (hx : Wf x) (fuel : Nat) (hf : x.size ≤ fuel) (rest : Bytes) :
    parseTlv fuel (x.enc ++ rest) = .ok x rest :=
  (parse_enc_all fuel).1 x hx hf rest

/-- `parseAll` consumes the concatenated encodings exactly -/
theorem parseAll_encList (cs : List Tlv) (hcs : WfList cs) (fuel : Nat) (hf : Tlv.sizeList cs ≤ fuel) :
    parseAll fuel (Tlv.encList cs) = some cs :=
  (parse_enc_all fuel).2.1 cs hcs hf

/-- `parseUntilEoc` stops at the end-of-contents octets -/
theorem parseUntilEoc_encList (cs : List Tlv) (hcs : WfList cs) (hne : ∀ c ∈ cs, isEoc c = false)
    (fuel : Nat) (hf : Tlv.sizeList cs ≤ fuel) (rest : Bytes) :
    parseUntilEoc fuel (Tlv.encList cs ++ (0 :: 0 :: rest)) = .ok cs rest :=
  (parse_enc_all fuel).2.2 cs hcs hne hf rest

/-! ### prefix-extension stability (a decision taken on a prefix is never revised) -/

/-- `b` is what `a` becomes when `q` is appended to the input: `ok`/`fail` are final,
    `more` may turn into anything -/
def Fetch.Ext {α : Type} : Fetch α → Fetch α → Prop
  | .ok v u, b => b = .ok v u
  | .fail, b => b = .fail
  | .more, _ => True

def PRes.Ext {α : Type} (q : Bytes) : PRes α → PRes α → Prop
  | .ok v r, b => b = .ok v (r ++ q)
  | .fail, b => b = .fail
  | .more, _ => True

theorem fetchTagLoop_ext (cls : Nat) (p q : Bytes) (val s : Nat) :
    Fetch.Ext (fetchTagLoop cls val s p) (fetchTagLoop cls val s (p ++ q)) ∧
    ∀ v u, fetchTagLoop cls val s p = .ok v u → s < u ∧ u ≤ s + p.length := by
  induction p generalizing val s with
  | nil => simp [fetchTagLoop, Fetch.Ext]
  | cons b bs ih =>
    simp only [List.cons_append, fetchTagLoop]
    split
    · split
      · simp [Fetch.Ext]
      · obtain ⟨h1, h2⟩ := ih (val * 128 + b % 128) (s + 1)
        refine ⟨h1, fun v u h => ?_⟩
        have := h2 v u h
        simp; omega
    · refine ⟨by simp [Fetch.Ext], fun v u h => ?_⟩
      injection h with h1 h2
      simp; omega

theorem fetchTag_ext (p q : Bytes) :
    Fetch.Ext (fetchTag p) (fetchTag (p ++ q)) ∧ ∀ v u, fetchTag p = .ok v u → 1 ≤ u ∧ u ≤ p.length := by
  cases p with
  | nil => simp [fetchTag, Fetch.Ext]
  | cons b bs =>
    simp only [List.cons_append, fetchTag]
    split
    · simp [Fetch.Ext]
    · obtain ⟨h1, h2⟩ := fetchTagLoop_ext (b / 64) bs q 0 1
      refine ⟨h1, fun v u h => ?_⟩
      have := h2 v u h
      simp; omega

theorem fetchLenLoop_ext (p q : Bytes) (len s oct : Nat) :
    Fetch.Ext (fetchLenLoop len s oct p) (fetchLenLoop len s oct (p ++ q)) ∧
    ∀ v u, fetchLenLoop len s oct p = .ok v u → u ≤ s + p.length := by
  induction oct generalizing p len s with
  | zero =>
    simp only [fetchLenLoop]
    split <;> simp [Fetch.Ext]
  | succ oct ih =>
    cases p with
    | nil => simp [fetchLenLoop, Fetch.Ext]
    | cons b bs =>
      simp only [List.cons_append, fetchLenLoop]
      split
      · simp [Fetch.Ext]
      · obtain ⟨h1, h2⟩ := ih bs (len * 256 + b) (s + 1)
        refine ⟨h1, fun v u h => ?_⟩
        have := h2 v u h
        simp; omega

theorem fetchLength_ext (c : Bool) (p q : Bytes) :
    Fetch.Ext (fetchLength c p) (fetchLength c (p ++ q)) ∧
    ∀ v u, fetchLength c p = .ok v u → u ≤ p.length := by
  cases p with
  | nil => simp [fetchLength, Fetch.Ext]
  | cons b bs =>
    simp only [List.cons_append, fetchLength]
    split
    · simp [Fetch.Ext]
    · split
      · simp [Fetch.Ext]
      · split
        · simp [Fetch.Ext]
        · obtain ⟨h1, h2⟩ := fetchLenLoop_ext bs q 0 1 (b % 128)
          refine ⟨h1, fun v u h => ?_⟩
          have := h2 v u h
          simp; omega

theorem PRes.ext_nil {α : Type} (a : PRes α) : PRes.Ext [] a a := by
  cases a <;> simp [PRes.Ext]

theorem parseUntilEoc_single (f : Nat) (b : Nat) (h : b ≠ 0) :
    parseUntilEoc (f + 1) [b] =
      match parseTlv f [b] with
      | .ok t rest =>
        match parseUntilEoc f rest with
        | .ok ts rest' => .ok (t :: ts) rest'
        | .more => .more
        | .fail => .fail
      | .more => .more
      | .fail => .fail := by
  rw [parseUntilEoc]
  · rfl
  · intro h1 _; exact h h1
  · intro r h1; exact (h h1).elim

theorem parse_ext (fuel : Nat) :
    (∀ p q, PRes.Ext q (parseTlv fuel p) (parseTlv fuel (p ++ q))) ∧
    (∀ p q, PRes.Ext q (parseUntilEoc fuel p) (parseUntilEoc fuel (p ++ q))) := by
  induction fuel with
  | zero => constructor <;> intro p q <;> simp [parseTlv, parseUntilEoc, PRes.Ext]
  | succ f ih =>
    obtain ⟨ih1, ih2⟩ := ih
    have step : ∀ (p q : Bytes) (A B : PRes (List Tlv)),
        A = (match parseTlv f p with
          | .ok t rest =>
            match parseUntilEoc f rest with
            | .ok ts rest' => .ok (t :: ts) rest'
            | .more => .more
            | .fail => .fail
          | .more => .more
          | .fail => .fail) →
        B = (match parseTlv f (p ++ q) with
          | .ok t rest =>
            match parseUntilEoc f rest with
            | .ok ts rest' => .ok (t :: ts) rest'
            | .more => .more
            | .fail => .fail
          | .more => .more
          | .fail => .fail) → PRes.Ext q A B := by
      intro p q A B hA hB
      have h1 := ih1 p q
      cases hp : parseTlv f p with
      | more => rw [hA, hp]; trivial
      | fail =>
        rw [hp] at h1; simp only [PRes.Ext] at h1
        rw [hA, hB, hp, h1]; rfl
      | ok t rest =>
        rw [hp] at h1; simp only [PRes.Ext] at h1
        rw [hA, hB, hp, h1]
        simp only []
        have h2 := ih2 rest q
        cases hr : parseUntilEoc f rest with
        | more => trivial
        | fail => rw [hr] at h2; simp only [PRes.Ext] at h2; rw [h2]; rfl
        | ok ts r' => rw [hr] at h2; simp only [PRes.Ext] at h2; rw [h2]; rfl
    constructor
    · intro p q
      obtain ⟨t1, t2⟩ := fetchTag_ext p q
      rw [parseTlv, parseTlv]
      cases hft : fetchTag p with
      | more => trivial
      | fail => rw [hft] at t1; simp only [Fetch.Ext] at t1; rw [t1]; rfl
      | ok tag tl =>
        rw [hft] at t1; simp only [Fetch.Ext] at t1; rw [t1]
        obtain ⟨tl1, tl2⟩ := t2 tag tl hft
        have hd : (p ++ q).headD 0 = p.headD 0 := by
          cases p with
          | nil => simp at tl2; omega
          | cons b bs => rfl
        have hdrop : (p ++ q).drop tl = p.drop tl ++ q := List.drop_append_of_le_length tl2
        simp only [hd, hdrop]
        obtain ⟨l1, l2⟩ := fetchLength_ext (isConstructed (p.headD 0)) (p.drop tl) q
        cases hfl : fetchLength (isConstructed (p.headD 0)) (p.drop tl) with
        | more => trivial
        | fail => rw [hfl] at l1; simp only [Fetch.Ext] at l1; rw [l1]; rfl
        | ok len ll =>
          rw [hfl] at l1; simp only [Fetch.Ext] at l1; rw [l1]
          have hll := l2 len ll hfl
          simp only [List.length_drop] at hll
          have hdrop2 : (p ++ q).drop (tl + ll) = p.drop (tl + ll) ++ q :=
            List.drop_append_of_le_length (by omega)
          simp only [hdrop2]
          by_cases hneg : len < 0
          · simp only [hneg, if_true]
            have h2 := ih2 (p.drop (tl + ll)) q
            cases hr : parseUntilEoc f (p.drop (tl + ll)) with
            | more => trivial
            | fail => rw [hr] at h2; simp only [PRes.Ext] at h2; rw [h2]; rfl
            | ok cs r' => rw [hr] at h2; simp only [PRes.Ext] at h2; rw [h2]; rfl
          · simp only [hneg, if_false]
            by_cases hshort : (p.drop (tl + ll)).length < len.toNat
            · simp only [hshort, if_true]; trivial
            · have hlong : ¬ (p.drop (tl + ll) ++ q).length < len.toNat := by
                rw [List.length_append]; omega
              have htake : (p.drop (tl + ll) ++ q).take len.toNat = (p.drop (tl + ll)).take len.toNat :=
                List.take_append_of_le_length (by omega)
              have hdrop3 : (p.drop (tl + ll) ++ q).drop len.toNat = (p.drop (tl + ll)).drop len.toNat ++ q :=
                List.drop_append_of_le_length (by omega)
              simp only [hshort, hlong, if_false, htake, hdrop3]
              split
              · split <;> simp [PRes.Ext]
              · simp [PRes.Ext]
    · intro p q
      cases q with
      | nil => rw [List.append_nil]; exact PRes.ext_nil _
      | cons c q' =>
      match p with
      | [] => simp [parseUntilEoc, PRes.Ext]
      | [b] =>
        by_cases hb : b = 0
        · subst hb; simp [parseUntilEoc, PRes.Ext]
        · exact step [b] (c :: q') _ _ (parseUntilEoc_single f b hb)
            (parseUntilEoc_step f b c q' (fun h => hb h.1))
      | b0 :: b1 :: tl =>
        by_cases h0 : b0 = 0 ∧ b1 = 0
        · obtain ⟨rfl, rfl⟩ := h0
          simp [parseUntilEoc, PRes.Ext]
        · exact step (b0 :: b1 :: tl) (c :: q') _ _ (parseUntilEoc_step f b0 b1 tl h0)
            (parseUntilEoc_step f b0 b1 (tl ++ c :: q') h0)

/-- **prefix-extension stability of `parseTlv`**: a TLV accepted on a prefix is accepted
    unchanged on every extension, with the extension appended to the unconsumed rest; a
    rejection is final.  (Only `more` can change.) -/
theorem parseTlv_append (fuel : Nat) (p q : Bytes) :
    (∀ x r, parseTlv fuel p = .ok x r → parseTlv fuel (p ++ q) = .ok x (r ++ q)) ∧
    (parseTlv fuel p = .fail → parseTlv fuel (p ++ q) = .fail) := by
  have := (parse_ext fuel).1 p q
  constructor
  · intro x r h; rw [h] at this; exact this
  · intro h; rw [h] at this; exact this

/-- **a proper prefix of a valid encoding is answered with `more`** (RC_WMORE), never with an
    error and never with a value: the parser asks for more data until the TLV is complete. -/
theorem parseTlv_prefix_more (x : Tlv) (hx : Wf x) (p : Bytes) (hp : p <+: x.enc) (hne : p ≠ x.enc)
    (fuel : Nat) (hf : x.size ≤ fuel) : parseTlv fuel p = .more := by
  obtain ⟨q, hq⟩ := hp
  have hq0 : q ≠ [] := by
    intro h; subst h; simp at hq; exact hne hq
  have h1 := parseTlv_enc_any_form x hx fuel hf []
  rw [List.append_nil, ← hq] at h1
  obtain ⟨m1, m2⟩ := parseTlv_append fuel p q
  cases hr : parseTlv fuel p with
  | more => rfl
  | fail => rw [m2 hr] at h1; cases h1
  | ok y r =>
    rw [m1 y r hr] at h1
    injection h1 with _ e
    simp at e
    exact (hq0 e.2).elim

/-- the name used in the property text -/
theorem parseTlv_enc (x : Tlv) (hx : Wf x) (fuel : Nat) (hf : x.size ≤ fuel) (rest : Bytes) :
    parseTlv fuel (x.enc ++ rest) = .ok x rest := parseTlv_enc_any_form x hx fuel hf rest

/-! ### DER trees -/

mutual
/-- all tags fit, all lengths definite and minimal (the trees produced by `toTlv`) -/
def isDerB : Tlv → Bool
  | .prim t k _ => decide (TagOk t) && k == 0
  | .cons t (some k) cs => decide (TagOk t) && k == 0 && isDerListB cs
  | .cons _ none _ => false
def isDerListB : List Tlv → Bool
  | [] => true
  | x :: xs => isDerB x && isDerListB xs
end

def IsDer (x : Tlv) : Prop := isDerB x = true
def IsDerList (xs : List Tlv) : Prop := isDerListB xs = true

theorem isDer_prim (t : Tag) (k : Nat) (c : Bytes) : IsDer (.prim t k c) ↔ TagOk t ∧ k = 0 := by
  simp [IsDer, isDerB]
theorem isDer_cons (t : Tag) (k : Nat) (cs : List Tlv) :
    IsDer (.cons t (some k) cs) ↔ TagOk t ∧ k = 0 ∧ IsDerList cs := by
  simp [IsDer, IsDerList, isDerB, and_assoc]
theorem isDer_cons_none (t : Tag) (cs : List Tlv) : ¬ IsDer (.cons t none cs) := by
  simp [IsDer, isDerB]
theorem isDerList_nil : IsDerList [] := rfl
theorem isDerList_cons (x : Tlv) (xs : List Tlv) : IsDerList (x :: xs) ↔ IsDer x ∧ IsDerList xs := by
  simp [IsDer, IsDerList, isDerListB]
theorem isDerList_iff (xs : List Tlv) : IsDerList xs ↔ ∀ x ∈ xs, IsDer x := by
  induction xs with
  | nil => simp [isDerList_nil]
  | cons x xs ih => simp [isDerList_cons, ih]

theorem isDer_wf_aux (n : Nat) (B : Nat) (hB : B ≤ 2 ^ 62 - 1) :
    (∀ x, x.size ≤ n → IsDer x → x.enc.length ≤ B → Wf x) ∧
    (∀ xs, Tlv.sizeList xs ≤ n → IsDerList xs → (Tlv.encList xs).length ≤ B → WfList xs) := by
  induction n with
  | zero =>
    exact ⟨fun x h => by have := size_pos x; omega, fun xs h => by have := sizeList_pos xs; omega⟩
  | succ n ih =>
    obtain ⟨ih1, ih2⟩ := ih
    constructor
    · intro x hs hd hl
      cases x with
      | prim t k c =>
        obtain ⟨ht, rfl⟩ := (isDer_prim t k c).mp hd
        rw [enc_prim] at hl
        simp only [List.length_append] at hl
        exact (wf_prim t 0 c).mpr ⟨ht, by omega, lenFormOk_zero _⟩
      | cons t form cs =>
        cases form with
        | none => exact (isDer_cons_none t cs hd).elim
        | some k =>
          obtain ⟨ht, rfl, hcs⟩ := (isDer_cons t k cs).mp hd
          rw [enc_cons_def] at hl
          simp only [List.length_append] at hl
          simp only [Tlv.size] at hs
          exact (wf_cons_def t 0 cs).mpr ⟨ht, by omega, lenFormOk_zero _, ih2 cs (by omega) hcs (by omega)⟩
    · intro xs hs hd hl
      cases xs with
      | nil => exact wfList_nil
      | cons x xs =>
        obtain ⟨hx, hxs⟩ := (isDerList_cons x xs).mp hd
        rw [encList_cons, List.length_append] at hl
        simp only [Tlv.sizeList] at hs
        have h1 := size_pos x
        have h2 := sizeList_pos xs
        exact (wfList_cons x xs).mpr ⟨ih1 x (by omega) hx (by omega), ih2 xs (by omega) hxs (by omega)⟩

/-- a DER tree whose encoding is not longer than RSSIZE_MAX is well-formed -/
theorem isDer_wf (x : Tlv) (hd : IsDer x) (hl : x.enc.length ≤ 2 ^ 62 - 1) : Wf x :=
  (isDer_wf_aux x.size (2 ^ 62 - 1) (Nat.le_refl _)).1 x (Nat.le_refl _) hd hl

end Asn1c.Proofs.L2Tlv
