import Asn1cModel.Proofs.BerStreamTop
import Asn1cModel.L2.Der
import Asn1cModel.Props.C16
/-
  Refinement: on primitive types with a one-tag chain the streaming C decoder (Impl/BerStream.lean) agrees with the
  reference BER decoder of L2 (`decBER`) whenever the latter accepts.
-/
namespace Asn1c.Proofs.BerStream
open Asn1c Asn1c.Impl.BerTlv Asn1c.Impl.Restart Asn1c.Impl.BerStream Asn1c.L2

/-- the C storage of a primitive value as an abstract L2 value -/
def pvVal : PVal → Val
  | .bool b => .bool (b != 0)
  | .null => .null
  | .int z => .int z
  | .bytes bs => .octets bs

/-- `ber_check_tags` on a one-tag primitive chain, in terms of the TL readers -/
theorem checkTags_single_prim (t : Tag) (bs : Bytes) (tl ll : Nat) (len : Int)
    (ht : fetchTag bs = .ok t tl) (hc : isConstructed (bs.headD 0) = false)
    (hl : fetchLength false (bs.drop tl) = .ok len ll) (hlen : 0 ≤ len) :
    checkTags [t] none 0 0 bs = ⟨.ok, tl + ll, 1, len, 0⟩ := by
  suffices hraw : checkTagsRaw [t] none 0 0 bs = ⟨.ok, tl + ll, 1, len, 0⟩ by
    unfold checkTags; rw [hraw]; rfl
  unfold checkTagsRaw
  simp only [ctTagno, Option.getD_none, Option.isSome_none, List.length_cons, List.length_nil]
  simp only [show ((0 : Int) == 1) = false from rfl, Bool.false_eq_true, if_false]
  have h1 : ((0:Int) == 0 && ((0 : Nat) : Int) + 0 == ((0 + 1 : Nat) : Int)) = false := by decide
  simp only [h1, Bool.false_eq_true, if_false]
  have h2 : (((0 : Nat) : Int) + 0 < ((0 + 1 : Nat) : Int)) := by decide
  simp only [h2, if_true]
  have h3 : (((0 + 1 : Nat) : Int) - (((0 : Nat) : Int) + 0)).toNat = 1 := by decide
  rw [h3]
  unfold ctLoop
  simp only [ht, hc, hl]
  have hne : (len == -1) = false := by
    simp only [beq_eq_false_iff_ne, ne_eq]; omega
  simp [ctTagBad, ctFormBad, b2i, hne, ctLoop, ctRet]
  omega

/-- the primitive kinds whose C decoder is compared with the reference decoder -/
def kindOf : Prim → Option PKind
  | .boolean => some .boolean
  | .null => some .null
  | .integer => some (.nint false)
  | .enumerated => some (.nint false)
  | _ => none

theorem fetchLength_prim_nonneg (bs : Bytes) (len : Int) (ll : Nat) (h : fetchLength false bs = .ok len ll) : 0 ≤ len := by
  cases bs with
  | nil => simp [fetchLength] at h
  | cons b t =>
    simp only [fetchLength, Bool.false_and, Bool.false_eq_true, if_false] at h
    split at h
    · injection h with h1 _; omega
    · split at h
      · cases h
      · -- fetchLenLoop returns a natural number
        have : ∀ (l s o : Nat) (q : Bytes) (v : Int) (u : Nat), fetchLenLoop l s o q = .ok v u → 0 ≤ v := by
          intro l s o
          induction o generalizing l s with
          | zero => intro q v u hh; unfold fetchLenLoop at hh; split at hh
                    · cases hh
                    · injection hh with h1 _; omega
          | succ o ih =>
            intro q v u hh
            cases q with
            | nil => simp [fetchLenLoop] at hh
            | cons c r =>
              unfold fetchLenLoop at hh
              split at hh
              · cases hh
              · exact ih _ _ _ _ _ hh
        exact this _ _ _ _ _ _ h

theorem decPrim_cons_none (p : Prim) (k : PKind) (hk : kindOf p = some k) (tag : Tag) (form : Option Nat) (cs : List Tlv) :
    L2.decPrim p (.cons tag form cs) = none := by
  cases p <;> simp [kindOf] at hk <;> simp [L2.decPrim]

theorem interp_prim_single (t : Tag) (p : Prim) (k : PKind) (hk : kindOf p = some k) (x : Tlv) (v : Val)
    (h : interp (.prim [t] p) x = some v) : ∃ form c, x = .prim t form c ∧ L2.decPrim p (.prim t form c) = some v := by
  simp only [interp, unwrapTags, List.reverse_cons, List.reverse_nil, List.nil_append, unwrapAround] at h
  split at h
  · rename_i y hy
    split at hy
    · rename_i htag
      injection hy with hy; subst hy
      cases x with
      | prim tag form c => simp only [Tlv.tag] at htag; subst htag; exact ⟨form, c, rfl, h⟩
      | cons tag form cs => rw [decPrim_cons_none p k hk] at h; cases h
    · cases hy
  · cases h

theorem parseTlv_prim (fuel : Nat) (bs : Bytes) (t : Tag) (form : Nat) (c r : Bytes)
    (h : parseTlv fuel bs = .ok (.prim t form c) r) :
    ∃ tl ll len, fetchTag bs = .ok t tl ∧ isConstructed (bs.headD 0) = false ∧
      fetchLength false (bs.drop tl) = .ok len ll ∧ 0 ≤ len ∧ tl + ll + len.toNat ≤ bs.length ∧
      c = (bs.drop (tl + ll)).take len.toNat ∧ r = (bs.drop (tl + ll)).drop len.toNat := by
  cases fuel with
  | zero => simp [parseTlv] at h
  | succ f =>
    unfold parseTlv at h
    split at h
    · cases h
    · cases h
    · rename_i tag tl ht
      simp only at h
      split at h
      · cases h
      · cases h
      · rename_i len ll hl
        have htl := fetchTag_le _ _ _ ht
        have hll := fetchLength_le _ _ _ _ hl
        simp only [List.length_drop] at hll
        split at h
        · split at h
          · cases h
          · cases h
          · cases h
        · rename_i hneg
          split at h
          · cases h
          · rename_i hbody
            simp only [List.length_drop] at hbody
            split at h
            · split at h <;> cases h
            · rename_i hcons
              have hc : isConstructed (bs.headD 0) = false := by simpa using hcons
              injection h with h1 h2
              injection h1 with h3 h4 h5
              subst h3
              rw [hc] at hl
              exact ⟨tl, ll, len, ht, hc, hl, by omega, by omega, h5.symm, h2.symm⟩

/-- **refinement (primitive types with one tag)**: whenever the reference BER decoder of L2 accepts a
    BOOLEAN / NULL / INTEGER / ENUMERATED value (the integer fitting `long`), the streaming C decoder started
    on a fresh structure answers RC_OK, has consumed exactly what the reference decoder consumed, and
    stores the same value -/
theorem prim_refines_decBER (t : Tag) (p : Prim) (k : PKind) (hk : kindOf p = some k) (fuel : Nat) (bs : Bytes)
    (hwf : Bytes.wf bs) (v : Val) (rest : Bytes) (h : decBER fuel (.prim [t] p) bs = .ok v rest)
    (hfit : ∀ z, v = .int z → Asn1c.Spec.fitsS64 z) :
    ∃ pv, dec (.prim [t] [t] k) 0 .none bs = (.prim (some pv), .ok, bs.length - rest.length) ∧ pvVal pv = v := by
  unfold decBER at h
  split at h
  · rename_i x r hp
    split at h
    · rename_i v' hi
      injection h with h1 h2; subst h1; subst h2
      obtain ⟨form, c, hx, hd⟩ := interp_prim_single t p k hk x _ hi
      subst hx
      obtain ⟨tl, ll, len, ht, hc, hl, hlen0, hle, hcc, hr⟩ := parseTlv_prim fuel bs t form c r hp
      have hct := checkTags_single_prim t bs tl ll len ht hc hl hlen0
      have hrl : bs.length - r.length = tl + ll + len.toNat := by
        rw [hr]; simp only [List.length_drop]; omega
      have hnot : ¬ (len > ((bs.drop (tl + ll)).length : Int)) := by
        simp only [List.length_drop]; omega
      rw [hrl]
      cases p with
      | boolean =>
        simp only [kindOf] at hk; injection hk with hk; subst hk
        match c, hd, hcc with
        | [b], hd, hcc =>
          simp only [L2.decPrim] at hd
          injection hd with hd; subst hd
          refine ⟨.bool (boolValue [b]), ?_, ?_⟩
          · simp only [dec, Impl.BerStream.decPrim, hct, primSt, primTail, primBody]
            simp [← hcc]
            omega
          · simp only [pvVal, boolValue]
            by_cases hb0 : b = 0 <;> simp [hb0]
      | null =>
        simp only [kindOf] at hk; injection hk with hk; subst hk
        match c, hd, hcc with
        | [], hd, hcc =>
          simp only [L2.decPrim] at hd
          injection hd with hd; subst hd
          have hl0 : len.toNat = 0 := by
            have := congrArg List.length hcc
            simp only [List.length_take, List.length_drop, List.length_nil] at this
            omega
          have hlz : len = 0 := by omega
          refine ⟨.null, ?_, rfl⟩
          simp only [dec, Impl.BerStream.decPrim, hct, primSt, primTail]
          simp [hlz]
      | integer =>
        simp only [kindOf] at hk; injection hk with hk; subst hk
        match c, hd, hcc with
        | b :: cs, hd, hcc =>
          simp only [L2.decPrim] at hd
          injection hd with hd; subst hd
          have hfz := hfit _ rfl
          have hcwf : Bytes.wf (b :: cs) := by
            rw [hcc]; intro y hy
            exact hwf y (List.mem_of_mem_drop (List.mem_of_mem_take hy))
          have hspec := Asn1c.Props.C16.INTEGER2imax_spec (b :: cs) hcwf
          rw [if_pos hfz] at hspec
          have hlong : Asn1c.Impl.Integer.INTEGER2long (b :: cs) = .ok (Asn1c.Spec.twosVal (b :: cs)) := by
            unfold Asn1c.Impl.Integer.INTEGER2long
            rw [hspec]
            simp only
            unfold Asn1c.Spec.fitsS64 at hfz
            rw [if_neg (by omega)]
          refine ⟨.int (Asn1c.Spec.twosVal (b :: cs)), ?_, rfl⟩
          simp only [dec, Impl.BerStream.decPrim, hct, primSt, primTail, primBody]
          simp [← hcc, hlong]
          omega
      | enumerated =>
        simp only [kindOf] at hk; injection hk with hk; subst hk
        match c, hd, hcc with
        | b :: cs, hd, hcc =>
          simp only [L2.decPrim] at hd
          injection hd with hd; subst hd
          have hfz := hfit _ rfl
          have hcwf : Bytes.wf (b :: cs) := by
            rw [hcc]; intro y hy
            exact hwf y (List.mem_of_mem_drop (List.mem_of_mem_take hy))
          have hspec := Asn1c.Props.C16.INTEGER2imax_spec (b :: cs) hcwf
          rw [if_pos hfz] at hspec
          have hlong : Asn1c.Impl.Integer.INTEGER2long (b :: cs) = .ok (Asn1c.Spec.twosVal (b :: cs)) := by
            unfold Asn1c.Impl.Integer.INTEGER2long
            rw [hspec]
            simp only
            unfold Asn1c.Spec.fitsS64 at hfz
            rw [if_neg (by omega)]
          refine ⟨.int (Asn1c.Spec.twosVal (b :: cs)), ?_, rfl⟩
          simp only [dec, Impl.BerStream.decPrim, hct, primSt, primTail, primBody]
          simp [← hcc, hlong]
          omega
      | real => simp [kindOf] at hk
      | octets => simp [kindOf] at hk
      | bits => simp [kindOf] at hk
    · cases h
  · cases h
  · cases h

end Asn1c.Proofs.BerStream
