import Asn1cModel.Impl.Integer
import Asn1cModel.Spec.Numeral
/- Helper lemmas for C16 (decimal parsers `asn_strto{imax,umax,l,ul}_lim`).
   Property theorems live in Props/C16.lean. -/
namespace Asn1c.Proofs.Strtox
open Asn1c Asn1c.Impl.Integer Asn1c.Spec

/- NB: the auto-generated equation lemmas of `digitsVal` (`simp [digitsVal]`, `rw [digitsVal]`,
   `unfold digitsVal`) run into a `whnf` timeout (failing defeq `acc =?= acc*10 + (c - 0x30)`);
   use the two lemmas below instead. -/
theorem digitsVal_nil (acc : Nat) : digitsVal acc [] = acc := rfl

theorem digitsVal_cons (acc c : Nat) (cs : List Nat) :
    digitsVal acc (c :: cs) = digitsVal (acc * 10 + (c - 0x30)) cs := by
  delta digitsVal; rfl

theorem digitsVal_ge (acc : Nat) (cs : List Nat) : acc ≤ digitsVal acc cs := by
  induction cs generalizing acc with
  | nil => exact Nat.le_refl _
  | cons c cs ih =>
    rw [digitsVal_cons]
    have := ih (acc * 10 + (c - 0x30)); omega

theorem isDigit_iff (c : Nat) : isDigit c = true ↔ 0x30 ≤ c ∧ c ≤ 0x39 := by simp [isDigit]

theorem allDigits_nil : allDigits [] := by simp [allDigits]

theorem allDigits_cons (c : Nat) (cs : List Nat) :
    allDigits (c :: cs) ↔ isDigit c = true ∧ allDigits cs := by
  simp [allDigits, isDigit]

/-! ### signed loop -/

/-- On a digits-only tail the signed loop accepts exactly when the accumulated numeral stays
    `≤ ub*10+ldm`; otherwise it reports `.range`. -/
theorem imaxLoop_digits (ub ldm : Nat) (sign : Int) (hub : 1 ≤ ub) (hldm : ldm ≤ 9)
    (hs : sign = 1 ∨ sign = -1) (rest : List Nat) (hd : allDigits rest) (value pos : Nat)
    (hv : value ≤ ub * 10 + ldm) :
    (digitsVal value rest ≤ ub * 10 + ldm →
      strtoimaxLoop ub ldm sign value pos rest =
        ⟨.ok, pos + rest.length, some (sign * (digitsVal value rest : Nat))⟩) ∧
    (ub * 10 + ldm < digitsVal value rest →
      (strtoimaxLoop ub ldm sign value pos rest).res = .range) := by
  induction rest generalizing value pos with
  | nil =>
    simp only [digitsVal_nil, strtoimaxLoop, List.length_nil, Nat.add_zero]
    exact ⟨fun _ => trivial, fun h => by omega⟩
  | cons c rest ih =>
    obtain ⟨hc, hd'⟩ := (allDigits_cons c rest).mp hd
    have hcr := (isDigit_iff c).mp hc
    have e : (value : Int) * 10 + ((c - 0x30 : Nat) : Int) = ((value * 10 + (c - 0x30) : Nat) : Int) := by
      omega
    rw [strtoimaxLoop]
    simp only [hc, if_true, digitsVal_cons, List.length_cons]
    by_cases h1 : value < ub
    · have h1' : (value : Int) < (ub : Int) := by omega
      simp only [h1', if_true]
      rw [e]
      have := ih hd' (value * 10 + (c - 0x30)) (pos + 1) (by omega)
      rw [show pos + (rest.length + 1) = pos + 1 + rest.length by omega]
      exact this
    · have h1' : ¬ (value : Int) < (ub : Int) := by omega
      simp only [h1', if_false]
      have hge := digitsVal_ge (value * 10 + (c - 0x30)) rest
      by_cases h2 : value = ub
      · have h2' : (value : Int) = (ub : Int) := by omega
        simp only [h2', if_true]
        by_cases h3 : c - 0x30 ≤ ldm
        · have h3' : ((c - 0x30 : Nat) : Int) ≤ (ldm : Int) := by omega
          simp only [h3', if_true]
          cases rest with
          | nil =>
            simp only [digitsVal_nil, List.length_nil]
            refine ⟨fun _ => ?_, fun h => by omega⟩
            subst h2
            rcases hs with hs | hs <;> subst hs <;> simp <;> omega
          | cons c2 rest2 =>
            obtain ⟨hc2, _⟩ := (allDigits_cons c2 rest2).mp hd'
            simp only [hc2, if_true]
            have hge2 := digitsVal_ge ((value * 10 + (c - 0x30)) * 10 + (c2 - 0x30)) rest2
            simp only [digitsVal_cons] at hge2 ⊢
            exact ⟨fun h => by omega, fun _ => trivial⟩
        · have h3' : ¬ ((c - 0x30 : Nat) : Int) ≤ (ldm : Int) := by omega
          simp only [h3', if_false]
          exact ⟨fun h => by omega, fun _ => trivial⟩
      · have h2' : ¬ (value : Int) = (ub : Int) := by omega
        simp only [h2', if_false]
        exact ⟨fun h => by omega, fun _ => trivial⟩

/-- A tail containing a non-digit is never accepted by the signed loop. -/
theorem imaxLoop_nondigit (ub ldm sign : Int) (rest : List Nat) (hd : ¬ allDigits rest)
    (value : Int) (pos : Nat) : (strtoimaxLoop ub ldm sign value pos rest).res ≠ .ok := by
  induction rest generalizing value pos with
  | nil => exact absurd allDigits_nil hd
  | cons c rest ih =>
    rw [strtoimaxLoop]
    by_cases hc : isDigit c = true
    · have hd' : ¬ allDigits rest := fun h => hd ((allDigits_cons c rest).mpr ⟨hc, h⟩)
      simp only [hc, if_true]
      split
      · exact ih hd' _ _
      · split
        · split
          · cases rest with
            | nil => exact absurd allDigits_nil hd'
            | cons c2 rest2 => simp only []; split <;> simp
          · simp
        · simp
    · simp [hc]

/-! ### unsigned loop -/

theorem umaxLoop_digits (ub ldm : Nat) (hub : 1 ≤ ub) (hldm : ldm ≤ 9)
    (rest : List Nat) (hd : allDigits rest) (value pos : Nat)
    (hv : value ≤ ub * 10 + ldm) :
    (digitsVal value rest ≤ ub * 10 + ldm →
      strtoumaxLoop ub ldm value pos rest =
        ⟨.ok, pos + rest.length, some ((digitsVal value rest : Nat) : Int)⟩) ∧
    (ub * 10 + ldm < digitsVal value rest →
      (strtoumaxLoop ub ldm value pos rest).res = .range) := by
  induction rest generalizing value pos with
  | nil =>
    simp only [digitsVal_nil, strtoumaxLoop, List.length_nil, Nat.add_zero]
    exact ⟨fun _ => trivial, fun h => by omega⟩
  | cons c rest ih =>
    obtain ⟨hc, hd'⟩ := (allDigits_cons c rest).mp hd
    have hcr := (isDigit_iff c).mp hc
    rw [strtoumaxLoop]
    simp only [hc, if_true, digitsVal_cons, List.length_cons]
    by_cases h1 : value < ub
    · simp only [h1, if_true]
      have := ih hd' (value * 10 + (c - 0x30)) (pos + 1) (by omega)
      rw [show pos + (rest.length + 1) = pos + 1 + rest.length by omega]
      exact this
    · simp only [h1, if_false]
      have hge := digitsVal_ge (value * 10 + (c - 0x30)) rest
      by_cases h2 : value = ub
      · simp only [h2, if_true]
        subst h2
        by_cases h3 : c - 0x30 ≤ ldm
        · simp only [h3, if_true]
          cases rest with
          | nil =>
            simp only [digitsVal_nil, List.length_nil]
            exact ⟨fun _ => trivial, fun h => by omega⟩
          | cons c2 rest2 =>
            obtain ⟨hc2, _⟩ := (allDigits_cons c2 rest2).mp hd'
            simp only [hc2, if_true]
            have hge2 := digitsVal_ge ((value * 10 + (c - 0x30)) * 10 + (c2 - 0x30)) rest2
            simp only [digitsVal_cons] at hge2 ⊢
            exact ⟨fun h => by omega, fun _ => trivial⟩
        · simp only [h3, if_false]
          exact ⟨fun h => by omega, fun _ => trivial⟩
      · simp only [h2, if_false]
        exact ⟨fun h => by omega, fun _ => trivial⟩

theorem umaxLoop_nondigit (ub ldm : Nat) (rest : List Nat) (hd : ¬ allDigits rest)
    (value pos : Nat) : (strtoumaxLoop ub ldm value pos rest).res ≠ .ok := by
  induction rest generalizing value pos with
  | nil => exact absurd allDigits_nil hd
  | cons c rest ih =>
    rw [strtoumaxLoop]
    by_cases hc : isDigit c = true
    · have hd' : ¬ allDigits rest := fun h => hd ((allDigits_cons c rest).mpr ⟨hc, h⟩)
      simp only [hc, if_true]
      split
      · exact ih hd' _ _
      · split
        · split
          · cases rest with
            | nil => exact absurd allDigits_nil hd'
            | cons c2 rest2 => simp only []; split <;> simp
          · simp
        · simp
    · simp [hc]

/-! ### entry points -/

theorem digits?_of_allDigits {ds : List Nat} (hne : ds ≠ []) (hd : allDigits ds) :
    digits? ds = some (digitsVal 0 ds) := by
  simp [digits?, hne, hd]

theorem digits?_of_not_allDigits {ds : List Nat} (hd : ¬ allDigits ds) : digits? ds = none := by
  simp [digits?, hd]

theorem digits?_nil : digits? [] = none := by simp [digits?]

/-- the signed loop started at value 0 on a non-empty tail: accepts exactly the digit strings
    whose value is `≤ ub*10+ldm` -/
theorem imaxLoop_entry (ub ldm : Nat) (sign : Int) (hub : 1 ≤ ub) (hldm : ldm ≤ 9)
    (hs : sign = 1 ∨ sign = -1) (ds : List Nat) (hne : ds ≠ []) (pos : Nat) :
    (∀ n, digits? ds = some n → n ≤ ub * 10 + ldm →
      strtoimaxLoop ub ldm sign 0 pos ds = ⟨.ok, pos + ds.length, some (sign * (n : Int))⟩) ∧
    ((strtoimaxLoop ub ldm sign 0 pos ds).res = .ok →
      ∃ n, digits? ds = some n ∧ n ≤ ub * 10 + ldm) := by
  by_cases hd : allDigits ds
  · have hL := imaxLoop_digits ub ldm sign hub hldm hs ds hd 0 pos (by omega)
    rw [digits?_of_allDigits hne hd]
    refine ⟨fun n hn hle => ?_, fun hok => ⟨_, rfl, ?_⟩⟩
    · cases hn; exact hL.1 hle
    · apply Nat.le_of_not_lt
      intro hgt
      have := hL.2 hgt
      simp only [Int.natCast_zero] at this
      rw [this] at hok; cases hok
  · rw [digits?_of_not_allDigits hd]
    refine ⟨fun n hn => (by cases hn), fun hok => ?_⟩
    exact absurd hok (imaxLoop_nondigit ub ldm sign ds hd 0 pos)

theorem umaxLoop_entry (ub ldm : Nat) (hub : 1 ≤ ub) (hldm : ldm ≤ 9)
    (ds : List Nat) (hne : ds ≠ []) (pos : Nat) :
    (∀ n, digits? ds = some n → n ≤ ub * 10 + ldm →
      strtoumaxLoop ub ldm 0 pos ds = ⟨.ok, pos + ds.length, some (n : Int)⟩) ∧
    ((strtoumaxLoop ub ldm 0 pos ds).res = .ok →
      ∃ n, digits? ds = some n ∧ n ≤ ub * 10 + ldm) := by
  by_cases hd : allDigits ds
  · have hL := umaxLoop_digits ub ldm hub hldm ds hd 0 pos (by omega)
    rw [digits?_of_allDigits hne hd]
    refine ⟨fun n hn hle => ?_, fun hok => ⟨_, rfl, ?_⟩⟩
    · cases hn; exact hL.1 hle
    · apply Nat.le_of_not_lt
      intro hgt
      have := hL.2 hgt
      rw [this] at hok; cases hok
  · rw [digits?_of_not_allDigits hd]
    refine ⟨fun n hn => (by cases hn), fun hok => ?_⟩
    exact absurd hok (umaxLoop_nondigit ub ldm ds hd 0 pos)

theorem imaxMax_div : imaxMax / 10 = ((922337203685477580 : Nat) : Int) := by decide
theorem imaxMax_mod : imaxMax % 10 = ((7 : Nat) : Int) := by decide
theorem imaxMax_mod1 : imaxMax % 10 + 1 = ((8 : Nat) : Int) := by decide
theorem umaxMax_div : umaxMax / 10 = 1844674407370955161 := by decide
theorem umaxMax_mod : umaxMax % 10 = 5 := by decide

/-- `asn_strtoimax_lim` accepts exactly the in-range signed numerals (value and end pinned) -/
theorem strtoimax_char (s : List Nat) :
    (∀ v, numeral? true s = some v → fitsS64 v → strtoimax s = ⟨.ok, s.length, some v⟩) ∧
    ((strtoimax s).res = .ok → ∃ v, numeral? true s = some v ∧ fitsS64 v) := by
  cases s with
  | nil => simp [numeral?, strtoimax]
  | cons c rest =>
    simp only [numeral?, strtoimax, if_true, List.length_cons]
    by_cases h1 : c = 0x2d
    · simp only [h1, if_true]
      by_cases hr : rest = []
      · subst hr; simp [digits?_nil]
      · simp only [hr, if_false]
        rw [imaxMax_div, imaxMax_mod1]
        have hE := imaxLoop_entry 922337203685477580 8 (-1) (by omega) (by omega) (Or.inr rfl) rest hr 1
        constructor
        · intro v hv hf
          obtain ⟨n, hn, rfl⟩ := Option.map_eq_some_iff.mp hv
          rw [hE.1 n hn (by unfold fitsS64 at hf; omega)]
          simp [Nat.add_comm]
        · intro hok
          obtain ⟨n, hn, hle⟩ := hE.2 hok
          exact ⟨-(n : Int), by simp [hn], by unfold fitsS64; omega⟩
    · simp only [h1, if_false]
      by_cases h2 : c = 0x2b
      · simp only [h2, if_true]
        by_cases hr : rest = []
        · subst hr; simp [digits?_nil]
        · simp only [hr, if_false]
          rw [imaxMax_div, imaxMax_mod]
          have hE := imaxLoop_entry 922337203685477580 7 1 (by omega) (by omega) (Or.inl rfl) rest hr 1
          constructor
          · intro v hv hf
            obtain ⟨n, hn, rfl⟩ := Option.map_eq_some_iff.mp hv
            rw [hE.1 n hn (by unfold fitsS64 at hf; omega)]
            simp [Nat.add_comm]
          · intro hok
            obtain ⟨n, hn, hle⟩ := hE.2 hok
            exact ⟨(n : Int), by simp [hn], by unfold fitsS64; omega⟩
      · simp only [h2, if_false]
        rw [imaxMax_div, imaxMax_mod]
        have hE := imaxLoop_entry 922337203685477580 7 1 (by omega) (by omega) (Or.inl rfl) (c :: rest)
          (by simp) 0
        constructor
        · intro v hv hf
          obtain ⟨n, hn, rfl⟩ := Option.map_eq_some_iff.mp hv
          rw [hE.1 n hn (by unfold fitsS64 at hf; omega)]
          simp
        · intro hok
          obtain ⟨n, hn, hle⟩ := hE.2 hok
          exact ⟨(n : Int), by simp [hn], by unfold fitsS64; omega⟩

/-- `asn_strtoumax_lim` accepts exactly the in-range unsigned numerals (value and end pinned) -/
theorem strtoumax_char (s : List Nat) :
    (∀ v, numeral? false s = some v → fitsU64 v → strtoumax s = ⟨.ok, s.length, some v⟩) ∧
    ((strtoumax s).res = .ok → ∃ v, numeral? false s = some v ∧ fitsU64 v) := by
  cases s with
  | nil => simp [numeral?, strtoumax]
  | cons c rest =>
    simp only [numeral?, strtoumax, List.length_cons]
    by_cases h1 : c = 0x2d
    · simp [h1]
    · simp only [h1, if_false]
      by_cases h2 : c = 0x2b
      · simp only [h2, if_true]
        by_cases hr : rest = []
        · subst hr; simp [digits?_nil]
        · simp only [hr, if_false]
          rw [umaxMax_div, umaxMax_mod]
          have hE := umaxLoop_entry 1844674407370955161 5 (by omega) (by omega) rest hr 1
          constructor
          · intro v hv hf
            obtain ⟨n, hn, rfl⟩ := Option.map_eq_some_iff.mp hv
            rw [hE.1 n hn (by unfold fitsU64 at hf; omega)]
            simp [Nat.add_comm]
          · intro hok
            obtain ⟨n, hn, hle⟩ := hE.2 hok
            exact ⟨(n : Int), by simp [hn], by unfold fitsU64; omega⟩
      · simp only [h2, if_false]
        rw [umaxMax_div, umaxMax_mod]
        have hE := umaxLoop_entry 1844674407370955161 5 (by omega) (by omega) (c :: rest) (by simp) 0
        constructor
        · intro v hv hf
          obtain ⟨n, hn, rfl⟩ := Option.map_eq_some_iff.mp hv
          rw [hE.1 n hn (by unfold fitsU64 at hf; omega)]
          simp
        · intro hok
          obtain ⟨n, hn, hle⟩ := hE.2 hok
          exact ⟨(n : Int), by simp [hn], by unfold fitsU64; omega⟩

theorem strtol_ok_imp (s : List Nat) (h : (strtol s).res = .ok) : (strtoimax s).res = .ok := by
  unfold strtol at h
  generalize strtoimax s = r at h
  obtain ⟨res, e, val⟩ := r
  cases res <;> cases val <;> simp only [] at h ⊢ <;> (try split at h) <;> simp_all

theorem strtoul_ok_imp (s : List Nat) (h : (strtoul s).res = .ok) : (strtoumax s).res = .ok := by
  unfold strtoul at h
  generalize strtoumax s = r at h
  obtain ⟨res, e, val⟩ := r
  cases res <;> cases val <;> simp only [] at h ⊢ <;> (try split at h) <;> simp_all

theorem strtol_char (s : List Nat) :
    (∀ v, numeral? true s = some v → fitsS64 v → strtol s = ⟨.ok, s.length, some v⟩) ∧
    ((strtol s).res = .ok → ∃ v, numeral? true s = some v ∧ fitsS64 v) := by
  refine ⟨fun v hv hf => ?_, fun h => (strtoimax_char s).2 (strtol_ok_imp s h)⟩
  unfold strtol
  rw [(strtoimax_char s).1 v hv hf]
  unfold fitsS64 at hf
  have : v ≥ -(2 ^ 63) ∧ v ≤ 2 ^ 63 - 1 := by omega
  simp only [this, and_self, if_true]

theorem strtoul_char (s : List Nat) :
    (∀ v, numeral? false s = some v → fitsU64 v → strtoul s = ⟨.ok, s.length, some v⟩) ∧
    ((strtoul s).res = .ok → ∃ v, numeral? false s = some v ∧ fitsU64 v) := by
  refine ⟨fun v hv hf => ?_, fun h => (strtoumax_char s).2 (strtoul_ok_imp s h)⟩
  unfold strtoul
  rw [(strtoumax_char s).1 v hv hf]
  unfold fitsU64 at hf
  have : v ≤ 2 ^ 64 - 1 := by omega
  simp only [this, if_true]

/-- `numeral?` spelled out: `s` is `sign ++ digits` with an optional sign and `digit+` -/
theorem numeral?_eq_some_iff (signed : Bool) (s : List Nat) (v : Int) :
    numeral? signed s = some v ↔
      ∃ sign digits, s = sign ++ digits ∧
        (sign = [] ∨ sign = [0x2b] ∨ (signed = true ∧ sign = [0x2d])) ∧
        digits ≠ [] ∧ allDigits digits ∧
        v = (if sign = [0x2d] then -1 else 1) * (digitsVal 0 digits : Int) := by
  constructor
  · intro h
    cases s with
    | nil => simp [numeral?] at h
    | cons c cs =>
      simp only [numeral?] at h
      by_cases h1 : c = 0x2d
      · simp only [h1, if_true] at h
        cases signed with
        | false => simp at h
        | true =>
          simp only [if_true] at h
          obtain ⟨n, hn, rfl⟩ := Option.map_eq_some_iff.mp h
          by_cases hd : cs ≠ [] ∧ allDigits cs
          · rw [digits?_of_allDigits hd.1 hd.2] at hn
            cases hn
            exact ⟨[0x2d], cs, by simp [h1], by simp, hd.1, hd.2, by simp⟩
          · simp [digits?, hd] at hn
      · simp only [h1, if_false] at h
        by_cases h2 : c = 0x2b
        · simp only [h2, if_true] at h
          obtain ⟨n, hn, rfl⟩ := Option.map_eq_some_iff.mp h
          by_cases hd : cs ≠ [] ∧ allDigits cs
          · rw [digits?_of_allDigits hd.1 hd.2] at hn
            cases hn
            exact ⟨[0x2b], cs, by simp [h2], by simp, hd.1, hd.2, by simp⟩
          · simp [digits?, hd] at hn
        · simp only [h2, if_false] at h
          obtain ⟨n, hn, rfl⟩ := Option.map_eq_some_iff.mp h
          by_cases hd : allDigits (c :: cs)
          · rw [digits?_of_allDigits (by simp) hd] at hn
            cases hn
            exact ⟨[], c :: cs, by simp, by simp, by simp, hd, by simp⟩
          · simp [digits?, hd] at hn
  · rintro ⟨sign, digits, rfl, hs, hne, hd, rfl⟩
    rcases hs with rfl | rfl | ⟨rfl, rfl⟩
    · cases digits with
      | nil => exact absurd rfl hne
      | cons c cs =>
        have hc := (isDigit_iff c).mp ((allDigits_cons c cs).mp hd).1
        have h1 : c ≠ 0x2d := by omega
        have h2 : c ≠ 0x2b := by omega
        simp [numeral?, h1, h2, digits?, hd]
    · simp [numeral?, digits?, hne, hd]
    · simp [numeral?, digits?, hne, hd]

end Asn1c.Proofs.Strtox
