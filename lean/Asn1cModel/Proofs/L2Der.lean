import Asn1cModel.L2.Der
import Asn1cModel.Proofs.L2Tlv
import Asn1cModel.Props.C16
/-
  L2 interpretation layer: `interp` inverts `toTlv` on well-formed types and canonical values.
  Helper lemmas for C01 (DER round trip).
-/
namespace Asn1c.Proofs.L2Der
open Asn1c Asn1c.Impl.BerTlv Asn1c.L2 Asn1c.Spec Asn1c.Proofs.L2Tlv Asn1c.Proofs.Integer

/-! ### insertion sort -/

section SortLemmas
variable {α : Type} (le : α → α → Bool)

theorem mem_insertBy (x c : α) (l : List α) : c ∈ insertBy le x l ↔ c = x ∨ c ∈ l := by
  induction l with
  | nil => simp [insertBy]
  | cons y ys ih =>
    simp only [insertBy]
    split
    · simp
    · simp [ih]; tauto

theorem mem_sortBy (c : α) (l : List α) : c ∈ sortBy le l ↔ c ∈ l := by
  induction l with
  | nil => simp [sortBy]
  | cons x xs ih => simp [sortBy, mem_insertBy, ih]

theorem perm_insertBy (x : α) (l : List α) : (insertBy le x l).Perm (x :: l) := by
  induction l with
  | nil => simp [insertBy]
  | cons y ys ih =>
    simp only [insertBy]
    split
    · exact List.Perm.refl _
    · exact (List.Perm.cons y ih).trans (List.Perm.swap x y ys)

theorem perm_sortBy (l : List α) : (sortBy le l).Perm l := by
  induction l with
  | nil => simp [sortBy]
  | cons x xs ih => exact (perm_insertBy le x _).trans (List.Perm.cons x ih)

/-- adjacent elements are in order -/
def chainB : List α → Bool
  | [] => true
  | [_] => true
  | x :: y :: l => le x y && chainB (y :: l)

theorem sortBy_of_chain (l : List α) (h : chainB le l = true) : sortBy le l = l := by
  induction l with
  | nil => rfl
  | cons x xs ih =>
    cases xs with
    | nil => rfl
    | cons y ys =>
      simp only [chainB, Bool.and_eq_true] at h
      rw [sortBy, ih h.2, insertBy, if_pos h.1]

end SortLemmas

/-! ### explicit tag wrappers -/

theorem tag_wrapAround (outer : List Tag) (y : Tlv) :
    (wrapAround outer y).tag = (outer ++ [y.tag]).head (by simp) := by
  cases outer with
  | nil => simp [wrapAround]
  | cons t ts => simp [wrapAround, Tlv.tag]

theorem unwrapAround_wrapAround (outer : List Tag) (y : Tlv) :
    unwrapAround outer (wrapAround outer y) = some y := by
  induction outer with
  | nil => simp [wrapAround, unwrapAround]
  | cons t ts ih => simp [wrapAround, unwrapAround, ih]

theorem wrapTags_eq_some (tags : List Tag) (mk : Tag → Tlv) (x : Tlv) :
    wrapTags tags mk = some x ↔ ∃ outer inner, tags = outer ++ [inner] ∧ x = wrapAround outer (mk inner) := by
  unfold wrapTags
  constructor
  · intro h
    split at h
    · cases h
    · rename_i inner outerRev hr
      refine ⟨outerRev.reverse, inner, ?_, by injection h with h; exact h.symm⟩
      have := congrArg List.reverse hr
      simpa using this
  · rintro ⟨outer, inner, rfl, rfl⟩
    simp

theorem unwrapTags_wrapAround (outer : List Tag) (inner : Tag) (y : Tlv) (hy : y.tag = inner) :
    unwrapTags (outer ++ [inner]) (wrapAround outer y) = some y := by
  unfold unwrapTags
  simp [unwrapAround_wrapAround, hy]

theorem isDer_wrapAround (outer : List Tag) (y : Tlv) (ho : ∀ t ∈ outer, TagOk t) (hy : IsDer y) :
    IsDer (wrapAround outer y) := by
  induction outer with
  | nil => simpa [wrapAround] using hy
  | cons t ts ih =>
    simp only [wrapAround]
    refine (isDer_cons t 0 _).mpr ⟨ho t (by simp), rfl, ?_⟩
    exact (isDerList_cons _ _).mpr ⟨ih (fun t' ht' => ho t' (by simp [ht'])), isDerList_nil⟩

/-! ### INTEGER contents -/

theorem toBE_wf (n : Nat) : Bytes.wf (toBE n) := by
  induction n using Nat.strong_induction_on with
  | _ n ih =>
    by_cases h : n = 0
    · subst h; rw [toBE_zero]; intro b hb; cases hb
    · rw [toBE_pos n h]
      intro b hb
      rcases List.mem_append.mp hb with hb | hb
      · exact ih (n / 256) (by omega) b hb
      · simp at hb; omega

theorem toBE_head_ne_zero (n : Nat) (b : Nat) (bs : Bytes) (h : toBE n = b :: bs) : b ≠ 0 := by
  induction n using Nat.strong_induction_on generalizing b bs with
  | _ n ih =>
    by_cases h0 : n = 0
    · subst h0; rw [toBE_zero] at h; cases h
    · rw [toBE_pos n h0] at h
      by_cases h1 : n / 256 = 0
      · rw [h1, toBE_zero] at h
        simp at h
        omega
      · cases hq : toBE (n / 256) with
        | nil => exact absurd hq (toBE_ne_nil _ h1)
        | cons c cs =>
          rw [hq] at h
          simp at h
          rw [← h.1]
          exact ih (n / 256) (by omega) c cs hq

theorem natOctets_props (n : Nat) :
    ∃ b bs, natOctets n = b :: bs ∧ b < 128 ∧ Bytes.wf (b :: bs) ∧ ofBE 0 (b :: bs) = n ∧
      (b = 0 → ∀ c cs, bs = c :: cs → ¬ c < 128) := by
  unfold natOctets
  have hw := toBE_wf n
  have hv := ofBE_toBE n
  cases hq : toBE n with
  | nil =>
    rw [hq] at hv
    refine ⟨0, [], rfl, by omega, ?_, ?_, ?_⟩
    · intro b hb; simp at hb; omega
    · simp [ofBE] at hv ⊢; exact hv
    · intro _ c cs h; cases h
  | cons b bs =>
    rw [hq] at hv hw
    have hb0 := toBE_head_ne_zero n b bs hq
    simp only []
    split
    · rename_i hge
      refine ⟨0, b :: bs, rfl, by omega, ?_, ?_, ?_⟩
      · intro x hx
        rcases List.mem_cons.mp hx with hx | hx
        · omega
        · exact hw x hx
      · rw [ofBE]; exact hv
      · intro _ c cs h; injection h with h1 h2; omega
    · rename_i hlt
      exact ⟨b, bs, rfl, by omega, hw, hv, fun h => absurd h hb0⟩

theorem ofBE_compl (l : Bytes) (h : Bytes.wf l) :
    ofBE 0 (l.map (255 - ·)) + ofBE 0 l + 1 = 256 ^ l.length := by
  induction l using List.reverseRecOn with
  | nil => simp [ofBE]
  | append_singleton l d ih =>
    have hd : d < 256 := h d (by simp)
    have hl : Bytes.wf l := fun x hx => h x (by simp [hx])
    have := ih hl
    rw [List.map_append, List.map_singleton, ofBE_snoc, ofBE_snoc, List.length_append, List.length_singleton,
      Nat.pow_succ]
    omega

theorem twosVal_intOctets (z : Int) : twosVal (intOctets z) = z := by
  unfold intOctets
  split
  · rename_i hz
    obtain ⟨b, bs, he, hb, _, hv, _⟩ := natOctets_props z.toNat
    rw [he, twosVal, if_pos hb, hv]
    omega
  · rename_i hz
    obtain ⟨b, bs, he, hb, hw, hv, _⟩ := natOctets_props (-z - 1).toNat
    rw [he]
    have hc := ofBE_compl (b :: bs) hw
    simp only [List.map_cons] at hc ⊢
    rw [twosVal, if_neg (by omega)]
    simp only [List.length_map]
    simp only [List.length_cons] at hc
    rw [hv] at hc
    have : ((ofBE 0 ((255 - b) :: List.map (fun x => 255 - x) bs) : Nat) : Int) + ((-z - 1).toNat : Int) + 1
        = ((256 ^ (bs.length + 1) : Nat) : Int) := by exact_mod_cast hc
    push_cast at this
    omega

theorem intOctets_ne_nil (z : Int) : intOctets z ≠ [] := by
  unfold intOctets
  split
  · obtain ⟨b, bs, he, _⟩ := natOctets_props z.toNat
    rw [he]; simp
  · obtain ⟨b, bs, he, _⟩ := natOctets_props (-z - 1).toNat
    rw [he]; simp

theorem intOctets_wf (z : Int) : Bytes.wf (intOctets z) := by
  unfold intOctets
  split
  · obtain ⟨b, bs, he, _, hw, _⟩ := natOctets_props z.toNat
    rw [he]; exact hw
  · obtain ⟨b, bs, he, _, hw, _⟩ := natOctets_props (-z - 1).toNat
    rw [he]
    intro x hx
    obtain ⟨y, _, rfl⟩ := List.mem_map.mp hx
    omega

theorem minimalTwos_of (b : Nat) (bs : Bytes)
    (h0 : b = 0 → ∀ c cs, bs = c :: cs → ¬ c < 128)
    (h255 : b = 255 → ∀ c cs, bs = c :: cs → ¬ c ≥ 128) : MinimalTwos (b :: bs) := by
  unfold MinimalTwos
  split
  · rename_i c cs heq
    injection heq with e1 e2
    exact h0 e1 c cs e2
  · rename_i c cs heq
    injection heq with e1 e2
    exact h255 e1 c cs e2
  · trivial

/-- X.690 §8.3.2: the contents octets written for an INTEGER are minimal -/
theorem intOctets_minimal (z : Int) : MinimalTwos (intOctets z) := by
  unfold intOctets
  split
  · obtain ⟨b, bs, he, hb, _, _, hm⟩ := natOctets_props z.toNat
    rw [he]
    exact minimalTwos_of b bs hm (fun h => by omega)
  · obtain ⟨b, bs, he, hb, hw, _, hm⟩ := natOctets_props (-z - 1).toNat
    rw [he, List.map_cons]
    apply minimalTwos_of
    · intro h; omega
    · intro h c cs hc
      have hb0 : b = 0 := by omega
      cases bs with
      | nil => cases hc
      | cons d ds =>
        simp only [List.map_cons] at hc
        injection hc with h1 h2
        have := hm hb0 d ds rfl
        omega

/-! ### primitive kinds -/

/-- the doubles that `asn_double2REAL`/`asn_REAL2double` carry through bit for bit
    (C16: every double that is not a NaN — normal, subnormal, ±0, ±∞; NaN payloads are not preserved) -/
def RealOk (b : Nat) : Prop :=
  b < 2 ^ 64 ∧ ¬ Asn1c.Spec.f64IsNaN b

instance (b : Nat) : Decidable (RealOk b) := by unfold RealOk; infer_instance

theorem real_roundtrip (b : Nat) (h : RealOk b) :
    Asn1c.Impl.Real.REAL2double (Asn1c.Impl.Real.double2REAL b) = .ok b :=
  Asn1c.Props.C16.REAL2double_double2REAL b h.1 h.2

/-- the REAL contents written by the reference codecs (`Impl.Real.double2REAL`, shared by L2/Der, L2/Oer
    and L2/Uper) are the X.690 DER contents (§8.5 + §11.3.1) of the double, for every bit pattern -/
theorem primContent_real_eq_derReal (b : Nat) :
    primContent .real (.real b) = some (Asn1c.Spec.derReal b) := by
  simp only [primContent, Asn1c.Props.C16.double2REAL_eq_derReal]

/-- canonical abstract values of the primitive kinds -/
def canonPrim : Prim → Val → Bool
  | .boolean, .bool _ => true
  | .null, .null => true
  | .integer, .int _ => true
  | .enumerated, .int _ => true
  | .real, .real b => decide (RealOk b)
  | .octets, .octets _ => true
  | .bits, .bits bs u => decide (u ≤ 7 ∧ (bs = [] → u = 0) ∧ maskLast bs u = bs)
  | _, _ => false

theorem primContent_total (p : Prim) (v : Val) (h : canonPrim p v = true) : ∃ c, primContent p v = some c := by
  cases p <;> cases v <;> try (simp [canonPrim] at h; done)
  case bits.bits bs u =>
    simp only [canonPrim, decide_eq_true_eq] at h
    exact ⟨_, by simp only [primContent]; exact if_pos ⟨h.1, h.2.1⟩⟩
  all_goals simp [primContent]

theorem decPrim_primContent (p : Prim) (v : Val) (c : Bytes) (t : Tag) (k : Nat)
    (hc : canonPrim p v = true) (h : primContent p v = some c) : decPrim p (.prim t k c) = some v := by
  cases p <;> cases v <;> try (simp [canonPrim] at hc; done)
  case bits.bits bs u =>
    simp only [canonPrim, decide_eq_true_eq] at hc
    obtain ⟨h1, h2, h3⟩ := hc
    simp only [primContent] at h
    rw [if_pos ⟨h1, h2⟩] at h
    injection h with h
    subst h
    simp only [decPrim, h3]
    rw [if_pos ⟨h1, h2⟩]
  case boolean.bool b =>
    simp only [primContent] at h; injection h with h; subst h
    cases b <;> simp [decPrim]
  case null.null =>
    simp only [primContent] at h; injection h with h; subst h
    simp [decPrim]
  case integer.int z =>
    simp only [primContent] at h; injection h with h; subst h
    cases hq : intOctets z with
    | nil => exact absurd hq (intOctets_ne_nil z)
    | cons b bs => simp only [decPrim]; rw [← hq, twosVal_intOctets]
  case enumerated.int z =>
    simp only [primContent] at h; injection h with h; subst h
    cases hq : intOctets z with
    | nil => exact absurd hq (intOctets_ne_nil z)
    | cons b bs => simp only [decPrim]; rw [← hq, twosVal_intOctets]
  case real.real b =>
    simp only [primContent] at h; injection h with h; subst h
    simp only [canonPrim, decide_eq_true_eq] at hc
    simp only [decPrim, real_roundtrip _ hc]
  case octets.octets bs =>
    simp only [primContent] at h; injection h with h; subst h
    simp [decPrim, stringContent]

/-! ### well-formed types, canonical values -/

def disjointB (a b : List Tag) : Bool := a.all (fun t => !b.contains t)

/-- `T` is disjoint from the outermost tags of the following components up to and including
    the next mandatory one -/
def disjFollow (T : List Tag) : List Ty → List Attr → Bool
  | m :: ms, a :: as => disjointB T (outerTags m) && (!a.optional || disjFollow T ms as)
  | _, _ => true

/-- X.680 §25.6: an OPTIONAL/DEFAULT component's tags differ from those of the following
    components up to and including the next mandatory one -/
def seqDisj : List Ty → List Attr → Bool
  | m :: ms, a :: as => (!a.optional || disjFollow (outerTags m) ms as) && seqDisj ms as
  | _, _ => true

/-- pairwise distinct outermost tags (X.680 §27.3 SET, §29.3 CHOICE) -/
def pairDisj : List Ty → Bool
  | [] => true
  | m :: ms => disjointB (outerTags m) (outerTagsAlts ms) && pairDisj ms

def tagsOkB (tags : List Tag) : Bool := tags.all (fun t => decide (TagOk t))

mutual
def tyWfB : Ty → Bool
  | .prim tags _ => tagsOkB tags && !tags.isEmpty
  | .seq tags ms attrs _ =>
    tagsOkB tags && !tags.isEmpty && tyWfListB ms && (attrs.length == ms.length) && seqDisj ms attrs
  | .set tags ms attrs _ =>
    tagsOkB tags && !tags.isEmpty && tyWfListB ms && (attrs.length == ms.length) && pairDisj ms
  | .choice tags alts _ => tagsOkB tags && tyWfListB alts && pairDisj alts
  | .seqOf tags e => tagsOkB tags && !tags.isEmpty && tyWfB e
  | .setOf tags e => tagsOkB tags && !tags.isEmpty && tyWfB e
def tyWfListB : List Ty → Bool
  | [] => true
  | m :: ms => tyWfB m && tyWfListB ms
end

/-- **well-formed resolved type**: every tag fits `ber_tlv_tag_t`; every non-CHOICE node has at
    least one tag; SEQUENCE/SET have one attribute record per component; the tag-distinctness
    rules of X.680 §25.6 (SEQUENCE), §27.3 (SET) and §29.3 (CHOICE) hold. -/
def TyWf (t : Ty) : Prop := tyWfB t = true
instance (t : Ty) : Decidable (TyWf t) := by unfold TyWf; infer_instance

def isAbsent : Val → Bool
  | .absent => true
  | _ => false

/-- SET OF: the element encodings are in ascending order (X.690 §11.6) -/
def sortedEnc (e : Ty) (vs : List Val) : Bool :=
  match toTlvList e vs with
  | some cs => chainB (fun a b => bytesLe a.enc b.enc) cs
  | none => false

mutual
def canonB : Ty → Val → Bool
  | .prim _ p, v => canonPrim p v
  | .seq _ ms attrs _, .seq vs => canonSeq ms attrs vs
  | .set _ ms attrs _, .seq vs => canonSeq ms attrs vs
  | .choice _ alts _, .choice i v => canonAlt alts i v
  | .seqOf _ e, .list vs => vs.all (fun v => canonB e v)
  | .setOf _ e, .list vs => vs.all (fun v => canonB e v) && sortedEnc e vs
  | _, _ => false
def canonSeq : List Ty → List Attr → List Val → Bool
  | [], [], [] => true
  | m :: ms, a :: as, v :: vs =>
    (if isAbsent v then a.optional else (!isDefault a v && canonB m v)) && canonSeq ms as vs
  | _, _, _ => false
def canonAlt : List Ty → Nat → Val → Bool
  | [], _, _ => false
  | a :: _, 0, v => canonB a v
  | _ :: as, i + 1, v => canonAlt as i v
end

/-- **canonical abstract value of a type**: the value has the shape of the type; absent
    components are OPTIONAL/DEFAULT, present ones are not the DEFAULT value; BIT STRING values
    are normalised (unused ≤ 7, unused bits zero); REAL values are in `RealOk`; SET OF lists
    are sorted by element encoding. -/
def Canon (t : Ty) (v : Val) : Prop := canonB t v = true
instance (t : Ty) (v : Val) : Decidable (Canon t v) := by unfold Canon; infer_instance

theorem Ty.induct' (P : Ty → Prop)
    (prim : ∀ tags p, P (.prim tags p))
    (seq : ∀ tags ms attrs ext, (∀ m ∈ ms, P m) → P (.seq tags ms attrs ext))
    (set : ∀ tags ms attrs ext, (∀ m ∈ ms, P m) → P (.set tags ms attrs ext))
    (choice : ∀ tags alts ext, (∀ m ∈ alts, P m) → P (.choice tags alts ext))
    (seqOf : ∀ tags e, P e → P (.seqOf tags e))
    (setOf : ∀ tags e, P e → P (.setOf tags e)) : ∀ t, P t := by
  intro t
  refine Ty.rec (motive_1 := P) (motive_2 := fun ms => ∀ m ∈ ms, P m)
    prim seq set choice seqOf setOf ?_ ?_ t
  · intro m hm; cases hm
  · intro h tl ih1 ih2 m hm
    rcases List.mem_cons.mp hm with rfl | hm
    · exact ih1
    · exact ih2 m hm

theorem tyWfList_iff (ms : List Ty) : tyWfListB ms = true ↔ ∀ m ∈ ms, TyWf m := by
  induction ms with
  | nil => simp [tyWfListB]
  | cons m ms ih => simp [tyWfListB, ih, TyWf]

theorem tagsOk_iff (tags : List Tag) : tagsOkB tags = true ↔ ∀ t ∈ tags, TagOk t := by
  simp [tagsOkB]

theorem disjointB_iff (a b : List Tag) : disjointB a b = true ↔ ∀ t ∈ a, t ∉ b := by
  simp [disjointB]

theorem mem_outerTagsAlts (t : Tag) (alts : List Ty) :
    t ∈ outerTagsAlts alts ↔ ∃ a ∈ alts, t ∈ outerTags a := by
  induction alts with
  | nil => simp [outerTagsAlts]
  | cons a as ih => simp [outerTagsAlts, ih]

example : TyWf (.seq [⟨0, 16⟩] [.prim [⟨2, 0⟩] .integer, .prim [⟨0, 2⟩] .integer]
    [⟨true, none, false⟩, ⟨false, none, false⟩] false) := by decide

/-! ### unfolding lemmas for the encoder and the interpreter -/

theorem toTlv_prim (tags : List Tag) (p : Prim) (v : Val) (x : Tlv) :
    toTlv (.prim tags p) v = some x ↔
      ∃ c, primContent p v = some c ∧ wrapTags tags (fun t => .prim t 0 c) = some x := by
  rw [toTlv]
  split <;> simp_all

theorem toTlv_seq (tags : List Tag) (ms : List Ty) (attrs : List Attr) (ext : Bool) (v : Val) (x : Tlv) :
    toTlv (.seq tags ms attrs ext) v = some x ↔
      ∃ vs cs, v = .seq vs ∧ toTlvs ms attrs vs = some cs ∧
        wrapTags tags (fun t => .cons t (some 0) cs) = some x := by
  cases v <;> simp [toTlv]
  split <;> simp_all

theorem toTlv_set (tags : List Tag) (ms : List Ty) (attrs : List Attr) (ext : Bool) (v : Val) (x : Tlv) :
    toTlv (.set tags ms attrs ext) v = some x ↔
      ∃ vs cs, v = .seq vs ∧ toTlvs ms attrs vs = some cs ∧
        wrapTags tags (fun t => .cons t (some 0) (sortBy (fun a b => tagLe a.tag b.tag) cs)) = some x := by
  cases v <;> simp [toTlv]
  split <;> simp_all

theorem toTlv_choice (tags : List Tag) (alts : List Ty) (ext : Bool) (v : Val) (x : Tlv) :
    toTlv (.choice tags alts ext) v = some x ↔
      ∃ i v' y, v = .choice i v' ∧ toTlvAlt alts i v' = some y ∧ x = wrapAround tags y := by
  cases v <;> simp [toTlv]
  split <;> simp_all
  exact eq_comm

theorem toTlv_seqOf (tags : List Tag) (e : Ty) (v : Val) (x : Tlv) :
    toTlv (.seqOf tags e) v = some x ↔
      ∃ vs cs, v = .list vs ∧ toTlvList e vs = some cs ∧
        wrapTags tags (fun t => .cons t (some 0) cs) = some x := by
  cases v <;> simp [toTlv]
  split <;> simp_all

theorem toTlv_setOf (tags : List Tag) (e : Ty) (v : Val) (x : Tlv) :
    toTlv (.setOf tags e) v = some x ↔
      ∃ vs cs, v = .list vs ∧ toTlvList e vs = some cs ∧
        wrapTags tags (fun t => .cons t (some 0) (sortBy (fun a b => bytesLe a.enc b.enc) cs)) = some x := by
  cases v <;> simp [toTlv]
  split <;> simp_all

theorem toTlvs_nil : toTlvs [] [] [] = some [] := by rw [toTlvs]

theorem toTlvs_absent (m : Ty) (ms : List Ty) (a : Attr) (as : List Attr) (vs : List Val) :
    toTlvs (m :: ms) (a :: as) (.absent :: vs) = if a.optional then toTlvs ms as vs else none := by
  rw [toTlvs]

theorem toTlvs_present (m : Ty) (ms : List Ty) (a : Attr) (as : List Attr) (v : Val) (vs : List Val)
    (hv : isAbsent v = false) :
    toTlvs (m :: ms) (a :: as) (v :: vs) =
      if isDefault a v then toTlvs ms as vs
      else match toTlv m v, toTlvs ms as vs with
        | some x, some xs => some (x :: xs)
        | _, _ => none := by
  cases v <;> first
    | (simp [isAbsent] at hv; done)
    | (rw [toTlvs] <;> first | rfl | (intro h; cases h))

/-- shape of a successful component list encoding -/
theorem toTlvs_some (ms : List Ty) (as : List Attr) (vs : List Val) (xs : List Tlv)
    (h : toTlvs ms as vs = some xs) :
    (ms = [] ∧ as = [] ∧ vs = [] ∧ xs = []) ∨
    ∃ m ms' a as' v vs', ms = m :: ms' ∧ as = a :: as' ∧ vs = v :: vs' ∧
      ((isAbsent v = true ∧ a.optional = true ∧ toTlvs ms' as' vs' = some xs) ∨
       (isAbsent v = false ∧ isDefault a v = true ∧ toTlvs ms' as' vs' = some xs) ∨
       (isAbsent v = false ∧ isDefault a v = false ∧
          ∃ x xs', toTlv m v = some x ∧ toTlvs ms' as' vs' = some xs' ∧ xs = x :: xs')) := by
  match ms, as, vs with
  | [], [], [] => rw [toTlvs_nil] at h; injection h with h; exact Or.inl ⟨rfl, rfl, rfl, h.symm⟩
  | m :: ms', a :: as', v :: vs' =>
    right
    refine ⟨m, ms', a, as', v, vs', rfl, rfl, rfl, ?_⟩
    by_cases hv : isAbsent v = true
    · have : v = .absent := by cases v <;> simp [isAbsent] at hv; rfl
      subst this
      rw [toTlvs_absent] at h
      by_cases ho : a.optional = true
      · rw [if_pos ho] at h; exact Or.inl ⟨rfl, ho, h⟩
      · rw [if_neg ho] at h; cases h
    · have hv' : isAbsent v = false := by simpa using hv
      rw [toTlvs_present _ _ _ _ _ _ hv'] at h
      by_cases hd : isDefault a v = true
      · rw [if_pos hd] at h; exact Or.inr (Or.inl ⟨hv', hd, h⟩)
      · rw [if_neg hd] at h
        refine Or.inr (Or.inr ⟨hv', by simpa using hd, ?_⟩)
        cases h1 : toTlv m v with
        | none => rw [h1] at h; simp at h
        | some x =>
          cases h2 : toTlvs ms' as' vs' with
          | none => rw [h1, h2] at h; simp at h
          | some xs' =>
            rw [h1, h2] at h
            injection h with h
            exact ⟨x, xs', rfl, rfl, h.symm⟩
  | [], [], _ :: _ => rw [toTlvs] at h <;> simp_all
  | [], _ :: _, _ => rw [toTlvs] at h <;> simp_all
  | _ :: _, [], _ => rw [toTlvs] at h <;> simp_all
  | _ :: _, _ :: _, [] => rw [toTlvs] at h <;> simp_all

theorem toTlvAlt_nil (i : Nat) (v : Val) : toTlvAlt [] i v = none := by rw [toTlvAlt]
theorem toTlvAlt_zero (a : Ty) (as : List Ty) (v : Val) : toTlvAlt (a :: as) 0 v = toTlv a v := by
  rw [toTlvAlt]
theorem toTlvAlt_succ (a : Ty) (as : List Ty) (i : Nat) (v : Val) :
    toTlvAlt (a :: as) (i + 1) v = toTlvAlt as i v := by
  rw [toTlvAlt]

theorem toTlvList_nil (e : Ty) : toTlvList e [] = some [] := by rw [toTlvList]
theorem toTlvList_cons (e : Ty) (v : Val) (vs : List Val) :
    toTlvList e (v :: vs) =
      match toTlv e v, toTlvList e vs with
      | some x, some xs => some (x :: xs)
      | _, _ => none := by
  rw [toTlvList]; rfl

/-! ### `TyWf` per constructor -/

theorem tyWf_prim (tags : List Tag) (p : Prim) :
    TyWf (.prim tags p) ↔ (∀ t ∈ tags, TagOk t) ∧ tags ≠ [] := by
  simp [TyWf, tyWfB, tagsOkB]

theorem tyWf_seq (tags : List Tag) (ms : List Ty) (attrs : List Attr) (ext : Bool) :
    TyWf (.seq tags ms attrs ext) ↔ (∀ t ∈ tags, TagOk t) ∧ tags ≠ [] ∧ (∀ m ∈ ms, TyWf m) ∧
      attrs.length = ms.length ∧ seqDisj ms attrs = true := by
  simp only [TyWf, tyWfB, Bool.and_eq_true, tagsOk_iff, tyWfList_iff, and_assoc]
  simp [TyWf]

theorem tyWf_set (tags : List Tag) (ms : List Ty) (attrs : List Attr) (ext : Bool) :
    TyWf (.set tags ms attrs ext) ↔ (∀ t ∈ tags, TagOk t) ∧ tags ≠ [] ∧ (∀ m ∈ ms, TyWf m) ∧
      attrs.length = ms.length ∧ pairDisj ms = true := by
  simp only [TyWf, tyWfB, Bool.and_eq_true, tagsOk_iff, tyWfList_iff, and_assoc]
  simp [TyWf]

theorem tyWf_choice (tags : List Tag) (alts : List Ty) (ext : Bool) :
    TyWf (.choice tags alts ext) ↔ (∀ t ∈ tags, TagOk t) ∧ (∀ m ∈ alts, TyWf m) ∧ pairDisj alts = true := by
  simp only [TyWf, tyWfB, Bool.and_eq_true, tagsOk_iff, tyWfList_iff, and_assoc]

theorem tyWf_seqOf (tags : List Tag) (e : Ty) :
    TyWf (.seqOf tags e) ↔ (∀ t ∈ tags, TagOk t) ∧ tags ≠ [] ∧ TyWf e := by
  simp only [TyWf, tyWfB, Bool.and_eq_true, tagsOk_iff, and_assoc]
  simp

theorem tyWf_setOf (tags : List Tag) (e : Ty) :
    TyWf (.setOf tags e) ↔ (∀ t ∈ tags, TagOk t) ∧ tags ≠ [] ∧ TyWf e := by
  simp only [TyWf, tyWfB, Bool.and_eq_true, tagsOk_iff, and_assoc]
  simp

/-! ### the outermost tag of an encoding is one of `outerTags` -/

theorem wrapTags_tag (tags : List Tag) (mk : Tag → Tlv) (x : Tlv) (hmk : ∀ t, (mk t).tag = t)
    (h : wrapTags tags mk = some x) : x.tag ∈ tags.take 1 := by
  obtain ⟨outer, inner, rfl, rfl⟩ := (wrapTags_eq_some tags mk x).mp h
  cases outer with
  | nil => simp [wrapAround, hmk]
  | cons t ts => simp [wrapAround, Tlv.tag]

theorem wrapAround_tag_ne (tags : List Tag) (y : Tlv) (h : tags ≠ []) :
    (wrapAround tags y).tag ∈ tags.take 1 := by
  cases tags with
  | nil => exact absurd rfl h
  | cons t ts => simp [wrapAround, Tlv.tag]

def TagMem (t : Ty) : Prop := TyWf t → ∀ v x, toTlv t v = some x → x.tag ∈ outerTags t

theorem toTlvAlt_tag (alts : List Ty) (ih : ∀ a ∈ alts, TagMem a) (hw : ∀ a ∈ alts, TyWf a)
    (i : Nat) (v : Val) (y : Tlv) (h : toTlvAlt alts i v = some y) : y.tag ∈ outerTagsAlts alts := by
  induction alts generalizing i with
  | nil => rw [toTlvAlt_nil] at h; cases h
  | cons a as iha =>
    simp only [outerTagsAlts, List.mem_append]
    cases i with
    | zero =>
      rw [toTlvAlt_zero] at h
      exact Or.inl (ih a (by simp) (hw a (by simp)) v y h)
    | succ i =>
      rw [toTlvAlt_succ] at h
      exact Or.inr (iha (fun b hb => ih b (by simp [hb])) (fun b hb => hw b (by simp [hb])) i h)

theorem tagMem_all : ∀ t, TagMem t := by
  apply Ty.induct'
  · intro tags p _ v x h
    obtain ⟨c, _, hx⟩ := (toTlv_prim tags p v x).mp h
    simpa [outerTags] using wrapTags_tag tags _ x (fun _ => rfl) hx
  · intro tags ms attrs ext _ _ v x h
    obtain ⟨vs, cs, _, _, hx⟩ := (toTlv_seq tags ms attrs ext v x).mp h
    simpa [outerTags] using wrapTags_tag tags _ x (fun _ => rfl) hx
  · intro tags ms attrs ext _ _ v x h
    obtain ⟨vs, cs, _, _, hx⟩ := (toTlv_set tags ms attrs ext v x).mp h
    simpa [outerTags] using wrapTags_tag tags _ x (fun _ => rfl) hx
  · intro tags alts ext ih hw v x h
    obtain ⟨i, v', y, _, hy, rfl⟩ := (toTlv_choice tags alts ext v x).mp h
    obtain ⟨_, hwa, _⟩ := (tyWf_choice tags alts ext).mp hw
    simp only [outerTags]
    cases tags with
    | nil =>
      simp only [List.isEmpty_nil, if_true, wrapAround]
      exact toTlvAlt_tag alts ih hwa i v' y hy
    | cons t ts =>
      simp only [List.isEmpty_cons, Bool.false_eq_true, if_false]
      exact wrapAround_tag_ne _ _ (by simp)
  · intro tags e _ _ v x h
    obtain ⟨vs, cs, _, _, hx⟩ := (toTlv_seqOf tags e v x).mp h
    simpa [outerTags] using wrapTags_tag tags _ x (fun _ => rfl) hx
  · intro tags e _ _ v x h
    obtain ⟨vs, cs, _, _, hx⟩ := (toTlv_setOf tags e v x).mp h
    simpa [outerTags] using wrapTags_tag tags _ x (fun _ => rfl) hx

/-- the outermost tag of the encoding of a value is one of the type's `outerTags` -/
theorem toTlv_tag_mem (t : Ty) (hw : TyWf t) (v : Val) (x : Tlv) (h : toTlv t v = some x) :
    x.tag ∈ outerTags t := tagMem_all t hw v x h

theorem toTlvs_tags (ms : List Ty) (hw : ∀ m ∈ ms, TyWf m) (as : List Attr) (vs : List Val) (xs : List Tlv)
    (h : toTlvs ms as vs = some xs) : ∀ x ∈ xs, x.tag ∈ outerTagsAlts ms := by
  induction ms generalizing as vs xs with
  | nil =>
    rcases toTlvs_some _ _ _ _ h with ⟨_, _, _, rfl⟩ | ⟨m, ms', a, as', v, vs', he, _⟩
    · intro x hx; cases hx
    · cases he
  | cons m ms ih =>
    rcases toTlvs_some _ _ _ _ h with ⟨he, _⟩ | ⟨m', ms', a, as', v, vs', he, rfl, rfl, hc⟩
    · cases he
    · injection he with e1 e2
      subst e1 e2
      have hw' : ∀ m ∈ ms, TyWf m := fun b hb => hw b (by simp [hb])
      simp only [outerTagsAlts, List.mem_append]
      rcases hc with ⟨_, _, h'⟩ | ⟨_, _, h'⟩ | ⟨_, _, x', xs', h1, h2, rfl⟩
      · exact fun x hx => Or.inr (ih hw' _ _ _ h' x hx)
      · exact fun x hx => Or.inr (ih hw' _ _ _ h' x hx)
      · intro x hx
        rcases List.mem_cons.mp hx with rfl | hx
        · exact Or.inl (toTlv_tag_mem m (hw m (by simp)) v x h1)
        · exact Or.inr (ih hw' _ _ _ h2 x hx)

/-! ### `toTlv` produces DER trees -/

theorem wrapTags_isDer (tags : List Tag) (mk : Tag → Tlv) (x : Tlv) (ht : ∀ t ∈ tags, TagOk t)
    (hmk : ∀ t, TagOk t → IsDer (mk t)) (h : wrapTags tags mk = some x) : IsDer x := by
  obtain ⟨outer, inner, rfl, rfl⟩ := (wrapTags_eq_some tags mk x).mp h
  exact isDer_wrapAround outer _ (fun t h' => ht t (by simp [h'])) (hmk inner (ht inner (by simp)))

def DerOut (t : Ty) : Prop := TyWf t → ∀ v x, toTlv t v = some x → IsDer x

theorem toTlvs_isDer (ms : List Ty) (ih : ∀ m ∈ ms, DerOut m) (hw : ∀ m ∈ ms, TyWf m)
    (as : List Attr) (vs : List Val) (xs : List Tlv) (h : toTlvs ms as vs = some xs) : IsDerList xs := by
  induction ms generalizing as vs xs with
  | nil =>
    rcases toTlvs_some _ _ _ _ h with ⟨_, _, _, rfl⟩ | ⟨m, ms', a, as', v, vs', he, _⟩
    · exact isDerList_nil
    · cases he
  | cons m ms ihm =>
    rcases toTlvs_some _ _ _ _ h with ⟨he, _⟩ | ⟨m', ms', a, as', v, vs', he, rfl, rfl, hc⟩
    · cases he
    · injection he with e1 e2
      subst e1 e2
      have ih' : ∀ m ∈ ms, DerOut m := fun b hb => ih b (by simp [hb])
      have hw' : ∀ m ∈ ms, TyWf m := fun b hb => hw b (by simp [hb])
      rcases hc with ⟨_, _, h'⟩ | ⟨_, _, h'⟩ | ⟨_, _, x', xs', h1, h2, rfl⟩
      · exact ihm ih' hw' _ _ _ h'
      · exact ihm ih' hw' _ _ _ h'
      · exact (isDerList_cons _ _).mpr ⟨ih m (by simp) (hw m (by simp)) v x' h1, ihm ih' hw' _ _ _ h2⟩

theorem toTlvAlt_isDer (alts : List Ty) (ih : ∀ a ∈ alts, DerOut a) (hw : ∀ a ∈ alts, TyWf a)
    (i : Nat) (v : Val) (y : Tlv) (h : toTlvAlt alts i v = some y) : IsDer y := by
  induction alts generalizing i with
  | nil => rw [toTlvAlt_nil] at h; cases h
  | cons a as iha =>
    cases i with
    | zero => rw [toTlvAlt_zero] at h; exact ih a (by simp) (hw a (by simp)) v y h
    | succ i =>
      rw [toTlvAlt_succ] at h
      exact iha (fun b hb => ih b (by simp [hb])) (fun b hb => hw b (by simp [hb])) i h

theorem toTlvList_some (e : Ty) (vs : List Val) (xs : List Tlv) (h : toTlvList e vs = some xs) :
    (vs = [] ∧ xs = []) ∨ ∃ v vs' x xs', vs = v :: vs' ∧ xs = x :: xs' ∧ toTlv e v = some x ∧
      toTlvList e vs' = some xs' := by
  cases vs with
  | nil => rw [toTlvList_nil] at h; injection h with h; exact Or.inl ⟨rfl, h.symm⟩
  | cons v vs' =>
    rw [toTlvList_cons] at h
    cases h1 : toTlv e v with
    | none => rw [h1] at h; simp at h
    | some x =>
      cases h2 : toTlvList e vs' with
      | none => rw [h1, h2] at h; simp at h
      | some xs' =>
        rw [h1, h2] at h
        injection h with h
        exact Or.inr ⟨v, vs', x, xs', rfl, h.symm, by first | rfl | assumption, by first | rfl | assumption⟩

theorem toTlvList_isDer (e : Ty) (ih : DerOut e) (hw : TyWf e) (vs : List Val) (xs : List Tlv)
    (h : toTlvList e vs = some xs) : IsDerList xs := by
  induction vs generalizing xs with
  | nil =>
    rcases toTlvList_some _ _ _ h with ⟨_, rfl⟩ | ⟨_, _, _, _, he, _⟩
    · exact isDerList_nil
    · cases he
  | cons v vs ihv =>
    rcases toTlvList_some _ _ _ h with ⟨he, _⟩ | ⟨v', vs', x, xs', he, rfl, h1, h2⟩
    · cases he
    · injection he with e1 e2
      subst e1 e2
      exact (isDerList_cons _ _).mpr ⟨ih hw v x h1, ihv xs' h2⟩

theorem isDerList_sortBy (le : Tlv → Tlv → Bool) (cs : List Tlv) (h : IsDerList cs) :
    IsDerList (sortBy le cs) := by
  rw [isDerList_iff] at h ⊢
  intro x hx
  exact h x ((mem_sortBy le x cs).mp hx)

theorem derOut_all : ∀ t, DerOut t := by
  apply Ty.induct'
  · intro tags p hw v x h
    obtain ⟨c, _, hx⟩ := (toTlv_prim tags p v x).mp h
    obtain ⟨ht, _⟩ := (tyWf_prim tags p).mp hw
    exact wrapTags_isDer tags _ x ht (fun t h' => (isDer_prim t 0 c).mpr ⟨h', rfl⟩) hx
  · intro tags ms attrs ext ih hw v x h
    obtain ⟨vs, cs, _, hcs, hx⟩ := (toTlv_seq tags ms attrs ext v x).mp h
    obtain ⟨ht, _, hwm, _, _⟩ := (tyWf_seq tags ms attrs ext).mp hw
    have := toTlvs_isDer ms ih hwm attrs vs cs hcs
    exact wrapTags_isDer tags _ x ht (fun t h' => (isDer_cons t 0 cs).mpr ⟨h', rfl, this⟩) hx
  · intro tags ms attrs ext ih hw v x h
    obtain ⟨vs, cs, _, hcs, hx⟩ := (toTlv_set tags ms attrs ext v x).mp h
    obtain ⟨ht, _, hwm, _, _⟩ := (tyWf_set tags ms attrs ext).mp hw
    have := isDerList_sortBy (fun a b => tagLe a.tag b.tag) cs (toTlvs_isDer ms ih hwm attrs vs cs hcs)
    exact wrapTags_isDer tags _ x ht (fun t h' => (isDer_cons t 0 _).mpr ⟨h', rfl, this⟩) hx
  · intro tags alts ext ih hw v x h
    obtain ⟨i, v', y, _, hy, rfl⟩ := (toTlv_choice tags alts ext v x).mp h
    obtain ⟨ht, hwa, _⟩ := (tyWf_choice tags alts ext).mp hw
    exact isDer_wrapAround tags y ht (toTlvAlt_isDer alts ih hwa i v' y hy)
  · intro tags e ih hw v x h
    obtain ⟨vs, cs, _, hcs, hx⟩ := (toTlv_seqOf tags e v x).mp h
    obtain ⟨ht, _, hwe⟩ := (tyWf_seqOf tags e).mp hw
    have := toTlvList_isDer e ih hwe vs cs hcs
    exact wrapTags_isDer tags _ x ht (fun t h' => (isDer_cons t 0 cs).mpr ⟨h', rfl, this⟩) hx
  · intro tags e ih hw v x h
    obtain ⟨vs, cs, _, hcs, hx⟩ := (toTlv_setOf tags e v x).mp h
    obtain ⟨ht, _, hwe⟩ := (tyWf_setOf tags e).mp hw
    have := isDerList_sortBy (fun a b => bytesLe a.enc b.enc) cs (toTlvList_isDer e ih hwe vs cs hcs)
    exact wrapTags_isDer tags _ x ht (fun t h' => (isDer_cons t 0 _).mpr ⟨h', rfl, this⟩) hx

/-- **`toTlv` produces DER trees**: all tags fit, every length is definite and minimal -/
theorem toTlv_isDer (t : Ty) (hw : TyWf t) (v : Val) (x : Tlv) (h : toTlv t v = some x) : IsDer x :=
  derOut_all t hw v x h

/-! ### unfolding lemmas for `interp` on wrapped nodes -/

theorem interp_prim_wrap (outer : List Tag) (inner : Tag) (p : Prim) (y : Tlv) (hy : y.tag = inner) :
    interp (.prim (outer ++ [inner]) p) (wrapAround outer y) = decPrim p y := by
  rw [interp, unwrapTags_wrapAround outer inner y hy]

theorem interp_seq_wrap (outer : List Tag) (inner : Tag) (ms : List Ty) (attrs : List Attr) (ext : Bool)
    (f : Option Nat) (cs : List Tlv) :
    interp (.seq (outer ++ [inner]) ms attrs ext) (wrapAround outer (.cons inner f cs)) =
      (interpSeq ms attrs ext cs).map .seq := by
  rw [interp, unwrapTags_wrapAround outer inner _ rfl]

theorem interp_set_wrap (outer : List Tag) (inner : Tag) (ms : List Ty) (attrs : List Attr) (ext : Bool)
    (f : Option Nat) (cs : List Tlv) :
    interp (.set (outer ++ [inner]) ms attrs ext) (wrapAround outer (.cons inner f cs)) =
      (interpSet ms attrs cs).map .seq := by
  rw [interp, unwrapTags_wrapAround outer inner _ rfl]

theorem interp_choice_wrap (tags : List Tag) (alts : List Ty) (ext : Bool) (y : Tlv) :
    interp (.choice tags alts ext) (wrapAround tags y) = interpAlt alts 0 y := by
  rw [interp, unwrapAround_wrapAround]

theorem interp_seqOf_wrap (outer : List Tag) (inner : Tag) (e : Ty) (f : Option Nat) (cs : List Tlv) :
    interp (.seqOf (outer ++ [inner]) e) (wrapAround outer (.cons inner f cs)) =
      (interpList e cs).map .list := by
  rw [interp, unwrapTags_wrapAround outer inner _ rfl]

theorem interp_setOf_wrap (outer : List Tag) (inner : Tag) (e : Ty) (f : Option Nat) (cs : List Tlv) :
    interp (.setOf (outer ++ [inner]) e) (wrapAround outer (.cons inner f cs)) =
      (interpList e cs).map .list := by
  rw [interp, unwrapTags_wrapAround outer inner _ rfl]

theorem interpSeq_nil (ext : Bool) (cs : List Tlv) :
    interpSeq [] [] ext cs = if cs.isEmpty || ext then some [] else none := by rw [interpSeq]

theorem interpSeq_cons_nil (m : Ty) (ms : List Ty) (a : Attr) (as : List Attr) (ext : Bool) :
    interpSeq (m :: ms) (a :: as) ext [] =
      if a.optional then (interpSeq ms as ext []).map (.absent :: ·) else none := by rw [interpSeq]

theorem interpSeq_cons_cons (m : Ty) (ms : List Ty) (a : Attr) (as : List Attr) (ext : Bool)
    (c : Tlv) (cs : List Tlv) :
    interpSeq (m :: ms) (a :: as) ext (c :: cs) =
      if (outerTags m).contains c.tag then
        match interp m c, interpSeq ms as ext cs with
        | some v, some vs => some (v :: vs)
        | _, _ => none
      else if a.optional then (interpSeq ms as ext (c :: cs)).map (.absent :: ·)
      else none := by
  rw [interpSeq]; rfl

theorem interpSet_nil (cs : List Tlv) : interpSet [] [] cs = some [] := by rw [interpSet]

theorem interpSet_cons (m : Ty) (ms : List Ty) (a : Attr) (as : List Attr) (cs : List Tlv) :
    interpSet (m :: ms) (a :: as) cs =
      match cs.find? (fun c => (outerTags m).contains c.tag) with
      | some c =>
        match interp m c, interpSet ms as cs with
        | some v, some vs => some (v :: vs)
        | _, _ => none
      | none => if a.optional then (interpSet ms as cs).map (.absent :: ·) else none := by
  rw [interpSet]; rfl

theorem interpAlt_cons (a : Ty) (as : List Ty) (i : Nat) (x : Tlv) :
    interpAlt (a :: as) i x =
      if (outerTags a).contains x.tag then (interp a x).map (.choice i) else interpAlt as (i + 1) x := by
  rw [interpAlt]

theorem interpList_nil (e : Ty) : interpList e [] = some [] := by rw [interpList]
theorem interpList_cons (e : Ty) (c : Tlv) (cs : List Tlv) :
    interpList e (c :: cs) =
      match interp e c, interpList e cs with
      | some v, some vs => some (v :: vs)
      | _, _ => none := by
  rw [interpList]; rfl

theorem isAbsent_iff (v : Val) : isAbsent v = true ↔ v = .absent := by
  cases v <;> simp [isAbsent]

theorem canonSeq_cons (m : Ty) (ms : List Ty) (a : Attr) (as : List Attr) (v : Val) (vs : List Val) :
    canonSeq (m :: ms) (a :: as) (v :: vs) = true ↔
      (if isAbsent v = true then a.optional = true else (isDefault a v = false ∧ Canon m v)) ∧
        canonSeq ms as vs = true := by
  simp only [canonSeq, Bool.and_eq_true, Canon]
  by_cases h : isAbsent v = true <;> simp [h]

/-! ### the interpreter inverts the encoder -/

def InterpOk (t : Ty) : Prop :=
  TyWf t → ∀ v x, Canon t v → toTlv t v = some x → interp t x = some v

theorem contains_false_of_not_mem (T : List Tag) (t : Tag) (h : t ∉ T) : T.contains t = false := by
  simpa using h
theorem contains_true_of_mem (T : List Tag) (t : Tag) (h : t ∈ T) : T.contains t = true := by
  simpa using h

/-- the first child produced for the components after an absent one does not carry a tag of
    the absent component -/
theorem toTlvs_head_notin (T : List Tag) (ms : List Ty) (hw : ∀ m ∈ ms, TyWf m)
    (as : List Attr) (vs : List Val) (c : Tlv) (cs : List Tlv)
    (hd : disjFollow T ms as = true) (hc : canonSeq ms as vs = true)
    (h : toTlvs ms as vs = some (c :: cs)) : c.tag ∉ T := by
  induction ms generalizing as vs with
  | nil =>
    rcases toTlvs_some _ _ _ _ h with ⟨_, _, _, he⟩ | ⟨m, ms', a, as', v, vs', he, _⟩
    · cases he
    · cases he
  | cons m ms ih =>
    rcases toTlvs_some _ _ _ _ h with ⟨he, _⟩ | ⟨m', ms', a, as', v, vs', he, rfl, rfl, hcase⟩
    · cases he
    · injection he with e1 e2
      subst e1 e2
      have hw' : ∀ m ∈ ms, TyWf m := fun b hb => hw b (by simp [hb])
      simp only [disjFollow, Bool.and_eq_true, Bool.or_eq_true, Bool.not_eq_true'] at hd
      obtain ⟨hc1, hc2⟩ := (canonSeq_cons _ _ _ _ _ _).mp hc
      rcases hcase with ⟨_, ho, h'⟩ | ⟨hv, hdef, _⟩ | ⟨_, _, x', xs', h1, _, he⟩
      · rcases hd.2 with hno | hd2
        · rw [ho] at hno; cases hno
        · exact ih hw' _ _ hd2 hc2 h'
      · rw [if_neg (by simp [hv])] at hc1
        rw [hc1.1] at hdef; cases hdef
      · injection he with e1 e2
        subst e1
        have hmem := toTlv_tag_mem m (hw m (by simp)) v c h1
        intro hT
        exact (disjointB_iff _ _).mp hd.1 _ hT hmem

theorem interpSeq_toTlvs (ext : Bool) (ms : List Ty) (ih : ∀ m ∈ ms, InterpOk m)
    (hw : ∀ m ∈ ms, TyWf m) (as : List Attr) (vs : List Val) (cs : List Tlv)
    (hd : seqDisj ms as = true) (hc : canonSeq ms as vs = true)
    (h : toTlvs ms as vs = some cs) : interpSeq ms as ext cs = some vs := by
  induction ms generalizing as vs cs with
  | nil =>
    rcases toTlvs_some _ _ _ _ h with ⟨_, rfl, rfl, rfl⟩ | ⟨m, ms', a, as', v, vs', he, _⟩
    · simp [interpSeq_nil]
    · cases he
  | cons m ms ihm =>
    rcases toTlvs_some _ _ _ _ h with ⟨he, _⟩ | ⟨m', ms', a, as', v, vs', he, rfl, rfl, hcase⟩
    · cases he
    · injection he with e1 e2
      subst e1 e2
      have ih' : ∀ m ∈ ms, InterpOk m := fun b hb => ih b (by simp [hb])
      have hw' : ∀ m ∈ ms, TyWf m := fun b hb => hw b (by simp [hb])
      simp only [seqDisj, Bool.and_eq_true, Bool.or_eq_true, Bool.not_eq_true'] at hd
      obtain ⟨hc1, hc2⟩ := (canonSeq_cons _ _ _ _ _ _).mp hc
      rcases hcase with ⟨hv, ho, h'⟩ | ⟨hv, hdef, _⟩ | ⟨hv, _, x', xs', h1, h2, rfl⟩
      · have hva := (isAbsent_iff v).mp hv
        subst hva
        have hrec := ihm ih' hw' _ _ _ hd.2 hc2 h'
        have hfol : disjFollow (outerTags m) ms as' = true := by
          rcases hd.1 with hno | hd1
          · rw [ho] at hno; cases hno
          · exact hd1
        cases cs with
        | nil => rw [interpSeq_cons_nil, if_pos ho, hrec]; rfl
        | cons c cs' =>
          have hnot := toTlvs_head_notin (outerTags m) ms hw' as' vs' c cs' hfol hc2 h'
          rw [interpSeq_cons_cons, contains_false_of_not_mem _ _ hnot]
          simp only [Bool.false_eq_true, if_false]
          rw [if_pos ho, hrec]; rfl
      · rw [if_neg (by simp [hv])] at hc1
        rw [hc1.1] at hdef; cases hdef
      · rw [if_neg (by simp [hv])] at hc1
        have hmem := toTlv_tag_mem m (hw m (by simp)) v x' h1
        have hi := ih m (by simp) (hw m (by simp)) v x' hc1.2 h1
        have hrec := ihm ih' hw' _ _ _ hd.2 hc2 h2
        rw [interpSeq_cons_cons, contains_true_of_mem _ _ hmem, if_pos rfl, hi, hrec]

theorem interpSet_toTlvs (all : List Tlv) (ms : List Ty) (ih : ∀ m ∈ ms, InterpOk m)
    (hw : ∀ m ∈ ms, TyWf m) (as : List Attr) (vs : List Val) (xs : List Tlv)
    (hd : pairDisj ms = true) (hc : canonSeq ms as vs = true)
    (h : toTlvs ms as vs = some xs) (hsub : ∀ x ∈ xs, x ∈ all)
    (hall : ∀ c ∈ all, c.tag ∈ outerTagsAlts ms → c ∈ xs) : interpSet ms as all = some vs := by
  induction ms generalizing as vs xs with
  | nil =>
    rcases toTlvs_some _ _ _ _ h with ⟨_, rfl, rfl, rfl⟩ | ⟨m, ms', a, as', v, vs', he, _⟩
    · rw [interpSet_nil]
    · cases he
  | cons m ms ihm =>
    rcases toTlvs_some _ _ _ _ h with ⟨he, _⟩ | ⟨m', ms', a, as', v, vs', he, rfl, rfl, hcase⟩
    · cases he
    · injection he with e1 e2
      subst e1 e2
      have ih' : ∀ m ∈ ms, InterpOk m := fun b hb => ih b (by simp [hb])
      have hw' : ∀ m ∈ ms, TyWf m := fun b hb => hw b (by simp [hb])
      simp only [pairDisj, Bool.and_eq_true] at hd
      have hdis := (disjointB_iff _ _).mp hd.1
      obtain ⟨hc1, hc2⟩ := (canonSeq_cons _ _ _ _ _ _).mp hc
      rw [interpSet_cons]
      rcases hcase with ⟨hv, ho, h'⟩ | ⟨hv, hdef, _⟩ | ⟨hv, _, x', xs', h1, h2, rfl⟩
      · have hva := (isAbsent_iff v).mp hv
        subst hva
        have htags := toTlvs_tags ms hw' as' vs' xs h'
        have hnone : all.find? (fun c => (outerTags m).contains c.tag) = none := by
          rw [List.find?_eq_none]
          intro c hcm hp
          have hp' : c.tag ∈ outerTags m := by simpa using hp
          have hcx := hall c hcm (by simp [outerTagsAlts, hp'])
          exact hdis _ hp' (htags c hcx)
        have hrec := ihm ih' hw' as' vs' xs hd.2 hc2 h' hsub
          (fun c hcm ht => hall c hcm (by simp [outerTagsAlts, ht]))
        rw [hnone]
        simp only []
        rw [if_pos ho, hrec]; rfl
      · rw [if_neg (by simp [hv])] at hc1
        rw [hc1.1] at hdef; cases hdef
      · rw [if_neg (by simp [hv])] at hc1
        have hmem := toTlv_tag_mem m (hw m (by simp)) v x' h1
        have hi := ih m (by simp) (hw m (by simp)) v x' hc1.2 h1
        have htags := toTlvs_tags ms hw' as' vs' xs' h2
        have hx'all : x' ∈ all := hsub x' (by simp)
        have hfind : all.find? (fun c => (outerTags m).contains c.tag) = some x' := by
          cases hf : all.find? (fun c => (outerTags m).contains c.tag) with
          | none =>
            rw [List.find?_eq_none] at hf
            exact absurd (contains_true_of_mem _ _ hmem) (hf x' hx'all)
          | some c =>
            have hp := List.find?_some hf
            have hcm := List.mem_of_find?_eq_some hf
            have hp' : c.tag ∈ outerTags m := by simpa using hp
            have hcx := hall c hcm (by simp [outerTagsAlts, hp'])
            rcases List.mem_cons.mp hcx with rfl | hcx
            · rfl
            · exact absurd (htags c hcx) (hdis _ hp')
        have hrec := ihm ih' hw' as' vs' xs' hd.2 hc2 h2 (fun x hx => hsub x (by simp [hx]))
          (fun c hcm ht => by
            have := hall c hcm (by simp [outerTagsAlts, ht])
            rcases List.mem_cons.mp this with rfl | hcx
            · exact absurd ht (hdis _ hmem)
            · exact hcx)
        rw [hfind]
        simp only []
        rw [hi, hrec]

theorem interpAlt_toTlvAlt (alts : List Ty) (ih : ∀ a ∈ alts, InterpOk a) (hw : ∀ a ∈ alts, TyWf a)
    (hd : pairDisj alts = true) (i k : Nat) (v : Val) (y : Tlv)
    (hc : canonAlt alts i v = true) (h : toTlvAlt alts i v = some y) :
    interpAlt alts k y = some (.choice (k + i) v) := by
  induction alts generalizing i k with
  | nil => rw [toTlvAlt_nil] at h; cases h
  | cons a as iha =>
    simp only [pairDisj, Bool.and_eq_true] at hd
    have hdis := (disjointB_iff _ _).mp hd.1
    rw [interpAlt_cons]
    cases i with
    | zero =>
      rw [toTlvAlt_zero] at h
      simp only [canonAlt] at hc
      have hmem := toTlv_tag_mem a (hw a (by simp)) v y h
      rw [contains_true_of_mem _ _ hmem, if_pos rfl, ih a (by simp) (hw a (by simp)) v y hc h]
      rfl
    | succ i =>
      rw [toTlvAlt_succ] at h
      simp only [canonAlt] at hc
      have hw' : ∀ b ∈ as, TyWf b := fun b hb => hw b (by simp [hb])
      have hmem := toTlvAlt_tag as (fun b _ => tagMem_all b) hw' i v y h
      have hnot : y.tag ∉ outerTags a := fun hin => hdis _ hin hmem
      rw [contains_false_of_not_mem _ _ hnot]
      simp only [Bool.false_eq_true, if_false]
      rw [iha (fun b hb => ih b (by simp [hb])) hw' hd.2 i (k + 1) hc h]
      congr 2; omega

theorem interpList_toTlvList (e : Ty) (ih : InterpOk e) (hw : TyWf e) (vs : List Val) (cs : List Tlv)
    (hc : vs.all (fun v => canonB e v) = true) (h : toTlvList e vs = some cs) :
    interpList e cs = some vs := by
  induction vs generalizing cs with
  | nil =>
    rcases toTlvList_some _ _ _ h with ⟨_, rfl⟩ | ⟨_, _, _, _, he, _⟩
    · exact interpList_nil e
    · cases he
  | cons v vs ihv =>
    rcases toTlvList_some _ _ _ h with ⟨he, _⟩ | ⟨v', vs', x, xs', he, rfl, h1, h2⟩
    · cases he
    · injection he with e1 e2
      subst e1 e2
      simp only [List.all_cons, Bool.and_eq_true] at hc
      rw [interpList_cons, ih hw v x hc.1 h1, ihv xs' hc.2 h2]

theorem interpOk_all : ∀ t, InterpOk t := by
  apply Ty.induct'
  · intro tags p hw v x hc h
    obtain ⟨c, hpc, hx⟩ := (toTlv_prim tags p v x).mp h
    obtain ⟨outer, inner, rfl, rfl⟩ := (wrapTags_eq_some _ _ _).mp hx
    rw [interp_prim_wrap outer inner p _ rfl]
    exact decPrim_primContent p v c inner 0 (by simpa [Canon, canonB] using hc) hpc
  · intro tags ms attrs ext ih hw v x hc h
    obtain ⟨vs, cs, rfl, hcs, hx⟩ := (toTlv_seq tags ms attrs ext v x).mp h
    obtain ⟨outer, inner, rfl, rfl⟩ := (wrapTags_eq_some _ _ _).mp hx
    obtain ⟨_, _, hwm, _, hdis⟩ := (tyWf_seq _ ms attrs ext).mp hw
    have hc' : canonSeq ms attrs vs = true := by simpa [Canon, canonB] using hc
    rw [interp_seq_wrap, interpSeq_toTlvs ext ms ih hwm attrs vs cs hdis hc' hcs]
    rfl
  · intro tags ms attrs ext ih hw v x hc h
    obtain ⟨vs, cs, rfl, hcs, hx⟩ := (toTlv_set tags ms attrs ext v x).mp h
    obtain ⟨outer, inner, rfl, rfl⟩ := (wrapTags_eq_some _ _ _).mp hx
    obtain ⟨_, _, hwm, _, hdis⟩ := (tyWf_set _ ms attrs ext).mp hw
    have hc' : canonSeq ms attrs vs = true := by simpa [Canon, canonB] using hc
    rw [interp_set_wrap, interpSet_toTlvs _ ms ih hwm attrs vs cs hdis hc' hcs
      (fun x hx => (mem_sortBy _ x cs).mpr hx)
      (fun c hcm _ => (mem_sortBy _ c cs).mp hcm)]
    rfl
  · intro tags alts ext ih hw v x hc h
    obtain ⟨i, v', y, rfl, hy, rfl⟩ := (toTlv_choice tags alts ext v x).mp h
    obtain ⟨_, hwa, hdis⟩ := (tyWf_choice tags alts ext).mp hw
    have hc' : canonAlt alts i v' = true := by simpa [Canon, canonB] using hc
    rw [interp_choice_wrap, interpAlt_toTlvAlt alts ih hwa hdis i 0 v' y hc' hy]
    simp
  · intro tags e ih hw v x hc h
    obtain ⟨vs, cs, rfl, hcs, hx⟩ := (toTlv_seqOf tags e v x).mp h
    obtain ⟨outer, inner, rfl, rfl⟩ := (wrapTags_eq_some _ _ _).mp hx
    obtain ⟨_, _, hwe⟩ := (tyWf_seqOf _ e).mp hw
    have hc' : vs.all (fun v => canonB e v) = true := by
      simp only [Canon, canonB] at hc; exact hc
    rw [interp_seqOf_wrap, interpList_toTlvList e ih hwe vs cs hc' hcs]
    rfl
  · intro tags e ih hw v x hc h
    obtain ⟨vs, cs, rfl, hcs, hx⟩ := (toTlv_setOf tags e v x).mp h
    obtain ⟨outer, inner, rfl, rfl⟩ := (wrapTags_eq_some _ _ _).mp hx
    obtain ⟨_, _, hwe⟩ := (tyWf_setOf _ e).mp hw
    simp only [Canon, canonB, Bool.and_eq_true] at hc
    have hsorted : chainB (fun a b => bytesLe a.enc b.enc) cs = true := by
      have := hc.2
      unfold sortedEnc at this
      rw [hcs] at this
      exact this
    rw [sortBy_of_chain _ cs hsorted, interp_setOf_wrap, interpList_toTlvList e ih hwe vs cs hc.1 hcs]
    rfl

/-- **the interpreter inverts the DER tree builder**: for a well-formed type and a canonical
    value, interpreting the tree produced by `toTlv` gives the value back. -/
theorem interp_toTlv (t : Ty) (v : Val) (x : Tlv) (hw : TyWf t) (hc : Canon t v)
    (h : toTlv t v = some x) : interp t x = some v :=
  interpOk_all t hw v x hc h

/-! ### the encoder is total on canonical values -/

theorem wrapTags_total (tags : List Tag) (mk : Tag → Tlv) (h : tags ≠ []) : ∃ x, wrapTags tags mk = some x := by
  unfold wrapTags
  cases hr : tags.reverse with
  | nil => exact absurd (List.reverse_eq_nil_iff.mp hr) h
  | cons inner outerRev => exact ⟨_, rfl⟩

def TotalOk (t : Ty) : Prop := TyWf t → ∀ v, Canon t v → ∃ x, toTlv t v = some x

theorem toTlvs_total (ms : List Ty) (ih : ∀ m ∈ ms, TotalOk m) (hw : ∀ m ∈ ms, TyWf m)
    (as : List Attr) (vs : List Val) (hc : canonSeq ms as vs = true) : ∃ cs, toTlvs ms as vs = some cs := by
  induction ms generalizing as vs with
  | nil =>
    cases as <;> cases vs <;> simp [canonSeq] at hc
    exact ⟨[], toTlvs_nil⟩
  | cons m ms ihm =>
    cases as with
    | nil => simp [canonSeq] at hc
    | cons a as' =>
      cases vs with
      | nil => simp [canonSeq] at hc
      | cons v vs' =>
        obtain ⟨hc1, hc2⟩ := (canonSeq_cons _ _ _ _ _ _).mp hc
        obtain ⟨cs, hcs⟩ := ihm (fun b hb => ih b (by simp [hb])) (fun b hb => hw b (by simp [hb])) as' vs' hc2
        by_cases hv : isAbsent v = true
        · rw [if_pos hv] at hc1
          have hva := (isAbsent_iff v).mp hv
          subst hva
          exact ⟨cs, by rw [toTlvs_absent, if_pos hc1, hcs]⟩
        · rw [if_neg hv] at hc1
          have hv' : isAbsent v = false := by simpa using hv
          obtain ⟨x, hx⟩ := ih m (by simp) (hw m (by simp)) v hc1.2
          refine ⟨x :: cs, ?_⟩
          rw [toTlvs_present _ _ _ _ _ _ hv', if_neg (by simp [hc1.1]), hx, hcs]

theorem toTlvAlt_total (alts : List Ty) (ih : ∀ a ∈ alts, TotalOk a) (hw : ∀ a ∈ alts, TyWf a)
    (i : Nat) (v : Val) (hc : canonAlt alts i v = true) : ∃ y, toTlvAlt alts i v = some y := by
  induction alts generalizing i with
  | nil => simp [canonAlt] at hc
  | cons a as iha =>
    cases i with
    | zero =>
      simp only [canonAlt] at hc
      rw [toTlvAlt_zero]
      exact ih a (by simp) (hw a (by simp)) v hc
    | succ i =>
      simp only [canonAlt] at hc
      rw [toTlvAlt_succ]
      exact iha (fun b hb => ih b (by simp [hb])) (fun b hb => hw b (by simp [hb])) i hc

theorem toTlvList_total (e : Ty) (ih : TotalOk e) (hw : TyWf e) (vs : List Val)
    (hc : vs.all (fun v => canonB e v) = true) : ∃ cs, toTlvList e vs = some cs := by
  induction vs with
  | nil => exact ⟨[], toTlvList_nil e⟩
  | cons v vs ihv =>
    simp only [List.all_cons, Bool.and_eq_true] at hc
    obtain ⟨x, hx⟩ := ih hw v hc.1
    obtain ⟨cs, hcs⟩ := ihv hc.2
    exact ⟨x :: cs, by rw [toTlvList_cons, hx, hcs]⟩

theorem totalOk_all : ∀ t, TotalOk t := by
  apply Ty.induct'
  · intro tags p hw v hc
    obtain ⟨_, hne⟩ := (tyWf_prim tags p).mp hw
    obtain ⟨c, hpc⟩ := primContent_total p v (by simpa [Canon, canonB] using hc)
    obtain ⟨x, hx⟩ := wrapTags_total tags (fun t => .prim t 0 c) hne
    exact ⟨x, (toTlv_prim tags p v x).mpr ⟨c, hpc, hx⟩⟩
  · intro tags ms attrs ext ih hw v hc
    obtain ⟨_, hne, hwm, _, _⟩ := (tyWf_seq tags ms attrs ext).mp hw
    cases v <;> try (simp [Canon, canonB] at hc; done)
    rename_i vs
    obtain ⟨cs, hcs⟩ := toTlvs_total ms ih hwm attrs vs (by simpa [Canon, canonB] using hc)
    obtain ⟨x, hx⟩ := wrapTags_total tags (fun t => .cons t (some 0) cs) hne
    exact ⟨x, (toTlv_seq tags ms attrs ext _ x).mpr ⟨vs, cs, rfl, hcs, hx⟩⟩
  · intro tags ms attrs ext ih hw v hc
    obtain ⟨_, hne, hwm, _, _⟩ := (tyWf_set tags ms attrs ext).mp hw
    cases v <;> try (simp [Canon, canonB] at hc; done)
    rename_i vs
    obtain ⟨cs, hcs⟩ := toTlvs_total ms ih hwm attrs vs (by simpa [Canon, canonB] using hc)
    obtain ⟨x, hx⟩ := wrapTags_total tags
      (fun t => .cons t (some 0) (sortBy (fun a b => tagLe a.tag b.tag) cs)) hne
    exact ⟨x, (toTlv_set tags ms attrs ext _ x).mpr ⟨vs, cs, rfl, hcs, hx⟩⟩
  · intro tags alts ext ih hw v hc
    obtain ⟨_, hwa, _⟩ := (tyWf_choice tags alts ext).mp hw
    cases v <;> try (simp [Canon, canonB] at hc; done)
    rename_i i v'
    obtain ⟨y, hy⟩ := toTlvAlt_total alts ih hwa i v' (by simpa [Canon, canonB] using hc)
    exact ⟨_, (toTlv_choice tags alts ext _ _).mpr ⟨i, v', y, rfl, hy, rfl⟩⟩
  · intro tags e ih hw v hc
    obtain ⟨_, hne, hwe⟩ := (tyWf_seqOf tags e).mp hw
    cases v <;> try (simp [Canon, canonB] at hc; done)
    rename_i vs
    obtain ⟨cs, hcs⟩ := toTlvList_total e ih hwe vs (by simp only [Canon, canonB] at hc; exact hc)
    obtain ⟨x, hx⟩ := wrapTags_total tags (fun t => .cons t (some 0) cs) hne
    exact ⟨x, (toTlv_seqOf tags e _ x).mpr ⟨vs, cs, rfl, hcs, hx⟩⟩
  · intro tags e ih hw v hc
    obtain ⟨_, hne, hwe⟩ := (tyWf_setOf tags e).mp hw
    cases v <;> try (simp [Canon, canonB] at hc; done)
    rename_i vs
    simp only [Canon, canonB, Bool.and_eq_true] at hc
    obtain ⟨cs, hcs⟩ := toTlvList_total e ih hwe vs hc.1
    obtain ⟨x, hx⟩ := wrapTags_total tags
      (fun t => .cons t (some 0) (sortBy (fun a b => bytesLe a.enc b.enc) cs)) hne
    exact ⟨x, (toTlv_setOf tags e _ x).mpr ⟨vs, cs, rfl, hcs, hx⟩⟩

/-- **the DER tree builder is total** on canonical values of well-formed types -/
theorem toTlv_total (t : Ty) (v : Val) (hw : TyWf t) (hc : Canon t v) : ∃ x, toTlv t v = some x :=
  totalOk_all t hw v hc

/-! ### canonical-form independence (C06): sorting facts -/

section SortFacts
variable {α : Type} (le : α → α → Bool)

theorem chain_insertBy (htot : ∀ a b, le a b = true ∨ le b a = true) (x : α) (l : List α)
    (h : chainB le l = true) : chainB le (insertBy le x l) = true := by
  induction l with
  | nil => rfl
  | cons y ys ih =>
    simp only [insertBy]
    split
    · rename_i hxy
      simp only [chainB, Bool.and_eq_true]
      exact ⟨hxy, h⟩
    · rename_i hxy
      have hyx : le y x = true := by
        rcases htot x y with h' | h'
        · exact absurd h' hxy
        · exact h'
      cases ys with
      | nil => simp [insertBy, chainB, hyx]
      | cons z zs =>
        simp only [chainB, Bool.and_eq_true] at h
        have ih' := ih h.2
        simp only [insertBy] at ih' ⊢
        split
        · rename_i hxz
          rw [if_pos hxz] at ih'
          simp only [chainB, Bool.and_eq_true]
          simp only [chainB, Bool.and_eq_true] at ih'
          exact ⟨hyx, ih'⟩
        · rename_i hxz
          rw [if_neg hxz] at ih'
          simp only [chainB, Bool.and_eq_true]
          exact ⟨h.1, ih'⟩

/-- the output of the insertion sort is in order (for a total `le`) -/
theorem chain_sortBy (htot : ∀ a b, le a b = true ∨ le b a = true) (l : List α) :
    chainB le (sortBy le l) = true := by
  induction l with
  | nil => rfl
  | cons x xs ih => exact chain_insertBy le htot x _ ih

/-- **sorting is idempotent** -/
theorem sortBy_idem (htot : ∀ a b, le a b = true ∨ le b a = true) (l : List α) :
    sortBy le (sortBy le l) = sortBy le l :=
  sortBy_of_chain le _ (chain_sortBy le htot l)

theorem pairwise_of_chain (htr : ∀ a b c, le a b = true → le b c = true → le a c = true) (l : List α)
    (h : chainB le l = true) : l.Pairwise (fun a b => le a b = true) := by
  induction l with
  | nil => exact List.Pairwise.nil
  | cons x xs ih =>
    cases xs with
    | nil => simp
    | cons y ys =>
      simp only [chainB, Bool.and_eq_true] at h
      have ih' := ih h.2
      rw [List.pairwise_cons]
      refine ⟨?_, ih'⟩
      intro z hz
      rcases List.mem_cons.mp hz with rfl | hz
      · exact h.1
      · exact htr _ _ _ h.1 ((List.pairwise_cons.mp ih').1 z hz)

theorem eq_of_perm_of_pairwise (hanti : ∀ a b, le a b = true → le b a = true → a = b)
    (l₁ l₂ : List α) (hp : l₁.Perm l₂) (h₁ : l₁.Pairwise (fun a b => le a b = true))
    (h₂ : l₂.Pairwise (fun a b => le a b = true)) : l₁ = l₂ := by
  induction l₁ generalizing l₂ with
  | nil => exact (List.Perm.nil_eq hp)
  | cons a l₁ ih =>
    cases l₂ with
    | nil => exact absurd hp.symm (by simp)
    | cons b l₂ =>
      obtain ⟨ha, h₁'⟩ := List.pairwise_cons.mp h₁
      obtain ⟨hb, h₂'⟩ := List.pairwise_cons.mp h₂
      have hab : a = b := by
        have ha2 : a ∈ b :: l₂ := hp.subset (by simp)
        have hb1 : b ∈ a :: l₁ := hp.symm.subset (by simp)
        rcases List.mem_cons.mp ha2 with h | h
        · exact h
        · rcases List.mem_cons.mp hb1 with h' | h'
          · exact h'.symm
          · exact hanti a b (ha b h') (hb a h)
      subst hab
      rw [ih l₂ (List.Perm.cons_inv hp) h₁' h₂']

/-- **the sorted list depends only on the multiset**: for a total, transitive, antisymmetric
    order, permuted inputs give identical outputs -/
theorem sortBy_perm_eq (htot : ∀ a b, le a b = true ∨ le b a = true)
    (htr : ∀ a b c, le a b = true → le b c = true → le a c = true)
    (hanti : ∀ a b, le a b = true → le b a = true → a = b)
    (l₁ l₂ : List α) (hp : l₁.Perm l₂) : sortBy le l₁ = sortBy le l₂ :=
  eq_of_perm_of_pairwise le hanti _ _
    (((perm_sortBy le l₁).trans hp).trans (perm_sortBy le l₂).symm)
    (pairwise_of_chain le htr _ (chain_sortBy le htot l₁))
    (pairwise_of_chain le htr _ (chain_sortBy le htot l₂))

theorem map_insertBy {β : Type} (r : β → β → Bool) (f : α → β) (x : α) (l : List α) :
    (insertBy (fun a b => r (f a) (f b)) x l).map f = insertBy r (f x) (l.map f) := by
  induction l with
  | nil => rfl
  | cons y ys ih =>
    simp only [insertBy, List.map_cons]
    split
    · rfl
    · simp only [List.map_cons, ih]

theorem map_sortBy {β : Type} (r : β → β → Bool) (f : α → β) (l : List α) :
    (sortBy (fun a b => r (f a) (f b)) l).map f = sortBy r (l.map f) := by
  induction l with
  | nil => rfl
  | cons x xs ih => simp only [sortBy, List.map_cons, map_insertBy, ih]

/-- keyed version: an order that is total/transitive/antisymmetric **on the keys** `f` sorts
    permuted inputs to outputs with identical key sequences -/
theorem sortBy_perm_keys {β : Type} (r : β → β → Bool) (f : α → β)
    (htot : ∀ a b, r a b = true ∨ r b a = true)
    (htr : ∀ a b c, r a b = true → r b c = true → r a c = true)
    (hanti : ∀ a b, r a b = true → r b a = true → a = b)
    (l₁ l₂ : List α) (hp : l₁.Perm l₂) :
    (sortBy (fun a b => r (f a) (f b)) l₁).map f = (sortBy (fun a b => r (f a) (f b)) l₂).map f := by
  rw [map_sortBy, map_sortBy]
  exact sortBy_perm_eq r htot htr hanti _ _ (hp.map f)

end SortFacts

theorem bytesLe_total (a b : Bytes) : bytesLe a b = true ∨ bytesLe b a = true := by
  induction a generalizing b with
  | nil => simp [bytesLe]
  | cons x xs ih =>
    cases b with
    | nil => simp [bytesLe]
    | cons y ys =>
      simp only [bytesLe, Bool.or_eq_true, Bool.and_eq_true, decide_eq_true_eq, beq_iff_eq]
      rcases Nat.lt_trichotomy x y with h | h | h
      · exact Or.inl (Or.inl h)
      · subst h
        rcases ih ys with h' | h'
        · exact Or.inl (Or.inr ⟨rfl, h'⟩)
        · exact Or.inr (Or.inr ⟨rfl, h'⟩)
      · exact Or.inr (Or.inl h)

theorem bytesLe_trans (a b c : Bytes) (h1 : bytesLe a b = true) (h2 : bytesLe b c = true) :
    bytesLe a c = true := by
  induction a generalizing b c with
  | nil => simp [bytesLe]
  | cons x xs ih =>
    cases b with
    | nil => simp [bytesLe] at h1
    | cons y ys =>
      cases c with
      | nil => simp [bytesLe] at h2
      | cons z zs =>
        simp only [bytesLe, Bool.or_eq_true, Bool.and_eq_true, decide_eq_true_eq, beq_iff_eq] at h1 h2 ⊢
        rcases h1 with h1 | ⟨rfl, h1⟩
        · rcases h2 with h2 | ⟨rfl, h2⟩
          · exact Or.inl (by omega)
          · exact Or.inl h1
        · rcases h2 with h2 | ⟨rfl, h2⟩
          · exact Or.inl h2
          · exact Or.inr ⟨rfl, ih ys zs h1 h2⟩

theorem bytesLe_antisymm (a b : Bytes) (h1 : bytesLe a b = true) (h2 : bytesLe b a = true) : a = b := by
  induction a generalizing b with
  | nil =>
    cases b with
    | nil => rfl
    | cons y ys => simp [bytesLe] at h2
  | cons x xs ih =>
    cases b with
    | nil => simp [bytesLe] at h1
    | cons y ys =>
      simp only [bytesLe, Bool.or_eq_true, Bool.and_eq_true, decide_eq_true_eq, beq_iff_eq] at h1 h2
      rcases h1 with h1 | ⟨rfl, h1⟩
      · rcases h2 with h2 | ⟨h2, _⟩
        · omega
        · omega
      · rcases h2 with h2 | ⟨_, h2⟩
        · omega
        · rw [ih ys h1 h2]

/-! ### canonical-form independence (C06): the canonicaliser -/

/-- order on SET OF element values by their DER encodings -/
def encKeyLe (e : Ty) (a b : Val) : Bool :=
  match toTlv e a, toTlv e b with
  | some x, some y => bytesLe x.enc y.enc
  | _, _ => true

mutual
/-- canonical representative of an abstract value: DEFAULT-valued components become `absent`,
    SET OF lists are sorted by element encoding (recursively) -/
def canonV : Ty → Val → Val
  | .seq _ ms attrs _, .seq vs => .seq (canonVs ms attrs vs)
  | .set _ ms attrs _, .seq vs => .seq (canonVs ms attrs vs)
  | .choice _ alts _, .choice i v => .choice i (canonAltV alts i v)
  | .seqOf _ e, .list vs => .list (vs.map (fun v => canonV e v))
  | .setOf _ e, .list vs => .list (sortBy (encKeyLe e) (vs.map (fun v => canonV e v)))
  | _, v => v
def canonVs : List Ty → List Attr → List Val → List Val
  | m :: ms, a :: as, v :: vs =>
    (if isAbsent v then v else if isDefault a v then (if a.optional then .absent else v) else canonV m v)
      :: canonVs ms as vs
  | _, _, vs => vs
def canonAltV : List Ty → Nat → Val → Val
  | [], _, v => v
  | a :: _, 0, v => canonV a v
  | _ :: as, i + 1, v => canonAltV as i v
end

theorem canonV_isAbsent (m : Ty) (v : Val) : isAbsent (canonV m v) = isAbsent v := by
  cases m <;> cases v <;> simp [canonV, isAbsent]

theorem canonV_isDefault (m : Ty) (a : Attr) (v : Val) : isDefault a (canonV m v) = isDefault a v := by
  cases m <;> cases v <;> simp [canonV, isDefault]

def CanonInv (t : Ty) : Prop := ∀ v, toTlv t (canonV t v) = toTlv t v

theorem toTlvs_shape_none (ms : List Ty) (as : List Attr) (vs : List Val)
    (h : ¬ (ms = [] ∧ as = [] ∧ vs = []))
    (h2 : ¬ ∃ m ms' a as' v vs', ms = m :: ms' ∧ as = a :: as' ∧ vs = v :: vs') :
    toTlvs ms as vs = none := by
  cases hq : toTlvs ms as vs with
  | none => rfl
  | some xs =>
    rcases toTlvs_some _ _ _ _ hq with ⟨h1, h2', h3, _⟩ | ⟨m, ms', a, as', v, vs', h1, h2', h3, _⟩
    · exact absurd ⟨h1, h2', h3⟩ h
    · exact absurd ⟨m, ms', a, as', v, vs', h1, h2', h3⟩ h2

theorem toTlvs_canonVs (ms : List Ty) (ih : ∀ m ∈ ms, CanonInv m) (as : List Attr) (vs : List Val) :
    toTlvs ms as (canonVs ms as vs) = toTlvs ms as vs := by
  induction ms generalizing as vs with
  | nil => simp [canonVs]
  | cons m ms ihm =>
    cases as with
    | nil => simp [canonVs]
    | cons a as' =>
      cases vs with
      | nil => simp [canonVs]
      | cons v vs' =>
        have ih' := ihm (fun b hb => ih b (by simp [hb])) as' vs'
        simp only [canonVs]
        by_cases hv : isAbsent v = true
        · rw [if_pos hv]
          have := (isAbsent_iff v).mp hv
          subst this
          rw [toTlvs_absent, toTlvs_absent, ih']
        · rw [if_neg hv]
          have hv' : isAbsent v = false := by simpa using hv
          by_cases hd : isDefault a v = true
          · rw [if_pos hd, toTlvs_present _ _ _ _ v _ hv', if_pos hd]
            by_cases ho : a.optional = true
            · rw [if_pos ho, toTlvs_absent, if_pos ho, ih']
            · rw [if_neg ho, toTlvs_present _ _ _ _ v _ hv', if_pos hd, ih']
          · rw [if_neg hd]
            have h1 : isAbsent (canonV m v) = false := by rw [canonV_isAbsent]; exact hv'
            rw [toTlvs_present _ _ _ _ _ _ h1, toTlvs_present _ _ _ _ v _ hv', canonV_isDefault,
              if_neg hd, if_neg hd, ih m (by simp) v, ih']

theorem toTlvAlt_canonAltV (alts : List Ty) (ih : ∀ a ∈ alts, CanonInv a) (i : Nat) (v : Val) :
    toTlvAlt alts i (canonAltV alts i v) = toTlvAlt alts i v := by
  induction alts generalizing i with
  | nil => simp [canonAltV]
  | cons a as iha =>
    cases i with
    | zero => simp only [canonAltV, toTlvAlt_zero]; exact ih a (by simp) v
    | succ i =>
      simp only [canonAltV, toTlvAlt_succ]
      exact iha (fun b hb => ih b (by simp [hb])) i

theorem toTlvList_map_canonV (e : Ty) (ih : CanonInv e) (vs : List Val) :
    toTlvList e (vs.map (fun v => canonV e v)) = toTlvList e vs := by
  induction vs with
  | nil => rfl
  | cons v vs ihv => rw [List.map_cons, toTlvList_cons, toTlvList_cons, ih v, ihv]

theorem toTlvList_eq_none (e : Ty) (vs : List Val) :
    toTlvList e vs = none ↔ ∃ v ∈ vs, toTlv e v = none := by
  induction vs with
  | nil => simp [toTlvList_nil]
  | cons v vs ih =>
    rw [toTlvList_cons]
    cases h1 : toTlv e v with
    | none => simp [h1]
    | some x =>
      cases h2 : toTlvList e vs with
      | none =>
        obtain ⟨w, hw, hwn⟩ := ih.mp h2
        simp only [true_iff]
        exact ⟨w, by simp [hw], hwn⟩
      | some xs =>
        simp only [reduceCtorEq, false_iff]
        rintro ⟨w, hw, hwn⟩
        rcases List.mem_cons.mp hw with rfl | hw
        · rw [h1] at hwn; cases hwn
        · have := ih.mpr ⟨w, hw, hwn⟩
          rw [h2] at this; cases this

theorem toTlvList_insertBy (e : Ty) (w : Val) (x : Tlv) (hx : toTlv e w = some x) (L : List Val)
    (M : List Tlv) (h : toTlvList e L = some M) :
    toTlvList e (insertBy (encKeyLe e) w L) = some (insertBy (fun a b => bytesLe a.enc b.enc) x M) := by
  induction L generalizing M with
  | nil =>
    rcases toTlvList_some _ _ _ h with ⟨_, rfl⟩ | ⟨_, _, _, _, he, _⟩
    · simp only [insertBy]
      rw [toTlvList_cons, hx, toTlvList_nil]
    · cases he
  | cons y ys ih =>
    rcases toTlvList_some _ _ _ h with ⟨he, _⟩ | ⟨y', ys', m, ms', he, rfl, h1, h2⟩
    · cases he
    · injection he with e1 e2
      subst e1 e2
      have hk : encKeyLe e w y = bytesLe x.enc m.enc := by simp only [encKeyLe, hx, h1]
      simp only [insertBy, hk]
      split
      · rw [toTlvList_cons, hx, h]
      · rw [toTlvList_cons, h1, ih ms' h2]

theorem toTlvList_sortBy (e : Ty) (W : List Val) (cs : List Tlv) (h : toTlvList e W = some cs) :
    toTlvList e (sortBy (encKeyLe e) W) = some (sortBy (fun a b => bytesLe a.enc b.enc) cs) := by
  induction W generalizing cs with
  | nil =>
    rcases toTlvList_some _ _ _ h with ⟨_, rfl⟩ | ⟨_, _, _, _, he, _⟩
    · simp only [sortBy]; exact toTlvList_nil e
    · cases he
  | cons w W ih =>
    rcases toTlvList_some _ _ _ h with ⟨he, _⟩ | ⟨w', W', x, xs', he, rfl, h1, h2⟩
    · cases he
    · injection he with e1 e2
      subst e1 e2
      simp only [sortBy]
      exact toTlvList_insertBy e w x h1 _ _ (ih xs' h2)

theorem canonInv_all : ∀ t, CanonInv t := by
  apply Ty.induct'
  · intro tags p v
    simp [canonV]
  · intro tags ms attrs ext ih v
    cases v <;> try (simp [canonV]; done)
    rename_i vs
    simp only [canonV]
    rw [toTlv, toTlv, toTlvs_canonVs ms ih attrs vs]
  · intro tags ms attrs ext ih v
    cases v <;> try (simp [canonV]; done)
    rename_i vs
    simp only [canonV]
    rw [toTlv, toTlv, toTlvs_canonVs ms ih attrs vs]
  · intro tags alts ext ih v
    cases v <;> try (simp [canonV]; done)
    rename_i i v'
    simp only [canonV]
    rw [toTlv, toTlv, toTlvAlt_canonAltV alts ih i v']
  · intro tags e ih v
    cases v <;> try (simp [canonV]; done)
    rename_i vs
    simp only [canonV]
    rw [toTlv, toTlv, toTlvList_map_canonV e ih vs]
  · intro tags e ih v
    cases v <;> try (simp [canonV]; done)
    rename_i vs
    simp only [canonV]
    rw [toTlv, toTlv]
    have hmap := toTlvList_map_canonV e ih vs
    cases hq : toTlvList e vs with
    | none =>
      rw [hq] at hmap
      obtain ⟨w, hw, hwn⟩ := (toTlvList_eq_none e _).mp hmap
      have : toTlvList e (sortBy (encKeyLe e) (vs.map (fun v => canonV e v))) = none :=
        (toTlvList_eq_none e _).mpr ⟨w, (mem_sortBy _ w _).mpr hw, hwn⟩
      rw [this]
    | some cs =>
      rw [hq] at hmap
      rw [toTlvList_sortBy e _ cs hmap]
      simp only []
      rw [sortBy_idem _ (fun a b => bytesLe_total a.enc b.enc)]

/-- **canonical-form independence of the DER tree**: a value and its canonical representative
    (DEFAULT-valued components dropped, SET OF lists sorted) have the same DER tree -/
theorem toTlv_canonV (t : Ty) (v : Val) : toTlv t (canonV t v) = toTlv t v := canonInv_all t v

/-! ### SET OF: the encoding does not depend on the order of the value list -/

theorem encList_eq_flatten (l : List Tlv) : Tlv.encList l = (l.map Tlv.enc).flatten := by
  induction l with
  | nil => simp [encList_nil]
  | cons x xs ih => simp [encList_cons, ih]

theorem enc_wrapAround_congr (outer : List Tag) (y y' : Tlv) (h : y.enc = y'.enc) :
    (wrapAround outer y).enc = (wrapAround outer y').enc := by
  induction outer with
  | nil => simpa [wrapAround] using h
  | cons t ts ih =>
    simp only [wrapAround, enc_cons_def, encList_cons, encList_nil, ih]

theorem toTlvList_perm (e : Ty) (vs₁ vs₂ : List Val) (hp : vs₁.Perm vs₂) :
    ∀ cs₁, toTlvList e vs₁ = some cs₁ → ∃ cs₂, toTlvList e vs₂ = some cs₂ ∧ cs₁.Perm cs₂ := by
  induction hp with
  | nil => intro cs₁ h; exact ⟨cs₁, h, List.Perm.refl _⟩
  | cons v _ ih =>
    intro cs₁ h
    rcases toTlvList_some _ _ _ h with ⟨he, _⟩ | ⟨v', vs', x, xs', he, rfl, h1, h2⟩
    · cases he
    · injection he with e1 e2
      subst e1 e2
      obtain ⟨cs₂, hc, hperm⟩ := ih xs' h2
      exact ⟨x :: cs₂, by rw [toTlvList_cons, h1, hc], List.Perm.cons x hperm⟩
  | swap a b l =>
    intro cs₁ h
    rcases toTlvList_some _ _ _ h with ⟨he, _⟩ | ⟨v', vs', x, xs', he, rfl, h1, h2⟩
    · cases he
    · injection he with e1 e2
      subst e1 e2
      rcases toTlvList_some _ _ _ h2 with ⟨he, _⟩ | ⟨v'', vs'', y, ys', he, rfl, h3, h4⟩
      · cases he
      · injection he with e1 e2
        subst e1 e2
        exact ⟨y :: x :: ys', by rw [toTlvList_cons, h3, toTlvList_cons, h1, h4], List.Perm.swap y x ys'⟩
  | trans _ _ ih1 ih2 =>
    intro cs₁ h
    obtain ⟨cs₂, hc2, hp2⟩ := ih1 cs₁ h
    obtain ⟨cs₃, hc3, hp3⟩ := ih2 cs₂ hc2
    exact ⟨cs₃, hc3, hp2.trans hp3⟩

/-- **SET OF order independence**: permuting the value list of a SET OF does not change the
    DER encoding (X.690 §11.6: the encodings are sorted) -/
theorem encDER_setOf_perm (tags : List Tag) (e : Ty) (vs₁ vs₂ : List Val) (hp : vs₁.Perm vs₂) :
    encDER (.setOf tags e) (.list vs₁) = encDER (.setOf tags e) (.list vs₂) := by
  unfold encDER
  rw [toTlv, toTlv]
  cases h1 : toTlvList e vs₁ with
  | none =>
    obtain ⟨w, hw, hwn⟩ := (toTlvList_eq_none e _).mp h1
    rw [(toTlvList_eq_none e vs₂).mpr ⟨w, hp.subset hw, hwn⟩]
  | some cs₁ =>
    obtain ⟨cs₂, h2, hperm⟩ := toTlvList_perm e vs₁ vs₂ hp cs₁ h1
    rw [h2]
    simp only []
    have hkeys := sortBy_perm_keys bytesLe Tlv.enc bytesLe_total bytesLe_trans bytesLe_antisymm cs₁ cs₂ hperm
    unfold wrapTags
    cases tags.reverse with
    | nil => rfl
    | cons inner outerRev =>
      simp only [Option.map_some]
      congr 1
      apply enc_wrapAround_congr
      rw [enc_cons_def, enc_cons_def, encList_eq_flatten, encList_eq_flatten, hkeys]

/-- dot-notation aliases used by the property files -/
abbrev _root_.Asn1c.L2.Ty.Wf (t : Ty) : Prop := TyWf t
abbrev _root_.Asn1c.L2.Tlv.Wf (x : Tlv) : Prop := Asn1c.Proofs.L2Tlv.Wf x

end Asn1c.Proofs.L2Der
