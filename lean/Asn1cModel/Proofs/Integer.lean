import Asn1cModel.Impl.Integer
import Asn1cModel.Spec.Twos
import Mathlib.Tactic.Ring
import Mathlib.Tactic.Positivity
/- Helper lemmas for C16 (INTEGER).  Property theorems live in Props/C16.lean. -/
namespace Asn1c.Proofs.Integer
open Asn1c Asn1c.Impl.Integer Asn1c.Spec

theorem ofBE_eq (acc : Nat) (bs : Bytes) : ofBE acc bs = acc * 256 ^ bs.length + ofBE 0 bs := by
  induction bs generalizing acc with
  | nil => simp [ofBE]
  | cons b bs ih =>
    simp only [ofBE, List.length_cons]
    rw [ih, ih (0 * 256 + b)]
    rw [Nat.pow_succ]
    simp [Nat.add_mul, Nat.mul_assoc, Nat.mul_comm 256, Nat.add_assoc]

theorem ofBE_lt (bs : Bytes) (h : Bytes.wf bs) : ofBE 0 bs < 256 ^ bs.length := by
  induction bs with
  | nil => simp [ofBE]
  | cons b bs ih =>
    have hb : b < 256 := h b (by simp)
    have := ih (fun x hx => h x (List.mem_cons_of_mem _ hx))
    simp only [ofBE, List.length_cons]
    rw [ofBE_eq, Nat.pow_succ]
    simp
    have h1 : b * 256 ^ bs.length ≤ 255 * 256 ^ bs.length := Nat.mul_le_mul_right _ (by omega)
    omega

theorem wf_tail {b : Nat} {bs : Bytes} (h : Bytes.wf (b :: bs)) : Bytes.wf bs :=
  fun x hx => h x (List.mem_cons_of_mem _ hx)

theorem strip_minimal (bs : Bytes) : MinimalTwos (strip bs) := by
  fun_induction strip bs <;> simp_all [MinimalTwos]

theorem strip_ne_nil (bs : Bytes) (h : bs ≠ []) : strip bs ≠ [] := by
  fun_induction strip bs <;> simp_all

theorem strip_wf (bs : Bytes) (h : Bytes.wf bs) : Bytes.wf (strip bs) := by
  fun_induction strip bs
  · rename_i b bs hb ih; exact ih (wf_tail h)
  · exact h
  · rename_i b bs hb ih; exact ih (wf_tail h)
  · exact h
  · exact h

theorem strip_length_le (bs : Bytes) : (strip bs).length ≤ bs.length := by
  fun_induction strip bs <;> simp_all <;> omega

theorem strip_idem (bs : Bytes) : strip (strip bs) = strip bs := by
  fun_induction strip bs
  · assumption
  · rename_i b bs hb; simp [strip, hb]
  · assumption
  · rename_i b bs hb; simp [strip, hb]
  · rename_i bs h1 h2
    unfold strip
    split
    · exact absurd rfl (h1 _ _)
    · exact absurd rfl (h2 _ _)
    · rfl

theorem strip_of_minimal (bs : Bytes) (h : MinimalTwos bs) : strip bs = bs := by
  fun_induction strip bs <;> simp_all [MinimalTwos]

end Asn1c.Proofs.Integer

namespace Asn1c.Proofs.Integer
open Asn1c Asn1c.Impl.Integer Asn1c.Spec

theorem strip_val (bs : Bytes) (h : Bytes.wf bs) : twosVal (strip bs) = twosVal bs := by
  fun_induction strip bs
  · rename_i b bs hb ih
    rw [ih (wf_tail h)]
    simp [twosVal, hb, ofBE]
  · rfl
  · rename_i b bs hb ih
    have hb256 : b < 256 := h b (by simp)
    rw [ih (wf_tail h)]
    have hb' : ¬ b < 128 := by omega
    simp only [twosVal, hb', ofBE, if_false, show ¬ (255 < 128) by omega, List.length_cons]
    rw [ofBE_eq (0*256+255*256 + b) bs, ofBE_eq (0 * 256 + b) bs]
    push_cast
    ring
  · rfl
  · rfl

end Asn1c.Proofs.Integer

namespace Asn1c.Proofs.Integer
open Asn1c Asn1c.Impl.Integer Asn1c.Spec

theorem ofBE_cons (b : Nat) (bs : Bytes) : ofBE 0 (b :: bs) = b * 256 ^ bs.length + ofBE 0 bs := by
  simp only [ofBE]; rw [ofBE_eq]; simp

/-- a well-formed octet string of length n denotes a value in the n-octet two's complement range -/
theorem twosVal_range (bs : Bytes) (h : Bytes.wf bs) (hne : bs ≠ []) :
    -(256 ^ bs.length / 2 : Int) ≤ twosVal bs ∧ twosVal bs < (256 ^ bs.length / 2 : Int) := by
  cases bs with
  | nil => exact absurd rfl hne
  | cons b bs =>
    have hb : b < 256 := h b (by simp)
    have ht := ofBE_lt bs (wf_tail h)
    simp only [twosVal, List.length_cons]
    rw [ofBE_cons]
    have e : (256 : Int) ^ (bs.length + 1) / 2 = 128 * 256 ^ bs.length := by
      rw [Int.pow_succ]; omega
    rw [e]
    have e2 : (256 : Int) ^ (bs.length + 1) = 256 * 256 ^ bs.length := by rw [Int.pow_succ]; ring
    rw [e2]
    generalize hP : (256 ^ bs.length : Nat) = P at *
    have hPi : ((256 : Int) ^ bs.length) = (P : Int) := by rw [← hP]; push_cast; rfl
    rw [hPi]
    push_cast
    generalize hX : (b:Int) * (P:Int) = X
    have h0 : 0 ≤ X := by rw [← hX]; positivity
    split
    · rename_i hlt
      have h1 : X ≤ 127 * P := by
        rw [← hX]; apply Int.mul_le_mul_of_nonneg_right <;> omega
      omega
    · rename_i hge
      have h1 : (128:Int) * P ≤ X := by
        rw [← hX]; apply Int.mul_le_mul_of_nonneg_right <;> omega
      have h2 : X ≤ 255 * P := by
        rw [← hX]; apply Int.mul_le_mul_of_nonneg_right <;> omega
      omega

/-- a minimal octet string of length n+2 denotes a value that does not fit n+1 octets -/
theorem minimal_needs_all (a b : Nat) (bs : Bytes) (h : Bytes.wf (a :: b :: bs))
    (hm : MinimalTwos (a :: b :: bs)) :
    ¬ (-(256 ^ (bs.length + 1) / 2 : Int) ≤ twosVal (a :: b :: bs) ∧
        twosVal (a :: b :: bs) < (256 ^ (bs.length + 1) / 2 : Int)) := by
  have ha : a < 256 := h a (by simp)
  have hb : b < 256 := h b (by simp)
  have ht := ofBE_lt bs (wf_tail (wf_tail h))
  have hval : ofBE 0 (a :: b :: bs) = (a * 256 + b) * 256 ^ bs.length + ofBE 0 bs := by
    rw [ofBE_cons, ofBE_cons]; simp only [List.length_cons, Nat.pow_succ]; ring
  simp only [twosVal, List.length_cons]
  rw [hval]
  have e : (256 : Int) ^ (bs.length + 1) / 2 = 128 * 256 ^ bs.length := by
    rw [Int.pow_succ]; omega
  rw [e]
  have e2 : (256 : Int) ^ (bs.length + 1 + 1) = 65536 * 256 ^ bs.length := by
    rw [Int.pow_succ, Int.pow_succ]; ring
  rw [e2]
  generalize hP : (256 ^ bs.length : Nat) = P at *
  have hPi : ((256 : Int) ^ bs.length) = (P : Int) := by rw [← hP]; push_cast; rfl
  rw [hPi]
  have hPpos : 0 < P := by rw [← hP]; positivity
  push_cast
  generalize hX : ((a:Int) * 256 + (b:Int)) * (P:Int) = X
  have hlow : ∀ (c : Int), c ≤ (a:Int) * 256 + b → c * P ≤ X := fun c hc => by
    rw [← hX]; apply Int.mul_le_mul_of_nonneg_right hc; omega
  have hhigh : ∀ (c : Int), (a:Int) * 256 + b ≤ c → X ≤ c * P := fun c hc => by
    rw [← hX]; apply Int.mul_le_mul_of_nonneg_right hc; omega
  by_cases h0 : a = 0
  · subst h0
    have hb' : ¬ b < 128 := by simpa [MinimalTwos] using hm
    have := hlow 128 (by omega)
    simp; omega
  · by_cases h255 : a = 255
    · subst h255
      have hb' : b < 128 := by
        have : ¬ b ≥ 128 := by simpa [MinimalTwos] using hm
        omega
      have := hhigh (255 * 256 + 127) (by omega)
      simp; omega
    · split
      · rename_i hlt
        have := hlow 256 (by omega)
        omega
      · rename_i hge
        have := hhigh (254 * 256 + 255) (by omega)
        omega

end Asn1c.Proofs.Integer

namespace Asn1c.Proofs.Integer
open Asn1c Asn1c.Impl.Integer Asn1c.Spec

theorem umaxSkip_spec (bs : Bytes) (h : Bytes.wf bs) :
    match umaxSkip bs with
    | none => ofBE 0 bs ≥ 2 ^ 64
    | some r => ofBE 0 r = ofBE 0 bs ∧ r.length ≤ 8 ∧ Bytes.wf r := by
  induction bs with
  | nil => simp [umaxSkip, Bytes.wf]
  | cons b bs ih =>
    unfold umaxSkip
    by_cases hl : (b :: bs).length > 8
    · rw [if_pos hl]
      by_cases hb : b ≠ 0
      · rw [if_pos hb]
        show ofBE 0 (b :: bs) ≥ 2 ^ 64
        rw [ofBE_cons]
        have hl' : bs.length ≥ 8 := by simp at hl; omega
        have hmono : (256:Nat) ^ 8 ≤ 256 ^ bs.length := Nat.pow_le_pow_right (by omega) hl'
        have : b * 256 ^ bs.length ≥ 1 * 256 ^ bs.length := Nat.mul_le_mul_right _ (by omega)
        have : (256:Nat)^8 = 2^64 := by norm_num
        omega
      · rw [if_neg hb]
        have hb0 : b = 0 := by omega
        subst hb0
        have := ih (wf_tail h)
        rw [ofBE_cons]; simpa using this
    · rw [if_neg hl]
      exact ⟨rfl, by omega, h⟩

/-- the sign test of `asn_INTEGER2umax` decides the sign of the denoted value -/
theorem isNegative_iff (bs : Bytes) (h : Bytes.wf bs) : isNegative bs = true ↔ twosVal bs < 0 := by
  cases bs with
  | nil => simp [isNegative, twosVal]
  | cons b bs =>
    have hlt := ofBE_lt (b :: bs) h
    simp only [List.length_cons] at hlt
    have hlt' : ((ofBE 0 (b :: bs) : Nat) : Int) < (256 : Int) ^ (bs.length + 1) := by exact_mod_cast hlt
    simp only [isNegative, twosVal, decide_eq_true_eq]
    by_cases hb : b < 128
    · rw [if_pos hb]; omega
    · rw [if_neg hb]; omega

/-- `asn_INTEGER2umax` on an INTEGER that passes the sign test: the unsigned reading of the octets -/
theorem INTEGER2umax_unsigned_spec (bs : Bytes) (h : Bytes.wf bs) (hn : isNegative bs = false) :
    INTEGER2umax bs = if unsVal bs < 2 ^ 64 then .ok (unsVal bs) else .erange := by
  have := umaxSkip_spec bs h
  unfold INTEGER2umax unsVal
  rw [hn]
  simp only [Bool.false_eq_true, if_false]
  split at this
  · rename_i heq; rw [heq]; simp; omega
  · rename_i r heq; rw [heq]
    obtain ⟨h1, h2, h3⟩ := this
    have hlt := ofBE_lt r h3
    have hmono : (256:Nat) ^ r.length ≤ 256 ^ 8 := Nat.pow_le_pow_right (by omega) h2
    have : (256:Nat)^8 = 2^64 := by norm_num
    simp only [h1] at *
    rw [if_pos (by omega)]

theorem twosVal_nonneg (bs : Bytes) (h : Bytes.wf bs) (hnn : 0 ≤ twosVal bs) : twosVal bs = unsVal bs := by
  cases bs with
  | nil => simp [twosVal, unsVal, ofBE]
  | cons b bs =>
    unfold unsVal
    simp only [twosVal] at *
    split
    · rfl
    · rename_i hge
      rw [if_neg hge] at hnn
      have := ofBE_lt (b :: bs) h
      simp only [List.length_cons] at this
      have : ((ofBE 0 (b :: bs) : Nat) : Int) < (256:Int) ^ (bs.length + 1) := by exact_mod_cast this
      omega


end Asn1c.Proofs.Integer
