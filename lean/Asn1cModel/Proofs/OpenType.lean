import Asn1cModel.Impl.OpenType
import Asn1cModel.Spec.ObjectSet
/-
  Helper lemmas for Props/C18.lean (open types / information object sets).  Core Lean only.
-/
namespace Asn1c.Proofs.OpenType
open Asn1c Asn1c.Impl.OpenType Asn1c.Spec.ObjectSet
variable {ι : Type} [DecidableEq ι]

/-! ### selector -/

theorem selectGo_ty (id : ι) (tbl : Table ι) (k : Nat) :
    (selectGo id tbl k).ty = (tbl.find? (fun r => decide (r.id = id))).map (·.ty) := by
  induction tbl generalizing k with
  | nil => simp [selectGo]
  | cons r rs ih =>
    by_cases h : r.id = id
    · simp [selectGo, h]
    · simp [selectGo, h, ih]

theorem selectGo_presence (id : ι) (tbl : Table ι) (k : Nat) :
    (selectGo id tbl k).presence =
      match tbl.findIdx? (fun r => decide (r.id = id)) with
      | some i => k + i + 1
      | none => 0 := by
  induction tbl generalizing k with
  | nil => simp [selectGo]
  | cons r rs ih =>
    by_cases h : r.id = id
    · simp [selectGo, h, List.findIdx?_cons]
    · simp only [selectGo, h, if_false, List.findIdx?_cons, decide_false, ih]
      cases rs.findIdx? (fun r => decide (r.id = id)) <;> simp <;> omega


/-! ### object-set table construction -/

theorem mem_addUnique (t : Table ι) (r x : Row ι) : x ∈ addUnique t r ↔ x ∈ t ∨ x = r := by
  unfold addUnique; split
  · rename_i h; constructor
    · intro hx; exact Or.inl hx
    · rintro (hx | hx); exact hx; exact hx ▸ h
  · simp

theorem mem_foldl_addUnique (os : List (Row ι)) (t : Table ι) (x : Row ι) :
    x ∈ os.foldl addUnique t ↔ x ∈ t ∨ x ∈ os := by
  induction os generalizing t with
  | nil => simp
  | cons o os ih => simp [List.foldl_cons, ih, mem_addUnique, or_assoc]

theorem nodup_addUnique (t : Table ι) (r : Row ι) (h : t.Nodup) : (addUnique t r).Nodup := by
  unfold addUnique; split
  · exact h
  · rename_i hn
    rw [List.nodup_append]
    refine ⟨h, by simp, ?_⟩
    intro a ha b hb
    simp at hb; subst hb
    intro e; exact hn (e ▸ ha)

theorem nodup_foldl_addUnique (os : List (Row ι)) (t : Table ι) (h : t.Nodup) : (os.foldl addUnique t).Nodup := by
  induction os generalizing t with
  | nil => simpa
  | cons o os ih => exact ih _ (nodup_addUnique t o h)

theorem processItem_rows_sound (b : Built ι) (it : SetItem ι) (x : Row ι) :
    x ∈ (processItem b it).rows → x ∈ b.rows ∨ x ∈ allObjects [it] := by
  cases it with
  | ext => simp only [processItem]; intro h; exact Or.inl h
  | union os =>
    match os with
    | [] => simp only [processItem, List.foldl_nil]; intro h; exact Or.inl h
    | [o] => simp only [processItem]; intro h; exact Or.inl h
    | o1 :: o2 :: os' =>
      simp only [processItem, allObjects, List.append_nil]
      intro h; exact (mem_foldl_addUnique _ _ _).1 h

theorem foldl_processItem_mem_sound (items : List (SetItem ι)) (b : Built ι) (x : Row ι) :
    x ∈ (items.foldl processItem b).rows → x ∈ b.rows ∨ x ∈ allObjects items := by
  induction items generalizing b with
  | nil => intro h; exact Or.inl h
  | cons it items ih =>
    intro h
    rcases ih _ h with h1 | h1
    · rcases processItem_rows_sound b it x h1 with h2 | h2
      · exact Or.inl h2
      · right; cases it <;> simp_all [allObjects]
    · right; cases it <;> simp_all [allObjects]

theorem foldl_processItem_mem_complete (items : List (SetItem ι)) (b : Built ι) (x : Row ι)
    (hs : NoSingleton items) :
    x ∈ b.rows ∨ x ∈ allObjects items → x ∈ (items.foldl processItem b).rows := by
  induction items generalizing b with
  | nil => simp [allObjects]
  | cons it items ih =>
    intro h
    cases it with
    | ext =>
      apply ih _ hs
      simpa [processItem, allObjects] using h
    | union os =>
      obtain ⟨h1, h2⟩ := hs
      apply ih _ h2
      have hrows : (processItem b (.union os)).rows = os.foldl addUnique b.rows := by
        match os, h1 with
        | [], _ => simp [processItem]
        | [o], h1 => simp at h1
        | o1 :: o2 :: os', _ => simp [processItem]
      rw [hrows, mem_foldl_addUnique]
      simp only [allObjects, List.mem_append] at h
      rcases h with h | h | h
      · exact Or.inl (Or.inl h)
      · exact Or.inl (Or.inr h)
      · exact Or.inr h

theorem foldl_processItem_nodup (items : List (SetItem ι)) (b : Built ι) (h : b.rows.Nodup) :
    (items.foldl processItem b).rows.Nodup := by
  induction items generalizing b with
  | nil => simpa
  | cons it items ih =>
    apply ih
    cases it with
    | ext => simpa [processItem]
    | union os =>
      match os with
      | [] => simpa [processItem]
      | [o] => simpa [processItem]
      | o1 :: o2 :: os' => simp only [processItem]; exact nodup_foldl_addUnique _ _ h


/-! ### bits -/

theorem natBits_length (k n : Nat) : (natBits k n).length = k := by
  induction k generalizing n with
  | zero => simp [natBits]
  | succ k ih => simp [natBits, ih]

theorem bitsVal_append_one (acc : Nat) (xs : Bits) (b : Bool) :
    bitsVal acc (xs ++ [b]) = bitsVal acc xs * 2 + (if b then 1 else 0) := by
  induction xs generalizing acc with
  | nil => simp [bitsVal]
  | cons x xs ih => simp [bitsVal, ih]

theorem bitsVal_natBits (k n acc : Nat) : bitsVal acc (natBits k n) = acc * 2 ^ k + n % 2 ^ k := by
  induction k generalizing n with
  | zero => simp [natBits, bitsVal, Nat.mod_one]
  | succ k ih =>
    simp only [natBits, bitsVal_append_one, ih]
    have h2 : n % 2 ^ (k + 1) = 2 * (n / 2 % 2 ^ k) + n % 2 := by
      rw [Nat.pow_succ, Nat.mul_comm (2 ^ k) 2, Nat.mod_mul]
      omega
    rw [h2, Nat.pow_succ, ← Nat.mul_assoc]
    generalize acc * 2 ^ k = A
    generalize n / 2 % 2 ^ k = B
    by_cases hb : n % 2 = 1
    · simp [hb]; omega
    · have h0 : n % 2 = 0 := by omega
      simp [h0]; omega

/-- most significant bit first -/
theorem natBits_succ_head (k n : Nat) : natBits (k + 1) n = (n / 2 ^ k % 2 == 1) :: natBits k n := by
  induction k generalizing n with
  | zero => simp [natBits]
  | succ k ih =>
    rw [natBits, ih (n / 2)]
    simp only [List.cons_append, natBits]
    congr 2
    rw [Nat.div_div_eq_div_mul, Nat.pow_succ, Nat.mul_comm]

theorem toOctets_length_mod (bs : Bits) : (toOctets bs).length % 8 = 0 := by
  unfold toOctets; split <;> simp <;> omega

theorem toOctets_pos (bs : Bits) : 8 ≤ (toOctets bs).length := by
  unfold toOctets; split
  · simp
  · rename_i h; simp; omega

theorem toOctets_prefix (bs : Bits) (h : bs.length ≠ 0) :
    toOctets bs = bs ++ List.replicate ((toOctets bs).length - bs.length) false := by
  unfold toOctets; simp [h]

theorem toOctets_pad_lt (bs : Bits) (h : bs.length ≠ 0) : (toOctets bs).length - bs.length < 8 := by
  unfold toOctets; simp [h]; omega

theorem getLength_short (n : Nat) (h : n ≤ 127) (rest : Bits) :
    getLength (natBits 8 n ++ rest) = some (n, false, rest) := by
  rw [natBits_succ_head]
  have h0 : (n / 2 ^ 7 % 2 == 1) = false := by
    have : n / 2 ^ 7 = 0 := by omega
    simp [this]
  rw [h0]
  simp only [List.cons_append, getLength]
  have hl : (natBits 7 n).length = 7 := natBits_length 7 n
  have hlt : ¬ (natBits 7 n ++ rest).length < 7 := by simp [hl]
  simp only [hlt, if_false]
  have ht : (natBits 7 n ++ rest).take 7 = natBits 7 n := by
    rw [List.take_append_of_le_length (by omega)]; simp [List.take_of_length_le, hl]
  have hd : (natBits 7 n ++ rest).drop 7 = rest := by
    rw [List.drop_append_of_le_length (by omega)]; simp [List.drop_of_length_le, hl]
  rw [ht, hd, bitsVal_natBits]
  simp; omega

theorem getLength_medium (n : Nat) (h1 : 127 < n) (h2 : n < 16384) (rest : Bits) :
    getLength (natBits 16 (n + 32768) ++ rest) = some (n, false, rest) := by
  rw [natBits_succ_head, natBits_succ_head]
  have h0 : ((n + 32768) / 2 ^ 15 % 2 == 1) = true := by
    have : (n + 32768) / 2 ^ 15 = 1 := by omega
    simp [this]
  have h1' : ((n + 32768) / 2 ^ 14 % 2 == 1) = false := by
    have : (n + 32768) / 2 ^ 14 = 2 := by omega
    simp [this]
  rw [h0, h1']
  simp only [List.cons_append, getLength]
  have hl : (natBits 14 (n + 32768)).length = 14 := natBits_length 14 _
  have hlt : ¬ (natBits 14 (n + 32768) ++ rest).length < 14 := by simp [hl]
  simp only [hlt, if_false]
  have ht : (natBits 14 (n + 32768) ++ rest).take 14 = natBits 14 (n + 32768) := by
    rw [List.take_append_of_le_length (by omega)]; simp [List.take_of_length_le, hl]
  have hd : (natBits 14 (n + 32768) ++ rest).drop 14 = rest := by
    rw [List.drop_append_of_le_length (by omega)]; simp [List.drop_of_length_le, hl]
  rw [ht, hd, bitsVal_natBits]
  simp; omega


theorem getLength_lenDet (n : Nat) (h : n < 16384) (rest : Bits) :
    getLength (lenDet n ++ rest) = some (n, false, rest) := by
  unfold lenDet; split
  · exact getLength_short n (by omega) rest
  · exact getLength_medium n (by omega) h rest

/-- **UPER framing** (encoder side): below 16384 octets the open type field is the length
    determinant followed by the octet-aligned stand-alone encoding of the row value. -/
theorem openPut_short (inner : Bits) (h : (toOctets inner).length / 8 < 16384) :
    openPut inner = lenDet ((toOctets inner).length / 8) ++ toOctets inner := by
  unfold openPut
  simp only [putChunks, putLength, lenDet]
  generalize ho : toOctets inner = o at *
  have hm : o.length % 8 = 0 := ho ▸ toOctets_length_mod inner
  have h8 : 8 * (o.length / 8) = o.length := by omega
  by_cases h1 : o.length / 8 ≤ 127
  · simp [h1, h8]
  · have h2 : o.length / 8 < 16384 := h
    simp [h1, h2, h8]

theorem collect_lenDet (o rest : Bits) (fuel : Nat) (hm : o.length % 8 = 0) (h : o.length / 8 < 16384) :
    collect (fuel + 1) (lenDet (o.length / 8) ++ (o ++ rest)) [] = some (o, rest) := by
  have h8 : 8 * (o.length / 8) = o.length := by omega
  simp only [collect, getLength_lenDet _ h, h8]
  have : ¬ (o ++ rest).length < o.length := by simp
  simp only [this, if_false]
  simp


theorem toOctets_drop_all_false (bs : Bits) : ((toOctets bs).drop bs.length).all (· == false) = true := by
  unfold toOctets
  split
  · rename_i h; simp [h]
  · simp

/-- **UPER framing** (decoder side): `uper_open_type_get` undoes `uper_open_type_put` for every row
    decoder that, given the octet-aligned stand-alone encoding, returns the value and reports
    exactly the bits the encoder produced. -/
theorem openGet_openPut {β : Type} (dec : Bits → PerRes β) (inner rest : Bits) (v : β)
    (hdec : dec (toOctets inner) = .ok v inner.length)
    (h : (toOctets inner).length / 8 < 16384) :
    openGet dec (openPut inner ++ rest) = .ok (v, rest) (openPut inner).length := by
  rw [openPut_short inner h]
  unfold openGet
  rw [List.append_assoc, collect_lenDet _ _ _ (toOctets_length_mod inner) h]
  simp only [hdec]
  have hall := toOctets_drop_all_false inner
  have hpad : (toOctets inner).length - inner.length < 8 ∨ (inner.length = 0 ∧ (toOctets inner).length = 8) := by
    by_cases h0 : inner.length = 0
    · right; refine ⟨h0, ?_⟩; unfold toOctets; simp [h0]
    · left; exact toOctets_pad_lt inner h0
  simp only [hpad, hall, and_self, if_true]
  congr 1
  simp only [List.length_append]; omega


end Asn1c.Proofs.OpenType
