import Asn1cModel.Impl.BitData
import Asn1cModel.Impl.PerSupport
import Asn1cModel.Spec.Per
/- L1 lemmas about the bit primitives and the UPER support functions (used by C01/C02/C04). -/
namespace Asn1c.Proofs.PerSupport
open Asn1c Asn1c.Impl.BitData Asn1c.Impl.PerSupport

/-! ### bit lists -/

theorem natBits_length (k n : Nat) : (natBits k n).length = k := by
  induction k generalizing n with
  | zero => rfl
  | succ k ih => simp [natBits, ih]

theorem bitsVal_append (acc : Nat) (a b : Bits) : bitsVal acc (a ++ b) = bitsVal (bitsVal acc a) b := by
  induction a generalizing acc with
  | nil => rfl
  | cons x xs ih => simp [bitsVal, ih]

theorem bitsVal_acc (acc : Nat) (bs : Bits) : bitsVal acc bs = acc * 2 ^ bs.length + bitsVal 0 bs := by
  induction bs generalizing acc with
  | nil => simp [bitsVal]
  | cons x xs ih =>
    simp only [bitsVal, List.length_cons]
    rw [ih, ih (0 * 2 + _)]
    simp only [Nat.zero_mul, Nat.zero_add, Nat.pow_succ]
    rw [Nat.add_mul, Nat.mul_assoc, Nat.mul_comm 2, Nat.add_assoc]

theorem bitsVal_cons (x : Bool) (xs : Bits) :
    bitsVal 0 (x :: xs) = (if x then 1 else 0) * 2 ^ xs.length + bitsVal 0 xs := by
  simp only [bitsVal]; rw [bitsVal_acc]; simp

theorem bitsVal_lt (bs : Bits) : bitsVal 0 bs < 2 ^ bs.length := by
  induction bs with
  | nil => simp [bitsVal]
  | cons x xs ih =>
    rw [bitsVal_cons, List.length_cons, Nat.pow_succ]
    split <;> omega

theorem bitsVal_natBits (k n : Nat) : bitsVal 0 (natBits k n) = n % 2 ^ k := by
  induction k generalizing n with
  | zero => simp [natBits, bitsVal, Nat.mod_one]
  | succ k ih =>
    simp only [natBits, bitsVal_append, ih, bitsVal, Nat.pow_succ]
    have : n % (2 ^ k * 2) = 2 * (n / 2 % 2 ^ k) + n % 2 := by
      rw [Nat.mul_comm (2 ^ k) 2, Nat.mod_mul]
      omega
    rw [this]
    by_cases h : n % 2 = 1 <;> simp [h] <;> omega

theorem natBits_congr (k n m : Nat) (h : n % 2 ^ k = m % 2 ^ k) : natBits k n = natBits k m := by
  induction k generalizing n m with
  | zero => rfl
  | succ k ih =>
    simp only [natBits]
    rw [Nat.pow_succ, Nat.mul_comm, Nat.mod_mul, Nat.mod_mul] at h
    have h1 : n % 2 = m % 2 := by omega
    have h2 : n / 2 % 2 ^ k = m / 2 % 2 ^ k := by omega
    rw [ih _ _ h2, h1]

theorem natBits_mod (k n : Nat) : natBits k (n % 2 ^ k) = natBits k n :=
  natBits_congr _ _ _ (Nat.mod_mod _ _)

/-- most significant bit first -/
theorem natBits_cons (k n : Nat) : natBits (k + 1) n = (n / 2 ^ k % 2 == 1) :: natBits k n := by
  induction k generalizing n with
  | zero => simp [natBits]
  | succ k ih =>
    rw [natBits, ih (n / 2)]
    conv => rhs; rw [natBits]
    simp [Nat.div_div_eq_div_mul, Nat.pow_succ, Nat.mul_comm]

theorem natBits_split (a b n : Nat) : natBits (a + b) n = natBits a (n / 2 ^ b) ++ natBits b n := by
  induction b generalizing n with
  | zero => simp [natBits]
  | succ b ih =>
    rw [← Nat.add_assoc, natBits, ih, natBits, List.append_assoc]
    congr 2
    rw [Nat.div_div_eq_div_mul, Nat.pow_succ, Nat.mul_comm]

theorem natBits_bitsVal (bs : Bits) : natBits bs.length (bitsVal 0 bs) = bs := by
  induction bs with
  | nil => rfl
  | cons x xs ih =>
    have hlt := bitsVal_lt xs
    have hp : 0 < 2 ^ xs.length := Nat.pos_of_ne_zero (by simp)
    rw [List.length_cons, natBits_cons, bitsVal_cons]
    congr 1
    · rw [Nat.add_comm, Nat.add_mul_div_right _ _ hp, Nat.div_eq_of_lt hlt]
      cases x <;> simp
    · rw [natBits_congr _ _ (bitsVal 0 xs) (by rw [Nat.add_comm, Nat.add_mul_mod_self_right]), ih]

/-! ### `asn_get_few_bits` / `asn_put_few_bits` -/

/-- reading `n ≤ 31` bits from `n` bits followed by anything -/
theorem getFewBits_append (n : Nat) (bits rest : Bits) (hn : n ≤ 31) (hl : bits.length = n) :
    getFewBits n (bits ++ rest) = some (bitsVal 0 bits, rest) := by
  unfold getFewBits
  rw [if_neg (by omega)]
  have ht : (bits ++ rest).take n = bits := by rw [← hl]; simp
  have hd : (bits ++ rest).drop n = rest := by rw [← hl]; simp
  rw [ht, hd, if_neg (by omega)]

/-- `asn_get_few_bits` inverts `asn_put_few_bits` (whatever the value: it is masked to `n` bits) -/
theorem getFewBits_natBits (n v : Nat) (rest : Bits) (hn : n ≤ 31) :
    getFewBits n (natBits n v ++ rest) = some (v % 2 ^ n, rest) := by
  rw [getFewBits_append n _ rest hn (natBits_length n v), bitsVal_natBits]

/-- complete characterisation of a successful read: exactly `n ≤ 31` bits are consumed, they are the
    binary digits of the value, the rest is untouched -/
theorem getFewBits_some {n : Nat} {bs r : Bits} {v : Nat} (h : getFewBits n bs = some (v, r)) :
    n ≤ 31 ∧ v < 2 ^ n ∧ bs = natBits n v ++ r := by
  unfold getFewBits at h
  split at h
  · cases h
  · split at h
    · cases h
    · rename_i h1 h2
      simp only [Option.some.injEq, Prod.mk.injEq] at h
      obtain ⟨hv, hr⟩ := h
      have hl : (bs.take n).length = n := by
        have := List.length_take_le n bs
        omega
      refine ⟨by omega, ?_, ?_⟩
      · rw [← hv]; have := bitsVal_lt (bs.take n); rw [hl] at this; exact this
      · rw [← hv, ← hr]
        have := natBits_bitsVal (bs.take n)
        rw [hl] at this
        rw [this, List.take_append_drop]

theorem getFewBits_none_iff (n : Nat) (bs : Bits) : getFewBits n bs = none ↔ n > 31 ∨ bs.length < n := by
  unfold getFewBits
  simp only [List.length_take]
  split
  · simp [*]
  · split
    · simp; omega
    · simp; omega

theorem putFewBits_eq (n v : Nat) (hn : n ≤ 31) : putFewBits n v = some (natBits n v) := by
  unfold putFewBits; rw [if_neg (by omega)]

/-! ### `uper_get_length` / `uper_put_length` -/

macro "ifomega" : tactic => `(tactic| repeat (first | rw [if_pos (by omega)] | rw [if_neg (by omega)]))

theorem getLength_putLength_small (n : Nat) (rest : Bits) (h : n < 16384) :
    getLength (-1) 0 ((putLength n).1 ++ rest) = some (n, false, rest) := by
  unfold putLength
  by_cases h1 : n ≤ 127
  · rw [if_pos h1]
    simp only [getLength]
    rw [if_neg (by omega), getFewBits_natBits 8 n rest (by omega)]
    simp only
    rw [if_pos (by omega)]
    congr 2; omega
  · rw [if_neg h1, if_pos h]
    simp only [getLength]
    rw [if_neg (by omega)]
    rw [show (16 : Nat) = 8 + 8 from rfl, natBits_split, List.append_assoc,
      getFewBits_natBits 8 _ _ (by omega)]
    simp only
    rw [if_neg (by omega), if_pos (by omega), getFewBits_natBits 8 _ _ (by omega)]
    simp only
    congr 2; omega

theorem getLength_putLength_frag (n : Nat) (rest : Bits) (h : 16384 ≤ n) :
    getLength (-1) 0 ((putLength n).1 ++ rest) = some ((putLength n).2.1, true, rest) := by
  unfold putLength
  rw [if_neg (by omega), if_neg (by omega)]
  simp only
  by_cases h4 : n / 16384 > 4
  · rw [if_pos h4]
    simp only [getLength]
    rw [if_neg (by omega), getFewBits_natBits 8 _ _ (by omega)]
    simp only
    ifomega
  · rw [if_neg h4]
    simp only [getLength]
    rw [if_neg (by omega), getFewBits_natBits 8 _ _ (by omega)]
    simp only
    ifomega
    congr 2; omega

/-- the three results of `uper_put_length` spelled out -/
theorem putLength_cover (n : Nat) :
    (putLength n).2.1 = if n < 16384 then n else min (n / 16384) 4 * 16384 := by
  unfold putLength
  by_cases h1 : n ≤ 127
  · rw [if_pos h1, if_pos (by omega)]
  · rw [if_neg h1]
    by_cases h2 : n < 16384
    · rw [if_pos h2, if_pos h2]
    · rw [if_neg h2, if_neg h2]
      simp only
      split <;> simp only <;> omega

theorem putLength_eom (n : Nat) :
    (putLength n).2.2 = (decide (16384 ≤ n) && decide (n / 16384 ≤ 4) && n % 16384 == 0) := by
  unfold putLength
  by_cases h1 : n ≤ 127
  · rw [if_pos h1]; simp; omega
  · rw [if_neg h1]
    by_cases h2 : n < 16384
    · rw [if_pos h2]; simp; omega
    · rw [if_neg h2]
      simp only
      split
      · simp; omega
      · simp; omega

open Asn1c.Spec.Per in
theorem putLength_hdr_small (n : Nat) (h : n < 16384) : (putLength n).1 = lengthDetSmall n := by
  unfold putLength lengthDetSmall nnbi
  by_cases h1 : n ≤ 127
  · rw [if_pos h1, if_pos h1]
    simp only
    rw [natBits_cons]
    congr 1
    simp; omega
  · rw [if_neg h1, if_pos h, if_neg h1]
    simp only
    rw [natBits_cons, natBits_cons]
    congr 1
    · simp; omega
    · congr 1
      · simp; omega
      · apply natBits_congr; omega

open Asn1c.Spec.Per in
theorem putLength_hdr_frag (n : Nat) (h : 16384 ≤ n) : (putLength n).1 = fragHeader (min (n / 16384) 4) := by
  unfold putLength fragHeader nnbi
  rw [if_neg (by omega), if_neg (by omega)]
  simp only
  by_cases h4 : n / 16384 > 4
  · rw [if_pos h4]
    simp only
    rw [natBits_cons, natBits_cons]
    congr 1
    congr 1
    apply natBits_congr; omega
  · rw [if_neg h4]
    simp only
    rw [natBits_cons, natBits_cons]
    congr 1
    · simp; omega
    · congr 1
      · simp; omega
      · apply natBits_congr; omega

/-- the length loop of the UPER encoders emits exactly X.691 §10.9.3.5–10.9.3.8 (with fragmentation) -/
theorem lengthPrefixed_eq_putLoop (fuel : Nat) (items : List Bits) (hf : items.length < fuel) :
    Spec.Per.lengthPrefixed fuel items = putLoop items := by
  induction fuel generalizing items with
  | zero => omega
  | succ fuel ih =>
    rw [Spec.Per.lengthPrefixed, putLoop]
    simp only
    have hcov := putLength_cover items.length
    have heom := putLength_eom items.length
    by_cases hs : items.length < 16384
    · rw [if_pos hs]
      rw [if_pos hs] at hcov
      rw [dif_pos (by omega), hcov, putLength_hdr_small _ hs, List.take_length]
      have : (putLength items.length).2.2 = false := by rw [heom]; simp; omega
      rw [this]; simp
    · rw [if_neg hs]
      rw [if_neg hs] at hcov
      have hm : 1 ≤ min (items.length / 16384) 4 := by omega
      by_cases hlast : items.length ≤ (putLength items.length).2.1
      · rw [dif_pos (Or.inr hlast)]
        rw [hcov] at hlast ⊢
        have he : (putLength items.length).2.2 = true := by rw [heom]; simp; omega
        rw [he, putLength_hdr_frag _ (by omega)]
        have hd : List.drop (min (items.length / 16384) 4 * 16384) items = [] := by
          apply List.drop_eq_nil_of_le; omega
        rw [hd]
        cases fuel with
        | zero => omega
        | succ f => rfl
      · rw [dif_neg (by omega)]
        rw [hcov] at hlast ⊢
        have he : (putLength items.length).2.2 = false := by rw [heom]; simp; omega
        rw [he, putLength_hdr_frag _ (by omega)]
        rw [ih _ (by simp only [List.length_drop]; omega)]
        simp

/-! ### the decoder's length loop inverts the encoder's length loop -/

theorem getItems_encoded {α : Type} (rd : Bits → Option (α × Bits)) (enc : α → Bits) (xs : List α) (rest : Bits)
    (hrd : ∀ a ∈ xs, ∀ r, rd (enc a ++ r) = some (a, r)) :
    getItems rd xs.length ((xs.map enc).flatten ++ rest) = some (xs, rest) := by
  induction xs with
  | nil => simp [getItems]
  | cons a as ih =>
    simp only [List.map_cons, List.flatten_cons, List.append_assoc, List.length_cons, getItems]
    rw [hrd a (by simp)]
    simp only
    rw [ih (fun b hb r => hrd b (by simp [hb]) r)]

theorem putLength_hdr_len (n : Nat) : 8 ≤ (putLength n).1.length := by
  unfold putLength
  split
  · simp [natBits_length]
  · split
    · simp [natBits_length]
    · simp only; split <;> simp [natBits_length]

theorem getLoopF_putLoop {α : Type} (rd : Bits → Option (α × Bits)) (enc : α → Bits) (fuel : Nat) (xs : List α)
    (rest : Bits) (hrd : ∀ a ∈ xs, ∀ r, rd (enc a ++ r) = some (a, r))
    (hf : (putLoop (xs.map enc) ++ rest).length / 8 < fuel) :
    getLoopF rd fuel (putLoop (xs.map enc) ++ rest) = some (xs, rest) := by
  induction fuel generalizing xs with
  | zero => omega
  | succ fuel ih =>
    rw [putLoop] at hf ⊢
    simp only [List.length_map] at hf ⊢
    have hcov := putLength_cover xs.length
    have heom := putLength_eom xs.length
    have hh := putLength_hdr_len xs.length
    by_cases hs : xs.length < 16384
    · rw [if_pos hs] at hcov
      rw [dif_pos (by omega)] at hf ⊢
      have he : (putLength xs.length).2.2 = false := by rw [heom]; simp; omega
      rw [he, hcov, ← List.map_take, List.take_length]
      simp only [Bool.false_eq_true, if_false, List.append_nil, List.append_assoc]
      rw [getLoopF, getLength_putLength_small _ _ hs]
      simp only
      rw [getItems_encoded rd enc xs rest hrd]
      simp
    · rw [if_neg hs] at hcov
      have hm : 1 ≤ min (xs.length / 16384) 4 := by omega
      have htl : (xs.take (putLength xs.length).2.1).length = (putLength xs.length).2.1 := by
        rw [List.length_take, hcov]; omega
      have hrd' : ∀ a ∈ xs.take (putLength xs.length).2.1, ∀ r, rd (enc a ++ r) = some (a, r) :=
        fun a ha r => hrd a (List.mem_of_mem_take ha) r
      by_cases hlast : xs.length ≤ (putLength xs.length).2.1
      · rw [dif_pos (Or.inr hlast)] at hf ⊢
        have he : (putLength xs.length).2.2 = true := by rw [heom]; rw [hcov] at hlast; simp; omega
        rw [he] at hf ⊢
        simp only [if_true, List.append_assoc] at hf ⊢
        rw [getLoopF, getLength_putLength_frag _ _ (by omega)]
        simp only
        rw [← List.map_take]
        have := getItems_encoded rd enc (xs.take (putLength xs.length).2.1) ((putLength 0).1 ++ rest) hrd'
        rw [htl] at this
        rw [this]
        simp only [if_true]
        cases fuel with
        | zero =>
          simp only [List.length_append] at hf
          have := putLength_hdr_len 0
          omega
        | succ f =>
          rw [getLoopF, getLength_putLength_small 0 _ (by omega)]
          simp only [getItems]
          rw [List.take_of_length_le hlast]
          simp
      · rw [dif_neg (by omega)] at hf ⊢
        have he : (putLength xs.length).2.2 = false := by rw [heom]; rw [hcov] at hlast; simp; omega
        rw [he] at hf ⊢
        simp only [Bool.false_eq_true, if_false, List.append_nil, List.append_assoc] at hf ⊢
        rw [getLoopF, getLength_putLength_frag _ _ (by omega)]
        simp only
        rw [← List.map_take, ← List.map_drop]
        have := getItems_encoded rd enc (xs.take (putLength xs.length).2.1)
          (putLoop ((xs.drop (putLength xs.length).2.1).map enc) ++ rest) hrd'
        rw [htl] at this
        rw [this]
        simp only [if_true]
        rw [ih (xs.drop (putLength xs.length).2.1) (fun a ha r => hrd a (List.mem_of_mem_drop ha) r)]
        · simp
        · rw [← List.map_drop] at hf
          simp only [List.length_append] at hf ⊢
          omega

/-- `do { n = uper_get_length(); read n items } while(repeat)` returns exactly the items written by
    `do { uper_put_length(); put items; eom } while(left)` – for every number of items, including the
    127/128 and 16383/16384 boundaries, multiples of 16K (end-of-message determinant) and > 64K (several rounds) -/
theorem getLoop_putLoop {α : Type} (rd : Bits → Option (α × Bits)) (enc : α → Bits) (xs : List α) (rest : Bits)
    (hrd : ∀ a ∈ xs, ∀ r, rd (enc a ++ r) = some (a, r)) :
    getLoop rd (putLoop (xs.map enc) ++ rest) = some (xs, rest) := by
  unfold getLoop
  exact getLoopF_putLoop rd enc _ xs rest hrd (by omega)

/-! ### normally small numbers / lengths -/

theorem putNsnnwn_small (n : Nat) (h : n ≤ 63) : putNsnnwn n = some (natBits 7 n) := by
  unfold putNsnnwn
  rw [if_pos (by omega), if_neg (by omega), putFewBits_eq _ _ (by omega)]
  simp

theorem getNsnnwn_small (n : Nat) (rest : Bits) (h : n ≤ 63) : getNsnnwn (natBits 7 n ++ rest) = some (n, rest) := by
  unfold getNsnnwn
  rw [getFewBits_natBits 7 n rest (by omega)]
  simp only
  rw [if_neg (by omega)]
  congr 2; omega

theorem putNslength_small (n : Nat) (h1 : 1 ≤ n) (h : n ≤ 64) : putNslength n = some (natBits 7 (n - 1)) := by
  unfold putNslength
  rw [if_pos h, if_neg (by omega), putFewBits_eq _ _ (by omega)]

theorem getNslength_small (n : Nat) (rest : Bits) (h1 : 1 ≤ n) (h : n ≤ 64) :
    getNslength (natBits 7 (n - 1) ++ rest) = some (n, rest) := by
  unfold getNslength
  rw [show (7 : Nat) = 1 + 6 from rfl, natBits_split, List.append_assoc, getFewBits_natBits 1 _ _ (by omega)]
  simp only
  rw [if_pos (by omega), getFewBits_natBits 6 _ _ (by omega)]
  simp only
  congr 2; omega

/-- what `uper_put_nslength` writes for 64 < n < 16384: the bit `1`, then the length determinant -/
theorem putNslength_large (n : Nat) (h1 : 64 < n) (h : n < 16384) : putNslength n = some (true :: (putLength n).1) := by
  unfold putNslength
  rw [if_neg (by omega)]
  have hc := putLength_cover n
  have he := putLength_eom n
  rw [if_pos h] at hc
  have he' : (putLength n).2.2 = false := by rw [he]; simp; omega
  have hm : putFewBits 1 1 = some [true] := by decide
  rw [hm]
  simp only
  rw [hc, he']
  simp

theorem putNslength_fails (n : Nat) (h : 16384 ≤ n) : putNslength n = none := by
  unfold putNslength
  rw [if_neg (by omega)]
  have hc := putLength_cover n
  have he := putLength_eom n
  rw [if_neg (by omega)] at hc
  have hm : putFewBits 1 1 = some [true] := by decide
  rw [hm]
  simp only
  rw [hc, he]
  by_cases h4 : n / 16384 ≤ 4
  · by_cases h0 : n % 16384 = 0
    · rw [if_pos]; right; simp; omega
    · rw [if_pos]; left; omega
  · rw [if_pos]; left; omega

/-! ### constrained whole numbers -/

/-- `uper_put_constrained_whole_number_u` writes the `nbits` low bits of `v`, most significant first
    (the 31-bit split is invisible on the wire) and never fails -/
theorem putCwnU_eq (v nbits : Nat) : putCwnU v nbits = some (natBits nbits v) := by
  induction nbits using Nat.strongRecOn generalizing v with
  | _ nbits ih =>
    rw [putCwnU]
    by_cases h : nbits ≤ 31
    · rw [if_pos h, putFewBits_eq _ _ h]
    · rw [if_neg h, ih (nbits - 31) (by omega), putFewBits_eq _ _ (by omega)]
      simp only
      rw [← natBits_split, show nbits - 31 + 31 = nbits by omega]

theorem getCwn_natBits (nbits v : Nat) (rest : Bits) (h : nbits ≤ 64) :
    getCwn nbits (natBits nbits v ++ rest) = some (v % 2 ^ nbits, rest) := by
  induction nbits using Nat.strongRecOn generalizing v rest with
  | _ nbits ih =>
    rw [getCwn]
    by_cases h31 : nbits ≤ 31
    · rw [if_pos h31, getFewBits_natBits _ _ _ h31]
    · rw [if_neg h31, if_neg (by omega)]
      have e : nbits = 31 + (nbits - 31) := by omega
      conv => lhs; rw [e, natBits_split, List.append_assoc]
      rw [getFewBits_natBits 31 _ _ (by omega)]
      simp only
      rw [show 31 + (nbits - 31) - 31 = nbits - 31 by omega, ih (nbits - 31) (by omega) _ _ (by omega)]
      simp only
      congr 2
      -- (v / 2^k % 2^31) * 2^k + v % 2^k = v % 2^(31+k)
      generalize hk : nbits - 31 = k
      have e2 : nbits = k + 31 := by omega
      rw [e2, Nat.pow_add, Nat.mod_mul]
      rw [Nat.mul_comm, Nat.add_comm]

theorem getCwn_some {nbits : Nat} {bs r : Bits} {v : Nat} (h : getCwn nbits bs = some (v, r)) :
    nbits ≤ 64 ∧ v < 2 ^ nbits ∧ bs = natBits nbits v ++ r := by
  induction nbits using Nat.strongRecOn generalizing v bs r with
  | _ nbits ih =>
    rw [getCwn] at h
    by_cases h31 : nbits ≤ 31
    · rw [if_pos h31] at h
      have := getFewBits_some h
      exact ⟨by omega, this.2.1, this.2.2⟩
    · rw [if_neg h31] at h
      by_cases h64 : nbits > 64
      · rw [if_pos h64] at h; cases h
      · rw [if_neg h64] at h
        cases h1 : getFewBits 31 bs with
        | none => rw [h1] at h; cases h
        | some p =>
          obtain ⟨half, r1⟩ := p
          rw [h1] at h
          simp only at h
          cases h2 : getCwn (nbits - 31) r1 with
          | none => rw [h2] at h; cases h
          | some q =>
            obtain ⟨lhalf, r2⟩ := q
            rw [h2] at h
            simp only [Option.some.injEq, Prod.mk.injEq] at h
            obtain ⟨hv, hr⟩ := h
            obtain ⟨_, hb1, hs1⟩ := getFewBits_some h1
            obtain ⟨_, hb2, hs2⟩ := ih (nbits - 31) (by omega) h2
            refine ⟨by omega, ?_, ?_⟩
            · rw [← hv]
              have e : nbits = 31 + (nbits - 31) := by omega
              generalize nbits - 31 = k at *
              rw [e, Nat.pow_add]
              calc half * 2 ^ k + lhalf < half * 2 ^ k + 2 ^ k := by omega
                _ = (half + 1) * 2 ^ k := by rw [Nat.add_mul]; simp
                _ ≤ 2 ^ 31 * 2 ^ k := Nat.mul_le_mul_right _ (by omega)
            · rw [hs1, hs2, ← hr, ← hv]
              have e : nbits = 31 + (nbits - 31) := by omega
              generalize nbits - 31 = k at *
              have hp : 0 < 2 ^ k := Nat.pos_of_ne_zero (by simp)
              have e1 : (half * 2 ^ k + lhalf) / 2 ^ k = half := by
                rw [Nat.add_comm, Nat.add_mul_div_right _ _ hp, Nat.div_eq_of_lt hb2]; simp
              have e2 : natBits k (half * 2 ^ k + lhalf) = natBits k lhalf := by
                apply natBits_congr
                rw [Nat.add_comm, Nat.add_mul_mod_self_right]
              rw [e, natBits_split, List.append_assoc, e1, e2]

/-! ### `per_long_range_rebase` / `per_long_range_unrebase` -/

theorem longRange_eq (lb ub : Int) (hl : isLong lb) (hu : isLong ub) (h : lb ≤ ub) :
    longRange lb ub = some (ub - lb).toNat := by
  unfold isLong longMin longMax at hl hu
  unfold longRange
  by_cases h1 : (ub < 0) = (lb < 0)
  · rw [if_pos h1]
    congr 1
    have : (ub - lb) % 2 ^ 64 = ub - lb := by
      apply Int.emod_eq_of_lt <;> omega
    rw [this]
  · rw [if_neg h1]
    have hlb : lb < 0 := by
      by_cases c : lb < 0
      · exact c
      · exfalso; apply h1; simp only [eq_iff_iff]; constructor <;> intro <;> omega
    rw [if_pos hlb]
    have hub : ¬ ub < 0 := by
      intro hub; apply h1; simp only [eq_iff_iff]; constructor <;> intro <;> assumption
    have e : 1 + (ub.toNat + (-(lb + 1)).toNat) = (ub - lb).toNat := by omega
    rw [e]

theorem rebase_eq (v lb ub : Int) (hl : isLong lb) (hu : isLong ub) (h1 : lb ≤ v) (h2 : v ≤ ub) :
    rebase v lb ub = some (v - lb).toNat := by
  have hr := longRange_eq lb ub hl hu (by omega)
  unfold isLong longMin longMax at hl hu
  unfold rebase
  rw [hr, if_neg (by simp; omega)]
  by_cases c : (v < 0) = (lb < 0)
  · rw [if_pos c]
  · rw [if_neg c]
    have hv : ¬ v < 0 := by
      intro hv; apply c; simp only [eq_iff_iff]; constructor <;> intro <;> omega
    have hlb : lb < 0 := by
      by_cases c2 : lb < 0
      · exact c2
      · exfalso; apply c; simp only [eq_iff_iff]; constructor <;> intro <;> omega
    rw [if_neg hv, if_pos hlb]
    have e : 1 + (-(lb + 1)).toNat + v.toNat = (v - lb).toNat := by omega
    rw [e]

theorem rebase_out_of_range (v lb ub : Int) (h : v < lb ∨ ub < v) : rebase v lb ub = none := by
  unfold rebase
  rw [if_pos]
  rcases h with h | h
  · exact Or.inl h
  · exact Or.inr (Or.inl h)

theorem unrebase_eq (inp : Nat) (lb ub : Int) (hl : isLong lb) (hu : isLong ub) (h : lb ≤ ub) :
    unrebase inp lb ub = if (inp : Int) ≤ ub - lb then some (inp + lb) else none := by
  have hr := longRange_eq lb ub hl hu h
  unfold isLong longMin longMax at hl hu
  unfold unrebase
  rw [hr]
  simp only
  by_cases c : (inp : Int) ≤ ub - lb
  · rw [if_pos c, if_neg (by omega)]
    unfold longMax
    split
    · rfl
    · have e : lb + (2 ^ 63 - 1) + 1 + ((inp : Int) - (2 ^ 63 - 1) - 1) = inp + lb := by omega
      rw [e]
  · rw [if_neg c, if_pos (by omega)]

/-! ### the readers never look beyond the bits they are given -/

theorem getFewBits_suffix {n : Nat} {bs r : Bits} {v : Nat} (h : getFewBits n bs = some (v, r)) : r <:+ bs := by
  obtain ⟨_, _, e⟩ := getFewBits_some h
  exact ⟨_, e.symm⟩

theorem getCwn_suffix {n : Nat} {bs r : Bits} {v : Nat} (h : getCwn n bs = some (v, r)) : r <:+ bs := by
  obtain ⟨_, _, e⟩ := getCwn_some h
  exact ⟨_, e.symm⟩

theorem getLength_suffix {e : Int} {lb : Nat} {bs r : Bits} {v : Nat} {rep : Bool}
    (h : getLength e lb bs = some (v, rep, r)) : r <:+ bs := by
  unfold getLength at h
  split at h
  · cases h1 : getFewBits e.toNat bs with
    | none => rw [h1] at h; cases h
    | some p =>
      rw [h1] at h; simp only [Option.some.injEq, Prod.mk.injEq] at h
      rw [← h.2.2]; exact getFewBits_suffix h1
  · cases h1 : getFewBits 8 bs with
    | none => rw [h1] at h; cases h
    | some p =>
      obtain ⟨x, r1⟩ := p
      rw [h1] at h; simp only at h
      have s1 := getFewBits_suffix h1
      split at h
      · simp only [Option.some.injEq, Prod.mk.injEq] at h; rw [← h.2.2]; exact s1
      · split at h
        · cases h2 : getFewBits 8 r1 with
          | none => rw [h2] at h; cases h
          | some q =>
            rw [h2] at h; simp only [Option.some.injEq, Prod.mk.injEq] at h
            rw [← h.2.2]; exact (getFewBits_suffix h2).trans s1
        · split at h
          · cases h
          · simp only [Option.some.injEq, Prod.mk.injEq] at h; rw [← h.2.2]; exact s1

/-- an unconstrained length determinant never announces more than 64K items at once, and at least 8 bits are consumed -/
theorem getLength_unconstrained {e : Int} {lb : Nat} {bs r : Bits} {v : Nat} {rep : Bool} (he : e < 0 ∨ 16 < e)
    (h : getLength e lb bs = some (v, rep, r)) :
    r.length + 8 ≤ bs.length ∧
    ((rep = false ∧ v < 16384) ∨ (rep = true ∧ (v = 16384 ∨ v = 32768 ∨ v = 49152 ∨ v = 65536))) := by
  unfold getLength at h
  rw [if_neg (by omega)] at h
  cases h1 : getFewBits 8 bs with
  | none => rw [h1] at h; cases h
  | some p =>
    obtain ⟨x, r1⟩ := p
    rw [h1] at h; simp only at h
    obtain ⟨_, hx, e1⟩ := getFewBits_some h1
    have l1 : bs.length = 8 + r1.length := by rw [e1]; simp [natBits_length]
    split at h
    · simp only [Option.some.injEq, Prod.mk.injEq] at h
      obtain ⟨a, b, c⟩ := h
      subst c
      exact ⟨by omega, Or.inl ⟨b.symm, by omega⟩⟩
    · split at h
      · cases h2 : getFewBits 8 r1 with
        | none => rw [h2] at h; cases h
        | some q =>
          obtain ⟨w, r2⟩ := q
          rw [h2] at h; simp only [Option.some.injEq, Prod.mk.injEq] at h
          obtain ⟨_, hw, e2⟩ := getFewBits_some h2
          have l2 : r1.length = 8 + r2.length := by rw [e2]; simp [natBits_length]
          obtain ⟨a, b, c⟩ := h
          subst c
          exact ⟨by omega, Or.inl ⟨b.symm, by omega⟩⟩
      · split at h
        · cases h
        · simp only [Option.some.injEq, Prod.mk.injEq] at h
          obtain ⟨a, b, c⟩ := h
          subst c
          exact ⟨by omega, Or.inr ⟨b.symm, by omega⟩⟩

theorem getNslength_suffix {bs r : Bits} {v : Nat} (h : getNslength bs = some (v, r)) : r <:+ bs := by
  unfold getNslength at h
  simp only at h
  have long : ∀ (x : Bits), (match getLength (-1) 0 x with
      | some (len, false, r') => some (len, r')
      | _ => none) = some (v, r) → r <:+ x := by
    intro x hx
    split at hx
    · rename_i len r' heq
      simp only [Option.some.injEq, Prod.mk.injEq] at hx
      rw [← hx.2]; exact getLength_suffix heq
    · cases hx
  cases h1 : getFewBits 1 bs with
  | none => rw [h1] at h; exact long bs h
  | some p =>
    obtain ⟨b, r1⟩ := p
    rw [h1] at h; simp only at h
    have s1 := getFewBits_suffix h1
    split at h
    · cases h2 : getFewBits 6 r1 with
      | none => rw [h2] at h; cases h
      | some q =>
        rw [h2] at h; simp only [Option.some.injEq, Prod.mk.injEq] at h
        rw [← h.2]; exact (getFewBits_suffix h2).trans s1
    · exact (long r1 h).trans s1

theorem getNsnnwn_suffix {bs r : Bits} {v : Nat} (h : getNsnnwn bs = some (v, r)) : r <:+ bs := by
  unfold getNsnnwn at h
  cases h1 : getFewBits 7 bs with
  | none => rw [h1] at h; cases h
  | some p =>
    obtain ⟨x, r1⟩ := p
    rw [h1] at h; simp only at h
    have s1 := getFewBits_suffix h1
    split at h
    · cases h2 : getFewBits 2 r1 with
      | none => rw [h2] at h; cases h
      | some q =>
        obtain ⟨w, r2⟩ := q
        rw [h2] at h; simp only at h
        have s2 := (getFewBits_suffix h2).trans s1
        split at h
        · cases h
        · split at h
          · simp only [Option.some.injEq, Prod.mk.injEq] at h; rw [← h.2]; exact s2
          · split at h
            · cases h
            · exact (getFewBits_suffix h).trans s2
    · simp only [Option.some.injEq, Prod.mk.injEq] at h; rw [← h.2]; exact s1

theorem getItems_suffix {α : Type} (rd : Bits → Option (α × Bits))
    (hrd : ∀ bs a r, rd bs = some (a, r) → r <:+ bs) :
    ∀ (k : Nat) (bs : Bits) (xs : List α) (r : Bits), getItems rd k bs = some (xs, r) → r <:+ bs ∧ xs.length = k := by
  intro k
  induction k with
  | zero => intro bs xs r h; simp only [getItems, Option.some.injEq, Prod.mk.injEq] at h; rw [← h.1, ← h.2]; exact ⟨List.suffix_refl _, rfl⟩
  | succ k ih =>
    intro bs xs r h
    rw [getItems] at h
    cases h1 : rd bs with
    | none => rw [h1] at h; cases h
    | some p =>
      obtain ⟨a, b1⟩ := p
      rw [h1] at h; simp only at h
      cases h2 : getItems rd k b1 with
      | none => rw [h2] at h; cases h
      | some q =>
        obtain ⟨as, r2⟩ := q
        rw [h2] at h; simp only [Option.some.injEq, Prod.mk.injEq] at h
        obtain ⟨s2, l2⟩ := ih b1 as r2 h2
        rw [← h.1, ← h.2]
        exact ⟨s2.trans (hrd _ _ _ h1), by simp [l2]⟩

theorem getLoopF_suffix {α : Type} (rd : Bits → Option (α × Bits))
    (hrd : ∀ bs a r, rd bs = some (a, r) → r <:+ bs) :
    ∀ (fuel : Nat) (bs : Bits) (xs : List α) (r : Bits), getLoopF rd fuel bs = some (xs, r) → r <:+ bs := by
  intro fuel
  induction fuel with
  | zero => intro bs xs r h; cases h
  | succ fuel ih =>
    intro bs xs r h
    rw [getLoopF] at h
    cases h1 : getLength (-1) 0 bs with
    | none => rw [h1] at h; cases h
    | some p =>
      obtain ⟨n, rep, b1⟩ := p
      rw [h1] at h; simp only at h
      have s1 := getLength_suffix h1
      cases h2 : getItems rd n b1 with
      | none => rw [h2] at h; cases h
      | some q =>
        obtain ⟨ys, b2⟩ := q
        rw [h2] at h; simp only at h
        have s2 := ((getItems_suffix rd hrd n b1 ys b2 h2).1).trans s1
        split at h
        · cases h3 : getLoopF rd fuel b2 with
          | none => rw [h3] at h; cases h
          | some q3 =>
            obtain ⟨zs, r3⟩ := q3
            rw [h3] at h; simp only [Option.some.injEq, Prod.mk.injEq] at h
            rw [← h.2]; exact (ih b2 zs r3 h3).trans s2
        · simp only [Option.some.injEq, Prod.mk.injEq] at h; rw [← h.2]; exact s2



/-! ### byte-level `asn_get_few_bits`: no read outside the buffer -/

/-- the position invariant of `asn_bit_data_t`: `nboff ≤ nbits ≤ 8 * (octets from pd->buffer to the end)` -/
def SrcInv (s : Src) : Prop := s.nboff ≤ s.nbits ∧ s.nbits ≤ 8 * s.buf.length

theorem rd_ok (buf : Bytes) (i : Nat) (k : Nat → RawRes) (h : i < buf.length) : rd buf i k = k buf[i] := by
  unfold rd; rw [List.getElem?_eq_getElem h]

theorem normalize_inv (s : Src) (h : SrcInv s) :
    SrcInv s.normalize ∧ s.normalize.nboff < 8 ∧
    (s.normalize.nbits : Int) - s.normalize.nboff = (s.nbits : Int) - s.nboff := by
  unfold SrcInv at *
  unfold Src.normalize
  by_cases c : s.nboff ≥ 8
  · rw [if_pos c]
    simp only [List.length_drop]
    omega
  · rw [if_neg c]
    omega

theorem core_safe (s : Src) (n : Nat) (h : SrcInv s) :
    getFewRawCore s n ≠ .oob ∧
    ∀ v s', getFewRawCore s n = .ok v s' →
      SrcInv s' ∧ v < 2 ^ n ∧ (s'.nbits : Int) - s'.nboff + n = (s.nbits : Int) - s.nboff := by
  obtain ⟨hi, h8, hl⟩ := normalize_inv s h
  unfold SrcInv at hi
  have hp : 0 < 2 ^ n := Nat.pos_of_ne_zero (by simp)
  unfold getFewRawCore
  by_cases c0 : (n : Int) > (s.nbits : Int) - s.nboff
  · rw [if_pos c0]; exact ⟨by simp, by intro v s' hh; cases hh⟩
  · rw [if_neg c0]
    simp only
    have fin : ∀ a : Nat, (RawRes.ok (a % 2 ^ n) { s.normalize with nboff := s.normalize.nboff + n } ≠ RawRes.oob) ∧
        ∀ v s', RawRes.ok (a % 2 ^ n) { s.normalize with nboff := s.normalize.nboff + n } = .ok v s' →
          SrcInv s' ∧ v < 2 ^ n ∧ (s'.nbits : Int) - s'.nboff + n = (s.nbits : Int) - s.nboff := by
      intro a
      refine ⟨by simp, ?_⟩
      intro v s' hh
      simp only [RawRes.ok.injEq] at hh
      obtain ⟨hv, hs⟩ := hh
      subst hs
      unfold SrcInv
      simp only
      refine ⟨⟨by omega, by omega⟩, ?_, by omega⟩
      rw [← hv]; exact Nat.mod_lt _ hp
    by_cases c1 : s.normalize.nboff + n ≤ 8
    · rw [if_pos c1]
      by_cases cn : n ≠ 0
      · rw [if_pos cn, rd_ok _ 0 _ (by omega)]
        exact fin _
      · rw [if_neg cn]
        exact fin _
    · rw [if_neg c1]
      by_cases c2 : s.normalize.nboff + n ≤ 16
      · rw [if_pos c2, rd_ok _ 0 _ (by omega), rd_ok _ 1 _ (by omega)]
        exact fin _
      · rw [if_neg c2]
        by_cases c3 : s.normalize.nboff + n ≤ 24
        · rw [if_pos c3, rd_ok _ 0 _ (by omega), rd_ok _ 1 _ (by omega), rd_ok _ 2 _ (by omega)]
          exact fin _
        · rw [if_neg c3]
          by_cases c4 : s.normalize.nboff + n ≤ 31
          · rw [if_pos c4, rd_ok _ 0 _ (by omega), rd_ok _ 1 _ (by omega), rd_ok _ 2 _ (by omega), rd_ok _ 3 _ (by omega)]
            exact fin _
          · rw [if_neg c4]
            exact ⟨by simp, by intro v s' hh; cases hh⟩

/-- C04: on a position satisfying the invariant `asn_get_few_bits` never reads outside the buffer, and the
    new position satisfies the invariant again (so this holds for every sequence of reads) -/
theorem getFewRaw_safe (s : Src) (n : Nat) (h : SrcInv s) :
    getFewRaw s n ≠ .oob ∧
    ∀ v s', getFewRaw s n = .ok v s' →
      SrcInv s' ∧ v < 2 ^ n ∧ n ≤ 31 ∧ (s'.nbits : Int) - s'.nboff + n = (s.nbits : Int) - s.nboff := by
  obtain ⟨hi, h8, hl⟩ := normalize_inv s h
  have hp : 0 < 2 ^ n := Nat.pos_of_ne_zero (by simp)
  unfold getFewRaw
  by_cases c0 : (n : Int) > (s.nbits : Int) - s.nboff
  · rw [if_pos c0]; exact ⟨by simp, by intro v s' hh; cases hh⟩
  · rw [if_neg c0]
    simp only
    by_cases c1 : s.normalize.nboff + n ≤ 31
    · rw [if_pos c1]
      obtain ⟨a, b⟩ := core_safe s n h
      refine ⟨a, ?_⟩
      intro v s' hh
      obtain ⟨x, y, z⟩ := b v s' hh
      exact ⟨x, y, by omega, z⟩
    · rw [if_neg c1]
      by_cases c2 : n ≤ 31
      · rw [if_pos c2]
        obtain ⟨a1, b1⟩ := core_safe s.normalize (n - 24) hi
        cases e1 : getFewRawCore s.normalize (n - 24) with
        | oob => exact absurd e1 a1
        | fail => exact ⟨by simp, by intro v s' hh; cases hh⟩
        | ok hi' t =>
          simp only
          obtain ⟨ti, _, _⟩ := b1 hi' t e1
          obtain ⟨a2, b2⟩ := core_safe t 24 ti
          cases e2 : getFewRawCore t 24 with
          | oob => exact absurd e2 a2
          | fail => exact ⟨by simp, by intro v s' hh; cases hh⟩
          | ok lo u =>
            simp only
            refine ⟨by simp, ?_⟩
            intro v s' hh
            simp only [RawRes.ok.injEq] at hh
            obtain ⟨hv, hs⟩ := hh
            subst hs
            unfold SrcInv at hi ⊢
            simp only
            refine ⟨⟨by omega, by omega⟩, ?_, c2, by omega⟩
            rw [← hv]; exact Nat.mod_lt _ hp
      · rw [if_neg c2]
        exact ⟨by simp, by intro v s' hh; cases hh⟩



theorem byteBits_eq (b : Nat) : byteBits b = natBits 8 b := by
  simp [byteBits, natBits, Nat.div_div_eq_div_mul]

theorem bytesToBits_cons (b : Nat) (bs : Bytes) : bytesToBits (b :: bs) = natBits 8 b ++ bytesToBits bs := by
  simp [bytesToBits, byteBits_eq]

theorem bytesToBits_length (bs : Bytes) : (bytesToBits bs).length = 8 * bs.length := by
  induction bs with
  | nil => rfl
  | cons b bs ih => rw [bytesToBits_cons, List.length_append, natBits_length, ih, List.length_cons]; omega

theorem bytesToBits_append (a b : Bytes) : bytesToBits (a ++ b) = bytesToBits a ++ bytesToBits b := by
  simp [bytesToBits]

theorem bitsVal_bytesToBits (acc : Nat) (bs : Bytes) (h : bs.wf) : bitsVal acc (bytesToBits bs) = ofBE acc bs := by
  induction bs generalizing acc with
  | nil => rfl
  | cons b bs ih =>
    have hb : b < 256 := h b (by simp)
    have hw : Bytes.wf bs := fun x hx => h x (by simp [hx])
    rw [bytesToBits_cons, bitsVal_append, ofBE, bitsVal_acc acc, natBits_length, bitsVal_natBits, ih _ hw]
    congr 1
    have : (2 : Nat) ^ 8 = 256 := by decide
    rw [this]; omega

theorem bitsVal_mid (X Y Z : Bits) : bitsVal 0 (X ++ (Y ++ Z)) / 2 ^ Z.length % 2 ^ Y.length = bitsVal 0 Y := by
  have hy := bitsVal_lt Y
  have hz := bitsVal_lt Z
  have hp : 0 < 2 ^ Z.length := Nat.pos_of_ne_zero (by simp)
  rw [bitsVal_append, bitsVal_append, bitsVal_acc _ Z, bitsVal_acc _ Y]
  rw [Nat.add_comm _ (bitsVal 0 Z), Nat.add_mul_div_right _ _ hp, Nat.div_eq_of_lt hz, Nat.zero_add,
    Nat.add_comm, Nat.add_mul_mod_self_right, Nat.mod_eq_of_lt hy]

/-- the value of a slice of a bit string -/
theorem bitsVal_slice (B : Bits) (a n : Nat) (h : a + n ≤ B.length) :
    bitsVal 0 ((B.drop a).take n) = bitsVal 0 B / 2 ^ (B.length - a - n) % 2 ^ n := by
  have e : B = B.take a ++ ((B.drop a).take n ++ (B.drop a).drop n) := by
    rw [List.take_append_drop, List.take_append_drop]
  have lY : ((B.drop a).take n).length = n := by simp [List.length_take, List.length_drop]; omega
  have lZ : ((B.drop a).drop n).length = B.length - a - n := by simp [List.length_drop]; omega
  have := bitsVal_mid (B.take a) ((B.drop a).take n) ((B.drop a).drop n)
  rw [← e, lY, lZ] at this
  exact this.symm



/-- the bits still to be read at a byte-level position -/
def srcBits (s : Src) : Bits := ((bytesToBits s.buf).take s.nbits).drop s.nboff

theorem bytesToBits_drop (buf : Bytes) (q : Nat) : bytesToBits (buf.drop q) = (bytesToBits buf).drop (8 * q) := by
  induction q generalizing buf with
  | zero => simp
  | succ q ih =>
    cases buf with
    | nil => simp [bytesToBits]
    | cons b bs =>
      rw [List.drop_succ_cons, ih, bytesToBits_cons]
      have : 8 * (q + 1) = (natBits 8 b).length + 8 * q := by rw [natBits_length]; omega
      rw [this, List.drop_length_add_append]

theorem srcBits_length (s : Src) (h : SrcInv s) : (srcBits s).length = s.nbits - s.nboff := by
  unfold SrcInv at h
  unfold srcBits
  rw [List.length_drop, List.length_take, bytesToBits_length]
  omega

theorem srcBits_normalize (s : Src) (h : SrcInv s) : srcBits s.normalize = srcBits s := by
  unfold SrcInv at h
  unfold Src.normalize
  by_cases c : s.nboff ≥ 8
  · rw [if_pos c]
    unfold srcBits
    simp only
    rw [bytesToBits_drop, List.take_drop, List.drop_drop]
    have e1 : 8 * (s.nboff / 8) + (s.nbits - (s.nboff - s.nboff % 8)) = s.nbits := by omega
    have e2 : 8 * (s.nboff / 8) + s.nboff % 8 = s.nboff := by omega
    rw [e1, e2]
  · rw [if_neg c]

/-- the position after reading `n` bits -/
def adv (s : Src) (n : Nat) : Src := { s.normalize with nboff := s.normalize.nboff + n }

theorem srcBits_adv (s : Src) (n : Nat) (h : SrcInv s) : srcBits (adv s n) = (srcBits s).drop n := by
  rw [← srcBits_normalize s h]
  unfold adv srcBits
  simp only
  rw [List.drop_drop]

/-- the first `k` octets determine every slice inside them -/
theorem slice_of_prefix (buf : Bytes) (k a n : Nat) (hw : buf.wf) (hk : k ≤ buf.length) (h : a + n ≤ 8 * k) :
    bitsVal 0 (((bytesToBits buf).drop a).take n) = ofBE 0 (buf.take k) / 2 ^ (8 * k - (a + n)) % 2 ^ n := by
  have e : buf = buf.take k ++ buf.drop k := by simp
  have hwk : Bytes.wf (buf.take k) := fun x hx => hw x (List.mem_of_mem_take hx)
  have lk : (bytesToBits (buf.take k)).length = 8 * k := by
    rw [bytesToBits_length, List.length_take]; omega
  conv => lhs; rw [e, bytesToBits_append]
  have e2 : ((bytesToBits (buf.take k) ++ bytesToBits (buf.drop k)).drop a).take n
      = ((bytesToBits (buf.take k)).drop a).take n := by
    rw [List.drop_append_of_le_length (by omega), List.take_append_of_le_length (by rw [List.length_drop]; omega)]
  rw [e2, bitsVal_slice _ a n (by omega), lk, bitsVal_bytesToBits 0 _ hwk]
  congr 3
  omega



theorem ofBE_take1 (buf : Bytes) (h : 0 < buf.length) : ofBE 0 (buf.take 1) = buf[0] := by
  match buf, h with
  | b0 :: _, _ => simp [ofBE]
theorem ofBE_take2 (buf : Bytes) (h : 1 < buf.length) : ofBE 0 (buf.take 2) = buf[0] * 256 + buf[1] := by
  match buf, h with
  | b0 :: b1 :: _, _ => simp [ofBE]
theorem ofBE_take3 (buf : Bytes) (h : 2 < buf.length) :
    ofBE 0 (buf.take 3) = buf[0] * 65536 + buf[1] * 256 + buf[2] := by
  match buf, h with
  | b0 :: b1 :: b2 :: _, _ => simp [ofBE]; omega
theorem ofBE_take4 (buf : Bytes) (h : 3 < buf.length) :
    ofBE 0 (buf.take 4) = buf[0] * 16777216 + buf[1] * 65536 + buf[2] * 256 + buf[3] := by
  match buf, h with
  | b0 :: b1 :: b2 :: b3 :: _, _ => simp [ofBE]; omega

theorem take_drop_take (B : Bits) (m a n : Nat) (h : a + n ≤ m) : ((B.take m).drop a).take n = (B.drop a).take n := by
  rw [List.drop_take, List.take_take]
  congr 1
  omega

theorem normalize_wf (s : Src) (hw : s.buf.wf) : s.normalize.buf.wf := by
  unfold Src.normalize
  split
  · exact fun x hx => hw x (List.mem_of_mem_drop hx)
  · exact hw

theorem core_val (s : Src) (n : Nat) (h : SrcInv s) (hw : s.buf.wf) (hn : (n : Int) ≤ (s.nbits : Int) - s.nboff)
    (hoff : s.normalize.nboff + n ≤ 31) :
    getFewRawCore s n = .ok (bitsVal 0 ((srcBits s).take n)) (adv s n) := by
  obtain ⟨hi, h8, hl⟩ := normalize_inv s h
  have hw1 := normalize_wf s hw
  unfold SrcInv at hi
  have hbits : (srcBits s).take n = ((bytesToBits s.normalize.buf).drop s.normalize.nboff).take n := by
    rw [← srcBits_normalize s h]
    unfold srcBits
    rw [take_drop_take _ _ _ _ (by omega)]
  rw [hbits]
  unfold getFewRawCore adv
  rw [if_neg (by omega)]
  simp only
  by_cases c1 : s.normalize.nboff + n ≤ 8
  · rw [if_pos c1]
    by_cases cn : n ≠ 0
    · rw [if_pos cn, rd_ok _ 0 _ (by omega)]
      rw [slice_of_prefix _ 1 _ _ hw1 (by omega) (by omega), ofBE_take1 _ (by omega)]
    · rw [if_neg cn]
      have : n = 0 := by omega
      subst this
      simp [bitsVal]
  · rw [if_neg c1]
    by_cases c2 : s.normalize.nboff + n ≤ 16
    · rw [if_pos c2, rd_ok _ 0 _ (by omega), rd_ok _ 1 _ (by omega)]
      rw [slice_of_prefix _ 2 _ _ hw1 (by omega) (by omega), ofBE_take2 _ (by omega)]
    · rw [if_neg c2]
      by_cases c3 : s.normalize.nboff + n ≤ 24
      · rw [if_pos c3, rd_ok _ 0 _ (by omega), rd_ok _ 1 _ (by omega), rd_ok _ 2 _ (by omega)]
        rw [slice_of_prefix _ 3 _ _ hw1 (by omega) (by omega), ofBE_take3 _ (by omega)]
      · rw [if_neg c3, if_pos hoff, rd_ok _ 0 _ (by omega), rd_ok _ 1 _ (by omega), rd_ok _ 2 _ (by omega),
          rd_ok _ 3 _ (by omega)]
        rw [slice_of_prefix _ 4 _ _ hw1 (by omega) (by omega), ofBE_take4 _ (by omega)]

theorem normalize_idem (s : Src) (h : s.nboff < 8) : s.normalize = s := by
  unfold Src.normalize; rw [if_neg (by omega)]

/-- byte-level `asn_get_few_bits` computes exactly the bit-list semantics: it fails iff more than 31 bits are
    requested or fewer than `n` bits are left, otherwise returns the next `n` bits as a number and advances by `n` -/
theorem getFewRaw_val (s : Src) (n : Nat) (h : SrcInv s) (hw : s.buf.wf) :
    getFewRaw s n =
      if n > 31 ∨ (s.nbits : Int) - s.nboff < n then .fail
      else .ok (bitsVal 0 ((srcBits s).take n)) (adv s n) := by
  obtain ⟨hi, h8, hl⟩ := normalize_inv s h
  have hw1 := normalize_wf s hw
  unfold getFewRaw
  by_cases c0 : (n : Int) > (s.nbits : Int) - s.nboff
  · rw [if_pos c0, if_pos (Or.inr (by omega))]
  · rw [if_neg c0]
    simp only
    by_cases c1 : s.normalize.nboff + n ≤ 31
    · rw [if_pos c1, if_neg (by omega), core_val s n h hw (by omega) c1]
    · rw [if_neg c1]
      by_cases c2 : n ≤ 31
      · rw [if_pos c2, if_neg (by omega)]
        have hid := normalize_idem s.normalize h8
        have hi' := hi
        unfold SrcInv at hi'
        rw [core_val s.normalize (n - 24) hi hw1 (by omega) (by rw [hid]; omega)]
        simp only
        -- t = adv s.normalize (n - 24)
        obtain ⟨_, bt⟩ := core_safe s.normalize (n - 24) hi
        obtain ⟨ti, _, tl⟩ := bt _ _ (core_val s.normalize (n - 24) hi hw1 (by omega) (by rw [hid]; omega))
        obtain ⟨tni, tn8, tnl⟩ := normalize_inv _ ti
        have twf : (adv s.normalize (n - 24)).buf.wf := by
          unfold adv; simp only; rw [hid]; exact hw1
        rw [core_val (adv s.normalize (n - 24)) 24 ti twf (by omega) (by omega)]
        simp only
        rw [srcBits_adv _ _ hi, srcBits_normalize s h]
        have hlen := srcBits_length s h
        have e : (srcBits s).take n = (srcBits s).take (n - 24) ++ ((srcBits s).drop (n - 24)).take 24 := by
          rw [← List.take_add]; congr 1; omega
        have l24 : (((srcBits s).drop (n - 24)).take 24).length = 24 := by
          rw [List.length_take, List.length_drop]; omega
        have ln : ((srcBits s).take n).length = n := by rw [List.length_take]; omega
        have hlt := bitsVal_lt ((srcBits s).take n)
        rw [ln] at hlt
        have hv : bitsVal 0 ((srcBits s).take (n - 24)) * 16777216 + bitsVal 0 (((srcBits s).drop (n - 24)).take 24)
            = bitsVal 0 ((srcBits s).take n) := by
          rw [e, bitsVal_append, bitsVal_acc (bitsVal 0 ((srcBits s).take (n - 24))) (((srcBits s).drop (n - 24)).take 24), l24]
        rw [hv, Nat.mod_eq_of_lt hlt]
        rfl
      · rw [if_neg c2, if_pos (Or.inl (by omega))]

/-- the byte-level reader refines the bit-list reader used by all other theorems -/
theorem getFewRaw_refines (s : Src) (n : Nat) (h : SrcInv s) (hw : s.buf.wf) :
    match getFewBits n (srcBits s) with
    | none => getFewRaw s n = .fail
    | some (v, r) => ∃ s', getFewRaw s n = .ok v s' ∧ srcBits s' = r ∧ SrcInv s' ∧ s'.buf.wf := by
  have hlen := srcBits_length s h
  have hv := getFewRaw_val s n h hw
  have hinv := h
  unfold SrcInv at hinv
  unfold getFewBits
  by_cases c1 : n > 31
  · rw [if_pos c1]
    simp only
    rw [hv, if_pos (Or.inl c1)]
  · rw [if_neg c1]
    by_cases c2 : ((srcBits s).take n).length < n
    · rw [if_pos c2]
      simp only
      rw [List.length_take] at c2
      rw [hv, if_pos (Or.inr (by omega))]
    · rw [if_neg c2]
      simp only
      rw [List.length_take] at c2
      rw [hv, if_neg (by omega)]
      refine ⟨adv s n, rfl, srcBits_adv s n h, ?_, ?_⟩
      · obtain ⟨hi, h8, hl⟩ := normalize_inv s h
        unfold SrcInv at hi ⊢
        unfold adv
        simp only
        omega
      · unfold adv; exact normalize_wf s hw


/-! ### `asn_put_many_bits` / `asn_get_many_bits` -/

theorem natBits_take (n m v : Nat) : (natBits (n + m) v).take n = natBits n (v / 2 ^ m) := by
  rw [natBits_split, List.take_left' (natBits_length _ _)]

theorem natBits_bytes (bytes : Bytes) (h : bytes.wf) : natBits (8 * bytes.length) (ofBE 0 bytes) = bytesToBits bytes := by
  have := natBits_bitsVal (bytesToBits bytes)
  rw [bytesToBits_length, bitsVal_bytesToBits 0 bytes h] at this
  exact this

/-- the first `k` octets, shifted right, give the first `n` bits -/
theorem natBits_prefix (src : Bytes) (k n : Nat) (hw : src.wf) (hk : k ≤ src.length) (hn : n ≤ 8 * k) :
    natBits n (ofBE 0 (src.take k) / 2 ^ (8 * k - n)) = (bytesToBits src).take n := by
  have hwk : Bytes.wf (src.take k) := fun x hx => hw x (List.mem_of_mem_take hx)
  have lk : (src.take k).length = k := by rw [List.length_take]; omega
  have e : src = src.take k ++ src.drop k := by simp
  conv => rhs; rw [e, bytesToBits_append]
  rw [List.take_append_of_le_length (by rw [bytesToBits_length, lk]; exact hn)]
  rw [← natBits_bytes _ hwk, lk]
  have : 8 * k = n + (8 * k - n) := by omega
  conv => rhs; rw [this, natBits_take]

theorem putManyBits_eq (src : Bytes) (n : Nat) (hw : src.wf) (hn : n ≤ 8 * src.length) :
    putManyBits src n = (bytesToBits src).take n := by
  induction n using Nat.strongRecOn generalizing src with
  | _ n ih =>
    rw [putManyBits]
    by_cases c0 : n = 0
    · rw [if_pos c0, c0]; simp
    · rw [if_neg c0]
      by_cases c24 : n ≥ 24
      · rw [if_pos c24]
        match src, hw, hn with
        | b0 :: b1 :: b2 :: rest, hw, hn =>
          have hwr : Bytes.wf rest := fun x hx => hw x (by simp [hx])
          have h0 : b0 < 256 := hw b0 (by simp)
          have h1 : b1 < 256 := hw b1 (by simp)
          have h2 : b2 < 256 := hw b2 (by simp)
          simp only [List.getD_cons_zero, List.getD_cons_succ, List.drop_succ_cons, List.drop_zero]
          rw [ih (n - 24) (by omega) rest hwr (by simp only [List.length_cons] at hn; omega)]
          rw [bytesToBits_cons, bytesToBits_cons, bytesToBits_cons]
          have e24 : natBits 24 (b0 * 65536 + b1 * 256 + b2) = natBits 8 b0 ++ (natBits 8 b1 ++ natBits 8 b2) := by
            rw [show (24 : Nat) = 8 + 16 from rfl, natBits_split, show (16 : Nat) = 8 + 8 from rfl, natBits_split]
            congr 1
            · apply natBits_congr; omega
            · congr 1
              · apply natBits_congr; omega
              · apply natBits_congr; omega
          rw [e24]
          have e : n = 24 + (n - 24) := by omega
          have key : ∀ (P Q : Bits) (k : Nat), P.length = 24 → (P ++ Q).take (24 + k) = P ++ Q.take k := by
            intro P Q k h; rw [← h, List.take_length_add_append]
          conv => rhs; rw [e, ← List.append_assoc, ← List.append_assoc,
            key _ _ _ (by simp [natBits_length])]
          simp
        | [], _, hn => simp at hn; omega
        | [_], _, hn => simp at hn; omega
        | [_, _], _, hn => simp at hn; omega
      · rw [if_neg c24]
        simp only
        -- k = ⌈n / 8⌉ octets are read, shifted right by the unused bits of the last one
        by_cases c8 : n ≤ 8
        · have g8 : ¬ n > 8 := by omega
          have g16 : ¬ n > 16 := by omega
          simp only [g8, g16, if_false]
          match src, hw, hn with
          | b0 :: rest, hw, hn =>
            have := natBits_prefix (b0 :: rest) 1 n hw (by simp) (by omega)
            simp only [List.take_succ_cons, List.take_zero, ofBE] at this
            rw [← this]
            simp only [List.getD_cons_zero]
            by_cases c : n % 8 ≠ 0
            · rw [if_pos c]
              have e : 8 - n % 8 = 8 * 1 - n := by omega
              rw [e]; simp
            · rw [if_neg c]
              have : n = 8 := by omega
              subst this; simp
          | [], _, hn => simp at hn; omega
        · by_cases c16 : n ≤ 16
          · have g8 : n > 8 := by omega
            have g16 : ¬ n > 16 := by omega
            simp only [g8, g16, if_true, if_false]
            match src, hw, hn with
            | b0 :: b1 :: rest, hw, hn =>
              have := natBits_prefix (b0 :: b1 :: rest) 2 n hw (by simp) (by omega)
              simp only [List.take_succ_cons, List.take_zero, ofBE] at this
              rw [← this]
              simp only [List.getD_cons_zero, List.getD_cons_succ]
              by_cases c : n % 8 ≠ 0
              · rw [if_pos c]
                have e : 8 - n % 8 = 8 * 2 - n := by omega
                rw [e]; simp
              · rw [if_neg c]
                have : n = 16 := by omega
                subst this; simp
            | [], _, hn => simp at hn; omega
            | [_], _, hn => simp at hn; omega
          · have g8 : n > 8 := by omega
            have g16 : n > 16 := by omega
            simp only [g8, g16, if_true]
            match src, hw, hn with
            | b0 :: b1 :: b2 :: rest, hw, hn =>
              have := natBits_prefix (b0 :: b1 :: b2 :: rest) 3 n hw (by simp) (by omega)
              simp only [List.take_succ_cons, List.take_zero, ofBE] at this
              rw [← this]
              simp only [List.getD_cons_zero, List.getD_cons_succ]
              by_cases c : n % 8 ≠ 0
              · rw [if_pos c]
                have e : 8 - n % 8 = 8 * 3 - n := by omega
                rw [e]; simp
              · exfalso; omega
            | [], _, hn => simp at hn; omega
            | [_], _, hn => simp at hn; omega
            | [_, _], _, hn => simp at hn; omega


theorem natBits_zero (k : Nat) : natBits k 0 = List.replicate k false := by
  induction k with
  | zero => rfl
  | succ k ih => rw [natBits, Nat.zero_div, ih]; simp [List.replicate_succ']

/-- a value shifted left by `p` bits is the value followed by `p` zero bits -/
theorem natBits_shift (n p v : Nat) : natBits (n + p) (v * 2 ^ p) = natBits n v ++ List.replicate p false := by
  have hp : 0 < 2 ^ p := Nat.pos_of_ne_zero (by simp)
  rw [natBits_split, Nat.mul_div_cancel _ hp, ← natBits_zero p]
  congr 1
  apply natBits_congr
  simp

theorem bytesToBits_three (v : Nat) :
    bytesToBits [v / 65536 % 256, v / 256 % 256, v % 256] = natBits 24 v := by
  rw [bytesToBits_cons, bytesToBits_cons, bytesToBits_cons]
  rw [show (24 : Nat) = 8 + 16 from rfl, natBits_split, show (16 : Nat) = 8 + 8 from rfl, natBits_split]
  simp only [bytesToBits, List.flatMap_nil, List.append_nil]
  congr 1
  · apply natBits_congr; omega
  · congr 1
    · apply natBits_congr; omega
    · apply natBits_congr; omega

theorem bytesToBits_two (v : Nat) : bytesToBits [v / 256 % 256, v % 256] = natBits 16 v := by
  rw [bytesToBits_cons, bytesToBits_cons, show (16 : Nat) = 8 + 8 from rfl, natBits_split]
  simp only [bytesToBits, List.flatMap_nil, List.append_nil]
  congr 1
  · apply natBits_congr; omega
  · apply natBits_congr; omega

theorem bytesToBits_one (v : Nat) : bytesToBits [v % 256] = natBits 8 v := by
  rw [bytesToBits_cons]
  simp only [bytesToBits, List.flatMap_nil, List.append_nil]
  apply natBits_congr; omega

theorem getManyLoop_none (n : Nat) (bs : Bits) (h : bs.length < n) : getManyLoop n bs = none := by
  induction n using Nat.strongRecOn generalizing bs with
  | _ n ih =>
    rw [getManyLoop, if_neg (by omega)]
    by_cases c24 : n ≥ 24
    · rw [if_pos c24]
      cases e : getFewBits 24 bs with
      | none => rfl
      | some p =>
        obtain ⟨v, r⟩ := p
        simp only
        obtain ⟨_, _, hb⟩ := getFewBits_some e
        have : r.length < n - 24 := by
          have := congrArg List.length hb
          simp [natBits_length] at this
          omega
        rw [ih (n - 24) (by omega) r this]
    · rw [if_neg c24]
      have : getFewBits n bs = none := (getFewBits_none_iff n bs).2 (Or.inr h)
      rw [this]

/-- `asn_get_many_bits(pd, dst, 0, n)`: the `⌈n/8⌉` octets stored are the next `n` bits, left-aligned and
    zero-padded; exactly `n` bits are consumed -/
theorem getManyLoop_some (n : Nat) (bs : Bits) (h : n ≤ bs.length) :
    ∃ out, getManyLoop n bs = some (out, bs.drop n) ∧ out.length = (n + 7) / 8 ∧ Bytes.wf out ∧
      bytesToBits out = bs.take n ++ List.replicate (8 * ((n + 7) / 8) - n) false := by
  induction n using Nat.strongRecOn generalizing bs with
  | _ n ih =>
    rw [getManyLoop]
    by_cases c0 : n = 0
    · subst c0
      have hw0 : Bytes.wf [] := fun x hx => by simp at hx
      exact ⟨[], by simp, rfl, hw0, by simp [bytesToBits]⟩
    · rw [if_neg c0]
      by_cases c24 : n ≥ 24
      · rw [if_pos c24]
        have e1 : bs = bs.take 24 ++ bs.drop 24 := by simp
        have l24 : (bs.take 24).length = 24 := by rw [List.length_take]; omega
        have g := getFewBits_append 24 (bs.take 24) (bs.drop 24) (by omega) l24
        rw [← e1] at g
        rw [g]
        simp only
        obtain ⟨out, ho, hl, hw, hb⟩ := ih (n - 24) (by omega) (bs.drop 24) (by rw [List.length_drop]; omega)
        rw [ho]
        simp only
        refine ⟨bitsVal 0 (bs.take 24) / 65536 % 256 :: bitsVal 0 (bs.take 24) / 256 % 256 ::
          bitsVal 0 (bs.take 24) % 256 :: out, ?_, ?_, ?_, ?_⟩
        · rw [List.drop_drop]; congr 3; omega
        · simp only [List.length_cons, hl]; omega
        · intro x hx
          simp only [List.mem_cons] at hx
          rcases hx with rfl | rfl | rfl | hx
          · omega
          · omega
          · omega
          · exact hw x hx
        · have e3 : ∀ (a b c : Nat) (t : Bytes), bytesToBits (a :: b :: c :: t) = bytesToBits [a, b, c] ++ bytesToBits t := by
            intro a b c t; simp [bytesToBits]
          rw [e3, bytesToBits_three, hb]
          have hv := natBits_bitsVal (bs.take 24)
          rw [l24] at hv
          rw [hv, ← List.append_assoc]
          have e4 : bs.take 24 ++ (bs.drop 24).take (n - 24) = bs.take n := by
            have : n = 24 + (n - 24) := by omega
            conv => rhs; rw [this, List.take_add]
          have e5 : 8 * ((n - 24 + 7) / 8) - (n - 24) = 8 * ((n + 7) / 8) - n := by omega
          rw [e4, e5]
      · rw [if_neg c24]
        have e1 : bs = bs.take n ++ bs.drop n := by simp
        have ln : (bs.take n).length = n := by rw [List.length_take]; omega
        have g := getFewBits_append n (bs.take n) (bs.drop n) (by omega) ln
        rw [← e1] at g
        rw [g]
        simp only
        have hv := natBits_bitsVal (bs.take n)
        rw [ln] at hv
        generalize bitsVal 0 (bs.take n) = v at hv
        rw [← hv]
        -- pad = number of zero bits appended to reach an octet boundary
        generalize hp : (if n % 8 ≠ 0 then 8 - n % 8 else 0) = pad
        have hpad : pad = 8 * ((n + 7) / 8) - n := by
          rw [← hp]; split <;> omega
        have e1 : (if n % 8 ≠ 0 then v * 2 ^ (8 - n % 8) else v) = v * 2 ^ pad := by
          rw [← hp]; split <;> simp
        have e2 : (if n % 8 ≠ 0 then n + (8 - n % 8) else n) = n + pad := by
          rw [← hp]; split <;> simp
        have e3 : ¬ (n % 8 ≠ 0 ∧ n + pad > 24) := by omega
        rw [e1, e2, if_neg e3]
        have hs := natBits_shift n pad v
        rw [← hpad]
        have hlt : ∀ x : Nat, x % 256 < 256 := fun x => Nat.mod_lt _ (by omega)
        by_cases k1 : n + pad = 8
        · rw [k1, if_neg (by omega), if_neg (by omega)]
          refine ⟨_, rfl, by simp; omega, ?_, ?_⟩
          · intro x hx; simp at hx; subst hx; exact hlt _
          · rw [k1] at hs; simp only [List.nil_append]; rw [bytesToBits_one, hs]
        · by_cases k2 : n + pad = 16
          · rw [k2, if_neg (by omega), if_pos (by omega)]
            refine ⟨_, rfl, by simp; omega, ?_, ?_⟩
            · intro x hx; simp at hx; rcases hx with rfl | rfl <;> exact hlt _
            · rw [k2] at hs; simp only [List.nil_append, List.cons_append]; rw [bytesToBits_two, hs]
          · have k3 : n + pad = 24 := by omega
            rw [k3, if_pos (by omega), if_pos (by omega)]
            refine ⟨_, rfl, by simp; omega, ?_, ?_⟩
            · intro x hx; simp at hx; rcases hx with rfl | rfl | rfl <;> exact hlt _
            · rw [k3] at hs; simp only [List.nil_append, List.cons_append]; rw [bytesToBits_three, hs]


theorem bytesToBits_inj (a b : Bytes) (ha : a.wf) (hb : b.wf) (h : bytesToBits a = bytesToBits b) : a = b := by
  induction a generalizing b with
  | nil =>
    cases b with
    | nil => rfl
    | cons y ys =>
      have := congrArg List.length h
      rw [bytesToBits_length, bytesToBits_length] at this
      simp at this
  | cons x xs ih =>
    cases b with
    | nil =>
      have := congrArg List.length h
      rw [bytesToBits_length, bytesToBits_length] at this
      simp at this
    | cons y ys =>
      rw [bytesToBits_cons, bytesToBits_cons] at h
      obtain ⟨h1, h2⟩ := List.append_inj h (by simp [natBits_length])
      have hx : x < 256 := ha x (by simp)
      have hy : y < 256 := hb y (by simp)
      have := congrArg (bitsVal 0) h1
      rw [bitsVal_natBits, bitsVal_natBits] at this
      have e : x = y := by
        have p : (2 : Nat) ^ 8 = 256 := by decide
        rw [p] at this; omega
      rw [e, ih ys (fun z hz => ha z (by simp [hz])) (fun z hz => hb z (by simp [hz])) h2]

/-- `asn_get_many_bits(…, alright = 0, n)` in one statement -/
theorem getManyBits_left (n : Nat) (bs : Bits) :
    (bs.length < n → getManyBits false n bs = none) ∧
    (n ≤ bs.length → ∃ out, getManyBits false n bs = some (out, bs.drop n) ∧ out.length = (n + 7) / 8 ∧ Bytes.wf out ∧
      bytesToBits out = bs.take n ++ List.replicate (8 * ((n + 7) / 8) - n) false) := by
  have e : getManyBits false n bs = getManyLoop n bs := by
    unfold getManyBits; simp
  rw [e]
  exact ⟨getManyLoop_none n bs, getManyLoop_some n bs⟩

/-- whole octets written by `asn_put_many_bits` are read back by `asn_get_many_bits`, whatever follows -/
theorem getManyBits_putManyBits (src : Bytes) (rest : Bits) (hw : src.wf) :
    getManyBits false (8 * src.length) (putManyBits src (8 * src.length) ++ rest) = some (src, rest) := by
  rw [putManyBits_eq src _ hw (Nat.le_refl _)]
  have hl : (bytesToBits src).length = 8 * src.length := bytesToBits_length src
  have ht : (bytesToBits src).take (8 * src.length) = bytesToBits src := by
    rw [← hl, List.take_length]
  rw [ht]
  obtain ⟨out, ho, _, hwo, hb⟩ := (getManyBits_left (8 * src.length) (bytesToBits src ++ rest)).2
    (by rw [List.length_append, hl]; omega)
  rw [ho]
  have e1 : (bytesToBits src ++ rest).take (8 * src.length) = bytesToBits src := by
    rw [← hl, List.take_left']; rfl
  have e2 : (bytesToBits src ++ rest).drop (8 * src.length) = rest := by
    rw [← hl, List.drop_left']; rfl
  have e3 : 8 * ((8 * src.length + 7) / 8) - 8 * src.length = 0 := by omega
  rw [e1, e3] at hb
  simp only [List.replicate_zero, List.append_nil] at hb
  rw [e2, bytesToBits_inj out src hwo hw hb]

end Asn1c.Proofs.PerSupport
