import Asn1cModel.L2.Oer
import Asn1cModel.Proofs.L2Der
import Asn1cModel.Proofs.BerTlv
/-
  Helper lemmas for the L2 OER reference codec (`L2/Oer.lean`): the decoder inverts the encoder.
  Property theorems live in Props/C02Oer.lean.
-/
namespace Asn1c.Proofs.L2Oer
open Asn1c Asn1c.Impl.BerTlv Asn1c.L2 Asn1c.L2.Oer Asn1c.Spec
open Asn1c.Proofs.L2Tlv Asn1c.Proofs.Integer Asn1c.Proofs.L2Der

/-! ### octets -/

theorem take_left' {α : Type} (a b : List α) (n : Nat) (h : n = a.length) : (a ++ b).take n = a := by
  subst h; simp
theorem drop_left' {α : Type} (a b : List α) (n : Nat) (h : n = a.length) : (a ++ b).drop n = b := by
  subst h; simp

theorem takeN_append (c rest : Bytes) (n : Nat) (h : n = c.length) : takeN n (c ++ rest) = .ok c rest := by
  subst h
  simp [takeN]

theorem ofBE_toBEn (k n : Nat) : ofBE 0 (toBEn k n) = n % 256 ^ k := by
  induction k generalizing n with
  | zero => simp [toBEn, ofBE, Nat.mod_one]
  | succ k ih =>
    rw [Asn1c.Proofs.BerTlv.toBEn_snoc, ofBE_snoc, ih, Nat.pow_succ]
    have := Nat.div_add_mod (n % (256 ^ k * 256)) 256
    have h1 : n % (256 ^ k * 256) % 256 = n % 256 := by
      rw [Nat.mul_comm]; exact Nat.mod_mul_right_mod n 256 (256 ^ k)
    have h2 : n % (256 ^ k * 256) / 256 = n / 256 % 256 ^ k := by
      rw [Nat.mul_comm, Nat.mod_mul_right_div_self]
    omega

theorem toBEn_wf (k n : Nat) : Bytes.wf (toBEn k n) := by
  induction k with
  | zero => intro b hb; simp [toBEn] at hb
  | succ k ih =>
    intro b hb
    simp only [toBEn, List.mem_cons] at hb
    rcases hb with rfl | hb
    · exact Nat.mod_lt _ (by omega)
    · exact ih b hb

/-! ### §8.6 length determinant -/

theorem toBE_length_pos (n : Nat) (h : n ≠ 0) : 0 < (toBE n).length := by
  have := toBE_ne_nil n h
  cases hq : toBE n with
  | nil => exact absurd hq this
  | cons _ _ => simp

theorem decLen_lenDet (n : Nat) (rest : Bytes) : decLen (lenDet n ++ rest) = .ok n rest := by
  unfold lenDet Asn1c.Spec.Oer.length
  by_cases h : n ≤ 127
  · simp only [h, if_true, List.cons_append, List.nil_append, decLen]
    rw [if_pos (by omega)]
  · simp only [h, if_false, List.cons_append, decLen]
    have hk := toBE_length_pos n (by omega)
    rw [if_neg (by omega)]
    simp only [Nat.add_sub_cancel_left]
    rw [if_neg (by omega), if_neg (by simp)]
    rw [take_left' _ _ _ rfl, drop_left' _ _ _ rfl, ofBE_toBE]

theorem decLenBody_append (c rest : Bytes) : decLenBody (lenDet c.length ++ c ++ rest) = .ok c rest := by
  unfold decLenBody
  rw [List.append_assoc, decLen_lenDet]
  simp only []
  exact takeN_append c rest _ rfl

theorem decOpen_openType (d : Bytes → PRes Val) (x : Bytes) (v : Val) (rest : Bytes)
    (hd : d x = .ok v []) : decOpen d (openType x ++ rest) = .ok v rest := by
  unfold decOpen openType
  rw [decLenBody_append]
  simp only [hd]

/-! ### §10 INTEGER -/

theorem unsOctets_ne_nil (n : Nat) : unsOctets n ≠ [] := by
  unfold unsOctets
  by_cases h : n = 0
  · simp [h]
  · simp only [h, if_false]; exact toBE_ne_nil n h

theorem unsVal_unsOctets (n : Nat) : unsVal (unsOctets n) = n := by
  unfold unsOctets unsVal
  by_cases h : n = 0
  · simp [h, ofBE]
  · simp only [h, if_false]; exact ofBE_toBE n

theorem unsOctets_wf (n : Nat) : Bytes.wf (unsOctets n) := by
  unfold unsOctets
  by_cases h : n = 0
  · simp only [h, if_true]; intro b hb; simp at hb; omega
  · simp only [h, if_false]; exact toBE_wf n

/-- two's complement value of exactly `w + 1` octets -/
theorem twosVal_toBEn (w : Nat) (z : Int) (hlo : -(256 ^ (w + 1) / 2 : Int) ≤ z) (hhi : z < (256 ^ (w + 1) / 2 : Int)) :
    twosVal (toBEn (w + 1) (z % (256 ^ (w + 1) : Int)).toNat) = z := by
  have hP : (256 : Int) ^ (w + 1) = 2 * (128 * 256 ^ w) := by rw [pow_succ]; ring
  have hpos : (0 : Int) < 256 ^ w := by positivity
  have hhalf : (256 : Int) ^ (w + 1) / 2 = 128 * 256 ^ w := by rw [hP]; simp
  rw [hhalf] at hlo hhi
  set n := (z % (256 ^ (w + 1) : Int)).toNat with hn
  have hmodnn : 0 ≤ z % (256 ^ (w + 1) : Int) := Int.emod_nonneg _ (by positivity)
  have hmodlt : z % (256 ^ (w + 1) : Int) < 256 ^ (w + 1) := Int.emod_lt_of_pos _ (by positivity)
  have hnI : (n : Int) = z % (256 ^ (w + 1) : Int) := by rw [hn]; exact Int.toNat_of_nonneg hmodnn
  have hnlt : n < 256 ^ (w + 1) := by
    have : (n : Int) < ((256 ^ (w + 1) : Nat) : Int) := by rw [hnI]; push_cast; exact hmodlt
    exact_mod_cast this
  -- the octets
  have hval : ofBE 0 (toBEn (w + 1) n) = n := by rw [ofBE_toBEn, Nat.mod_eq_of_lt hnlt]
  have hshape : toBEn (w + 1) n = (n / 256 ^ w % 256) :: toBEn w n := rfl
  have hhead : n / 256 ^ w % 256 = n / 256 ^ w := by
    apply Nat.mod_eq_of_lt
    rw [Nat.div_lt_iff_lt_mul (by positivity)]
    rw [Nat.pow_succ] at hnlt; omega
  rw [hshape] at hval ⊢
  simp only [twosVal]
  rw [hval, Asn1c.Proofs.BerTlv.toBEn_length]
  have hposN : 0 < 256 ^ w := by positivity
  by_cases hz : 0 ≤ z
  · -- non-negative: n = z < 128 * 256^w
    have hzn : (n : Int) = z := by
      rw [hnI]; apply Int.emod_eq_of_lt hz; rw [hP]; omega
    have hlt : n < 128 * 256 ^ w := by
      have : (n : Int) < ((128 * 256 ^ w : Nat) : Int) := by rw [hzn]; push_cast; exact hhi
      exact_mod_cast this
    have : n / 256 ^ w < 128 := by
      rw [Nat.div_lt_iff_lt_mul hposN]; exact hlt
    rw [hhead, if_pos this]; exact hzn
  · have hzn : (n : Int) = z + 256 ^ (w + 1) := by
      rw [hnI]
      have : (z + 256 ^ (w + 1)) % (256 ^ (w + 1) : Int) = z % (256 ^ (w + 1) : Int) := by simp
      rw [← this]
      apply Int.emod_eq_of_lt
      · rw [hP]; omega
      · omega
    have hge : 128 * 256 ^ w ≤ n := by
      have : ((128 * 256 ^ w : Nat) : Int) ≤ (n : Int) := by rw [hzn, hP]; push_cast; omega
      exact_mod_cast this
    have : ¬ n / 256 ^ w < 128 := by
      rw [Nat.div_lt_iff_lt_mul hposN]; omega
    rw [hhead, if_neg this, hzn]
    push_cast; ring

theorem decInt_encInt (sh : IntShape) (hw : ∀ w, sh = .fixedS w → w ≠ 0) (z : Int) (out rest : Bytes)
    (h : encInt sh z = some out) : decInt sh (out ++ rest) = .ok z rest := by
  cases sh with
  | fixedU w =>
    simp only [encInt] at h
    split at h
    · rename_i hc
      injection h with h; subst h
      simp only [decInt]
      rw [takeN_append _ _ _ (Asn1c.Proofs.BerTlv.toBEn_length w _).symm]
      simp only [unsVal, ofBE_toBEn]
      have : z.toNat < 256 ^ w := by
        have h2 : (z.toNat : Int) = z := Int.toNat_of_nonneg hc.1
        have : (z.toNat : Int) < ((256 ^ w : Nat) : Int) := by rw [h2]; push_cast; exact hc.2
        exact_mod_cast this
      rw [Nat.mod_eq_of_lt this, Int.toNat_of_nonneg hc.1]
    · exact absurd h (by simp)
  | fixedS w =>
    simp only [encInt] at h
    split at h
    · rename_i hc
      injection h with h; subst h
      simp only [decInt]
      rw [takeN_append _ _ _ (Asn1c.Proofs.BerTlv.toBEn_length w _).symm]
      cases w with
      | zero => exact absurd rfl (hw 0 rfl)
      | succ w => simp only []; rw [twosVal_toBEn w z hc.1 hc.2]
    · exact absurd h (by simp)
  | varU =>
    simp only [encInt] at h
    split at h
    · rename_i hc
      injection h with h; subst h
      simp only [decInt]
      rw [decLenBody_append]
      simp only [unsOctets_ne_nil, if_false, unsVal_unsOctets, Int.toNat_of_nonneg hc]
    · exact absurd h (by simp)
  | varS =>
    simp only [encInt] at h
    injection h with h; subst h
    simp only [decInt]
    rw [decLenBody_append]
    simp only [intOctets_ne_nil, if_false, twosVal_intOctets]

/-! ### §11 ENUMERATED -/

theorem decEnum_encEnum (z : Int) (out rest : Bytes) (h : encEnum z = some out) :
    decEnum (out ++ rest) = .ok z rest := by
  unfold encEnum at h
  split at h
  · rename_i hc
    injection h with h; subst h
    simp only [List.cons_append, List.nil_append, decEnum]
    rw [if_pos (by omega), Int.toNat_of_nonneg hc.1]
  · split at h
    · injection h with h; subst h
      simp only [List.cons_append, decEnum]
      have hne := intOctets_ne_nil z
      have hpos : 0 < (intOctets z).length := by
        cases hq : intOctets z with
        | nil => exact absurd hq hne
        | cons _ _ => simp
      rw [if_neg (by omega), if_neg (by omega)]
      simp only [Nat.add_sub_cancel_left]
      rw [takeN_append _ _ _ rfl]
      simp only [twosVal_intOctets]
    · exact absurd h (by simp)

/-! ### bit strings: preamble and presence bitmap -/

theorem byteBits_bitsVal8 : ∀ b0 b1 b2 b3 b4 b5 b6 b7 : Bool,
    byteBits (bitsVal 0 [b0, b1, b2, b3, b4, b5, b6, b7]) = [b0, b1, b2, b3, b4, b5, b6, b7] := by decide

theorem byteBits_bitsVal (c : Bits) (h : c.length = 8) : byteBits (bitsVal 0 c) = c := by
  match c, h with
  | [b0, b1, b2, b3, b4, b5, b6, b7], _ => exact byteBits_bitsVal8 ..

theorem bitsToBytes_nil : bitsToBytes [] = [] := by rw [bitsToBytes]; simp

theorem bitsToBytes_ne (bs : Bits) (h : bs ≠ []) :
    bitsToBytes bs = bitsVal 0 ((bs.take 8) ++ List.replicate (8 - (bs.take 8).length) false) :: bitsToBytes (bs.drop 8) := by
  rw [bitsToBytes]; simp [h]

theorem bytesToBits_cons' (b : Nat) (bs : Bytes) : bytesToBits (b :: bs) = byteBits b ++ bytesToBits bs := by
  simp [bytesToBits]

theorem padBits_lt8 (n : Nat) (h0 : 0 < n) (h : n < 8) : padBits n = 8 - n := by
  unfold padBits; omega
theorem padBits_sub8 (n : Nat) (h : 8 ≤ n) : padBits (n - 8) = padBits n := by
  unfold padBits; omega

theorem bytesToBits_bitsToBytes (bs : Bits) :
    bytesToBits (bitsToBytes bs) = bs ++ List.replicate (padBits bs.length) false := by
  induction hn : bs.length using Nat.strong_induction_on generalizing bs with
  | _ n ih =>
    subst hn
    by_cases he : bs = []
    · subst he; simp [bitsToBytes_nil, bytesToBits, padBits]
    · rw [bitsToBytes_ne bs he, bytesToBits_cons']
      have hpos : 0 < bs.length := List.length_pos_iff.mpr he
      by_cases h8 : 8 ≤ bs.length
      · have ht : (bs.take 8).length = 8 := by simp; omega
        rw [ht]; simp only [Nat.sub_self, List.replicate_zero, List.append_nil]
        rw [byteBits_bitsVal _ ht, ih (bs.length - 8) (by omega) (bs.drop 8) (by simp)]
        rw [← List.append_assoc, List.take_append_drop]
        rw [padBits_sub8 _ h8]
      · have ht : bs.take 8 = bs := List.take_of_length_le (by omega)
        have hd : bs.drop 8 = [] := List.drop_of_length_le (by omega)
        rw [ht, hd, bitsToBytes_nil]
        simp only [bytesToBits, List.flatMap_nil, List.append_nil]
        rw [byteBits_bitsVal _ (by simp; omega), padBits_lt8 _ hpos (by omega)]

theorem bitsToBytes_length (bs : Bits) : (bitsToBytes bs).length = (bs.length + 7) / 8 := by
  induction hn : bs.length using Nat.strong_induction_on generalizing bs with
  | _ n ih =>
    subst hn
    by_cases he : bs = []
    · subst he; simp [bitsToBytes_nil]
    · rw [bitsToBytes_ne bs he]
      have hpos : 0 < bs.length := List.length_pos_iff.mpr he
      simp only [List.length_cons]
      rw [ih (bs.drop 8).length (by simp; omega) (bs.drop 8) rfl]
      simp only [List.length_drop]
      omega

/-! ### well-formed OER views and canonical values -/

def shapeOk : IntShape → Bool
  | .fixedS w => w != 0
  | _ => true

mutual
def otyWfB : OTy → Bool
  | .integer sh => shapeOk sh
  | .seq root _ _ adds _ =>
    otyWfListB root && otyWfListB adds
  | .choice tags alts _ => otyWfListB alts && decide tags.Nodup
  | .seqOf e => otyWfB e
  | .setOf e => otyWfB e
  | _ => true
def otyWfListB : List OTy → Bool
  | [] => true
  | m :: ms => otyWfB m && otyWfListB ms
end

/-- **well-formed OER view**: a signed fixed-size INTEGER has at least one octet, the
    alternatives of a CHOICE carry distinct tags (X.680 §29.3). -/
def OTyWf (t : OTy) : Prop := otyWfB t = true
instance (t : OTy) : Decidable (OTyWf t) := by unfold OTyWf; infer_instance

/-- SET OF: the element encodings are in ascending order (X.696 §19 / X.690 §11.6) -/
def sortedEncO (e : OTy) (vs : List Val) : Bool :=
  match encElems e vs with
  | some els => chainB bytesLe els
  | none => false

mutual
def ocanonB : OTy → Val → Bool
  | .real, .real b => decide (RealOk b)
  | .bits _, .bits bs u => decide (u ≤ 7 ∧ (bs = [] → u = 0) ∧ maskLast bs u = bs)
  | .seq root rattrs _ adds aattrs, .seq vs =>
    ocanonComps root rattrs (vs.take root.length) && ocanonComps adds aattrs (vs.drop root.length)
  | .choice _ alts _, .choice i v => ocanonAlt alts i v
  | .seqOf e, .list vs => vs.all (fun v => ocanonB e v)
  | .setOf e, .list vs => vs.all (fun v => ocanonB e v) && sortedEncO e vs
  | _, _ => true
def ocanonComps : List OTy → List Attr → List Val → Bool
  | m :: ms, a :: as, v :: vs =>
    (if isAbsent v then true else (!isDefault a v && ocanonB m v)) && ocanonComps ms as vs
  | _, _, _ => true
def ocanonAlt : List OTy → Nat → Val → Bool
  | [], _, _ => true
  | a :: _, 0, v => ocanonB a v
  | _ :: as, i + 1, v => ocanonAlt as i v
end

/-- **canonical abstract value** (of a type that can encode it): present components are not the
    DEFAULT value; BIT STRING values are normalised (unused ≤ 7, unused bits zero); REAL values are in
    `RealOk`; SET OF lists are sorted by element encoding. -/
def OCanon (t : OTy) (v : Val) : Prop := ocanonB t v = true
instance (t : OTy) (v : Val) : Decidable (OCanon t v) := by unfold OCanon; infer_instance

theorem OTy.induct' (P : OTy → Prop)
    (boolean : P .boolean) (null : P .null) (integer : ∀ sh, P (.integer sh)) (enumerated : P .enumerated)
    (real : P .real) (octets : ∀ f, P (.octets f)) (bits : ∀ f, P (.bits f))
    (seq : ∀ root rattrs ext adds aattrs, (∀ m ∈ root, P m) → (∀ m ∈ adds, P m) → P (.seq root rattrs ext adds aattrs))
    (choice : ∀ tags alts n, (∀ m ∈ alts, P m) → P (.choice tags alts n))
    (seqOf : ∀ e, P e → P (.seqOf e))
    (setOf : ∀ e, P e → P (.setOf e)) : ∀ t, P t := by
  intro t
  refine OTy.rec (motive_1 := P) (motive_2 := fun ms => ∀ m ∈ ms, P m)
    boolean null integer enumerated real octets bits ?_ choice seqOf setOf ?_ ?_ t
  · intro root rattrs ext adds aattrs h1 h2; exact seq root rattrs ext adds aattrs h1 h2
  · intro m hm; cases hm
  · intro h tl ih1 ih2 m hm
    rcases List.mem_cons.mp hm with rfl | hm
    · exact ih1
    · exact ih2 m hm

theorem otyWfList_iff (ms : List OTy) : otyWfListB ms = true ↔ ∀ m ∈ ms, OTyWf m := by
  induction ms with
  | nil => simp [otyWfListB]
  | cons m ms ih => simp [otyWfListB, ih, OTyWf]

/-- the round-trip statement for one type -/
def RT (t : OTy) : Prop :=
  OTyWf t → ∀ (v : Val) (out rest : Bytes), OCanon t v → encOER t v = some out → decOER t (out ++ rest) = .ok v rest

theorem isPresent_true (a : Attr) (v : Val) (h : isPresent a v = true) : isAbsent v = false ∧ isDefault a v = false := by
  cases v <;> simp_all [isPresent, isAbsent]

theorem isPresent_false_canon (a : Attr) (v : Val) (m : OTy) (h : isPresent a v = false)
    (hc : (if isAbsent v then true else (!isDefault a v && ocanonB m v)) = true) : v = .absent := by
  cases v <;> simp_all [isPresent, isAbsent]

/-! ### SEQUENCE: root components -/

theorem decRoot_encRoot (ms : List OTy) (ih : ∀ m ∈ ms, RT m) (hw : ∀ m ∈ ms, OTyWf m) :
    ∀ (as : List Attr) (vs : List Val) (bits : Bits) (body : Bytes) (tail : Bits) (rest : Bytes),
      ocanonComps ms as vs = true → encRoot ms as vs = some (bits, body) →
      decRoot ms as (bits ++ tail) (body ++ rest) = .ok vs rest ∧ bits.length = (as.filter (·.optional)).length := by
  induction ms with
  | nil =>
    intro as vs bits body tail rest _ h
    cases as <;> cases vs <;> simp [encRoot] at h
    obtain ⟨rfl, rfl⟩ := h
    simp [decRoot]
  | cons m ms ihms =>
    intro as vs bits body tail rest hc h
    cases as with
    | nil => cases vs <;> simp [encRoot] at h
    | cons a as =>
    cases vs with
    | nil => simp [encRoot] at h
    | cons v vs =>
    have ihm := ih m (by simp)
    have hwm := hw m (by simp)
    have ih' := ihms (fun x hx => ih x (by simp [hx])) (fun x hx => hw x (by simp [hx]))
    simp only [ocanonComps, Bool.and_eq_true] at hc
    obtain ⟨hcv, hcs⟩ := hc
    simp only [encRoot] at h
    by_cases hp : isPresent a v = true
    · rw [if_pos hp] at h
      obtain ⟨hna, hnd⟩ := isPresent_true a v hp
      rw [hna] at hcv
      simp only [Bool.false_eq_true, if_false, hnd, Bool.not_false, Bool.true_and] at hcv
      cases h1 : encOER m v with
      | none => simp [h1] at h
      | some x =>
      cases h2 : encRoot ms as vs with
      | none => simp [h1, h2] at h
      | some p =>
      obtain ⟨bits', body'⟩ := p
      simp only [h1, h2, Option.some.injEq, Prod.mk.injEq] at h
      obtain ⟨hb, rfl⟩ := h
      obtain ⟨hd, hl⟩ := ih' as vs bits' body' tail rest hcs h2
      have hm := ihm hwm v x (body' ++ rest) hcv h1
      by_cases ho : a.optional = true
      · rw [if_pos ho] at hb; subst hb
        simp only [decRoot, ho, if_true, List.cons_append, List.append_assoc, hm, hd]
        simp [List.filter, ho, hl]
      · rw [if_neg ho] at hb; subst hb
        simp only [decRoot, ho, Bool.false_eq_true, if_false, List.append_assoc, hm, hd]
        simp [List.filter, ho, hl]
    · rw [if_neg hp] at h
      have hv : v = .absent := isPresent_false_canon a v m (by simpa using hp) hcv
      subst hv
      by_cases ho : a.optional = true
      · rw [if_pos ho] at h
        cases h2 : encRoot ms as vs with
        | none => simp [h2] at h
        | some p =>
        obtain ⟨bits', body'⟩ := p
        simp only [h2, Option.some.injEq, Prod.mk.injEq] at h
        obtain ⟨rfl, rfl⟩ := h
        obtain ⟨hd, hl⟩ := ih' as vs bits' body' tail rest hcs h2
        simp only [decRoot, ho, if_true, List.cons_append, hd]
        simp [List.filter, ho, hl]
      · rw [if_neg ho] at h; exact absurd h (by simp)

/-! ### SEQUENCE: extension additions -/

theorem decAdds_encAdds (ms : List OTy) (ih : ∀ m ∈ ms, RT m) (hw : ∀ m ∈ ms, OTyWf m) :
    ∀ (as : List Attr) (vs : List Val) (bits : Bits) (body : Bytes) (tail : Bits) (rest : Bytes),
      ocanonComps ms as vs = true → encAdds ms as vs = some (bits, body) →
      decAdds ms as (bits ++ tail) (body ++ rest) = .ok vs rest ∧ bits.length = ms.length := by
  induction ms with
  | nil =>
    intro as vs bits body tail rest _ h
    cases as <;> cases vs <;> simp [encAdds] at h
    obtain ⟨rfl, rfl⟩ := h
    simp [decAdds]
  | cons m ms ihms =>
    intro as vs bits body tail rest hc h
    cases as with
    | nil => cases vs <;> simp [encAdds] at h
    | cons a as =>
    cases vs with
    | nil => simp [encAdds] at h
    | cons v vs =>
    have ihm := ih m (by simp)
    have hwm := hw m (by simp)
    have ih' := ihms (fun x hx => ih x (by simp [hx])) (fun x hx => hw x (by simp [hx]))
    simp only [ocanonComps, Bool.and_eq_true] at hc
    obtain ⟨hcv, hcs⟩ := hc
    simp only [encAdds] at h
    by_cases hp : isPresent a v = true
    · rw [if_pos hp] at h
      obtain ⟨hna, hnd⟩ := isPresent_true a v hp
      rw [hna] at hcv
      simp only [Bool.false_eq_true, if_false, hnd, Bool.not_false, Bool.true_and] at hcv
      cases h1 : encOER m v with
      | none => simp [h1] at h
      | some x =>
      cases h2 : encAdds ms as vs with
      | none => simp [h1, h2] at h
      | some p =>
      obtain ⟨bits', body'⟩ := p
      simp only [h1, h2, Option.some.injEq, Prod.mk.injEq] at h
      obtain ⟨rfl, rfl⟩ := h
      obtain ⟨hd, hl⟩ := ih' as vs bits' body' tail rest hcs h2
      have hm := ihm hwm v x [] hcv h1
      rw [List.append_nil] at hm
      have ho := decOpen_openType (decOER m) x v (body' ++ rest) hm
      simp only [decAdds, List.cons_append, List.append_assoc, ho, hd]
      simp [hl]
    · rw [if_neg hp] at h
      have hv : v = .absent := isPresent_false_canon a v m (by simpa using hp) hcv
      subst hv
      cases h2 : encAdds ms as vs with
      | none => simp [h2] at h
      | some p =>
      obtain ⟨bits', body'⟩ := p
      simp only [h2, Option.some.injEq, Prod.mk.injEq] at h
      obtain ⟨rfl, rfl⟩ := h
      obtain ⟨hd, hl⟩ := ih' as vs bits' body' tail rest hcs h2
      simp only [decAdds, List.cons_append, List.drop_succ_cons, List.drop_zero, hd]
      simp [hl]

/-- no addition present: every addition value is `absent` -/
theorem encAdds_none_present (ms : List OTy) :
    ∀ (as : List Attr) (vs : List Val) (bits : Bits) (body : Bytes),
      ocanonComps ms as vs = true → encAdds ms as vs = some (bits, body) → bits.any id = false →
      vs = ms.map (fun _ => Val.absent) ∧ body = [] := by
  induction ms with
  | nil =>
    intro as vs bits body _ h _
    cases as <;> cases vs <;> simp [encAdds] at h
    simp [h.2]
  | cons m ms ihms =>
    intro as vs bits body hc h hb
    cases as with
    | nil => cases vs <;> simp [encAdds] at h
    | cons a as =>
    cases vs with
    | nil => simp [encAdds] at h
    | cons v vs =>
    simp only [ocanonComps, Bool.and_eq_true] at hc
    obtain ⟨hcv, hcs⟩ := hc
    simp only [encAdds] at h
    by_cases hp : isPresent a v = true
    · rw [if_pos hp] at h
      cases h1 : encOER m v with
      | none => simp [h1] at h
      | some x =>
      cases h2 : encAdds ms as vs with
      | none => simp [h1, h2] at h
      | some p =>
      simp only [h1, h2, Option.some.injEq, Prod.mk.injEq] at h
      obtain ⟨rfl, _⟩ := h
      simp at hb
    · rw [if_neg hp] at h
      have hv : v = .absent := isPresent_false_canon a v m (by simpa using hp) hcv
      subst hv
      cases h2 : encAdds ms as vs with
      | none => simp [h2] at h
      | some p =>
      obtain ⟨bits', body'⟩ := p
      simp only [h2, Option.some.injEq, Prod.mk.injEq] at h
      obtain ⟨rfl, rfl⟩ := h
      simp only [List.any_cons, id, Bool.false_or] at hb
      obtain ⟨hvs, hbd⟩ := ihms as vs bits' body' hcs h2 hb
      simp [hvs, hbd]

/-! ### §8.7 tags, §20 CHOICE -/

theorem b128hi_zero : b128hi 0 = [] := by rw [b128hi]; simp
theorem b128hi_pos (n : Nat) (h : n ≠ 0) : b128hi n = b128hi (n / 128) ++ [128 + n % 128] := by
  rw [b128hi]; simp [h]

theorem decTagLoop_hi (acc x : Nat) (tl : Bytes) (h : 128 ≤ x) :
    decTagLoop acc (x :: tl) = decTagLoop (acc * 128 + (x - 128)) tl := by
  rw [decTagLoop, if_neg (by omega)]
theorem decTagLoop_lo (acc x : Nat) (tl : Bytes) (h : x < 128) :
    decTagLoop acc (x :: tl) = .ok (acc * 128 + x) tl := by
  rw [decTagLoop, if_pos h]

theorem decTagLoop_b128hi (m : Nat) : ∀ (acc : Nat) (tl : Bytes),
    decTagLoop acc (b128hi m ++ tl) = decTagLoop (acc * 128 ^ (b128hi m).length + m) tl := by
  induction m using Nat.strong_induction_on with
  | _ m ih =>
    intro acc tl
    by_cases h : m = 0
    · subst h; simp [b128hi_zero]
    · rw [b128hi_pos m h, List.append_assoc, ih (m / 128) (by omega)]
      rw [List.singleton_append, decTagLoop_hi _ _ _ (by omega)]
      have e : (acc * 128 ^ (b128hi (m / 128)).length + m / 128) * 128 + (128 + m % 128 - 128)
             = acc * 128 ^ (b128hi (m / 128) ++ [128 + m % 128]).length + m := by
        rw [List.length_append, List.length_singleton, Nat.pow_succ, Nat.add_sub_cancel_left, Nat.add_mul,
          Nat.mul_assoc]
        have := Nat.div_add_mod m 128
        omega
      rw [e]

theorem decTag_tagOctets (t : Tag) (rest : Bytes) : decTag (Oer.tagOctets t ++ rest) = .ok t rest := by
  obtain ⟨cls, num⟩ := t
  unfold Oer.tagOctets
  by_cases h : num < 63
  · simp only [h, if_true, List.cons_append, List.nil_append, decTag]
    have h1 : (cls * 64 + num) % 64 = num := by omega
    have h2 : (cls * 64 + num) / 64 = cls := by omega
    rw [h1, h2, if_pos h]
  · simp only [h, if_false, List.cons_append, decTag]
    have h1 : (cls * 64 + 63) % 64 = 63 := by omega
    have h2 : (cls * 64 + 63) / 64 = cls := by omega
    rw [h1, h2, if_neg (by omega), List.append_assoc, decTagLoop_b128hi, List.singleton_append,
      decTagLoop_lo _ _ _ (Nat.mod_lt _ (by omega))]
    have : (0 * 128 ^ (b128hi (num / 128)).length + num / 128) * 128 + num % 128 = num := by
      have := Nat.div_add_mod num 128
      omega
    rw [this]

theorem findTag_of_getElem (t : Tag) : ∀ (tags : List Tag) (i k : Nat), tags.Nodup → tags[i]? = some t →
    findTag t tags k = some (k + i) := by
  intro tags
  induction tags with
  | nil => intro i k _ h; simp at h
  | cons x xs ih =>
    intro i k hn h
    cases i with
    | zero =>
      simp only [List.getElem?_cons_zero, Option.some.injEq] at h
      subst h; simp [findTag]
    | succ i =>
      simp only [List.getElem?_cons_succ] at h
      have hx : x ≠ t := by
        intro he; subst he
        have := (List.nodup_cons.mp hn).1
        exact this (List.mem_of_getElem? h)
      simp only [findTag, hx, if_false]
      rw [ih i (k + 1) (List.nodup_cons.mp hn).2 h]
      congr 1; omega

theorem decAlt_encAlt (alts : List OTy) (ih : ∀ m ∈ alts, RT m) (hw : ∀ m ∈ alts, OTyWf m) :
    ∀ (i : Nat) (v : Val) (body : Bytes) (nroot : Nat) (rest : Bytes),
      ocanonAlt alts i v = true → encAlt alts i v = some body →
      decAlt alts i nroot ((if i < nroot then body else openType body) ++ rest) = .ok v rest := by
  induction alts with
  | nil => intro i v body nroot rest _ h; simp [encAlt] at h
  | cons a as ihas =>
    intro i v body nroot rest hc h
    cases i with
    | zero =>
      simp only [encAlt] at h
      simp only [ocanonAlt] at hc
      have iha := ih a (by simp) (hw a (by simp))
      simp only [decAlt]
      by_cases hn : 0 < nroot
      · rw [if_pos hn, if_pos hn]; exact iha v body rest hc h
      · rw [if_neg hn, if_neg hn]
        have := iha v body [] hc h
        rw [List.append_nil] at this
        exact decOpen_openType _ body v rest this
    | succ i =>
      simp only [encAlt] at h
      simp only [ocanonAlt] at hc
      simp only [decAlt]
      have := ihas (fun x hx => ih x (by simp [hx])) (fun x hx => hw x (by simp [hx])) i v body (nroot - 1) rest hc h
      have hiff : (i + 1 < nroot) ↔ (i < nroot - 1) := by omega
      simp only [hiff]; exact this

/-! ### §17 SEQUENCE OF, §19 SET OF -/

theorem decInt_quantity (n : Nat) (rest : Bytes) : decInt .varU (quantity n ++ rest) = .ok (n : Int) rest := by
  apply decInt_encInt .varU (by intro w h; cases h)
  simp [encInt, quantity]

theorem decRep_encElems (e : OTy) (ih : RT e) (hw : OTyWf e) :
    ∀ (vs : List Val) (els : List Bytes) (rest : Bytes), (vs.all (fun v => ocanonB e v)) = true →
      encElems e vs = some els → decRep (decOER e) vs.length (flatten els ++ rest) = .ok vs rest := by
  intro vs
  induction vs with
  | nil =>
    intro els rest _ h
    simp only [encElems, mapEnc, Option.some.injEq] at h; subst h
    simp [decRep, flatten]
  | cons v vs ihvs =>
    intro els rest hc h
    simp only [List.all_cons, Bool.and_eq_true] at hc
    simp only [encElems, mapEnc] at h
    cases h1 : encOER e v with
    | none => simp [h1] at h
    | some x =>
    cases h2 : mapEnc (encOER e) vs with
    | none => simp [h1, h2] at h
    | some xs =>
    simp only [h1, h2, Option.some.injEq] at h; subst h
    simp only [flatten, List.length_cons, decRep, List.append_assoc]
    rw [ih hw v x _ hc.1 h1]
    simp only []
    rw [ihvs xs rest hc.2 h2]

/-! ### the SEQUENCE frame (§16.2 preamble, §16.4 presence bitmap) -/

theorem takeN_bitsToBytes (B : Bits) (r : Bytes) (n : Nat) (h : n = B.length) :
    takeN ((n + 7) / 8) (bitsToBytes B ++ r) = .ok (bitsToBytes B) r := by
  subst h
  exact takeN_append _ _ _ (bitsToBytes_length B).symm

theorem padBits_le (n : Nat) : padBits n ≤ 7 := by unfold padBits; omega

theorem bitmap_bits (abits : Bits) :
    (bytesToBits (bitsToBytes abits)).take ((bitsToBytes abits).length * 8 - padBits abits.length) = abits := by
  rw [bytesToBits_bitsToBytes, bitsToBytes_length]
  have : (abits.length + 7) / 8 * 8 - padBits abits.length = abits.length := by unfold padBits; omega
  rw [this]; simp

theorem bitsToBytes_eq_nil (abits : Bits) (h : bitsToBytes abits = []) : abits = [] := by
  have := bitsToBytes_length abits
  rw [h] at this
  simp only [List.length_nil] at this
  have : abits.length = 0 := by omega
  exact List.length_eq_zero_iff.mp this

theorem skipOpen_nil (bs : Bytes) : skipOpen [] bs = .ok () bs := by simp [skipOpen]

/-! ### the round trip, by induction on the type -/

theorem rt_boolean : RT .boolean := by
  intro _ v out rest _ h
  cases v with
  | bool b =>
    simp only [encOER, Option.some.injEq] at h
    subst h
    cases b <;> simp [decOER]
  | _ => simp [encOER] at h

theorem rt_null : RT .null := by
  intro _ v out rest _ h
  cases v <;> simp [encOER] at h
  subst h
  simp [decOER]

theorem rt_integer (sh : IntShape) : RT (.integer sh) := by
  intro hw v out rest _ h
  cases v with
  | int z => ?_
  | _ => simp [encOER] at h
  simp only [encOER] at h
  have hs : ∀ w, sh = .fixedS w → w ≠ 0 := by
    intro w e; subst e
    simpa [OTyWf, otyWfB, shapeOk] using hw
  simp only [decOER, decInt_encInt sh hs z out rest h]

theorem rt_enumerated : RT .enumerated := by
  intro _ v out rest _ h
  cases v with
  | int z => ?_
  | _ => simp [encOER] at h
  simp only [encOER] at h
  simp only [decOER, decEnum_encEnum z out rest h]

theorem rt_real : RT .real := by
  intro _ v out rest hc h
  cases v with
  | real b => ?_
  | _ => simp [encOER] at h
  simp only [encOER, Option.some.injEq] at h
  subst h
  simp only [OCanon, ocanonB, decide_eq_true_eq] at hc
  simp only [decOER, decLenBody_append, real_roundtrip b hc]

theorem rt_octets (f : Option Nat) : RT (.octets f) := by
  intro _ v out rest _ h
  cases f with
  | none =>
    cases v <;> simp [encOER] at h
    subst h
    simp only [decOER, decLenBody_append]
  | some n =>
    cases v <;> simp [encOER] at h
    obtain ⟨hl, rfl⟩ := h
    simp only [decOER, takeN_append _ _ _ hl.symm]

theorem rt_bits (f : Option Nat) : RT (.bits f) := by
  intro _ v out rest hc h
  cases f with
  | none =>
    cases v with
    | bits bs u => ?_
    | _ => simp [encOER] at h
    simp [encOER] at h
    simp only [OCanon, ocanonB, decide_eq_true_eq] at hc
    obtain ⟨h1, h2, h3⟩ := hc
    obtain ⟨_, rfl⟩ := h
    rw [h3]
    have e : lenDet (1 + bs.length) ++ u :: bs = lenDet (u :: bs).length ++ (u :: bs) := by
      simp [Nat.add_comm]
    simp only [decOER, List.append_assoc, List.singleton_append]
    rw [← List.append_assoc, e, decLenBody_append]
    simp only [h3]
    rw [if_pos ⟨h1, h2⟩]
  | some n =>
    cases v with
    | bits bs u => ?_
    | _ => simp [encOER] at h
    simp [encOER] at h
    simp only [OCanon, ocanonB, decide_eq_true_eq] at hc
    obtain ⟨h1, h2, h3⟩ := hc
    obtain ⟨⟨_, hl, hu⟩, rfl⟩ := h
    rw [h3]
    simp only [decOER, takeN_append _ _ _ hl.symm]
    rw [← hu, h3]

theorem rt_seqOf (e : OTy) (ih : RT e) : RT (.seqOf e) := by
  intro hw v out rest hc h
  cases v with
  | list vs => ?_
  | _ => simp [encOER] at h
  simp only [encOER] at h
  have hwe : OTyWf e := by simpa [OTyWf, otyWfB] using hw
  simp only [OCanon, ocanonB] at hc
  cases h1 : encElems e vs with
  | none => simp [h1] at h
  | some els =>
  simp only [h1, Option.some.injEq] at h; subst h
  simp only [decOER, List.append_assoc, decInt_quantity, Int.toNat_natCast]
  rw [decRep_encElems e ih hwe vs els rest hc h1]

theorem rt_setOf (e : OTy) (ih : RT e) : RT (.setOf e) := by
  intro hw v out rest hc h
  cases v with
  | list vs => ?_
  | _ => simp [encOER] at h
  simp only [encOER] at h
  have hwe : OTyWf e := by simpa [OTyWf, otyWfB] using hw
  simp only [OCanon, ocanonB, Bool.and_eq_true] at hc
  obtain ⟨hc, hs⟩ := hc
  cases h1 : encElems e vs with
  | none => simp [h1] at h
  | some els =>
  simp only [h1, Option.some.injEq] at h; subst h
  simp only [sortedEncO, h1] at hs
  rw [sortBy_of_chain bytesLe els hs]
  simp only [decOER, List.append_assoc, decInt_quantity, Int.toNat_natCast]
  rw [decRep_encElems e ih hwe vs els rest hc h1]

theorem rt_choice (tags : List Tag) (alts : List OTy) (n : Nat) (ih : ∀ m ∈ alts, RT m) : RT (.choice tags alts n) := by
  intro hw v out rest hc h
  cases v with
  | choice i v => ?_
  | _ => simp [encOER] at h
  simp only [encOER] at h
  simp only [OTyWf, otyWfB, Bool.and_eq_true, decide_eq_true_eq] at hw
  obtain ⟨hwa, hnd⟩ := hw
  have hwa' := (otyWfList_iff alts).mp hwa
  simp only [OCanon, ocanonB] at hc
  cases h1 : tags[i]? with
  | none => simp [h1] at h
  | some t =>
  cases h2 : encAlt alts i v with
  | none => simp [h1, h2] at h
  | some body =>
  simp only [h1, h2, Option.some.injEq] at h; subst h
  simp only [decOER, List.append_assoc, decTag_tagOctets, findTag_of_getElem t tags i 0 hnd h1, Nat.zero_add]
  rw [decAlt_encAlt alts ih hwa' i v body n rest hc h2]

theorem rt_seq (root : List OTy) (rattrs : List Attr) (ext : Bool) (adds : List OTy) (aattrs : List Attr)
    (ihr : ∀ m ∈ root, RT m) (iha : ∀ m ∈ adds, RT m) : RT (.seq root rattrs ext adds aattrs) := by
  intro hw v out rest hc h
  cases v with
  | seq vs => ?_
  | _ => simp [encOER] at h
  simp only [encOER] at h
  simp only [OTyWf, otyWfB, Bool.and_eq_true] at hw
  obtain ⟨hwr, hwa⟩ := hw
  have hwr' := (otyWfList_iff root).mp hwr
  have hwa' := (otyWfList_iff adds).mp hwa
  simp only [OCanon, ocanonB, Bool.and_eq_true] at hc
  obtain ⟨hcr, hca⟩ := hc
  cases h1 : encRoot root rattrs (vs.take root.length) with
  | none => simp [h1] at h
  | some p1 =>
  obtain ⟨rbits, rbody⟩ := p1
  cases h2 : encAdds adds aattrs (vs.drop root.length) with
  | none => simp [h1, h2] at h
  | some p2 =>
  obtain ⟨abits, abody⟩ := p2
  simp only [h1, h2] at h
  have hvs : vs.take root.length ++ vs.drop root.length = vs := List.take_append_drop _ _
  by_cases hany : abits.any id = true
  · -- extension additions present
    cases ext with
    | false => simp [hany] at h
    | true =>
    simp only [hany, Bool.not_true, Bool.and_false, Bool.false_eq_true, if_false, if_true, Option.some.injEq,
      List.singleton_append] at h
    subst h
    have hpad := bytesToBits_bitsToBytes (true :: rbits)
    obtain ⟨hdr, hlr⟩ := decRoot_encRoot root ihr hwr' rattrs _ rbits rbody
      (List.replicate (padBits (true :: rbits).length) false) (bitmapField abits ++ (abody ++ rest)) hcr h1
    obtain ⟨hda, hla⟩ := decAdds_encAdds adds iha hwa' aattrs _ abits abody [] rest hca h2
    have hne : bitsToBytes abits ≠ [] := by
      intro he
      have := bitsToBytes_eq_nil abits he
      subst this; simp at hany
    simp only [decOER, if_true, List.append_assoc]
    rw [takeN_bitsToBytes (true :: rbits) _ (1 + (List.filter (fun x => x.optional) rattrs).length)
      (by simp [hlr, Nat.add_comm])]
    simp only [hpad, List.cons_append, List.headD_cons, Bool.and_self, List.drop_succ_cons,
      List.drop_zero, if_true]
    rw [hdr]
    simp only [bitmapField, List.append_assoc, List.singleton_append]
    have e : lenDet (1 + (bitsToBytes abits).length) ++ ((padBits abits.length :: bitsToBytes abits) ++ (abody ++ rest))
        = lenDet (padBits abits.length :: bitsToBytes abits).length ++ (padBits abits.length :: bitsToBytes abits)
          ++ (abody ++ rest) := by
      simp [Nat.add_comm]
    rw [e, decLenBody_append]
    simp only [bitmap_bits]
    rw [if_pos ⟨padBits_le _, fun he => absurd he hne⟩]
    rw [List.append_nil] at hda
    rw [hda]
    simp only [hvs]
    rw [← hla, List.drop_length, skipOpen_nil]
  · -- no extension addition present
    have hany' : abits.any id = false := by simpa using hany
    obtain ⟨hva, hba⟩ := encAdds_none_present adds aattrs _ abits abody hca h2 hany'
    simp only [hany', Bool.false_and, Bool.false_eq_true, if_false, Option.some.injEq, List.append_nil] at h
    subst h
    subst hba
    cases ext with
    | true =>
      obtain ⟨hdr, hlr⟩ := decRoot_encRoot root ihr hwr' rattrs _ rbits rbody
        (List.replicate (padBits (false :: rbits).length) false) rest hcr h1
      have hpad := bytesToBits_bitsToBytes (false :: rbits)
      simp only [decOER, if_true, List.append_assoc, List.singleton_append]
      rw [takeN_bitsToBytes (false :: rbits) _ (1 + (List.filter (fun x => x.optional) rattrs).length)
        (by simp [hlr, Nat.add_comm])]
      simp only [hpad, List.cons_append, List.headD_cons, Bool.and_false, Bool.false_eq_true, if_false,
        List.drop_succ_cons, List.drop_zero]
      rw [hdr]
      simp only [← hva, hvs]
    | false =>
      obtain ⟨hdr, hlr⟩ := decRoot_encRoot root ihr hwr' rattrs _ rbits rbody
        (List.replicate (padBits rbits.length) false) rest hcr h1
      have hpad := bytesToBits_bitsToBytes rbits
      simp only [decOER, Bool.false_eq_true, if_false, List.append_assoc, List.nil_append]
      rw [takeN_bitsToBytes rbits _ (0 + (List.filter (fun x => x.optional) rattrs).length)
        (by simp [hlr])]
      simp only [hpad, Bool.false_and, Bool.false_eq_true, if_false, List.drop_zero]
      rw [hdr]
      simp only [← hva, hvs]

/-- the decoder inverts the encoder on every well-formed type and canonical value, whatever follows -/
theorem rt_all : ∀ t, RT t := by
  apply OTy.induct'
  · exact rt_boolean
  · exact rt_null
  · exact rt_integer
  · exact rt_enumerated
  · exact rt_real
  · exact rt_octets
  · exact rt_bits
  · exact rt_seq
  · exact rt_choice
  · exact rt_seqOf
  · exact rt_setOf

end Asn1c.Proofs.L2Oer
