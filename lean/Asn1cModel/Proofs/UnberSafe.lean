import Asn1cModel.Impl.Unber
/-
  `unber -p` on ARBITRARY input: the model never reads `tagbuf` out of bounds, none of the
  `assert()`s of `process_deeper` can fire, the fuel `length input + 1` is never exhausted
  (termination), and the accounting is sound: what an activation reports in `*frame_size`
  never exceeds its `limit`, and the input it leaves is a suffix of the input it got.
-/
set_option linter.unusedSimpArgs false

namespace Asn1c.Proofs.UnberSafe
open Asn1c Asn1c.Impl.UnberTlv Asn1c.Impl.Unber

/-! ### the TL decoders never read outside `buf[0..size)` -/

theorem fetchTagLoop_safe (tclass : Nat) : ∀ (rest : Bytes) (val skipped size : Nat),
    skipped + rest.length = size + 1 →
    fetchTagLoop tclass rest val skipped size ≠ .oob ∧
    ∀ t n, fetchTagLoop tclass rest val skipped size = .ok t n → skipped ≤ n ∧ n ≤ size := by
  intro rest
  induction rest with
  | nil =>
    intro val skipped size h
    simp only [List.length_nil] at h
    simp only [fetchTagLoop]
    rw [if_neg (by omega)]
    exact ⟨(by intro h; cases h), (fun t n hn => by cases hn)⟩
  | cons oct rest ih =>
    intro val skipped size h
    simp only [List.length_cons] at h
    simp only [fetchTagLoop]
    rw [if_pos (by omega)]
    by_cases ho : oct ≥ 128
    · rw [if_pos ho]
      try simp only []
      by_cases hv : (val * 128 + oct % 128) / 2 ^ 23 ≠ 0
      · rw [if_pos hv]; simp
      · rw [if_neg hv]
        have := ih (val * 128 + oct % 128) (skipped + 1) size (by omega)
        refine ⟨this.1, fun t n hn => ?_⟩
        have := this.2 t n hn
        omega
    · rw [if_neg ho]
      refine ⟨by simp, fun t n hn => ?_⟩
      simp only [Fetch.ok.injEq, Int.ofNat_eq_natCast] at hn
      omega

theorem fetchTag_safe (buf : Bytes) :
    fetchTag buf buf.length ≠ .oob ∧
    ∀ t n, fetchTag buf buf.length = .ok t n → 1 ≤ n ∧ n ≤ buf.length := by
  unfold fetchTag
  cases buf with
  | nil => simp
  | cons b rest =>
    rw [if_neg (by simp)]
    try simp only []
    by_cases hb : b % 32 ≠ 31
    · rw [if_pos hb]
      refine ⟨by simp, fun t n hn => ?_⟩
      simp only [Fetch.ok.injEq, Int.ofNat_eq_natCast] at hn
      simp only [List.length_cons]; omega
    · rw [if_neg hb]
      have := fetchTagLoop_safe (b / 64) rest 0 2 (b :: rest).length (by simp; omega)
      refine ⟨this.1, fun t n hn => ?_⟩
      have := this.2 t n hn
      omega

theorem fetchLenLoop_safe : ∀ (rest : Bytes) (oct len skipped size : Nat),
    skipped + rest.length = size →
    fetchLenLoop rest oct len skipped size ≠ .oob ∧
    ∀ l n, fetchLenLoop rest oct len skipped size = .ok l n → 0 ≤ l ∧ skipped ≤ n ∧ n ≤ size := by
  intro rest
  induction rest with
  | nil =>
    intro oct len skipped size h
    simp only [List.length_nil] at h
    cases oct with
    | zero =>
      simp only [fetchLenLoop]
      split
      · simp
      · refine ⟨by simp, fun l n hn => ?_⟩
        simp only [Fetch.ok.injEq, Int.ofNat_eq_natCast] at hn
        omega
    | succ oct =>
      simp only [fetchLenLoop]
      rw [if_neg (by omega)]
      simp
  | cons b rest ih =>
    intro oct len skipped size h
    simp only [List.length_cons] at h
    cases oct with
    | zero =>
      simp only [fetchLenLoop]
      split
      · simp
      · refine ⟨by simp, fun l n hn => ?_⟩
        simp only [Fetch.ok.injEq, Int.ofNat_eq_natCast] at hn
        omega
    | succ oct =>
      simp only [fetchLenLoop]
      rw [if_pos (by omega)]
      by_cases hl : len / 2 ^ 55 = 0
      · rw [if_pos hl]
        have := ih oct (len * 256 + b) (skipped + 1) size (by omega)
        refine ⟨this.1, fun l n hn => ?_⟩
        have := this.2 l n hn
        omega
      · rw [if_neg hl]; simp

theorem fetchLength_safe (constr : Bool) (buf : Bytes) :
    fetchLength constr buf buf.length ≠ .oob ∧
    ∀ l n, fetchLength constr buf buf.length = .ok l n →
      1 ≤ n ∧ n ≤ buf.length ∧ -1 ≤ l ∧ (constr = false → 0 ≤ l) := by
  unfold fetchLength
  cases buf with
  | nil => simp
  | cons oct rest =>
    rw [if_neg (by simp)]
    try simp only []
    by_cases h1 : oct < 128
    · rw [if_pos h1]
      refine ⟨by simp, fun l n hn => ?_⟩
      simp only [Fetch.ok.injEq, Int.ofNat_eq_natCast] at hn
      simp only [List.length_cons]
      refine ⟨by omega, by omega, by omega, fun _ => by omega⟩
    · rw [if_neg h1]
      by_cases h2 : (constr && oct == 128) = true
      · rw [if_pos h2]
        refine ⟨by simp, fun l n hn => ?_⟩
        simp only [Fetch.ok.injEq, Int.ofNat_eq_natCast] at hn
        simp only [List.length_cons]
        simp only [Bool.and_eq_true] at h2
        refine ⟨by omega, by omega, by omega, fun hc => by rw [hc] at h2; simp at h2⟩
      · rw [if_neg h2]
        by_cases h3 : (oct == 255) = true
        · rw [if_pos h3]; simp
        · rw [if_neg h3]
          have := fetchLenLoop_safe rest (oct % 128) 0 1 (oct :: rest).length (by simp; omega)
          refine ⟨this.1, fun l n hn => ?_⟩
          have := this.2 l n hn
          refine ⟨by omega, by omega, by omega, fun _ => by omega⟩

/-! ### process_deeper -/

/-- a good outcome of an activation entered with `limit`, input `inp`, `bytesRead = off` -/
def SafeR (limit : Int) (inp : Bytes) (off : Nat) : R → Prop
  | .done _ frame inp' off' _ =>
      (limit ≠ -1 → (frame : Int) ≤ limit) ∧ ∃ consumed, inp = consumed ++ inp' ∧ off' = off + consumed.length
  | .failed _ _ => True
  | .oob _ => False
  | .assertion _ => False
  | .nofuel => False

theorem SafeR.pre {limit : Int} {inp : Bytes} {off : Nat} {r : R} (o : List Out) (h : SafeR limit inp off r) :
    SafeR limit inp off (r.pre o) := by
  cases r <;> exact h

/-- the rest of the loop ran with `limit2`, input `inp2`, offset `off2`, after this iteration
    consumed `c` and added `k` to the frame -/
theorem SafeR.shift {limit limit2 : Int} {inp inp2 c : Bytes} {off off2 k : Nat} {r : R}
    (h : SafeR limit2 inp2 off2 r) (hi : inp = c ++ inp2) (ho : off2 = off + c.length)
    (hl : limit ≠ -1 → limit2 ≠ -1 ∧ limit2 + k ≤ limit) :
    SafeR limit inp off (r.addFrame k) := by
  cases r with
  | done p f i o' out =>
    simp only [SafeR, R.addFrame] at h ⊢
    obtain ⟨h1, c2, h2, h3⟩ := h
    refine ⟨fun hne => ?_, c ++ c2, by rw [hi, h2, List.append_assoc], by rw [h3, ho, List.length_append]; omega⟩
    have := hl hne
    have := h1 this.1
    push_cast; omega
  | failed e out => simp [SafeR, R.addFrame]
  | oob out => exact h
  | assertion out => exact h
  | nofuel => exact h

/-- what `afterTL` needs from `process_deeper` itself -/
def RecSafe (rec : Loop) (f : Nat) : Prop :=
  ∀ (level : Nat) (eoc : Bool) (tagbuf : Bytes) (limit : Int) (esize : Nat) (pdc : Pdc) (inp : Bytes) (off : Nat),
    -1 ≤ limit → inp.length < f → SafeR limit inp off (rec level eoc tagbuf limit esize pdc inp off)

theorem afterTL_safe (rec : Loop) (f : Nat) (hrec : RecSafe rec f)
    (level : Nat) (eoc : Bool) (tagbuf : Bytes) (limit : Int) (esize : Nat) (pdc : Pdc) (inp : Bytes)
    (off tag : Nat) (len : Int) (constr isEoc : Bool)
    (hlim : limit = -1 ∨ ((tagbuf.length : Nat) : Int) ≤ limit) (hlen : -1 ≤ len)
    (hprim : constr = false → 0 ≤ len) (hf : inp.length < f) :
    SafeR limit inp off (afterTL rec level eoc tagbuf limit esize pdc inp off tag len constr isEoc) := by
  unfold afterTL
  simp only []
  generalize ho1 : (if isEoc = true then [] else [Out.opn level constr (off - tagbuf.length) tagbuf.length tag len]) = o1
  generalize hl1 : (if limit = -1 then (-1 : Int) else limit - (tagbuf.length : Int)) = limit1
  have hl1' : (limit = -1 → limit1 = -1) ∧ (limit ≠ -1 → limit1 = limit - tagbuf.length ∧ 0 ≤ limit1) := by
    constructor
    · intro h; rw [← hl1, if_pos h]
    · intro h; rw [← hl1, if_neg h]; omega
  by_cases c1 : limit ≠ -1 ∧ limit1 < 0
  · exfalso; have := hl1'.2 c1.1; omega
  rw [if_neg c1]
  by_cases c2 : limit ≠ -1 ∧ len > limit1
  · rw [if_pos c2]; trivial
  rw [if_neg c2]
  have hlenle : limit ≠ -1 → len ≤ limit1 := by
    intro h
    by_cases hc : len ≤ limit1
    · exact hc
    · exact absurd ⟨h, by omega⟩ c2
  by_cases c3 : isEoc = true
  · rw [if_pos c3]
    simp only [SafeR]
    refine ⟨fun h => ?_, [], by simp, by simp⟩
    have := hl1'.2 h; omega
  rw [if_neg c3]
  by_cases c4 : constr = true
  · rw [if_pos c4]
    by_cases c5 : len ≠ -1 ∧ limit1 ≠ -1 ∧ limit1 < len
    · exfalso
      by_cases hm : limit = -1
      · exact c5.2.1 (hl1'.1 hm)
      · have := hlenle hm; omega
    rw [if_neg c5]
    by_cases cd : level + 1 > maxLevel
    · rw [if_pos cd]; trivial
    rw [if_neg cd]
    generalize hlc : (if len = -1 then limit1 else len) = limitc
    have hlimc : -1 ≤ limitc := by
      rw [← hlc]; split
      · by_cases hm : limit = -1
        · rw [hl1'.1 hm]; omega
        · have := hl1'.2 hm; omega
      · omega
    have hchild := hrec (level + 1) (len == -1) [] limitc tagbuf.length .finished inp off hlimc hf
    cases hres : rec (level + 1) (len == -1) [] limitc tagbuf.length .finished inp off with
    | done cpdc dec inp2 off2 o2 =>
      rw [hres] at hchild
      simp only [SafeR] at hchild
      obtain ⟨hdec, cc, hcc, hoff2⟩ := hchild
      simp only []
      -- dec ≤ limit1 when a limit is set
      have hdec1 : limit ≠ -1 → (dec : Int) ≤ limit1 := by
        intro hm
        have h2 := hl1'.2 hm
        have h3 := hlenle hm
        by_cases hl : len = -1
        · rw [← hlc, if_pos hl] at hdec
          exact hdec (by omega)
        · rw [← hlc, if_neg hl] at hdec
          have := hdec (by omega); omega
      by_cases c6 : limit1 ≠ -1 ∧ limit1 < dec
      · exfalso
        by_cases hm : limit = -1
        · exact c6.1 (hl1'.1 hm)
        · have := hdec1 hm; omega
      rw [if_neg c6]
      generalize hl2 : (if limit1 = -1 then (-1 : Int) else limit1 - (dec : Int)) = limit2
      have hl2' : (limit = -1 → limit2 = -1) ∧ (limit ≠ -1 → limit2 = limit - tagbuf.length - dec ∧ 0 ≤ limit2) := by
        constructor
        · intro h; rw [← hl2, if_pos (hl1'.1 h)]
        · intro h
          have h2 := hl1'.2 h
          have h3 := hdec1 h
          rw [← hl2, if_neg (by omega)]; omega
      have hinp2 : inp2.length < f := by
        have := congrArg List.length hcc
        simp only [List.length_append] at this; omega
      have hcont : ∀ (p : Pdc) (o : List Out),
          SafeR limit inp off
            (((rec level eoc [] limit2 (esize + tagbuf.length + dec) p inp2 off2).addFrame (tagbuf.length + dec)).pre o) := by
        intro p o
        apply SafeR.pre
        refine SafeR.shift (hrec level eoc [] limit2 _ p inp2 off2 ?_ hinp2) hcc hoff2 ?_
        · by_cases hm : limit = -1
          · rw [hl2'.1 hm]; omega
          · have := hl2'.2 hm; omega
        · intro hm
          have := hl2'.2 hm
          refine ⟨by omega, by push_cast; omega⟩
      have hdone : ∀ (p : Pdc) (o : List Out), SafeR limit inp off (.done p (tagbuf.length + dec) inp2 off2 o) := by
        intro p o
        simp only [SafeR]
        refine ⟨fun hm => ?_, cc, hcc, hoff2⟩
        have := hdec1 hm
        have := hl1'.2 hm
        push_cast; omega
      by_cases c7 : len = -1
      · rw [if_pos c7]
        split
        · exact hdone _ _
        · exact hcont _ _
      · rw [if_neg c7]
        split
        · exact hdone _ _
        · exact hcont _ _
    | failed e o2 => simp [SafeR, R.pre]
    | oob o2 => rw [hres] at hchild; exact hchild.elim
    | assertion o2 => rw [hres] at hchild; exact hchild.elim
    | nofuel => rw [hres] at hchild; exact hchild.elim
  · rw [if_neg c4]
    have hc4 : constr = false := by cases constr <;> simp_all
    have hlen0 := hprim hc4
    rw [if_neg (by omega)]
    by_cases c5 : (inp.take len.toNat).length < len.toNat
    · rw [if_pos c5]; trivial
    rw [if_neg c5]
    have htl : (inp.take len.toNat).length = len.toNat := by
      have := List.length_take_le len.toNat inp; omega
    by_cases c6 : limit1 ≠ -1 ∧ limit1 < len
    · exfalso
      by_cases hm : limit = -1
      · exact c6.1 (hl1'.1 hm)
      · have := hlenle hm; omega
    rw [if_neg c6]
    generalize hl2 : (if limit1 = -1 then (-1 : Int) else limit1 - len) = limit2
    have hl2' : (limit = -1 → limit2 = -1) ∧ (limit ≠ -1 → limit2 = limit - tagbuf.length - len ∧ 0 ≤ limit2) := by
      constructor
      · intro h; rw [← hl2, if_pos (hl1'.1 h)]
      · intro h
        have h2 := hl1'.2 h
        have h3 := hlenle h
        rw [← hl2, if_neg (by omega)]; omega
    have hsplit : inp = inp.take len.toNat ++ inp.drop len.toNat := (List.take_append_drop _ _).symm
    have hoff2 : off + len.toNat = off + (inp.take len.toNat).length := by rw [htl]
    have hlt : (len.toNat : Int) = len := Int.toNat_of_nonneg hlen0
    split
    · simp only [SafeR]
      refine ⟨fun hm => ?_, inp.take len.toNat, hsplit, hoff2⟩
      have := hl2'.2 hm
      push_cast; omega
    · apply SafeR.pre
      refine SafeR.shift (hrec level eoc [] limit2 _ pdc _ _ ?_ ?_) hsplit hoff2 ?_
      · by_cases hm : limit = -1
        · rw [hl2'.1 hm]; omega
        · have := hl2'.2 hm; omega
      · have := @List.length_drop _ len.toNat inp; omega
      · intro hm
        have := hl2'.2 hm
        refine ⟨by omega, by push_cast; omega⟩

theorem SafeR.cons {limit : Int} {inp : Bytes} {off : Nat} {r : R} (ch : Nat)
    (h : SafeR limit inp (off + 1) r) : SafeR limit (ch :: inp) off r := by
  cases r with
  | done p f i o' out =>
    simp only [SafeR] at h ⊢
    obtain ⟨h1, c, h2, h3⟩ := h
    exact ⟨h1, ch :: c, by rw [h2]; rfl, by rw [h3, List.length_cons]; omega⟩
  | failed e out => trivial
  | oob out => exact h
  | assertion out => exact h
  | nofuel => exact h

/-- one loop iteration that reads the octet `ch` (so `limit ≠ 0`), relative to the input after `ch` -/
theorem pd_cons_safe (fuel : Nat) (ih : RecSafe (pd fuel) fuel)
    (level : Nat) (eoc : Bool) (tagbuf : Bytes) (limit : Int) (esize : Nat) (pdc : Pdc) (ch : Nat) (inp1 : Bytes)
    (off : Nat) (hlim : -1 ≤ limit) (c0 : limit ≠ 0) (hf : inp1.length < fuel) :
    SafeR limit inp1 (off + 1) (pd (fuel + 1) level eoc tagbuf limit esize pdc (ch :: inp1) off) := by
  rw [pd]
  rw [if_neg c0]
  by_cases c1 : limit ≥ 0 ∧ (tagbuf.length : Int) ≥ limit
  · rw [if_pos c1]; trivial
  rw [if_neg c1]
  by_cases c2 : tagbuf.length ≥ 32
  · rw [if_pos c2]; trivial
  rw [if_neg c2]
  simp only []
  rw [if_neg c2]
  have hlen1 : (tagbuf ++ [ch]).length = tagbuf.length + 1 := by simp
  have hT := fetchTag_safe (tagbuf ++ [ch])
  rw [hlen1] at hT
  have hlim1 : limit = -1 ∨ (((tagbuf ++ [ch]).length : Nat) : Int) ≤ limit := by
    rw [hlen1]
    by_cases hm : limit = -1
    · left; exact hm
    · right
      have : ¬ ((tagbuf.length : Int) ≥ limit) := fun h => c1 ⟨by omega, h⟩
      push_cast; omega
  have hmore : SafeR limit inp1 (off + 1) (pd fuel level eoc (tagbuf ++ [ch]) limit esize pdc inp1 (off + 1)) :=
    ih level eoc _ limit esize pdc inp1 (off + 1) hlim hf
  cases hft : fetchTag (tagbuf ++ [ch]) (tagbuf.length + 1) with
  | fail => trivial
  | oob => exact absurd hft hT.1
  | more => exact hmore
  | ok tag tLen =>
    simp only []
    have htl := hT.2 tag tLen hft
    have h0 : (tagbuf ++ [ch])[0]? = some ((tagbuf ++ [ch])[0]'(by rw [hlen1]; omega)) :=
      List.getElem?_eq_getElem _
    rw [h0]
    simp only []
    generalize (tagbuf ++ [ch])[0]'(by rw [hlen1]; omega) = b0
    have hL := fetchLength_safe (b0 / 32 % 2 == 1) (List.drop tLen (tagbuf ++ [ch]))
    have hdl : (List.drop tLen (tagbuf ++ [ch])).length = tagbuf.length + 1 - tLen := by
      rw [List.length_drop, hlen1]
    rw [hdl] at hL
    cases hfl : fetchLength (b0 / 32 % 2 == 1) (List.drop tLen (tagbuf ++ [ch])) (tagbuf.length + 1 - tLen) with
    | fail => trivial
    | oob => exact absurd hfl hL.1
    | more => exact hmore
    | ok len lLen =>
      simp only []
      have hll := hL.2 len lLen hfl
      by_cases c3 : tLen + lLen ≠ tagbuf.length + 1
      · rw [if_pos c3]; trivial
      rw [if_neg c3]
      have hA : ∀ (isEoc : Bool), SafeR limit inp1 (off + 1)
          (afterTL (pd fuel) level eoc (tagbuf ++ [ch]) limit esize pdc inp1 (off + 1) tag len
            (b0 / 32 % 2 == 1) isEoc) := fun isEoc =>
        afterTL_safe (pd fuel) fuel ih level eoc (tagbuf ++ [ch]) limit esize pdc inp1 (off + 1)
          tag len _ isEoc hlim1 hll.2.2.1 hll.2.2.2 hf
      split
      · have h1 : (tagbuf ++ [ch])[1]? = some ((tagbuf ++ [ch])[1]'(by rw [hlen1]; omega)) :=
          List.getElem?_eq_getElem _
        rw [h1]
        exact hA _
      · exact hA _

/-- `process_deeper` on arbitrary input, with `fuel > length input` -/
theorem pd_safe : ∀ (fuel : Nat), RecSafe (pd fuel) fuel := by
  intro fuel
  induction fuel with
  | zero => intro _ _ _ _ _ _ inp _ _ h; omega
  | succ fuel ih =>
    intro level eoc tagbuf limit esize pdc inp off hlim hf
    have hdone0 : limit = 0 → SafeR limit inp off (.done .finished 0 inp off []) := by
      intro c0
      simp only [SafeR]
      exact ⟨fun _ => by omega, [], by simp, by simp⟩
    cases inp with
    | nil =>
      rw [pd]
      by_cases c0 : limit = 0
      · rw [if_pos c0]; exact hdone0 c0
      rw [if_neg c0]
      by_cases c1 : limit ≥ 0 ∧ (tagbuf.length : Int) ≥ limit
      · rw [if_pos c1]; trivial
      rw [if_neg c1]
      by_cases c2 : tagbuf.length ≥ 32
      · rw [if_pos c2]; trivial
      rw [if_neg c2]
      split
      · trivial
      · rename_i h
        simp only [SafeR]
        refine ⟨fun hm => ?_, [], by simp, by simp⟩
        exfalso
        simp only [not_or] at h
        omega
    | cons ch inp1 =>
      by_cases c0 : limit = 0
      · rw [pd, if_pos c0]; exact hdone0 c0
      · simp only [List.length_cons] at hf
        exact SafeR.cons ch (pd_cons_safe fuel ih level eoc tagbuf limit esize pdc ch inp1 off hlim c0 (by omega))

/-- the top-level loop: `unber -p` never reaches `oob`, `assertion`, `nofuel` -/
theorem stream_safe : ∀ (fuel : Nat) (inp : Bytes) (off : Nat), inp.length < fuel →
    (stream fuel inp off).1 = .ok ∨ ∃ e, (stream fuel inp off).1 = .failed e := by
  intro fuel
  induction fuel with
  | zero => intro inp _ h; omega
  | succ fuel ih =>
    intro inp off hf
    cases inp with
    | nil => simp [stream, pd]
    | cons ch inp1 =>
      simp only [List.length_cons] at hf
      have hs := pd_cons_safe (inp1.length + 1) (pd_safe _) 0 false [] (-1) 0 .finished ch inp1 off (by omega)
        (by omega) (by omega)
      rw [stream]
      simp only [List.length_cons]
      cases hr : pd (inp1.length + 1 + 1) 0 false [] (-1) 0 .finished (ch :: inp1) off with
      | done p fr inp2 off2 out =>
        rw [hr] at hs
        simp only [SafeR] at hs
        obtain ⟨_, c, hc, _⟩ := hs
        cases p with
        | finished =>
          simp only []
          have : inp2.length < fuel := by
            have := congrArg List.length hc
            simp only [List.length_append] at this; omega
          exact ih inp2 off2 this
        | eof => simp
      | failed e out => simp
      | oob out => rw [hr] at hs; exact hs.elim
      | assertion out => rw [hr] at hs; exact hs.elim
      | nofuel => rw [hr] at hs; exact hs.elim

/-- `unber -p` on arbitrary bytes terminates (the fuel is never exhausted), never indexes
    `tagbuf` out of bounds and never trips an `assert()`: it either succeeds or stops with one
    of the nine diagnostics (the ninth: the nesting limit). -/
theorem unber_total (inp : Bytes) :
    (unber inp).1 = .ok ∨ ∃ e, (unber inp).1 = .failed e := by
  have := stream_safe (inp.length + 1) inp 0 (by omega)
  simpa [unber, unberOuts] using this

end Asn1c.Proofs.UnberSafe
