import Asn1cModel.Proofs.CRange
import Asn1cModel.Spec.Constraint
import Asn1cModel.Impl.ConsParse
import Mathlib.Tactic.Set
/-
  C09 helper lemmas, second part: `asn1constraint_compute_constraint_range` (Impl.CRange.compute)
  on the trees the parser builds (Impl.ConsParse) computes the canonical form of the set that
  Spec.Constraint assigns to the expression.
-/
namespace Asn1c.Impl.CRange
open Asn1c.Spec.Constraint Asn1c.Impl.ConsParse

open Asn1c.Spec.Constraint Asn1c.Impl.ConsParse

theorem mmEff_idem (p : Params) (mm0 : Option Range) : mmEff p (mmEff p mm0) = mmEff p mm0 := by
  unfold mmEff; cases p.req <;> cases mm0 <;> rfl

/-- the `switch(ct->type)` of `asn1constraint_compute_constraint_range` -/
def body (p : Params) (ct : CT) (mm : Option Range) (range : Range) (ex : Bool) : Res × Bool :=
  match ct with
  | .value v => leaf p v v mm range ex
  | .range lo hi => leaf p lo hi mm range ex
  | .ext => if !ex then (.ok { range with ext := true, notOER := true }, ex) else (.erange, ex)
  | .size c =>
    if p.req == .size then
      match compute p c mm true with
      | (.ok t, ex') => (.ok t, ex')
      | (.erange, ex') => (.ok { range with empty := true, ext := true, notOER := true }, ex')
      | (e, ex') => (e, ex')
    else (.ok { range with incompat := true }, ex)
  | .set l => andLoop p true l range mm ex
  | .int l => andLoop p false l range mm ex
  | .csv l => orFirst p true l range mm ex
  | .uni l => orFirst p false l range mm ex
  | .exc l =>
    match l with
    | [] => (.abort, ex)
    | c :: _ => compute p c mm ex

/-- with a compatible request, a known-multiplier (or non-string) type and a parent range without
    visibility flags, the function goes straight to its `switch` -/
theorem compute_eq_body {p : Params} (hc : p.compat = true) (hn : p.nkm = false) (ct : CT)
    (mm0 : Option Range) (ex : Bool) (hcl : (rangeOf (mmEff p mm0)).Clean) :
    compute p ct mm0 ex = body p ct (mmEff p mm0) (rangeOf (mmEff p mm0)) ex := by
  obtain ⟨_, h2, h3⟩ := hcl
  rw [compute.eq_def]
  have e1 : (!p.compat) = false := by simp [hc]
  rw [if_neg (by simp [e1])]
  dsimp only
  simp only [hn, Bool.false_eq_true, if_false, Bool.and_false]
  rw [if_neg (by simp [h3]), if_neg (by simp [h2])]
  cases ct <;> rfl



theorem Repr.congr {r : Range} {S S' : Int → Bool} (h : Repr r S) (e : ∀ y, S y = S' y) : Repr r S' :=
  ⟨h.good, h.canon, fun y => by rw [h.den y, e y], h.ends, h.shape, h.empty, h.incompat⟩

theorem Repr.lower {m : Range} {P : Int → Bool} (h : Repr m P) {y : Int} (hy : P y = true) :
    Edge.leInt m.left y = true := by
  obtain ⟨hd, t, e1, e2, _⟩ := h.ends
  have hg := h.good; have hc := h.canon; have hden := h.den y
  rw [e1] at hg hc hden
  rw [e2]; exact canon_lower hg hc (by rw [hden, hy])

theorem Repr.upper {m : Range} {P : Int → Bool} (h : Repr m P) {y : Int} (hy : P y = true) :
    Edge.geInt m.right y = true := by
  obtain ⟨hd, t, e1, _, e3⟩ := h.ends
  have hg := h.good; have hc := h.canon; have hden := h.den y
  rw [e1] at hg hc hden
  rw [e3]; exact canon_upper t hd hg hc y (by rw [hden, hy])

theorem Repr.left_bnd {m : Range} {P : Int → Bool} (h : Repr m P) :
    ∀ v, m.left = .val v → ASN_INTEGER_MIN < v ∧ v ≤ ASN_INTEGER_MAX := by
  obtain ⟨hd, t, e1, e2, _⟩ := h.ends
  have := (h.good hd (by rw [e1]; simp)).2.1
  rw [e2]; exact this

theorem Repr.right_bnd {m : Range} {P : Int → Bool} (h : Repr m P) :
    ∀ v, m.right = .val v → ASN_INTEGER_MIN ≤ v ∧ v < ASN_INTEGER_MAX := by
  obtain ⟨hd, t, e1, _, e3⟩ := h.ends
  have := (h.good ((hd :: t).getLast (by simp)) (by rw [e1]; exact List.getLast_mem _)).2.2
  rw [e3]; exact this

/-- a single well-formed leaf kept in `left`/`right` -/
theorem repr_single {r : Range} (he : r.els = []) (hw : (⟨r.left, r.right⟩ : Iv).wf) (hb : (⟨r.left, r.right⟩ : Iv).bnd)
    (hem : r.empty = false) (hi : r.incompat = false) : Repr r (Iv.mem ⟨r.left, r.right⟩) := by
  have hl := leaves_of_els_nil he
  refine ⟨?_, ?_, ?_, ⟨⟨r.left, r.right⟩, [], hl, rfl, rfl⟩, by simp [he], hem, hi⟩
  · rw [hl]; intro p hp; simp at hp; subst hp; exact ⟨hw, hb⟩
  · rw [hl]; trivial
  · intro y; rw [hl]; simp

/-- `MIN`, `MAX` or a literal strictly inside the range of `asn1c_integer_t` (the compiler's own limit) -/
def EndOK : End → Prop
  | .val v => ASN_INTEGER_MIN < v ∧ v < ASN_INTEGER_MAX
  | _ => True

def Hard (r : Res) : Prop := r = .eperm ∨ r = .abort ∨ r = .fuel

theorem hard_ofIErr (e : IErr) : Hard (Res.ofIErr e) := by
  cases e <;> simp [Hard, Res.ofIErr]

/-- the parent context of a call: the range the function clones represents `P`, flags clear -/
structure MM (p : Params) (mm0 : Option Range) (P : ISet) : Prop where
  repr : Repr (rangeOf (mmEff p mm0)) P
  clean : (rangeOf (mmEff p mm0)).Clean
  univ : mmEff p mm0 = none → ∀ y, P y = true

theorem MM.eff {p : Params} {mm0 : Option Range} {P : ISet} (h : MM p mm0 P) : MM p (mmEff p mm0) P := by
  constructor
  · rw [mmEff_idem]; exact h.repr
  · rw [mmEff_idem]; exact h.clean
  · rw [mmEff_idem]; exact h.univ

theorem below_eq (e : End) (y : Int) : e.below y = Edge.leInt (match e with | .min => .min | .max => .max | .val z => .val z) y := by
  cases e <;> rfl
theorem above_eq (e : End) (y : Int) : e.above y = Edge.geInt (match e with | .min => .min | .max => .max | .val z => .val z) y := by
  cases e <;> rfl

/-- the strict edge check and the asserts of `_range_overlap` passed -/
theorem intersection_strict_ok {range wth r : Range} {isOer : Bool}
    (he : range.empty = false) (hwe : wth.empty = false)
    (h : intersection range wth true isOer = .ok r) :
    wth.leaves.all (edgesWithin range.leaves) = true ∧ wth.leaves.all Iv.ordered = true := by
  unfold intersection at h
  split_ifs at h with h1 h2
  have hl : (interFlags range wth isOer).leaves = range.leaves := by
    unfold interFlags; split <;> rfl
  have hfe : (interFlags range wth isOer).empty = false := by
    unfold interFlags; split <;> simp [he]
  unfold interCore at h
  simp only [hfe, hwe, Bool.or_self, Bool.false_eq_true, if_false] at h
  have hl' : ({ interFlags range wth isOer with empty := false } : Range).leaves = range.leaves := hl
  rw [hl'] at h
  split_ifs at h with h3 h4
  simp only [Bool.true_and, Bool.not_eq_eq_eq_not, Bool.not_true] at h3 h4
  constructor
  · cases hx : wth.leaves.all (edgesWithin range.leaves) with
    | true => rfl
    | false => simp [hx] at h3
  · cases hx : wth.leaves.all Iv.ordered with
    | true => rfl
    | false => simp [hx] at h4

/-- `ACT_EL_VALUE` / `ACT_EL_RANGE` as the grammar writes them (lower end: value or MIN, upper end: value or
    MAX): the function fails (an end point outside the parent: EPERM, lower > upper: EPERM / assert) or
    returns the canonical form of the — then non-empty — set `lo..hi ∩ P`. -/
theorem leaf_spec {p : Params} {mm : Option Range} {P : ISet} (range : Range) (lo hi : End)
    (hmm : mmEff p mm = mm) (hM : MM p mm P)
    (hlo : lo ≠ .max) (hhi : hi ≠ .min) (hl : EndOK lo) (hh : EndOK hi) :
    ∃ res, leaf p (endV lo) (endV hi) mm range true = (res, true) ∧
      (Hard res ∨ ∃ r, res = .ok r ∧ Repr r (fun y => lo.below y && hi.above y && P y) ∧ r.Clean) := by
  have hrepr := hM.repr; have hclean := hM.clean
  rw [hmm] at hrepr hclean
  unfold leaf
  simp only [Bool.not_true, Bool.false_eq_true, if_false]
  -- the "Empty range" diagnostic
  split_ifs with hrev
  · exact ⟨_, rfl, Or.inl (Or.inl rfl)⟩
  have hord : ∀ a b, lo = .val a → hi = .val b → a ≤ b := by
    intro a b e1 e2; subst e1; subst e2
    simp [endV] at hrev; exact hrev
  cases mm with
  | none =>
    have huniv := hM.univ hmm
    refine ⟨_, rfl, Or.inr ⟨_, rfl, ?_⟩⟩
    set r0 : Range := { Range.new with left := fillEdge (endV lo) none, right := fillEdge (endV hi) none } with hr0
    have hmem : ∀ y, (⟨r0.left, r0.right⟩ : Iv).mem y = (lo.below y && hi.above y) := by
      intro y; cases lo <;> cases hi <;> simp [hr0, Iv.mem, fillEdge, endV, End.below, End.above]
    have hwf : (⟨r0.left, r0.right⟩ : Iv).wf := by
      cases lo with
      | max => exact absurd rfl hlo
      | min =>
        cases hi with
        | min => exact absurd rfl hhi
        | max => simp [hr0, Iv.wf, fillEdge, endV]
        | val b => simp [hr0, Iv.wf, fillEdge, endV]
      | val a =>
        cases hi with
        | min => exact absurd rfl hhi
        | max => simp [hr0, Iv.wf, fillEdge, endV]
        | val b => have := hord a b rfl rfl; simp [hr0, Iv.wf, fillEdge, endV, this]
    have hbnd : (⟨r0.left, r0.right⟩ : Iv).bnd := by
      cases lo <;> cases hi <;> simp_all [Iv.bnd, fillEdge, endV, EndOK] <;> omega
    have hcan : canonicalize r0 = r0 := by
      unfold canonicalize
      have : r0.els.isEmpty = true := rfl
      simp only [this, if_true]
      rw [if_neg]; have : edgeCmp r0.left r0.right ≤ 0 := hwf.2.2; omega
    rw [hcan]
    refine ⟨(repr_single rfl hwf hbnd rfl rfl).congr (fun y => ?_), rfl, rfl, rfl⟩
    rw [hmem y, huniv y]; simp
  | some m =>
    simp only [rangeOf] at hrepr hclean
    set r0 : Range := { Range.new with left := fillEdge (endV lo) (some m), right := fillEdge (endV hi) (some m) } with hr0
    have hmem : ∀ y, P y = true → (⟨r0.left, r0.right⟩ : Iv).mem y = (lo.below y && hi.above y) := by
      intro y hy
      have h1 := hrepr.lower hy; have h2 := hrepr.upper hy
      cases lo <;> cases hi <;> simp_all [Iv.mem, fillEdge, endV, End.below, End.above]
    cases hi' : intersection m r0 true p.strictOER with
    | error e => exact ⟨_, by simp only [hi'], Or.inl (hard_ofIErr e)⟩
    | ok c =>
      -- the strict edge check passed: an end point of the leaf lies in the parent set
      obtain ⟨hin, hor⟩ := intersection_strict_ok hrepr.empty rfl hi'
      have hl0 : r0.leaves = [⟨r0.left, r0.right⟩] := leaves_of_els_nil rfl
      rw [hl0] at hin hor
      simp only [List.all_cons, List.all_nil, Bool.and_true] at hin hor
      have hwithin : ∀ v, edgeWithin m.leaves (.val v) = true → P v = true := by
        intro v hv
        rw [← hrepr.den v]
        obtain ⟨i, hi1, hi2⟩ := List.any_eq_true.mp hv
        refine den_eq_true.mpr ⟨i, hi1, ?_⟩
        obtain ⟨il, ih⟩ := i
        cases il <;> cases ih <;> simp_all [Iv.mem]
      obtain ⟨yP, hyP⟩ := hrepr.nonempty
      have hml : m.left ≠ .max := by
        obtain ⟨hd, t, e1, e2, _⟩ := hrepr.ends
        rw [e2]; exact (hrepr.good hd (by rw [e1]; simp)).1.1
      have hmr : m.right ≠ .min := by
        obtain ⟨hd, t, e1, _, e3⟩ := hrepr.ends
        rw [e3]; exact (hrepr.good ((hd :: t).getLast (by simp)) (by rw [e1]; exact List.getLast_mem _)).1.2.1
      have hne : ∃ y0, P y0 = true ∧ lo.below y0 = true ∧ hi.above y0 = true := by
        simp only [edgesWithin, Bool.and_eq_true] at hin
        obtain ⟨hw1, hw2⟩ := hin
        simp only [Iv.ordered, decide_eq_true_eq] at hor
        cases hlo' : lo with
        | max => exact absurd hlo' hlo
        | min =>
          cases hhi' : hi with
          | min => exact absurd hhi' hhi
          | max => exact ⟨yP, hyP, rfl, rfl⟩
          | val b =>
            have : r0.right = .val b := by simp [hr0, fillEdge, endV, hhi']
            rw [this] at hw2
            exact ⟨b, hwithin b hw2, rfl, by simp [End.above]⟩
        | val a =>
          have ha : r0.left = .val a := by simp [hr0, fillEdge, endV, hlo']
          rw [ha] at hw1
          cases hhi' : hi with
          | min => exact absurd hhi' hhi
          | max => exact ⟨a, hwithin a hw1, by simp [End.below], rfl⟩
          | val b =>
            have := hord a b hlo' hhi'
            exact ⟨a, hwithin a hw1, by simp [End.below], by simp [End.above, this]⟩
      obtain ⟨y0, hy3, hy1, hy2⟩ := hne
      have hwf : (⟨r0.left, r0.right⟩ : Iv).wf := Iv.mem_wf (x := y0) (by rw [hmem y0 hy3]; simp [hy1, hy2])
      have hbnd : (⟨r0.left, r0.right⟩ : Iv).bnd := by
        have b1 := hrepr.left_bnd; have b2 := hrepr.right_bnd
        constructor
        · intro v hv
          cases lo <;> simp_all [fillEdge, endV, EndOK] <;> omega
        · intro v hv
          cases hi <;> simp_all [fillEdge, endV, EndOK] <;> omega
      have hB : Repr r0 (Iv.mem ⟨r0.left, r0.right⟩) := repr_single rfl hwf hbnd rfl rfl
      refine ⟨.ok (canonicalize c), by simp only [hi'], Or.inr ⟨_, rfl, ?_⟩⟩
      obtain ⟨q1, q2, q3, q4⟩ := inter_canon hrepr hB ⟨y0, hy3, by rw [hmem y0 hy3]; simp [hy1, hy2]⟩ hi'
      refine ⟨q1.congr (fun y => ?_), ?_, ?_, ?_⟩
      · cases hy : P y with
        | true => simp [hmem y hy]
        | false => simp
      · rw [q2, hclean.1]; rfl
      · rw [q4, hclean.2.1]; rfl
      · rw [q3, hclean.2.2]; simp [hr0, Range.new]



/-- element trees covered by the theorems: values, ranges, `|`, `^`, `EXCEPT`, parentheses -/
def IsElem : Cons → Prop
  | .single _ => True
  | .range _ _ => True
  | .union a b => IsElem a ∧ IsElem b
  | .inter a b => IsElem a ∧ IsElem b
  | .except a b => IsElem a ∧ IsElem b
  | .paren a => IsElem a
  | _ => False

/-- value ranges as the X.680 grammar writes them: `LowerEndValue ::= Value | MIN`,
    `UpperEndValue ::= Value | MAX` (asn1p_y.y has the same two rules) -/
def Written : Cons → Prop
  | .single _ => True
  | .range lo hi => lo ≠ .max ∧ hi ≠ .min
  | .union a b => Written a ∧ Written b
  | .inter a b => Written a ∧ Written b
  | .except a _ => Written a
  | .paren a => Written a
  | .size a => Written a
  | .ext r => Written r
  | .exta r a => Written r ∧ Written a
  | .serial a b => Written a ∧ Written b
  | .refine a b => Written a ∧ Written b

/-- every literal that the compiler looks at lies strictly inside the range of `asn1c_integer_t` -/
def LitsOK : Cons → Prop
  | .single v => ASN_INTEGER_MIN < v ∧ v < ASN_INTEGER_MAX
  | .range lo hi => EndOK lo ∧ EndOK hi
  | .union a b => LitsOK a ∧ LitsOK b
  | .inter a b => LitsOK a ∧ LitsOK b
  | .except a _ => LitsOK a
  | .paren a => LitsOK a
  | .size a => LitsOK a
  | .ext r => LitsOK r
  | .exta r a => LitsOK r ∧ LitsOK a
  | .serial a b => LitsOK a ∧ LitsOK b
  | .refine a b => LitsOK a ∧ LitsOK b

theorem visible_sub : ∀ (e : Cons) (P : ISet) (y : Int), visible P e y = true → P y = true := by
  intro e
  induction e with
  | single v => intro P y h; simp [visible] at h; exact h.2
  | range lo hi => intro P y h; simp [visible] at h; exact h.2
  | union a b iha ihb =>
    intro P y h; simp [visible] at h
    rcases h with h | h
    · exact iha P y h
    · exact ihb P y h
  | inter a b iha _ => intro P y h; simp [visible] at h; exact iha P y h.1
  | except a b iha _ => intro P y h; exact iha P y h
  | paren a iha => intro P y h; exact iha P y h
  | size a iha => intro P y h; exact iha P y h
  | ext r ih => intro P y h; exact ih P y h
  | exta r a ih _ => intro P y h; exact ih P y h
  | serial a b iha ihb => intro P y h; exact iha P y (ihb _ y h)
  | refine a b iha ihb => intro P y h; exact iha P y (ihb _ y h)



/-! ### stepping the loops of the CA_SET/CA_INT and CA_CSV/CA_UNI cases -/

theorem hard_ne_ok {res : Res} (h : Hard res) : ∀ r, res ≠ .ok r := by
  intro r e; subst e; rcases h with h | h | h <;> cases h
theorem hard_ne_erange {res : Res} (h : Hard res) : res ≠ .erange := by
  intro e; subst e; rcases h with h | h | h <;> cases h

theorem andLoop_nil (p : Params) (s : Bool) (range : Range) (mm : Option Range) (ex : Bool) :
    andLoop p s [] range mm ex = (.ok range, ex) := by rw [andLoop]

theorem andLoop_cons_hard {p : Params} {s : Bool} {c : CT} {rest : List CT} {range : Range} {mm : Option Range}
    {ex ex' : Bool} {res : Res} (h : compute p c (if s then some range else mm) ex = (res, ex')) (hh : Hard res) :
    andLoop p s (c :: rest) range mm ex = (res, ex') := by
  rw [andLoop, h]
  rcases hh with rfl | rfl | rfl <;> rfl

theorem andLoop_cons_ok {p : Params} {s : Bool} {c : CT} {rest : List CT} {range : Range} {mm : Option Range}
    {ex ex' : Bool} {tmp : Range} (h : compute p c (if s then some range else mm) ex = (.ok tmp, ex'))
    (hi : tmp.incompat = false) (hcl : tmp.Clean) :
    andLoop p s (c :: rest) range mm ex =
      match intersection range tmp s p.strictOER with
      | .error e => (Res.ofIErr e, ex')
      | .ok r => andLoop p s rest (canonicalize r) mm ex' := by
  rw [andLoop, h]
  simp only [hi, hcl.2.1, hcl.2.2, Bool.false_and, Bool.false_eq_true, if_false]
  rfl

theorem andLoop_int_hard {p : Params} {c : CT} {rest : List CT} {range : Range} {mm : Option Range}
    {ex ex' : Bool} {res : Res} (h : compute p c mm ex = (res, ex')) (hh : Hard res) :
    andLoop p false (c :: rest) range mm ex = (res, ex') :=
  andLoop_cons_hard (s := false) (by simpa using h) hh

theorem andLoop_set_hard {p : Params} {c : CT} {rest : List CT} {range : Range} {mm : Option Range}
    {ex ex' : Bool} {res : Res} (h : compute p c (some range) ex = (res, ex')) (hh : Hard res) :
    andLoop p true (c :: rest) range mm ex = (res, ex') :=
  andLoop_cons_hard (s := true) (by simpa using h) hh

theorem andLoop_int_ok {p : Params} {c : CT} {rest : List CT} {range : Range} {mm : Option Range}
    {ex ex' : Bool} {tmp : Range} (h : compute p c mm ex = (.ok tmp, ex'))
    (hi : tmp.incompat = false) (hcl : tmp.Clean) :
    andLoop p false (c :: rest) range mm ex =
      match intersection range tmp false p.strictOER with
      | .error e => (Res.ofIErr e, ex')
      | .ok r => andLoop p false rest (canonicalize r) mm ex' :=
  andLoop_cons_ok (s := false) (by simpa using h) hi hcl

theorem andLoop_set_ok {p : Params} {c : CT} {rest : List CT} {range : Range} {mm : Option Range}
    {ex ex' : Bool} {tmp : Range} (h : compute p c (some range) ex = (.ok tmp, ex'))
    (hi : tmp.incompat = false) (hcl : tmp.Clean) :
    andLoop p true (c :: rest) range mm ex =
      match intersection range tmp true p.strictOER with
      | .error e => (Res.ofIErr e, ex')
      | .ok r => andLoop p true rest (canonicalize r) mm ex' :=
  andLoop_cons_ok (s := true) (by simpa using h) hi hcl

theorem orStep_hard {range : Range} {res : Res} {ex' : Bool} (hh : Hard res) :
    orStep range (res, ex') = .inl (res, ex') := by
  rcases hh with rfl | rfl | rfl <;> rfl

theorem orStep_erange (range : Range) (ex' : Bool) :
    orStep range (.erange, ex') = .inr ({ range with ext := true, notOER := true }, ex') := rfl

theorem cutAtMarker_ok (p : Params) (csv : Bool) (t : Range) : cutAtMarker p csv (.ok t) = false := rfl
theorem cutAtMarker_uni (p : Params) (res : Res) : cutAtMarker p false res = false := by
  cases res <;> rfl

theorem orFirst_cons_hard {p : Params} {csv : Bool} {c : CT} {rest : List CT} {range : Range} {mm : Option Range}
    {ex ex' : Bool} {res : Res} (h : compute p c mm ex = (res, ex')) (hh : Hard res) :
    orFirst p csv (c :: rest) range mm ex = (res, ex') := by
  rw [orFirst, h]
  rcases hh with rfl | rfl | rfl <;> rfl

/-- the first loop grabbed `tmp`; the second loop starts with the same element -/
theorem orFirst_cons_ok {p : Params} {csv : Bool} {c : CT} {rest : List CT} {range : Range} {mm : Option Range}
    {ex : Bool} {tmp : Range} (h : compute p c mm ex = (.ok tmp, true)) (h' : compute p c mm true = (.ok tmp, true))
    (hi : tmp.incompat = false) :
    orFirst p csv (c :: rest) range mm ex =
      match orStep { tmp with ext := tmp.ext || range.ext, notOER := tmp.notOER || range.notOER,
                              empty := tmp.empty || range.empty } (.ok tmp, true) with
      | .inl out => out
      | .inr (r', ex'') => orRest p csv rest r' mm ex'' := by
  rw [orFirst, h]
  simp only [hi, Bool.false_eq_true, if_false, h', cutAtMarker_ok]
  rfl

theorem orRest_nil (p : Params) (csv : Bool) (range : Range) (mm : Option Range) (ex : Bool) :
    orRest p csv [] range mm ex = orFinish p range mm ex := by rw [orRest]

theorem orRest_cons_ok {p : Params} {csv : Bool} {c : CT} {rest : List CT} {range : Range} {mm : Option Range}
    {ex ex' : Bool} {tmp : Range} (h : compute p c mm ex = (.ok tmp, ex')) :
    orRest p csv (c :: rest) range mm ex =
      match orStep range (.ok tmp, ex') with
      | .inl out => out
      | .inr (r', ex'') => orRest p csv rest r' mm ex'' := by
  rw [orRest, h]
  simp only [cutAtMarker_ok, Bool.false_eq_true, if_false]
  rfl

theorem orRest_cons_hard {p : Params} {csv : Bool} {c : CT} {rest : List CT} {range : Range} {mm : Option Range}
    {ex ex' : Bool} {res : Res} (h : compute p c mm ex = (res, ex')) (hh : Hard res) :
    orRest p csv (c :: rest) range mm ex = (res, ex') := by
  rw [orRest, h]
  simp only [orStep_hard hh]

/-- the extension marker in the second loop: the additions that follow are dropped when the
    `break` of the repaired code fires, merged otherwise -/
theorem orRest_cons_marker {p : Params} {csv : Bool} {c : CT} {rest : List CT} {range : Range} {mm : Option Range}
    {ex ex' : Bool} (h : compute p c mm ex = (.erange, ex')) :
    orRest p csv (c :: rest) range mm ex =
      if csv && (p.rootOnly || p.strictPER) then orFinish p { range with ext := true, notOER := true } mm ex'
      else orRest p csv rest { range with ext := true, notOER := true } mm ex' := by
  rw [orRest, h]
  simp only [orStep_erange, cutAtMarker]
  by_cases h' : (csv && (p.rootOnly || p.strictPER)) = true <;> simp [h']

theorem orFinish_clean {p : Params} {range : Range} {mm : Option Range} {ex : Bool}
    (h : (canonicalize range).notPER = false) : orFinish p range mm ex = (.ok (canonicalize range), ex) := by
  simp [orFinish, h]



theorem els_sub_leaves (r : Range) : ∀ p ∈ r.els, p ∈ r.leaves := by
  intro p hp
  have : r.els ≠ [] := by intro h; rw [h] at hp; cases hp
  rw [leaves_of_els_ne this]; exact hp

theorem leaves_ne_nil (r : Range) : r.leaves ≠ [] := by
  unfold Range.leaves; split
  · simp
  · rename_i h; intro h'; rw [h'] at h; simp at h

/-! ### the accumulator of the CSV/UNI loops -/

/-- the accumulated `range` of the second loop: its elements denote `S` (nothing was merged in yet
    ⇒ flagged empty, the elements are stale) -/
def Acc (R : Range) (S : Int → Bool) : Prop :=
  R.incompat = false ∧
  ((R.empty = false ∧ R.els ≠ [] ∧ Good R.els ∧ ∀ y, den R.els y = S y) ∨ (R.empty = true ∧ ∀ y, S y = false))

theorem Acc.congr {R : Range} {S S' : Int → Bool} (h : Acc R S) (e : ∀ y, S y = S' y) : Acc R S' := by
  refine ⟨h.1, ?_⟩
  rcases h.2 with ⟨a, b, c, d⟩ | ⟨a, b⟩
  · exact Or.inl ⟨a, b, c, fun y => by rw [d y, e y]⟩
  · exact Or.inr ⟨a, fun y => by rw [← e y, b y]⟩

/-- flags do not matter for `Acc` -/
theorem Acc.flags {R : Range} {S : Int → Bool} (h : Acc R S) (e o q : Bool) :
    Acc { R with ext := e, notOER := o, notPER := q } S := h

theorem den_els_leaves {ta : Range} {Sa : Int → Bool} (ha : Repr ta Sa) (y : Int) :
    den (ta.els ++ ta.leaves) y = Sa y := by
  rw [den_append, ha.den y]
  have : den ta.els y = true → Sa y = true := by
    intro h
    obtain ⟨i, hi, hy⟩ := den_eq_true.mp h
    rw [← ha.den y]; exact den_eq_true.mpr ⟨i, els_sub_leaves ta i hi, hy⟩
  cases h1 : den ta.els y <;> cases h2 : Sa y <;> simp_all

/-- the first operand: grabbed by the first loop, merged into itself by the second -/
theorem acc_start {ta range : Range} {Sa : Int → Bool} (ha : ReprE ta Sa) (hre : range.empty = false) (ex : Bool) :
    ∃ R, orStep { ta with ext := ta.ext || range.ext, notOER := ta.notOER || range.notOER,
                          empty := ta.empty || range.empty } (.ok ta, ex) = .inr (R, ex) ∧ Acc R Sa ∧
      (ta.Clean → range.Clean → R.Clean) := by
  rcases ha with ha | ha
  · refine ⟨mergeIn { ta with ext := ta.ext || range.ext, notOER := ta.notOER || range.notOER,
                                empty := ta.empty || range.empty } ta,
      by simp [orStep, ha.incompat, ha.empty, hre], ⟨ha.incompat, Or.inl ⟨?_, ?_, ?_, ?_⟩⟩, ?_⟩
    · show (ta.empty || range.empty) = false
      rw [ha.empty, hre]; rfl
    · show ta.els ++ ta.leaves ≠ []
      intro h; have := leaves_ne_nil ta; simp at h; exact this h.2
    · show Good (ta.els ++ ta.leaves)
      intro p hp
      rcases List.mem_append.mp hp with hp | hp
      · exact ha.good p (els_sub_leaves ta p hp)
      · exact ha.good p hp
    · exact fun y => den_els_leaves ha y
    · intro ca cr
      refine ⟨?_, ?_, ?_⟩
      · show (ta.ext || range.ext || ta.ext) = false
        rw [ca.1, cr.1]; rfl
      · show (ta.notOER || range.notOER || ta.notOER || (ta.ext || range.ext || ta.ext)) = false
        rw [ca.1, cr.1, ca.2.1, cr.2.1]; rfl
      · show (ta.notPER || ta.notPER) = false
        rw [ca.2.2]; rfl
  · refine ⟨{ ta with ext := ta.ext || range.ext || ta.ext, notOER := ta.notOER || range.notOER || ta.notOER,
                      empty := ta.empty || range.empty },
      by simp [orStep, ha.2.2, ha.2.1], ⟨ha.2.2, Or.inr ⟨?_, ha.1⟩⟩, ?_⟩
    · show (ta.empty || range.empty) = true
      rw [ha.2.1]; rfl
    · intro ca cr
      refine ⟨?_, ?_, ?_⟩
      · show (ta.ext || range.ext || ta.ext) = false
        rw [ca.1, cr.1]; rfl
      · show (ta.notOER || range.notOER || ta.notOER) = false
        rw [ca.2.1, cr.2.1]; rfl
      · exact ca.2.2

/-- a further operand of the union -/
theorem acc_step {R tb : Range} {S Sb : Int → Bool} (hR : Acc R S) (hb : ReprE tb Sb) (ex : Bool) :
    ∃ R', orStep R (.ok tb, ex) = .inr (R', ex) ∧ Acc R' (fun y => S y || Sb y) ∧
      (tb.Clean → R.Clean → R'.Clean) ∧
      (R.ext = true → R.notOER = true → R'.ext = true ∧ R'.notOER = true) ∧
      (tb.notPER = false → R'.notPER = R.notPER) := by
  rcases hb with hb | hb
  · -- a non-empty operand
    rcases hR.2 with ⟨r1, r2, r3, r4⟩ | ⟨r1, r2⟩
    · refine ⟨mergeIn R tb, by simp [orStep, hb.incompat, hb.empty, r1], ⟨hR.1, Or.inl ⟨r1, ?_, ?_, ?_⟩⟩, ?_, ?_, ?_⟩
      · show R.els ++ tb.leaves ≠ []
        intro h; have := leaves_ne_nil tb; simp at h; exact this h.2
      · exact Good.append r3 hb.good
      · intro y; show den (R.els ++ tb.leaves) y = _
        rw [den_append, r4 y, hb.den y]
      · intro cb cr
        refine ⟨?_, ?_, ?_⟩
        · show (R.ext || tb.ext) = false
          rw [cr.1, cb.1]; rfl
        · show (R.notOER || tb.notOER || (R.ext || tb.ext)) = false
          rw [cr.1, cb.1, cr.2.1, cb.2.1]; rfl
        · show (R.notPER || tb.notPER) = false
          rw [cr.2.2, cb.2.2]; rfl
      · intro e1 e2
        exact ⟨by show (R.ext || tb.ext) = true; rw [e1]; rfl,
               by show (R.notOER || tb.notOER || (R.ext || tb.ext)) = true; rw [e2]; rfl⟩
      · intro e; show (R.notPER || tb.notPER) = R.notPER
        rw [e]; simp
    · refine ⟨mergeIn { R with els := [], empty := false } tb, by simp [orStep, hb.incompat, hb.empty, r1],
        ⟨hR.1, Or.inl ⟨rfl, ?_, ?_, ?_⟩⟩, ?_, ?_, ?_⟩
      · show [] ++ tb.leaves ≠ []
        simpa using leaves_ne_nil tb
      · show Good ([] ++ tb.leaves)
        simpa using hb.good
      · intro y; show den ([] ++ tb.leaves) y = _
        rw [List.nil_append, hb.den y]; show Sb y = (S y || Sb y); rw [r2 y]; rfl
      · intro cb cr
        refine ⟨?_, ?_, ?_⟩
        · show (R.ext || tb.ext) = false
          rw [cr.1, cb.1]; rfl
        · show (R.notOER || tb.notOER || (R.ext || tb.ext)) = false
          rw [cr.1, cb.1, cr.2.1, cb.2.1]; rfl
        · show (R.notPER || tb.notPER) = false
          rw [cr.2.2, cb.2.2]; rfl
      · intro e1 e2
        exact ⟨by show (R.ext || tb.ext) = true; rw [e1]; rfl,
               by show (R.notOER || tb.notOER || (R.ext || tb.ext)) = true; rw [e2]; rfl⟩
      · intro e; show (R.notPER || tb.notPER) = R.notPER
        rw [e]; simp
  · -- "Ignore empty constraints in OR logic"
    refine ⟨{ R with ext := R.ext || tb.ext, notOER := R.notOER || tb.notOER },
      by simp [orStep, hb.2.2, hb.2.1], ?_, ?_, ?_, ?_⟩
    · exact (Acc.flags hR _ _ _).congr (fun y => by rw [hb.1 y]; simp)
    · intro cb cr
      refine ⟨?_, ?_, cr.2.2⟩
      · show (R.ext || tb.ext) = false
        rw [cr.1, cb.1]; rfl
      · show (R.notOER || tb.notOER) = false
        rw [cr.2.1, cb.2.1]; rfl
    · intro e1 e2
      exact ⟨by show (R.ext || tb.ext) = true; rw [e1]; rfl, by show (R.notOER || tb.notOER) = true; rw [e2]; rfl⟩
    · intro _; rfl

/-- the final `_range_canonicalize` of the CSV/UNI case -/
theorem acc_finish {R : Range} {S : Int → Bool} (hR : Acc R S) : ReprE (canonicalize R) S := by
  obtain ⟨f1, _, f3, _, _⟩ := canonicalize_flags R
  rcases hR.2 with ⟨r1, r2, r3, r4⟩ | ⟨r1, r2⟩
  · exact Or.inl (repr_of_canonicalize r2 r3 r4 r1 hR.1)
  · exact Or.inr ⟨r2, by rw [f1, r1], by rw [f3, hR.1]⟩

theorem orFinish_acc {p : Params} {R : Range} {mm : Option Range} {ex : Bool} (h : R.notPER = false) :
    orFinish p R mm ex = (.ok (canonicalize R), ex) :=
  orFinish_clean (by rw [(canonicalize_flags R).2.2.2.2, h])

theorem clean_canonicalize {R : Range} (h : R.Clean) : (canonicalize R).Clean := by
  obtain ⟨_, f2, _, f4, f5⟩ := canonicalize_flags R
  exact ⟨by rw [f2, h.1], by rw [f4, h.2.1], by rw [f5, h.2.2]⟩

theorem MM.of_some {p : Params} {range : Range} {P : ISet} (hr : Repr range P) (hc : range.Clean) :
    MM p (some range) P := by
  have e : mmEff p (some range) = some range := by unfold mmEff; cases p.req <;> rfl
  constructor
  · rw [e]; exact hr
  · rw [e]; exact hc
  · rw [e]; intro h; cases h

/-- **asn1constraint_compute_constraint_range on an element tree** computes the canonical form of
    `Spec.visible P e` (P = the parent's set; flagged empty when that set is empty), with clear
    flags — or fails. -/
theorem compute_elem {p : Params} (hc : p.compat = true) (hn : p.nkm = false) :
    ∀ (e : Cons), IsElem e → ∀ (mm0 : Option Range) (P : ISet), MM p mm0 P → Written e → LitsOK e →
      ∃ res, compute p (elemCT e) mm0 true = (res, true) ∧
        (Hard res ∨ ∃ r, res = .ok r ∧ ReprE r (visible P e) ∧ r.Clean) := by
  intro e
  induction e with
  | single v =>
    intro _ mm0 P hM _ hl
    rw [show elemCT (.single v) = .value (.num v) from rfl, compute_eq_body hc hn _ _ _ hM.clean]
    obtain ⟨res, h1, h2⟩ := leaf_spec (p := p) (P := P) (rangeOf (mmEff p mm0)) (.val v) (.val v)
      (mmEff_idem p mm0) hM.eff (by simp) (by simp) hl hl
    refine ⟨res, h1, ?_⟩
    rcases h2 with h2 | ⟨r, e1, e2, e3⟩
    · exact Or.inl h2
    · refine Or.inr ⟨r, e1, Or.inl (e2.congr (fun y => ?_)), e3⟩
      simp only [visible, End.below, End.above]
      congr 1
      rw [Bool.eq_iff_iff]; simp; omega
  | range lo hi =>
    intro _ mm0 P hM hw hl
    rw [show elemCT (.range lo hi) = .range (endV lo) (endV hi) from rfl, compute_eq_body hc hn _ _ _ hM.clean]
    obtain ⟨res, h1, h2⟩ := leaf_spec (p := p) (P := P) (rangeOf (mmEff p mm0)) lo hi (mmEff_idem p mm0) hM.eff
      hw.1 hw.2 hl.1 hl.2
    refine ⟨res, h1, ?_⟩
    rcases h2 with h2 | ⟨r, e1, e2, e3⟩
    · exact Or.inl h2
    · exact Or.inr ⟨r, e1, Or.inl e2, e3⟩
  | union a b iha ihb =>
    intro hi mm0 P hM hw hl
    rw [show elemCT (.union a b) = .uni [elemCT a, elemCT b] from rfl, compute_eq_body hc hn _ _ _ hM.clean]
    show ∃ res, orFirst p false [elemCT a, elemCT b] (rangeOf (mmEff p mm0)) (mmEff p mm0) true = (res, true) ∧ _
    obtain ⟨ra, hra, ha⟩ := iha hi.1 (mmEff p mm0) P hM.eff hw.1 hl.1
    obtain ⟨rb, hrb, hb⟩ := ihb hi.2 (mmEff p mm0) P hM.eff hw.2 hl.2
    rcases ha with ha | ⟨ta, rfl, hta, cta⟩
    · exact ⟨ra, orFirst_cons_hard hra ha, Or.inl ha⟩
    · rw [orFirst_cons_ok hra hra hta.incompat]
      obtain ⟨R1, s1, a1, c1⟩ := acc_start hta hM.repr.empty true
      rw [s1]
      simp only
      rcases hb with hb | ⟨tb, rfl, htb, ctb⟩
      · rw [orRest_cons_hard hrb hb]; exact ⟨rb, rfl, Or.inl hb⟩
      · rw [orRest_cons_ok hrb]
        obtain ⟨R2, s2, a2, c2, _, _⟩ := acc_step a1 htb true
        rw [s2]
        simp only
        have cl := c2 ctb (c1 cta hM.clean)
        rw [orRest_nil, orFinish_acc cl.2.2]
        exact ⟨_, rfl, Or.inr ⟨_, rfl, acc_finish a2, clean_canonicalize cl⟩⟩
  | inter a b iha ihb =>
    intro hi mm0 P hM hw hl
    rw [show elemCT (.inter a b) = .int [elemCT a, elemCT b] from rfl, compute_eq_body hc hn _ _ _ hM.clean]
    show ∃ res, andLoop p false [elemCT a, elemCT b] (rangeOf (mmEff p mm0)) (mmEff p mm0) true = (res, true) ∧ _
    obtain ⟨ra, hra, ha⟩ := iha hi.1 (mmEff p mm0) P hM.eff hw.1 hl.1
    obtain ⟨rb, hrb, hb⟩ := ihb hi.2 (mmEff p mm0) P hM.eff hw.2 hl.2
    rcases ha with ha | ⟨ta, rfl, hta, cta⟩
    · exact ⟨ra, andLoop_int_hard hra ha, Or.inl ha⟩
    · rw [andLoop_int_ok hra hta.incompat cta]
      cases hi1 : intersection (rangeOf (mmEff p mm0)) ta false p.strictOER with
      | error e => exact ⟨_, rfl, Or.inl (hard_ofIErr e)⟩
      | ok r1 =>
        simp only
        obtain ⟨q1, q2, q3, q4⟩ := inter_E (Or.inl hM.repr) hta hi1
        have c1 : (canonicalize r1).Clean := by
          refine ⟨?_, ?_, ?_⟩
          · rw [q2, hM.clean.1, cta.1]; rfl
          · rw [q4, hM.clean.2.1, cta.1]; rfl
          · rw [q3, hM.clean.2.2, cta.2.2]; simp
        rcases hb with hb | ⟨tb, rfl, htb, ctb⟩
        · exact ⟨rb, andLoop_int_hard hrb hb, Or.inl hb⟩
        · rw [andLoop_int_ok hrb htb.incompat ctb]
          cases hi2 : intersection (canonicalize r1) tb false p.strictOER with
          | error e => exact ⟨_, rfl, Or.inl (hard_ofIErr e)⟩
          | ok r2 =>
            simp only
            rw [andLoop_nil]
            obtain ⟨s1, s2, s3, s4⟩ := inter_E q1 htb hi2
            refine ⟨_, rfl, Or.inr ⟨_, rfl, ?_, ?_, ?_, ?_⟩⟩
            · rcases s1 with s1 | s1
              · refine Or.inl (s1.congr (fun y => ?_))
                simp only [visible]
                cases h1 : visible P a y with
                | true => simp [visible_sub a P y h1]
                | false => simp
              · refine Or.inr ⟨fun y => ?_, s1.2⟩
                have := s1.1 y
                simp only [visible]
                cases h1 : visible P a y with
                | true => simpa [visible_sub a P y h1, h1] using this
                | false => simp
            · rw [s2, c1.1, ctb.1]; rfl
            · rw [s4, c1.2.1, ctb.1]; rfl
            · rw [s3, c1.2.2, ctb.2.2]; simp
  | except a b iha _ =>
    intro hi mm0 P hM hw hl
    rw [show elemCT (.except a b) = .exc [elemCT a, elemCT b] from rfl, compute_eq_body hc hn _ _ _ hM.clean]
    exact iha hi.1 (mmEff p mm0) P hM.eff hw hl
  | paren a iha =>
    intro hi mm0 P hM hw hl
    rw [show elemCT (.paren a) = .set [elemCT a] from rfl, compute_eq_body hc hn _ _ _ hM.clean]
    show ∃ res, andLoop p true [elemCT a] (rangeOf (mmEff p mm0)) (mmEff p mm0) true = (res, true) ∧ _
    obtain ⟨ra, hra, ha⟩ := iha hi (some (rangeOf (mmEff p mm0))) P (MM.of_some hM.repr hM.clean) hw hl
    rcases ha with ha | ⟨ta, rfl, hta, cta⟩
    · exact ⟨ra, andLoop_set_hard hra ha, Or.inl ha⟩
    · rw [andLoop_set_ok hra hta.incompat cta]
      cases hi1 : intersection (rangeOf (mmEff p mm0)) ta true p.strictOER with
      | error e => exact ⟨_, rfl, Or.inl (hard_ofIErr e)⟩
      | ok r1 =>
        simp only
        rw [andLoop_nil]
        obtain ⟨q1, q2, q3, q4⟩ := inter_E (Or.inl hM.repr) hta hi1
        refine ⟨_, rfl, Or.inr ⟨_, rfl, ?_, ?_, ?_, ?_⟩⟩
        · rcases q1 with q1 | q1
          · refine Or.inl (q1.congr (fun y => ?_))
            simp only [visible]
            cases h1 : visible P a y with
            | true => simp [visible_sub a P y h1]
            | false => simp
          · refine Or.inr ⟨fun y => ?_, q1.2⟩
            have := q1.1 y
            simp only [visible]
            cases h1 : visible P a y with
            | true => simp [visible_sub a P y h1, h1] at this
            | false => rfl
        · rw [q2, hM.clean.1, cta.1]; rfl
        · rw [q4, hM.clean.2.1, cta.1]; rfl
        · rw [q3, hM.clean.2.2, cta.2.2]; simp
  | size a _ => intro hi; exact absurd hi (by simp [IsElem])
  | ext r _ => intro hi; exact absurd hi (by simp [IsElem])
  | exta r a _ _ => intro hi; exact absurd hi (by simp [IsElem])
  | serial a b _ _ => intro hi; exact absurd hi (by simp [IsElem])
  | refine a b _ _ => intro hi; exact absurd hi (by simp [IsElem])



end Asn1c.Impl.CRange
