import Asn1cModel.Proofs.CRange
import Asn1cModel.Spec.Constraint
import Asn1cModel.Impl.ConsParse
import Mathlib.Tactic.Set
/-
  C09 helper lemmas, second part: `asn1constraint_compute_constraint_range` (Impl.CRange.compute)
  on the trees the parser builds (Impl.ConsParse) computes the canonical form of the set that
  Spec.Constraint assigns to the expression.
-/
namespace Asn1c.Impl.CRange
open Asn1c.Spec.Constraint Asn1c.Impl.ConsParse

open Asn1c.Spec.Constraint Asn1c.Impl.ConsParse

theorem mmEff_idem (p : Params) (mm0 : Option Range) : mmEff p (mmEff p mm0) = mmEff p mm0 := by
  unfold mmEff; cases p.req <;> cases mm0 <;> rfl

/-- the `switch(ct->type)` of `asn1constraint_compute_constraint_range` -/
def body (p : Params) (ct : CT) (mm : Option Range) (range : Range) (ex : Bool) : Res × Bool :=
  match ct with
  | .value v => leaf p v v mm range ex
  | .range lo hi => leaf p lo hi mm range ex
  | .ext => if !ex then (.ok { range with ext := true, notOER := true }, ex) else (.erange, ex)
  | .size c =>
    if p.req == .size then
      match compute p c mm true with
      | (.ok t, ex') => (.ok t, ex')
      | (.erange, ex') => (.ok { range with empty := true, ext := true, notOER := true }, ex')
      | (e, ex') => (e, ex')
    else (.ok { range with incompat := true }, ex)
  | .set l => andLoop p true l range mm ex
  | .int l => andLoop p false l range mm ex
  | .csv l => orFirst p l range mm ex
  | .uni l => orFirst p l range mm ex
  | .exc l =>
    match l with
    | [] => (.abort, ex)
    | c :: _ => compute p c mm ex

/-- with a compatible request, a known-multiplier (or non-string) type and a parent range without
    visibility flags, the function goes straight to its `switch` -/
theorem compute_eq_body {p : Params} (hc : p.compat = true) (hn : p.nkm = false) (ct : CT)
    (mm0 : Option Range) (ex : Bool) (hcl : (rangeOf (mmEff p mm0)).Clean) :
    compute p ct mm0 ex = body p ct (mmEff p mm0) (rangeOf (mmEff p mm0)) ex := by
  obtain ⟨_, h2, h3⟩ := hcl
  rw [compute.eq_def]
  have e1 : (!p.compat) = false := by simp [hc]
  rw [if_neg (by simp [e1])]
  dsimp only
  simp only [hn, Bool.false_eq_true, if_false, Bool.and_false]
  rw [if_neg (by simp [h3]), if_neg (by simp [h2])]
  cases ct <;> rfl



theorem Repr.congr {r : Range} {S S' : Int → Bool} (h : Repr r S) (e : ∀ y, S y = S' y) : Repr r S' :=
  ⟨h.good, h.canon, fun y => by rw [h.den y, e y], h.ends, h.shape, h.empty, h.incompat⟩

theorem Repr.lower {m : Range} {P : Int → Bool} (h : Repr m P) {y : Int} (hy : P y = true) :
    Edge.leInt m.left y = true := by
  obtain ⟨hd, t, e1, e2, _⟩ := h.ends
  have hg := h.good; have hc := h.canon; have hden := h.den y
  rw [e1] at hg hc hden
  rw [e2]; exact canon_lower hg hc (by rw [hden, hy])

theorem Repr.upper {m : Range} {P : Int → Bool} (h : Repr m P) {y : Int} (hy : P y = true) :
    Edge.geInt m.right y = true := by
  obtain ⟨hd, t, e1, _, e3⟩ := h.ends
  have hg := h.good; have hc := h.canon; have hden := h.den y
  rw [e1] at hg hc hden
  rw [e3]; exact canon_upper t hd hg hc y (by rw [hden, hy])

theorem Repr.left_bnd {m : Range} {P : Int → Bool} (h : Repr m P) :
    ∀ v, m.left = .val v → INTMAX_MIN < v ∧ v ≤ INTMAX_MAX := by
  obtain ⟨hd, t, e1, e2, _⟩ := h.ends
  have := (h.good hd (by rw [e1]; simp)).2.1
  rw [e2]; exact this

theorem Repr.right_bnd {m : Range} {P : Int → Bool} (h : Repr m P) :
    ∀ v, m.right = .val v → INTMAX_MIN ≤ v ∧ v < INTMAX_MAX := by
  obtain ⟨hd, t, e1, _, e3⟩ := h.ends
  have := (h.good ((hd :: t).getLast (by simp)) (by rw [e1]; exact List.getLast_mem _)).2.2
  rw [e3]; exact this

/-- a single well-formed leaf kept in `left`/`right` -/
theorem repr_single {r : Range} (he : r.els = []) (hw : (⟨r.left, r.right⟩ : Iv).wf) (hb : (⟨r.left, r.right⟩ : Iv).bnd)
    (hem : r.empty = false) (hi : r.incompat = false) : Repr r (Iv.mem ⟨r.left, r.right⟩) := by
  have hl := leaves_of_els_nil he
  refine ⟨?_, ?_, ?_, ⟨⟨r.left, r.right⟩, [], hl, rfl, rfl⟩, by simp [he], hem, hi⟩
  · rw [hl]; intro p hp; simp at hp; subst hp; exact ⟨hw, hb⟩
  · rw [hl]; trivial
  · intro y; rw [hl]; simp

/-- `MIN`, `MAX` or a literal strictly inside the `intmax_t` range -/
def EndOK : End → Prop
  | .val v => INTMAX_MIN < v ∧ v < INTMAX_MAX
  | _ => True

def Hard (r : Res) : Prop := r = .eperm ∨ r = .abort ∨ r = .fuel

theorem hard_ofIErr (e : IErr) : Hard (Res.ofIErr e) := by
  cases e <;> simp [Hard, Res.ofIErr]

/-- the parent context of a call: the range the function clones represents `P`, flags clear -/
structure MM (p : Params) (mm0 : Option Range) (P : ISet) : Prop where
  repr : Repr (rangeOf (mmEff p mm0)) P
  clean : (rangeOf (mmEff p mm0)).Clean
  univ : mmEff p mm0 = none → ∀ y, P y = true

theorem MM.eff {p : Params} {mm0 : Option Range} {P : ISet} (h : MM p mm0 P) : MM p (mmEff p mm0) P := by
  constructor
  · rw [mmEff_idem]; exact h.repr
  · rw [mmEff_idem]; exact h.clean
  · rw [mmEff_idem]; exact h.univ

theorem below_eq (e : End) (y : Int) : e.below y = Edge.leInt (match e with | .min => .min | .max => .max | .val z => .val z) y := by
  cases e <;> rfl
theorem above_eq (e : End) (y : Int) : e.above y = Edge.geInt (match e with | .min => .min | .max => .max | .val z => .val z) y := by
  cases e <;> rfl



theorem leaf_spec {p : Params} {mm : Option Range} {P : ISet} (range : Range) (lo hi : End)
    (hmm : mmEff p mm = mm) (hM : MM p mm P)
    (hne : ∃ y, lo.below y = true ∧ hi.above y = true ∧ P y = true) (hl : EndOK lo) (hh : EndOK hi) :
    ∃ res, leaf p (endV lo) (endV hi) mm range true = (res, true) ∧
      (Hard res ∨ ∃ r, res = .ok r ∧ Repr r (fun y => lo.below y && hi.above y && P y) ∧ r.Clean) := by
  obtain ⟨y0, hy1, hy2, hy3⟩ := hne
  have hrepr := hM.repr; have hclean := hM.clean
  rw [hmm] at hrepr hclean
  unfold leaf
  simp only [Bool.not_true, Bool.false_eq_true, if_false]
  cases mm with
  | none =>
    have huniv := hM.univ hmm
    -- no parent: the range as written
    refine ⟨_, rfl, Or.inr ⟨_, rfl, ?_⟩⟩
    have hlo : lo ≠ .max := by intro h; subst h; simp [End.below] at hy1
    have hhi : hi ≠ .min := by intro h; subst h; simp [End.above] at hy2
    set r0 : Range := { Range.new with left := fillEdge (endV lo) none, right := fillEdge (endV hi) none } with hr0
    have hmem : ∀ y, (⟨r0.left, r0.right⟩ : Iv).mem y = (lo.below y && hi.above y) := by
      intro y; cases lo <;> cases hi <;> simp [hr0, Iv.mem, fillEdge, endV, End.below, End.above]
    have hwf : (⟨r0.left, r0.right⟩ : Iv).wf := Iv.mem_wf (x := y0) (by rw [hmem]; simp [hy1, hy2])
    have hbnd : (⟨r0.left, r0.right⟩ : Iv).bnd := by
      cases lo <;> cases hi <;> simp_all [Iv.bnd, fillEdge, endV, EndOK] <;> omega
    have hcan : canonicalize r0 = r0 := by
      unfold canonicalize
      have : r0.els.isEmpty = true := rfl
      simp only [this, if_true]
      rw [if_neg]; have : edgeCmp r0.left r0.right ≤ 0 := hwf.2.2; omega
    rw [hcan]
    refine ⟨(repr_single rfl hwf hbnd rfl rfl).congr (fun y => ?_), rfl, rfl, rfl⟩
    rw [hmem y, huniv y]; simp
  | some m =>
    simp only [rangeOf] at hrepr hclean
    have hlo : lo ≠ .max := by intro h; subst h; simp [End.below] at hy1
    have hhi : hi ≠ .min := by intro h; subst h; simp [End.above] at hy2
    set r0 : Range := { Range.new with left := fillEdge (endV lo) (some m), right := fillEdge (endV hi) (some m) } with hr0
    have hmem : ∀ y, P y = true → (⟨r0.left, r0.right⟩ : Iv).mem y = (lo.below y && hi.above y) := by
      intro y hy
      have h1 := hrepr.lower hy; have h2 := hrepr.upper hy
      cases lo <;> cases hi <;> simp_all [Iv.mem, fillEdge, endV, End.below, End.above]
    have hwf : (⟨r0.left, r0.right⟩ : Iv).wf := Iv.mem_wf (x := y0) (by rw [hmem y0 hy3]; simp [hy1, hy2])
    have hbnd : (⟨r0.left, r0.right⟩ : Iv).bnd := by
      have b1 := hrepr.left_bnd; have b2 := hrepr.right_bnd
      constructor
      · intro v hv
        cases lo <;> simp_all [fillEdge, endV, EndOK] <;> omega
      · intro v hv
        cases hi <;> simp_all [fillEdge, endV, EndOK] <;> omega
    have hB : Repr r0 (Iv.mem ⟨r0.left, r0.right⟩) := repr_single rfl hwf hbnd rfl rfl
    cases hi' : intersection m r0 true p.strictOER with
    | error e => exact ⟨_, by simp only [hi'], Or.inl (hard_ofIErr e)⟩
    | ok c =>
      refine ⟨.ok (canonicalize c), by simp only [hi'], Or.inr ⟨_, rfl, ?_⟩⟩
      obtain ⟨q1, q2, q3, q4⟩ := inter_canon hrepr hB ⟨y0, hy3, by rw [hmem y0 hy3]; simp [hy1, hy2]⟩ hi'
      refine ⟨q1.congr (fun y => ?_), ?_, ?_, ?_⟩
      · cases hy : P y with
        | true => simp [hmem y hy]
        | false => simp
      · rw [q2, hclean.1]; rfl
      · rw [q4, hclean.2.1]; rfl
      · rw [q3, hclean.2.2]; simp [hr0, Range.new]



/-- element trees covered by the theorems: values, ranges, `|`, `^`, `EXCEPT`, parentheses -/
def IsElem : Cons → Prop
  | .single _ => True
  | .range _ _ => True
  | .union a b => IsElem a ∧ IsElem b
  | .inter a b => IsElem a ∧ IsElem b
  | .except a b => IsElem a ∧ IsElem b
  | .paren a => IsElem a
  | _ => False

/-- no operand denotes the empty set (relative to the parent `P`) -/
def NonDeg (P : ISet) : Cons → Prop
  | .single v => P v = true
  | .range lo hi => ∃ y, lo.below y = true ∧ hi.above y = true ∧ P y = true
  | .union a b => NonDeg P a ∧ NonDeg P b
  | .inter a b => NonDeg P a ∧ NonDeg P b ∧ ∃ y, visible P a y = true ∧ visible P b y = true
  | .except a _ => NonDeg P a
  | .paren a => NonDeg P a
  | .size a => NonDeg P a
  | .ext r => NonDeg P r
  | .exta r _ => NonDeg P r
  | .serial a b => NonDeg P a ∧ NonDeg (visible P a) b
  | .refine a b => NonDeg P a ∧ NonDeg (visible P a) b

/-- every literal that the compiler looks at lies strictly inside the `intmax_t` range -/
def LitsOK : Cons → Prop
  | .single v => INTMAX_MIN < v ∧ v < INTMAX_MAX
  | .range lo hi => EndOK lo ∧ EndOK hi
  | .union a b => LitsOK a ∧ LitsOK b
  | .inter a b => LitsOK a ∧ LitsOK b
  | .except a _ => LitsOK a
  | .paren a => LitsOK a
  | .size a => LitsOK a
  | .ext r => LitsOK r
  | .exta r a => LitsOK r ∧ LitsOK a
  | .serial a b => LitsOK a ∧ LitsOK b
  | .refine a b => LitsOK a ∧ LitsOK b

theorem visible_sub : ∀ (e : Cons) (P : ISet) (y : Int), visible P e y = true → P y = true := by
  intro e
  induction e with
  | single v => intro P y h; simp [visible] at h; exact h.2
  | range lo hi => intro P y h; simp [visible] at h; exact h.2
  | union a b iha ihb =>
    intro P y h; simp [visible] at h
    rcases h with h | h
    · exact iha P y h
    · exact ihb P y h
  | inter a b iha _ => intro P y h; simp [visible] at h; exact iha P y h.1
  | except a b iha _ => intro P y h; exact iha P y h
  | paren a iha => intro P y h; exact iha P y h
  | size a iha => intro P y h; exact iha P y h
  | ext r ih => intro P y h; exact ih P y h
  | exta r a ih _ => intro P y h; exact ih P y h
  | serial a b iha ihb => intro P y h; exact iha P y (ihb _ y h)
  | refine a b iha ihb => intro P y h; exact iha P y (ihb _ y h)

theorem nonDeg_nonempty : ∀ (e : Cons) (P : ISet), IsElem e → NonDeg P e → ∃ y, visible P e y = true := by
  intro e
  induction e with
  | single v => intro P _ h; exact ⟨v, by simp only [NonDeg] at h; simp [visible, h]⟩
  | range lo hi => intro P _ ⟨y, h1, h2, h3⟩; exact ⟨y, by simp [visible, h1, h2, h3]⟩
  | union a b iha _ =>
    intro P hi h
    obtain ⟨y, hy⟩ := iha P hi.1 h.1
    exact ⟨y, by simp [visible, hy]⟩
  | inter a b _ _ =>
    intro P _ h
    obtain ⟨y, h1, h2⟩ := h.2.2
    exact ⟨y, by simp [visible, h1, h2]⟩
  | except a b iha _ => intro P hi h; exact iha P hi.1 h
  | paren a iha => intro P hi h; exact iha P hi h
  | size a _ => intro P hi _; exact absurd hi (by simp [IsElem])
  | ext r _ => intro P hi _; exact absurd hi (by simp [IsElem])
  | exta r a _ _ => intro P hi _; exact absurd hi (by simp [IsElem])
  | serial a b _ _ => intro P hi _; exact absurd hi (by simp [IsElem])
  | refine a b _ _ => intro P hi _; exact absurd hi (by simp [IsElem])



/-! ### stepping the loops of the CA_SET/CA_INT and CA_CSV/CA_UNI cases -/

theorem hard_ne_ok {res : Res} (h : Hard res) : ∀ r, res ≠ .ok r := by
  intro r e; subst e; rcases h with h | h | h <;> cases h
theorem hard_ne_erange {res : Res} (h : Hard res) : res ≠ .erange := by
  intro e; subst e; rcases h with h | h | h <;> cases h

theorem andLoop_nil (p : Params) (s : Bool) (range : Range) (mm : Option Range) (ex : Bool) :
    andLoop p s [] range mm ex = (.ok range, ex) := by rw [andLoop]

theorem andLoop_cons_hard {p : Params} {s : Bool} {c : CT} {rest : List CT} {range : Range} {mm : Option Range}
    {ex ex' : Bool} {res : Res} (h : compute p c (if s then some range else mm) ex = (res, ex')) (hh : Hard res) :
    andLoop p s (c :: rest) range mm ex = (res, ex') := by
  rw [andLoop, h]
  rcases hh with rfl | rfl | rfl <;> rfl

theorem andLoop_cons_ok {p : Params} {s : Bool} {c : CT} {rest : List CT} {range : Range} {mm : Option Range}
    {ex ex' : Bool} {tmp : Range} (h : compute p c (if s then some range else mm) ex = (.ok tmp, ex'))
    (hi : tmp.incompat = false) (hcl : tmp.Clean) :
    andLoop p s (c :: rest) range mm ex =
      match intersection range tmp s p.strictOER with
      | .error e => (Res.ofIErr e, ex')
      | .ok r => andLoop p s rest (canonicalize r) mm ex' := by
  rw [andLoop, h]
  simp only [hi, hcl.2.1, hcl.2.2, Bool.false_and, Bool.false_eq_true, if_false]
  rfl

theorem andLoop_int_hard {p : Params} {c : CT} {rest : List CT} {range : Range} {mm : Option Range}
    {ex ex' : Bool} {res : Res} (h : compute p c mm ex = (res, ex')) (hh : Hard res) :
    andLoop p false (c :: rest) range mm ex = (res, ex') :=
  andLoop_cons_hard (s := false) (by simpa using h) hh

theorem andLoop_set_hard {p : Params} {c : CT} {rest : List CT} {range : Range} {mm : Option Range}
    {ex ex' : Bool} {res : Res} (h : compute p c (some range) ex = (res, ex')) (hh : Hard res) :
    andLoop p true (c :: rest) range mm ex = (res, ex') :=
  andLoop_cons_hard (s := true) (by simpa using h) hh

theorem andLoop_int_ok {p : Params} {c : CT} {rest : List CT} {range : Range} {mm : Option Range}
    {ex ex' : Bool} {tmp : Range} (h : compute p c mm ex = (.ok tmp, ex'))
    (hi : tmp.incompat = false) (hcl : tmp.Clean) :
    andLoop p false (c :: rest) range mm ex =
      match intersection range tmp false p.strictOER with
      | .error e => (Res.ofIErr e, ex')
      | .ok r => andLoop p false rest (canonicalize r) mm ex' :=
  andLoop_cons_ok (s := false) (by simpa using h) hi hcl

theorem andLoop_set_ok {p : Params} {c : CT} {rest : List CT} {range : Range} {mm : Option Range}
    {ex ex' : Bool} {tmp : Range} (h : compute p c (some range) ex = (.ok tmp, ex'))
    (hi : tmp.incompat = false) (hcl : tmp.Clean) :
    andLoop p true (c :: rest) range mm ex =
      match intersection range tmp true p.strictOER with
      | .error e => (Res.ofIErr e, ex')
      | .ok r => andLoop p true rest (canonicalize r) mm ex' :=
  andLoop_cons_ok (s := true) (by simpa using h) hi hcl

theorem orStep_ok {range tmp : Range} {ex' : Bool} (hi : tmp.incompat = false) (he : tmp.empty = false) :
    orStep range (.ok tmp, ex') = .inr (mergeIn range tmp, ex') := by
  simp [orStep, hi, he]

theorem orStep_hard {range : Range} {res : Res} {ex' : Bool} (hh : Hard res) :
    orStep range (res, ex') = .inl (res, ex') := by
  rcases hh with rfl | rfl | rfl <;> rfl

theorem orFirst_cons_hard {p : Params} {c : CT} {rest : List CT} {range : Range} {mm : Option Range}
    {ex ex' : Bool} {res : Res} (h : compute p c mm ex = (res, ex')) (hh : Hard res) :
    orFirst p (c :: rest) range mm ex = (res, ex') := by
  rw [orFirst, h]
  rcases hh with rfl | rfl | rfl <;> rfl

theorem orFirst_cons_ok {p : Params} {c : CT} {rest : List CT} {range : Range} {mm : Option Range}
    {ex ex' : Bool} {tmp : Range} (h : compute p c mm ex = (.ok tmp, ex')) (hi : tmp.incompat = false) :
    orFirst p (c :: rest) range mm ex =
      match orStep { tmp with ext := tmp.ext || range.ext, notOER := tmp.notOER || range.notOER,
                              empty := tmp.empty || range.empty } (compute p c mm ex') with
      | .inl out => out
      | .inr (r', ex'') => orRest p rest r' mm ex'' := by
  rw [orFirst, h]
  simp only [hi, Bool.false_eq_true, if_false]
  rfl

theorem orRest_nil (p : Params) (range : Range) (mm : Option Range) (ex : Bool) :
    orRest p [] range mm ex = orFinish p range mm ex := by rw [orRest]

theorem orRest_cons (p : Params) (c : CT) (rest : List CT) (range : Range) (mm : Option Range) (ex : Bool) :
    orRest p (c :: rest) range mm ex =
      match orStep range (compute p c mm ex) with
      | .inl out => out
      | .inr (r', ex') => orRest p rest r' mm ex' := by rw [orRest]; rfl

theorem orFinish_clean {p : Params} {range : Range} {mm : Option Range} {ex : Bool}
    (h : (canonicalize range).notPER = false) : orFinish p range mm ex = (.ok (canonicalize range), ex) := by
  simp [orFinish, h]



theorem els_sub_leaves (r : Range) : ∀ p ∈ r.els, p ∈ r.leaves := by
  intro p hp
  have : r.els ≠ [] := by intro h; rw [h] at hp; cases hp
  rw [leaves_of_els_ne this]; exact hp

theorem leaves_ne_nil (r : Range) : r.leaves ≠ [] := by
  unfold Range.leaves; split
  · simp
  · rename_i h; intro h'; rw [h'] at h; simp at h

/-- the CSV/UNI accumulation of two canonical operands, canonicalised -/
theorem or_two {ta tb range : Range} {Sa Sb : Int → Bool} (ha : Repr ta Sa) (ca : ta.Clean)
    (hb : Repr tb Sb) (cb : tb.Clean) (hr : range.Clean) (hre : range.empty = false) :
    let r : Range := { ta with ext := ta.ext || range.ext, notOER := ta.notOER || range.notOER,
                               empty := ta.empty || range.empty }
    let R := mergeIn (mergeIn r ta) tb
    Repr (canonicalize R) (fun y => Sa y || Sb y) ∧ (canonicalize R).Clean := by
  intro r R
  have hels : R.els = (ta.els ++ ta.leaves) ++ tb.leaves := rfl
  have hne : R.els ≠ [] := by
    rw [hels]; intro h
    have := leaves_ne_nil tb
    simp at h; exact this h.2.2
  have hg : Good R.els := by
    rw [hels]; intro p hp
    simp only [List.mem_append] at hp
    rcases hp with (hp | hp) | hp
    · exact ha.good p (els_sub_leaves ta p hp)
    · exact ha.good p hp
    · exact hb.good p hp
  have hd : ∀ y, den R.els y = (Sa y || Sb y) := by
    intro y
    rw [hels, den_append, den_append, ha.den y, hb.den y]
    have : den ta.els y = true → Sa y = true := by
      intro h
      obtain ⟨i, hi, hy⟩ := den_eq_true.mp h
      rw [← ha.den y]; exact den_eq_true.mpr ⟨i, els_sub_leaves ta i hi, hy⟩
    cases h1 : den ta.els y <;> cases h2 : Sa y <;> simp_all
  have hemp : R.empty = false := by
    show (ta.empty || range.empty) = false
    rw [ha.empty, hre]; rfl
  have hinc : R.incompat = false := ha.incompat
  obtain ⟨_, _, _, _, c7, _, c9, c10⟩ := canonicalize_ne hne hg
  refine ⟨repr_of_canonicalize hne hg hd hemp hinc, ?_, ?_, ?_⟩
  · rw [c7]; show ((ta.ext || range.ext || ta.ext) || tb.ext) = false
    rw [ca.1, cb.1, hr.1]; rfl
  · rw [c9]
    show ((ta.notOER || range.notOER || ta.notOER || (ta.ext || range.ext || ta.ext)) || tb.notOER ||
      ((ta.ext || range.ext || ta.ext) || tb.ext)) = false
    rw [ca.1, cb.1, hr.1, ca.2.1, cb.2.1, hr.2.1]; rfl
  · rw [c10]; show ((ta.notPER || ta.notPER) || tb.notPER) = false
    rw [ca.2.2, cb.2.2]; rfl



theorem MM.of_some {p : Params} {range : Range} {P : ISet} (hr : Repr range P) (hc : range.Clean) :
    MM p (some range) P := by
  have e : mmEff p (some range) = some range := by unfold mmEff; cases p.req <;> rfl
  constructor
  · rw [e]; exact hr
  · rw [e]; exact hc
  · rw [e]; intro h; cases h

/-- **asn1constraint_compute_constraint_range on an element tree** computes the canonical form of
    `Spec.visible P e` (P = the parent's set), with clear flags — or fails. -/
theorem compute_elem {p : Params} (hc : p.compat = true) (hn : p.nkm = false) :
    ∀ (e : Cons), IsElem e → ∀ (mm0 : Option Range) (P : ISet), MM p mm0 P → NonDeg P e → LitsOK e →
      ∃ res, compute p (elemCT e) mm0 true = (res, true) ∧
        (Hard res ∨ ∃ r, res = .ok r ∧ Repr r (visible P e) ∧ r.Clean) := by
  intro e
  induction e with
  | single v =>
    intro _ mm0 P hM hnd hl
    rw [show elemCT (.single v) = .value (.num v) from rfl, compute_eq_body hc hn _ _ _ hM.clean]
    obtain ⟨res, h1, h2⟩ := leaf_spec (p := p) (P := P) (rangeOf (mmEff p mm0)) (.val v) (.val v)
      (mmEff_idem p mm0) hM.eff ⟨v, by simp [End.below], by simp [End.above], hnd⟩ hl hl
    refine ⟨res, h1, ?_⟩
    rcases h2 with h2 | ⟨r, e1, e2, e3⟩
    · exact Or.inl h2
    · refine Or.inr ⟨r, e1, e2.congr (fun y => ?_), e3⟩
      simp only [visible, End.below, End.above]
      congr 1
      rw [Bool.eq_iff_iff]; simp; omega
  | range lo hi =>
    intro _ mm0 P hM hnd hl
    rw [show elemCT (.range lo hi) = .range (endV lo) (endV hi) from rfl, compute_eq_body hc hn _ _ _ hM.clean]
    exact leaf_spec (p := p) (P := P) (rangeOf (mmEff p mm0)) lo hi (mmEff_idem p mm0) hM.eff hnd hl.1 hl.2
  | union a b iha ihb =>
    intro hi mm0 P hM hnd hl
    rw [show elemCT (.union a b) = .uni [elemCT a, elemCT b] from rfl, compute_eq_body hc hn _ _ _ hM.clean]
    show ∃ res, orFirst p [elemCT a, elemCT b] (rangeOf (mmEff p mm0)) (mmEff p mm0) true = (res, true) ∧ _
    obtain ⟨ra, hra, ha⟩ := iha hi.1 (mmEff p mm0) P hM.eff hnd.1 hl.1
    obtain ⟨rb, hrb, hb⟩ := ihb hi.2 (mmEff p mm0) P hM.eff hnd.2 hl.2
    rcases ha with ha | ⟨ta, rfl, hta, cta⟩
    · exact ⟨ra, orFirst_cons_hard hra ha, Or.inl ha⟩
    · rw [orFirst_cons_ok hra hta.incompat, hra]
      rw [orStep_ok hta.incompat (by simp [hta.empty])]
      simp only
      rw [orRest_cons, hrb]
      rcases hb with hb | ⟨tb, rfl, htb, ctb⟩
      · rw [orStep_hard hb]; exact ⟨rb, rfl, Or.inl hb⟩
      · rw [orStep_ok htb.incompat htb.empty]
        simp only
        obtain ⟨q1, q2⟩ := or_two hta cta htb ctb hM.clean hM.repr.empty
        rw [orRest_nil, orFinish_clean q2.2.2]
        exact ⟨_, rfl, Or.inr ⟨_, rfl, q1, q2⟩⟩
  | inter a b iha ihb =>
    intro hi mm0 P hM hnd hl
    rw [show elemCT (.inter a b) = .int [elemCT a, elemCT b] from rfl, compute_eq_body hc hn _ _ _ hM.clean]
    show ∃ res, andLoop p false [elemCT a, elemCT b] (rangeOf (mmEff p mm0)) (mmEff p mm0) true = (res, true) ∧ _
    obtain ⟨ra, hra, ha⟩ := iha hi.1 (mmEff p mm0) P hM.eff hnd.1 hl.1
    obtain ⟨rb, hrb, hb⟩ := ihb hi.2 (mmEff p mm0) P hM.eff hnd.2.1 hl.2
    obtain ⟨y0, hy1, hy2⟩ := hnd.2.2
    have hyP : P y0 = true := visible_sub a P y0 hy1
    rcases ha with ha | ⟨ta, rfl, hta, cta⟩
    · exact ⟨ra, andLoop_int_hard hra ha, Or.inl ha⟩
    · rw [andLoop_int_ok hra hta.incompat cta]
      cases hi1 : intersection (rangeOf (mmEff p mm0)) ta false p.strictOER with
      | error e => exact ⟨_, rfl, Or.inl (hard_ofIErr e)⟩
      | ok r1 =>
        simp only
        obtain ⟨q1, q2, q3, q4⟩ := inter_canon hM.repr hta ⟨y0, hyP, hy1⟩ hi1
        have c1 : (canonicalize r1).Clean := by
          refine ⟨?_, ?_, ?_⟩
          · rw [q2, hM.clean.1, cta.1]; rfl
          · rw [q4, hM.clean.2.1, cta.1]; rfl
          · rw [q3, hM.clean.2.2, cta.2.2]; simp
        rcases hb with hb | ⟨tb, rfl, htb, ctb⟩
        · exact ⟨rb, andLoop_int_hard hrb hb, Or.inl hb⟩
        · rw [andLoop_int_ok hrb htb.incompat ctb]
          cases hi2 : intersection (canonicalize r1) tb false p.strictOER with
          | error e => exact ⟨_, rfl, Or.inl (hard_ofIErr e)⟩
          | ok r2 =>
            simp only
            rw [andLoop_nil]
            obtain ⟨s1, s2, s3, s4⟩ := inter_canon q1 htb ⟨y0, by simp [hyP, hy1], hy2⟩ hi2
            refine ⟨_, rfl, Or.inr ⟨_, rfl, s1.congr (fun y => ?_), ?_, ?_, ?_⟩⟩
            · simp only [visible]
              cases h1 : visible P a y with
              | true => simp [visible_sub a P y h1]
              | false => simp
            · rw [s2, c1.1, ctb.1]; rfl
            · rw [s4, c1.2.1, ctb.1]; rfl
            · rw [s3, c1.2.2, ctb.2.2]; simp
  | except a b iha _ =>
    intro hi mm0 P hM hnd hl
    rw [show elemCT (.except a b) = .exc [elemCT a, elemCT b] from rfl, compute_eq_body hc hn _ _ _ hM.clean]
    exact iha hi.1 (mmEff p mm0) P hM.eff hnd hl
  | paren a iha =>
    intro hi mm0 P hM hnd hl
    rw [show elemCT (.paren a) = .set [elemCT a] from rfl, compute_eq_body hc hn _ _ _ hM.clean]
    show ∃ res, andLoop p true [elemCT a] (rangeOf (mmEff p mm0)) (mmEff p mm0) true = (res, true) ∧ _
    obtain ⟨ra, hra, ha⟩ := iha hi (some (rangeOf (mmEff p mm0))) P (MM.of_some hM.repr hM.clean) hnd hl
    obtain ⟨y0, hy0⟩ := nonDeg_nonempty a P hi hnd
    rcases ha with ha | ⟨ta, rfl, hta, cta⟩
    · exact ⟨ra, andLoop_set_hard hra ha, Or.inl ha⟩
    · rw [andLoop_set_ok hra hta.incompat cta]
      cases hi1 : intersection (rangeOf (mmEff p mm0)) ta true p.strictOER with
      | error e => exact ⟨_, rfl, Or.inl (hard_ofIErr e)⟩
      | ok r1 =>
        simp only
        rw [andLoop_nil]
        obtain ⟨q1, q2, q3, q4⟩ := inter_canon hM.repr hta ⟨y0, visible_sub a P y0 hy0, hy0⟩ hi1
        refine ⟨_, rfl, Or.inr ⟨_, rfl, q1.congr (fun y => ?_), ?_, ?_, ?_⟩⟩
        · simp only [visible]
          cases h1 : visible P a y with
          | true => simp [visible_sub a P y h1]
          | false => simp
        · rw [q2, hM.clean.1, cta.1]; rfl
        · rw [q4, hM.clean.2.1, cta.1]; rfl
        · rw [q3, hM.clean.2.2, cta.2.2]; simp
  | size a _ => intro hi; exact absurd hi (by simp [IsElem])
  | ext r _ => intro hi; exact absurd hi (by simp [IsElem])
  | exta r a _ _ => intro hi; exact absurd hi (by simp [IsElem])
  | serial a b _ _ => intro hi; exact absurd hi (by simp [IsElem])
  | refine a b _ _ => intro hi; exact absurd hi (by simp [IsElem])



/-! ### the chain of serially applied constraints -/

/-- one serially applied constraint: an element tree, possibly with an extension marker (no additions) -/
def IsSpec : Cons → Prop
  | .ext r => IsElem r
  | c => IsElem c

/-- the constraints written after one type, none extensible -/
def IsLevelNoExt : Cons → Prop
  | .serial a b => IsLevelNoExt a ∧ IsElem b
  | c => IsElem c

/-- a chain of type references, none of the constraints extensible -/
def IsChainNoExt : Cons → Prop
  | .refine a b => IsChainNoExt a ∧ IsLevelNoExt b
  | c => IsLevelNoExt c

/-- the constraints written after one type; only the last one may carry the extension marker -/
def IsLevelLast : Cons → Prop
  | .serial a b => IsLevelNoExt a ∧ IsSpec b
  | c => IsSpec c

/-- guard domain of the C09 theorems for INTEGER value constraints -/
def DomV : Cons → Prop
  | .refine a b => IsChainNoExt a ∧ IsLevelLast b
  | c => IsLevelLast c

/-- the serially applied constraints in order -/
def specs : Cons → List Cons
  | .refine a b => specs a ++ specs b
  | .serial a b => specs a ++ [b]
  | c => [c]

theorem visible_specs : ∀ (c : Cons) (P : ISet), visible P c = (specs c).foldl (fun Q s => visible Q s) P := by
  intro c
  induction c with
  | serial a b iha _ => intro P; simp [specs, visible, List.foldl_append, iha P]
  | refine a b iha ihb => intro P; simp [specs, visible, List.foldl_append, iha P, ihb]
  | single v => intro P; rfl
  | range lo hi => intro P; rfl
  | union a b _ _ => intro P; rfl
  | inter a b _ _ => intro P; rfl
  | except a b _ _ => intro P; rfl
  | paren a _ => intro P; rfl
  | size a _ => intro P; rfl
  | ext r _ => intro P; rfl
  | exta r a _ _ => intro P; rfl

/-- `ManyConstraints` appends the element of a one-element ACT_CA_SET: outer parentheses vanish -/
def spec1 : Cons → CT
  | .paren x => elemCT x
  | s => elemCT s

def lastCT : Cons → CT
  | .ext r => .csv [elemCT r, .ext]
  | s => spec1 s

def specCTs : List Cons → List CT
  | [] => []
  | [s] => [lastCT s]
  | s :: t => spec1 s :: specCTs t

theorem specEls_elem {s : Cons} (h : IsElem s) : setEls (wrapSet (elemCT s)) = [spec1 s] := by
  cases s <;> simp_all [IsElem, elemCT, wrapSet, setEls, spec1]

theorem specEls_spec {s : Cons} (h : IsSpec s) : setEls (wrapSet (elemCT s)) = [lastCT s] := by
  cases s <;> simp_all [IsSpec, IsElem, elemCT, wrapSet, setEls, spec1, lastCT]

theorem lastCT_elem {s : Cons} (h : IsElem s) : lastCT s = spec1 s := by
  cases s <;> simp_all [IsElem, lastCT]

theorem specCTs_elems : ∀ (l : List Cons), (∀ s ∈ l, IsElem s) → specCTs l = l.map spec1 := by
  intro l
  induction l with
  | nil => intro _; rfl
  | cons s t ih =>
    intro h
    cases t with
    | nil => simp [specCTs, lastCT_elem (h s (by simp))]
    | cons u v =>
      have := ih (fun x hx => h x (by simp [hx]))
      simp only [specCTs, List.map_cons] at this ⊢
      rw [this]

theorem specCTs_append_last : ∀ (l : List Cons) (b : Cons), (∀ s ∈ l, IsElem s) →
    specCTs (l ++ [b]) = l.map spec1 ++ [lastCT b] := by
  intro l
  induction l with
  | nil => intro b _; rfl
  | cons s t ih =>
    intro b h
    have := ih b (fun x hx => h x (by simp [hx]))
    cases t with
    | nil => simp [specCTs]
    | cons u v =>
      simp only [List.cons_append, specCTs, List.map_cons] at this ⊢
      rw [this]

theorem isElem_specs_level : ∀ (c : Cons), IsLevelNoExt c → ∀ s ∈ specs c, IsElem s := by
  intro c
  induction c with
  | serial a b iha _ =>
    intro h s hs
    simp only [specs, List.mem_append, List.mem_singleton] at hs
    rcases hs with hs | rfl
    · exact iha h.1 s hs
    · exact h.2
  | refine a b _ _ => intro h; exact absurd h (by simp [IsLevelNoExt, IsElem])
  | single v => intro h s hs; simp [specs] at hs; subst hs; exact h
  | range lo hi => intro h s hs; simp [specs] at hs; subst hs; exact h
  | union a b _ _ => intro h s hs; simp [specs] at hs; subst hs; exact h
  | inter a b _ _ => intro h s hs; simp [specs] at hs; subst hs; exact h
  | except a b _ _ => intro h s hs; simp [specs] at hs; subst hs; exact h
  | paren a _ => intro h s hs; simp [specs] at hs; subst hs; exact h
  | size a _ => intro h; exact absurd h (by simp [IsLevelNoExt, IsElem])
  | ext r _ => intro h; exact absurd h (by simp [IsLevelNoExt, IsElem])
  | exta r a _ _ => intro h; exact absurd h (by simp [IsLevelNoExt, IsElem])



theorem levelEls_noext : ∀ (c : Cons), IsLevelNoExt c → levelEls c = (specs c).map spec1 := by
  intro c
  induction c with
  | serial a b iha _ =>
    intro h
    simp only [levelEls, specs, List.map_append, List.map_cons, List.map_nil]
    rw [iha h.1, specEls_elem h.2]; rfl
  | refine a b _ _ => intro h; exact absurd h (by simp [IsLevelNoExt, IsElem])
  | single v => intro h; exact specEls_elem h
  | range lo hi => intro h; exact specEls_elem h
  | union a b _ _ => intro h; exact specEls_elem h
  | inter a b _ _ => intro h; exact specEls_elem h
  | except a b _ _ => intro h; exact specEls_elem h
  | paren a _ => intro h; exact specEls_elem h
  | size a _ => intro h; exact absurd h (by simp [IsLevelNoExt, IsElem])
  | ext r _ => intro h; exact absurd h (by simp [IsLevelNoExt, IsElem])
  | exta r a _ _ => intro h; exact absurd h (by simp [IsLevelNoExt, IsElem])

theorem levelEls_last : ∀ (c : Cons), IsLevelLast c → levelEls c = specCTs (specs c) := by
  intro c
  cases c with
  | serial a b =>
    intro h
    simp only [levelEls, specs]
    rw [levelEls_noext a h.1, specEls_spec h.2, specCTs_append_last _ _ (isElem_specs_level a h.1)]; rfl
  | refine a b => intro h; exact absurd h (by simp [IsLevelLast, IsSpec, IsElem])
  | single v => intro h; exact specEls_spec h
  | range lo hi => intro h; exact specEls_spec h
  | union a b => intro h; exact specEls_spec h
  | inter a b => intro h; exact specEls_spec h
  | except a b => intro h; exact specEls_spec h
  | paren a => intro h; exact specEls_spec h
  | size a => intro h; exact absurd h (by simp [IsLevelLast, IsSpec, IsElem])
  | ext r => intro h; exact specEls_spec h
  | exta r a => intro h; exact absurd h (by simp [IsLevelLast, IsSpec, IsElem])

/-- `_remove_extensions` leaves an element tree alone -/
theorem removeExt_elemCT : ∀ (e : Cons), IsElem e → removeExt (elemCT e) = elemCT e ∧ elemCT e ≠ .ext := by
  intro e
  induction e with
  | single v => intro _; simp [elemCT, removeExt]
  | range lo hi => intro _; simp [elemCT, removeExt]
  | union a b iha ihb =>
    intro h
    obtain ⟨a1, a2⟩ := iha h.1; obtain ⟨b1, b2⟩ := ihb h.2
    refine ⟨?_, by simp [elemCT]⟩
    cases ha : elemCT a <;> cases hb : elemCT b <;> simp_all [elemCT, removeExt, removeExtList]
  | inter a b iha ihb =>
    intro h
    obtain ⟨a1, a2⟩ := iha h.1; obtain ⟨b1, b2⟩ := ihb h.2
    refine ⟨?_, by simp [elemCT]⟩
    cases ha : elemCT a <;> cases hb : elemCT b <;> simp_all [elemCT, removeExt, removeExtList]
  | except a b iha ihb =>
    intro h
    obtain ⟨a1, a2⟩ := iha h.1; obtain ⟨b1, b2⟩ := ihb h.2
    refine ⟨?_, by simp [elemCT]⟩
    cases ha : elemCT a <;> cases hb : elemCT b <;> simp_all [elemCT, removeExt, removeExtList]
  | paren a iha =>
    intro h
    obtain ⟨a1, a2⟩ := iha h
    refine ⟨?_, by simp [elemCT]⟩
    cases ha : elemCT a <;> simp_all [elemCT, removeExt, removeExtList]
  | size a _ => intro h; exact absurd h (by simp [IsElem])
  | ext r _ => intro h; exact absurd h (by simp [IsElem])
  | exta r a _ _ => intro h; exact absurd h (by simp [IsElem])
  | serial a b _ _ => intro h; exact absurd h (by simp [IsElem])
  | refine a b _ _ => intro h; exact absurd h (by simp [IsElem])



theorem removeExt_spec1 {s : Cons} (h : IsElem s) : removeExt (spec1 s) = spec1 s ∧ spec1 s ≠ .ext := by
  cases s with
  | paren x => exact removeExt_elemCT x h
  | single v => exact removeExt_elemCT _ h
  | range lo hi => exact removeExt_elemCT _ h
  | union a b => exact removeExt_elemCT _ h
  | inter a b => exact removeExt_elemCT _ h
  | except a b => exact removeExt_elemCT _ h
  | size a => exact absurd h (by simp [IsElem])
  | ext r => exact absurd h (by simp [IsElem])
  | exta r a => exact absurd h (by simp [IsElem])
  | serial a b => exact absurd h (by simp [IsElem])
  | refine a b => exact absurd h (by simp [IsElem])

theorem removeExtList_cons_ne {c : CT} (h : c ≠ .ext) (rest : List CT) :
    removeExtList (c :: rest) = removeExt c :: removeExtList rest := by
  cases c <;> simp_all [removeExtList]

theorem removeExtList_map : ∀ (l : List Cons), (∀ s ∈ l, IsElem s) → removeExtList (l.map spec1) = l.map spec1 := by
  intro l
  induction l with
  | nil => intro _; rfl
  | cons s t ih =>
    intro h
    obtain ⟨e1, e2⟩ := removeExt_spec1 (h s (by simp))
    rw [List.map_cons, removeExtList_cons_ne e2, e1, ih (fun x hx => h x (by simp [hx]))]

theorem lastCT_ne_ext {s : Cons} (h : IsSpec s) : lastCT s ≠ .ext := by
  cases s <;> simp_all [lastCT, IsSpec, IsElem, spec1, elemCT]
  exact (removeExt_elemCT _ h).2

theorem removeExtTop_cons_cons {c d : CT} (h : c ≠ .ext) (rest : List CT) :
    removeExtTop (c :: d :: rest) = removeExt c :: removeExtTop (d :: rest) := by
  cases c <;> simp_all [removeExtTop]

theorem removeExtTop_single {c : CT} (h : c ≠ .ext) : removeExtTop [c] = [c] := by
  cases c <;> simp_all [removeExtTop]

theorem removeExtTop_append_last : ∀ (l : List Cons) (c : CT), (∀ s ∈ l, IsElem s) → c ≠ .ext →
    removeExtTop (l.map spec1 ++ [c]) = l.map spec1 ++ [c] := by
  intro l
  induction l with
  | nil => intro c _ hc; exact removeExtTop_single hc
  | cons s t ih =>
    intro c h hc
    obtain ⟨e1, e2⟩ := removeExt_spec1 (h s (by simp))
    have := ih c (fun x hx => h x (by simp [hx])) hc
    cases ht : t.map spec1 ++ [c] with
    | nil => simp at ht
    | cons d rest =>
      rw [List.map_cons, List.cons_append, ht, removeExtTop_cons_cons e2, e1, ← ht, this]



/-- a non-empty list of specs, all element trees except that the last may be extensible -/
def LastOK : List Cons → Prop
  | [] => False
  | [s] => IsSpec s
  | s :: t => IsElem s ∧ LastOK t

theorem lastOK_append : ∀ (l : List Cons) (b : Cons), (∀ s ∈ l, IsElem s) → IsSpec b → LastOK (l ++ [b]) := by
  intro l
  induction l with
  | nil => intro b _ hb; exact hb
  | cons s t ih =>
    intro b h hb
    have := ih b (fun x hx => h x (by simp [hx])) hb
    cases ht : t ++ [b] with
    | nil => simp at ht
    | cons d rest =>
      rw [List.cons_append, ht]; rw [ht] at this
      exact ⟨h s (by simp), this⟩

theorem lastOK_append_list : ∀ (l m : List Cons), (∀ s ∈ l, IsElem s) → LastOK m → LastOK (l ++ m) := by
  intro l
  induction l with
  | nil => intro m _ hm; exact hm
  | cons s t ih =>
    intro m h hm
    have := ih m (fun x hx => h x (by simp [hx])) hm
    cases ht : t ++ m with
    | nil => rw [ht] at this; exact absurd this (by simp [LastOK])
    | cons d rest =>
      rw [List.cons_append, ht]; rw [ht] at this
      exact ⟨h s (by simp), this⟩

theorem specCTs_cons_ne (s : Cons) (t : List Cons) : ∃ d rest, specCTs (s :: t) = d :: rest := by
  cases t with
  | nil => exact ⟨_, _, rfl⟩
  | cons u v => exact ⟨_, _, rfl⟩

theorem removeExtTop_specCTs : ∀ (l : List Cons), LastOK l → removeExtTop (specCTs l) = specCTs l := by
  intro l
  induction l with
  | nil => intro h; exact absurd h (by simp [LastOK])
  | cons s t ih =>
    intro h
    cases t with
    | nil => exact removeExtTop_single (lastCT_ne_ext h)
    | cons u v =>
      obtain ⟨e1, e2⟩ := removeExt_spec1 h.1
      obtain ⟨d, rest, hd⟩ := specCTs_cons_ne u v
      have := ih h.2
      show removeExtTop (spec1 s :: specCTs (u :: v)) = spec1 s :: specCTs (u :: v)
      rw [hd] at this ⊢
      rw [removeExtTop_cons_cons e2, e1, this]

theorem specCTs_append : ∀ (l m : List Cons), (∀ s ∈ l, IsElem s) → m ≠ [] →
    specCTs (l ++ m) = l.map spec1 ++ specCTs m := by
  intro l
  induction l with
  | nil => intro m _ _; rfl
  | cons s t ih =>
    intro m h hm
    have := ih m (fun x hx => h x (by simp [hx])) hm
    cases ht : t ++ m with
    | nil => simp at ht; exact absurd ht.2 hm
    | cons d rest =>
      rw [List.cons_append, ht, List.map_cons, List.cons_append]
      show spec1 s :: specCTs (d :: rest) = _
      rw [← ht, this]

theorem lastOK_level : ∀ (c : Cons), IsLevelLast c → LastOK (specs c) := by
  intro c h
  cases c with
  | serial a b => exact lastOK_append _ b (isElem_specs_level a h.1) h.2
  | refine a b => exact absurd h (by simp [IsLevelLast, IsSpec, IsElem])
  | size a => exact absurd h (by simp [IsLevelLast, IsSpec, IsElem])
  | exta r a => exact absurd h (by simp [IsLevelLast, IsSpec, IsElem])
  | single v => exact h
  | range lo hi => exact h
  | union a b => exact h
  | inter a b => exact h
  | except a b => exact h
  | paren a => exact h
  | ext r => exact h

theorem isSpec_of_elem {s : Cons} (h : IsElem s) : IsSpec s := by
  cases s <;> simp_all [IsSpec, IsElem]

theorem isLevelLast_of_noext : ∀ (c : Cons), IsLevelNoExt c → IsLevelLast c := by
  intro c h
  cases c with
  | serial a b => exact ⟨h.1, isSpec_of_elem h.2⟩
  | refine a b => exact absurd h (by simp [IsLevelNoExt, IsElem])
  | size a => exact absurd h (by simp [IsLevelNoExt, IsElem])
  | ext r => exact absurd h (by simp [IsLevelNoExt, IsElem])
  | exta r a => exact absurd h (by simp [IsLevelNoExt, IsElem])
  | single v => exact h
  | range lo hi => exact h
  | union a b => exact h
  | inter a b => exact h
  | except a b => exact h
  | paren a => exact h

theorem specs_ne_nil : ∀ (c : Cons), specs c ≠ [] := by
  intro c
  induction c with
  | refine a b iha _ => simp [specs, iha]
  | serial a b _ _ => simp [specs]
  | single v => simp [specs]
  | range lo hi => simp [specs]
  | union a b _ _ => simp [specs]
  | inter a b _ _ => simp [specs]
  | except a b _ _ => simp [specs]
  | paren a _ => simp [specs]
  | size a _ => simp [specs]
  | ext r _ => simp [specs]
  | exta r a _ _ => simp [specs]

theorem combinedEls_chain : ∀ (a : Cons), IsChainNoExt a →
    combinedEls a = (specs a).map spec1 ∧ ∀ s ∈ specs a, IsElem s := by
  intro a
  induction a with
  | refine a b iha _ =>
    intro h
    obtain ⟨e1, e2⟩ := iha h.1
    have e3 := isElem_specs_level b h.2
    refine ⟨?_, ?_⟩
    · simp only [combinedEls, specs, List.map_append]
      rw [e1, removeExtList_map _ e2, levelEls_noext b h.2]
    · intro s hs
      simp only [specs, List.mem_append] at hs
      rcases hs with hs | hs
      · exact e2 s hs
      · exact e3 s hs
  | serial a b _ _ =>
    intro h
    have hl : IsLevelNoExt (.serial a b) := h
    have e3 := isElem_specs_level _ hl
    refine ⟨?_, e3⟩
    show removeExtTop (levelEls (.serial a b)) = _
    rw [levelEls_last _ (isLevelLast_of_noext _ hl), removeExtTop_specCTs _ (lastOK_level _ (isLevelLast_of_noext _ hl)),
      specCTs_elems _ e3]
  | single v => intro h; exact ⟨by simp [combinedEls, levelEls, elemCT, wrapSet, setEls, removeExtTop, specs, spec1], by intro s hs; simp [specs] at hs; subst hs; exact h⟩
  | range lo hi => intro h; exact ⟨by simp [combinedEls, levelEls, elemCT, wrapSet, setEls, removeExtTop, specs, spec1], by intro s hs; simp [specs] at hs; subst hs; exact h⟩
  | union a b _ _ => intro h; exact ⟨by simp [combinedEls, levelEls, elemCT, wrapSet, setEls, removeExtTop, specs, spec1], by intro s hs; simp [specs] at hs; subst hs; exact h⟩
  | inter a b _ _ => intro h; exact ⟨by simp [combinedEls, levelEls, elemCT, wrapSet, setEls, removeExtTop, specs, spec1], by intro s hs; simp [specs] at hs; subst hs; exact h⟩
  | except a b _ _ => intro h; exact ⟨by simp [combinedEls, levelEls, elemCT, wrapSet, setEls, removeExtTop, specs, spec1], by intro s hs; simp [specs] at hs; subst hs; exact h⟩
  | paren a _ =>
    intro h
    have hl : IsLevelNoExt (.paren a) := h
    have e3 := isElem_specs_level _ hl
    refine ⟨?_, e3⟩
    show removeExtTop (levelEls (.paren a)) = _
    rw [levelEls_last _ (isLevelLast_of_noext _ hl), removeExtTop_specCTs _ (lastOK_level _ (isLevelLast_of_noext _ hl)),
      specCTs_elems _ e3]
  | size a _ => intro h; exact absurd h (by simp [IsChainNoExt, IsLevelNoExt, IsElem])
  | ext r _ => intro h; exact absurd h (by simp [IsChainNoExt, IsLevelNoExt, IsElem])
  | exta r a _ _ => intro h; exact absurd h (by simp [IsChainNoExt, IsLevelNoExt, IsElem])



theorem combinedEls_dom : ∀ (c : Cons), DomV c → combinedEls c = specCTs (specs c) ∧ LastOK (specs c) := by
  intro c h
  cases c with
  | refine a b =>
    obtain ⟨e1, e2⟩ := combinedEls_chain a h.1
    refine ⟨?_, lastOK_append_list _ _ e2 (lastOK_level b h.2)⟩
    simp only [combinedEls, specs]
    rw [e1, removeExtList_map _ e2, levelEls_last b h.2, specCTs_append _ _ e2 (specs_ne_nil b)]
  | serial a b =>
    have hl : IsLevelLast (.serial a b) := h
    refine ⟨?_, lastOK_level _ hl⟩
    show removeExtTop (levelEls (.serial a b)) = _
    rw [levelEls_last _ hl, removeExtTop_specCTs _ (lastOK_level _ hl)]
  | single v => exact ⟨rfl, h⟩
  | range lo hi => exact ⟨rfl, h⟩
  | union a b =>
    have hl : IsLevelLast (.union a b) := h
    refine ⟨?_, lastOK_level _ hl⟩
    show removeExtTop (levelEls (.union a b)) = _
    rw [levelEls_last _ hl, removeExtTop_specCTs _ (lastOK_level _ hl)]
  | inter a b =>
    have hl : IsLevelLast (.inter a b) := h
    refine ⟨?_, lastOK_level _ hl⟩
    show removeExtTop (levelEls (.inter a b)) = _
    rw [levelEls_last _ hl, removeExtTop_specCTs _ (lastOK_level _ hl)]
  | except a b =>
    have hl : IsLevelLast (.except a b) := h
    refine ⟨?_, lastOK_level _ hl⟩
    show removeExtTop (levelEls (.except a b)) = _
    rw [levelEls_last _ hl, removeExtTop_specCTs _ (lastOK_level _ hl)]
  | paren a =>
    have hl : IsLevelLast (.paren a) := h
    refine ⟨?_, lastOK_level _ hl⟩
    show removeExtTop (levelEls (.paren a)) = _
    rw [levelEls_last _ hl, removeExtTop_specCTs _ (lastOK_level _ hl)]
  | ext r =>
    have hl : IsLevelLast (.ext r) := h
    refine ⟨?_, lastOK_level _ hl⟩
    show removeExtTop (levelEls (.ext r)) = _
    rw [levelEls_last _ hl, removeExtTop_specCTs _ (lastOK_level _ hl)]
  | size a => exact absurd h (by simp [DomV, IsLevelLast, IsSpec, IsElem])
  | exta r a => exact absurd h (by simp [DomV, IsLevelLast, IsSpec, IsElem])

/-- `NonDeg` / `LitsOK` along the list of serially applied constraints -/
def NonDegL (P : ISet) : List Cons → Prop
  | [] => True
  | s :: t => NonDeg P s ∧ NonDegL (visible P s) t

theorem nonDegL_append : ∀ (l m : List Cons) (P : ISet),
    NonDegL P (l ++ m) ↔ NonDegL P l ∧ NonDegL (l.foldl (fun Q s => visible Q s) P) m := by
  intro l
  induction l with
  | nil => intro m P; simp [NonDegL]
  | cons s t ih => intro m P; simp [NonDegL, ih, and_assoc]

theorem nonDegL_specs : ∀ (c : Cons) (P : ISet), NonDeg P c → NonDegL P (specs c) := by
  intro c
  induction c with
  | serial a b iha _ =>
    intro P h
    rw [specs, nonDegL_append, ← visible_specs]
    exact ⟨iha P h.1, h.2, trivial⟩
  | refine a b iha ihb =>
    intro P h
    rw [specs, nonDegL_append, ← visible_specs]
    exact ⟨iha P h.1, ihb _ h.2⟩
  | single v => intro P h; exact ⟨h, trivial⟩
  | range lo hi => intro P h; exact ⟨h, trivial⟩
  | union a b _ _ => intro P h; exact ⟨h, trivial⟩
  | inter a b _ _ => intro P h; exact ⟨h, trivial⟩
  | except a b _ _ => intro P h; exact ⟨h, trivial⟩
  | paren a _ => intro P h; exact ⟨h, trivial⟩
  | size a _ => intro P h; exact ⟨h, trivial⟩
  | ext r _ => intro P h; exact ⟨h, trivial⟩
  | exta r a _ _ => intro P h; exact ⟨h, trivial⟩

theorem litsOK_specs : ∀ (c : Cons), LitsOK c → ∀ s ∈ specs c, LitsOK s := by
  intro c
  induction c with
  | serial a b iha _ =>
    intro h s hs
    simp only [specs, List.mem_append, List.mem_singleton] at hs
    rcases hs with hs | rfl
    · exact iha h.1 s hs
    · exact h.2
  | refine a b iha ihb =>
    intro h s hs
    simp only [specs, List.mem_append] at hs
    rcases hs with hs | hs
    · exact iha h.1 s hs
    · exact ihb h.2 s hs
  | single v => intro h s hs; simp [specs] at hs; subst hs; exact h
  | range lo hi => intro h s hs; simp [specs] at hs; subst hs; exact h
  | union a b _ _ => intro h s hs; simp [specs] at hs; subst hs; exact h
  | inter a b _ _ => intro h s hs; simp [specs] at hs; subst hs; exact h
  | except a b _ _ => intro h s hs; simp [specs] at hs; subst hs; exact h
  | paren a _ => intro h s hs; simp [specs] at hs; subst hs; exact h
  | size a _ => intro h s hs; simp [specs] at hs; subst hs; exact h
  | ext r _ => intro h s hs; simp [specs] at hs; subst hs; exact h
  | exta r a _ _ => intro h s hs; simp [specs] at hs; subst hs; exact h



theorem compute_spec1 {p : Params} (hc : p.compat = true) (hn : p.nkm = false) {s : Cons} (hs : IsElem s)
    {mm0 : Option Range} {P : ISet} (hM : MM p mm0 P) (hnd : NonDeg P s) (hl : LitsOK s) :
    ∃ res, compute p (spec1 s) mm0 true = (res, true) ∧
      (Hard res ∨ ∃ r, res = .ok r ∧ Repr r (visible P s) ∧ r.Clean) := by
  cases s with
  | paren x => exact compute_elem hc hn x hs mm0 P hM hnd hl
  | single v => exact compute_elem hc hn _ hs mm0 P hM hnd hl
  | range lo hi => exact compute_elem hc hn _ hs mm0 P hM hnd hl
  | union a b => exact compute_elem hc hn _ hs mm0 P hM hnd hl
  | inter a b => exact compute_elem hc hn _ hs mm0 P hM hnd hl
  | except a b => exact compute_elem hc hn _ hs mm0 P hM hnd hl
  | size a => exact absurd hs (by simp [IsElem])
  | ext r => exact absurd hs (by simp [IsElem])
  | exta r a => exact absurd hs (by simp [IsElem])
  | serial a b => exact absurd hs (by simp [IsElem])
  | refine a b => exact absurd hs (by simp [IsElem])

/-- one serially applied element constraint: `(range)(s)` -/
theorem set_step {p : Params} (hc : p.compat = true) (hn : p.nkm = false) {s : Cons} (hs : IsElem s)
    {range : Range} {P : ISet} (hr : Repr range P) (hcl : range.Clean) (hnd : NonDeg P s) (hl : LitsOK s)
    (rest : List CT) (mm : Option Range) :
    (∃ res, Hard res ∧ andLoop p true (spec1 s :: rest) range mm true = (res, true)) ∨
    ∃ range', Repr range' (visible P s) ∧ range'.Clean ∧
      andLoop p true (spec1 s :: rest) range mm true = andLoop p true rest range' mm true := by
  obtain ⟨res, h1, h2⟩ := compute_spec1 hc hn hs (MM.of_some hr hcl) hnd hl
  obtain ⟨y0, hy0⟩ : ∃ y, visible P s y = true := by
    cases s with
    | paren x => exact nonDeg_nonempty _ P hs hnd
    | single v => exact nonDeg_nonempty _ P hs hnd
    | range lo hi => exact nonDeg_nonempty _ P hs hnd
    | union a b => exact nonDeg_nonempty _ P hs hnd
    | inter a b => exact nonDeg_nonempty _ P hs hnd
    | except a b => exact nonDeg_nonempty _ P hs hnd
    | size a => exact absurd hs (by simp [IsElem])
    | ext r => exact absurd hs (by simp [IsElem])
    | exta r a => exact absurd hs (by simp [IsElem])
    | serial a b => exact absurd hs (by simp [IsElem])
    | refine a b => exact absurd hs (by simp [IsElem])
  rcases h2 with h2 | ⟨ta, rfl, hta, cta⟩
  · exact Or.inl ⟨res, h2, andLoop_set_hard h1 h2⟩
  · rw [andLoop_set_ok h1 hta.incompat cta]
    cases hi1 : intersection range ta true p.strictOER with
    | error e => exact Or.inl ⟨_, hard_ofIErr e, rfl⟩
    | ok r1 =>
      obtain ⟨q1, q2, q3, q4⟩ := inter_canon hr hta ⟨y0, visible_sub s P y0 hy0, hy0⟩ hi1
      refine Or.inr ⟨canonicalize r1, q1.congr (fun y => ?_), ⟨?_, ?_, ?_⟩, rfl⟩
      · cases h1 : visible P s y with
        | true => simp [visible_sub s P y h1]
        | false => simp
      · rw [q2, hcl.1, cta.1]; rfl
      · rw [q4, hcl.2.1, cta.1]; rfl
      · rw [q3, hcl.2.2, cta.2.2]; simp

/-- a prefix of element constraints applied serially -/
theorem set_prefix {p : Params} (hc : p.compat = true) (hn : p.nkm = false) :
    ∀ (l : List Cons), (∀ s ∈ l, IsElem s) → (∀ s ∈ l, LitsOK s) →
    ∀ (range : Range) (P : ISet), Repr range P → range.Clean → NonDegL P l →
    ∀ (rest : List CT) (mm : Option Range),
    (∃ res, Hard res ∧ andLoop p true (l.map spec1 ++ rest) range mm true = (res, true)) ∨
    ∃ range', Repr range' (l.foldl (fun Q s => visible Q s) P) ∧ range'.Clean ∧
      andLoop p true (l.map spec1 ++ rest) range mm true = andLoop p true rest range' mm true := by
  intro l
  induction l with
  | nil => intro _ _ range P hr hcl _ rest mm; exact Or.inr ⟨range, hr, hcl, rfl⟩
  | cons s t ih =>
    intro he hl range P hr hcl hnd rest mm
    rw [List.map_cons, List.cons_append]
    rcases set_step hc hn (he s (by simp)) hr hcl hnd.1 (hl s (by simp)) (t.map spec1 ++ rest) mm with h | ⟨r', h1, h2, h3⟩
    · exact Or.inl h
    · rw [h3]
      exact ih (fun x hx => he x (by simp [hx])) (fun x hx => hl x (by simp [hx])) r' _ h1 h2 hnd.2 rest mm



theorem compute_ext_true {p : Params} (hc : p.compat = true) (hn : p.nkm = false) {mm0 : Option Range}
    (hcl : (rangeOf (mmEff p mm0)).Clean) : compute p .ext mm0 true = (.erange, true) := by
  rw [compute_eq_body hc hn _ _ _ hcl]; rfl

theorem orStep_erange (range : Range) (ex' : Bool) :
    orStep range (.erange, ex') = .inr ({ range with ext := true, notOER := true }, ex') := rfl

/-- `(root, ...)`: the CSV accumulation of one canonical operand followed by the marker -/
theorem or_one_ext {ta range : Range} {Sa : Int → Bool} (ha : Repr ta Sa) (ca : ta.Clean)
    (_hr : range.Clean) (hre : range.empty = false) :
    let r : Range := { ta with ext := ta.ext || range.ext, notOER := ta.notOER || range.notOER,
                               empty := ta.empty || range.empty }
    let R : Range := { mergeIn r ta with ext := true, notOER := true }
    Repr (canonicalize R) Sa ∧ (canonicalize R).ext = true ∧ (canonicalize R).notOER = true ∧
      (canonicalize R).notPER = false := by
  intro r R
  have hels : R.els = ta.els ++ ta.leaves := rfl
  have hne : R.els ≠ [] := by
    rw [hels]; intro h
    have := leaves_ne_nil ta
    simp at h; exact this h.2
  have hg : Good R.els := by
    rw [hels]; intro p hp
    simp only [List.mem_append] at hp
    rcases hp with hp | hp
    · exact ha.good p (els_sub_leaves ta p hp)
    · exact ha.good p hp
  have hd : ∀ y, den R.els y = Sa y := by
    intro y
    rw [hels, den_append, ha.den y]
    have : den ta.els y = true → Sa y = true := by
      intro h
      obtain ⟨i, hi, hy⟩ := den_eq_true.mp h
      rw [← ha.den y]; exact den_eq_true.mpr ⟨i, els_sub_leaves ta i hi, hy⟩
    cases h1 : den ta.els y <;> cases h2 : Sa y <;> simp_all
  have hemp : R.empty = false := by
    show (ta.empty || range.empty) = false
    rw [ha.empty, hre]; rfl
  have hinc : R.incompat = false := ha.incompat
  obtain ⟨_, _, _, _, c7, _, c9, c10⟩ := canonicalize_ne hne hg
  refine ⟨repr_of_canonicalize hne hg hd hemp hinc, by rw [c7], by rw [c9], ?_⟩
  rw [c10]; show (ta.notPER || ta.notPER) = false
  rw [ca.2.2]; rfl

/-- **`(root, ...)`** computed against the parent `range` -/
theorem compute_csv_ext {p : Params} (hc : p.compat = true) (hn : p.nkm = false) {r : Cons} (hs : IsElem r)
    {range : Range} {P : ISet} (hr : Repr range P) (hcl : range.Clean) (hnd : NonDeg P r) (hl : LitsOK r) :
    ∃ res, compute p (.csv [elemCT r, .ext]) (some range) true = (res, true) ∧
      (Hard res ∨ ∃ t, res = .ok t ∧ Repr t (visible P r) ∧ t.ext = true ∧ t.notOER = true ∧ t.notPER = false) := by
  have hM : MM p (some range) P := MM.of_some hr hcl
  have e : mmEff p (some range) = some range := by unfold mmEff; cases p.req <;> rfl
  rw [compute_eq_body hc hn _ _ _ hM.clean]
  show ∃ res, orFirst p [elemCT r, .ext] (rangeOf (mmEff p (some range))) (mmEff p (some range)) true = (res, true) ∧ _
  rw [e]
  have e2 : rangeOf (some range) = range := rfl
  rw [e2]
  obtain ⟨ra, hra, ha⟩ := compute_elem hc hn r hs (some range) P hM hnd hl
  rcases ha with ha | ⟨ta, rfl, hta, cta⟩
  · exact ⟨ra, orFirst_cons_hard hra ha, Or.inl ha⟩
  · rw [orFirst_cons_ok hra hta.incompat, hra, orStep_ok hta.incompat (by simp [hta.empty])]
    simp only
    rw [orRest_cons, compute_ext_true hc hn (by rw [e]; exact hcl), orStep_erange]
    simp only
    obtain ⟨q1, q2, q3, q4⟩ := or_one_ext hta cta hcl hr.empty
    rw [orRest_nil]
    exact ⟨_, orFinish_clean q4, Or.inr ⟨_, rfl, q1, q2, q3, q4⟩⟩



/-- serial application of a list of constraints to the parent set -/
def visL (P : ISet) (l : List Cons) : ISet := l.foldl (fun Q s => visible Q s) P

theorem visL_append (P : ISet) (l m : List Cons) : visL P (l ++ m) = visL (visL P l) m := by
  simp [visL, List.foldl_append]

theorem visible_eq_visL (c : Cons) (P : ISet) : visible P c = visL P (specs c) := visible_specs c P

theorem extensible_elem : ∀ (e : Cons), IsElem e → extensible e = false := by
  intro e
  induction e with
  | single v => intro _; rfl
  | range lo hi => intro _; rfl
  | union a b iha ihb => intro h; simp [extensible, iha h.1, ihb h.2]
  | inter a b iha ihb => intro h; simp [extensible, iha h.1, ihb h.2]
  | except a b iha _ => intro h; simp [extensible, iha h.1]
  | paren a iha => intro h; simp [extensible, iha h]
  | size a _ => intro h; exact absurd h (by simp [IsElem])
  | ext r _ => intro h; exact absurd h (by simp [IsElem])
  | exta r a _ _ => intro h; exact absurd h (by simp [IsElem])
  | serial a b _ _ => intro h; exact absurd h (by simp [IsElem])
  | refine a b _ _ => intro h; exact absurd h (by simp [IsElem])

theorem oerVisible_elem {e : Cons} (h : IsElem e) (P : ISet) : oerVisible P e = visible P e := by
  have := extensible_elem e h
  cases e <;> simp_all [oerVisible, IsElem]

theorem oerVisible_levelNoExt : ∀ (a : Cons), IsLevelNoExt a → ∀ P, oerVisible P a = visible P a := by
  intro a
  induction a with
  | serial a b iha _ =>
    intro h P
    simp [oerVisible, visible, extensible_elem b h.2, iha h.1 P]
  | refine a b _ _ => intro h; exact absurd h (by simp [IsLevelNoExt, IsElem])
  | single v => intro h P; exact oerVisible_elem h P
  | range lo hi => intro h P; exact oerVisible_elem h P
  | union a b _ _ => intro h P; exact oerVisible_elem h P
  | inter a b _ _ => intro h P; exact oerVisible_elem h P
  | except a b _ _ => intro h P; exact oerVisible_elem h P
  | paren a _ => intro h P; exact oerVisible_elem h P
  | size a _ => intro h; exact absurd h (by simp [IsLevelNoExt, IsElem])
  | ext r _ => intro h; exact absurd h (by simp [IsLevelNoExt, IsElem])
  | exta r a _ _ => intro h; exact absurd h (by simp [IsLevelNoExt, IsElem])

theorem oerVisible_chainNoExt : ∀ (a : Cons), IsChainNoExt a → ∀ P, oerVisible P a = visible P a := by
  intro a
  induction a with
  | refine a b iha _ =>
    intro h P
    simp [oerVisible, visible, iha h.1 P, oerVisible_levelNoExt b h.2]
  | serial a b _ _ => intro h P; exact oerVisible_levelNoExt _ h P
  | single v => intro h P; exact oerVisible_levelNoExt _ h P
  | range lo hi => intro h P; exact oerVisible_levelNoExt _ h P
  | union a b _ _ => intro h P; exact oerVisible_levelNoExt _ h P
  | inter a b _ _ => intro h P; exact oerVisible_levelNoExt _ h P
  | except a b _ _ => intro h P; exact oerVisible_levelNoExt _ h P
  | paren a _ => intro h P; exact oerVisible_levelNoExt _ h P
  | size a _ => intro h; exact absurd h (by simp [IsChainNoExt, IsLevelNoExt, IsElem])
  | ext r _ => intro h; exact absurd h (by simp [IsChainNoExt, IsLevelNoExt, IsElem])
  | exta r a _ _ => intro h; exact absurd h (by simp [IsChainNoExt, IsLevelNoExt, IsElem])

/-- what Spec says about one level whose last constraint may be extensible -/
theorem level_split : ∀ (b0 : Cons), IsLevelLast b0 →
    ∃ init b, specs b0 = init ++ [b] ∧ (∀ s ∈ init, IsElem s) ∧ IsSpec b ∧ extensible b0 = extensible b ∧
      ∀ Q, oerVisible Q b0 = (if extensible b then visL Q init else visible (visL Q init) b) := by
  intro b0 h
  have single : ∀ c : Cons, IsSpec c → specs c = [c] → (∀ Q, oerVisible Q c = if extensible c then Q else visible Q c) →
      ∃ init b, specs c = init ++ [b] ∧ (∀ s ∈ init, IsElem s) ∧ IsSpec b ∧ extensible c = extensible b ∧
      ∀ Q, oerVisible Q c = (if extensible b then visL Q init else visible (visL Q init) b) :=
    fun c hc hs ho => ⟨[], c, by simp [hs], by simp, hc, rfl, fun Q => by simpa [visL] using ho Q⟩
  cases b0 with
  | serial a s =>
    refine ⟨specs a, s, rfl, isElem_specs_level a h.1, h.2, rfl, fun Q => ?_⟩
    simp only [oerVisible, oerVisible_levelNoExt a h.1, visible_eq_visL a]
  | refine a b => exact absurd h (by simp [IsLevelLast, IsSpec, IsElem])
  | size a => exact absurd h (by simp [IsLevelLast, IsSpec, IsElem])
  | exta r a => exact absurd h (by simp [IsLevelLast, IsSpec, IsElem])
  | single v => exact single _ h rfl (fun _ => rfl)
  | range lo hi => exact single _ h rfl (fun _ => rfl)
  | union a b => exact single _ h rfl (fun _ => rfl)
  | inter a b => exact single _ h rfl (fun _ => rfl)
  | except a b => exact single _ h rfl (fun _ => rfl)
  | paren a => exact single _ h rfl (fun _ => rfl)
  | ext r => exact single _ h rfl (fun _ => rfl)

/-- what Spec says about a constraint of the guard domain, in terms of its serial members -/
theorem dom_split : ∀ (c : Cons), DomV c →
    ∃ init b, specs c = init ++ [b] ∧ (∀ s ∈ init, IsElem s) ∧ IsSpec b ∧ extensible c = extensible b ∧
      ∀ P, oerVisible P c = (if extensible b then visL P init else visible (visL P init) b) := by
  intro c h
  cases c with
  | refine a b0 =>
    obtain ⟨init, b, e1, e2, e3, e4, e5⟩ := level_split b0 h.2
    obtain ⟨_, e6⟩ := combinedEls_chain a h.1
    refine ⟨specs a ++ init, b, by simp [specs, e1], ?_, e3, by simp [extensible, e4], fun P => ?_⟩
    · intro s hs
      rcases List.mem_append.mp hs with hs | hs
      · exact e6 s hs
      · exact e2 s hs
    · simp only [oerVisible, oerVisible_chainNoExt a h.1, e5, visL_append, visible_eq_visL a]
  | serial a s => exact level_split _ h
  | single v => exact level_split _ h
  | range lo hi => exact level_split _ h
  | union a b => exact level_split _ h
  | inter a b => exact level_split _ h
  | except a b => exact level_split _ h
  | paren a => exact level_split _ h
  | ext r => exact level_split _ h
  | size a => exact absurd h (by simp [DomV, IsLevelLast, IsSpec, IsElem])
  | exta r a => exact absurd h (by simp [DomV, IsLevelLast, IsSpec, IsElem])



theorem isElem_of_spec_not_ext {b : Cons} (h : IsSpec b) (hne : ∀ r, b ≠ .ext r) : IsElem b := by
  cases b <;> simp_all [IsSpec]

/-- what the top-level ACT_CA_SET loop returns on the combined constraints of a type in the guard
    domain, starting from the clone `range0` of the parent (`P0` = all integers, or the naturals for SIZE) -/
theorem chain_top {p : Params} (hc : p.compat = true) (hn : p.nkm = false) {c : Cons} (hd : DomV c)
    {range0 : Range} {P0 : ISet} (hr0 : Repr range0 P0) (hcl0 : range0.Clean)
    (hnd : NonDeg P0 c) (hl : LitsOK c) (mm : Option Range) :
    ∃ res, andLoop p true (combinedEls c) range0 mm true = (res, true) ∧
      (Hard res ∨ ∃ r, res = .ok r ∧
        (if p.strictOER = true then Repr r (oerVisible P0 c) ∧ r.Clean
         else Repr r (visible P0 c) ∧ r.ext = extensible c ∧ r.notPER = false)) := by
  obtain ⟨e0, _⟩ := combinedEls_dom c hd
  obtain ⟨init, b, e1, e2, e3, e4, e5⟩ := dom_split c hd
  have hndl := nonDegL_specs c P0 hnd
  have hll := litsOK_specs c hl
  rw [e1] at hndl hll
  rw [nonDegL_append] at hndl
  have hndb : NonDeg (visL P0 init) b := hndl.2.1
  have hlb : LitsOK b := hll b (by simp)
  have hvis : visible P0 c = visible (visL P0 init) b := by
    rw [visible_eq_visL c, e1, visL_append]; rfl
  rw [e0, e1, specCTs_append_last _ _ e2]
  rcases set_prefix hc hn init e2 (fun s hs => hll s (by simp [hs])) range0 P0 hr0 hcl0 hndl.1 [lastCT b] mm with
    ⟨res, hh, hres⟩ | ⟨range', hr', hcl', hres⟩
  · exact ⟨res, hres, Or.inl hh⟩
  · rw [hres]
    change Repr range' (visL P0 init) at hr'
    by_cases hb : ∃ r0, b = .ext r0
    · -- the last constraint is `(r0, ...)`
      obtain ⟨r0, rfl⟩ := hb
      have hs : IsElem r0 := e3
      obtain ⟨rt, hrt, ht⟩ := compute_csv_ext hc hn hs hr' hcl' hndb hlb
      show ∃ res, andLoop p true [.csv [elemCT r0, .ext]] range' mm true = (res, true) ∧ _
      rcases ht with ht | ⟨t, rfl, ht1, ht2, ht3, ht4⟩
      · exact ⟨rt, andLoop_set_hard hrt ht, Or.inl ht⟩
      · rw [andLoop]
        have hrt' : compute p (.csv [elemCT r0, .ext]) (if true = true then some range' else mm) true = (.ok t, true) := by
          simpa using hrt
        rw [hrt']
        simp only [ht1.incompat, ht3, ht4, Bool.false_eq_true, if_false, Bool.true_and, Bool.false_and]
        by_cases hso : p.strictOER = true
        · -- X.696 8.2.4: not OER-visible, skipped
          simp only [hso, if_true]
          rw [andLoop_nil]
          refine ⟨_, rfl, Or.inr ⟨_, rfl, ?_, hcl'⟩⟩
          rw [e5 P0]; simp only [extensible, if_true]; exact hr'
        · have hso' : p.strictOER = false := by simpa using hso
          simp only [hso', Bool.false_eq_true, if_false]
          obtain ⟨y0, hy0⟩ := nonDeg_nonempty r0 _ hs hndb
          cases hi1 : intersection range' t true false with
          | error e => exact ⟨_, rfl, Or.inl (hard_ofIErr e)⟩
          | ok r1 =>
            simp only
            rw [andLoop_nil]
            obtain ⟨q1, q2, q3, _⟩ := inter_canon hr' ht1 ⟨y0, visible_sub r0 _ y0 hy0, hy0⟩ hi1
            refine ⟨_, rfl, Or.inr ⟨_, rfl, q1.congr (fun y => ?_), ?_, ?_⟩⟩
            · rw [hvis]; simp only [visible]
              cases h1 : visible (visL P0 init) r0 y with
              | true => simp [visible_sub r0 _ y h1]
              | false => simp
            · rw [q2, ht2, e4]; simp [extensible]
            · rw [q3, hcl'.2.2, ht4]; rfl
    · -- the last constraint is not extensible
      have hs : IsElem b := isElem_of_spec_not_ext e3 (fun r hr => hb ⟨r, hr⟩)
      have hlast : lastCT b = spec1 b := lastCT_elem hs
      rw [hlast]
      have hext : extensible c = false := by rw [e4]; exact extensible_elem b hs
      rcases set_step hc hn hs hr' hcl' hndb hlb [] mm with ⟨res, hh, hres2⟩ | ⟨r2, h1, h2, h3⟩
      · exact ⟨res, hres2, Or.inl hh⟩
      · rw [h3, andLoop_nil]
        refine ⟨_, rfl, Or.inr ⟨_, rfl, ?_⟩⟩
        by_cases hso : p.strictOER = true
        · simp only [hso, if_true]
          refine ⟨?_, h2⟩
          rw [e5 P0, extensible_elem b hs]; simpa using h1
        · simp only [hso]
          exact ⟨by rw [hvis]; exact h1, by rw [hext, h2.1], h2.2.2⟩


/-! ### small facts used by the property theorems -/

theorem repr_new : Repr Range.new ISet.univ ∧ Range.new.Clean := by
  refine ⟨(repr_single (r := Range.new) rfl (by decide) ?_ rfl rfl).congr (fun y => rfl), rfl, rfl, rfl⟩
  constructor <;> intro v hv <;> cases hv

theorem repr_sizeDefault : Repr sizeDefault ISet.nat ∧ sizeDefault.Clean := by
  refine ⟨(repr_single (r := sizeDefault) rfl (by decide) ?_ rfl rfl).congr (fun y => ?_), rfl, rfl, rfl⟩
  · constructor
    · intro v hv; cases hv; simp [INTMAX_MIN, INTMAX_MAX]
    · intro v hv; cases hv
  · simp [Iv.mem, sizeDefault, ISet.nat]

theorem repr_nonempty {r : Range} {S : Int → Bool} (h : Repr r S) : ∃ y, S y = true := by
  obtain ⟨hd, t, e1, _, _⟩ := h.ends
  obtain ⟨y, hy⟩ := Iv.wf_nonempty (h.good hd (by rw [e1]; simp)).1
  exact ⟨y, by rw [← h.den y, e1]; simp [hy]⟩

theorem domV_of_spec {a : Cons} (h : IsSpec a) : DomV a ∧ specs a = [a] := by
  cases a <;> simp_all [IsSpec, IsElem, DomV, IsLevelLast, specs]

theorem wrapSet_spec {a : Cons} (h : IsSpec a) : wrapSet (elemCT a) = .set [lastCT a] := by
  have := specEls_spec h
  cases he : elemCT a <;> simp_all [wrapSet, setEls]

theorem oerVisible_size (a : Cons) (P : ISet) :
    oerVisible P (.size a) = if extensible a then P else visible P a := rfl

theorem oerVisible_spec {a : Cons} (h : IsSpec a) (P : ISet) :
    oerVisible P a = if extensible a then P else visible P a := by
  cases a with
  | serial a b => exact absurd h (by simp [IsSpec, IsElem])
  | refine a b => exact absurd h (by simp [IsSpec, IsElem])
  | single v => rfl
  | range lo hi => rfl
  | union a b => rfl
  | inter a b => rfl
  | except a b => rfl
  | paren a => rfl
  | size a => rfl
  | ext r => rfl
  | exta r a => rfl


/-- the bound an edge stands for: a number, or none for MIN/MAX -/
def Edge.bound : Edge → Option Int
  | .val z => some z
  | _ => none

/-- `left` of a canonical range is the lower bound of the denoted set (X.691 10.3: "lb") -/
theorem Repr.lowerBound {r : Range} {S : Int → Bool} (h : Repr r S) : LowerBound S r.left.bound ∧ r.left ≠ .max := by
  obtain ⟨hd, t, e1, e2, _⟩ := h.ends
  have hwf := (h.good hd (by rw [e1]; simp)).1
  have hmem : ∀ y, hd.mem y = true → S y = true := fun y hy => by rw [← h.den y, e1]; simp [hy]
  rw [e2]
  obtain ⟨lo, hi⟩ := hd
  obtain ⟨w1, w2, w3⟩ := hwf
  have hlow : ∀ y, S y = true → Edge.leInt lo y = true := fun y hy => by
    have := h.lower hy; rw [e2] at this; exact this
  cases lo with
  | max => exact absurd rfl w1
  | val l =>
    refine ⟨⟨hmem l ?_, fun x hx => ?_⟩, by simp⟩
    · cases hi <;> simp_all [Iv.mem]
    · have := hlow x hx; simpa using this
  | min =>
    refine ⟨fun b => ?_, by simp⟩
    cases hi with
    | min => exact absurd rfl w2
    | max => exact ⟨b - 1, hmem _ (by simp [Iv.mem]), by omega⟩
    | val u => exact ⟨min u (b - 1), hmem _ (by simp [Iv.mem] <;> omega), by omega⟩

/-- `right` of a canonical range is the upper bound of the denoted set ("ub") -/
theorem Repr.upperBound {r : Range} {S : Int → Bool} (h : Repr r S) : UpperBound S r.right.bound ∧ r.right ≠ .min := by
  obtain ⟨hd, t, e1, _, e3⟩ := h.ends
  have hlast_mem : (hd :: t).getLast (by simp) ∈ r.leaves := by rw [e1]; exact List.getLast_mem _
  have hwf := (h.good _ hlast_mem).1
  have hmem : ∀ y, ((hd :: t).getLast (by simp)).mem y = true → S y = true := fun y hy => by
    rw [← h.den y]; exact den_eq_true.mpr ⟨_, hlast_mem, hy⟩
  rw [e3]
  generalize (hd :: t).getLast (by simp) = lst at hwf hmem e3
  obtain ⟨lo, hi⟩ := lst
  obtain ⟨w1, w2, w3⟩ := hwf
  have hup : ∀ y, S y = true → Edge.geInt hi y = true := fun y hy => by
    have := h.upper hy; rw [e3] at this; exact this
  cases hi with
  | min => exact absurd rfl w2
  | val u =>
    refine ⟨⟨hmem u ?_, fun x hx => ?_⟩, by simp⟩
    · cases lo <;> simp_all [Iv.mem]
    · have := hup x hx; simpa using this
  | max =>
    refine ⟨fun b => ?_, by simp⟩
    cases lo with
    | max => exact absurd rfl w1
    | min => exact ⟨b + 1, hmem _ (by simp [Iv.mem]), by omega⟩
    | val l => exact ⟨max l (b + 1), hmem _ (by simp [Iv.mem] <;> omega), by omega⟩

theorem lowerBound_unique {S : Int → Bool} {a b : Option Int} (ha : LowerBound S a) (hb : LowerBound S b) : a = b := by
  cases a with
  | none =>
    cases b with
    | none => rfl
    | some l => obtain ⟨x, hx, hlt⟩ := ha l; have := hb.2 x hx; omega
  | some l =>
    cases b with
    | none => obtain ⟨x, hx, hlt⟩ := hb l; have := ha.2 x hx; omega
    | some l' => have := ha.2 l' hb.1; have := hb.2 l ha.1; congr 1; omega

theorem upperBound_unique {S : Int → Bool} {a b : Option Int} (ha : UpperBound S a) (hb : UpperBound S b) : a = b := by
  cases a with
  | none =>
    cases b with
    | none => rfl
    | some l => obtain ⟨x, hx, hlt⟩ := ha l; have := hb.2 x hx; omega
  | some l =>
    cases b with
    | none => obtain ⟨x, hx, hlt⟩ := hb l; have := ha.2 x hx; omega
    | some l' => have := ha.2 l' hb.1; have := hb.2 l ha.1; congr 1; omega

/-- two canonical ranges of the same set have the same leaves, `left` and `right` -/
theorem Repr.unique {r₁ r₂ : Range} {S₁ S₂ : Int → Bool} (h₁ : Repr r₁ S₁) (h₂ : Repr r₂ S₂) (e : ∀ y, S₁ y = S₂ y) :
    r₁.leaves = r₂.leaves ∧ r₁.left = r₂.left ∧ r₁.right = r₂.right := by
  have hl : r₁.leaves = r₂.leaves :=
    canon_unique _ _ h₁.good h₂.good h₁.canon h₂.canon (fun y => by rw [h₁.den y, h₂.den y, e y])
  obtain ⟨a, t, e1, e2, e3⟩ := h₁.ends
  obtain ⟨b, u, f1, f2, f3⟩ := h₂.ends
  rw [e1, f1] at hl
  cases hl
  exact ⟨by rw [e1, f1], by rw [e2, f2], by rw [e3, f3]⟩


end Asn1c.Impl.CRange
