import Asn1cModel.Proofs.CRange
import Asn1cModel.Spec.Constraint
import Asn1cModel.Impl.ConsParse
import Mathlib.Tactic.Set
/-
  C09 helper lemmas, second part: `asn1constraint_compute_constraint_range` (Impl.CRange.compute)
  on the trees the parser builds (Impl.ConsParse) computes the canonical form of the set that
  Spec.Constraint assigns to the expression.
-/
namespace Asn1c.Impl.CRange
open Asn1c.Spec.Constraint Asn1c.Impl.ConsParse

open Asn1c.Spec.Constraint Asn1c.Impl.ConsParse

theorem mmEff_idem (p : Params) (mm0 : Option Range) : mmEff p (mmEff p mm0) = mmEff p mm0 := by
  unfold mmEff; cases p.req <;> cases mm0 <;> rfl

/-- the `switch(ct->type)` of `asn1constraint_compute_constraint_range` -/
def body (p : Params) (ct : CT) (mm : Option Range) (range : Range) (ex : Bool) : Res × Bool :=
  match ct with
  | .value v => leaf p v v mm range ex
  | .range lo hi => leaf p lo hi mm range ex
  | .ext => if !ex then (.ok { range with ext := true, notOER := true }, ex) else (.erange, ex)
  | .size c =>
    if p.req == .size then
      match compute p c mm true with
      | (.ok t, ex') => (.ok t, ex')
      | (.erange, ex') => (.ok { range with empty := true, ext := true, notOER := true }, ex')
      | (e, ex') => (e, ex')
    else (.ok { range with incompat := true }, ex)
  | .set l => andLoop p true l range mm ex
  | .int l => andLoop p false l range mm ex
  | .csv l => orFirst p l range mm ex
  | .uni l => orFirst p l range mm ex
  | .exc l =>
    match l with
    | [] => (.abort, ex)
    | c :: _ => compute p c mm ex

/-- with a compatible request, a known-multiplier (or non-string) type and a parent range without
    visibility flags, the function goes straight to its `switch` -/
theorem compute_eq_body {p : Params} (hc : p.compat = true) (hn : p.nkm = false) (ct : CT)
    (mm0 : Option Range) (ex : Bool) (hcl : (rangeOf (mmEff p mm0)).Clean) :
    compute p ct mm0 ex = body p ct (mmEff p mm0) (rangeOf (mmEff p mm0)) ex := by
  obtain ⟨_, h2, h3⟩ := hcl
  rw [compute.eq_def]
  have e1 : (!p.compat) = false := by simp [hc]
  rw [if_neg (by simp [e1])]
  dsimp only
  simp only [hn, Bool.false_eq_true, if_false, Bool.and_false]
  rw [if_neg (by simp [h3]), if_neg (by simp [h2])]
  cases ct <;> rfl



theorem Repr.congr {r : Range} {S S' : Int → Bool} (h : Repr r S) (e : ∀ y, S y = S' y) : Repr r S' :=
  ⟨h.good, h.canon, fun y => by rw [h.den y, e y], h.ends, h.shape, h.empty, h.incompat⟩

theorem Repr.lower {m : Range} {P : Int → Bool} (h : Repr m P) {y : Int} (hy : P y = true) :
    Edge.leInt m.left y = true := by
  obtain ⟨hd, t, e1, e2, _⟩ := h.ends
  have hg := h.good; have hc := h.canon; have hden := h.den y
  rw [e1] at hg hc hden
  rw [e2]; exact canon_lower hg hc (by rw [hden, hy])

theorem Repr.upper {m : Range} {P : Int → Bool} (h : Repr m P) {y : Int} (hy : P y = true) :
    Edge.geInt m.right y = true := by
  obtain ⟨hd, t, e1, _, e3⟩ := h.ends
  have hg := h.good; have hc := h.canon; have hden := h.den y
  rw [e1] at hg hc hden
  rw [e3]; exact canon_upper t hd hg hc y (by rw [hden, hy])

theorem Repr.left_bnd {m : Range} {P : Int → Bool} (h : Repr m P) :
    ∀ v, m.left = .val v → INTMAX_MIN < v ∧ v ≤ INTMAX_MAX := by
  obtain ⟨hd, t, e1, e2, _⟩ := h.ends
  have := (h.good hd (by rw [e1]; simp)).2.1
  rw [e2]; exact this

theorem Repr.right_bnd {m : Range} {P : Int → Bool} (h : Repr m P) :
    ∀ v, m.right = .val v → INTMAX_MIN ≤ v ∧ v < INTMAX_MAX := by
  obtain ⟨hd, t, e1, _, e3⟩ := h.ends
  have := (h.good ((hd :: t).getLast (by simp)) (by rw [e1]; exact List.getLast_mem _)).2.2
  rw [e3]; exact this

/-- a single well-formed leaf kept in `left`/`right` -/
theorem repr_single {r : Range} (he : r.els = []) (hw : (⟨r.left, r.right⟩ : Iv).wf) (hb : (⟨r.left, r.right⟩ : Iv).bnd)
    (hem : r.empty = false) (hi : r.incompat = false) : Repr r (Iv.mem ⟨r.left, r.right⟩) := by
  have hl := leaves_of_els_nil he
  refine ⟨?_, ?_, ?_, ⟨⟨r.left, r.right⟩, [], hl, rfl, rfl⟩, by simp [he], hem, hi⟩
  · rw [hl]; intro p hp; simp at hp; subst hp; exact ⟨hw, hb⟩
  · rw [hl]; trivial
  · intro y; rw [hl]; simp

/-- `MIN`, `MAX` or a literal strictly inside the `intmax_t` range -/
def EndOK : End → Prop
  | .val v => INTMAX_MIN < v ∧ v < INTMAX_MAX
  | _ => True

def Hard (r : Res) : Prop := r = .eperm ∨ r = .abort ∨ r = .fuel

theorem hard_ofIErr (e : IErr) : Hard (Res.ofIErr e) := by
  cases e <;> simp [Hard, Res.ofIErr]

/-- the parent context of a call: the range the function clones represents `P`, flags clear -/
structure MM (p : Params) (mm0 : Option Range) (P : ISet) : Prop where
  repr : Repr (rangeOf (mmEff p mm0)) P
  clean : (rangeOf (mmEff p mm0)).Clean
  univ : mmEff p mm0 = none → ∀ y, P y = true

theorem MM.eff {p : Params} {mm0 : Option Range} {P : ISet} (h : MM p mm0 P) : MM p (mmEff p mm0) P := by
  constructor
  · rw [mmEff_idem]; exact h.repr
  · rw [mmEff_idem]; exact h.clean
  · rw [mmEff_idem]; exact h.univ

theorem below_eq (e : End) (y : Int) : e.below y = Edge.leInt (match e with | .min => .min | .max => .max | .val z => .val z) y := by
  cases e <;> rfl
theorem above_eq (e : End) (y : Int) : e.above y = Edge.geInt (match e with | .min => .min | .max => .max | .val z => .val z) y := by
  cases e <;> rfl



theorem leaf_spec {p : Params} {mm : Option Range} {P : ISet} (range : Range) (lo hi : End)
    (hmm : mmEff p mm = mm) (hM : MM p mm P)
    (hne : ∃ y, lo.below y = true ∧ hi.above y = true ∧ P y = true) (hl : EndOK lo) (hh : EndOK hi) :
    ∃ res, leaf p (endV lo) (endV hi) mm range true = (res, true) ∧
      (Hard res ∨ ∃ r, res = .ok r ∧ Repr r (fun y => lo.below y && hi.above y && P y) ∧ r.Clean) := by
  obtain ⟨y0, hy1, hy2, hy3⟩ := hne
  have hrepr := hM.repr; have hclean := hM.clean
  rw [hmm] at hrepr hclean
  unfold leaf
  simp only [Bool.not_true, Bool.false_eq_true, if_false]
  cases mm with
  | none =>
    have huniv := hM.univ hmm
    -- no parent: the range as written
    refine ⟨_, rfl, Or.inr ⟨_, rfl, ?_⟩⟩
    have hlo : lo ≠ .max := by intro h; subst h; simp [End.below] at hy1
    have hhi : hi ≠ .min := by intro h; subst h; simp [End.above] at hy2
    set r0 : Range := { Range.new with left := fillEdge (endV lo) none, right := fillEdge (endV hi) none } with hr0
    have hmem : ∀ y, (⟨r0.left, r0.right⟩ : Iv).mem y = (lo.below y && hi.above y) := by
      intro y; cases lo <;> cases hi <;> simp [hr0, Iv.mem, fillEdge, endV, End.below, End.above]
    have hwf : (⟨r0.left, r0.right⟩ : Iv).wf := Iv.mem_wf (x := y0) (by rw [hmem]; simp [hy1, hy2])
    have hbnd : (⟨r0.left, r0.right⟩ : Iv).bnd := by
      cases lo <;> cases hi <;> simp_all [Iv.bnd, fillEdge, endV, EndOK] <;> omega
    have hcan : canonicalize r0 = r0 := by
      unfold canonicalize
      have : r0.els.isEmpty = true := rfl
      simp only [this, if_true]
      rw [if_neg]; have : edgeCmp r0.left r0.right ≤ 0 := hwf.2.2; omega
    rw [hcan]
    refine ⟨(repr_single rfl hwf hbnd rfl rfl).congr (fun y => ?_), rfl, rfl, rfl⟩
    rw [hmem y, huniv y]; simp
  | some m =>
    simp only [rangeOf] at hrepr hclean
    have hlo : lo ≠ .max := by intro h; subst h; simp [End.below] at hy1
    have hhi : hi ≠ .min := by intro h; subst h; simp [End.above] at hy2
    set r0 : Range := { Range.new with left := fillEdge (endV lo) (some m), right := fillEdge (endV hi) (some m) } with hr0
    have hmem : ∀ y, P y = true → (⟨r0.left, r0.right⟩ : Iv).mem y = (lo.below y && hi.above y) := by
      intro y hy
      have h1 := hrepr.lower hy; have h2 := hrepr.upper hy
      cases lo <;> cases hi <;> simp_all [Iv.mem, fillEdge, endV, End.below, End.above]
    have hwf : (⟨r0.left, r0.right⟩ : Iv).wf := Iv.mem_wf (x := y0) (by rw [hmem y0 hy3]; simp [hy1, hy2])
    have hbnd : (⟨r0.left, r0.right⟩ : Iv).bnd := by
      have b1 := hrepr.left_bnd; have b2 := hrepr.right_bnd
      constructor
      · intro v hv
        cases lo <;> simp_all [fillEdge, endV, EndOK] <;> omega
      · intro v hv
        cases hi <;> simp_all [fillEdge, endV, EndOK] <;> omega
    have hB : Repr r0 (Iv.mem ⟨r0.left, r0.right⟩) := repr_single rfl hwf hbnd rfl rfl
    cases hi' : intersection m r0 true p.strictOER with
    | error e => exact ⟨_, by simp only [hi'], Or.inl (hard_ofIErr e)⟩
    | ok c =>
      refine ⟨.ok (canonicalize c), by simp only [hi'], Or.inr ⟨_, rfl, ?_⟩⟩
      obtain ⟨q1, q2, q3, q4⟩ := inter_canon hrepr hB ⟨y0, hy3, by rw [hmem y0 hy3]; simp [hy1, hy2]⟩ hi'
      refine ⟨q1.congr (fun y => ?_), ?_, ?_, ?_⟩
      · cases hy : P y with
        | true => simp [hmem y hy]
        | false => simp
      · rw [q2, hclean.1]; rfl
      · rw [q4, hclean.2.1]; rfl
      · rw [q3, hclean.2.2]; simp [hr0, Range.new]



/-- element trees covered by the theorems: values, ranges, `|`, `^`, `EXCEPT`, parentheses -/
def IsElem : Cons → Prop
  | .single _ => True
  | .range _ _ => True
  | .union a b => IsElem a ∧ IsElem b
  | .inter a b => IsElem a ∧ IsElem b
  | .except a b => IsElem a ∧ IsElem b
  | .paren a => IsElem a
  | _ => False

/-- no operand denotes the empty set (relative to the parent `P`) -/
def NonDeg (P : ISet) : Cons → Prop
  | .single v => P v = true
  | .range lo hi => ∃ y, lo.below y = true ∧ hi.above y = true ∧ P y = true
  | .union a b => NonDeg P a ∧ NonDeg P b
  | .inter a b => NonDeg P a ∧ NonDeg P b ∧ ∃ y, visible P a y = true ∧ visible P b y = true
  | .except a _ => NonDeg P a
  | .paren a => NonDeg P a
  | .size a => NonDeg P a
  | .ext r => NonDeg P r
  | .exta r _ => NonDeg P r
  | .serial a b => NonDeg P a ∧ NonDeg (visible P a) b
  | .refine a b => NonDeg P a ∧ NonDeg (visible P a) b

/-- every literal that the compiler looks at lies strictly inside the `intmax_t` range -/
def LitsOK : Cons → Prop
  | .single v => INTMAX_MIN < v ∧ v < INTMAX_MAX
  | .range lo hi => EndOK lo ∧ EndOK hi
  | .union a b => LitsOK a ∧ LitsOK b
  | .inter a b => LitsOK a ∧ LitsOK b
  | .except a _ => LitsOK a
  | .paren a => LitsOK a
  | .size a => LitsOK a
  | .ext r => LitsOK r
  | .exta r a => LitsOK r ∧ LitsOK a
  | .serial a b => LitsOK a ∧ LitsOK b
  | .refine a b => LitsOK a ∧ LitsOK b

theorem visible_sub : ∀ (e : Cons) (P : ISet) (y : Int), visible P e y = true → P y = true := by
  intro e
  induction e with
  | single v => intro P y h; simp [visible] at h; exact h.2
  | range lo hi => intro P y h; simp [visible] at h; exact h.2
  | union a b iha ihb =>
    intro P y h; simp [visible] at h
    rcases h with h | h
    · exact iha P y h
    · exact ihb P y h
  | inter a b iha _ => intro P y h; simp [visible] at h; exact iha P y h.1
  | except a b iha _ => intro P y h; exact iha P y h
  | paren a iha => intro P y h; exact iha P y h
  | size a iha => intro P y h; exact iha P y h
  | ext r ih => intro P y h; exact ih P y h
  | exta r a ih _ => intro P y h; exact ih P y h
  | serial a b iha ihb => intro P y h; exact iha P y (ihb _ y h)
  | refine a b iha ihb => intro P y h; exact iha P y (ihb _ y h)

theorem nonDeg_nonempty : ∀ (e : Cons) (P : ISet), IsElem e → NonDeg P e → ∃ y, visible P e y = true := by
  intro e
  induction e with
  | single v => intro P _ h; exact ⟨v, by simp only [NonDeg] at h; simp [visible, h]⟩
  | range lo hi => intro P _ ⟨y, h1, h2, h3⟩; exact ⟨y, by simp [visible, h1, h2, h3]⟩
  | union a b iha _ =>
    intro P hi h
    obtain ⟨y, hy⟩ := iha P hi.1 h.1
    exact ⟨y, by simp [visible, hy]⟩
  | inter a b _ _ =>
    intro P _ h
    obtain ⟨y, h1, h2⟩ := h.2.2
    exact ⟨y, by simp [visible, h1, h2]⟩
  | except a b iha _ => intro P hi h; exact iha P hi.1 h
  | paren a iha => intro P hi h; exact iha P hi h
  | size a _ => intro P hi _; exact absurd hi (by simp [IsElem])
  | ext r _ => intro P hi _; exact absurd hi (by simp [IsElem])
  | exta r a _ _ => intro P hi _; exact absurd hi (by simp [IsElem])
  | serial a b _ _ => intro P hi _; exact absurd hi (by simp [IsElem])
  | refine a b _ _ => intro P hi _; exact absurd hi (by simp [IsElem])



/-! ### stepping the loops of the CA_SET/CA_INT and CA_CSV/CA_UNI cases -/

theorem hard_ne_ok {res : Res} (h : Hard res) : ∀ r, res ≠ .ok r := by
  intro r e; subst e; rcases h with h | h | h <;> cases h
theorem hard_ne_erange {res : Res} (h : Hard res) : res ≠ .erange := by
  intro e; subst e; rcases h with h | h | h <;> cases h

theorem andLoop_nil (p : Params) (s : Bool) (range : Range) (mm : Option Range) (ex : Bool) :
    andLoop p s [] range mm ex = (.ok range, ex) := by rw [andLoop]

theorem andLoop_cons_hard {p : Params} {s : Bool} {c : CT} {rest : List CT} {range : Range} {mm : Option Range}
    {ex ex' : Bool} {res : Res} (h : compute p c (if s then some range else mm) ex = (res, ex')) (hh : Hard res) :
    andLoop p s (c :: rest) range mm ex = (res, ex') := by
  rw [andLoop, h]
  rcases hh with rfl | rfl | rfl <;> rfl

theorem andLoop_cons_ok {p : Params} {s : Bool} {c : CT} {rest : List CT} {range : Range} {mm : Option Range}
    {ex ex' : Bool} {tmp : Range} (h : compute p c (if s then some range else mm) ex = (.ok tmp, ex'))
    (hi : tmp.incompat = false) (hcl : tmp.Clean) :
    andLoop p s (c :: rest) range mm ex =
      match intersection range tmp s p.strictOER with
      | .error e => (Res.ofIErr e, ex')
      | .ok r => andLoop p s rest (canonicalize r) mm ex' := by
  rw [andLoop, h]
  simp only [hi, hcl.2.1, hcl.2.2, Bool.false_and, Bool.false_eq_true, if_false]
  rfl

theorem andLoop_int_hard {p : Params} {c : CT} {rest : List CT} {range : Range} {mm : Option Range}
    {ex ex' : Bool} {res : Res} (h : compute p c mm ex = (res, ex')) (hh : Hard res) :
    andLoop p false (c :: rest) range mm ex = (res, ex') :=
  andLoop_cons_hard (s := false) (by simpa using h) hh

theorem andLoop_set_hard {p : Params} {c : CT} {rest : List CT} {range : Range} {mm : Option Range}
    {ex ex' : Bool} {res : Res} (h : compute p c (some range) ex = (res, ex')) (hh : Hard res) :
    andLoop p true (c :: rest) range mm ex = (res, ex') :=
  andLoop_cons_hard (s := true) (by simpa using h) hh

theorem andLoop_int_ok {p : Params} {c : CT} {rest : List CT} {range : Range} {mm : Option Range}
    {ex ex' : Bool} {tmp : Range} (h : compute p c mm ex = (.ok tmp, ex'))
    (hi : tmp.incompat = false) (hcl : tmp.Clean) :
    andLoop p false (c :: rest) range mm ex =
      match intersection range tmp false p.strictOER with
      | .error e => (Res.ofIErr e, ex')
      | .ok r => andLoop p false rest (canonicalize r) mm ex' :=
  andLoop_cons_ok (s := false) (by simpa using h) hi hcl

theorem andLoop_set_ok {p : Params} {c : CT} {rest : List CT} {range : Range} {mm : Option Range}
    {ex ex' : Bool} {tmp : Range} (h : compute p c (some range) ex = (.ok tmp, ex'))
    (hi : tmp.incompat = false) (hcl : tmp.Clean) :
    andLoop p true (c :: rest) range mm ex =
      match intersection range tmp true p.strictOER with
      | .error e => (Res.ofIErr e, ex')
      | .ok r => andLoop p true rest (canonicalize r) mm ex' :=
  andLoop_cons_ok (s := true) (by simpa using h) hi hcl

theorem orStep_ok {range tmp : Range} {ex' : Bool} (hi : tmp.incompat = false) (he : tmp.empty = false) :
    orStep range (.ok tmp, ex') = .inr (mergeIn range tmp, ex') := by
  simp [orStep, hi, he]

theorem orStep_hard {range : Range} {res : Res} {ex' : Bool} (hh : Hard res) :
    orStep range (res, ex') = .inl (res, ex') := by
  rcases hh with rfl | rfl | rfl <;> rfl

theorem orFirst_cons_hard {p : Params} {c : CT} {rest : List CT} {range : Range} {mm : Option Range}
    {ex ex' : Bool} {res : Res} (h : compute p c mm ex = (res, ex')) (hh : Hard res) :
    orFirst p (c :: rest) range mm ex = (res, ex') := by
  rw [orFirst, h]
  rcases hh with rfl | rfl | rfl <;> rfl

theorem orFirst_cons_ok {p : Params} {c : CT} {rest : List CT} {range : Range} {mm : Option Range}
    {ex ex' : Bool} {tmp : Range} (h : compute p c mm ex = (.ok tmp, ex')) (hi : tmp.incompat = false) :
    orFirst p (c :: rest) range mm ex =
      match orStep { tmp with ext := tmp.ext || range.ext, notOER := tmp.notOER || range.notOER,
                              empty := tmp.empty || range.empty } (compute p c mm ex') with
      | .inl out => out
      | .inr (r', ex'') => orRest p rest r' mm ex'' := by
  rw [orFirst, h]
  simp only [hi, Bool.false_eq_true, if_false]
  rfl

theorem orRest_nil (p : Params) (range : Range) (mm : Option Range) (ex : Bool) :
    orRest p [] range mm ex = orFinish p range mm ex := by rw [orRest]

theorem orRest_cons (p : Params) (c : CT) (rest : List CT) (range : Range) (mm : Option Range) (ex : Bool) :
    orRest p (c :: rest) range mm ex =
      match orStep range (compute p c mm ex) with
      | .inl out => out
      | .inr (r', ex') => orRest p rest r' mm ex' := by rw [orRest]; rfl

theorem orFinish_clean {p : Params} {range : Range} {mm : Option Range} {ex : Bool}
    (h : (canonicalize range).notPER = false) : orFinish p range mm ex = (.ok (canonicalize range), ex) := by
  simp [orFinish, h]



theorem els_sub_leaves (r : Range) : ∀ p ∈ r.els, p ∈ r.leaves := by
  intro p hp
  have : r.els ≠ [] := by intro h; rw [h] at hp; cases hp
  rw [leaves_of_els_ne this]; exact hp

theorem leaves_ne_nil (r : Range) : r.leaves ≠ [] := by
  unfold Range.leaves; split
  · simp
  · rename_i h; intro h'; rw [h'] at h; simp at h

/-- the CSV/UNI accumulation of two canonical operands, canonicalised -/
theorem or_two {ta tb range : Range} {Sa Sb : Int → Bool} (ha : Repr ta Sa) (ca : ta.Clean)
    (hb : Repr tb Sb) (cb : tb.Clean) (hr : range.Clean) (hre : range.empty = false) :
    let r : Range := { ta with ext := ta.ext || range.ext, notOER := ta.notOER || range.notOER,
                               empty := ta.empty || range.empty }
    let R := mergeIn (mergeIn r ta) tb
    Repr (canonicalize R) (fun y => Sa y || Sb y) ∧ (canonicalize R).Clean := by
  intro r R
  have hels : R.els = (ta.els ++ ta.leaves) ++ tb.leaves := rfl
  have hne : R.els ≠ [] := by
    rw [hels]; intro h
    have := leaves_ne_nil tb
    simp at h; exact this h.2.2
  have hg : Good R.els := by
    rw [hels]; intro p hp
    simp only [List.mem_append] at hp
    rcases hp with (hp | hp) | hp
    · exact ha.good p (els_sub_leaves ta p hp)
    · exact ha.good p hp
    · exact hb.good p hp
  have hd : ∀ y, den R.els y = (Sa y || Sb y) := by
    intro y
    rw [hels, den_append, den_append, ha.den y, hb.den y]
    have : den ta.els y = true → Sa y = true := by
      intro h
      obtain ⟨i, hi, hy⟩ := den_eq_true.mp h
      rw [← ha.den y]; exact den_eq_true.mpr ⟨i, els_sub_leaves ta i hi, hy⟩
    cases h1 : den ta.els y <;> cases h2 : Sa y <;> simp_all
  have hemp : R.empty = false := by
    show (ta.empty || range.empty) = false
    rw [ha.empty, hre]; rfl
  have hinc : R.incompat = false := ha.incompat
  obtain ⟨_, _, _, _, c7, _, c9, c10⟩ := canonicalize_ne hne hg
  refine ⟨repr_of_canonicalize hne hg hd hemp hinc, ?_, ?_, ?_⟩
  · rw [c7]; show ((ta.ext || range.ext || ta.ext) || tb.ext) = false
    rw [ca.1, cb.1, hr.1]; rfl
  · rw [c9]
    show ((ta.notOER || range.notOER || ta.notOER || (ta.ext || range.ext || ta.ext)) || tb.notOER ||
      ((ta.ext || range.ext || ta.ext) || tb.ext)) = false
    rw [ca.1, cb.1, hr.1, ca.2.1, cb.2.1, hr.2.1]; rfl
  · rw [c10]; show ((ta.notPER || ta.notPER) || tb.notPER) = false
    rw [ca.2.2, cb.2.2]; rfl



theorem MM.of_some {p : Params} {range : Range} {P : ISet} (hr : Repr range P) (hc : range.Clean) :
    MM p (some range) P := by
  have e : mmEff p (some range) = some range := by unfold mmEff; cases p.req <;> rfl
  constructor
  · rw [e]; exact hr
  · rw [e]; exact hc
  · rw [e]; intro h; cases h

/-- **asn1constraint_compute_constraint_range on an element tree** computes the canonical form of
    `Spec.visible P e` (P = the parent's set), with clear flags — or fails. -/
theorem compute_elem {p : Params} (hc : p.compat = true) (hn : p.nkm = false) :
    ∀ (e : Cons), IsElem e → ∀ (mm0 : Option Range) (P : ISet), MM p mm0 P → NonDeg P e → LitsOK e →
      ∃ res, compute p (elemCT e) mm0 true = (res, true) ∧
        (Hard res ∨ ∃ r, res = .ok r ∧ Repr r (visible P e) ∧ r.Clean) := by
  intro e
  induction e with
  | single v =>
    intro _ mm0 P hM hnd hl
    rw [show elemCT (.single v) = .value (.num v) from rfl, compute_eq_body hc hn _ _ _ hM.clean]
    obtain ⟨res, h1, h2⟩ := leaf_spec (p := p) (P := P) (rangeOf (mmEff p mm0)) (.val v) (.val v)
      (mmEff_idem p mm0) hM.eff ⟨v, by simp [End.below], by simp [End.above], hnd⟩ hl hl
    refine ⟨res, h1, ?_⟩
    rcases h2 with h2 | ⟨r, e1, e2, e3⟩
    · exact Or.inl h2
    · refine Or.inr ⟨r, e1, e2.congr (fun y => ?_), e3⟩
      simp only [visible, End.below, End.above]
      congr 1
      rw [Bool.eq_iff_iff]; simp; omega
  | range lo hi =>
    intro _ mm0 P hM hnd hl
    rw [show elemCT (.range lo hi) = .range (endV lo) (endV hi) from rfl, compute_eq_body hc hn _ _ _ hM.clean]
    exact leaf_spec (p := p) (P := P) (rangeOf (mmEff p mm0)) lo hi (mmEff_idem p mm0) hM.eff hnd hl.1 hl.2
  | union a b iha ihb =>
    intro hi mm0 P hM hnd hl
    rw [show elemCT (.union a b) = .uni [elemCT a, elemCT b] from rfl, compute_eq_body hc hn _ _ _ hM.clean]
    show ∃ res, orFirst p [elemCT a, elemCT b] (rangeOf (mmEff p mm0)) (mmEff p mm0) true = (res, true) ∧ _
    obtain ⟨ra, hra, ha⟩ := iha hi.1 (mmEff p mm0) P hM.eff hnd.1 hl.1
    obtain ⟨rb, hrb, hb⟩ := ihb hi.2 (mmEff p mm0) P hM.eff hnd.2 hl.2
    rcases ha with ha | ⟨ta, rfl, hta, cta⟩
    · exact ⟨ra, orFirst_cons_hard hra ha, Or.inl ha⟩
    · rw [orFirst_cons_ok hra hta.incompat, hra]
      rw [orStep_ok hta.incompat (by simp [hta.empty])]
      simp only
      rw [orRest_cons, hrb]
      rcases hb with hb | ⟨tb, rfl, htb, ctb⟩
      · rw [orStep_hard hb]; exact ⟨rb, rfl, Or.inl hb⟩
      · rw [orStep_ok htb.incompat htb.empty]
        simp only
        obtain ⟨q1, q2⟩ := or_two hta cta htb ctb hM.clean hM.repr.empty
        rw [orRest_nil, orFinish_clean q2.2.2]
        exact ⟨_, rfl, Or.inr ⟨_, rfl, q1, q2⟩⟩
  | inter a b iha ihb =>
    intro hi mm0 P hM hnd hl
    rw [show elemCT (.inter a b) = .int [elemCT a, elemCT b] from rfl, compute_eq_body hc hn _ _ _ hM.clean]
    show ∃ res, andLoop p false [elemCT a, elemCT b] (rangeOf (mmEff p mm0)) (mmEff p mm0) true = (res, true) ∧ _
    obtain ⟨ra, hra, ha⟩ := iha hi.1 (mmEff p mm0) P hM.eff hnd.1 hl.1
    obtain ⟨rb, hrb, hb⟩ := ihb hi.2 (mmEff p mm0) P hM.eff hnd.2.1 hl.2
    obtain ⟨y0, hy1, hy2⟩ := hnd.2.2
    have hyP : P y0 = true := visible_sub a P y0 hy1
    rcases ha with ha | ⟨ta, rfl, hta, cta⟩
    · exact ⟨ra, andLoop_int_hard hra ha, Or.inl ha⟩
    · rw [andLoop_int_ok hra hta.incompat cta]
      cases hi1 : intersection (rangeOf (mmEff p mm0)) ta false p.strictOER with
      | error e => exact ⟨_, rfl, Or.inl (hard_ofIErr e)⟩
      | ok r1 =>
        simp only
        obtain ⟨q1, q2, q3, q4⟩ := inter_canon hM.repr hta ⟨y0, hyP, hy1⟩ hi1
        have c1 : (canonicalize r1).Clean := by
          refine ⟨?_, ?_, ?_⟩
          · rw [q2, hM.clean.1, cta.1]; rfl
          · rw [q4, hM.clean.2.1, cta.1]; rfl
          · rw [q3, hM.clean.2.2, cta.2.2]; simp
        rcases hb with hb | ⟨tb, rfl, htb, ctb⟩
        · exact ⟨rb, andLoop_int_hard hrb hb, Or.inl hb⟩
        · rw [andLoop_int_ok hrb htb.incompat ctb]
          cases hi2 : intersection (canonicalize r1) tb false p.strictOER with
          | error e => exact ⟨_, rfl, Or.inl (hard_ofIErr e)⟩
          | ok r2 =>
            simp only
            rw [andLoop_nil]
            obtain ⟨s1, s2, s3, s4⟩ := inter_canon q1 htb ⟨y0, by simp [hyP, hy1], hy2⟩ hi2
            refine ⟨_, rfl, Or.inr ⟨_, rfl, s1.congr (fun y => ?_), ?_, ?_, ?_⟩⟩
            · simp only [visible]
              cases h1 : visible P a y with
              | true => simp [visible_sub a P y h1]
              | false => simp
            · rw [s2, c1.1, ctb.1]; rfl
            · rw [s4, c1.2.1, ctb.1]; rfl
            · rw [s3, c1.2.2, ctb.2.2]; simp
  | except a b iha _ =>
    intro hi mm0 P hM hnd hl
    rw [show elemCT (.except a b) = .exc [elemCT a, elemCT b] from rfl, compute_eq_body hc hn _ _ _ hM.clean]
    exact iha hi.1 (mmEff p mm0) P hM.eff hnd hl
  | paren a iha =>
    intro hi mm0 P hM hnd hl
    rw [show elemCT (.paren a) = .set [elemCT a] from rfl, compute_eq_body hc hn _ _ _ hM.clean]
    show ∃ res, andLoop p true [elemCT a] (rangeOf (mmEff p mm0)) (mmEff p mm0) true = (res, true) ∧ _
    obtain ⟨ra, hra, ha⟩ := iha hi (some (rangeOf (mmEff p mm0))) P (MM.of_some hM.repr hM.clean) hnd hl
    obtain ⟨y0, hy0⟩ := nonDeg_nonempty a P hi hnd
    rcases ha with ha | ⟨ta, rfl, hta, cta⟩
    · exact ⟨ra, andLoop_set_hard hra ha, Or.inl ha⟩
    · rw [andLoop_set_ok hra hta.incompat cta]
      cases hi1 : intersection (rangeOf (mmEff p mm0)) ta true p.strictOER with
      | error e => exact ⟨_, rfl, Or.inl (hard_ofIErr e)⟩
      | ok r1 =>
        simp only
        rw [andLoop_nil]
        obtain ⟨q1, q2, q3, q4⟩ := inter_canon hM.repr hta ⟨y0, visible_sub a P y0 hy0, hy0⟩ hi1
        refine ⟨_, rfl, Or.inr ⟨_, rfl, q1.congr (fun y => ?_), ?_, ?_, ?_⟩⟩
        · simp only [visible]
          cases h1 : visible P a y with
          | true => simp [visible_sub a P y h1]
          | false => simp
        · rw [q2, hM.clean.1, cta.1]; rfl
        · rw [q4, hM.clean.2.1, cta.1]; rfl
        · rw [q3, hM.clean.2.2, cta.2.2]; simp
  | size a _ => intro hi; exact absurd hi (by simp [IsElem])
  | ext r _ => intro hi; exact absurd hi (by simp [IsElem])
  | exta r a _ _ => intro hi; exact absurd hi (by simp [IsElem])
  | serial a b _ _ => intro hi; exact absurd hi (by simp [IsElem])
  | refine a b _ _ => intro hi; exact absurd hi (by simp [IsElem])



end Asn1c.Impl.CRange
