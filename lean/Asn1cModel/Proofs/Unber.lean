import Asn1cModel.Impl.Unber
import Asn1cModel.Spec.TlvForest
import Asn1cModel.Proofs.UnberTlv
/-
  `process_deeper` (Impl.Unber.pd) run on the encoding of a well-formed TLV forest prints
  exactly `Spec.TlvForest.expected`; and on arbitrary input it never reaches `oob`,
  `assertion` or `nofuel`.
-/
set_option linter.unusedSimpArgs false

namespace Asn1c.Proofs.Unber
open Asn1c Asn1c.Impl.UnberTlv Asn1c.Impl.Unber Asn1c.Spec.TlvForest Asn1c.Proofs.UnberTlv

/-- first identifier octet -/
def identHead (c : Nat) (k : Bool) (n : Nat) : Nat :=
  c * 64 + (if k = true then 32 else 0) + (if n ≤ 30 then n else 31)

theorem identOctets_head (c : Nat) (k : Bool) (n : Nat) :
    ∃ tl, identOctets c k n = identHead c k n :: tl := by
  unfold identHead
  by_cases h : n ≤ 30
  · rw [identOctets_short h, if_pos h]; exact ⟨_, rfl⟩
  · rw [identOctets_long h, if_neg h]; exact ⟨_, rfl⟩

theorem identHead_constr (c : Nat) (k : Bool) (n : Nat) : (identHead c k n / 32 % 2 == 1) = k := by
  unfold identHead
  cases k <;> simp <;> split <;> omega

theorem tagOk_iff (c n : Nat) : tagOk c n = true ↔ c < 4 ∧ ¬ (c = 0 ∧ n = 0) := by
  simp [tagOk]; intro _; omega

theorem identHead_ne_zero (c : Nat) (k : Bool) (n : Nat) (h : tagOk c n = true) : identHead c k n ≠ 0 := by
  rw [tagOk_iff] at h
  unfold identHead
  by_cases hn : n ≤ 30
  · rw [if_pos hn]; omega
  · rw [if_neg hn]; omega

/-- Reading the identifier and length octets one by one: every proper prefix makes the TL
    decoders ask for more, the complete TL leads to `afterTL`. -/
theorem pd_header (c n : Nat) (k : Bool) (lenb : Bytes) (len : Int)
    (hc : tagOk c n = true) (hn : n < 2 ^ 30)
    (H1 : fetchLength k lenb lenb.length = .ok len lenb.length)
    (H2 : ∀ p s, p ++ s = lenb → s ≠ [] → fetchLength k p p.length = .more)
    (h32 : (identOctets c k n ++ lenb).length ≤ 32) (hlenb : lenb ≠ []) :
    ∀ (suf pre : Bytes), pre ++ suf = identOctets c k n ++ lenb → suf ≠ [] →
    ∀ (f' level : Nat) (eoc : Bool) (limit : Int) (esize : Nat) (pdc : Pdc) (rest : Bytes) (off : Nat),
      (limit = -1 ∨ ((identOctets c k n ++ lenb).length : Int) ≤ limit) →
      pd (suf.length + f') level eoc pre limit esize pdc (suf ++ rest) off
        = afterTL (pd f') level eoc (identOctets c k n ++ lenb) limit esize pdc rest (off + suf.length)
            (tagOf c n) len k false := by
  intro suf
  induction suf with
  | nil => intro pre _ h; exact absurd rfl h
  | cons ch suf ih =>
    intro pre hps _ f' level eoc limit esize pdc rest off hlim
    have hlenpos : 0 < lenb.length := List.length_pos_iff.mpr hlenb
    have hidpos := identOctets_length_pos c k n
    have htot : pre.length + (suf.length + 1) = (identOctets c k n ++ lenb).length := by
      rw [← hps]; simp
    rw [show (ch :: suf).length + f' = (suf.length + f') + 1 by simp; omega]
    simp only [List.cons_append]
    rw [pd]
    have hcast : ((identOctets c k n ++ lenb).length : Int) = (pre.length : Int) + (suf.length : Int) + 1 := by
      rw [← htot]; push_cast; omega
    rw [if_neg (by omega), if_neg (by omega), if_neg (by omega)]
    simp only []
    rw [if_neg (by omega)]
    obtain ⟨itl, hitl⟩ := identOctets_head c k n
    have hfin : ∀ (cc : Bytes), pre ++ [ch] = identOctets c k n ++ cc →
        fetchTag (pre ++ [ch]) (pre.length + 1) = .ok (tagOf c n) (identOctets c k n).length
        ∧ (pre ++ [ch])[0]? = some (identHead c k n)
        ∧ List.drop (identOctets c k n).length (pre ++ [ch]) = cc
        ∧ pre.length + 1 - (identOctets c k n).length = cc.length := by
      intro cc hcc
      have hl : pre.length + 1 = (identOctets c k n).length + cc.length := by
        have := congrArg List.length hcc; simpa using this
      refine ⟨?_, ?_, ?_, ?_⟩
      · rw [hcc]; exact fetchTag_ident c k n cc _ ((tagOk_iff c n).mp hc).1 hn (by omega)
      · rw [hcc, hitl]; simp
      · rw [hcc, List.drop_left]
      · omega
    by_cases hsuf : suf = []
    · subst hsuf
      simp only [List.length_nil, Nat.zero_add, List.nil_append, List.length_cons] at hps ⊢
      obtain ⟨h1, h2, h3, h4⟩ := hfin lenb hps
      rw [h1]; simp only []
      rw [h2]; simp only []
      rw [h3, h4, identHead_constr, H1]; simp only []
      have hl : pre.length + 1 = (identOctets c k n).length + lenb.length := by
        have := congrArg List.length hps; simpa using this
      rw [if_neg (by omega), if_neg (by intro h; exact identHead_ne_zero c k n hc h.2), hps]
    · have hps' : (pre ++ [ch]) ++ suf = identOctets c k n ++ lenb := by simpa using hps
      have hgoal := ih (pre ++ [ch]) hps' hsuf f' level eoc limit esize pdc rest (off + 1) hlim
      have hoff : off + 1 + suf.length = off + (ch :: suf).length := by simp; omega
      rw [hoff] at hgoal
      rcases List.append_eq_append_iff.mp hps' with ⟨a', ha1, ha2⟩ | ⟨c', hc1, hc2⟩
      · by_cases ha' : a' = []
        · subst ha'
          rw [List.append_nil] at ha1
          obtain ⟨h1, h2, h3, h4⟩ := hfin [] (by rw [List.append_nil]; exact ha1.symm)
          rw [h1]; simp only []
          rw [h2]; simp only []
          rw [h3, h4, identHead_constr, H2 [] lenb (by simp) hlenb]; simp only []
          exact hgoal
        · have := fetchTag_ident_prefix c k n (pre ++ [ch]) a' hn ha1.symm (by simp) ha'
          simp only [List.length_append, List.length_cons, List.length_nil] at this
          rw [this]; simp only []
          exact hgoal
      · obtain ⟨h1, h2, h3, h4⟩ := hfin c' hc1
        rw [h1]; simp only []
        rw [h2]; simp only []
        rw [h3, h4, identHead_constr, H2 c' suf hc2.symm hsuf]; simp only []
        exact hgoal

/-! ### one TLV -/

/-- `limit -= x` when a limit is set -/
def limSub (limit : Int) (x : Nat) : Int := if limit = -1 then -1 else limit - x

/-- the value of the local `pdc` after the TLV has been processed -/
def pdcAfter : Tlv → Pdc → Pdc
  | .prim _ _ _ _, p => p
  | _, _ => .finished

/-- What one pass through the loop body of `process_deeper` does with the encoding of `t`:
    at top level (`limit = -1`, `expect_eoc = 0`) it returns, otherwise it loops on. -/
def NodeG (t : Tlv) : Prop :=
  t.wf = true → t.inDomain = true →
  ∀ (fuel level : Nat) (eoc : Bool) (limit : Int) (esize : Nat) (pdc : Pdc) (rest : Bytes) (off : Nat),
    (limit = -1 ∧ eoc = false → level = 0) → level + t.depth ≤ maxLevel →
    (limit = -1 ∨ (t.encode.length : Int) ≤ limit) → t.encode.length + 1 ≤ fuel →
    pd fuel level eoc [] limit esize pdc (t.encode ++ rest) off
      = if limit = -1 ∧ eoc = false then
          .done (pdcAfter t pdc) t.encode.length rest (off + t.encode.length) (t.expected level off)
        else
          ((pd (fuel - t.headerLen) level eoc [] (limSub limit t.encode.length) (esize + t.encode.length)
              (pdcAfter t pdc) rest (off + t.encode.length)).addFrame t.encode.length).pre (t.expected level off)

theorem afterTL_prim (rec : Loop) (level : Nat) (eoc : Bool) (hdr : Bytes) (limit : Int) (esize : Nat)
    (pdc : Pdc) (content rest : Bytes) (off tag : Nat)
    (hlim : limit = -1 ∨ ((hdr.length + content.length : Nat) : Int) ≤ limit) :
    afterTL rec level eoc hdr limit esize pdc (content ++ rest) off tag (Int.ofNat content.length) false false
      = if level = 0 ∧ limit = -1 ∧ eoc = false then
          .done pdc (hdr.length + content.length) rest (off + content.length)
            [.opn level false (off - hdr.length) hdr.length tag content.length, .val content,
             .cls level false (off + content.length) hdr.length tag content.length (hdr.length + content.length)]
        else
          ((rec level eoc [] (limSub limit (hdr.length + content.length)) (esize + hdr.length + content.length)
              pdc rest (off + content.length)).addFrame (hdr.length + content.length)).pre
            [.opn level false (off - hdr.length) hdr.length tag content.length, .val content,
             .cls level false (off + content.length) hdr.length tag content.length (hdr.length + content.length)] := by
  unfold afterTL limSub
  have htake : List.take content.length (content ++ rest) = content := List.take_left
  have hdrop : List.drop content.length (content ++ rest) = rest := List.drop_left
  rcases hlim with hl | hl
  · subst hl
    simp [htake, hdrop]
  · by_cases hm : limit = -1
    · omega
    · push_cast at hl
      have h1 : ¬ (limit - (hdr.length : Int) < 0) := by omega
      have h2 : ¬ ((content.length : Int) > limit - (hdr.length : Int)) := by omega
      have h3 : ¬ ((content.length : Int) < 0) := by omega
      have h4 : ¬ (limit - (hdr.length : Int) < (content.length : Int)) := by omega
      have h5 : ¬ (limit - (hdr.length : Int) = -1) := by omega
      have h6 : ¬ (limit - (hdr.length : Int) - (content.length : Int) = -1) := by omega
      simp only [hm, h1, h2, h3, h4, h5, h6, if_false, Int.ofNat_eq_natCast, Int.toNat_natCast, htake, hdrop,
        Bool.false_eq_true, ne_eq, not_false_eq_true, true_and, and_false, false_and, and_true,
        List.length_take, List.length_append, Nat.lt_irrefl, List.cons_append, List.nil_append]
      rw [show limit - (hdr.length : Int) - (content.length : Int) = limit - ((hdr.length + content.length : Nat) : Int) by
        push_cast; omega]


theorem afterTL_cons (rec : Loop) (level : Nat) (eoc : Bool) (hdr : Bytes) (limit : Int) (esize : Nat)
    (pdc : Pdc) (inp rest : Bytes) (off off2 tag v : Nat) (o2 : List Out)
    (hlim : limit = -1 ∨ ((hdr.length + v : Nat) : Int) ≤ limit) (hlev : level + 1 ≤ maxLevel)
    (hchild : rec (level + 1) false [] (v : Int) hdr.length .finished inp off = .done .finished v rest off2 o2) :
    afterTL rec level eoc hdr limit esize pdc inp off tag (Int.ofNat v) true false
      = if level = 0 ∧ limit = -1 ∧ eoc = false then
          .done .finished (hdr.length + v) rest off2
            ([.opn level true (off - hdr.length) hdr.length tag v, .gt] ++ o2
              ++ [.cls level true off2 hdr.length tag v (hdr.length + v)])
        else
          ((rec level eoc [] (limSub limit (hdr.length + v)) (esize + hdr.length + v)
              .finished rest off2).addFrame (hdr.length + v)).pre
            ([.opn level true (off - hdr.length) hdr.length tag v, .gt] ++ o2
              ++ [.cls level true off2 hdr.length tag v (hdr.length + v)]) := by
  unfold afterTL limSub
  have hb : ((v : Int) == -1) = false := by rw [beq_eq_false_iff_ne]; omega
  have hv : ¬ ((v : Int) = -1) := by omega
  have hdeep : ¬ (level + 1 > maxLevel) := by omega
  rcases hlim with hl | hl
  · subst hl
    simp [hb, hv, hchild, hdeep]
  · by_cases hm : limit = -1
    · omega
    · push_cast at hl
      have h1 : ¬ (limit - (hdr.length : Int) < 0) := by omega
      have h2 : ¬ ((v : Int) > limit - (hdr.length : Int)) := by omega
      have h4 : ¬ (limit - (hdr.length : Int) < (v : Int)) := by omega
      have h5 : ¬ (limit - (hdr.length : Int) = -1) := by omega
      have h6 : ¬ (limit - (hdr.length : Int) - (v : Int) = -1) := by omega
      simp only [hm, h1, h2, h4, h5, h6, hb, hv, hchild, hdeep, if_false, Int.ofNat_eq_natCast,
        Bool.false_eq_true, ne_eq, not_false_eq_true, true_and, and_false, false_and, and_true,
        List.cons_append, List.nil_append, not_true_eq_false, if_true, List.append_assoc]
      rw [show limit - (hdr.length : Int) - (v : Int) = limit - ((hdr.length + v : Nat) : Int) by
        push_cast; omega]

theorem afterTL_indef (rec : Loop) (level : Nat) (eoc : Bool) (hdr : Bytes) (limit : Int) (esize : Nat)
    (pdc : Pdc) (inp rest : Bytes) (off off2 tag dec : Nat) (o2 : List Out)
    (hlim : limit = -1 ∨ ((hdr.length + dec : Nat) : Int) ≤ limit) (hlev : level + 1 ≤ maxLevel)
    (hchild : rec (level + 1) true [] (limSub limit hdr.length) hdr.length .finished inp off
        = .done .finished dec rest off2 o2) :
    afterTL rec level eoc hdr limit esize pdc inp off tag (-1) true false
      = if limit = -1 ∧ eoc = false then
          .done .finished (hdr.length + dec) rest off2
            ([.opn level true (off - hdr.length) hdr.length tag (-1), .gt] ++ o2)
        else
          ((rec level eoc [] (limSub limit (hdr.length + dec)) (esize + hdr.length + dec)
              .finished rest off2).addFrame (hdr.length + dec)).pre
            ([.opn level true (off - hdr.length) hdr.length tag (-1), .gt] ++ o2) := by
  unfold afterTL
  unfold limSub at hchild ⊢
  have hdeep : ¬ (level + 1 > maxLevel) := by omega
  rcases hlim with hl | hl
  · subst hl
    simp at hchild
    simp [hchild, hdeep]
  · by_cases hm : limit = -1
    · omega
    · push_cast at hl
      simp only [hm, if_false] at hchild
      have h1 : ¬ (limit - (hdr.length : Int) < 0) := by omega
      have h2 : ¬ ((-1 : Int) > limit - (hdr.length : Int)) := by omega
      have h4 : ¬ (limit - (hdr.length : Int) < (dec : Int)) := by omega
      have h5 : ¬ (limit - (hdr.length : Int) = -1) := by omega
      have h6 : ¬ (limit - (hdr.length : Int) - (dec : Int) < 0) := by omega
      simp only [hm, h1, h2, h4, h5, h6, hchild, hdeep, if_false,
        Bool.false_eq_true, ne_eq, not_false_eq_true, true_and, and_false, false_and, and_true,
        List.cons_append, List.nil_append, not_true_eq_false, if_true, List.append_assoc,
        beq_self_eq_true]
      rw [show limit - (hdr.length : Int) - (dec : Int) = limit - ((hdr.length + dec : Nat) : Int) by
        push_cast; omega]

/-- the end-of-contents octets inside an indefinite-length container -/
theorem pd_eoc (f' level : Nat) (limit : Int) (esize : Nat) (pdc : Pdc) (rest : Bytes) (off : Nat)
    (hlim : limit = -1 ∨ 2 ≤ limit) :
    pd (f' + 2) level true [] limit esize pdc (0 :: 0 :: rest) off
      = .done .finished 2 rest (off + 2) [.cls (level - 1) true off 2 0 (-1) (esize + 2)] := by
  rcases hlim with hl | hl
  · subst hl
    simp [pd, fetchTag, fetchLength, afterTL]
  · have h0 : ¬ limit = 0 := by omega
    have h1 : ¬ limit ≤ 0 := by omega
    have h2 : ¬ limit ≤ 1 := by omega
    have h3 : ¬ limit = -1 := by omega
    have h4 : ¬ limit - 2 < 0 := by omega
    have h5 : ¬ 0 > limit - 2 := by omega
    simp [pd, fetchTag, fetchLength, afterTL, h0, h1, h2, h3, h4, h5]

/-! ### lists of TLVs inside a container -/

theorem headerLen_le_encode (t : Tlv) : t.headerLen ≤ t.encode.length := by
  cases t <;> simp [Tlv.headerLen, Tlv.encode]

theorem wfList_cons (t : Tlv) (ts : List Tlv) : wfList (t :: ts) = true ↔ t.wf = true ∧ wfList ts = true := by
  simp [wfList]

theorem inDomainList_cons (t : Tlv) (ts : List Tlv) :
    inDomainList (t :: ts) = true ↔ t.inDomain = true ∧ inDomainList ts = true := by
  simp [inDomainList]

theorem depthList_cons (t : Tlv) (ts : List Tlv) : depthList (t :: ts) = max t.depth (depthList ts) := by
  simp [depthList]

/-- the children of a definite-length container: `limit` = their total size -/
theorem list_def (level : Nat) (rest : Bytes) : ∀ (ts : List Tlv), (∀ t ∈ ts, NodeG t) →
    wfList ts = true → inDomainList ts = true → level + depthList ts ≤ maxLevel →
    ∀ (fuel esize : Nat) (pdc : Pdc) (off : Nat), (encodeList ts).length + 1 ≤ fuel →
    pd fuel level false [] ((encodeList ts).length : Int) esize pdc (encodeList ts ++ rest) off
      = .done .finished (encodeList ts).length rest (off + (encodeList ts).length) (expectedList level off ts) := by
  intro ts
  induction ts with
  | nil =>
    intro _ _ _ _ fuel esize pdc off hf
    obtain ⟨f, rfl⟩ : ∃ f, fuel = f + 1 := ⟨fuel - 1, by omega⟩
    simp [encodeList, expectedList, pd]
  | cons t ts ih =>
    intro hN hwf hdom hdep fuel esize pdc off hf
    rw [wfList_cons] at hwf
    rw [inDomainList_cons] at hdom
    rw [depthList_cons] at hdep
    simp only [encodeList, List.length_append, expectedList] at hf ⊢
    have hle := headerLen_le_encode t
    rw [List.append_assoc, hN t (List.mem_cons_self ..) hwf.1 hdom.1 fuel level false _ esize pdc
      (encodeList ts ++ rest) off (by intro h; omega) (by omega) (by right; push_cast; omega) (by omega)]
    rw [if_neg (by omega)]
    have hl : limSub (((t.encode.length + (encodeList ts).length : Nat) : Int)) t.encode.length
        = ((encodeList ts).length : Int) := by
      unfold limSub; rw [if_neg (by omega)]; push_cast; omega
    rw [hl, ih (fun t' h => hN t' (List.mem_cons_of_mem _ h)) hwf.2 hdom.2 (by omega) _ _ _ _ (by omega)]
    simp only [R.addFrame, R.pre]
    congr 1; omega

/-- the children of an indefinite-length container followed by the end-of-contents octets -/
theorem list_indef (level : Nat) (rest : Bytes) : ∀ (ts : List Tlv), (∀ t ∈ ts, NodeG t) →
    wfList ts = true → inDomainList ts = true → level + depthList ts ≤ maxLevel →
    ∀ (fuel : Nat) (limit : Int) (esize : Nat) (pdc : Pdc) (off : Nat),
    (limit = -1 ∨ (((encodeList ts).length + 2 : Nat) : Int) ≤ limit) → (encodeList ts).length + 2 ≤ fuel →
    pd fuel level true [] limit esize pdc (encodeList ts ++ 0 :: 0 :: rest) off
      = .done .finished ((encodeList ts).length + 2) rest (off + (encodeList ts).length + 2)
          (expectedList level off ts
            ++ [.cls (level - 1) true (off + (encodeList ts).length) 2 0 (-1) (esize + (encodeList ts).length + 2)]) := by
  intro ts
  induction ts with
  | nil =>
    intro _ _ _ _ fuel limit esize pdc off hlim hf
    obtain ⟨f, rfl⟩ : ∃ f, fuel = f + 2 := ⟨fuel - 2, by omega⟩
    simp only [encodeList, expectedList, List.nil_append, List.length_nil, Nat.add_zero] at hlim ⊢
    rw [pd_eoc f level limit esize pdc rest off (by omega)]
  | cons t ts ih =>
    intro hN hwf hdom hdep fuel limit esize pdc off hlim hf
    rw [wfList_cons] at hwf
    rw [inDomainList_cons] at hdom
    rw [depthList_cons] at hdep
    simp only [encodeList, List.length_append, expectedList] at hf hlim ⊢
    have hle := headerLen_le_encode t
    push_cast at hlim
    rw [List.append_assoc, hN t (List.mem_cons_self ..) hwf.1 hdom.1 fuel level true limit esize pdc
      (encodeList ts ++ 0 :: 0 :: rest) off (by intro h; simp at h) (by omega) (by omega) (by omega)]
    rw [if_neg (by simp)]
    rw [ih (fun t' h => hN t' (List.mem_cons_of_mem _ h)) hwf.2 hdom.2 (by omega) _ _ _ _ _
      (by unfold limSub; split <;> [left; right] <;> [rfl; (push_cast; omega)]) (by omega)]
    simp only [R.addFrame, R.pre, List.append_assoc, Nat.add_assoc]

/-! ### the three kinds of TLV -/

theorem node_prim (c n : Nat) (lf : LenForm) (content : Bytes) : NodeG (.prim c n lf content) := by
  intro hwf hdom fuel level eoc limit esize pdc rest off hctx _ hlim hfuel
  simp only [Tlv.wf, Bool.and_eq_true] at hwf
  obtain ⟨⟨htag, hvalid⟩, _⟩ := hwf
  simp only [Tlv.inDomain, Tlv.headerLen, Bool.and_eq_true, decide_eq_true_eq] at hdom
  obtain ⟨⟨hn, h32⟩, hv⟩ := hdom
  replace h32 := of_decide_eq_true h32
  simp only [Tlv.encode, Tlv.headerLen, Tlv.expected, pdcAfter, List.length_append] at hlim hfuel ⊢
  have hlb : lenOctets lf content.length ≠ [] := by cases lf <;> simp [lenOctets]
  generalize hhdr : identOctets c false n ++ lenOctets lf content.length = hdr
  have hhl : (identOctets c false n).length + (lenOctets lf content.length).length = hdr.length := by
    rw [← hhdr]; simp
  have H := pd_header c n false (lenOctets lf content.length) (Int.ofNat content.length) htag hn
    (by have := fetchLength_lenOctets lf content.length false [] _ hvalid hv (Nat.le_refl _)
        rwa [List.append_nil] at this)
    (fun p s hps hs => fetchLength_prefix lf content.length false p s hvalid hv hps hs)
    (by rw [hhdr]; omega) hlb
    hdr [] (by simp [hhdr]) (by rw [← hhdr]; simp [hlb])
    (fuel - hdr.length) level eoc limit esize pdc (content ++ rest) off (by rw [hhdr]; omega)
  rw [hhdr] at H
  rw [hhl] at hlim hfuel ⊢
  rw [show hdr.length + (fuel - hdr.length) = fuel by omega] at H
  rw [show hdr ++ content ++ rest = hdr ++ (content ++ rest) by simp, H,
    afterTL_prim _ _ _ _ _ _ _ _ _ _ _ hlim]
  rw [show off + hdr.length - hdr.length = off by omega]
  by_cases htop : limit = -1 ∧ eoc = false
  · have hl0 := hctx htop
    rw [if_pos ⟨hl0, htop.1, htop.2⟩, if_pos htop]
    simp only [Nat.add_assoc]
  · rw [if_neg (by intro h; exact htop ⟨h.2.1, h.2.2⟩), if_neg htop]
    simp only [Nat.add_assoc]

theorem node_cons (c n : Nat) (lf : LenForm) (ch : List Tlv) (hch : ∀ t ∈ ch, NodeG t) :
    NodeG (.cons c n lf ch) := by
  intro hwf hdom fuel level eoc limit esize pdc rest off hctx hdep hlim hfuel
  simp only [Tlv.depth] at hdep
  simp only [Tlv.wf, Bool.and_eq_true] at hwf
  obtain ⟨⟨htag, hvalid⟩, hwfc⟩ := hwf
  simp only [Tlv.inDomain, Tlv.headerLen, Bool.and_eq_true, decide_eq_true_eq] at hdom
  obtain ⟨⟨⟨hn, h32⟩, hv⟩, hdomc⟩ := hdom
  replace h32 := of_decide_eq_true h32
  simp only [Tlv.encode, Tlv.headerLen, Tlv.expected, pdcAfter, List.length_append] at hlim hfuel ⊢
  generalize hvdef : (encodeList ch).length = v at *
  have hlb : lenOctets lf v ≠ [] := by cases lf <;> simp [lenOctets]
  generalize hhdr : identOctets c true n ++ lenOctets lf v = hdr
  have hhl : (identOctets c true n).length + (lenOctets lf v).length = hdr.length := by
    rw [← hhdr]; simp
  have H := pd_header c n true (lenOctets lf v) (Int.ofNat v) htag hn
    (by have := fetchLength_lenOctets lf v true [] _ hvalid hv (Nat.le_refl _)
        rwa [List.append_nil] at this)
    (fun p s hps hs => fetchLength_prefix lf v true p s hvalid hv hps hs)
    (by rw [hhdr]; omega) hlb
    hdr [] (by simp [hhdr]) (by rw [← hhdr]; simp [hlb])
    (fuel - hdr.length) level eoc limit esize pdc (encodeList ch ++ rest) off (by rw [hhdr]; omega)
  rw [hhdr] at H
  rw [hhl] at hlim hfuel ⊢
  rw [show hdr.length + (fuel - hdr.length) = fuel by omega] at H
  have hchild := list_def (level + 1) rest ch hch hwfc hdomc (by omega) (fuel - hdr.length) hdr.length .finished
    (off + hdr.length) (by omega)
  rw [hvdef] at hchild
  rw [show hdr ++ encodeList ch ++ rest = hdr ++ (encodeList ch ++ rest) by simp, H,
    afterTL_cons _ _ _ _ _ _ _ _ _ _ _ _ _ _ hlim (by omega) hchild]
  rw [show off + hdr.length - hdr.length = off by omega]
  by_cases htop : limit = -1 ∧ eoc = false
  · have hl0 := hctx htop
    rw [if_pos ⟨hl0, htop.1, htop.2⟩, if_pos htop]
    simp only [Nat.add_assoc, List.append_assoc, List.cons_append, List.nil_append]
  · rw [if_neg (by intro h; exact htop ⟨h.2.1, h.2.2⟩), if_neg htop]
    simp only [Nat.add_assoc, List.append_assoc, List.cons_append, List.nil_append]

theorem node_indef (c n : Nat) (ch : List Tlv) (hch : ∀ t ∈ ch, NodeG t) :
    NodeG (.indef c n ch) := by
  intro hwf hdom fuel level eoc limit esize pdc rest off hctx hdep hlim hfuel
  simp only [Tlv.depth] at hdep
  simp only [Tlv.wf, Bool.and_eq_true] at hwf
  obtain ⟨htag, hwfc⟩ := hwf
  simp only [Tlv.inDomain, Bool.and_eq_true, decide_eq_true_eq] at hdom
  obtain ⟨hn, hdomc⟩ := hdom
  simp only [Tlv.encode, Tlv.headerLen, Tlv.expected, pdcAfter, List.length_append, List.length_cons,
    List.length_nil] at hlim hfuel ⊢
  have hidl := identOctets_length_pos c true n
  have hid5 : (identOctets c true n).length ≤ 6 := by
    by_cases h : n ≤ 30
    · rw [identOctets_short h]; simp
    · rw [identOctets_long h]
      simp only [List.length_cons, List.length_append, List.length_nil]
      have : (contOctets (n / 128)).length ≤ 4 := by
        have h1 : n / 128 < 2 ^ 23 := by omega
        generalize n / 128 = m at h1
        by_cases m0 : m = 0
        · subst m0; simp [contOctets_zero]
        rw [contOctets_pos m0]
        by_cases m1 : m / 128 = 0
        · rw [m1]; simp [contOctets_zero]
        rw [contOctets_pos m1]
        by_cases m2 : m / 128 / 128 = 0
        · rw [m2]; simp [contOctets_zero]
        rw [contOctets_pos m2]
        by_cases m3 : m / 128 / 128 / 128 = 0
        · rw [m3]; simp [contOctets_zero]
        rw [contOctets_pos m3]
        have m4 : m / 128 / 128 / 128 / 128 = 0 := by omega
        rw [m4]; simp [contOctets_zero]
      omega
  generalize hhdr : identOctets c true n ++ [128] = hdr
  have hhl : (identOctets c true n).length + 1 = hdr.length := by rw [← hhdr]; simp
  have H := pd_header c n true [128] (-1) htag hn
    (by simp [fetchLength])
    (fun p s hps hs => by
      have : p = [] := by
        cases p with
        | nil => rfl
        | cons a p' =>
          exfalso
          have := congrArg List.length hps
          simp only [List.length_append, List.length_cons, List.length_nil] at this
          have h2 : 0 < s.length := List.length_pos_iff.mpr hs
          omega
      subst this; simp [fetchLength])
    (by rw [hhdr]; omega) (by simp)
    hdr [] (by simp [hhdr]) (by rw [← hhdr]; simp)
    (fuel - hdr.length) level eoc limit esize pdc (encodeList ch ++ 0 :: 0 :: rest) off
    (by rw [hhdr]; push_cast at hlim ⊢; omega)
  rw [hhdr] at H
  rw [hhl] at hlim hfuel ⊢
  rw [show hdr.length + (fuel - hdr.length) = fuel by omega] at H
  have hchild := list_indef (level + 1) rest ch hch hwfc hdomc (by omega) (fuel - hdr.length) (limSub limit hdr.length)
    hdr.length .finished (off + hdr.length)
    (by unfold limSub; split <;> [left; right] <;> [rfl; (push_cast at hlim ⊢; omega)]) (by omega)
  rw [show hdr ++ encodeList ch ++ [0, 0] ++ rest = hdr ++ (encodeList ch ++ 0 :: 0 :: rest) by simp, H,
    afterTL_indef _ _ _ _ _ _ _ _ _ _ _ _ _ _ (by push_cast at hlim ⊢; omega) (by omega) hchild]
  rw [show off + hdr.length - hdr.length = off by omega, show level + 1 - 1 = level by omega]
  by_cases htop : limit = -1 ∧ eoc = false
  · rw [if_pos htop, if_pos htop]
    simp only [Nat.add_assoc, List.append_assoc, List.cons_append, List.nil_append]
  · rw [if_neg htop, if_neg htop]
    simp only [Nat.add_assoc, List.append_assoc, List.cons_append, List.nil_append]

/-- every TLV satisfies `NodeG` -/
theorem nodeG_all : ∀ (t : Tlv), NodeG t := by
  intro t
  generalize hs : sizeOf t = s
  induction s using Nat.strongRecOn generalizing t with
  | _ s ih =>
    cases t with
    | prim c n lf content => exact node_prim c n lf content
    | cons c n lf ch =>
      apply node_cons
      intro t' ht'
      have := List.sizeOf_lt_of_mem ht'
      exact ih (sizeOf t') (by rw [← hs]; simp; omega) t' rfl
    | indef c n ch =>
      apply node_indef
      intro t' ht'
      have := List.sizeOf_lt_of_mem ht'
      exact ih (sizeOf t') (by rw [← hs]; simp; omega) t' rfl

/-! ### the top-level loop of `unber_stream` -/

theorem encode_length_pos (t : Tlv) : 0 < t.encode.length := by
  have h := headerLen_le_encode t
  have : 0 < t.headerLen := by
    cases t with
    | prim c n lf content => have := identOctets_length_pos c false n; simp only [Tlv.headerLen]; omega
    | cons c n lf ch => have := identOctets_length_pos c true n; simp only [Tlv.headerLen]; omega
    | indef c n ch => simp only [Tlv.headerLen]; omega
  omega

theorem encodeList_length_ge (ts : List Tlv) : ts.length ≤ (encodeList ts).length := by
  induction ts with
  | nil => simp
  | cons t ts ih =>
    have := encode_length_pos t
    simp only [encodeList, List.length_cons, List.length_append]; omega

theorem pdcAfter_finished (t : Tlv) : pdcAfter t .finished = .finished := by
  cases t <;> rfl

theorem stream_forest : ∀ (ts : List Tlv), wfList ts = true → inDomainList ts = true →
    depthList ts ≤ maxLevel → ∀ (fuel off : Nat), ts.length + 1 ≤ fuel →
    stream fuel (encodeList ts) off = (.ok, expectedList 0 off ts) := by
  intro ts
  induction ts with
  | nil =>
    intro _ _ _ fuel off hf
    obtain ⟨f, rfl⟩ : ∃ f, fuel = f + 1 := ⟨fuel - 1, by omega⟩
    simp [stream, encodeList, expectedList, pd]
  | cons t ts ih =>
    intro hwf hdom hdep fuel off hf
    rw [depthList_cons] at hdep
    obtain ⟨f, rfl⟩ : ∃ f, fuel = f + 1 := ⟨fuel - 1, by simp at hf; omega⟩
    rw [wfList_cons] at hwf
    rw [inDomainList_cons] at hdom
    simp only [stream, encodeList, expectedList, List.length_append]
    rw [nodeG_all t hwf.1 hdom.1 _ 0 false (-1) 0 .finished (encodeList ts) off (by simp) (by omega) (by simp) (by omega)]
    simp only [and_self, if_true, pdcAfter_finished]
    rw [ih hwf.2 hdom.2 (by omega) f _ (by simp at hf; omega)]

/-- `unber -p` on the encoding of a well-formed forest (within the tools' limits, nesting included)
    succeeds and prints exactly the expected events -/
theorem unberOuts_forest (ts : List Tlv) (hwf : wfList ts = true) (hdom : inDomainList ts = true)
    (hdep : depthList ts ≤ maxLevel) :
    unberOuts (encodeList ts) = (.ok, expectedList 0 0 ts) := by
  unfold unberOuts
  exact stream_forest ts hwf hdom hdep _ 0 (by have := encodeList_length_ge ts; omega)
