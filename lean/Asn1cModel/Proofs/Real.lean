import Asn1cModel.Impl.Real
import Asn1cModel.Spec.Real
import Asn1cModel.Proofs.Integer
import Mathlib.Tactic.Ring
import Mathlib.Tactic.Positivity
import Mathlib.Tactic.IntervalCases
/- Helper lemmas for C16 (REAL).  Property theorems live in Props/C16.lean. -/
namespace Asn1c.Proofs.Real
open Asn1c Asn1c.Impl.Real Asn1c.Spec Asn1c.Proofs.Integer

/-! ### exact dyadic arithmetic: `roundToDouble` -/

theorem log2_mul_pow (m k : Nat) (hm : m ≠ 0) : Nat.log2 (m * 2 ^ k) = Nat.log2 m + k := by
  have h2 : (2:Nat) ^ k > 0 := by positivity
  have hne : m * 2 ^ k ≠ 0 := Nat.mul_ne_zero hm (by omega)
  rw [Nat.log2_eq_iff hne]
  have h1 := (Nat.log2_eq_iff (n := m) (k := Nat.log2 m) hm).mp rfl
  constructor
  · rw [Nat.pow_add]; exact Nat.mul_le_mul_right _ h1.1
  · have : 2 ^ (m.log2 + k + 1) = 2 ^ (m.log2 + 1) * 2 ^ k := by
      rw [← Nat.pow_add]; congr 1; omega
    rw [this]; exact (Nat.mul_lt_mul_right h2).mpr h1.2

/-- scaling the mantissa by a power of two and compensating in the shift does not change `rne` -/
theorem rne_mul_pow (m k : Nat) (sh : Int) : rne (m * 2 ^ k) sh = rne m (sh - k) := by
  unfold rne
  by_cases h1 : sh ≤ 0
  · have h2 : sh - (k:Int) ≤ 0 := by omega
    rw [if_pos h1, if_pos h2]
    have : (-(sh - (k:Int))).toNat = k + (-sh).toNat := by omega
    rw [this, Nat.pow_add, Nat.mul_assoc]
  · rw [if_neg h1]
    by_cases h2 : sh - (k:Int) ≤ 0
    · rw [if_pos h2]
      have hk : k = sh.toNat + (-(sh - (k:Int))).toNat := by omega
      generalize (-(sh - (k:Int))).toNat = j at hk
      generalize sh.toNat = s at hk
      subst hk
      have hp : (2:Nat) ^ s > 0 := by positivity
      have e : m * 2 ^ (s + j) = (m * 2 ^ j) * 2 ^ s := by rw [Nat.pow_add]; ring
      simp only [e, Nat.mul_div_cancel _ hp, Nat.mul_mod_left]
      rw [if_neg]
      omega
    · rw [if_neg h2]
      have hs : sh.toNat = (sh - (k:Int)).toNat + k := by omega
      generalize (sh - (k:Int)).toNat = s' at hs
      generalize sh.toNat = s at hs
      subst hs
      have hp : (2:Nat) ^ k > 0 := by positivity
      have e : (2:Nat) ^ (s' + k) = 2 ^ s' * 2 ^ k := Nat.pow_add _ _ _
      simp only [e, Nat.mul_div_mul_right _ _ hp, Nat.mul_mod_mul_right]
      have c1 : (2 * (m % 2 ^ s' * 2 ^ k) > 2 ^ s' * 2 ^ k) ↔ (2 * (m % 2 ^ s') > 2 ^ s') := by
        rw [← Nat.mul_assoc]; exact Nat.mul_lt_mul_right hp
      have c2 : (2 * (m % 2 ^ s' * 2 ^ k) = 2 ^ s' * 2 ^ k) ↔ (2 * (m % 2 ^ s') = 2 ^ s') := by
        rw [← Nat.mul_assoc]; exact Nat.mul_left_inj (by omega)
      simp only [c1, c2]

/-- **scaling lemma**: `(m * 2^k) * 2^e` and `m * 2^(e+k)` round to the same double -/
theorem roundToDouble_mul_pow (m k : Nat) (e : Int) :
    roundToDouble (m * 2 ^ k) e = roundToDouble m (e + k) := by
  unfold roundToDouble
  by_cases hm : m = 0
  · simp [hm]
  · have hp : (2:Nat) ^ k > 0 := by positivity
    have hne : m * 2 ^ k ≠ 0 := Nat.mul_ne_zero hm (by omega)
    rw [if_neg hm, if_neg hne, log2_mul_pow m k hm]
    simp only []
    have e1 : ((m.log2 + k : Nat) : Int) + e = (m.log2 : Int) + (e + k) := by push_cast; ring
    rw [e1, rne_mul_pow]
    have e2 : max ((m.log2 : Int) + (e + k) - 52) (-1074) - e - (k : Int)
            = max ((m.log2 : Int) + (e + k) - 52) (-1074) - (e + k) := by ring
    rw [e2]

/-- **exactness**: a mantissa of at most 53 bits whose value lies in the normal range is
    represented exactly: exponent field `top + 1023`, significand `m` left-aligned to 53 bits. -/
theorem roundToDouble_exact (m : Nat) (e : Int) (hm : m ≠ 0) (hl : Nat.log2 m ≤ 52)
    (hlo : -1022 ≤ (Nat.log2 m : Int) + e) (hhi : (Nat.log2 m : Int) + e ≤ 1023) :
    roundToDouble m e = ((Nat.log2 m : Int) + e + 1022).toNat * 2 ^ 52 + m * 2 ^ (52 - Nat.log2 m) := by
  unfold roundToDouble rne
  rw [if_neg hm]
  simp only []
  have hq : max ((m.log2 : Int) + e - 52) (-1074) = (m.log2 : Int) + e - 52 := by omega
  rw [hq]
  have hsh : (m.log2 : Int) + e - 52 - e ≤ 0 := by omega
  rw [if_pos hsh]
  have e1 : (-((m.log2 : Int) + e - 52 - e)).toNat = 52 - m.log2 := by omega
  have e2 : ((m.log2 : Int) + e - 52 + 1074).toNat = ((m.log2 : Int) + e + 1022).toNat := by congr 1; ring
  rw [e1, e2]
  have h1 := (Nat.log2_eq_iff (n := m) (k := Nat.log2 m) hm).mp rfl
  have hX : m * 2 ^ (52 - m.log2) < 2 ^ 53 := by
    have : (2:Nat) ^ 53 = 2 ^ (m.log2 + 1) * 2 ^ (52 - m.log2) := by rw [← Nat.pow_add]; congr 1; omega
    rw [this]; exact (Nat.mul_lt_mul_right (by positivity)).mpr h1.2
  rw [if_neg]
  unfold posInf
  have : ((m.log2 : Int) + e + 1022).toNat ≤ 2045 := by omega
  norm_num at hX ⊢
  omega

theorem mantissa_aligned (m : Nat) (hm : m ≠ 0) (hl : Nat.log2 m ≤ 52) :
    2 ^ 52 ≤ m * 2 ^ (52 - Nat.log2 m) ∧ m * 2 ^ (52 - Nat.log2 m) < 2 ^ 53 := by
  have h1 := (Nat.log2_eq_iff (n := m) (k := Nat.log2 m) hm).mp rfl
  constructor
  · have : (2:Nat) ^ 52 = 2 ^ m.log2 * 2 ^ (52 - m.log2) := by rw [← Nat.pow_add]; congr 1; omega
    rw [this]; exact Nat.mul_le_mul_right _ h1.1
  · have : (2:Nat) ^ 53 = 2 ^ (m.log2 + 1) * 2 ^ (52 - m.log2) := by rw [← Nat.pow_add]; congr 1; omega
    rw [this]; exact (Nat.mul_lt_mul_right (by positivity)).mpr h1.2


/-- the double holding the integer `n` (exact for `n < 2^53`) -/
def dblOfNat (n : Nat) : Nat := roundToDouble n 0

theorem log2_le_52 {n : Nat} (hn : n ≠ 0) (h : n < 2 ^ 53) : Nat.log2 n ≤ 52 := by
  have := (Nat.log2_lt (n := n) (k := 53) hn).mpr h
  omega

theorem ofNat_bits (n : Nat) (hn : n ≠ 0) (h : n < 2 ^ 53) :
    dblOfNat n = (Nat.log2 n + 1022) * 2 ^ 52 + n * 2 ^ (52 - Nat.log2 n) := by
  unfold dblOfNat
  have hl := log2_le_52 hn h
  rw [roundToDouble_exact n 0 hn hl (by omega) (by omega)]
  congr 2

theorem ofNat_finite (n : Nat) (h : n < 2 ^ 53) : dblOfNat n < posInf := by
  by_cases hn : n = 0
  · subst hn; decide
  · rw [ofNat_bits n hn h]
    have hl := log2_le_52 hn h
    obtain ⟨h1, h2⟩ := mantissa_aligned n hn hl
    generalize n * 2 ^ (52 - n.log2) = X at *
    unfold posInf; norm_num at *; omega

theorem toDyadic_ofNat (n : Nat) (hn : n ≠ 0) (h : n < 2 ^ 53) :
    toDyadic (dblOfNat n) = (n * 2 ^ (52 - Nat.log2 n), (Nat.log2 n : Int) - 52) := by
  rw [ofNat_bits n hn h]
  have hl := log2_le_52 hn h
  obtain ⟨h1, h2⟩ := mantissa_aligned n hn hl
  generalize n * 2 ^ (52 - n.log2) = X at *
  generalize n.log2 = L at *
  have e1 : expField ((L + 1022) * 2 ^ 52 + X) = L + 1023 := by unfold expField; omega
  have e2 : fracField ((L + 1022) * 2 ^ 52 + X) = X - 2 ^ 52 := by unfold fracField; omega
  unfold toDyadic
  rw [e1, e2, if_neg (by omega)]
  refine Prod.ext ?_ ?_
  · simp only []; omega
  · simp only []; push_cast; omega

/-- `ldexp((double)n, k)` is the correctly rounded `n * 2^k` -/
theorem ldexpPos_ofNat (n : Nat) (h : n < 2 ^ 53) (k : Int) : ldexpPos (dblOfNat n) k = roundToDouble n k := by
  unfold ldexpPos
  rw [if_neg (by have := ofNat_finite n h; omega)]
  by_cases hn : n = 0
  · subst hn
    have : dblOfNat 0 = 0 := by decide
    rw [this]; simp [toDyadic, expField, fracField, roundToDouble]
  · rw [toDyadic_ofNat n hn h]
    simp only []
    rw [roundToDouble_mul_pow]
    have hl := log2_le_52 hn h
    congr 1
    omega

set_option exponentiation.threshold 2000 in
/-- `(double)n + (double)b` is the correctly rounded `n + b` -/
theorem addNat_ofNat (n b : Nat) (h : n < 2 ^ 53) : addNat (dblOfNat n) b = roundToDouble (n + b) 0 := by
  unfold addNat
  rw [if_neg (by have := ofNat_finite n h; omega)]
  by_cases hn : n = 0
  · subst hn
    have : dblOfNat 0 = 0 := by decide
    rw [this]
    have : toDyadic 0 = (0, -1074) := by decide
    rw [this]
    simp only []
    rw [if_neg (by omega)]
    have : (-(-1074 : Int)).toNat = 1074 := by decide
    rw [this, Nat.zero_add, Nat.zero_add, roundToDouble_mul_pow]
    rfl
  · rw [toDyadic_ofNat n hn h]
    have hl := log2_le_52 hn h
    simp only []
    by_cases he : (n.log2 : Int) - 52 ≥ 0
    · rw [if_pos he]
      have : n.log2 = 52 := by omega
      rw [this]; simp
    · rw [if_neg he]
      have : (-((n.log2 : Int) - 52)).toNat = 52 - n.log2 := by omega
      rw [this, ← Nat.add_mul, roundToDouble_mul_pow]
      congr 1
      omega

/-- the mantissa accumulation loop `m = ldexp(m, 8) + octet` is exact below 2^53 -/
theorem mantissaLoop_exact (l : Bytes) (n : Nat) (h : ofBE n l < 2 ^ 53) :
    mantissaLoop (dblOfNat n) l = dblOfNat (ofBE n l) := by
  induction l generalizing n with
  | nil => rfl
  | cons b bs ih =>
    simp only [mantissaLoop, ofBE] at h ⊢
    have hmono : n * 256 + b ≤ ofBE (n * 256 + b) bs := by
      rw [ofBE_eq]
      have : (256:Nat) ^ bs.length ≥ 1 := Nat.one_le_pow _ _ (by decide)
      calc n * 256 + b = (n * 256 + b) * 1 := by ring
        _ ≤ (n * 256 + b) * 256 ^ bs.length := Nat.mul_le_mul_left _ this
        _ ≤ _ := Nat.le_add_right _ _
    have hn : n < 2 ^ 53 := by omega
    have h256 : n * 256 < 2 ^ 53 := by omega
    rw [ldexpPos_ofNat n hn 8]
    have : roundToDouble n 8 = dblOfNat (n * 256) := by
      unfold dblOfNat
      have := roundToDouble_mul_pow n 8 0
      simpa using this.symm
    rw [this, addNat_ofNat _ _ h256]
    exact ih (n * 256 + b) h


/-! ### minimal big-endian digits -/

theorem ofBE_append_single (acc : Nat) (l : Bytes) (x : Nat) : ofBE acc (l ++ [x]) = ofBE acc l * 256 + x := by
  induction l generalizing acc with
  | nil => simp [ofBE]
  | cons b bs ih => simp only [List.cons_append, ofBE]; exact ih _

theorem toBE_zero : toBE 0 = [] := by rw [toBE]; simp

theorem toBE_pos (n : Nat) (h : n ≠ 0) : toBE n = toBE (n / 256) ++ [n % 256] := by
  rw [toBE]; simp [h]

theorem ofBE_toBE (n : Nat) : ofBE 0 (toBE n) = n := by
  induction n using Nat.strongRecOn with
  | _ n ih =>
    by_cases h : n = 0
    · subst h; rw [toBE_zero]; rfl
    · rw [toBE_pos n h, ofBE_append_single, ih (n / 256) (by omega)]; omega

theorem toBE_wf (n : Nat) : Bytes.wf (toBE n) := by
  induction n using Nat.strongRecOn with
  | _ n ih =>
    by_cases h : n = 0
    · subst h; rw [toBE_zero]; intro b hb; simp at hb
    · rw [toBE_pos n h]
      intro b hb
      rcases List.mem_append.mp hb with hb | hb
      · exact ih (n / 256) (by omega) b hb
      · simp at hb; omega

theorem toBE_head_ne_zero (n : Nat) : ∀ x l, toBE n = x :: l → x ≠ 0 := by
  induction n using Nat.strongRecOn with
  | _ n ih =>
    intro x l hx
    by_cases h : n = 0
    · subst h; rw [toBE_zero] at hx; cases hx
    · rw [toBE_pos n h] at hx
      by_cases h2 : n / 256 = 0
      · rw [h2, toBE_zero] at hx
        simp at hx
        omega
      · cases hq : toBE (n / 256) with
        | nil =>
          have := ofBE_toBE (n / 256); rw [hq] at this; simp [ofBE] at this; omega
        | cons y ys =>
          rw [hq] at hx
          simp at hx
          exact hx.1 ▸ ih (n / 256) (by omega) y ys hq

/-- uniqueness of the minimal base-256 representation -/
theorem toBE_ofBE (l : Bytes) (hw : Bytes.wf l) (hh : ∀ x l', l = x :: l' → x ≠ 0) : toBE (ofBE 0 l) = l := by
  induction l using List.reverseRecOn with
  | nil => simp [ofBE, toBE_zero]
  | append_singleton l x ih =>
    have hx : x < 256 := hw x (by simp)
    have hwl : Bytes.wf l := fun b hb => hw b (by simp [hb])
    rw [ofBE_append_single]
    cases l with
    | nil =>
      have : x ≠ 0 := hh x [] rfl
      simp only [ofBE]
      rw [toBE_pos _ (by omega)]
      have : (0 * 256 + x) / 256 = 0 := by omega
      rw [this, toBE_zero]; simp; omega
    | cons y ys =>
      have hy : y ≠ 0 := hh y (ys ++ [x]) rfl
      have ih' := ih hwl (fun a l' e => by cases e; exact hy)
      have hpos : ofBE 0 (y :: ys) ≠ 0 := by
        rw [ofBE_cons]
        have : (256:Nat) ^ ys.length ≥ 1 := Nat.one_le_pow _ _ (by decide)
        have : y * 256 ^ ys.length ≥ 1 := Nat.mul_pos (by omega) this
        omega
      rw [toBE_pos _ (by omega)]
      have e1 : (ofBE 0 (y :: ys) * 256 + x) / 256 = ofBE 0 (y :: ys) := by omega
      have e2 : (ofBE 0 (y :: ys) * 256 + x) % 256 = x := by omega
      rw [e1, e2, ih']

/-! ### trailing zeros -/

theorem ctzAux_spec (t : Nat) : ∀ fuel n, n ≤ fuel → n % 2 ^ t = 0 → n / 2 ^ t % 2 = 1 → ctzAux fuel n = t := by
  induction t with
  | zero =>
    intro fuel n hf _ h1
    simp at h1
    cases fuel with
    | zero => omega
    | succ f => simp [ctzAux]; omega
  | succ t ih =>
    intro fuel n hf h0 h1
    obtain ⟨c, hc⟩ := Nat.dvd_of_mod_eq_zero h0
    have hp : (2:Nat) ^ t > 0 := by positivity
    have hp1 : (2:Nat) ^ (t + 1) > 0 := by positivity
    have hc1 : n / 2 ^ (t + 1) = c := by rw [hc]; exact Nat.mul_div_cancel_left _ hp1
    have hcpos : c % 2 = 1 := by rw [← hc1]; exact h1
    have hn2 : n = 2 * (2 ^ t * c) := by rw [hc, Nat.pow_succ]; ring
    have hnpos : n ≠ 0 := by
      have : c ≥ 1 := by omega
      have : 2 ^ t * c ≥ 1 := Nat.mul_pos hp this
      omega
    cases fuel with
    | zero => omega
    | succ f =>
      have hhalf : n / 2 = 2 ^ t * c := by omega
      simp only [ctzAux]
      rw [if_pos ⟨hnpos, by omega⟩]
      congr 1
      apply ih f (n / 2) (by omega)
      · rw [hhalf]; exact Nat.mul_mod_right _ _
      · rw [hhalf, Nat.mul_div_cancel_left _ hp]; exact hcpos

theorem ctz_spec (n t : Nat) (h0 : n % 2 ^ t = 0) (h1 : n / 2 ^ t % 2 = 1) : ctz n = t :=
  ctzAux_spec t n n (Nat.le_refl _) h0 h1

/-! ### `shift_count` = number of trailing zero bits of the last mantissa octet -/

theorem shiftCount_spec : ∀ m < 256, m ≠ 0 → m % 2 = 0 →
    1 ≤ shiftCount m ∧ shiftCount m ≤ 7 ∧ m % 2 ^ shiftCount m = 0 ∧ m / 2 ^ shiftCount m % 2 = 1 := by
  decide +kernel

/-! ### first octet + exponent octets -/

theorem expHeader_eq (s : Nat) (e : Int) (h1 : -32768 ≤ e) (h2 : e < 32768) :
    expHeader (128 + 64 * s) e = (0x80 + 0x40 * s + ((realExpOctets e).length - 1)) :: realExpOctets e := by
  unfold expHeader realExpOctets twosOctets
  have h12 : -32768 ≤ e ∧ e < 32768 := ⟨h1, h2⟩
  by_cases c1 : -128 ≤ e ∧ e < 128
  · rw [if_pos c1]
    by_cases c0 : e < 0
    · rw [if_pos c0, if_pos (by omega)]; simp [toBEn]; omega
    · rw [if_neg c0, if_pos (by omega)]; simp [toBEn]; omega
  · rw [if_neg c1, if_pos h12]
    by_cases c0 : e < 0
    · rw [if_pos c0, if_neg (by omega), if_pos (by omega)]; simp [toBEn]; omega
    · rw [if_neg c0, if_neg (by omega), if_pos (by omega)]; simp [toBEn]; omega

theorem expValue_realExpOctets (e : Int) (h1 : -32768 ≤ e) (h2 : e < 32768) :
    expValue (realExpOctets e) = e := by
  unfold realExpOctets twosOctets
  by_cases c1 : -128 ≤ e ∧ e < 128
  · rw [if_pos c1]; simp only [toBEn, expValue, List.foldl]
    split <;> omega
  · rw [if_neg c1, if_pos (And.intro h1 h2)]; simp only [toBEn, expValue, List.foldl]
    split <;> omega

theorem realExpOctets_length (e : Int) (h1 : -32768 ≤ e) (h2 : e < 32768) :
    (realExpOctets e).length = 1 ∨ (realExpOctets e).length = 2 := by
  unfold realExpOctets twosOctets
  by_cases c1 : -128 ≤ e ∧ e < 128
  · rw [if_pos c1]; simp [toBEn]
  · rw [if_neg c1, if_pos (And.intro h1 h2)]; simp [toBEn]

/-! ### `asn_double2REAL` on normal doubles -/

theorem ctzAux_props : ∀ fuel n, n ≤ fuel → n ≠ 0 →
    n % 2 ^ ctzAux fuel n = 0 ∧ n / 2 ^ ctzAux fuel n % 2 = 1 := by
  intro fuel
  induction fuel with
  | zero => intro n h1 h2; omega
  | succ f ih =>
    intro n h1 h2
    simp only [ctzAux]
    by_cases hc : n ≠ 0 ∧ n % 2 = 0
    · rw [if_pos hc]
      obtain ⟨i1, i2⟩ := ih (n / 2) (by omega) (by omega)
      generalize ctzAux f (n / 2) = c at *
      obtain ⟨d, hd⟩ := Nat.dvd_of_mod_eq_zero i1
      have hn : n = 2 ^ (c + 1) * d := by
        rw [Nat.pow_succ, Nat.mul_comm (2 ^ c) 2, Nat.mul_assoc, ← hd]; omega
      have hp : (2:Nat) ^ c > 0 := by positivity
      have hp1 : (2:Nat) ^ (c + 1) > 0 := by positivity
      constructor
      · rw [hn]; exact Nat.mul_mod_right _ _
      · rw [hn, Nat.mul_div_cancel_left _ hp1]
        rw [hd, Nat.mul_div_cancel_left _ hp] at i2
        exact i2
    · rw [if_neg hc]; simp; omega

theorem ctz_props (n : Nat) (h : n ≠ 0) : n % 2 ^ ctz n = 0 ∧ n / 2 ^ ctz n % 2 = 1 :=
  ctzAux_props n n (Nat.le_refl _) h

/-- trailing zeros of `v * 2^k` -/
theorem ctz_mul_pow (v k : Nat) (h : v ≠ 0) :
    ctz (v * 2 ^ k) = k + ctz v ∧ v * 2 ^ k / 2 ^ (k + ctz v) = v / 2 ^ ctz v := by
  obtain ⟨p1, p2⟩ := ctz_props v h
  obtain ⟨d, hd⟩ := Nat.dvd_of_mod_eq_zero p1
  have hpk : (2:Nat) ^ k > 0 := by positivity
  have hpc : (2:Nat) ^ ctz v > 0 := by positivity
  have hpkc : (2:Nat) ^ (k + ctz v) > 0 := by positivity
  have e : v * 2 ^ k = 2 ^ (k + ctz v) * d := by
    rw [Nat.pow_add]; conv_lhs => rw [hd]
    ring
  have e2 : v / 2 ^ ctz v = d := by
    have := Nat.mul_div_cancel_left d hpc
    rw [← hd] at this; exact this
  have e3 : v * 2 ^ k / 2 ^ (k + ctz v) = d := by rw [e]; exact Nat.mul_div_cancel_left _ hpkc
  refine ⟨ctz_spec _ _ ?_ ?_, ?_⟩
  · rw [e]; exact Nat.mul_mod_right _ _
  · rw [e3, ← e2]; exact p2
  · rw [e3, e2]

theorem ctz_lt_of_mod_ne (n j : Nat) (h : n % 2 ^ j ≠ 0) : ctz n < j := by
  have hn : n ≠ 0 := by intro e; subst e; simp at h
  obtain ⟨p1, _⟩ := ctz_props n hn
  by_contra hc
  have hle : j ≤ ctz n := by omega
  obtain ⟨d, hd⟩ := Nat.dvd_of_mod_eq_zero p1
  apply h
  have : 2 ^ ctz n = 2 ^ j * 2 ^ (ctz n - j) := by rw [← Nat.pow_add]; congr 1; omega
  rw [hd, this, Nat.mul_assoc]
  exact Nat.mul_mod_right _ _

/-! ### the right-shift loop -/

theorem shiftR_length (sc acc : Nat) (l : Bytes) : (shiftR sc acc l).length = l.length := by
  induction l generalizing acc with
  | nil => rfl
  | cons m rest ih => simp [shiftR, ih]

theorem shiftR_wf (sc acc : Nat) (l : Bytes) : Bytes.wf (shiftR sc acc l) := by
  induction l generalizing acc with
  | nil => intro b hb; simp [shiftR] at hb
  | cons m rest ih =>
    intro b hb
    simp only [shiftR, List.mem_cons] at hb
    rcases hb with hb | hb
    · omega
    · exact ih _ b hb

/-- value of the shifted buffer; `p` is the previous octet (its low `sc` bits are carried in) -/
theorem shiftR_val (sc : Nat) (h1 : 1 ≤ sc) (h7 : sc ≤ 7) (l : Bytes) (hw : Bytes.wf l) :
    ∀ p A, ofBE A (shiftR sc (p * 2 ^ (8 - sc)) l) =
      A * 256 ^ l.length + ((p % 2 ^ sc) * 256 ^ l.length + ofBE 0 l) / 2 ^ sc := by
  induction l with
  | nil =>
    intro p A
    simp only [shiftR, ofBE, List.length_nil, Nat.pow_zero, Nat.mul_one, Nat.add_zero]
    have : p % 2 ^ sc / 2 ^ sc = 0 := Nat.div_eq_of_lt (Nat.mod_lt _ (by positivity))
    omega
  | cons m rest ih =>
    intro p A
    have hm : m < 256 := hw m (by simp)
    have ih' := ih (wf_tail hw)
    rw [ofBE_cons m rest]
    simp only [shiftR, ofBE]
    rw [ih' m, List.length_cons, Nat.pow_succ]
    generalize ofBE 0 rest = R
    generalize (256:Nat) ^ rest.length = W
    have hP : (2:Nat) ^ sc > 0 := by positivity
    have hmW : m * W = 2 ^ sc * (m / 2 ^ sc * W) + m % 2 ^ sc * W := by
      rw [← Nat.mul_assoc, ← Nat.add_mul, Nat.div_add_mod]
    have hpW : p % 2 ^ sc * (W * 256) = 2 ^ sc * (2 ^ (8 - sc) * (p % 2 ^ sc * W)) := by
      have : (256:Nat) = 2 ^ sc * 2 ^ (8 - sc) := by
        rw [← Nat.pow_add]
        have : sc + (8 - sc) = 8 := by omega
        rw [this]
      rw [this]; ring
    have hh : (p * 2 ^ (8 - sc) + m / 2 ^ sc) % 256 = 2 ^ (8 - sc) * (p % 2 ^ sc) + m / 2 ^ sc := by
      interval_cases sc <;> norm_num <;> omega
    rw [hh, hpW, hmW]
    have lhs : (A * 256 + (2 ^ (8 - sc) * (p % 2 ^ sc) + m / 2 ^ sc)) * W
        = A * (W * 256) + (2 ^ (8 - sc) * (p % 2 ^ sc * W) + m / 2 ^ sc * W) := by ring
    have rhs : 2 ^ sc * (2 ^ (8 - sc) * (p % 2 ^ sc * W)) + (2 ^ sc * (m / 2 ^ sc * W) + m % 2 ^ sc * W + R)
        = 2 ^ sc * (2 ^ (8 - sc) * (p % 2 ^ sc * W) + m / 2 ^ sc * W) + (m % 2 ^ sc * W + R) := by ring
    rw [lhs, rhs, Nat.mul_add_div hP, Nat.add_assoc]

theorem shiftR_zero_val (sc : Nat) (h1 : 1 ≤ sc) (h7 : sc ≤ 7) (l : Bytes) (hw : Bytes.wf l) :
    ofBE 0 (shiftR sc 0 l) = ofBE 0 l / 2 ^ sc := by
  have := shiftR_val sc h1 h7 l hw 0 0
  simpa using this

/-- the octets left by `while(mstart < mstop && *mstart == 0) mstart++` are the minimal
    base-256 form of the (non-zero) number held in the buffer -/
theorem stripZeros_eq_toBE (l : Bytes) (hw : Bytes.wf l) (h : ofBE 0 l ≠ 0) :
    stripZeros l = toBE (ofBE 0 l) := by
  induction l with
  | nil => simp [ofBE] at h
  | cons x t ih =>
    cases t with
    | nil =>
      simp only [stripZeros]
      have hx : x ≠ 0 := by simpa [ofBE] using h
      exact (toBE_ofBE [x] hw (by intro a l' e; cases e; exact hx)).symm
    | cons y rest =>
      simp only [stripZeros]
      by_cases hx : x = 0
      · rw [if_pos hx]; subst hx
        have e : ofBE 0 (0 :: y :: rest) = ofBE 0 (y :: rest) := by simp [ofBE]
        rw [e] at h ⊢
        exact ih (wf_tail hw) h
      · rw [if_neg hx]
        exact (toBE_ofBE _ hw (by intro a l' e; cases e; exact hx)).symm

/-- the emitting half of `asn_double2REAL` on a scratch pad `dscr[0..mstop]` whose last octet is
    non-zero (with or without the explicit 1): exponent raised by the number of trailing zero bits,
    then the odd mantissa in the fewest octets -/
theorem d2rEmit_spec (bm : Nat) (e : Int) (dscr : Bytes) (hwl : Bytes.wf dscr)
    (hlast : dscr.getLastD 0 ≠ 0) :
    d2rEmit bm e dscr =
      expHeader bm (e + (ctz (ofBE 0 dscr) : Nat)) ++ toBE (ofBE 0 dscr / 2 ^ ctz (ofBE 0 dscr))
    ∧ ctz (ofBE 0 dscr) ≤ 7 := by
  have hne : dscr ≠ [] := by intro h; subst h; simp at hlast
  obtain ⟨init, last, hl⟩ : ∃ init last, dscr = init ++ [last] :=
    ⟨_, _, (List.dropLast_append_getLast (l := dscr) hne).symm⟩
  have hlast' : dscr.getLastD 0 = last := by rw [hl]; simp
  have hl256 : last < 256 := hwl last (by rw [hl]; simp)
  have hV : ofBE 0 dscr = ofBE 0 init * 256 + last := by rw [hl, ofBE_append_single]
  rw [hlast'] at hlast
  unfold d2rEmit
  simp only [hlast']
  by_cases hev : last % 2 = 0
  · rw [if_pos ⟨hlast, hev⟩]
    obtain ⟨s1, s2, s3, s4⟩ := shiftCount_spec last hl256 hlast hev
    generalize shiftCount last = sc at *
    have hval := shiftR_zero_val sc s1 s2 _ hwl
    have hswf := shiftR_wf sc 0 dscr
    have hc1 : ofBE 0 dscr / 2 ^ sc % 2 = 1 := by rw [hV]; interval_cases sc <;> omega
    have hc : ctz (ofBE 0 dscr) = sc :=
      ctz_spec _ sc (by rw [hV]; interval_cases sc <;> omega) hc1
    rw [hc]
    refine ⟨?_, by omega⟩
    congr 1
    rw [← hval]
    exact stripZeros_eq_toBE _ hswf (by rw [hval]; omega)
  · rw [if_neg (by omega)]
    have hc : ctz (ofBE 0 dscr) = 0 := ctz_spec _ 0 (by simp [Nat.mod_one]) (by rw [hV]; simp; omega)
    rw [hc]
    refine ⟨?_, by omega⟩
    simp only [Nat.cast_zero, Int.add_zero, Nat.pow_zero, Nat.div_one]
    congr 1
    exact stripZeros_eq_toBE _ hwl (by rw [hV]; omega)

theorem rawOctets_eq (b : Nat) : rawOctets b =
    [b / 281474976710656 % 256, b / 1099511627776 % 256, b / 4294967296 % 256, b / 16777216 % 256,
     b / 65536 % 256, b / 256 % 256, b % 256] := by
  unfold rawOctets
  simp only [toBEn]
  norm_num
  refine ⟨?_, ?_, ?_, ?_, ?_, ?_⟩ <;> omega

theorem mstop_cases (b : Nat) :
    ∃ k, k ≤ 6 ∧ lastNonzero (rawOctets b) 0 0 = k ∧ b % 2 ^ (8 * (6 - k)) = 0 ∧
      (k ≥ 1 → b / 2 ^ (8 * (6 - k)) % 256 ≠ 0) := by
  rw [rawOctets_eq]
  simp only [lastNonzero]
  by_cases h6 : b % 256 = 0
  swap
  · exact ⟨6, by omega, by simp [h6], by simp; omega, by simpa using h6⟩
  by_cases h5 : b / 256 % 256 = 0
  swap
  · exact ⟨5, by omega, by simp [h6, h5], by norm_num; omega, by norm_num; omega⟩
  by_cases h4 : b / 65536 % 256 = 0
  swap
  · exact ⟨4, by omega, by simp [h6, h5, h4], by norm_num; omega, by norm_num; omega⟩
  by_cases h3 : b / 16777216 % 256 = 0
  swap
  · exact ⟨3, by omega, by simp [h6, h5, h4, h3], by norm_num; omega, by norm_num; omega⟩
  by_cases h2 : b / 4294967296 % 256 = 0
  swap
  · exact ⟨2, by omega, by simp [h6, h5, h4, h3, h2], by norm_num; omega, by norm_num; omega⟩
  by_cases h1 : b / 1099511627776 % 256 = 0
  swap
  · exact ⟨1, by omega, by simp [h6, h5, h4, h3, h2, h1], by norm_num; omega, by norm_num; omega⟩
  · exact ⟨0, by omega, by simp [h6, h5, h4, h3, h2, h1], by norm_num; omega, by omega⟩


theorem ilogb_lt_iff (b : Nat) : ilogb b < -1022 ↔ expField b = 0 := by
  unfold ilogb
  by_cases h : expField b = 0
  · rw [if_pos h]
    refine ⟨fun _ => h, fun _ => ?_⟩
    by_cases h0 : fracField b = 0
    · rw [h0]; decide
    · have : Nat.log2 (fracField b) < 52 := (Nat.log2_lt h0).mpr (Nat.mod_lt _ (by positivity))
      omega
  · rw [if_neg h]
    constructor
    · intro h'; omega
    · intro h'; exact absurd h' h

/-- **the general branch of `asn_double2REAL`, every finite non-zero double** (normal or subnormal):
    with the IEEE-754 significand/exponent `(m, e) = toDyadic b` (hidden bit for normal doubles only)
    and `t` the number of trailing zero bits of `m`, the stored octets are the first octet with the
    exponent `e + t` followed by the odd mantissa `m / 2^t` in the fewest octets. -/
theorem double2REALfinite_eq (b : Nat) (hnz : (toDyadic b).1 ≠ 0) :
    double2REALfinite b =
      expHeader (128 + 64 * signOf b) ((toDyadic b).2 + (ctz (toDyadic b).1 : Nat)) ++
        toBE ((toDyadic b).1 / 2 ^ ctz (toDyadic b).1) := by
  obtain ⟨k, hk, hms, hz, hnzk⟩ := mstop_cases b
  unfold double2REALfinite
  rw [hms]
  unfold scratch
  rw [rawOctets_eq]
  simp only [List.take_succ_cons]
  -- `h` = the explicit 1 (normal) or nothing (subnormal); `e0` = the exponent of the hidden-bit position
  obtain ⟨h, e0, hh, hif1, hif2, hM, hP⟩ : ∃ (h : Nat) (e0 : Int), (h = 0 ∨ h = 16) ∧
      (if ilogb b < -1022 then 0 else 16) = h ∧ (if ilogb b < -1022 then -1022 else ilogb b) = e0 ∧
      (toDyadic b).1 = h * 2 ^ 48 + fracField b ∧ (toDyadic b).2 = e0 - 52 := by
    unfold toDyadic
    by_cases hE : expField b = 0
    · have := (ilogb_lt_iff b).mpr hE
      exact ⟨0, -1022, Or.inl rfl, by rw [if_pos this], by rw [if_pos this], by rw [if_pos hE]; simp,
        by rw [if_pos hE]; simp⟩
    · have hi : ¬ ilogb b < -1022 := fun c => hE ((ilogb_lt_iff b).mp c)
      refine ⟨16, ilogb b, Or.inr rfl, by rw [if_neg hi], by rw [if_neg hi], by rw [if_neg hE]; simp, ?_⟩
      rw [if_neg hE]; unfold ilogb; rw [if_neg hE]; simp only []; omega
  rw [hif1, hif2, hM, hP]
  rw [hM] at hnz
  clear hif1 hif2 hM hP
  have hx : b / 281474976710656 % 256 % 16 < 16 := by omega
  generalize hrest : List.take k [b / 1099511627776 % 256, b / 4294967296 % 256, b / 16777216 % 256,
     b / 65536 % 256, b / 256 % 256, b % 256] = rest
  have hwr : Bytes.wf rest := by
    rw [← hrest]; intro y hy
    have := List.mem_of_mem_take hy
    simp at this; omega
  have hwl : Bytes.wf ((h + b / 281474976710656 % 256 % 16) :: rest) := by
    intro y hy; simp at hy; rcases hy with hy | hy
    · omega
    · exact hwr y hy
  have hS : h * 2 ^ 48 + fracField b = ofBE 0 ((h + b / 281474976710656 % 256 % 16) :: rest) * 2 ^ (8 * (6 - k)) := by
    rw [← hrest]; unfold fracField
    rcases hh with rfl | rfl <;> interval_cases k <;> simp [ofBE] <;> omega
  have hlast : ((h + b / 281474976710656 % 256 % 16) :: rest).getLastD 0 ≠ 0 := by
    rw [← hrest]
    unfold fracField at hnz
    rcases hh with rfl | rfl <;> interval_cases k <;> simp <;> omega
  obtain ⟨hspec, hc7⟩ := d2rEmit_spec (128 + 64 * signOf b)
    (e0 - (8 * ((k : Int) + 1) - 4)) _ hwl hlast
  rw [hspec]
  generalize ofBE 0 ((h + b / 281474976710656 % 256 % 16) :: rest) = V at *
  have hV0 : V ≠ 0 := by
    intro h'; subst h'; simp at hS; omega
  obtain ⟨c1, c2⟩ := ctz_mul_pow V (8 * (6 - k)) hV0
  rw [hS, c1, c2]
  generalize ctz V = c at *
  congr 2
  push_cast; omega

/-! ### `asn_REAL2double` on base-2 contents with a mantissa below 2^53 -/

theorem roundToDouble_normal (E F : Nat) (h1 : 1 ≤ E) (h2 : E ≤ 2046) (hF : F < 2 ^ 52) :
    roundToDouble (2 ^ 52 + F) ((E : Int) - 1075) = E * 2 ^ 52 + F := by
  have hl : Nat.log2 (2 ^ 52 + F) = 52 := by
    rw [Nat.log2_eq_iff (by omega)]; constructor <;> omega
  rw [roundToDouble_exact _ _ (by omega) (by omega) (by rw [hl]; omega) (by rw [hl]; omega), hl]
  have : ((52 : Nat) : Int) + ((E : Int) - 1075) + 1022 = ((E - 1 : Nat) : Int) := by omega
  rw [this, Int.toNat_natCast]
  simp only [Nat.sub_self, Nat.pow_zero, Nat.mul_one]
  omega

theorem roundToDouble_subnormal (F : Nat) (hF : F < 2 ^ 52) : roundToDouble F (-1074) = F := by
  unfold roundToDouble
  by_cases h0 : F = 0
  · simp [h0]
  · rw [if_neg h0]
    have hl : Nat.log2 F < 52 := (Nat.log2_lt h0).mpr hF
    simp only []
    have hq : max ((F.log2 : Int) + -1074 - 52) (-1074) = -1074 := by omega
    rw [hq]
    unfold rne posInf
    simp only [Int.sub_self, Int.le_refl, if_true]
    norm_num
    omega

/-- what `asn_REAL2double` computes from a short-form base-2 content with scaling factor 0:
    the correctly rounded `N * 2^e` (here the mantissa octets are the minimal form of `N`,
    optionally preceded by one zero octet) -/
theorem REAL2double_base2 (s : Nat) (hs : s ≤ 1) (e : Int) (h1 : -32768 ≤ e) (h2 : e < 32768)
    (pre : Bytes) (hpre : pre = [] ∨ pre = [0]) (N : Nat) (hN : N < 2 ^ 53) (hN0 : N ≠ 0) :
    REAL2double ((0x80 + 0x40 * s + ((realExpOctets e).length - 1)) :: (realExpOctets e ++ (pre ++ toBE N))) =
      if roundToDouble N e ≥ posInf then .erange else .ok (s * signBit + roundToDouble N e) := by
  have hev := expValue_realExpOctets e h1 h2
  have hmant : mantissaLoop 0 (pre ++ toBE N) = dblOfNat N := by
    have h0 : (0 : Nat) = dblOfNat 0 := by decide
    have hv : ofBE 0 (pre ++ toBE N) = N := by
      rcases hpre with h | h <;> subst h <;> simp [ofBE, ofBE_toBE]
    conv_lhs => rw [h0]
    rw [mantissaLoop_exact _ 0 (by rw [hv]; exact hN), hv]
  have htne : toBE N ≠ [] := by
    intro h; have := ofBE_toBE N; rw [h] at this; simp [ofBE] at this; omega
  have hs' : s = 0 ∨ s = 1 := by omega
  generalize hEO : realExpOctets e = eo at *
  rcases realExpOctets_length e h1 h2 with hlen | hlen <;> rw [hEO] at hlen
  · match eo, hlen with
    | [a], _ =>
      rcases hs' with rfl | rfl
      · simp [REAL2double, REAL2doubleBin, hev, hmant, ldexpPos_ofNat N hN]
      · simp [REAL2double, REAL2doubleBin, hev, hmant, ldexpPos_ofNat N hN]
  · match eo, hlen with
    | [a, a'], _ =>
      rcases hs' with rfl | rfl
      · simp [REAL2double, REAL2doubleBin, hev, hmant, ldexpPos_ofNat N hN]
      · simp [REAL2double, REAL2doubleBin, hev, hmant, ldexpPos_ofNat N hN]

end Asn1c.Proofs.Real
