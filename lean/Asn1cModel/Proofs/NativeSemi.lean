import Asn1cModel.Proofs.Native
import Asn1cModel.Proofs.PerSupport
import Asn1cModel.Proofs.OerSupport
/-
  Helper lemmas for the semi-constrained path of `INTEGER_encode_uper` (Impl.Native.offsetOctets):
  the octets of the offset are the minimal non-negative octets of X.691 §10.3.6.  Used by Props.C13.
-/
namespace Asn1c.Proofs.NativeSemi
open Asn1c Asn1c.Impl.Integer Asn1c.Impl.BerTlv Asn1c.Impl.Native Asn1c.Spec
open Asn1c.Proofs.Integer Asn1c.Proofs.Native

theorem oerStripZeros_cons_ne (a : Nat) (l : Bytes) (h : a ≠ 0) : oerStripZeros (a :: l) = a :: l := by
  cases l with
  | nil => cases a <;> rfl
  | cons b l =>
    cases a with
    | zero => exact absurd rfl h
    | succ a => rfl

theorem oerStripZeros_skip (a b : Nat) (l : Bytes) (h : a = 0) : oerStripZeros (a :: b :: l) = oerStripZeros (b :: l) := by
  subst h; rfl

/-- the offset octets of `INTEGER_encode_uper` are the minimal non-negative octets of X.691 §10.3.6 -/
theorem offsetOctets_eq (n : Nat) (h : n < 2 ^ 64) : offsetOctets n = Spec.Per.nnOctets n := by
  unfold offsetOctets Spec.Per.nnOctets
  norm_num at h
  by_cases h0 : n = 0
  · subst h0; decide
  rw [if_neg h0]
  have key : ∀ k, k ≤ 7 → 256 ^ k ≤ n → n < 256 ^ (k + 1) → oerStripZeros (toBEn 8 n) = toBE n := by
    intro k hk hlo hhi
    rw [Asn1c.Proofs.BerTlv.toBE_eq_toBEn k n hlo hhi]
    have : k = 0 ∨ k = 1 ∨ k = 2 ∨ k = 3 ∨ k = 4 ∨ k = 5 ∨ k = 6 ∨ k = 7 := by omega
    rcases this with rfl | rfl | rfl | rfl | rfl | rfl | rfl | rfl <;> norm_num at hlo hhi <;>
      simp only [toBEn] <;> norm_num
    all_goals
      repeat (first
        | rw [oerStripZeros_cons_ne _ _ (by omega)]
        | rw [oerStripZeros_skip _ _ _ (by omega)])
  by_cases c0 : n < 256
  · exact key 0 (by omega) (by omega) (by norm_num; omega)
  by_cases c1 : n < 65536
  · exact key 1 (by omega) (by norm_num; omega) (by norm_num; omega)
  by_cases c2 : n < 16777216
  · exact key 2 (by omega) (by norm_num; omega) (by norm_num; omega)
  by_cases c3 : n < 4294967296
  · exact key 3 (by omega) (by norm_num; omega) (by norm_num; omega)
  by_cases c4 : n < 1099511627776
  · exact key 4 (by omega) (by norm_num; omega) (by norm_num; omega)
  by_cases c5 : n < 281474976710656
  · exact key 5 (by omega) (by norm_num; omega) (by norm_num; omega)
  by_cases c6 : n < 72057594037927936
  · exact key 6 (by omega) (by norm_num; omega) (by norm_num; omega)
  · exact key 7 (by omega) (by norm_num; omega) (by norm_num; omega)


theorem oerStripZeros_length_le (l : Bytes) : (oerStripZeros l).length ≤ l.length := by
  fun_induction oerStripZeros l with
  | case1 b bs ih => simp only [List.length_cons] at ih ⊢; omega
  | case2 bs _ => exact Nat.le_refl _

theorem offsetOctets_length (n : Nat) : (offsetOctets n).length ≤ 8 := by
  unfold offsetOctets
  have := oerStripZeros_length_le (toBEn 8 n)
  rw [Asn1c.Proofs.BerTlv.toBEn_length] at this
  exact this

theorem bytesToBits_eq_flatten (os : Bytes) : bytesToBits os = (os.map fun b => Spec.Per.nnbi 8 b).flatten := by
  induction os with
  | nil => rfl
  | cons b os ih => rw [Asn1c.Proofs.PerSupport.bytesToBits_cons, ih]; rfl

end Asn1c.Proofs.NativeSemi
