import Asn1cModel.Impl.Native
import Asn1cModel.Props.C16
/- Helper lemmas for C13 (native vs wide representation).  Property theorems: Props/C13.lean. -/
namespace Asn1c.Proofs.Native
open Asn1c Asn1c.Impl.Integer Asn1c.Impl.Native Asn1c.Spec Asn1c.Proofs.Integer

/-- big-endian reading is injective on octet strings of equal length -/
theorem ofBE_inj (a b : Bytes) (ha : Bytes.wf a) (hb : Bytes.wf b) (hl : a.length = b.length)
    (h : ofBE 0 a = ofBE 0 b) : a = b := by
  induction a generalizing b with
  | nil => cases b with
    | nil => rfl
    | cons y ys => simp at hl
  | cons x xs ih =>
    cases b with
    | nil => simp at hl
    | cons y ys =>
      have hl' : xs.length = ys.length := by simpa using hl
      rw [ofBE_cons, ofBE_cons, hl'] at h
      have hx := ofBE_lt xs (wf_tail ha)
      have hy := ofBE_lt ys (wf_tail hb)
      rw [hl'] at hx
      generalize hP : 256 ^ ys.length = P at *
      have hxy : x = y := by
        rcases Nat.lt_trichotomy x y with hlt | heq | hgt
        · have : (x + 1) * P ≤ y * P := Nat.mul_le_mul_right _ hlt
          rw [Nat.add_mul] at this; omega
        · exact heq
        · have : (y + 1) * P ≤ x * P := Nat.mul_le_mul_right _ hgt
          rw [Nat.add_mul] at this; omega
      subst hxy
      have : ofBE 0 xs = ofBE 0 ys := by omega
      rw [ih ys (wf_tail ha) (wf_tail hb) hl' this]

/-- two's complement reading is injective on octet strings of equal length -/
theorem twosVal_inj_of_length (a b : Bytes) (ha : Bytes.wf a) (hb : Bytes.wf b)
    (hl : a.length = b.length) (h : twosVal a = twosVal b) : a = b := by
  cases a with
  | nil => cases b with
    | nil => rfl
    | cons y ys => simp at hl
  | cons x xs =>
    cases b with
    | nil => simp at hl
    | cons y ys =>
      have hl' : xs.length = ys.length := by simpa using hl
      have hx := ofBE_lt (x :: xs) ha
      have hy := ofBE_lt (y :: ys) hb
      have hx8 : x < 256 := ha x (by simp)
      have hy8 : y < 256 := hb y (by simp)
      have hxt := ofBE_lt xs (wf_tail ha)
      have hyt := ofBE_lt ys (wf_tail hb)
      have cx := ofBE_cons x xs
      have cy := ofBE_cons y ys
      simp only [List.length_cons] at hx hy
      rw [hl'] at hx hxt cx
      simp only [twosVal, hl'] at h
      apply ofBE_inj _ _ ha hb hl
      have e2 : (256 : Int) ^ (ys.length + 1) = 256 * ((256 ^ ys.length : Nat) : Int) := by
        rw [Int.pow_succ]; push_cast; ring
      have e3 : (256 : Nat) ^ (ys.length + 1) = 256 * 256 ^ ys.length := by
        rw [Nat.pow_succ]; ring
      rw [e2] at h
      rw [e3] at hx hy
      generalize hP : 256 ^ ys.length = P at *
      generalize hA : ofBE 0 (x :: xs) = A at *
      generalize hB : ofBE 0 (y :: ys) = B at *
      have mx1 : x < 128 → x * P ≤ 127 * P := fun hh => Nat.mul_le_mul_right _ (by omega)
      have mx2 : ¬ x < 128 → 128 * P ≤ x * P := fun hh => Nat.mul_le_mul_right _ (by omega)
      have my1 : y < 128 → y * P ≤ 127 * P := fun hh => Nat.mul_le_mul_right _ (by omega)
      have my2 : ¬ y < 128 → 128 * P ≤ y * P := fun hh => Nat.mul_le_mul_right _ (by omega)
      by_cases c1 : x < 128 <;> by_cases c2 : y < 128
      · simp only [c1, c2, if_true] at h; exact_mod_cast h
      · simp only [c1, c2, if_true, if_false] at h
        have := mx1 c1; have := my2 c2; omega
      · simp only [c1, c2, if_true, if_false] at h
        have := mx2 c1; have := my1 c2; omega
      · simp only [c1, c2, if_false] at h
        have : (A : Int) = B := by omega
        exact_mod_cast this

/-- **uniqueness of the canonical form** (X.690 §8.3.2): two non-empty minimal octet strings with
    the same two's complement value are equal. -/
theorem minimal_unique (a b : Bytes) (ha : Bytes.wf a) (hb : Bytes.wf b) (hane : a ≠ []) (hbne : b ≠ [])
    (hma : MinimalTwos a) (hmb : MinimalTwos b) (h : twosVal a = twosVal b) : a = b := by
  -- a longer minimal string denotes a value that does not fit the shorter length
  have key : ∀ (s l : Bytes), Bytes.wf s → Bytes.wf l → s ≠ [] → MinimalTwos l →
      twosVal s = twosVal l → ¬ s.length < l.length := by
    intro s l hs hl hsne hml hv hlt
    match l, hl, hml, hv, hlt with
    | [], _, _, _, hlt => simp at hlt
    | [_], _, _, _, hlt =>
      have : s.length = 0 := by simp only [List.length_cons, List.length_nil] at hlt; omega
      exact hsne (List.length_eq_zero_iff.mp this)
    | x :: y :: rest, hl, hml, hv, hlt =>
      have hna := minimal_needs_all x y rest hl hml
      have hr := twosVal_range s hs hsne
      have hle : s.length ≤ rest.length + 1 := by simp only [List.length_cons] at hlt; omega
      have hmono : (256 : Int) ^ s.length ≤ 256 ^ (rest.length + 1) :=
        pow_le_pow_right₀ (by norm_num) hle
      apply hna
      rw [← hv]
      constructor <;> omega
  have h1 := key a b ha hb hane hmb h
  have h2 := key b a hb ha hbne hma h.symm
  exact twosVal_inj_of_length a b ha hb (by omega) h

theorem toSigned64_wordOfLong (v : Int) (h : fitsS64 v) : toSigned64 (wordOfLong v) = v := by
  unfold fitsS64 at h
  unfold toSigned64 wordOfLong
  have h1 : ((v % 2 ^ 64).toNat : Int) = v % 2 ^ 64 := Int.toNat_of_nonneg (Int.emod_nonneg _ (by norm_num))
  have h2 : (v % 2 ^ 64).toNat < 2 ^ 64 := by
    have := Int.emod_lt_of_pos v (show (0 : Int) < 2 ^ 64 by norm_num)
    omega
  rw [Nat.mod_eq_of_lt h2]
  split <;> omega

theorem wordOfLong_lt (v : Int) : wordOfLong v < 2 ^ 64 := by
  unfold wordOfLong
  have := Int.emod_lt_of_pos v (show (0 : Int) < 2 ^ 64 by norm_num)
  have := Int.emod_nonneg v (show (2 : Int) ^ 64 ≠ 0 by norm_num)
  omega

theorem wordOfLong_nat (u : Nat) (h : u < 2 ^ 64) : wordOfLong (u : Int) = u := by
  unfold wordOfLong
  omega

theorem toSigned64_small (u : Nat) (h : u < 2 ^ 63) : toSigned64 u = u := by
  unfold toSigned64; split <;> omega

/-- the fake INTEGER of `NativeInteger_encode_der` is the 8-octet image of the `long` -/
theorem nativeOctets_wordOfLong (v : Int) : nativeOctets (wordOfLong v) = imaxOctets v := rfl

/-- any well-formed non-empty INTEGER denoting a 64-bit `v`, once stripped, is `asn_imax2INTEGER v` -/
theorem strip_eq_imax2INTEGER (bs : Bytes) (hw : Bytes.wf bs) (hne : bs ≠ []) (v : Int) (hv : twosVal bs = v)
    (hf : fitsS64 v) : strip bs = imax2INTEGER v := by
  obtain ⟨n1, n2, n3, n4⟩ := Asn1c.Props.C16.imax2INTEGER_spec v hf
  exact minimal_unique _ _ (strip_wf bs hw) n2 (strip_ne_nil bs hne) n1 (strip_minimal bs) n3
    (by rw [strip_val bs hw, hv, n4])

/-- a minimal one *is* `asn_imax2INTEGER v` -/
theorem minimal_eq_imax2INTEGER (bs : Bytes) (hw : Bytes.wf bs) (hne : bs ≠ []) (hm : MinimalTwos bs)
    (v : Int) (hv : twosVal bs = v) (hf : fitsS64 v) : bs = imax2INTEGER v := by
  rw [← strip_eq_imax2INTEGER bs hw hne v hv hf, strip_of_minimal bs hm]

theorem INTEGER2long_spec (bs : Bytes) (h : Bytes.wf bs) :
    INTEGER2long bs = if fitsS64 (twosVal bs) then .ok (twosVal bs) else .erange := by
  unfold INTEGER2long
  rw [Asn1c.Props.C16.INTEGER2imax_spec bs h]
  by_cases hf : fitsS64 (twosVal bs)
  · rw [if_pos hf]; unfold fitsS64 at hf; simp only []; rw [if_neg (by omega)]
  · rw [if_neg hf]

/-- any two well-formed non-empty INTEGERs denoting the same value have the same canonical form -/
theorem strip_eq_of_val (a b : Bytes) (ha : Bytes.wf a) (hb : Bytes.wf b) (hane : a ≠ []) (hbne : b ≠ [])
    (h : twosVal a = twosVal b) : strip a = strip b :=
  minimal_unique _ _ (strip_wf a ha) (strip_wf b hb) (strip_ne_nil a hane) (strip_ne_nil b hbne)
    (strip_minimal a) (strip_minimal b) (by rw [strip_val a ha, strip_val b hb, h])

/-- the signed path of `NativeInteger_encode_der` is the plain 8-octet image -/
theorem nativeFakeINTEGER_signed (w : Nat) : nativeFakeINTEGER false w = nativeOctets w := by
  simp [nativeFakeINTEGER]

/-- the fake INTEGER of an unsigned native cell is well formed, non-empty and denotes the cell's
    unsigned value, over the whole `unsigned long` range (the leading 00 octet of the F20 repair) -/
theorem nativeFakeINTEGER_unsigned_spec (u : Nat) (h : u < 2 ^ 64) :
    nativeFakeINTEGER true u ≠ [] ∧ Bytes.wf (nativeFakeINTEGER true u) ∧
    twosVal (nativeFakeINTEGER true u) = u := by
  unfold nativeFakeINTEGER nativeOctets
  rw [Asn1c.Props.C16.toBEn8]
  simp only [isNegative, Bool.true_and, decide_eq_true_eq]
  by_cases hneg : u / 72057594037927936 % 256 ≥ 128
  · rw [if_pos hneg]
    refine ⟨by simp, ?_, ?_⟩
    · intro b hb; simp at hb; omega
    · simp only [twosVal, ofBE, List.length_cons, List.length_nil]
      norm_num
      omega
  · rw [if_neg hneg]
    refine ⟨by simp, ?_, ?_⟩
    · intro b hb; simp at hb; omega
    · simp only [twosVal, ofBE, List.length_cons, List.length_nil]
      norm_num
      split <;> omega

/-- `asn_INTEGER2ulong` is exact on the whole `unsigned long` range (C16, finding F3 repaired) -/
theorem INTEGER2ulong_fits (bs : Bytes) (h : Bytes.wf bs) (hf : fitsU64 (twosVal bs)) :
    INTEGER2ulong bs = .ok (twosVal bs).toNat := by
  rw [Asn1c.Props.C16.INTEGER2ulong_spec bs h, if_pos hf]

end Asn1c.Proofs.Native
