import Asn1cModel.Base
/-
  Impl.OpenType — open types governed by an information object set (property C18).

  Mirrors, as they are in the tree (defects included; F105 and F22 are repaired: the failure path
  of `OPEN_TYPE_*_get` takes `struct_size` from the member's own descriptor and pointer members
  get their storage allocated; the repair of F102 lies in `SEQUENCE_decode_ber`'s member search,
  outside this model):
  * libasn1fix/asn1fix_cws.c      `_asn1f_foreach_unparsed`, `_asn1f_add_unique_row`  → `buildTable`
  * libasn1compiler/asn1c_C.c     `emit_member_type_selector` (the emitted
                                  `select_<Type>_<member>_type` function)               → `select`
  * skeletons/OPEN_TYPE.c         `OPEN_TYPE_ber_get`, `OPEN_TYPE_xer_get`, `OPEN_TYPE_uper_get`,
                                  `OPEN_TYPE_encode_uper`, `OPEN_TYPE_encode_der/xer`
                                  (= `CHOICE_encode_der/xer`)                            → `berGet` …
  * skeletons/per_opentype.c      `uper_open_type_put`, `uper_open_type_get_simple`      → `openPut`, `openGet`
  * skeletons/per_support.c       `uper_get_length` (no constraint), `uper_put_length`
  * skeletons/per_encoder.c       `uper_encode_to_new_buffer` (empty encoding → one zero octet)

  Level of the model: (identifier value, input) → selected row → result of the row type's own
  codec, which is a *parameter* (`dec`/`enc`).  Core Lean only.
-/
namespace Asn1c.Impl.OpenType
open Asn1c

/-! ## The object-set table (`asn_ioc_set_t`) -/

/-- One row of the emitted table for a class `{ &id … UNIQUE, &Type }`: the `&id` value cell and the
    `&Type` cell (`ty` = identity of the row type's descriptor). -/
structure Row (ι : Type) where
  id : ι
  ty : Nat
deriving DecidableEq, Repr

abbrev Table (ι : Type) := List (Row ι)

/-- Syntax of an object set after WITH-SYNTAX parsing: comma separated items, each a `|`-union of
    objects or the extension marker. `{ a | b, ..., c | d }` = `[union [a,b], ext, union [c,d]]`. -/
inductive SetItem (ι : Type) where
  | union (objs : List (Row ι))
  | ext
deriving Repr

structure Built (ι : Type) where
  rows : Table ι
  extensible : Bool
deriving Repr

variable {ι : Type} [DecidableEq ι]

/-- `_asn1f_add_unique_row`: a row equal (all cells) to an existing one is ignored. -/
def addUnique (t : Table ι) (r : Row ι) : Table ι := if r ∈ t then t else t ++ [r]

/-- `_asn1f_foreach_unparsed` on one comma-separated item.  A single object (constraint node
    `ACT_EL_VALUE`) hits `case ACT_EL_VALUE: return 0;` — the callback is **not** invoked, the
    object is dropped (finding F101).  A union (`ACT_CA_UNI`) processes every element. -/
def processItem (b : Built ι) : SetItem ι → Built ι
  | .ext => { b with extensible := true }
  | .union [_] => b
  | .union os => { b with rows := os.foldl addUnique b.rows }

def buildTable (items : List (SetItem ι)) : Built ι :=
  items.foldl processItem ⟨[], false⟩

/-! ## The generated type selector -/

/-- `asn_type_selector_result_t { type_descriptor, presence_index }`; `{0, 0}` = `⟨none, 0⟩`. -/
structure Selected where
  ty : Option Nat
  presence : Nat
deriving DecidableEq, Repr

/-- the emitted `for(row = 0; row < rows_count; row++) { if(compare_struct(id cell, sibling) == 0)
    { result = { type cell, row + 1 }; break; } }` (`compare_struct` of NativeInteger /
    OBJECT IDENTIFIER is 0 exactly on equal values). -/
def selectGo (id : ι) : Table ι → Nat → Selected
  | [], _ => ⟨none, 0⟩
  | r :: rs, row => if r.id = id then ⟨some r.ty, row + 1⟩ else selectGo id rs (row + 1)

def select (tbl : Table ι) (id : ι) : Selected := selectGo id tbl 0

/-! ## Decoder results and the open-type member -/

/-- `asn_dec_rval_t` (+ `crash`: the C code dereferences NULL / runs off the allocation). -/
inductive DecRes (α : Type) where
  | ok (v : α) (consumed : Nat)
  | more
  | fail
  | crash
deriving Repr, DecidableEq

/-- the CHOICE-like storage of the member: `present` index and the row value -/
structure OpenVal (β : Type) where
  present : Nat
  val : β
deriving Repr, DecidableEq

/-- Environment of one open-type member. -/
structure Member where
  /-- `elements_count` of the member's CHOICE-like descriptor -/
  nelems : Nat
  /-- the member carries `ATF_POINTER` (declared OPTIONAL or an extension addition): in a fresh
      decode the pointer is NULL; `OPEN_TYPE_*_get` allocates the member's CHOICE-like structure
      (`CALLOC(1, specs->struct_size)` with the member's own specifics) before decoding into it
      and, when the inner decoder does not return RC_OK, frees it again and resets the pointer to
      NULL (an inline member is zeroed instead).  The decode outcome therefore does not depend on
      this flag (it did before the repair of F22: NULL + offset / assertion abort). -/
  pointer : Bool

/-- Common tail of the three `_get` functions after the inner decoder returned: set the presence
    index on success, otherwise the cleanup (free the contents of the selected variant, then zero
    the member's structure — `struct_size` of the member's own `asn_CHOICE_specifics_t` — or free
    it when the member is a pointer).  The selected row type's descriptor is only used to free
    the variant's contents (F105 repaired: its `specifics` is not read).
    `ber = true`: `OPEN_TYPE_ber_get` forgets to set `rv.code = RC_FAIL` when
    `CHOICE_variant_set_presence` fails after an inner RC_OK (it falls through the `case RC_FAIL:`
    label, which only sets `consumed`), so it returns RC_OK with a zeroed member (`present = 0`);
    unreachable for emitted tables (`presence ≤ rows = elements_count`). -/
def finish {β : Type} (m : Member) (ber : Bool) (sel : Selected) : DecRes β → DecRes (OpenVal β)
  | .ok v c =>
      if sel.presence ≤ m.nelems then .ok ⟨sel.presence, v⟩ c
      else if ber then .ok ⟨0, v⟩ c else .fail
  | .more => .more
  | .fail => .fail
  | .crash => .crash

/-- What the caller finds in the member's storage after a getter call: `none` = NULL pointer,
    `some p` = a structure with presence index `p` (`0` = zeroed, no variant).  On every non-OK
    outcome the getters release the partially decoded variant and then free a pointer member's
    structure (resetting the pointer) or zero an inline one; a getter that fails before touching
    the member (no row, no selector) leaves the fresh state, which is the same. -/
def slotAfter {β : Type} (m : Member) : DecRes (OpenVal β) → Option Nat
  | .ok ov _ => some ov.present
  | _ => if m.pointer then none else some 0

/-- `OPEN_TYPE_ber_get` / `OPEN_TYPE_uper_get`: selector, presence test, inner decoder of the selected
    row type, presence set, cleanup on every non-OK outcome.  `dec ty input` is the row type's
    decoder on the member's input (BER: `ber_decoder` with the member's tag mode; UPER:
    `uper_open_type_get`). -/
def otGet {β α : Type} (tbl : Table ι) (m : Member) (ber : Bool) (dec : Nat → α → DecRes β) (id : ι) (input : α) :
    DecRes (OpenVal β) :=
  let sel := select tbl id
  if sel.presence = 0 then .fail else
  match sel.ty with
  | none => .crash                      -- (unreachable: presence ≠ 0 ⇒ descriptor set)
  | some ty => finish m ber sel (dec ty input)

/-- BER: the member's bytes are handed to the row type's `ber_decoder`. -/
def berGet {β : Type} (tbl : Table ι) (m : Member) (dec : Nat → Bytes → DecRes β) (id : ι) (input : Bytes) :
    DecRes (OpenVal β) :=
  otGet tbl m true dec id input

/-- `CHOICE_encode_der` / `CHOICE_encode_xer` / `OPEN_TYPE_encode_uper` pick the element by the
    *presence index* (not by the identifier): `elems` = the row types of the member's elements. -/
def otPut {β γ : Type} (elems : List Nat) (enc : Nat → β → Option γ) (ov : OpenVal β) : Option γ :=
  if ov.present = 0 ∨ ov.present > elems.length then none else
  match elems[ov.present - 1]? with
  | some ty => enc ty ov.val
  | none => none

/-! ## UPER framing (X.691 §10.2: open type field) -/

/-- `uper_encode_to_new_buffer`: whole octets, at least one (an empty encoding becomes `00`). -/
def toOctets (bs : Bits) : Bits :=
  if bs.length = 0 then List.replicate 8 false
  else bs ++ List.replicate ((8 - bs.length % 8) % 8) false

/-- `uper_put_length(po, n, &need_eom)` for one call: emitted bits and the number of units covered -/
def putLength (n : Nat) : Bits × Nat × Bool :=
  if n ≤ 127 then (natBits 8 n, n, false)
  else if n < 16384 then (natBits 16 (n + 32768), n, false)
  else
    let m := if n / 16384 > 4 then 4 else n / 16384
    (natBits 8 (192 + m), m * 16384, n == m * 16384)

/-- the `do { … } while(size)` loop of `uper_open_type_put` over whole octets (`octs.length = 8·size`) -/
def putChunks : Nat → Bits → Bits
  | 0, _ => []
  | fuel + 1, octs =>
    let n := octs.length / 8
    let (hd, cover, eom) := putLength n
    let body := hd ++ octs.take (8 * cover)
    let rest := octs.drop (8 * cover)
    if eom then body ++ natBits 8 0
    else if n - cover = 0 then body
    else body ++ putChunks fuel rest

/-- `uper_open_type_put`: encode the row value on its own, octet-align, length-prefix. -/
def openPut (inner : Bits) : Bits :=
  let o := toOctets inner
  putChunks (o.length / 8 + 1) o

/-- `uper_get_length(pd, -1, 0, &repeat)`: `none` = -1 -/
def getLength : Bits → Option (Nat × Bool × Bits)
  | false :: r => if r.length < 7 then none else some (bitsVal 0 (r.take 7), false, r.drop 7)
  | true :: false :: r => if r.length < 14 then none else some (bitsVal 0 (r.take 14), false, r.drop 14)
  | true :: true :: r =>
    if r.length < 6 then none else
    let m := bitsVal 0 (r.take 6)
    if m < 1 ∨ m > 4 then none else some (16384 * m, true, r.drop 6)
  | _ => none

/-- the `do { … } while(repeat)` loop of `uper_open_type_get_simple`: `none` = starved -/
def collect : Nat → Bits → Bits → Option (Bits × Bits)
  | 0, _, _ => none
  | fuel + 1, input, acc =>
    match getLength input with
    | none => none
    | some (n, rep, r) =>
      if r.length < 8 * n then none else
      let acc' := acc ++ r.take (8 * n)
      if rep then collect fuel (r.drop (8 * n)) acc' else some (acc', r.drop (8 * n))

/-- result of a PER decoder working on a bit list: value and number of bits used -/
inductive PerRes (α : Type) where
  | ok (v : α) (used : Nat)
  | more
  | fail
deriving Repr, DecidableEq

/-- `uper_open_type_get_simple`: collect the octets, run the row decoder on them, then the
    padding test: fewer than 8 unused bits (or the single-`00`-octet case of §10.1.3), all zero.
    Result: value and the remaining outer input. -/
def openGet {β : Type} (dec : Bits → PerRes β) (input : Bits) : DecRes (β × Bits) :=
  match collect (input.length + 1) input [] with
  | none => .more                                   -- ASN__DECODE_STARVED
  | some (buf, rest) =>
    match dec buf with
    | .ok v used =>
      let padding := buf.length - used
      if (padding < 8 ∨ (used = 0 ∧ buf.length = 8)) ∧ (buf.drop used).all (· == false)
      then .ok (v, rest) (input.length - rest.length)
      else .fail
    | .more => .fail                                 -- "Noone would give us more"
    | .fail => .fail

/-- `OPEN_TYPE_uper_get` = selector + `uper_open_type_get` + presence/cleanup. -/
def uperGet {β : Type} (tbl : Table ι) (m : Member) (dec : Nat → Bits → PerRes β) (id : ι) (input : Bits) :
    DecRes (OpenVal (β × Bits)) :=
  otGet tbl m false (fun ty inp => openGet (dec ty) inp) id input

/-- `OPEN_TYPE_encode_uper` -/
def uperPut {β : Type} (elems : List Nat) (enc : Nat → β → Option Bits) (ov : OpenVal β) : Option Bits :=
  otPut elems (fun ty v => (enc ty v).map openPut) ov

/-! ## XER framing: `<member> row-XER </member>` -/

inductive XTok where
  | opening (name : String)
  | closing (name : String)
  | text                      -- PXER_TEXT / PXER_COMMENT
  | body (n : Nat)            -- opaque token of the row's own encoding
deriving DecidableEq, Repr

/-- skip text/comment tokens up to the next tag (first and last loop of `OPEN_TYPE_xer_get`);
    `none` = input exhausted (RC_WMORE) -/
def skipText : List XTok → Option (List XTok)
  | [] => none
  | .text :: r => skipText r
  | r => some r

/-- `OPEN_TYPE_xer_get`: selector; wrapper open tag `<member>`; the row decoder (which expects the
    row type's own tag; `dec ty toks` returns the number of tokens it consumed); presence /
    cleanup; wrapper close tag.  Wrapper failures return without the cleanup. -/
def xerGet {β : Type} (tbl : Table ι) (m : Member) (name : String) (dec : Nat → List XTok → DecRes β)
    (id : ι) (input : List XTok) : DecRes (OpenVal β) :=
  let sel := select tbl id
  if sel.presence = 0 then .fail else
  match sel.ty with
  | none => .crash
  | some ty =>
    match skipText input with
    | none => .more
    | some (.opening n :: r) =>
      if n ≠ name then .fail else
      match finish m false sel (dec ty r) with
      | .ok ov c =>
        match skipText (r.drop c) with
        | none => .more
        | some (.closing n' :: r') => if n' = name then .ok ov (input.length - r'.length) else .fail
        | some _ => .fail
      | .more => .more
      | .fail => .fail
      | .crash => .crash
    | some _ => .fail

/-! ## The enclosing SEQUENCE, reduced to the two related members -/

/-- Decode the identifier member and the open-type member in declaration order.  When the
    identifier is declared *after* the open type (`idFirst = false`) the selector reads the
    identifier field of the still zero-initialised structure (`zero`). -/
def frameDec {β α : Type} (tbl : Table ι) (m : Member) (idFirst : Bool) (zero : ι)
    (decId : α → DecRes ι) (dec : Nat → α → DecRes β) (advance : α → Nat → α) (input : α) :
    DecRes (ι × OpenVal β) :=
  if idFirst then
    match decId input with
    | .ok id c =>
      match otGet tbl m true dec id (advance input c) with
      | .ok ov c2 => .ok (id, ov) (c + c2)
      | .more => .more | .fail => .fail | .crash => .crash
    | .more => .more | .fail => .fail | .crash => .crash
  else
    match otGet tbl m true dec zero input with
    | .ok ov c =>
      match decId (advance input c) with
      | .ok id c2 => .ok (id, ov) (c + c2)
      | .more => .more | .fail => .fail | .crash => .crash
    | .more => .more | .fail => .fail | .crash => .crash

def frameEnc {β : Type} (elems : List Nat) (idFirst : Bool)
    (encId : ι → Option Bytes) (enc : Nat → β → Option Bytes) (v : ι × OpenVal β) : Option Bytes :=
  match encId v.1, otPut elems enc v.2 with
  | some a, some b => some (if idFirst then a ++ b else b ++ a)
  | _, _ => none

end Asn1c.Impl.OpenType
