import Asn1cModel.Base
/-
  Abstract model of the restartable-decoder protocol of the asn1c manual ("feed the decoder,
  on RC_WMORE re-present the bytes it did not consume followed by new data").  Core Lean only.
-/
namespace Asn1c.Impl.Restart
open Asn1c

inductive Rc where
  | ok | more | fail
deriving DecidableEq, Repr

/-- a restartable decoder: from a saved state and the presented bytes it returns the new state,
    the return code and how many of the presented bytes it consumed -/
structure Dec (σ : Type) where
  step : σ → Bytes → σ × Rc × Nat

/-- the manual's protocol: `pend` = bytes presented before and not consumed, `tot` = consumed so far -/
def feed {σ : Type} (d : Dec σ) : σ → Bytes → Nat → List Bytes → σ × Rc × Nat
  | s, _, tot, [] => (s, .more, tot)
  | s, pend, tot, c :: cs =>
    let buf := pend ++ c
    match d.step s buf with
    | (s', .more, k) => feed d s' (buf.drop k) (tot + k) cs
    | (s', rc, k) => (s', rc, tot + k)

/-- one presentation of everything -/
def oneShot {σ : Type} (d : Dec σ) (s : σ) (bs : Bytes) : σ × Rc × Nat := d.step s bs

/-- the laws a restartable decoder has to obey -/
structure Lawful {σ : Type} (d : Dec σ) : Prop where
  /-- never claims more than it was given -/
  consumed_le : ∀ s p s' rc k, d.step s p = (s', rc, k) → k ≤ p.length
  /-- resuming after WMORE with the unconsumed tail plus new data is the same as restarting -/
  resume : ∀ s p s1 k, d.step s p = (s1, .more, k) → ∀ ext,
      d.step s1 (p.drop k ++ ext) =
        (let r := d.step s (p ++ ext); (r.1, r.2.1, r.2.2 - k)) ∧ k ≤ (d.step s (p ++ ext)).2.2
  /-- a final verdict does not change when more data follows -/
  ok_stable : ∀ s p s1 k, d.step s p = (s1, .ok, k) → ∀ ext, d.step s (p ++ ext) = (s1, .ok, k)
  fail_stable : ∀ s p s1 k, d.step s p = (s1, .fail, k) → ∀ ext, d.step s (p ++ ext) = (s1, .fail, k)

end Asn1c.Impl.Restart
