import Asn1cModel.Impl.UnberTlv
/-
  Impl (C20): asn1-tools/unber/libasn1_unber_tool.c in the `unber -p` configuration
  (`pretty_printing = 0`, `minimalistic = 0`, `single_type_decoding = 0`, `skip_bytes = 0`,
  indent 4): `unber_stream`, `process_deeper`, `print_TL`, `print_V`.

  * the input stream is the list of bytes not yet read plus `bytesRead`;
  * `tagbuf[32]` is the list of the `tblen` octets stored so far; every read of it is a
    partial lookup, every failed lookup (and a store at index ≥ 32) is the outcome `oob`;
  * every `assert(...)` of the C code is an explicit test with outcome `assertion`;
  * output is a list of `Out` events, one per `print_TL` / `print_V` / `">\n"` call, carrying
    exactly the arguments of the C call; `render` is the `printf` formatting of these calls.
  * the loop of `process_deeper` consumes one unit of `fuel` per iteration
    (`Proofs/Unber.lean`: `fuel > length input` is always enough).
  * `level` is the C recursion depth: activation `level` runs on the `level + 1`-th stack frame of
    `process_deeper`; the entry test against `UNBER_MAX_NESTING_LEVEL` (`maxLevel`) bounds it
    (`Props/C20.lean`: `unber_levels_bounded`, `unber_nesting_limit`).

  Text is `Bytes` (ASCII codes); string constants are spelled as code lists, the comment
  next to each gives the text.  Core Lean only.
-/
namespace Asn1c.Impl.Unber
open Asn1c Asn1c.Impl.UnberTlv

/-! ### output events and their text -/

inductive Out where
  /-- `print_TL(os, 0, offset, level, constr, tlen, tag, len, _)` -/
  | opn (level : Nat) (constr : Bool) (off tlen tag : Nat) (len : Int)
  /-- `osprintf(os, ">\n")` closing the opening tag of a constructed TLV -/
  | gt
  /-- `print_V` without pretty-printing: `">"` then `&#xNN;` for every octet read -/
  | val (content : Bytes)
  /-- `print_TL(os, 1, offset, level, constr, tlen, tag, len, effective_size)` -/
  | cls (level : Nat) (constr : Bool) (off tlen tag : Nat) (len : Int) (esize : Nat)
deriving DecidableEq, Repr

/-- the nesting level an event was printed at: `print_TL`'s `level` argument, i.e. the level of the
    `process_deeper` activation that printed it (the end-of-contents element is printed by the child
    activation with `level - 1`); `">\n"` and `print_V` take no level -/
def Out.level : Out → Nat
  | .opn level _ _ _ _ _ => level
  | .cls level _ _ _ _ _ _ => level
  | .gt => 0
  | .val _ => 0

/-- decimal digits with fuel (structural recursion, so that closed terms evaluate in the kernel) -/
def decDigitsF : Nat → Nat → Bytes
  | 0, n => [48 + n]
  | f + 1, n => if n < 10 then [48 + n] else decDigitsF f (n / 10) ++ [48 + n % 10]

/-- `%ld` / `%lld` / `%u` of a non-negative number (fuel `n` is always enough:
    `Proofs/Unber.lean`, `decDigits_eq`) -/
def decDigits (n : Nat) : Bytes := decDigitsF n n

/-- `%ld` of a signed number -/
def decInt (z : Int) : Bytes :=
  if z < 0 then 45 :: decDigits (-z).toNat else decDigits z.toNat

def hexLower (n : Nat) : Nat := if n < 10 then 48 + n else 87 + n

/-- `&#x%02x;` -/
def hexEntity (b : Nat) : Bytes := [38, 35, 120, hexLower (b / 16 % 16), hexLower (b % 16), 59]

/-- `ber_tlv_tag_string(tag)`: `[UNIVERSAL n]`, `[APPLICATION n]`, `[n]`, `[PRIVATE n]` -/
def tagString (tag : Nat) : Bytes :=
  (match tag % 4 with
   | 0 => [91, 85, 78, 73, 86, 69, 82, 83, 65, 76, 32]             -- "[UNIVERSAL "
   | 1 => [91, 65, 80, 80, 76, 73, 67, 65, 84, 73, 79, 78, 32]     -- "[APPLICATION "
   | 2 => [91]                                                     -- "["
   | _ => [91, 80, 82, 73, 86, 65, 84, 69, 32])                    -- "[PRIVATE "
  ++ decDigits (tag / 4) ++ [93]

/-- `ASN_UNIVERSAL_TAG2STR(tvalue)` (libasn1parser/asn1p_expr2uclass.h, asn1p_expr_str.h) -/
def universalName : Nat → Option Bytes
  | 1 => some [66, 79, 79, 76, 69, 65, 78]   -- BOOLEAN
  | 2 => some [73, 78, 84, 69, 71, 69, 82]   -- INTEGER
  | 3 => some [66, 73, 84, 32, 83, 84, 82, 73, 78, 71]   -- BIT STRING
  | 4 => some [79, 67, 84, 69, 84, 32, 83, 84, 82, 73, 78, 71]   -- OCTET STRING
  | 5 => some [78, 85, 76, 76]   -- NULL
  | 6 => some [79, 66, 74, 69, 67, 84, 32, 73, 68, 69, 78, 84, 73, 70, 73, 69, 82]   -- OBJECT IDENTIFIER
  | 7 => some [79, 98, 106, 101, 99, 116, 68, 101, 115, 99, 114, 105, 112, 116, 111, 114]   -- ObjectDescriptor
  | 8 => some [69, 88, 84, 69, 82, 78, 65, 76]   -- EXTERNAL
  | 9 => some [82, 69, 65, 76]   -- REAL
  | 10 => some [69, 78, 85, 77, 69, 82, 65, 84, 69, 68]   -- ENUMERATED
  | 11 => some [69, 77, 66, 69, 68, 68, 69, 68, 32, 80, 68, 86]   -- EMBEDDED PDV
  | 12 => some [85, 84, 70, 56, 83, 116, 114, 105, 110, 103]   -- UTF8String
  | 13 => some [82, 69, 76, 65, 84, 73, 86, 69, 45, 79, 73, 68]   -- RELATIVE-OID
  | 16 => some [83, 69, 81, 85, 69, 78, 67, 69]   -- SEQUENCE
  | 17 => some [83, 69, 84]   -- SET
  | 18 => some [78, 117, 109, 101, 114, 105, 99, 83, 116, 114, 105, 110, 103]   -- NumericString
  | 19 => some [80, 114, 105, 110, 116, 97, 98, 108, 101, 83, 116, 114, 105, 110, 103]   -- PrintableString
  | 20 => some [84, 101, 108, 101, 116, 101, 120, 83, 116, 114, 105, 110, 103]   -- TeletexString
  | 21 => some [86, 105, 100, 101, 111, 116, 101, 120, 83, 116, 114, 105, 110, 103]   -- VideotexString
  | 22 => some [73, 65, 53, 83, 116, 114, 105, 110, 103]   -- IA5String
  | 23 => some [85, 84, 67, 84, 105, 109, 101]   -- UTCTime
  | 24 => some [71, 101, 110, 101, 114, 97, 108, 105, 122, 101, 100, 84, 105, 109, 101]   -- GeneralizedTime
  | 25 => some [71, 114, 97, 112, 104, 105, 99, 83, 116, 114, 105, 110, 103]   -- GraphicString
  | 26 => some [86, 105, 115, 105, 98, 108, 101, 83, 116, 114, 105, 110, 103]   -- VisibleString
  | 27 => some [71, 101, 110, 101, 114, 97, 108, 83, 116, 114, 105, 110, 103]   -- GeneralString
  | 28 => some [85, 110, 105, 118, 101, 114, 115, 97, 108, 83, 116, 114, 105, 110, 103]   -- UniversalString
  | 29 => some [67, 72, 65, 82, 65, 67, 84, 69, 82, 32, 83, 84, 82, 73, 78, 71]   -- CHARACTER STRING
  | 30 => some [66, 77, 80, 83, 116, 114, 105, 110, 103]   -- BMPString
  | _ => none

def indent : Nat → Bytes
  | 0 => []
  | n + 1 => [32, 32, 32, 32] ++ indent n

/-- the ` A="…"` attribute of `print_TL` -/
def attrA (tag : Nat) : Bytes :=
  if tag % 4 = 0 then
    match universalName (tag / 4) with
    | some s => [32, 65, 61, 34] ++ s ++ [34]          -- ` A="` s `"`
    | none => []
  else []

/-- `"I"` / `"C"` / `"P"` -/
def formLetter (constr : Bool) (len : Int) : Nat :=
  if constr then (if len = -1 then 73 else 67) else 80

/-- the text written by one event (`print_TL`, `print_V` without `-m`, with `-p`) -/
def render : Out → Bytes
  | .opn level constr off tlen tag len =>
      indent level ++ [60, formLetter constr len]                    -- "<" form
      ++ [32, 79, 61, 34] ++ decDigits off ++ [34]                    -- ` O="off"`
      ++ [32, 84, 61, 34] ++ tagString tag ++ [34]                    -- ` T="[..]"`
      ++ [32, 84, 76, 61, 34] ++ decDigits tlen ++ [34]               -- ` TL="tlen"`
      ++ (if len = -1 then [32, 86, 61, 34, 73, 110, 100, 101, 102, 105, 110, 105, 116, 101, 34]
          else [32, 86, 61, 34] ++ decInt len ++ [34])               -- ` V="Indefinite"` / ` V="len"`
      ++ attrA tag
  | .gt => [62, 10]                                                   -- ">\n"
  | .val content => 62 :: content.flatMap hexEntity                   -- ">" &#xNN;…
  | .cls level constr off tlen tag len esize =>
      if !constr then [60, 47, 80, 62, 10]                            -- "</P>\n"
      else
        indent level ++ [60, 47, formLetter constr len]               -- "</" form
        ++ [32, 79, 61, 34] ++ decDigits off ++ [34]
        ++ [32, 84, 61, 34] ++ tagString tag ++ [34]
        ++ (if len = -1 then [32, 84, 76, 61, 34] ++ decDigits tlen ++ [34] else [])
        ++ attrA tag
        ++ [32, 76, 61, 34] ++ decDigits esize ++ [34]                -- ` L="esize"`
        ++ [62, 10]

def renderAll (os : List Out) : Bytes := os.flatMap render

/-! ### process_deeper -/

/-- the diagnostics of `process_deeper` / `print_V` (all lead to `PD_FAILED`) -/
inductive Err where
  | tooLongLimit   -- "Too long TL sequence (%zd >= %zd)"
  | tooLongBuf     -- "Too long TL sequence (%zd bytes)"
  | eofTL          -- "Unexpected end of file (TL)"
  | badTag         -- "Fatal error decoding tag"
  | badLen         -- "Fatal error decoding value length"
  | tlMismatch     -- "Outer tag length doesn't match inner tag length"
  | lenExceeds     -- "Structure advertizes length (..) greater than of a parent container"
  | eofV           -- "Unexpected end of file (V)"
  | tooDeep        -- "Too deep nesting (more than %d levels)"
deriving DecidableEq, Repr

/-- `UNBER_MAX_NESTING_LEVEL`: `process_deeper` refuses to run at a `level` above it (one C stack
    frame per level; the F41 repair) -/
def maxLevel : Nat := 2048

inductive Pdc where
  | finished | eof
deriving DecidableEq, Repr

/-- outcome of (the rest of) one `process_deeper` activation -/
inductive R where
  /-- returned `pdc` (≠ PD_FAILED); `frame` = what was added to `*frame_size` -/
  | done (pdc : Pdc) (frame : Nat) (inp : Bytes) (off : Nat) (out : List Out)
  /-- returned PD_FAILED after the diagnostic `e` -/
  | failed (e : Err) (out : List Out)
  /-- the model would access `tagbuf` out of bounds / uninitialised -/
  | oob (out : List Out)
  /-- an `assert()` of the C code would fire -/
  | assertion (out : List Out)
  /-- the model ran out of fuel (never, see `Proofs/Unber.lean`) -/
  | nofuel
deriving DecidableEq, Repr

/-- prepend output produced earlier -/
def R.pre (o : List Out) : R → R
  | .done p f i off out => .done p f i off (o ++ out)
  | .failed e out => .failed e (o ++ out)
  | .oob out => .oob (o ++ out)
  | .assertion out => .assertion (o ++ out)
  | .nofuel => .nofuel

/-- `*frame_size += n` done earlier in the same activation -/
def R.addFrame (n : Nat) : R → R
  | .done p f i off out => .done p (n + f) i off out
  | r => r

/-- the loop state of one `process_deeper` activation, as a function type:
    `level expect_eoc tagbuf limit effective_size pdc input bytesRead` -/
abbrev Loop := Nat → Bool → Bytes → Int → Nat → Pdc → Bytes → Nat → R

/-- Everything `process_deeper` does in one loop iteration after `(t_len + l_len) == tblen`
    has been established.  `rec` is `process_deeper` itself (child activation and
    `continue`). `tagbuf` holds the complete TL, `off` = `bytesRead`. -/
def afterTL (rec : Loop) (level : Nat) (eoc : Bool) (tagbuf : Bytes) (limit : Int) (esize : Nat)
    (pdc : Pdc) (inp : Bytes) (off : Nat) (tag : Nat) (len : Int) (constr : Bool) (isEoc : Bool) : R :=
  let tblen := tagbuf.length
  -- if(!expect_eoc || tagbuf[0] || tagbuf[1]) print_TL(os, 0, bytesRead - tblen, …)
  let o1 := if isEoc then [] else [Out.opn level constr (off - tblen) tblen tag len]
  -- if(limit != -1) { limit -= t_len + l_len; assert(limit >= 0); if(tlv_len > limit) fail }
  let limit1 : Int := if limit = -1 then -1 else limit - tblen
  if limit ≠ -1 ∧ limit1 < 0 then .assertion o1
  else if limit ≠ -1 ∧ len > limit1 then .failed .lenExceeds o1
  else
  let esize1 := esize + tblen
  if isEoc then
    -- print_TL(os, 1, bytesRead - 2, level - 1, 1, 2, 0, -1, effective_size); return PD_FINISHED
    .done .finished tblen inp off (o1 ++ [Out.cls (level - 1) true (off - 2) 2 0 (-1) esize1])
  else if constr then
    -- assert(limit >= tlv_len) when both are set
    if len ≠ -1 ∧ limit1 ≠ -1 ∧ limit1 < len then .assertion (o1 ++ [Out.gt])
    else
    -- the entry test of the child activation: `if(level > UNBER_MAX_NESTING_LEVEL) return PD_FAILED`
    -- (`rec` is entered at the loop head; the top-level activation has level 0 and passes the test)
    if level + 1 > maxLevel then .failed .tooDeep (o1 ++ [Out.gt])
    else
    match rec (level + 1) (len == -1) [] (if len = -1 then limit1 else len) tblen .finished inp off with
    | .done cpdc dec inp2 off2 o2 =>
      let o12 := o1 ++ [Out.gt] ++ o2
      -- if(limit != -1) { assert(limit >= dec); limit -= dec; }
      if limit1 ≠ -1 ∧ limit1 < dec then .assertion o12
      else
      let limit2 : Int := if limit1 = -1 then -1 else limit1 - dec
      let esize2 := esize1 + dec
      if len = -1 then
        -- tblen = 0; if(pdc == PD_FINISHED && limit < 0 && !expect_eoc) return pdc; continue;
        if cpdc = .finished ∧ limit2 < 0 ∧ eoc = false then .done cpdc (tblen + dec) inp2 off2 o12
        else ((rec level eoc [] limit2 esize2 cpdc inp2 off2).addFrame (tblen + dec)).pre o12
      else
        let o123 := o12 ++ [Out.cls level true off2 tblen tag len (tblen + dec)]
        if level = 0 ∧ limit2 = -1 ∧ eoc = false then .done cpdc (tblen + dec) inp2 off2 o123
        else ((rec level eoc [] limit2 esize2 cpdc inp2 off2).addFrame (tblen + dec)).pre o123
    | r => r.pre (o1 ++ [Out.gt])
  else
    if len < 0 then .assertion o1          -- assert(tlv_len >= 0)
    else
    -- print_V: `tlv_len` calls of ibs_getc
    let n := len.toNat
    let content := inp.take n
    if content.length < n then .failed .eofV (o1 ++ [Out.val content])
    else
    let inp2 := inp.drop n
    let off2 := off + n
    -- if(limit != -1) { assert(limit >= tlv_len); limit -= tlv_len; }
    if limit1 ≠ -1 ∧ limit1 < len then .assertion (o1 ++ [Out.val content])
    else
    let limit2 : Int := if limit1 = -1 then -1 else limit1 - len
    let o123 := o1 ++ [Out.val content, Out.cls level false off2 tblen tag len (tblen + n)]
    if level = 0 ∧ limit2 = -1 ∧ eoc = false then .done pdc (tblen + n) inp2 off2 o123
    else ((rec level eoc [] limit2 (esize1 + n) pdc inp2 off2).addFrame (tblen + n)).pre o123

/-- `process_deeper(fname, ibs, os, level, limit, &frame_size, effective_size, expect_eoc)`,
    entered at the head of its `for(;;)` loop with the given `tagbuf[0..tblen)`. -/
def pd : Nat → Loop
  | 0, _, _, _, _, _, _, _, _ => .nofuel
  | fuel + 1, level, eoc, tagbuf, limit, esize, pdc, inp, off =>
    let tblen := tagbuf.length
    if limit = 0 then .done .finished 0 inp off []
    else if limit ≥ 0 ∧ (tblen : Int) ≥ limit then .failed .tooLongLimit []
    else if tblen ≥ 32 then .failed .tooLongBuf []
    else
    match inp with
    | [] => if limit > 0 ∨ eoc = true then .failed .eofTL [] else .done .eof 0 [] off []
    | ch :: inp1 =>
      let off1 := off + 1
      -- tagbuf[tblen++] = ch
      if tblen ≥ 32 then .oob [] else
      let tagbuf1 := tagbuf ++ [ch]
      let tblen1 := tblen + 1
      match fetchTag tagbuf1 tblen1 with
      | .fail => .failed .badTag []
      | .oob => .oob []
      | .more => pd fuel level eoc tagbuf1 limit esize pdc inp1 off1
      | .ok tag tLen =>
        -- constr = BER_TLV_CONSTRUCTED(tagbuf)
        match tagbuf1[0]? with
        | none => .oob []
        | some b0 =>
          let constr := b0 / 32 % 2 == 1
          match fetchLength constr (tagbuf1.drop tLen) (tblen1 - tLen) with
          | .fail => .failed .badLen []
          | .oob => .oob []
          | .more => pd fuel level eoc tagbuf1 limit esize pdc inp1 off1
          | .ok len lLen =>
            if tLen + lLen ≠ tblen1 then .failed .tlMismatch []
            else
            -- `expect_eoc && !tagbuf[0] && !tagbuf[1]` (short-circuit evaluation)
            if eoc = true ∧ b0 = 0 then
              match tagbuf1[1]? with
              | none => .oob []
              | some b1 => afterTL (pd fuel) level eoc tagbuf1 limit esize pdc inp1 off1 tag len constr (b1 == 0)
            else afterTL (pd fuel) level eoc tagbuf1 limit esize pdc inp1 off1 tag len constr false

/-- final status of `unber -p file` -/
inductive Status where
  | ok                -- exit 0
  | failed (e : Err)  -- exit EX_DATAERR after a diagnostic
  | oob | assertion | nofuel
deriving DecidableEq, Repr

/-- `unber_stream`: `do pdc = process_deeper(.., 0, -1, &frame_size, 0, 0); while(pdc == PD_FINISHED)` -/
def stream : Nat → Bytes → Nat → Status × List Out
  | 0, _, _ => (.nofuel, [])
  | fuel + 1, inp, off =>
    match pd (inp.length + 1) 0 false [] (-1) 0 .finished inp off with
    | .done .finished _ inp2 off2 out =>
      let (s, out2) := stream fuel inp2 off2
      (s, out ++ out2)
    | .done .eof _ _ _ out => (.ok, out)
    | .failed e out => (.failed e, out)
    | .oob out => (.oob, out)
    | .assertion out => (.assertion, out)
    | .nofuel => (.nofuel, [])

/-- `unber -p` on a file with contents `inp`: exit status and the events printed -/
def unberOuts (inp : Bytes) : Status × List Out := stream (inp.length + 1) inp 0

/-- `unber -p` on a file with contents `inp`: exit status and the text on stdout -/
def unber (inp : Bytes) : Status × Bytes :=
  let (s, out) := unberOuts inp
  (s, renderAll out)

end Asn1c.Impl.Unber
