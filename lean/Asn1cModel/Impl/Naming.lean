import Asn1cModel.Generated.ReservedWords
/-
  Impl (L3, compiler side): `asn1c_make_identifier` (libasn1compiler/asn1c_misc.c) and the
  `-fcompound-names` joining of `construct_base_name` (libasn1compiler/asn1c_naming.c),
  mirrored as they are.  Core Lean only.

  C code modelled (asn1c_misc.c:45-169):

    parts   = [ModuleName if TM_NAMECLASH] ++ [Identifier] ++ ["<lineno>P<spec_index>" if spec_index != -1]
              ++ the NULL-terminated varargs                       (expr == NULL: only the varargs)
    expr != NULL && Identifier == NULL  →  "Member"
    expr == NULL && no varargs          →  NULL
    for every part, in order:
       part == " "                     → emit ' ', set nodelimiter, continue
       not the first part, !nodelimiter, !(flags & AMI_NODELIMITER) → emit '_'
       per character: isalnum → copy, subst_made = 0;
                      else if(!subst_made++) → '_'  (or the character itself if AMI_MASK_ONLY_SPACES && !isspace)
       (flags & AMI_CHECK_RESERVED) && first part && it is the ONLY part && reserved_keyword(<the characters just
                                       emitted for this part>) → the first emitted character is replaced by its toupper
    `subst_made` is local to one part (declared inside the loop body).
    The keyword table is consulted on the *escaped* text (after '-' → '_'), so `and-eq`, `wchar-t`, `static-assert`
    are recognised (repair of finding F80; before it the table was consulted on the unescaped part).

  `isalnum`/`isspace`/`toupper` are taken in the "C" locale (asn1c never calls setlocale).
-/
namespace Asn1c.Impl.Naming
open Asn1c.Generated

/-- `isalnum` in the "C" locale -/
def isAlnum (c : Char) : Bool :=
  ('0' ≤ c && c ≤ '9') || ('a' ≤ c && c ≤ 'z') || ('A' ≤ c && c ≤ 'Z')

def isDigit (c : Char) : Bool := '0' ≤ c && c ≤ '9'

/-- `isspace` in the "C" locale: space, \t \n \v \f \r -/
def isSpace (c : Char) : Bool := c = ' ' || (9 ≤ c.toNat && c.toNat ≤ 13)

/-- `toupper` in the "C" locale -/
def toUpper (c : Char) : Char :=
  if 'a' ≤ c && c ≤ 'z' then Char.ofNat (c.toNat - 32) else c

structure Flags where
  checkReserved : Bool := false     -- AMI_CHECK_RESERVED
  noDelimiter : Bool := false       -- AMI_NODELIMITER
  maskOnlySpaces : Bool := false    -- AMI_MASK_ONLY_SPACES
  deriving Repr, DecidableEq

/-- `reserved_keyword(str)`: linear `strcmp` scan of `res_kwd[]` (translator-extracted). -/
def reservedKeyword (s : List Char) : Bool := resKwd.any (fun k => k.toList == s)

/-- the per-character loop of one part; `subst` = (`subst_made` ≠ 0) -/
def escapeChars (maskOnlySpaces : Bool) : Bool → List Char → List Char
  | _, [] => []
  | subst, c :: cs =>
    if isAlnum c then c :: escapeChars maskOnlySpaces false cs
    else if !subst then
      (if maskOnlySpaces && !isSpace c then c else '_') :: escapeChars maskOnlySpaces true cs
    else escapeChars maskOnlySpaces true cs

/-- `if(reserved_keyword(part)) *part = toupper(*part);` on the characters emitted for one part -/
def capitaliseIfReserved (out : List Char) : List Char :=
  if reservedKeyword out then
    match out with
    | c :: cs => toUpper c :: cs
    | [] => []
  else out

/-- one part that is not the `" "` marker: optional delimiter, characters, reserved-word capitalisation of
    the escaped text -/
def emitPart (fl : Flags) (first only nodelim : Bool) (p : List Char) : List Char :=
  let delim : List Char := if !first && !nodelim && !fl.noDelimiter then ['_'] else []
  let out := escapeChars fl.maskOnlySpaces false p
  delim ++ (if fl.checkReserved && first && only then capitaliseIfReserved out else out)

/-- the loop over the parts; `first` = this is the first part, `only` = the part list had exactly one
    element, `nodelim` = the `nodelimiter` variable -/
def partsLoop (fl : Flags) (only : Bool) : (first nodelim : Bool) → List (List Char) → List Char
  | _, _, [] => []
  | first, nodelim, p :: ps =>
    if p = [' '] then ' ' :: partsLoop fl only false true ps
    else emitPart fl first only nodelim p ++ partsLoop fl only false false ps

/-- the fields of `asn1p_expr_t` that `asn1c_make_identifier` reads -/
structure ExprName where
  identifier : Option String          -- expr->Identifier (NULL for anonymous members)
  nameClash : Bool := false           -- expr->_mark & TM_NAMECLASH
  moduleName : String := ""           -- expr->module->ModuleName
  specIndex : Option (Int × Int) := none   -- (expr->_lineno, expr->spec_index) when spec_index != -1
  deriving Repr

def natDigits (n : Nat) : List Char := (toString n).toList
def intText (i : Int) : List Char := (toString i).toList

/-- the `sptr[]` prefix for a given expression -/
def exprParts (e : ExprName) (ident : String) : List (List Char) :=
  (if e.nameClash then [e.moduleName.toList] else [])
  ++ [ident.toList]
  ++ (match e.specIndex with
      | some (line, idx) => [intText line ++ ['P'] ++ intText idx]
      | none => [])

/-- `asn1c_make_identifier(flags, expr, args..., 0)`; `none` = the NULL return -/
def makeIdentifier (fl : Flags) (e : Option ExprName) (args : List String) : Option (List Char) :=
  match e with
  | some ex =>
    match ex.identifier with
    | none => some "Member".toList
    | some ident =>
      let parts := exprParts ex ident ++ args.map String.toList
      some (partsLoop fl (parts.length == 1) true false parts)
  | none =>
    match args with
    | [] => none
    | _ =>
      let parts := args.map String.toList
      some (partsLoop fl (parts.length == 1) true false parts)

/-- the common call `asn1c_make_identifier(flags, expr, 0)` on a plain (non-clashing, non-specialised)
    expression named `ident` -/
def mkId (fl : Flags) (ident : String) : List Char :=
  partsLoop fl true true false [ident.toList]

/-! ### `construct_base_name` (asn1c_naming.c) -/

/-- `chain` = identifiers from the top-level type down to the expression itself.
    With `compound` every ancestor contributes, joined by "__" (only when the buffer is non-empty);
    AMI_CHECK_RESERVED applies to the expression's own component only when `avoidKeywords` and the
    buffer is still empty. -/
def constructBaseName (compound avoidKeywords : Bool) (chain : List String) : List Char :=
  match chain.reverse with
  | [] => []
  | self :: parentsRev =>
    let parents := if compound then parentsRev.reverse else []
    let buf := parents.foldl (fun (buf : List Char) (p : String) =>
                  (if buf.isEmpty then buf else buf ++ ['_', '_']) ++ mkId {} p) []
    let buf := if buf.isEmpty then buf else buf ++ ['_', '_']
    buf ++ mkId { checkReserved := avoidKeywords && buf.isEmpty } self

/-! ### C identifier syntax -/

def isIdentChar (c : Char) : Bool := isAlnum c || c = '_'

/-- a C identifier: non-empty, `[A-Za-z_][A-Za-z0-9_]*` -/
def isCIdent : List Char → Bool
  | [] => false
  | c :: cs => isIdentChar c && !isDigit c && cs.all isIdentChar

end Asn1c.Impl.Naming
