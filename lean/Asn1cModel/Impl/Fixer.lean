import Asn1cModel.Spec.ModuleAst
/-
  Impl model of the semantic checker `libasn1fix` for the C11 algebra, mirroring the C code
  as it is:
    asn1fix_tags.c     asn1f_fetch_tags_impl / asn1f_fetch_outmost_tag      → `fetchOutmost`
    asn1fix_retrieve.c asn1f_find_terminal_type                             → `findTerminal`
    asn1fix_constr.c   _asn1f_check_if_tag_must_be_explicit                 → `mustExplicit`
                       _asn1f_fix_type_tag, asn1f_fix_constr_tag            → `fixTypeTag`, `fixConstr`
                       asn1f_fix_constr_autotag                             → `autoNumber`
                       _asn1f_compare_tags                                  → `compareTags`
                       asn1f_check_constr_tags_distinct                     → `checkDistinct`
    asn1fix_misc.c     asn1f_check_unique_expr(_child)                      → `dupNames`
    asn1fix_enum.c     asn1f_fix_enum                                       → `fixEnum`
    asn1fix_dereft.c   asn1f_fix_dereference_types                          → `derefFatal`
    asn1fix.c          asn1f_check_duplicate, phase 1, fatal count          → `fixerRun`, `fixerVerdict`
  The C code follows references by pointer chasing (recursion guarded by TM_RECURSION marks
  in `asn1f_fetch_tags_impl`, by a depth limit with a FATAL diagnostic in `_asn1f_compare_tags`,
  which sets no marks of its own any more).  The
  model follows them with fuel; "fuel exhausted" is a distinguished outcome (`none` / `.loop`)
  that poisons the result — `fixerVerdict` reports it as reject, as the C code does when its
  depth limit is reached — so that `Dom_C11` can say "the model never ran out of fuel" (true
  for every module whose look-through graph is acyclic).  Core Lean only.
-/
namespace Asn1c.Impl.Fixer
open Asn1c.Fix

/-- `expr_type2uclass_value[]`; 0 for CHOICE and for A1TC_REFERENCE -/
def uclass : Ty → Nat
  | .prim _ .boolean => 1
  | .prim _ .integer => 2
  | .prim _ .octetString => 4
  | .prim _ .null => 5
  | .enum _ _ _ _ => 10
  | .constr _ .sequence _ _ _ => 16
  | .constr _ .set _ _ _ => 17
  | .constr _ .choice _ _ _ => 0
  | .seqOf _ _ => 16
  | .ref _ _ => 0

/-- fuel for every reference-following function -/
def fuel (M : Module) : Nat := 4 * M.size + 8

/-- outcome of `asn1f_fetch_outmost_tag`: 0 with a tag / -1 / (model only) out of fuel -/
inductive Fetch
  | tag (g : OTag)
  | fail
  | loop
  deriving DecidableEq

/-- the tag `asn1f_fetch_tags_impl` adds first without following a reference: the type's own
    tag, else the universal tag of a built-in type -/
def directTag (t : Ty) : Option OTag :=
  match t.tag with
  | some g => some (.key g.cls g.num)
  | none => if uclass t = 0 then none else some (.key .universal (uclass t))

/-- `asn1f_fetch_outmost_tag(..., flags = 0 or AFT_IMAGINARY_ANY)`.
    `...` yields the pseudo tag (class −1); an untagged CHOICE fails (`AFT_CANON_CHOICE` is
    not set); an untagged reference is followed; a missing symbol fails. -/
def fetchOutmost (M : Module) : Nat → Ex → Fetch
  | _, .ext => .tag .extp
  | fuel, .ty t =>
    match directTag t with
    | some g => .tag g
    | none =>
      match t with
      | .ref _ n =>
        match fuel with
        | 0 => .loop
        | f + 1 =>
          match M.lookup n with
          | none => .fail
          | some t' => fetchOutmost M f (.ty t')
      | _ => .fail

/-- outcome of `asn1f_find_terminal_type` -/
inductive Term
  | found (t : Ty)
  | missing
  | loop

/-- `asn1f_find_terminal_type`: follows references whatever their tags -/
def findTerminal (M : Module) : Nat → Ty → Term
  | fuel, .ref _ n =>
    match fuel with
    | 0 => .loop
    | f + 1 =>
      match M.lookup n with
      | none => .missing
      | some t' => findTerminal M f t'
  | _, t => .found t

def isChoice : Ty → Bool
  | .constr _ .choice _ _ _ => true
  | _ => false

/-- `_asn1f_check_if_tag_must_be_explicit`: the type *without its own tag* has no outermost
    tag, and its terminal type is a CHOICE (ANY is not in the algebra) -/
def mustExplicit (M : Module) (v : Ty) : Option Bool :=
  match fetchOutmost M (fuel M) (.ty (v.withTag none)) with
  | .tag _ => some false
  | .loop => none
  | .fail =>
    match findTerminal M (fuel M) v with
    | .found t => some (isChoice t)
    | .missing => some false
    | .loop => none

/-- `_asn1f_fix_type_tag` on a tagged expression: resolved tag + "FATAL: tagged in IMPLICIT
    mode but must be EXPLICIT" -/
def fixTypeTag (M : Module) (t : Ty) : Option (Ty × Bool) :=
  match t.tag with
  | none => some (t, false)
  | some g =>
    match mustExplicit M t with
    | none => none
    | some me =>
      let mode1 : TagMode :=
        if g.mode = .default_ then
          (if me || M.dflt == .explicit then .explicit else .implicit)
        else g.mode
      if me then
        if mode1 = .implicit then some (t.withTag (some { g with mode := .implicit }), true)
        else some (t.withTag (some { g with mode := .explicit }), false)
      else some (t.withTag (some { g with mode := mode1 }), false)

/-- the member loop of `asn1f_fix_constr_tag(arg, 0)`: every tagged member goes through
    `_asn1f_fix_type_tag` -/
def fixComps (M : Module) : List Comp → Option (List Comp × Bool)
  | [] => some ([], false)
  | c :: rest =>
    match (if c.ty.tag.isSome then fixTypeTag M c.ty else some (c.ty, false)), fixComps M rest with
    | some (t', f), some (rest', fr) => some (.mk c.name t' c.opt :: rest', f || fr)
    | _, _ => none

/-- `asn1f_fix_constr_autotag` member loop: context tags i, i+1, … (the marker is skipped
    without consuming a number), EXPLICIT iff `must_explicit` -/
def autoNumber (M : Module) : Nat → List Comp → Option (List Comp)
  | _, [] => some []
  | i, c :: rest =>
    match mustExplicit M c.ty, autoNumber M (i + 1) rest with
    | some me, some rest' =>
      some (c.withTag (some ⟨.context, i, if me then .explicit else .implicit⟩) :: rest')
    | _, _ => none

structure FixC where
  root : List Comp
  adds : List Comp
  /-- some member is IMPLICIT but must be EXPLICIT -/
  fImplicit : Bool
  /-- "extensions are tagged but root components are not" -/
  fExt : Bool

def anyTagged (cs : List Comp) : Bool := cs.any (fun c => c.ty.tag.isSome)

/-- `asn1f_fix_constr_tag(arg, 0)` (with the `auto_tags_OK` decision) followed by
    `asn1f_fix_constr_autotag` on one SEQUENCE/SET/CHOICE -/
def fixConstr (M : Module) (root adds : List Comp) : Option FixC :=
  match fixComps M root, fixComps M adds with
  | some (r1, f1), some (a1, f2) =>
    if M.dflt == .automatic && !anyTagged root then
      if anyTagged adds then some ⟨r1, a1, f1 || f2, true⟩
      else
        match autoNumber M 0 r1, autoNumber M r1.length a1 with
        | some r2, some a2 => some ⟨r2, a2, f1 || f2, false⟩
        | _, _ => none
    else some ⟨r1, a1, f1 || f2, false⟩
  | _, _ => none

/-- the member list `_asn1f_compare_tags` and the distinctness check iterate over -/
def comps (M : Module) (root : List Comp) (hasExt : Bool) (adds : List Comp) : Option (List Slot) :=
  match fixConstr M root adds with
  | some fc => some (slotsOf fc.root hasExt fc.adds)
  | none => none

/-- first clash wins (`if(ret) return ret;`), out-of-fuel poisons -/
def anyClash : List (Option Bool) → Option Bool
  | [] => some false
  | none :: _ => none
  | some r :: rest => if r then some true else anyClash rest

/-- which branch of `_asn1f_compare_tags(a, b)` is taken -/
inductive Step
  /-- (model only) a tag fetch ran out of fuel -/
  | loop
  /-- `ra == 0 && rb == 0`: both outermost tags known -/
  | both (x y : OTag)
  /-- `ra && a->meta_type == AMT_TYPEREF` -/
  | followA (n : String)
  /-- `ra && a->expr_type == ASN_CONSTR_CHOICE` -/
  | choiceA (r : List Comp) (h : Bool) (ad : List Comp)
  /-- `rb && (b->meta_type == AMT_TYPEREF || b->expr_type == ASN_CONSTR_CHOICE)` -/
  | swap
  /-- the final `return 0;` -/
  | done

/-- the test on b, reached when none of the tests on a applied -/
def classifyB (rb : Fetch) (b : Ex) : Step :=
  match rb, b with
  | .fail, .ty (.constr _ .choice _ _ _) => .swap
  | .fail, .ty (.ref _ _) => .swap
  | _, _ => .done

/-- the tests on a, reached when a has no outermost tag (`ra != 0`) -/
def classifyA (a : Ex) (rb : Fetch) (b : Ex) : Step :=
  match a with
  | .ty (.ref _ n) => .followA n
  | .ty (.constr _ .choice r h ad) => .choiceA r h ad
  | _ => classifyB rb b

/-- the chain of `if`s at the head of `_asn1f_compare_tags` -/
def classify (M : Module) (a b : Ex) : Step :=
  match fetchOutmost M (fuel M) a with
  | .loop => .loop
  | .fail =>
    match fetchOutmost M (fuel M) b with
    | .loop => .loop
    | rb => classifyA a rb b
  | .tag x =>
    match fetchOutmost M (fuel M) b with
    | .loop => .loop
    | .tag y => .both x y
    | .fail => classifyB .fail b

/-- `_asn1f_compare_tags(a, b)`.
    Both outermost tags known → compare (class, value).  Otherwise, if a has no outermost
    tag: a reference is looked up and followed (missing symbol → 0), a CHOICE is iterated
    over its members (first clash returns).  Otherwise, if b is a reference or a CHOICE
    without outermost tag: swap.  Otherwise 0.
    (No TM_RECURSION marks are set.  On a cyclic look-through graph the C function stops at
    depth 1000 with FATAL "the type is defined through itself" and −1; the model's `none`.) -/
def compareTags (M : Module) : Nat → Ex → Ex → Option Bool
  | 0, _, _ => none
  | f + 1, a, b =>
    match classify M a b with
    | .loop => none
    | .both x y => some (x == y)
    | .followA n =>
      match M.lookup n with
      | none => some false
      | some t' => compareTags M f (.ty t') b
    | .choiceA r h ad =>
      match comps M r h ad with
      | none => none
      | some ss => anyClash (ss.map (fun s => compareTags M f s.ex b))
    | .swap => compareTags M f b a
    | .done => some false

/-- no short cut (`r_value = -1` and continue), out-of-fuel poisons -/
def orAllB : List (Option Bool) → Option Bool
  | [] => some false
  | x :: rest =>
    match x, orAllB rest with
    | some a, some b => some (a || b)
    | _, _ => none

/-- inner loop of `asn1f_check_constr_tags_distinct`: v against the following members; in a
    SEQUENCE stop after the first member without OPTIONAL/DEFAULT -/
def checkRun (M : Module) (isSeq : Bool) (v : Slot) : List Slot → Option Bool
  | [] => some false
  | nv :: rest =>
    match compareTags M (fuel M) v.ex nv.ex with
    | none => none
    | some c =>
      if isSeq && !nv.opt then some c
      else
        match checkRun M isSeq v rest with
        | none => none
        | some r => some (c || r)

/-- outer loop: SET/CHOICE every member, SEQUENCE every OPTIONAL/DEFAULT member -/
def checkDistinct (M : Module) (isSeq : Bool) : List Slot → Option Bool
  | [] => some false
  | v :: rest =>
    match (if !isSeq || v.opt then checkRun M isSeq v rest else some false),
          checkDistinct M isSeq rest with
    | some c, some r => some (c || r)
    | _, _ => none

/-- `asn1f_check_unique_expr`: a child whose identifier equals that of a preceding child
    (markers are skipped: they are not in `names`) -/
def dupNames : List String → List String → Bool
  | _, [] => false
  | prev, n :: rest => prev.contains n || dupNames (prev ++ [n]) rest

/-! ### asn1f_fix_enum -/

structure EnumSt where
  /-- `max_value + 1` -/
  next : Nat
  /-- `max_value_ext + 1` -/
  nextExt : Nat
  used : List Nat
  names : List String

/-- one iteration of the item loop; `after` = the marker has been seen.
    Returns new state, the value of the item, FATAL? -/
def enumStep (after : Bool) (st : EnumSt) (it : EnumItem) : EnumSt × Nat × Bool :=
  let eval := match it.val with
    | some v => v
    | none => st.next                      -- eval = max_value + 1  (F15)
  let f1 := after && eval < st.nextExt    -- "is not greater than previous values"
  let nextExt := if after && st.nextExt ≤ eval then eval + 1 else st.nextExt
  let next := if st.next ≤ eval then eval + 1 else st.next
  let f2 := st.used.contains eval         -- "collides with previous values"
  let used := if f2 then st.used else st.used ++ [eval]
  let f3 := st.names.contains it.name     -- asn1f_check_unique_expr_child
  (⟨next, nextExt, used, st.names ++ [it.name]⟩, eval, f1 || f2 || f3)

def enumLoop (after : Bool) : EnumSt → List EnumItem → EnumSt × List Nat × Bool
  | st, [] => (st, [], false)
  | st, it :: rest =>
    match enumStep after st it with
    | (st1, v, f) =>
      match enumLoop after st1 rest with
      | (st2, vs, fr) => (st2, v :: vs, f || fr)

/-- `asn1f_fix_enum`: values given to the items (root ++ additions) and FATAL? -/
def fixEnum (root adds : List EnumItem) : List Nat × Bool :=
  match enumLoop false ⟨0, 0, [], []⟩ root with
  | (st1, vs1, f1) =>
    match enumLoop true st1 adds with
    | (_, vs2, f2) => (vs1 ++ vs2, f1 || f2)

/-- `asn1f_fix_dereference_types` on a reference node: "Unknown type … referenced by" -/
def derefFatal (M : Module) (t : Ty) : Option Bool :=
  match t with
  | .ref _ _ =>
    match findTerminal M (fuel M) t with
    | .found _ => some false
    | .missing => some true
    | .loop => none
  | _ => some false

/-- the checks of the property's catalogue on one type expression -/
def nodeFatal (M : Module) : Ty → Option Bool
  | .ref g n => derefFatal M (.ref g n)
  | .enum _ r _ a => some (fixEnum r a).2
  | .constr _ k r h a =>
    match comps M r h a with
    | none => none
    | some ss =>
      match checkDistinct M (k == .sequence) ss with
      | none => none
      | some c => some (dupNames [] ((r ++ a).map Comp.name) || c)
  | _ => some false

/-- the other FATALs the fixer can raise on one type expression of this algebra (outside the
    catalogue): IMPLICIT on a member (or SEQUENCE OF / SET OF element) that must be EXPLICIT; tagged additions
    with untagged root under AUTOMATIC TAGS -/
def nodeOther (M : Module) : Ty → Option Bool
  | .constr _ _ r _ a =>
    match fixConstr M r a with
    | none => none
    | some fc => some (fc.fImplicit || fc.fExt)
  | .seqOf _ e =>
    -- the element type of SEQUENCE OF / SET OF: `asn1f_fix_constr_tag(arg, 0)` resolves a tag written on it
    -- through `_asn1f_fix_type_tag`, like the tag of a component
    match fixTypeTag M e with
    | none => none
    | some (_, f) => some f
  | _ => some false

/-- `asn1f_fix_constr_tag(arg, 1)`: the tag of a top-level type -/
def topOther (M : Module) (a : TypeAssign) : Option Bool :=
  match fixTypeTag M a.ty with
  | none => none
  | some (_, f) => some f

/-- `asn1f_check_duplicate` within one module -/
def dupTypeNames (M : Module) : Bool := dupNames [] (M.types.map TypeAssign.name)

/-- rejection reasons outside the property's catalogue -/
def otherFatal (M : Module) : Option Bool :=
  match orAllB (M.types.map (topOther M)), orAllB (M.nodes.map (nodeOther M)) with
  | some a, some b => some (dupTypeNames M || a || b)
  | _, _ => none

/-- rejection reasons of the catalogue: tag clash, duplicate identifier, duplicate enumeration
    item, unknown type -/
def catalogueFatal (M : Module) : Option Bool := orAllB (M.nodes.map (nodeFatal M))

/-- `asn1f_process` returns −1 iff some FATAL was raised; `none`: the model ran out of fuel -/
def fixerRun (M : Module) : Option Bool :=
  match catalogueFatal M, otherFatal M with
  | some a, some b => some (a || b)
  | _, _ => none

inductive Verdict | accept | reject
  deriving DecidableEq, Repr

/-- exit status class of `asn1c`: reject = EX_DATAERR after "FATAL: …" on stderr, nothing
    written.  (Out of fuel is reported as reject, like the depth guard of `_asn1f_compare_tags`;
    `Dom_C11` excludes it.) -/
def fixerVerdict (M : Module) : Verdict :=
  match fixerRun M with
  | some false => .accept
  | _ => .reject

end Asn1c.Impl.Fixer
