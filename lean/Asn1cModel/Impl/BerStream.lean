import Asn1cModel.Impl.BerTlv
import Asn1cModel.Impl.Restart
import Asn1cModel.Impl.Integer
/-
  Impl model of the RESTARTABLE (streaming) BER decoder of the skeletons, mirroring the C code as it is:

    skeletons/ber_decoder.c      ber_check_tags                      → `checkTags`
    skeletons/asn_codecs_prim.c  ber_decode_primitive                → `decPrim` (kind `.prim`)
    skeletons/BOOLEAN.c NULL.c NativeInteger.c (NativeEnumerated)     → `decPrim`
    skeletons/OCTET_STRING.c     OCTET_STRING_decode_ber (STR / BIT) → `ostrIt`
    skeletons/constr_SEQUENCE.c  SEQUENCE_decode_ber                 → `seqIt`
    skeletons/constr_SET_OF.c    SET_OF_decode_ber (also SEQUENCE OF)→ `setOfIt`
    skeletons/constr_CHOICE.c    CHOICE_decode_ber                   → `choiceIt`

  Descriptors (`TD`) carry exactly the table fields the BER decoders read (tags, all_tags, elements[].tag /
  tag_mode / optional / flags, tag2el with toff_first / toff_last, first_extension, ext_start); the driver
  loads them from the descriptor dump of the *compiled* module, so no model of the table emitter is involved.
  The state of a partially decoded structure is a `Node` tree carrying one `asn_struct_ctx_t` per node.

  Every decoder with a saved context is written as one function `…It` executing ONE iteration of the C
  control flow from the saved state (`switch(ctx->phase)` entry, one loop iteration, fall-through into the
  next phase) and `iterate` runs it until a `RETURN`.  `ADVANCE(n); continue` is `.cont s n`,
  `ADVANCE(n); RETURN(rc)` is `.ret s rc n`.

  Deviations from C (none of them reachable by the correspondence runs):
   * allocation never fails; `ASN__STACK_OVERFLOW_CHECK` never fires (the nesting depth of the inputs is small);
     `ber_skip_length` has the iteration bound `skipFuel` (C: stack limit only);
   * `ctx->context` of OCTET STRING (allocated size) is abstracted to "something was APPENDed"; the `(int)`
     overflow checks of APPEND and `st->size = (int)length` (≥ 2^31 octets) are omitted;
   * C `assert`s (unreachable states) are modelled as RC_FAIL; the dead code after `switch` in
     OCTET_STRING_decode_ber (`if(sel)` – `sel` is always NULL there) and the unreachable fall-through
     `ctx->step |= 1` of SEQUENCE microphase 1 are omitted;
   * on the RC_FAIL paths of OCTET STRING phase 1 taken after `OS__add_stack_el` the (garbage) new frame is not
     pushed; frames above `cur_ptr` (kept by C for reuse) are not represented;
   * `eocTest` / `winSkip` answer RC_WMORE on an empty buffer (they are only evaluated after a successful
     `ber_fetch_tag`, so the buffer is never empty there);
   * in SET OF `ctx->ptr == NULL` at the start of a new element (code invariant) is built into the model;
     member states are kept in a list that grows on demand (`putAt`);
   * a decoder whose iteration measure is exhausted answers RC_FAIL – impossible by `ItLaws.decr`
     (Proofs/BerStreamLaws.lean) except for a SET OF element decoder answering RC_OK with consumed = 0 on a
     fresh structure, where C would spin forever; no decoder does (`dec_progress`);
   * not modelled: ANY, OPEN TYPE members, SET, (Native)REAL, recursive descriptors.
  Core Lean only.
-/
namespace Asn1c.Impl.BerStream
open Asn1c Asn1c.Impl.BerTlv Asn1c.Impl.Restart

/-! ### generic driver of a saved-context state machine -/

/-- outcome of one iteration -/
inductive Out (σ : Type) where
  | cont (s : σ) (n : Nat)            -- ADVANCE(n); continue
  | ret (s : σ) (rc : Rc) (n : Nat)   -- ADVANCE(n); RETURN(rc)

/-- run iterations until RETURN; `fuel` is supplied by `run` from a measure that every `cont` decreases -/
def iterate {σ : Type} (it : σ → Bytes → Out σ) : Nat → σ → Bytes → σ × Rc × Nat
  | 0, s, _ => (s, .fail, 0)
  | f + 1, s, bs =>
    match it s bs with
    | .ret s' rc n => (s', rc, n)
    | .cont s' n =>
      let r := iterate it f s' (bs.drop n)
      (r.1, r.2.1, n + r.2.2)

/-! ### descriptors -/

inductive PKind where
  | boolean
  | null
  | nint (unsigned : Bool)        -- NativeInteger / NativeEnumerated (`field_unsigned`)
  | prim (isInt : Bool)           -- ASN__PRIMITIVE_TYPE_t: INTEGER_t, ENUMERATED_t, OBJECT IDENTIFIER, RELATIVE-OID
  | ostr (bits : Bool)            -- OCTET_STRING_decode_ber, subvariant STR (false) / BIT (true)
deriving DecidableEq, Repr, Inhabited

/-- `(ber_tlv_tag_t)-1` -/
def noTag : Tag := ⟨3, 2 ^ 30 - 1⟩

/-- the fields of `asn_TYPE_member_t` read by the BER decoders -/
structure Elem where
  tag : Tag
  tagMode : Int
  optional : Nat
  anyType : Bool
deriving DecidableEq, Repr, Inhabited

/-- `asn_TYPE_tag2member_t` -/
structure T2M where
  tag : Tag
  elNo : Nat
  toffFirst : Int
  toffLast : Int
deriving DecidableEq, Repr, Inhabited

inductive TD where
  | prim (tags : List Tag) (allTags : List Tag) (k : PKind)
  | seq (tags : List Tag) (ms : List TD) (es : List Elem) (firstExt : Int) (t2e : List T2M)
  | setOf (tags : List Tag) (e : TD) (el : Elem)
  | choice (tags : List Tag) (ms : List TD) (es : List Elem) (extStart : Int) (t2e : List T2M)
deriving Repr, Inhabited

/-! ### decoder state -/

/-- `asn_struct_ctx_t` without `context` / `ptr` (these are modelled structurally in `Node`) -/
structure Ctx where
  phase : Nat := 0
  step : Nat := 0
  left : Int := 0
deriving DecidableEq, Repr, Inhabited

/-- `struct _stack_el` of OCTET_STRING.c; `cont_level` is the position in the stack -/
structure Frame where
  left : Int
  got : Int
  wantNulls : Int
  chopped : Bool
deriving DecidableEq, Repr, Inhabited

/-- decoded primitive values as stored in the C structures -/
inductive PVal where
  | bool (v : Nat)          -- BOOLEAN_t: the first non-zero content octet, else 0
  | null
  | int (z : Int)           -- long / unsigned long
  | bytes (bs : Bytes)      -- ASN__PRIMITIVE_TYPE_t buf
deriving DecidableEq, Repr, Inhabited

inductive Node where
  | none                                                   -- NULL pointer / zeroed storage
  | prim (v : Option PVal)                                 -- allocated; `some` once decoded
  | ostr (ctx : Ctx) (appended : Bool) (buf : Bytes) (unused : Nat) (stack : List Frame)   -- head = cur_ptr
  | seq (ctx : Ctx) (ms : List Node) (edxOv : Option Nat)  -- edxOv: see `seqIt`
  | setOf (ctx : Ctx) (elems : List Node) (cur : Node)     -- cur = ctx->ptr
  | choice (ctx : Ctx) (present : Nat) (m : Node)
deriving Repr, Inhabited

/-! ### ber_check_tags -/

structure CT where
  rc : Rc
  consumed : Nat
  step : Nat
  lastLen : Int
  constr : Int
deriving DecidableEq, Repr

/-- the `RETURN` macro of ber_decoder.c for RC_OK / RC_FAIL (RC_WMORE: see `checkTags`) -/
def ctRet (hasCtx : Bool) (rc : Rc) (cons step : Nat) (lastLen constr : Int) : CT :=
  ⟨rc, if rc == .ok || hasCtx then cons else 0, step, lastLen, constr⟩

def b2i (c : Bool) : Int := if c then 1 else 0

/-- the tag-form check: non-last tags must be constructed, the last one must match `last_tag_form` -/
def ctFormBad (rem : Nat) (c : Bool) (lastForm : Int) : Bool :=
  if rem ≠ 0 then !c else (lastForm != b2i c && lastForm != -1)

/-- the tag comparison (skipped for the imposed tag: `tag_mode != 0 && step == 0`) -/
def ctTagBad (tags : List Tag) (tagMode : Int) (step : Nat) (tagno : Int) (tag : Tag) : Bool :=
  !(tagMode != 0 && step == 0) && (tagno < 0 || tags[tagno.toNat]? != some tag)

/-- the `for(tagno < tags_count)` loop; `rem` iterations left, `bs` = `ptr[0..size)` (clamped) -/
def ctLoop (tags : List Tag) (tagMode lastForm : Int) (hasCtx : Bool) :
    Nat → Int → Nat → Int → Nat → Int → Int → Nat → Bytes → CT
  | 0, _, step, _, e00, tlvLen, constr, cons, _ =>
    ctRet hasCtx .ok cons step (if e00 ≠ 0 then -(e00 : Int) else tlvLen) constr
  | rem + 1, tagno, step, limit, e00, _, constr, cons, bs =>
    match fetchTag bs with
    | .fail => ctRet hasCtx .fail cons step 0 constr
    | .more => ctRet hasCtx .more cons step 0 constr
    | .ok tag tl =>
      let c := isConstructed (bs.headD 0)
      let ci : Int := b2i c
      if ctTagBad tags tagMode step tagno tag then
        ctRet hasCtx .fail cons step 0 ci
      else if ctFormBad rem c lastForm then
        ctRet hasCtx .fail cons step 0 ci
      else
        match fetchLength c (bs.drop tl) with
        | .fail => ctRet hasCtx .fail cons step 0 ci
        | .more => ctRet hasCtx .more cons step 0 ci
        | .ok len ll =>
          if len == -1 then
            if limit == -1 then
              ctLoop tags tagMode lastForm hasCtx rem (tagno + 1) (step + 1) limit (e00 + 1) len ci
                (cons + tl + ll) (bs.drop (tl + ll))
            else ctRet hasCtx .fail cons step 0 ci
          else if e00 ≠ 0 then ctRet hasCtx .fail cons step 0 ci
          else
            let tot : Int := len + tl + ll
            if limit == -1 && tot < 0 then ctRet hasCtx .fail cons step 0 ci
            else if limit != -1 && limit != tot then ctRet hasCtx .fail cons step 0 ci
            else
              let limit' : Int := tot - (tl + ll)
              let rest := bs.drop (tl + ll)
              let rest' := if (rest.length : Int) > limit' then rest.take limit'.toNat else rest
              ctLoop tags tagMode lastForm hasCtx rem (tagno + 1) (step + 1) limit' e00 len ci
                (cons + tl + ll) rest'

/-- `tagno = step + (tag_mode==1 ? -1 : 0)` -/
def ctTagno (step : Nat) (tagMode : Int) : Int := (step : Int) + (if tagMode == 1 then -1 else 0)

/-- the body of `ber_check_tags` with the `RETURN` macro as it treats RC_OK and RC_FAIL (`ctRet`);
    `ctxStep = none` ⇔ `opt_ctx == NULL` -/
def checkTagsRaw (tags : List Tag) (ctxStep : Option Nat) (tagMode lastForm : Int) (bs : Bytes) : CT :=
  let step := ctxStep.getD 0
  let hasCtx := ctxStep.isSome
  let tagno : Int := ctTagno step tagMode
  let count : Int := tags.length
  if tagMode == 0 && tagno == count then
    -- the _untagged_ ANY case
    match fetchTag bs with
    | .fail => ctRet hasCtx .fail 0 step 0 (-1)
    | .more => ctRet hasCtx .more 0 step 0 (-1)
    | .ok _ tl =>
      let c := isConstructed (bs.headD 0)
      let ci : Int := b2i c
      match fetchLength c (bs.drop tl) with
      | .fail => ctRet hasCtx .fail 0 step 0 ci
      | .more => ctRet hasCtx .more 0 step 0 ci
      | .ok len ll => ctLoop tags tagMode lastForm hasCtx 0 tagno step (-1) 0 len ci (tl + ll) (bs.drop (tl + ll))
  else if tagno < count then
    ctLoop tags tagMode lastForm hasCtx (count - tagno).toNat tagno step (-1) 0 0 (-1) 0 bs
  else ctRet hasCtx .fail 0 step 0 (-1)     -- assert(tagno < tags_count)

/-- `ber_check_tags(ctx, td, opt_ctx, ptr, size, tag_mode, last_tag_form, &last_length, &tlv_form)`.
    The `RETURN` macro on RC_WMORE: nothing is reported consumed and `opt_ctx->step` is not written, with or without a
    context – the tags read so far will be presented again (`expect_00_terminators` and `limit_len`, which they have
    established, live in locals).  RC_OK / RC_FAIL: as `ctRet` says. -/
def checkTags (tags : List Tag) (ctxStep : Option Nat) (tagMode lastForm : Int) (bs : Bytes) : CT :=
  let r := checkTagsRaw tags ctxStep tagMode lastForm bs
  if r.rc == .more then { r with consumed := 0, step := ctxStep.getD 0 } else r

/-! ### primitive (context-free) decoders -/

/-- BOOLEAN_decode_ber value loop: stop at the first non-zero octet -/
def boolValue : Bytes → Nat
  | [] => 0
  | b :: bs => if b ≠ 0 then b else boolValue bs

/-- value conversion of the primitive decoders once all `len` content octets are there -/
def primBody (k : PKind) (st : Option PVal) (cons len : Nat) (content : Bytes) : Node × Rc × Nat :=
  match k with
  | .boolean => (.prim (some (.bool (boolValue content))), .ok, cons + len)
  | .nint false =>
    match Asn1c.Impl.Integer.INTEGER2long content with
    | .ok v => (.prim (some (.int v)), .ok, cons + len)
    | _ => (.prim st, .fail, 0)
  | .nint true =>
    match Asn1c.Impl.Integer.INTEGER2ulong content with
    | .ok v => (.prim (some (.int (v : Int))), .ok, cons + len)
    | _ => (.prim st, .fail, 0)
  | _ => (.prim (some (.bytes content)), .ok, cons + len)

/-- the part of the primitive decoders after `ber_check_tags` returned RC_OK:
    `cons` = octets of the tags, `len` = `length`, `rest` = the presented bytes after the tags -/
def primTail (k : PKind) (st : Option PVal) (cons : Nat) (len : Int) (rest : Bytes) : Node × Rc × Nat :=
  if k == .null then
    if len != 0 then (.prim st, .fail, 0) else (.prim (some .null), .ok, cons)
  else if len > (rest.length : Int) then (.prim st, .more, 0)
  else primBody k st cons len.toNat (rest.take len.toNat)

/-- the value already stored in a primitive node (`calloc` if there is none) -/
def primSt : Node → Option PVal
  | .prim v => v
  | _ => none

/-- BOOLEAN / NULL / NativeInteger / NativeEnumerated / ber_decode_primitive.
    All of them call `ber_check_tags` without a context: RC_WMORE always comes with consumed = 0. -/
def decPrim (tags : List Tag) (k : PKind) (tagMode : Int) (node : Node) (bs : Bytes) : Node × Rc × Nat :=
  let ct := checkTags tags none tagMode 0 bs
  if ct.rc != .ok then (.prim (primSt node), ct.rc, ct.consumed)
  else primTail k (primSt node) ct.consumed ct.lastLen (bs.drop ct.consumed)

/-! ### helpers shared by the constructed decoders -/

/-- `LEFT` -/
def leftOf (left : Int) (size : Nat) : Nat := if left < 0 then size else min size left.toNat
/-- `SIZE_VIOLATION` -/
def sizeViolation (left : Int) (size : Nat) : Bool := left ≥ 0 && left ≤ (size : Int)
/-- the `ctx->left` part of `ADVANCE` -/
def advLeft (left : Int) (n : Nat) : Int := if left ≥ 0 then left - n else left
/-- `IN_EXTENSION_GROUP` -/
def inExt (firstExt : Int) (idx : Nat) : Bool := firstExt ≥ 0 && firstExt ≤ (idx : Int)
/-- `case 0: if(!SIZE_VIOLATION) RETURN(RC_WMORE); case -1: RETURN(RC_FAIL)` -/
def moreOrFail (left : Int) (size : Nat) : Rc := if sizeViolation left size then .fail else .more
/-- iteration bound of `ber_skip_length` (C: stack limit only) -/
def skipFuel : Nat := 1000000

def tagLt (a b : Tag) : Bool := a.cls < b.cls || (a.cls == b.cls && a.num < b.num)

/-- glibc `bsearch` with a comparison `cmp key elem ∈ {-1,0,1}`; returns the index found -/
def bsearchIdx {α : Type} (cmp : α → Int) (tbl : List α) : Nat → Nat → Nat → Option Nat
  | 0, _, _ => none
  | f + 1, l, u =>
    if l < u then
      let idx := (l + u) / 2
      match tbl[idx]? with
      | none => none
      | some e =>
        let c := cmp e
        if c < 0 then bsearchIdx cmp tbl f l idx
        else if c > 0 then bsearchIdx cmp tbl f (idx + 1) u
        else some idx
    else none

/-- `_search4tag(key, elem)` / the tag part of `_t2e_cmp` -/
def cmpTag (key : Tag) (e : Tag) : Int := if key == e then 0 else if tagLt key e then -1 else 1

/-! ### the buffer accesses shared by SEQUENCE / SET OF / CHOICE -/

/-- outcome of a windowed reader: a value and the octets used, or `RETURN(rc)` -/
inductive WF (α : Type) where
  | ok (v : α) (n : Nat)
  | ret (rc : Rc)

/-- `tag_len = ber_fetch_tag(ptr, LEFT, &tlv_tag); switch(tag_len) { case 0: if(!SIZE_VIOLATION)
    RETURN(RC_WMORE); case -1: RETURN(RC_FAIL); }` -/
def winFetchTag (left : Int) (bs : Bytes) : WF Tag :=
  match fetchTag (bs.take (leftOf left bs.length)) with
  | .more => .ret (moreOrFail left bs.length)
  | .fail => .ret .fail
  | .ok t n => .ok t n

/-- `skip = ber_skip_length(ctx, BER_TLV_CONSTRUCTED(ptr), ptr + tag_len, LEFT - tag_len)` with the same switch
    (called after a successful `ber_fetch_tag` only: the first branch is unreachable) -/
def winSkip (left : Int) (bs : Bytes) (tl : Nat) : WF Unit :=
  if bs.isEmpty then .ret .more else
  match skipLength skipFuel (isConstructed (bs.headD 0)) ((bs.take (leftOf left bs.length)).drop tl) with
  | .more => .ret (moreOrFail left bs.length)
  | .fail => .ret .fail
  | .ok u n => .ok u n

inductive Eoc where
  | no
  | wait (rc : Rc)
  | yes

/-- the end-of-contents test `if(ctx->left < 0 && ptr[0] == 0) { if(LEFT < 2) {RETURN(SIZE_VIOLATION ? RC_FAIL :
    RC_WMORE)} else if(ptr[1] == 0) {…yes…} }`.  It is evaluated after a successful `ber_fetch_tag` only, so the
    buffer is never empty there (the first branch is unreachable). -/
def eocTest (left : Int) (bs : Bytes) : Eoc :=
  if bs.isEmpty then .wait .more
  else if left < 0 && bs.headD 1 == 0 then
    if leftOf left bs.length < 2 then .wait (moreOrFail left bs.length)
    else if (bs.drop 1).headD 1 == 0 then .yes else .no
  else .no

/-- the member decoder call shared by the three constructed decoders: the member sees `LEFT` octets;
    `case RC_WMORE: if(!SIZE_VIOLATION) { ADVANCE(rval.consumed); RETURN(RC_WMORE); } /* Fall through */
     case RC_FAIL: RETURN(RC_FAIL);`  – the result is (member state, rc, octets to ADVANCE) -/
def callMember (d : Node → Bytes → Node × Rc × Nat) (left : Int) (n : Node) (bs : Bytes) : Node × Rc × Nat :=
  let r := d n (bs.take (leftOf left bs.length))
  match r.2.1 with
  | .ok => r
  | .more => if !sizeViolation left bs.length then r else (r.1, .fail, 0)
  | .fail => (r.1, .fail, 0)

/-! ### OCTET_STRING_decode_ber -/

structure OS where
  ctx : Ctx
  appended : Bool
  buf : Bytes
  unused : Nat
  stack : List Frame
deriving Repr, Inhabited

def OS.ofNode : Node → OS
  | .ostr c a b u s => ⟨c, a, b, u, s⟩
  | _ => ⟨{}, false, [], 0, []⟩
def OS.toNode (s : OS) : Node := .ostr s.ctx s.appended s.buf s.unused s.stack

/-- `APPEND` -/
def OS.append (s : OS) (bs : Bytes) : OS := { s with buf := s.buf ++ bs, appended := true }

/-- the BIT STRING epilogue and `RETURN(RC_OK)` -/
def ostrFinish (bits : Bool) (s : OS) : Out OS :=
  if bits then
    if s.buf ≠ [] then
      if s.unused > 7 then .ret s .fail 0
      else .ret { s with buf := s.buf.dropLast ++ [s.buf.getLastD 0 / 2 ^ s.unused * 2 ^ s.unused % 256] } .ok 0
    else if s.unused ≠ 0 then .ret s .fail 0 else .ret s .ok 0
  else .ret s .ok 0

/-- leave the `do … while(tlv_constr)` loop of phase 1 -/
def ostrLoopEnd (s : OS) (tlvConstr : Bool) : OS :=
  if tlvConstr then s
  else if s.stack.isEmpty then { s with ctx := { s.ctx with phase := s.ctx.phase + 3 } }
  else { s with ctx := { s.ctx with phase := s.ctx.phase + 1 } }

/-- `sel ? sel->left : -1`: `Left = ((!sel||(size_t)sel->left >= size) ? size : (size_t)sel->left)` is
    `leftOf` of this -/
def OS.selLeft (s : OS) : Int :=
  match s.stack with
  | [] => -1
  | f :: _ => f.left

/-- what phase 1 reads from the buffer: T and L of the next TLV and whether the buffer starts with 00 00 -/
structure TL where
  tag : Tag
  constr : Bool
  len : Int
  tl : Nat
  ll : Nat
  eoc : Bool

/-- `tl = ber_fetch_tag(buf_ptr, Left, &tlv_tag); ll = ber_fetch_length(tlv_constr, buf_ptr + tl, Left - tl, &tlv_len)`
    with `case -1: RETURN(RC_FAIL); case 0: RETURN(RC_WMORE);` (no SIZE_VIOLATION test here) -/
def ostrFetch (l : Int) (bs : Bytes) : WF TL :=
  let win := bs.take (leftOf l bs.length)
  match fetchTag win with
  | .fail => .ret .fail
  | .more => .ret .more
  | .ok tag tl =>
    let c := isConstructed (bs.headD 0)
    match fetchLength c (win.drop tl) with
    | .fail => .ret .fail
    | .more => .ret .more
    | .ok len ll => .ok ⟨tag, c, len, tl, ll, bs.headD 1 == 0 && (bs.drop 1).headD 1 == 0⟩ (tl + ll)

/-- "Set up expected tags" of phase 1 for the subvariants STR / BIT / U16 / U32, `sel != NULL`: the tag demanded of
    the TLV that starts below a frame of depth `level` (= `sel->cont_level`), given the tag `tag` it carries.
    `chain` = `td->tags_count + (tag_mode == 1)`: the TLVs of the tag chain, which `ber_check_tags` has checked, pass;
    below them a segment passes when it is a universal OCTET STRING (BIT STRING for `bits`: X.690 8.7.3.2, 8.23.6,
    8.6.4.1) or carries what the decoder demanded before that rule was added: `all_tags[level]`, beyond the table its
    last entry -/
def ostrExpected (chain : Nat) (bits : Bool) (allTags : List Tag) (level : Nat) (tag : Tag) : Tag :=
  if level + 1 < chain then tag
  else if tag == (⟨0, if bits then 3 else 4⟩ : Tag) then tag
  else if level < allTags.length then allTags.getD level tag
  else if allTags.length ≠ 0 then allTags.getLastD tag
  else tag

/-- the expected-tag rule of the decoder of a type with the tags `tags` / `allTags` called with `tagMode` -/
def ostrEx (tags allTags : List Tag) (bits : Bool) (tagMode : Int) : Nat → Tag → Tag :=
  ostrExpected (tags.length + (if tagMode == 1 then 1 else 0)) bits allTags

/-- phase 1 after the TL has been read: end-of-contents of the current frame, or the expected-tag check (`ex`, see
    `ostrExpected`) and `OS__add_stack_el` -/
def ostrTlv (ex : Nat → Tag → Tag) (s : OS) (t : TL) : Out OS :=
  let tlvl : Nat := t.tl + t.ll
  match s.stack with
  | f :: rest =>
    if f.wantNulls != 0 && t.eoc then
      let f1 : Frame := { f with got := f.got + 2, left := if f.left != -1 then f.left - 2 else f.left,
                                 wantNulls := f.wantNulls - 1 }
      let f2 : Frame := if f1.wantNulls == 0 then { f1 with left := 0 } else f1
      .cont (ostrLoopEnd { s with stack := f2 :: rest } (f1.wantNulls == 0 || t.constr)) 2
    else
      let expected : Tag := ex rest.length t.tag
      if t.tag != expected then .ret s .fail 0
      else if t.len + tlvl < 0 then .ret s .fail 0
      else
        let want : Int := if t.len == -1 then 1 else 0
        if f.left != -1 then
          if f.left < (tlvl : Int) + (if t.len == -1 then 0 else t.len) then .ret s .fail 0
          else
            let fl : Int := if t.len == -1 then f.left - tlvl else t.len
            .cont (ostrLoopEnd { s with stack := ⟨fl, tlvl, want, false⟩ :: s.stack } t.constr) tlvl
        else .cont (ostrLoopEnd { s with stack := ⟨t.len, tlvl, want, false⟩ :: s.stack } t.constr) tlvl
  | [] =>
    if t.len + tlvl < 0 then .ret s .fail 0
    else
      let want : Int := if t.len == -1 then 1 else 0
      .cont (ostrLoopEnd { s with stack := [⟨t.len, tlvl, want, false⟩] } t.constr) tlvl

/-- `APPEND` of `chunk` where the first octet goes to `bits_unused` when `chop` -/
def OS.copyIn (s : OS) (chop : Bool) (chunk : Bytes) : OS :=
  { s with unused := if chop then chunk.headD 0 else s.unused, appended := true,
           buf := s.buf ++ (if chop then chunk.drop 1 else chunk) }

/-- the frame after `len` octets were copied in phase 2 -/
def Frame.copied (f : Frame) (chop : Bool) (len : Nat) : Frame :=
  { f with chopped := f.chopped || chop, left := f.left - len, got := f.got + len }

/-- phase 2: copy `chunk` (= the `len = min(size, sel->left)` presented octets) into the string:
    `if(len > 0) { if(BIT && !sel->bits_chopped) {bits_unused = *buf; APPEND(buf+1, len-1); chopped = 1} else APPEND(buf, len);
      ADVANCE(len); sel->left -= len; sel->got += len; }  if(sel->left) RETURN(RC_WMORE); PREV_PHASE; goto phase1;` -/
def ostrCopy2 (bits : Bool) (s : OS) (f : Frame) (rest : List Frame) (chunk : Bytes) : Out OS :=
  let chop := bits && !f.chopped && !chunk.isEmpty
  let s1 := if chunk.isEmpty then s else s.copyIn chop chunk
  let f2 := f.copied chop chunk.length
  if f2.left != 0 then .ret { s1 with stack := f2 :: rest } .more chunk.length
  else .cont { s1 with stack := f2 :: rest, ctx := { s1.ctx with phase := 1 } } chunk.length

/-- the string after phase 3 copied `chunk`; `ctx->left` is what remains -/
def OS.copy3 (bits : Bool) (s : OS) (chunk : Bytes) : OS :=
  let s1 := s.copyIn (bits && !s.appended && !chunk.isEmpty) chunk
  { s1 with ctx := { s1.ctx with left := s.ctx.left - chunk.length } }

/-- phase 3: copy `chunk` (= the `min(size, ctx->left)` presented octets) of a primitive string -/
def ostrCopy3 (bits : Bool) (s : OS) (chunk : Bytes) : Out OS :=
  if (chunk.length : Int) < s.ctx.left then
    if chunk.isEmpty then .ret s .more 0
    else .ret (s.copy3 bits chunk) .more chunk.length
  else
    let s2 := s.copy3 bits chunk
    .cont { s2 with ctx := { s2.ctx with left := 0, phase := 4 } } chunk.length

def ostrIt (tags allTags : List Tag) (bits : Bool) (tagMode : Int) (s : OS) (bs : Bytes) : Out OS :=
  match s.ctx.phase with
  | 0 =>
    let ct := checkTags tags (some s.ctx.step) tagMode (-1) bs
    if ct.rc != .ok then .ret { s with ctx := { s.ctx with step := ct.step } } ct.rc ct.consumed
    else if ct.constr != 0 then
      -- ctx->ptr = _new_stack(); NEXT_PHASE; falls into phase 1 WITHOUT advancing over the tags
      .cont { s with ctx := ⟨1, ct.step, ct.lastLen⟩, appended := false, stack := [] } 0
    else
      .cont { s with ctx := ⟨3, ct.step, ct.lastLen⟩, appended := false } ct.consumed
  | 1 =>
    match s.stack with
    | f :: prev :: rest' =>
      if f.left ≤ 0 && f.wantNulls == 0 then
        if prev.left != -1 && prev.left < f.got then .ret s .fail 0
        else
          let prev' : Frame := { prev with left := if prev.left != -1 then prev.left - f.got else prev.left,
                                           got := prev.got + f.got }
          .cont { s with stack := prev' :: rest' } 0
      else
        match ostrFetch s.selLeft bs with
        | .ret rc => .ret s rc 0
        | .ok t _ => ostrTlv (ostrEx tags allTags bits tagMode) s t
    | [f] =>
      if f.left ≤ 0 && f.wantNulls == 0 then .cont (ostrLoopEnd { s with stack := [] } false) 0
      else
        match ostrFetch s.selLeft bs with
        | .ret rc => .ret s rc 0
        | .ok t _ => ostrTlv (ostrEx tags allTags bits tagMode) s t
    | [] =>
      match ostrFetch s.selLeft bs with
      | .ret rc => .ret s rc 0
      | .ok t _ => ostrTlv (ostrEx tags allTags bits tagMode) s t
  | 2 =>
    match s.stack with
    | [] => .ret s .fail 0
    | f :: rest =>
      if f.left < 0 then .ret s .fail 0          -- assert(sel->left >= 0)
      else ostrCopy2 bits s f rest (bs.take (min bs.length f.left.toNat))
  | 3 =>
    if s.ctx.left < 0 then .ret s .fail 0         -- assert(ctx->left >= 0)
    else ostrCopy3 bits s (bs.take (min bs.length s.ctx.left.toNat))
  | _ => ostrFinish bits s

/-- fuel measure of the OCTET STRING machine -/
def ostrMeasure (s : OS) (bs : Bytes) : Nat :=
  8 * bs.length + 2 * s.stack.length + (match s.ctx.phase with | 0 => 5 | 1 => 2 | 2 => 3 | 3 => 1 | _ => 0) + 1

def ostrDec (tags allTags : List Tag) (bits : Bool) (tagMode : Int) (node : Node) (bs : Bytes) : Node × Rc × Nat :=
  let s := OS.ofNode node
  let r := iterate (ostrIt tags allTags bits tagMode) (ostrMeasure s bs) s bs
  (r.1.toNode, r.2)

/-! ### SEQUENCE_decode_ber -/

/-- member decoders of a constructed type: index → state → presented bytes → result -/
abbrev MDec := Nat → Node → Bytes → Node × Rc × Nat

structure SeqSt where
  ctx : Ctx
  ms : List Node
  /-- the C local `edx` when it differs from `ctx->step >> 1` (after skipping an unknown extension,
      `edx += elements[edx].optional` is not written back to `ctx->step`) -/
  edxOv : Option Nat
deriving Repr, Inhabited

def SeqSt.ofNode (count : Nat) : Node → SeqSt
  | .seq c ms ov => ⟨c, ms, ov⟩
  | _ => ⟨{}, List.replicate count .none, none⟩
def SeqSt.toNode (s : SeqSt) : Node := .seq s.ctx s.ms s.edxOv

/-- store the state of member `i` (the list grows if a saved state was shorter than the member table) -/
def putAt : List Node → Nat → Node → List Node
  | [], 0, v => [v]
  | [], i + 1, v => .none :: putAt [] i v
  | _ :: ms, 0, v => v :: ms
  | m :: ms, i + 1, v => m :: putAt ms i v

def syncEdx (step edx : Nat) : Option Nat := if step / 2 == edx then none else some edx

/-- `_t2e_cmp(key, elem)` -/
def t2eCmp (key : Tag) (keyNo : Nat) (e : T2M) : Int :=
  if key == e.tag then (if keyNo > e.elNo then 1 else 0) else if tagLt key e.tag then -1 else 1

/-- the candidate scan `for(t2m = t2m_f; t2m <= t2m_l; t2m++)` -/
def t2eBest (t2e : List T2M) (edx edxMax : Nat) : Nat → Int → Int → Option Nat → Option Nat
  | 0, _, _, best => best
  | f + 1, i, last, best =>
    if i > last then best
    else
      match (if i < 0 then none else t2e[i.toNat]?) with
      | none => best
      | some e =>
        if e.elNo > edxMax then best
        else if e.elNo < edx then t2eBest t2e edx edxMax f (i + 1) last best
        else t2eBest t2e edx edxMax f (i + 1) last (some e.elNo)

/-- the linear scan over the optional window; `some (inl n)` = found, `some (inr ())` = resort to bsearch -/
def seqLinear (es : List Elem) (tag : Tag) : Nat → Nat → Option (Sum Nat Unit)
  | 0, _ => none
  | f + 1, n =>
    match es[n]? with
    | none => none
    | some e =>
      if tag == e.tag then some (.inl n)
      else if e.anyType then some (.inl n)
      else if e.tag == noTag then some (.inr ())
      else seqLinear es tag f (n + 1)

/-- the end of the linear search window `opt_edx_end` and `use_bsearch` -/
def seqWindow (es : List Elem) (edx : Nat) : Nat × Bool :=
  let count := es.length
  let opt := (es[edx]?.map (·.optional)).getD 0
  let end0 := edx + opt + 1
  if end0 > count then (count, false) else if end0 - edx > 8 then (edx + 8, true) else (end0, false)

/-- "Resort to a binary search over sorted array of tags" and the candidate scan -/
def seqBsearch (es : List Elem) (t2e : List T2M) (tag : Tag) (edx : Nat) : Option Nat :=
  let opt := (es[edx]?.map (·.optional)).getD 0
  match bsearchIdx (t2eCmp tag edx) t2e (t2e.length + 1) 0 t2e.length with
  | none => none
  | some i =>
    match t2e[i]? with
    | none => none
    | some e => t2eBest t2e edx (edx + opt) (t2e.length + 1) ((i : Int) + e.toffFirst) ((i : Int) + e.toffLast) none

/-- "Find the next available type with this tag": `some n` = goto microphase2 with `edx = n` -/
def seqFind (es : List Elem) (t2e : List T2M) (tag : Tag) (edx : Nat) : Option Nat :=
  let w := seqWindow es edx
  match seqLinear es tag (w.1 - edx) edx with
  | some (.inl n) => some n
  | r => if w.2 || r.isSome then seqBsearch es t2e tag edx else none

def seqIt (tags : List Tag) (es : List Elem) (firstExt : Int) (t2e : List T2M) (mdec : MDec) (tagMode : Int)
    (s : SeqSt) (bs : Bytes) : Out SeqSt :=
  let count := es.length
  let left := s.ctx.left
  match s.ctx.phase with
  | 0 =>
    let ct := checkTags tags (some s.ctx.step) tagMode 1 bs
    if ct.rc != .ok then .ret { s with ctx := { s.ctx with step := ct.step } } ct.rc ct.consumed
    else .cont { s with ctx := ⟨1, 0, ct.lastLen⟩, edxOv := none } ct.consumed
  | 1 =>
    let edx := s.edxOv.getD (s.ctx.step / 2)
    if edx ≥ count then .cont { s with ctx := { s.ctx with phase := 3 }, edxOv := none } 0
    else if s.ctx.step % 2 == 1 then micro2 s edx
    else
      let e := es.getD edx default
      let endOk := edx + e.optional == count || inExt firstExt edx
      if left == 0 && endOk then .ret { s with ctx := { s.ctx with phase := 10 } } .ok 0
      else
        match winFetchTag left bs with
        | .ret rc => .ret s rc 0
        | .ok tag tl =>
          match eocTest left bs with
          | .wait rc => .ret s rc 0
          | .yes =>
            if endOk then .cont { s with ctx := { s.ctx with phase := 3 }, edxOv := none } 0       -- goto phase3
            else search s edx e tag tl
          | .no => search s edx e tag tl
  | 3 | 4 =>
    if left == 0 then .ret { s with ctx := { s.ctx with phase := 10 } } .ok 0
    else
      match winFetchTag left bs with
      | .ret rc => .ret s rc 0
      | .ok _ tl =>
        match eocTest left bs with
        | .wait rc => .ret s rc 0
        | .yes => .cont { s with ctx := { s.ctx with left := left + 1, phase := 4 } } 2
        | .no =>
          if !inExt firstExt count || s.ctx.phase == 4 then .ret s .fail 0
          else
            match winSkip left bs tl with
            | .ret rc => .ret s rc 0
            | .ok _ ll => .cont { s with ctx := { s.ctx with left := advLeft left (tl + ll) } } (tl + ll)
  | _ => .ret s .ok 0
where
  /-- "Find the next available type with this tag", else skip an unknown extension or fail -/
  search (s : SeqSt) (edx : Nat) (e : Elem) (tag : Tag) (tl : Nat) : Out SeqSt :=
    match seqFind es t2e tag edx with
    | some n => micro2 { s with ctx := { s.ctx with step := 1 + 2 * n }, edxOv := none } n
    | none =>
      if !inExt firstExt (edx + e.optional) then .ret s .fail 0
      else
        match winSkip s.ctx.left bs tl with
        | .ret rc => .ret s rc 0
        | .ok _ skip =>
          -- ADVANCE(skip + tag_len); ctx->step -= 2; edx--; continue  (then edx++, step += 2)
          .cont { s with ctx := { s.ctx with left := advLeft s.ctx.left (skip + tl) },
                         edxOv := syncEdx s.ctx.step (edx + e.optional) } (skip + tl)
  /-- MICROPHASE 2: invoke the member decoder on `LEFT` octets -/
  micro2 (s : SeqSt) (edx : Nat) : Out SeqSt :=
    let r := callMember (mdec edx) s.ctx.left (s.ms.getD edx .none) bs
    let s1 := { s with ms := putAt s.ms edx r.1 }
    match r.2.1 with
    | .ok =>
      let step' := s.ctx.step / 2 * 2 + 2
      .cont { s1 with ctx := { s1.ctx with left := advLeft s.ctx.left r.2.2, step := step' },
                      edxOv := syncEdx step' (edx + 1) } r.2.2
    | rc => .ret { s1 with ctx := { s1.ctx with left := advLeft s.ctx.left r.2.2 } } rc r.2.2

def seqMeasure (count : Nat) (s : SeqSt) (bs : Bytes) : Nat :=
  (2 * count + 6) * bs.length +
    (match s.ctx.phase with
     | 0 => 2 * count + 5
     | 1 => 2 * count + 4 - min (2 * (s.edxOv.getD (s.ctx.step / 2)) + s.ctx.step % 2) (2 * count + 3)
     | _ => 0) + 1

def seqDec (tags : List Tag) (es : List Elem) (firstExt : Int) (t2e : List T2M) (mdec : MDec) (tagMode : Int)
    (node : Node) (bs : Bytes) : Node × Rc × Nat :=
  let s := SeqSt.ofNode es.length node
  let r := iterate (seqIt tags es firstExt t2e mdec tagMode) (seqMeasure es.length s bs) s bs
  (r.1.toNode, r.2)

/-! ### SET_OF_decode_ber (SET OF and SEQUENCE OF) -/

structure SetOfSt where
  ctx : Ctx
  elems : List Node
  cur : Node
deriving Repr, Inhabited

def SetOfSt.ofNode : Node → SetOfSt
  | .setOf c es cur => ⟨c, es, cur⟩
  | _ => ⟨{}, [], .none⟩
def SetOfSt.toNode (s : SetOfSt) : Node := .setOf s.ctx s.elems s.cur

def setOfIt (tags : List Tag) (el : Elem) (edec : Node → Bytes → Node × Rc × Nat) (tagMode : Int)
    (s : SetOfSt) (bs : Bytes) : Out SetOfSt :=
  let size := bs.length
  let left := s.ctx.left
  let LEFT := leftOf left size
  match s.ctx.phase with
  | 0 =>
    let ct := checkTags tags (some s.ctx.step) tagMode 1 bs
    if ct.rc != .ok then .ret { s with ctx := { s.ctx with step := ct.step } } ct.rc ct.consumed
    else .cont { s with ctx := ⟨1, 0, ct.lastLen⟩ } ct.consumed
  | 1 =>
    if s.ctx.step % 2 == 1 then micro2 s
    else if left == 0 then .ret { s with ctx := { s.ctx with phase := 10 } } .ok 0
    else
      match winFetchTag left bs with
      | .ret rc => .ret s rc 0
      | .ok tag _ =>
        match eocTest left bs with
        | .wait rc => .ret s rc 0
        | .yes => .cont { s with ctx := { s.ctx with phase := 2, step := 0 } } 0          -- break; NEXT_PHASE
        | .no =>
          if el.tag != noTag && tag != el.tag then .ret s .fail 0
          else
            -- a new element: `ctx->ptr` is NULL here (it is zeroed after every RC_OK / RC_FAIL of an element)
            micro2 { s with cur := .none, ctx := { s.ctx with step := s.ctx.step + 1 } }
  | 2 =>
    if left < 0 then
      if LEFT < 2 then
        if LEFT > 0 && bs.headD 0 != 0 then .ret s .fail 0 else .ret s .more 0
      else if bs.headD 1 == 0 && (bs.drop 1).headD 1 == 0 then
        .cont { s with ctx := { s.ctx with left := left + 1 } } 2
      else .ret s .fail 0
    else .ret { s with ctx := { s.ctx with phase := 10 } } .ok 0
  | _ => .ret s .ok 0
where
  micro2 (s : SetOfSt) : Out SetOfSt :=
    let r := callMember edec s.ctx.left s.cur bs
    match r.2.1 with
    | .ok =>
      .cont { s with elems := s.elems ++ [r.1], cur := .none,
                     ctx := { s.ctx with left := advLeft s.ctx.left r.2.2, step := 0 } } r.2.2
    | .more => .ret { s with cur := r.1, ctx := { s.ctx with left := advLeft s.ctx.left r.2.2 } } .more r.2.2
    | .fail => .ret { s with cur := .none } .fail 0       -- ASN_STRUCT_FREE(*elm->type, ctx->ptr); ctx->ptr = 0

def setOfMeasure (s : SetOfSt) (bs : Bytes) : Nat :=
  4 * bs.length + (match s.ctx.phase with | 0 => 3 | 1 => 1 + s.ctx.step % 2 | _ => 0) + 1

def setOfDec (tags : List Tag) (el : Elem) (edec : Node → Bytes → Node × Rc × Nat) (tagMode : Int)
    (node : Node) (bs : Bytes) : Node × Rc × Nat :=
  let s := SetOfSt.ofNode node
  let r := iterate (setOfIt tags el edec tagMode) (setOfMeasure s bs) s bs
  (r.1.toNode, r.2)

/-! ### CHOICE_decode_ber -/

structure ChoiceSt where
  ctx : Ctx
  present : Nat
  m : Node
deriving Repr, Inhabited

def ChoiceSt.ofNode : Node → ChoiceSt
  | .choice c p m => ⟨c, p, m⟩
  | _ => ⟨{}, 0, .none⟩
def ChoiceSt.toNode (s : ChoiceSt) : Node := .choice s.ctx s.present s.m

def choiceIt (tags : List Tag) (_es : List Elem) (extStart : Int) (t2e : List T2M) (mdec : MDec) (tagMode : Int)
    (s : ChoiceSt) (bs : Bytes) : Out ChoiceSt :=
  let left := s.ctx.left
  let tagged := tagMode != 0 || tags.length != 0
  match s.ctx.phase with
  | 0 =>
    if tagged then
      let ct := checkTags tags (some s.ctx.step) tagMode (-1) bs
      if ct.rc != .ok then .ret { s with ctx := { s.ctx with step := ct.step } } ct.rc ct.consumed
      else .cont { s with ctx := ⟨1, 0, ct.lastLen⟩ } ct.consumed
    else .cont { s with ctx := ⟨1, 0, -1⟩ } 0
  | 1 =>
    match winFetchTag left bs with
    | .ret rc => .ret s rc 0
    | .ok tag tl =>
      match bsearchIdx (fun (e : T2M) => cmpTag tag e.tag) t2e (t2e.length + 1) 0 t2e.length with
      | some i => .cont { s with ctx := { s.ctx with phase := 2, step := (t2e.getD i default).elNo } } 0
      | none =>
        if extStart == -1 then .ret s .fail 0
        else
          match winSkip left bs tl with
          | .ret rc => .ret s rc 0
          | .ok _ skip => .ret { s with ctx := { s.ctx with left := advLeft left (skip + tl) } } .ok (skip + tl)
  | 2 =>
    let r := callMember (mdec s.ctx.step) left s.m bs
    let s1 := { s with present := s.ctx.step + 1, m := r.1 }
    match r.2.1 with
    | .ok => .cont { s1 with ctx := { s1.ctx with left := advLeft left r.2.2, phase := 3, step := 0 } } r.2.2
    | rc => .ret { s1 with ctx := { s1.ctx with left := advLeft left r.2.2 } } rc r.2.2
  | 3 =>
    if left > 0 then .ret s .fail 0
    else if left == -1 && !tagged then .ret { s with ctx := { s.ctx with phase := 4, step := 0 } } .ok 0
    else if left < 0 then
      match winFetchTag left bs with
      | .ret rc => .ret s rc 0
      | .ok _ _ =>
        match eocTest left bs with
        | .wait rc => .ret s rc 0
        | .yes => .cont { s with ctx := { s.ctx with left := left + 1 } } 2
        | .no => .ret s .fail 0
    else .ret { s with ctx := { s.ctx with phase := 4, step := 0 } } .ok 0
  | _ => .ret s .ok 0

def choiceMeasure (s : ChoiceSt) (bs : Bytes) : Nat :=
  2 * bs.length + (4 - min s.ctx.phase 4) + 1

def choiceDec (tags : List Tag) (es : List Elem) (extStart : Int) (t2e : List T2M) (mdec : MDec) (tagMode : Int)
    (node : Node) (bs : Bytes) : Node × Rc × Nat :=
  let s := ChoiceSt.ofNode node
  let r := iterate (choiceIt tags es extStart t2e mdec tagMode) (choiceMeasure s bs) s bs
  (r.1.toNode, r.2)

/-! ### the decoder of a descriptor tree -/

mutual
/-- `td->op->ber_decoder(ctx, td, &st, ptr, size, tag_mode)` -/
def dec : TD → Int → Node → Bytes → Node × Rc × Nat
  | .prim tags allTags (.ostr bits), tm, n, bs => ostrDec tags allTags bits tm n bs
  | .prim tags _ k, tm, n, bs => decPrim tags k tm n bs
  | .seq tags ms es fe t2e, tm, n, bs => seqDec tags es fe t2e (fun i => decAt ms es i) tm n bs
  | .setOf tags e el, tm, n, bs => setOfDec tags el (dec e el.tagMode) tm n bs
  | .choice tags ms es ext t2e, tm, n, bs => choiceDec tags es ext t2e (fun i => decAt ms es i) tm n bs
/-- `elements[i].type->op->ber_decoder(…, elements[i].tag_mode)` -/
def decAt : List TD → List Elem → Nat → Node → Bytes → Node × Rc × Nat
  | m :: _, e :: _, 0, n, bs => dec m e.tagMode n bs
  | _ :: ms, _ :: es, i + 1, n, bs => decAt ms es i n bs
  | _, _, _, n, _ => (n, .fail, 0)
end

/-! ### the descriptor trees covered by the restartability theorems (Props/C05Stream.lean) -/

mutual
/-- `tag2el` of every SEQUENCE points into its member table (the compiler guarantees it; `seqFind` would index
    `elements[]` out of bounds otherwise).  Tag chains of any length are covered: `ber_check_tags` consumes a chain
    whole or not at all. -/
def inDomain : TD → Bool
  | .prim _ _ _ => true
  | .seq _ ms es _ t2e => t2e.all (fun e => decide (e.elNo < es.length)) && inDomainL ms
  | .setOf _ e _ => inDomain e
  | .choice _ ms _ _ _ => inDomainL ms
def inDomainL : List TD → Bool
  | m :: ms => inDomain m && inDomainL ms
  | [] => true
end

/-- `ber_decode(0, td, &st, buf, size)`: the restartable decoder of the manual -/
def berDec (td : TD) : Dec Node where
  step n bs := dec td 0 n bs

end Asn1c.Impl.BerStream
