/-
  Impl.CRange — model of /repo/libasn1fix/asn1fix_crange.c (the constraint range algebra) as it is.
  Core Lean only.

  `asn1c_integer_t` is `__int128` in this build: edges carry unbounded `Int`; the two explicit
  `ASN_INTEGER_MIN` / `ASN_INTEGER_MAX` tests of `_range_split` ("We've hit the limit here") are kept.  The REAL "narrowing" field and the
  FROM (permitted alphabet) request type are not modelled (C09 is about INTEGER values and SIZE).

  One definition per C function:
    edgeCmp            _edge_compare
    overlap            _range_overlap           (its two asserts are checked by `intersection`)
    splitIv            _range_split
    intersection       _range_intersection      (split loop carries fuel; see `splitLoop`)
    unionIvs           _range_union             (qsort by (left,right) + the merge scan)
    canonicalize       _range_canonicalize
    mergeIn            _range_merge_in
    edgeWithin/checkEdgesWithin   _edge_is_within/_check_edges_within
    compute            asn1constraint_compute_constraint_range
-/
namespace Asn1c.Impl.CRange

/-- `asn1cnst_edge_t` (type + value; the value of a MIN/MAX edge is always 0 in C and never read) -/
inductive Edge where
  | min
  | max
  | val (z : Int)
deriving DecidableEq, Repr, Inhabited

/-- `_edge_compare`: −1 / 0 / 1 -/
def edgeCmp : Edge → Edge → Int
  | .min, .min => 0
  | .min, _ => -1
  | .max, .max => 0
  | .max, _ => 1
  | .val _, .min => 1
  | .val _, .max => -1
  | .val a, .val b => if a < b then -1 else if a > b then 1 else 0

/-- a leaf range (left, right) -/
structure Iv where
  lo : Edge
  hi : Edge
deriving DecidableEq, Repr, Inhabited

/-- `asn1cnst_range_t` without `narrowing`; `els` = the `elements[]` array (all leaves) -/
structure Range where
  left : Edge := .min
  right : Edge := .max
  els : List Iv := []
  empty : Bool := false
  ext : Bool := false
  incompat : Bool := false
  notOER : Bool := false
  notPER : Bool := false
deriving DecidableEq, Repr, Inhabited

/-- `_range_new()` -/
def Range.new : Range := {}

/-- the C idiom `for(i = -1; i < el_count; i++) { if(i == -1) { if(el_count) continue; r = range; } else r = elements[i]; … }` -/
def Range.leaves (r : Range) : List Iv :=
  if r.els.isEmpty then [⟨r.left, r.right⟩] else r.els

/-- the limits of `asn1c_integer_t` (`__int128`), asn1p_integer.h -/
def ASN_INTEGER_MIN : Int := -170141183460469231731687303715884105728
def ASN_INTEGER_MAX : Int := 170141183460469231731687303715884105727

/-- the `assert(_edge_compare(l, r) <= 0)` of `_range_overlap` -/
def Iv.ordered (i : Iv) : Bool := edgeCmp i.lo i.hi ≤ 0

/-- `_range_overlap` (without its asserts) -/
def overlap (a b : Iv) : Bool :=
  !(edgeCmp a.lo b.hi > 0) && !(edgeCmp a.hi b.lo < 0)

/-- `_range_partial_sort_elements`: by left edge only (stable insertion; at most 3 elements) -/
def insertByLo (x : Iv) : List Iv → List Iv
  | [] => [x]
  | y :: ys => if edgeCmp x.lo y.lo < 0 then x :: y :: ys else y :: insertByLo x ys

def sortByLo (l : List Iv) : List Iv := l.foldl (fun acc x => insertByLo x acc) []

/-- `_range_split(ra, rb)`: `none` = returned 0 (no overlap, or ra within rb). -/
def splitIv (ra rb : Iv) : Option (List Iv) :=
  if !overlap ra rb then none else
  let ll := edgeCmp ra.lo rb.lo
  let rr := edgeCmp ra.hi rb.hi
  if ll ≥ 0 && rr ≤ 0 then none else
  let p1 : List Iv :=
    if ll < 0 then
      match rb.lo with
      | .val v => if v == ASN_INTEGER_MIN then [] else [⟨ra.lo, .val (v - 1)⟩]
      | e => [⟨ra.lo, e⟩]
    else []
  let p2 : List Iv :=
    if rr > 0 then
      match rb.hi with
      | .val v => if v == ASN_INTEGER_MAX then [] else [⟨.val (v + 1), ra.hi⟩]
      | e => [⟨e, ra.hi⟩]
    else []
  let p3 : Iv := ⟨if edgeCmp ra.lo rb.lo < 0 then rb.lo else ra.lo,
                  if edgeCmp ra.hi rb.hi > 0 then rb.hi else ra.hi⟩
  some (sortByLo (p1 ++ p2 ++ [p3]))

/-- `_edge_is_within(range, edge)` over the leaves -/
def edgeWithin (leaves : List Iv) (e : Edge) : Bool :=
  leaves.any fun r => edgeCmp r.lo e ≤ 0 && edgeCmp r.hi e ≥ 0

/-- `_check_edges_within` = 0 -/
def edgesWithin (leaves : List Iv) (w : Iv) : Bool :=
  edgeWithin leaves w.lo && edgeWithin leaves w.hi

/-- The "split range in pieces" loop of `_range_intersection`.
    C keeps one array; element `i` is replaced by nothing and its pieces are appended at the end,
    then the scan continues at the same index.  Here `done` = elements[0..i), `todo` = elements[i..).
    `fuel` bounds the number of loop iterations (`none` = fuel exhausted; never observed). -/
def splitLoop (withs : List Iv) : Nat → List Iv → List Iv → Option (List Iv)
  | _, done, [] => some done
  | 0, _, _ :: _ => none
  | fuel + 1, done, x :: rest =>
    match withs.findSome? (splitIv x) with
    | none => splitLoop withs fuel (done ++ [x]) rest
    | some pieces => splitLoop withs fuel done (rest ++ pieces)

inductive IErr where
  | edge    -- returned −1 (FATAL "is not within a parent constraint range")
  | abort   -- an assert() failed
  | fuel    -- model gave up (split loop fuel)
deriving DecidableEq, Repr

/-- fuel given to the split loop: every successful split uses up one edge of `withs` as a cut
    point, every other iteration retires one element; (|els| + 2·|withs|)·3 + 8 is ample. -/
def splitFuel (els withs : List Iv) : Nat := 3 * (els.length + 2 * withs.length) + 8

/-- the flag propagation at the head of `_range_intersection` (non-OER branch; the OER branch
    only asserts) -/
def interFlags (range wth : Range) (isOer : Bool) : Range :=
  if isOer then range
  else { range with ext := range.ext || wth.ext,
                    notOER := range.notOER || wth.ext,
                    notPER := range.notPER || wth.notPER }

/-- the body of `_range_intersection` after the flag propagation -/
def interCore (range wth : Range) (strict : Bool) : Except IErr Range :=
  let range := { range with empty := range.empty || wth.empty }
  if range.empty then .ok range else
  -- "If this is the only element, insert it into itself as a child"
  let els := range.leaves
  let ws := wth.leaves
  if strict && !(ws.all (edgesWithin els)) then .error .edge else
  -- asserts of _range_overlap (every element meets at least the first `with` leaf)
  if !(els.all Iv.ordered && ws.all Iv.ordered) then .error .abort else
  match splitLoop ws (splitFuel els ws) [] els with
  | none => .error .fuel
  | some pieces =>
    let kept := pieces.filter fun p => ws.any (overlap p)
    .ok { range with els := kept, empty := kept.isEmpty }

/-- `_range_intersection(range, with, strict_edge_check, is_oer)` -/
def intersection (range wth : Range) (strict isOer : Bool) : Except IErr Range :=
  if range.incompat then .error .abort else
  if isOer && (range.ext || range.notOER || wth.ext || wth.notOER) then .error .abort else
  interCore (interFlags range wth isOer) wth strict

/-- `_range_compare`: by left, then right edge -/
def ivLe (a b : Iv) : Bool :=
  let c := edgeCmp a.lo b.lo
  if c < 0 then true else if c > 0 then false else edgeCmp a.hi b.hi ≤ 0

def insertIv (x : Iv) : List Iv → List Iv
  | [] => [x]
  | y :: ys => if ivLe x y then x :: y :: ys else y :: insertIv x ys

/-- the `qsort(..., _range_compare)` of `_range_union` (elements equal under the comparison are
    identical, so every sorting algorithm gives this list) -/
def sortIvs (l : List Iv) : List Iv := l.foldr insertIv []

/-- `(rb->left.value - ra->right.value) == 1` -/
def adjacent (a b : Iv) : Bool :=
  match a.hi, b.lo with
  | .val x, .val y => y - x == 1
  | _, _ => false

/-- the merge scan of `_range_union` over the sorted array: `cur` is `elements[i-1]` (the
    interval that has absorbed everything merged so far), the list is `elements[i..]` -/
def mergeAcc (cur : Iv) : List Iv → List Iv
  | [] => [cur]
  | b :: rest =>
    if overlap cur b then
      mergeAcc ⟨if edgeCmp cur.lo b.lo < 0 then cur.lo else b.lo,
                if edgeCmp cur.hi b.hi > 0 then cur.hi else b.hi⟩ rest
    else if adjacent cur b then mergeAcc ⟨cur.lo, b.hi⟩ rest
    else cur :: mergeAcc b rest

def mergeLoop : List Iv → List Iv
  | [] => []
  | a :: rest => mergeAcc a rest

/-- `_range_union` -/
def unionIvs (l : List Iv) : List Iv := mergeLoop (sortIvs l)

/-- `_range_canonicalize` -/
def canonicalize (r : Range) : Range :=
  if r.els.isEmpty then
    if edgeCmp r.left r.right > 0 then { r with left := r.right, right := r.left } else r
  else
    let u := unionIvs r.els
    match u, u.getLast? with
    | f :: _, some l =>
      { r with left := f.lo, right := l.hi, els := if u.length == 1 then [] else u }
    | _, _ => r   -- unreachable: the union of a non-empty array is non-empty

/-- `_range_merge_in(into, cr)` -/
def mergeIn (into cr : Range) : Range :=
  let ext := into.ext || cr.ext
  { into with notOER := into.notOER || cr.notOER || ext,
              notPER := into.notPER || cr.notPER,
              ext := ext,
              els := into.els ++ cr.leaves }

/-! ### the constraint tree (`asn1p_constraint_t`, the node kinds C09 is about) -/

/-- `asn1p_value_t` of a range end / single value -/
inductive V where
  | num (z : Int)
  | min
  | max
deriving DecidableEq, Repr, Inhabited

/-- `asn1p_constraint_t` -/
inductive CT where
  | value (v : V)            -- ACT_EL_VALUE
  | range (lo hi : V)        -- ACT_EL_RANGE
  | ext                      -- ACT_EL_EXT   `...`
  | size (c : CT)            -- ACT_CT_SIZE  (exactly one element)
  | set (l : List CT)        -- ACT_CA_SET   `(a)(b)` and parenthesised groups
  | int (l : List CT)        -- ACT_CA_INT   `a ^ b`
  | csv (l : List CT)        -- ACT_CA_CSV   `a, ..., b`
  | uni (l : List CT)        -- ACT_CA_UNI   `a | b`
  | exc (l : List CT)        -- ACT_CA_EXC   `a EXCEPT b`
deriving Repr, Inhabited

/-- requested constraint type -/
inductive Req where
  | value   -- ACT_EL_RANGE
  | size    -- ACT_CT_SIZE
deriving DecidableEq, Repr

structure Params where
  req : Req
  /-- `asn1constraint_compatible(expr_type, requested_ct_type, 0) == 1` -/
  compat : Bool := true
  /-- `expr_type & ASN_STRING_NKM_MASK` -/
  nkm : Bool := false
  strictOER : Bool := false     -- CPR_strict_OER_visibility
  strictPER : Bool := false     -- CPR_strict_PER_visibility
  rootOnly : Bool := false      -- CPR_PER_root_only (passed by emit_member_PER_constraints)
deriving Repr

/-- outcome of `asn1constraint_compute_constraint_range` -/
inductive Res where
  | ok (r : Range)
  | einval     -- NULL, errno = EINVAL
  | erange     -- NULL, errno = ERANGE (an extension marker met where the expectation is met)
  | eperm      -- NULL, errno = EPERM  (FATAL: semantic error)
  | abort      -- assert() failed
  | fuel       -- model gave up
deriving DecidableEq, Repr, Inhabited

def Res.ofIErr : IErr → Res
  | .edge => .eperm
  | .abort => .abort
  | .fuel => .fuel

/-- `_range_fill` for ATV_INTEGER / ATV_MIN / ATV_MAX -/
def fillEdge (v : V) (mm : Option Range) : Edge :=
  match v with
  | .num z => .val z
  | .min => (match mm with | some m => m.left | none => .min)
  | .max => (match mm with | some m => m.right | none => .max)

/-- the static default `minmax` of the SIZE request: (0..MAX) -/
def sizeDefault : Range := { left := .val 0, right := .max }

/-- the `minmax` actually used: the SIZE request defaults a NULL one to the static (0..MAX) -/
def mmEff (p : Params) (mm0 : Option Range) : Option Range :=
  match p.req, mm0 with
  | .size, none => some sizeDefault
  | _, m => m

/-- `minmax ? _range_clone(minmax) : _range_new()` -/
def rangeOf (mm : Option Range) : Range :=
  match mm with
  | some m => m
  | none => Range.new

/-- the ACT_EL_VALUE / ACT_EL_RANGE tail of the function -/
def leaf (p : Params) (vmin vmax : V) (mm : Option Range) (range : Range) (ex : Bool) : Res × Bool :=
  if !ex then (.ok { range with incompat := true }, ex) else
  -- FATAL "Empty range …: lower bound is greater than the upper bound" (literal end points only)
  if (match vmin, vmax with | .num a, .num b => decide (a > b) | _, _ => false) then (.eperm, ex) else
  let r : Range := { Range.new with left := fillEdge vmin mm, right := fillEdge vmax mm }
  match mm with
  | none => (.ok (canonicalize r), ex)
  | some m =>
    match intersection m r true p.strictOER with
    | .error e => (Res.ofIErr e, ex)
    | .ok c => (.ok (canonicalize c), ex)

/-- one iteration of the second loop of the CSV/UNI case, given the element's result:
    `inl` = the function returns, `inr` = the loop goes on with the updated range -/
def orStep (range : Range) : Res × Bool → Sum (Res × Bool) (Range × Bool)
  | (.erange, ex') => .inr ({ range with ext := true, notOER := true }, ex')
  | (.ok tmp, ex') =>
    if tmp.incompat then .inl (.ok { canonicalize range with incompat := true }, ex')
    else if tmp.empty then
      .inr ({ range with ext := range.ext || tmp.ext, notOER := range.notOER || tmp.notOER }, ex')
    else if range.empty then
      -- "only empty sets were seen so far: the union starts with this one"
      .inr (mergeIn { range with els := [], empty := false } tmp, ex')
    else .inr (mergeIn range tmp, ex')
  | (e, ex') => .inl (e, ex')

/-- the `break` of the second loop: in an ACT_CA_CSV what follows the extension marker are the
    extension additions, not PER-visible (X.691 10.3) -/
def cutAtMarker (p : Params) (csv : Bool) : Res → Bool
  | .erange => csv && (p.rootOnly || p.strictPER)
  | _ => false

/-- after the second loop: canonicalize; X.691 #9.3.19 under strict PER visibility -/
def orFinish (p : Params) (range : Range) (mm : Option Range) (ex : Bool) : Res × Bool :=
  let r := canonicalize range
  if r.notPER && p.strictPER then
    let d : Range := match mm with | some m => m | none => Range.new
    (.ok { d with notPER := true, incompat := true }, ex)
  else (.ok r, ex)

mutual
/-- `asn1constraint_compute_constraint_range(…, ct, requested, minmax, exmet, flags)`;
    `ex` is `*exmet`, returned updated. -/
def compute (p : Params) (ct : CT) (mm0 : Option Range) (ex : Bool) : Res × Bool :=
  if !p.compat then (.einval, ex) else
  let mm : Option Range := mmEff p mm0
  let range0 : Range := rangeOf mm
  let range1 : Range := if p.nkm then { range0 with notPER := true } else range0
  if range1.notPER && p.strictPER then (.ok range1, ex) else
  let range : Range := if p.req == .size && p.nkm then { range1 with notOER := true } else range1
  if range.notOER && p.strictOER then (.ok range, ex) else
  match ct with
  | .value v => leaf p v v mm range ex
  | .range lo hi => leaf p lo hi mm range ex
  | .ext =>
    if !ex then (.ok { range with ext := true, notOER := true }, ex) else (.erange, ex)
  | .size c =>
    if p.req == .size then
      match compute p c mm true with
      | (.ok t, ex') => (.ok t, ex')
      | (.erange, ex') => (.ok { range with empty := true, ext := true, notOER := true }, ex')
      | (e, ex') => (e, ex')
    else (.ok { range with incompat := true }, ex)
  | .set l => andLoop p true l range mm ex
  | .int l => andLoop p false l range mm ex
  | .csv l => orFirst p true l range mm ex
  | .uni l => orFirst p false l range mm ex
  | .exc l =>
    match l with
    | [] => (.abort, ex)
    | c :: _ => compute p c mm ex

/-- the loop of the ACT_CA_SET / ACT_CA_INT case -/
def andLoop (p : Params) (isSet : Bool) (l : List CT) (range : Range) (mm : Option Range) (ex : Bool) : Res × Bool :=
  match l with
  | [] => (.ok range, ex)
  | c :: rest =>
    match compute p c (if isSet then some range else mm) ex with
    | (.erange, ex') => andLoop p isSet rest { range with ext := true, notOER := true } mm ex'
    | (.ok tmp, ex') =>
      if tmp.incompat then andLoop p isSet rest range mm ex'
      else if tmp.notOER && p.strictOER then andLoop p isSet rest range mm ex'
      else if tmp.notPER && p.strictPER then andLoop p isSet rest range mm ex'
      else
        match intersection range tmp isSet p.strictOER with
        | .error e => (Res.ofIErr e, ex')
        | .ok r => andLoop p isSet rest (canonicalize r) mm ex'
    | (e, ex') => (e, ex')

/-- first loop of the ACT_CA_CSV / ACT_CA_UNI case ("grab the first valid constraint").
    C leaves the index on the element it grabbed, so the second loop computes that element
    again (with the `*exmet` left by the first computation) before going on. -/
def orFirst (p : Params) (csv : Bool) (l : List CT) (range : Range) (mm : Option Range) (ex : Bool) : Res × Bool :=
  match l with
  | [] => (.ok { range with incompat := true }, ex)
  | c :: rest =>
    match compute p c mm ex with
    | (.erange, ex') => orFirst p csv rest { range with ext := true, notOER := true } mm ex'
    | (.ok tmp, ex') =>
      if tmp.incompat then (.ok { range with incompat := true }, ex')
      else
        let r : Range := { tmp with ext := tmp.ext || range.ext,
                                    notOER := tmp.notOER || range.notOER,
                                    empty := tmp.empty || range.empty }
        let out := compute p c mm ex'
        match orStep r out with
        | .inl o => o
        | .inr (r', ex'') =>
          if cutAtMarker p csv out.1 then orFinish p r' mm ex'' else orRest p csv rest r' mm ex''
    | (e, ex') => (e, ex')

/-- second loop ("merge with the rest of them") + the final canonicalisation -/
def orRest (p : Params) (csv : Bool) (l : List CT) (range : Range) (mm : Option Range) (ex : Bool) : Res × Bool :=
  match l with
  | [] => orFinish p range mm ex
  | c :: rest =>
    let out := compute p c mm ex
    match orStep range out with
    | .inl o => o
    | .inr (r', ex') =>
      if cutAtMarker p csv out.1 then orFinish p r' mm ex' else orRest p csv rest r' mm ex'

end

/-- top-level call (`exmet == NULL`): the expectation is met from the start for value requests.
    `ct = none` is a NULL `combined_constraints`. -/
def computeTop (p : Params) (ct : Option CT) : Res :=
  if !p.compat then .einval else
  match ct with
  | some c => (compute p c none (p.req == .value)).1
  | none =>
    let range0 : Range := match p.req with | .size => sizeDefault | .value => Range.new
    .ok (if p.nkm then { range0 with notPER := true } else range0)

end Asn1c.Impl.CRange
