import Asn1cModel.Impl.UnberTlv
/-
  Impl (C20): asn1-tools/enber/enber.c — `process` (line splitting) and `process_line`
  (the character-level parser of one line of unber output and the TL encoder), default
  options (`no_validation = 0`).

  Text is `Bytes` (codes 1..255; NUL-free: C works on NUL-terminated strings, the end of
  the list plays the role of the terminating NUL).  `char` is signed on this platform:
  `*line < ' '` is true for codes < 32 and for codes ≥ 128.
  `exit(EX_DATAERR)` is the outcome `err`, which keeps the octets already written to stdout.
  Core Lean only.
-/
namespace Asn1c.Impl.Enber
open Asn1c Asn1c.Impl.UnberTlv

/-- why `process_line` called `exit(EX_DATAERR)` -/
inductive EErr where
  | missingOpen      -- "Missing '<' after whitespace"
  | charset          -- "Invalid charset"
  | missingClose     -- "Missing '>'"
  | multipleTags     -- "Multiple tags per line"
  | badForm          -- "Expected \"C\"/\"P\"/\"I\" as the XML tag name"
  | pretty           -- "Detected pretty-printing of primitive types"
  | noAttr           -- "Mandatory attribute %s is not found"
  | badTLV           -- "Invalid TL or V value"
  | badClass         -- "Invalid tag class"
  | badTagValue      -- "Invalid tag value"
  | cannotEncodeTL   -- "Cannot encode TL at line %d in the given number of bytes"
  | badEntity        -- "Expected \"&#xNN;\""
  | valueLength      -- "Could not encode value of %ld chars at line %d in %ld bytes"
  | overread         -- the scanner would step over the terminating NUL (unreachable from `enber`)
deriving DecidableEq, Repr

/-- outcome of one `process_line`: octets written to stdout, and the error if it exited -/
structure LineRes where
  out : Bytes
  err : Option EErr
deriving DecidableEq, Repr

def isDigit (c : Nat) : Bool := 48 ≤ c && c ≤ 57

/-- `for(; *line == ' ' || *line == '\t'; line++);` -/
def skipWs : Bytes → Bytes
  | 32 :: r => skipWs r
  | 9 :: r => skipWs r
  | l => l

/-- `for(; *line && *line != '>'; line++) if(*line < ' ') exit`: scans from `op`; returns the
    characters before the `'>'` (reversed accumulator `acc`) and those after it. -/
def scanClose : Bytes → Bytes → Except EErr (Bytes × Bytes)
  | [], _ => .error .missingClose
  | c :: rest, acc =>
    if c = 62 then .ok (acc.reverse, rest)
    else if c < 32 ∨ c ≥ 128 then .error .charset
    else scanClose rest (c :: acc)

/-- `List.isPrefixOf` on bytes, spelled out for easy unfolding -/
def isPrefix : Bytes → Bytes → Bool
  | [], _ => true
  | _ :: _, [] => false
  | a :: as, b :: bs => a == b && isPrefix as bs

/-- `strstr(s, pat)`: the suffix of `s` starting at the first occurrence of `pat` -/
def findSub (pat : Bytes) : Bytes → Option Bytes
  | [] => if pat.isEmpty then some [] else none
  | c :: s => if isPrefix pat (c :: s) then some (c :: s) else findSub pat s

/-- the digit loop of `strtoul(.., 10)`: (value, overflowed) -/
def strtoulDigits : Bytes → Nat → Bool → Nat × Bool
  | [], acc, ovf => (acc, ovf)
  | c :: rest, acc, ovf =>
    if isDigit c then
      let acc' := acc * 10 + (c - 48)
      if acc' ≥ 2 ^ 64 then strtoulDigits rest (2 ^ 64 - 1) true
      else strtoulDigits rest acc' ovf
    else (acc, ovf)

def isSpace (c : Nat) : Bool := c == 32 || (9 ≤ c && c ≤ 13)

def skipSpace : Bytes → Bytes
  | c :: r => if isSpace c then skipSpace r else c :: r
  | [] => []

/-- glibc `strtoul(s, 0, 10)`: (value as unsigned long, errno == ERANGE) -/
def strtoul (s0 : Bytes) : Nat × Bool :=
  let s := skipSpace s0
  let neg := s.head? == some 45                                         -- '-'
  let s' := if s.head? == some 45 || s.head? == some 43 then s.tail else s   -- '-' / '+'
  let r := strtoulDigits s' 0 false
  if r.2 then (2 ^ 64 - 1, true)
  else if neg then ((2 ^ 64 - r.1) % 2 ^ 64, false) else (r.1, false)

/-- tag-class letter after `T="[` -/
def tagClassOf : Bytes → Option Nat
  | c :: _ =>
    if c = 85 then some 0            -- 'U'NIVERSAL
    else if c = 80 then some 3       -- 'P'RIVATE
    else if c = 65 then some 1       -- 'A'PPLICATION
    else if isDigit c then some 2    -- context
    else none
  | [] => none

/-- `for(;; tcl_pos++)`: advance to the first digit; `'"'` or end of string → nothing -/
def seekDigits : Bytes → Option Bytes
  | [] => none
  | c :: r => if c = 34 then none else if isDigit c then some (c :: r) else seekDigits r

def hexVal (c : Nat) : Option Nat :=
  if 48 ≤ c ∧ c ≤ 57 then some (c - 48)
  else if 65 ≤ c ∧ c ≤ 70 then some (c - 55)
  else if 97 ≤ c ∧ c ≤ 102 then some (c - 87)
  else none

/-- the value loop `for(len = 0, cl++; *cl && *cl != '<'; cl++, len++)`:
    returns the octets written (appended to `acc`, reversed), the count `len`, an error. -/
def valueLoop : Nat → Bytes → Bytes → Nat → Bytes × Nat × Option EErr
  | 0, _, acc, len => (acc, len, some .overread)       -- fuel; never (fuel = length + 1)
  | _ + 1, [], acc, len => (acc, len, none)
  | fuel + 1, c :: rest, acc, len =>
    if c = 60 then (acc, len, none)
    else if c ≠ 38 then valueLoop fuel rest (c :: acc) (len + 1)
    else match rest with
      | [] => (acc, len, some .overread)
      | c1 :: rest1 =>
        if c1 ≠ 35 then valueLoop fuel rest1 (c1 :: acc) (len + 1)
        else match rest1 with
          | 120 :: h1 :: h2 :: rest2 =>
            (match hexVal h1, hexVal h2 with
             | some a, some b =>
               (match rest2 with
                | 59 :: rest3 => valueLoop fuel rest3 ((a * 16 + b) :: acc) (len + 1)
                | _ => (acc, len, some .badEntity))
             | _, _ => (acc, len, some .badEntity))
          | _ => (acc, len, some .badEntity)

/-- `buf[0] |= 0x20` -/
def setConstructed : Bytes → Bytes
  | b :: r => (if b / 32 % 2 = 1 then b else b + 32) :: r
  | [] => []

/-- the attribute parsing part of `process_line` (after the opening tag `<C|P|I …` has been
    isolated): `tagPart` = the characters from `'<'` up to (excluding) `'>'`; `constr` = 0 (P),
    1 (C), 2 (I).  Result: `(opt_tl_len, tlv_len, tlv_tag)`. -/
def parseAttrs (constr : Nat) (tagPart : Bytes) : Except EErr (Nat × Nat × Nat) :=
  if tagPart.getLast? = some 70 then .error .pretty else               -- cl[-1] == 'F'
  let tclPos := findSub [84, 61, 34, 91] tagPart      -- strstr(op, "T=\"[")
  let tlPos := findSub [84, 76, 61, 34] tagPart       -- strstr(op, "TL=\"")
  let vPos := findSub [86, 61, 34] tagPart            -- strstr(op, "V=\"")
  match tclPos with
  | none => .error .noAttr
  | some tcl =>
  if vPos.isNone ∧ constr ≠ 2 then .error .noAttr else
  let tlr : Nat × Bool := match tlPos with
    | some t => strtoul (t.drop 4)
    | none => (0, false)
  let vr : Nat × Bool := if constr = 2 then (0, false) else
    match vPos with
    | some v => strtoul (v.drop 3)
    | none => (0, false)
  -- errno is cleared once before both calls; opt_tl_len, tlv_len are signed 64-bit
  if tlr.2 = true ∨ vr.2 = true ∨ (tlr.1 ≠ 0 ∧ (tlr.1 < 2 ∨ tlr.1 ≥ 2 ^ 63)) ∨ vr.1 ≥ 2 ^ 63 then .error .badTLV else
  let tcl4 := tcl.drop 4
  match tagClassOf tcl4 with
  | none => .error .badClass
  | some tclass =>
  match seekDigits tcl4 with
  | none => .error .badTagValue
  | some ds =>
  let tvr := strtoul ds
  if tvr.1 > 2 ^ 32 - 1 ∨ tvr.2 = true then .error .badTagValue else
  .ok (tlr.1, vr.1, tvr.1 * 4 % 2 ^ 32 + tclass)   -- ((tag_value << 2) | tag_class), 32-bit

/-- the encoding part of `process_line`: serialize T and L into `buf[32]`, compare with the TL
    attribute, set the constructed bit, write; for a primitive TLV decode the value text -/
def emitTLV (constr optTl vlen tlvTag : Nat) (after : Bytes) : LineRes :=
  let tr := tagSerialize tlvTag 32
  let br : Bytes × Nat :=
    if constr = 2 then (tr.1 ++ [128], tr.2 + 1)
    else
      let lr := lenSerialize vlen (32 - tr.2)
      (tr.1 ++ lr.1, tr.2 + lr.2)
  if optTl ≠ 0 ∧ br.2 ≠ optTl then ⟨[], some .cannotEncodeTL⟩ else
  let buf := if constr ≠ 0 then setConstructed br.1 else br.1
  if constr ≠ 0 then ⟨buf, none⟩ else
  let vl := valueLoop (after.length + 1) after [] 0
  let out := buf ++ vl.1.reverse
  match vl.2.2 with
  | some e => ⟨out, some e⟩
  | none => if vl.2.1 ≠ vlen then ⟨out, some .valueLength⟩ else ⟨out, none⟩

/-- the part of `process_line` after the opening tag `<C|P|I …` has been isolated;
    `after` = what follows `'>'` -/
def encodeTag (constr : Nat) (tagPart after : Bytes) : LineRes :=
  match parseAttrs constr tagPart with
  | .error e => ⟨[], some e⟩
  | .ok (optTl, vlen, tlvTag) => emitTLV constr optTl vlen tlvTag after

/-- `process_line(fname, line, lineno)` -/
def processLine (line0 : Bytes) : LineRes :=
  let line := skipWs line0
  match line with
  | 60 :: _ =>
    (match scanClose line [] with
     | .error e => ⟨[], some e⟩
     | .ok (tagPart, after) =>
       match tagPart[1]? with
       | some 47 =>                                     -- op[1] == '/': closing tag
         if after.contains 60 then ⟨[], some .multipleTags⟩
         else if tagPart[2]? = some 73 then ⟨[0, 0], none⟩   -- "</I": end-of-content octets
         else ⟨[], none⟩
       | some 33 => ⟨[], none⟩                          -- '!'
       | some 63 => ⟨[], none⟩                          -- '?'
       | some 67 => encodeTag 1 tagPart after           -- 'C'
       | some 80 => encodeTag 0 tagPart after           -- 'P'
       | some 73 => encodeTag 2 tagPart after           -- 'I'
       | _ => ⟨[], some .badForm⟩)
  | 13 :: _ => ⟨[], none⟩
  | 10 :: _ => ⟨[], none⟩
  | 35 :: _ => ⟨[], none⟩                               -- '#'
  | 45 :: 45 :: _ => ⟨[], none⟩                         -- "--"
  | _ => ⟨[], some .missingOpen⟩

/-- `fgets`-based line splitting of `process`: lines with their `'\n'`; a last fragment
    without `'\n'` is never handed to `process_line`. `cur` is the reversed current line. -/
def splitLines : Bytes → Bytes → List Bytes
  | [], _ => []
  | c :: rest, cur =>
    if c = 10 then (c :: cur).reverse :: splitLines rest []
    else splitLines rest (c :: cur)

/-- run `process_line` over the lines until one exits -/
def runLines : List Bytes → LineRes
  | [] => ⟨[], none⟩
  | l :: ls =>
    let r := processLine l
    match r.err with
    | some e => ⟨r.out, some e⟩
    | none =>
      let r2 := runLines ls
      ⟨r.out ++ r2.out, r2.err⟩

/-- `enber file` where the file has contents `text`: stdout octets and error (exit 65) -/
def enber (text : Bytes) : LineRes := runLines (splitLines text [])

end Asn1c.Impl.Enber
