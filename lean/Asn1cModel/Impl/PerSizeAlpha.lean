/-
  Impl model of the two decisions the UPER encoders of skeletons/ take from an `asn_per_constraint_t` before
  the count / the characters are written (core Lean only):

  * is the count of a SET OF / SEQUENCE OF / OCTET STRING / known-multiplier string inside the root of its
    (extensible) SIZE constraint — `not_in_root` of `SET_OF_encode_uper` / `SEQUENCE_OF_encode_uper`, the size
    test of `OCTET_STRING_encode_uper` (finding F112 repaired: a semi-constrained root `SIZE(lb..MAX,...)` has no
    upper bound; the `upper_bound` field of such a table row is 0 and is not looked at);
  * are the characters of a known-multiplier string written by value or by index —
    the test of `OCTET_STRING_per_put_characters` / `OCTET_STRING_per_get_characters` (finding F114 repaired:
    `ub < 2^unit_bits`, X.691 §30.5.4 `ub ≤ 2^b − 1`).

  The C expressions are inside static / large functions, so there is no line-protocol op for them: they are tied
  to the code through the reference codec — `Props.C02Uper.size_head_eq_spec` / `chars_by_value_eq_spec` say the
  decisions are those of `L2.encSized` / `L2.byValue`, and the K leg of C02 compares C's bytes with the reference
  on the boundary shapes of `vlib/props/c02_uper.py` (`FSoM*`, `FStM*`, `FOsM*`, `FOsH`, `FSoH`, `FAl9`–`FAl14`).
-/
namespace Asn1c.Impl.PerSizeAlpha

/-- the fields of `asn_per_constraint_t` the size tests read -/
structure Ct where
  semi : Bool      -- flags & APC_SEMI_CONSTRAINED
  ext : Bool       -- flags & APC_EXTENSIBLE
  ebits : Int      -- effective_bits
  lb : Int         -- lower_bound
  ub : Int         -- upper_bound
deriving Repr, DecidableEq

/-- `count < ct->lower_bound || (!(ct->flags & APC_SEMI_CONSTRAINED) && count > ct->upper_bound)` -/
def notInRoot (ct : Ct) (n : Int) : Bool :=
  decide (n < ct.lb) || (!ct.semi && decide (n > ct.ub))

/-- the expression before the repair of F112: `count < lower_bound || count > upper_bound` -/
def notInRootF112 (ct : Ct) (n : Int) : Bool :=
  decide (n < ct.lb) || decide (n > ct.ub)

/-- `SET_OF_encode_uper` / `SEQUENCE_OF_encode_uper` up to the count: the extension bit written (if any) and
    whether the count follows as a constrained whole number in `effective_bits` bits (`true`) or as an
    unconstrained length determinant (`false`); `none` = ASN__ENCODE_FAILED -/
def setOfHead (ct : Ct) (n : Int) : Option (List Bool × Bool) :=
  if ct.ext then some ([notInRoot ct n], !notInRoot ct n && decide (0 ≤ ct.ebits))
  else if notInRoot ct n && decide (0 ≤ ct.ebits) then none
  else some ([], decide (0 ≤ ct.ebits))

/-- the same part of `OCTET_STRING_encode_uper` (strings: OCTET STRING and the known-multiplier kinds) -/
def octetStringHead (ct : Ct) (n : Int) : Option (List Bool × Bool) :=
  let inext := (decide (0 ≤ ct.ebits) || ct.ext) && notInRoot ct n
  if inext && !ct.ext then none
  else some (if ct.ext then [inext] else [], decide (0 ≤ ct.ebits) && !inext)

/-- `unit_bits > 0 && (unsigned long)ub < ((unsigned long)2 << (unit_bits - 1))` (`unsigned long` = 64 bits):
    the characters are written by value -/
def charsByValue (unitBits ub : Nat) : Bool :=
  decide (0 < unitBits) && decide (ub % 2 ^ 64 < (2 * 2 ^ (unitBits - 1)) % 2 ^ 64)

/-- the test before the repair of F114: `ub <= 2 << (unit_bits - 1)` -/
def charsByValueF114 (unitBits ub : Nat) : Bool :=
  decide (0 < unitBits) && decide (ub % 2 ^ 64 ≤ (2 * 2 ^ (unitBits - 1)) % 2 ^ 64)

/-- the code `OCTET_STRING_per_put_characters` writes (in `unit_bits` bits) for the character value `v` of a
    type whose table row is `lb..ub` and that has no generated value-to-code map (a permitted alphabet that is one
    range): by value `lb := 0`, then `ch = value - lb; if(ch < 0 || ch > ub - lb) return -1` -/
def putCharCode (unitBits lb ub v : Nat) : Option Nat :=
  if charsByValue unitBits ub then (if v ≤ ub then some v else none)
  else if v < lb ∨ v > ub then none else some (v - lb)

/-- the character `OCTET_STRING_per_get_characters` stores for `code` (same kind of type):
    `ch = code + lb; if(ch > ub) return 1` -/
def getCharValue (unitBits lb ub code : Nat) : Option Nat :=
  if charsByValue unitBits ub then (if code ≤ ub then some code else none)
  else if code + lb > ub then none else some (code + lb)

end Asn1c.Impl.PerSizeAlpha
