import Asn1cModel.Base
import Asn1cModel.Impl.Integer
/-
  Impl model of skeletons/OBJECT_IDENTIFIER.c and RELATIVE-OID.c arc helpers.
  `asn_oid_arc_t` is `uint32_t`; each definition mirrors one C function *as it is*
  (`get_single_arc` with the overflow test of the F6 repair).
  Core Lean only.
-/
namespace Asn1c.Impl.Oid
open Asn1c

/-- `ASN_OID_ARC_MAX` = `~((uint32_t)0)` -/
def arcMax : Nat := 4294967295

/-- outcome of `OBJECT_IDENTIFIER_get_single_arc` -/
inductive ArcRes where
  /-- return 0: the buffer is empty -/
  | none
  /-- return `rd` > 0 with `*ret_value = v` -/
  | ok (v : Nat) (rd : Nat)
  /-- return -1, errno = EINVAL (ran out of octets inside a sub-identifier) -/
  | einval
  /-- return -1, errno = ERANGE (the sub-identifier does not fit `asn_oid_arc_t`) -/
  | erange
deriving DecidableEq, Repr

/-- the `for(accum = 0; b < arcend; b++)` loop.  `accum` is a `uint32_t`.  Before seven more bits are
    shifted in, `if(accum > (ASN_OID_ARC_MAX >> 7))` reports the overflow (ERANGE); past that test
    `accum << 7` keeps all its bits (the `% 2^32` of the 32-bit shift is the identity, see
    `Proofs.Oid.getSingleLoop_subid`).  The low seven bits of the shifted value are zero, so `|` is `+`. -/
def getSingleLoop (accum : Nat) (pos : Nat) : Bytes → ArcRes
  | [] => .einval
  | b :: bs =>
    if accum > arcMax / 128 then .erange
    else
    let accum' := accum * 128 % 4294967296 + b % 128
    if b / 128 % 2 = 0 then .ok accum' (pos + 1)
    else getSingleLoop accum' (pos + 1) bs

/-- `OBJECT_IDENTIFIER_get_single_arc(arcbuf, arcbuf_len, &value)` -/
def getSingleArc (bs : Bytes) : ArcRes :=
  if bs = [] then .none else getSingleLoop 0 0 bs

/-- `OBJECT_IDENTIFIER_get_first_arcs`: splits the first sub-identifier into (arc0, arc1) -/
def splitFirst (value : Nat) : Nat × Nat :=
  if value ≥ 80 then (2, value - 80)
  else if value ≥ 40 then (1, value - 40)
  else (0, value)

/-- result of the `*_get_arcs` functions: all arcs found (the C function stores the first
    `arc_slots` of them and returns their number) -/
inductive GetRes where
  | ok (arcs : List Nat)
  /-- return -1 without touching errno (empty OBJECT IDENTIFIER) -/
  | fail
  | einval
  | erange
deriving DecidableEq, Repr

/-- the `for(off = rd; ; )` loop shared by `OBJECT_IDENTIFIER_get_arcs` and `RELATIVE_OID_get_arcs`.
    `fuel` bounds the number of iterations (each one consumes ≥ 1 octet; `bs.length + 1` suffices).
    The loop only ends through `rd == 0`, i.e. with `off == st->size`, so the C code's final
    `off != st->size` test never fires. -/
def getArcsLoop : Nat → Bytes → GetRes
  | 0, _ => .fail
  | fuel + 1, bs =>
    match getSingleArc bs with
    | .none => .ok []
    | .ok v rd =>
      (match getArcsLoop fuel (bs.drop rd) with
       | .ok rest => .ok (v :: rest)
       | e => e)
    | .einval => .einval
    | .erange => .erange

/-- `RELATIVE_OID_get_arcs` on a non-NULL buffer -/
def roidGetArcs (bs : Bytes) : GetRes := getArcsLoop (bs.length + 1) bs

/-- `OBJECT_IDENTIFIER_get_arcs` on a non-NULL buffer -/
def getArcs (bs : Bytes) : GetRes :=
  match getSingleArc bs with
  | .none => .fail            -- rd <= 0 → return -1
  | .einval => .einval
  | .erange => .erange
  | .ok value rd =>
    let (a0, a1) := splitFirst value
    match getArcsLoop (bs.length + 1) (bs.drop rd) with
    | .ok rest => .ok (a0 :: a1 :: rest)
    | e => e

/-- the byte-producing loop of `OBJECT_IDENTIFIER_set_single_arc`
    (`for(b = scratch_end, mask = 0; ; mask = 0x80, b--)`), writing right to left -/
def setSingleLoop (value mask : Nat) (acc : Bytes) : Bytes :=
  if _h : value / 128 = 0 then (mask + value % 128) :: acc
  else setSingleLoop (value / 128) 128 ((mask + value % 128) :: acc)
termination_by value
decreasing_by omega

/-- `OBJECT_IDENTIFIER_set_single_arc(arcbuf, arcbuf_len, value)`: `none` = return -1 -/
def setSingleArc (buflen : Nat) (value : Nat) : Option Bytes :=
  let r := setSingleLoop value 0 []
  if r.length > buflen then none else some r

inductive SetRes where
  | ok (bs : Bytes)
  | einval
  | erange
  /-- return -1 from the buffer-size test of `set_single_arc` (see `setArcs_never_fail`) -/
  | fail
deriving DecidableEq, Repr

/-- the `for(i = ..; i < arc_slots; i++)` loop; `size` is the remaining room in the buffer -/
def setArcsLoop (size : Nat) (out : Bytes) : List Nat → SetRes
  | [] => .ok out
  | a :: rest =>
    match setSingleArc size a with
    | none => .fail
    | some w => setArcsLoop (size - w.length) (out ++ w) rest

/-- `OBJECT_IDENTIFIER_set_arcs(st, arcs, arc_slots)`; every arc is a `uint32_t` -/
def setArcs (arcs : List Nat) : SetRes :=
  match arcs with
  | arc0 :: arc1 :: rest =>
    if arc0 ≤ 1 ∧ arc1 ≥ 40 then .erange
    else if arc0 = 2 ∧ arc1 > arcMax - 80 then .erange
    else if arc0 > 2 then .erange
    else
      let size := 5 * arcs.length      -- ((sizeof(asn_oid_arc_t) * CHAR_BIT + 6) / 7) * arc_slots
      match setSingleArc size ((arc0 * 40 + arc1) % 4294967296) with
      | none => .fail
      | some w => setArcsLoop (size - w.length) w rest
  | _ => .einval

/-- `RELATIVE_OID_set_arcs(st, arcs, arcs_count)` -/
def roidSetArcs (arcs : List Nat) : SetRes := setArcsLoop (5 * arcs.length) [] arcs

/-! ### `OBJECT_IDENTIFIER_parse_arcs` -/

inductive PState where
  | leadspace | tailspace | aftervalue | waitdigits
deriving DecidableEq, Repr

inductive ParseRes where
  /-- return `arcs.length` (≥ 0); `endPos` = `*opt_oid_text_end - oid_text` -/
  | ok (arcs : List Nat) (endPos : Nat)
  | einval (endPos : Nat)
  | erange (endPos : Nat)
deriving DecidableEq, Repr

def isSpace (c : Nat) : Bool := c = 0x09 || c = 0x0a || c = 0x0d || c = 0x20
def isDigitC (c : Nat) : Bool := 0x30 ≤ c && c ≤ 0x39

/-- the "Finalize last arc" switch -/
def parseFinal (st : PState) (pos : Nat) (arcs : List Nat) : ParseRes :=
  match st with
  | .leadspace => .ok [] pos          -- return 0 (num_arcs is necessarily 0)
  | .waitdigits => .einval pos
  | .aftervalue | .tailspace => .ok arcs pos

/-- the character loop.  `txt` is the text from `oid_text` to `oid_end`, `pos` its offset,
    `arcs` the arcs captured so far (in order).  `fuel`: each iteration consumes ≥ 1 char. -/
def parseLoop : Nat → PState → Nat → List Nat → List Nat → ParseRes
  | _, st, pos, arcs, [] => parseFinal st pos arcs
  | 0, _, pos, _, _ :: _ => .einval pos
  | fuel + 1, st, pos, arcs, c :: rest =>
    if isSpace c then
      match st with
      | .leadspace | .tailspace => parseLoop fuel st (pos + 1) arcs rest
      | .aftervalue => parseLoop fuel .tailspace (pos + 1) arcs rest
      | .waitdigits => parseFinal .waitdigits pos arcs       -- break; break;
    else if c = 0x2e then
      match st with
      | .leadspace | .tailspace | .waitdigits => .einval pos
      | .aftervalue => parseLoop fuel .waitdigits (pos + 1) arcs rest
    else if isDigitC c then
      match st with
      | .tailspace | .aftervalue => .einval pos
      | .leadspace | .waitdigits =>
        -- _OID_CAPTURE_ARC: asn_strtoul_lim(oid_text, &endp, &value)
        let r := Asn1c.Impl.Integer.strtoul (c :: rest)
        match r.res, r.val with
        | .ok, some v | .extra, some v =>
          if v ≤ (arcMax : Int) then
            parseLoop fuel .aftervalue (pos + r.endPos) (arcs ++ [v.toNat]) ((c :: rest).drop r.endPos)
          else .erange pos
        | .range, _ => .erange pos
        | _, _ => .einval pos
    else parseFinal .waitdigits pos arcs       -- default: state = ST_WAITDIGITS; break; break;

/-- `OBJECT_IDENTIFIER_parse_arcs(oid_text, len, arcs, arcs_count, &end)` with non-NULL text, `len ≥ 0` -/
def parseArcs (txt : List Nat) : ParseRes := parseLoop (txt.length + 1) .leadspace 0 [] txt

end Asn1c.Impl.Oid
