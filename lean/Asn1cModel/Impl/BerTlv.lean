import Asn1cModel.Base
/-
  Impl models of skeletons/ber_tlv_tag.c and skeletons/ber_tlv_length.c
  (ber_tlv_tag_t = 32-bit unsigned: `(number << 2) | class`; ber_tlv_len_t = 64-bit signed).
-/
namespace Asn1c.Impl.BerTlv
open Asn1c

structure Tag where
  cls : Nat    -- 0..3
  num : Nat    -- < 2^30
deriving DecidableEq, Repr, Inhabited

/-- outcome of the fetch functions: `ok v used` (ssize_t > 0), `more` (0), `fail` (-1) -/
inductive Fetch (α : Type) where
  | ok (v : α) (used : Nat)
  | more
  | fail
deriving DecidableEq, Repr

/-- the continuation-octet loop of `ber_fetch_tag`; `skipped` = octets consumed so far -/
def fetchTagLoop (cls : Nat) (val : Nat) (skipped : Nat) : Bytes → Fetch Tag
  | [] => .more
  | oct :: rest =>
    if oct ≥ 128 then
      let val' := val * 128 + oct % 128
      if val' / 2 ^ 23 ≠ 0 then .fail else fetchTagLoop cls val' (skipped + 1) rest
    else .ok ⟨cls, val * 128 + oct⟩ (skipped + 1)

/-- `ber_fetch_tag(ptr, size, &tag)` -/
def fetchTag : Bytes → Fetch Tag
  | [] => .more
  | b :: rest =>
    let cls := b / 64
    if b % 32 ≠ 31 then .ok ⟨cls, b % 32⟩ 1
    else fetchTagLoop cls 0 1 rest

/-- `BER_TLV_CONSTRUCTED(ptr)` -/
def isConstructed (b : Nat) : Bool := b / 32 % 2 == 1

/-- number of base-128 groups computed by the `required_size` loop of `ber_tlv_tag_serialize` -/
def tagGroups (tval : Nat) : Nat :=
  if tval / 2 ^ 7 = 0 then 1 else if tval / 2 ^ 14 = 0 then 2 else if tval / 2 ^ 21 = 0 then 3
  else if tval / 2 ^ 28 = 0 then 4 else 5

/-- `k` base-128 groups of `tval`, high bit set on all but the last -/
def tagGroupOctets : Nat → Nat → Bytes
  | 0, _ => []
  | 1, tval => [tval % 128]
  | k + 2, tval => (128 + tval / 2 ^ (7 * (k + 1)) % 128) :: tagGroupOctets (k + 1) tval

/-- `ber_tlv_tag_serialize` into a large enough buffer (constructed bit never set here) -/
def tagSerialize (t : Tag) : Bytes :=
  if t.num ≤ 30 then [t.cls * 64 + t.num]
  else (t.cls * 64 + 31) :: tagGroupOctets (tagGroups t.num) t.num

/-- return value of `ber_tlv_tag_serialize` (required size) and octets written for a buffer of `size` -/
def tagSerializeSized (t : Tag) (size : Nat) : Nat × Bytes :=
  if t.num ≤ 30 then (1, if size > 0 then [t.cls * 64 + t.num] else [])
  else
    let req := tagGroups t.num
    let first := if size > 0 then [t.cls * 64 + 31] else []
    if size - 1 < req then (req + 1, first)
    else (req + 1, first ++ tagGroupOctets req t.num)

/-- the length-octet loop of `ber_fetch_length`: `oct` octets still to read -/
def fetchLenLoop (len : Nat) (skipped : Nat) : Nat → Bytes → Fetch Int
  | 0, _ => if len > 2 ^ 62 - 1 then .fail else .ok len skipped     -- RSSIZE_MAX = SSIZE_MAX >> 1
  | _ + 1, [] => .more
  | oct + 1, b :: bs =>
      if len / 2 ^ 55 ≠ 0 then .fail else fetchLenLoop (len * 256 + b) (skipped + 1) oct bs

/-- `ber_fetch_length(is_constructed, buf, size, &len)`; `-1` = indefinite -/
def fetchLength (constructed : Bool) : Bytes → Fetch Int
  | [] => .more
  | oct :: bs =>
    if oct < 128 then .ok oct 1
    else if constructed && oct == 128 then .ok (-1) 1
    else if oct == 255 then .fail
    else fetchLenLoop 0 1 (oct % 128) bs

/-- number of length octets computed by `der_tlv_length_serialize` (64-bit len) -/
def lenOctets (len : Nat) : Nat :=
  if len / 2 ^ 8 = 0 then 1 else if len / 2 ^ 16 = 0 then 2 else if len / 2 ^ 24 = 0 then 3
  else if len / 2 ^ 32 = 0 then 4 else if len / 2 ^ 40 = 0 then 5 else if len / 2 ^ 48 = 0 then 6
  else if len / 2 ^ 56 = 0 then 7 else 8

/-- `der_tlv_length_serialize` into a large enough buffer -/
def lenSerialize (len : Nat) : Bytes :=
  if len ≤ 127 then [len] else (128 + lenOctets len) :: toBEn (lenOctets len) len

def lenSerializeSized (len : Nat) (size : Nat) : Nat × Bytes :=
  if len ≤ 127 then (1, if size > 0 then [len] else [])
  else if size ≤ lenOctets len then (lenOctets len + 1, [])
  else (lenOctets len + 1, lenSerialize len)

mutual
/-- `ber_skip_length`: size of L+V of a TLV whose tag has been consumed.  `fuel` bounds the
    recursion depth (C: `ASN__STACK_OVERFLOW_CHECK`) plus the TLV iterations of indefinite forms. -/
def skipLength : Nat → Bool → Bytes → Fetch Unit
  | 0, _, _ => .fail
  | fuel + 1, constructed, bs =>
    match fetchLength constructed bs with
    | .more => .more
    | .fail => .fail
    | .ok vlen ll =>
      if vlen ≥ 0 then
        if ll + vlen.toNat > bs.length then .more else .ok () (ll + vlen.toNat)
      else
        skipIndef fuel (bs.drop ll) ll
/-- the TLV loop of the indefinite form -/
def skipIndef : Nat → Bytes → Nat → Fetch Unit
  | 0, _, _ => .fail
  | fuel + 1, ptr, skip =>
    match fetchTag ptr with
    | .more => .more
    | .fail => .fail
    | .ok _ tl =>
      match skipLength fuel (isConstructed (ptr.headD 0)) (ptr.drop tl) with
      | .more => .more
      | .fail => .fail
      | .ok _ ll =>
        if ptr.headD 1 == 0 && (ptr.drop 1).headD 1 == 0 then .ok () (skip + tl + ll)
        else skipIndef fuel (ptr.drop (tl + ll)) (skip + tl + ll)
end

end Asn1c.Impl.BerTlv
