import Asn1cModel.Base
/-
  Impl model of skeletons/INTEGER.c conversion helpers (LP64: long = intmax_t = 64 bit).
  Each definition mirrors one C function *as it is* (quirks included).
-/
namespace Asn1c.Impl.Integer
open Asn1c

/-- The leading-octet strip loop shared by `asn_imax2INTEGER`, `INTEGER_encode_der`
    and the `size > sizeof(intmax_t)` branch of `asn_INTEGER2imax`:
    drop a leading 00 when the next octet has bit 8 clear, a leading FF when it is set. -/
def strip : Bytes → Bytes
  | 0 :: b :: bs => if b < 128 then strip (b :: bs) else 0 :: b :: bs
  | 255 :: b :: bs => if b ≥ 128 then strip (b :: bs) else 255 :: b :: bs
  | bs => bs

/-- the 8 octets of an `intmax_t` in big-endian order (two's complement) -/
def imaxOctets (v : Int) : Bytes := toBEn 8 (v % 2 ^ 64).toNat

/-- `asn_imax2INTEGER` (also `asn_long2INTEGER`), `v` an `intmax_t` -/
def imax2INTEGER (v : Int) : Bytes := strip (imaxOctets v)

/-- `asn_umax2INTEGER`, `v` a `uintmax_t` -/
def umax2INTEGER (v : Nat) : Bytes :=
  if v ≤ 2 ^ 63 - 1 then imax2INTEGER v else 0 :: toBEn 8 v

/-- the C conversion `(intmax_t)(unsigned long)v` -/
def toSigned64 (v : Nat) : Int := if v % 2 ^ 64 < 2 ^ 63 then (v % 2 ^ 64 : Nat) else (v % 2 ^ 64 : Nat) - 2 ^ 64

/-- `asn_ulong2INTEGER`: delegates to `asn_umax2INTEGER` (since the repair of finding F2) -/
def ulong2INTEGER (v : Nat) : Bytes := umax2INTEGER v

inductive Conv (α : Type) where
  | ok (v : α)
  | erange
  | einval
deriving DecidableEq, Repr

/-- `asn__integer_convert`: sign-extending big-endian read of ≤ 8 octets (non-empty) -/
def integerConvert : Bytes → Int
  | [] => 0
  | b :: bs =>
    if b < 128 then (ofBE 0 (b :: bs) : Int) else (ofBE 0 (b :: bs) : Int) - 256 ^ (bs.length + 1)

/-- `asn_INTEGER2imax` on a non-NULL buffer -/
def INTEGER2imax (bs : Bytes) : Conv Int :=
  let b := if bs.length > 8 then strip bs else bs
  if b.length > 8 then .erange
  else if b = [] then .ok 0
  else .ok (integerConvert b)

/-- the leading-zero skipping loop of `asn_INTEGER2umax` -/
def umaxSkip : Bytes → Option Bytes
  | b :: bs => if (b :: bs).length > 8 then (if b ≠ 0 then none else umaxSkip bs) else some (b :: bs)
  | [] => some []

/-- the sign test of `asn_INTEGER2umax`: `size > 0 && (*b & 0x80)` -/
def isNegative : Bytes → Bool
  | b :: _ => decide (b ≥ 128)
  | [] => false

/-- `asn_INTEGER2umax`: a negative INTEGER (first content octet ≥ 0x80) is rejected with ERANGE
    (since the repair of finding F3), then the leading-zero skipping loop and the conversion engine -/
def INTEGER2umax (bs : Bytes) : Conv Nat :=
  if isNegative bs then .erange
  else match umaxSkip bs with
    | none => .erange
    | some r => .ok (ofBE 0 r)

/-- `asn_INTEGER2long` (LONG_MIN..LONG_MAX = intmax range on LP64) -/
def INTEGER2long (bs : Bytes) : Conv Int :=
  match INTEGER2imax bs with
  | .ok v => if v < -(2 ^ 63) ∨ v > 2 ^ 63 - 1 then .erange else .ok v
  | r => r

/-- `asn_INTEGER2ulong` -/
def INTEGER2ulong (bs : Bytes) : Conv Nat :=
  match INTEGER2umax bs with
  | .ok v => if v > 2 ^ 64 - 1 then .erange else .ok v
  | r => r

/-! ### decimal parsers -/

inductive Strtox where
  | ok | extra | range | inval | more
deriving DecidableEq, Repr

structure StrtoxOut where
  res : Strtox
  /-- offset of `*end` relative to `str` (only meaningful when the C code sets it) -/
  endPos : Nat
  /-- value stored through the out-pointer, if the C code stores one -/
  val : Option Int
deriving DecidableEq, Repr

def isDigit (c : Nat) : Bool := 0x30 ≤ c && c ≤ 0x39

/-- main loop of `asn_strtoimax_lim`; `ub = max / 10`, `ldm = last_digit_max` -/
def strtoimaxLoop (ub ldm : Int) (sign value : Int) (pos : Nat) : List Nat → StrtoxOut
  | [] => ⟨.ok, pos, some (sign * value)⟩
  | c :: rest =>
    if isDigit c then
      let d : Int := (c - 0x30 : Nat)
      if value < ub then strtoimaxLoop ub ldm sign (value * 10 + d) (pos + 1) rest
      else if value = ub then
        if d ≤ ldm then
          let value' := if sign > 0 then value * 10 + d else -value * 10 - d
          match rest with
          | [] => ⟨.ok, pos + 1, some value'⟩
          | c2 :: _ => if isDigit c2 then ⟨.range, pos + 1, none⟩ else ⟨.extra, pos + 1, some value'⟩
        else ⟨.range, pos, none⟩
      else ⟨.range, pos, none⟩
    else ⟨.extra, pos, some (sign * value)⟩

def imaxMax : Int := 2 ^ 63 - 1

/-- `asn_strtoimax_lim(str, &end, &v)` where the bytes are `str .. *end` -/
def strtoimax (s : List Nat) : StrtoxOut :=
  match s with
  | [] => ⟨.inval, 0, none⟩
  | c :: rest =>
    if c = 0x2d then  -- '-'
      if rest = [] then ⟨.more, 1, none⟩
      else strtoimaxLoop (imaxMax / 10) (imaxMax % 10 + 1) (-1) 0 1 rest
    else if c = 0x2b then
      if rest = [] then ⟨.more, 1, none⟩
      else strtoimaxLoop (imaxMax / 10) (imaxMax % 10) 1 0 1 rest
    else strtoimaxLoop (imaxMax / 10) (imaxMax % 10) 1 0 0 (c :: rest)

/-- main loop of `asn_strtoumax_lim` -/
def strtoumaxLoop (ub ldm : Nat) (value : Nat) (pos : Nat) : List Nat → StrtoxOut
  | [] => ⟨.ok, pos, some value⟩
  | c :: rest =>
    if isDigit c then
      let d : Nat := c - 0x30
      if value < ub then strtoumaxLoop ub ldm (value * 10 + d) (pos + 1) rest
      else if value = ub then
        if d ≤ ldm then
          let value' := value * 10 + d
          match rest with
          | [] => ⟨.ok, pos + 1, some value'⟩
          | c2 :: _ => if isDigit c2 then ⟨.range, pos + 1, none⟩ else ⟨.extra, pos + 1, some value'⟩
        else ⟨.range, pos, none⟩
      else ⟨.range, pos, none⟩
    else ⟨.extra, pos, some value⟩

def umaxMax : Nat := 2 ^ 64 - 1

def strtoumax (s : List Nat) : StrtoxOut :=
  match s with
  | [] => ⟨.inval, 0, none⟩
  | c :: rest =>
    if c = 0x2d then ⟨.inval, 0, none⟩
    else if c = 0x2b then
      if rest = [] then ⟨.more, 1, none⟩
      else strtoumaxLoop (umaxMax / 10) (umaxMax % 10) 0 1 rest
    else strtoumaxLoop (umaxMax / 10) (umaxMax % 10) 0 0 (c :: rest)

/-- `asn_strtol_lim` on LP64 (the LONG range test is the intmax range) -/
def strtol (s : List Nat) : StrtoxOut :=
  let r := strtoimax s
  match r.res, r.val with
  | .ok, some v => if v ≥ -(2 ^ 63) ∧ v ≤ 2 ^ 63 - 1 then r else ⟨.range, r.endPos, none⟩
  | .extra, some v => if v ≥ -(2 ^ 63) ∧ v ≤ 2 ^ 63 - 1 then r else ⟨.range, r.endPos, none⟩
  | _, _ => r

def strtoul (s : List Nat) : StrtoxOut :=
  let r := strtoumax s
  match r.res, r.val with
  | .ok, some v => if v ≤ 2 ^ 64 - 1 then r else ⟨.range, r.endPos, none⟩
  | .extra, some v => if v ≤ 2 ^ 64 - 1 then r else ⟨.range, r.endPos, none⟩
  | _, _ => r

/-- `INTEGER_compare` on two non-NULL INTEGERs (reads `a.buf[0]` even when `a.size = 0`:
    the model returns `none` for that out-of-bounds read) -/
def compare (a b : Bytes) : Option Int :=
  match a, b with
  | a0 :: _, b0 :: _ =>
    let sa : Int := if a0 ≥ 128 then -1 else 1
    let sb : Int := if b0 ≥ 128 then -1 else 1
    if sa < sb then some (-1) else if sa > sb then some 1
    else if a.length < b.length then some (-1 * sa)
    else if a.length > b.length then some sb
    else some (sa * (match Ord.compare a b with | .lt => -1 | .eq => 0 | .gt => 1))
  | a0 :: _, [] => some (if a0 ≥ 128 then -1 else 1)
  | [], _ :: _ => none
  | [], [] => some 0

end Asn1c.Impl.Integer
