import Asn1cModel.Base
/-
  Impl model of skeletons/GeneralizedTime.c and UTCTime.c time helpers
  (`asn_time2GT[_frac]`, `asn_GT2time[_frac|_prec]`, `asn_time2UT`, `asn_UT2time`).

  libc's `timegm` / `gmtime_r` / `localtime_r` / `mktime` are replaced by a proleptic-Gregorian
  calendar model: a closed-form, strictly monotone `dby` (days before year, inside a 400-year era),
  a `dbm` (days before month) table, and `civilFromDays` recovering (y, m, d) by bounded search.
  A time zone is modelled by its UTC offset at the instant in question (`tm_gmtoff`), which is an
  input.  `time_t` and the `int` fields of `struct tm` are unbounded `Int`s.  Core Lean only.
-/
namespace Asn1c.Impl.Time
open Asn1c

/-! ### calendar -/

/-- Gregorian leap-year rule (also for the year-of-era, the rule is 400-periodic) -/
def isLeap (y : Nat) : Bool := y % 4 = 0 && (y % 100 ≠ 0 || y % 400 = 0)

/-- days in the years `0 .. y-1` (year 0 is a leap year): 365·y + ⌈y/4⌉ − ⌈y/100⌉ + ⌈y/400⌉ -/
def dby (y : Nat) : Nat := 365 * y + (y + 3) / 4 - (y + 99) / 100 + (y + 399) / 400

/-- days before month `m` (0 = January … 11 = December; 12 = the whole year) -/
def dbm (leap : Bool) (m : Nat) : Nat :=
  let l := if leap then 1 else 0
  match m with
  | 0 => 0 | 1 => 31 | 2 => 59 + l | 3 => 90 + l | 4 => 120 + l | 5 => 151 + l | 6 => 181 + l
  | 7 => 212 + l | 8 => 243 + l | 9 => 273 + l | 10 => 304 + l | 11 => 334 + l | _ => 365 + l

/-- days in a 400-year era -/
def eraDays : Nat := 146097
/-- days from 0000-01-01 to 1970-01-01 -/
def epochShift : Nat := 719528

/-- days since 1970-01-01 of day-of-month `d` (any integer, 1 = first) of month `m` (0..11) of year `y` -/
def daysFromCivil (y : Int) (m : Nat) (d : Int) : Int :=
  (y / 400) * 146097 + (dby (y % 400).toNat : Int) + (dbm (isLeap (y % 400).toNat) m : Int) + (d - 1) - 719528

/-- bounded upward linear search: from `y`, advance while `f (y+1) ≤ x` (at most `fuel` steps);
    for a monotone `f` with `f y ≤ x < f (y + fuel)` the result `r` is the one with `f r ≤ x < f (r+1)` -/
def searchUp (f : Nat → Nat) (x : Nat) : Nat → Nat → Nat
  | y, 0 => y
  | y, fuel + 1 => if f (y + 1) ≤ x then searchUp f x (y + 1) fuel else y

/-- the year-of-era `y` with `dby y ≤ doe < dby (y+1)` (search from the under-estimate `doe / 366`) -/
def findYear (doe : Nat) : Nat := searchUp dby doe (doe / 366) 400

/-- the month `m` with `dbm m ≤ doy < dbm (m+1)` -/
def findMonth (leap : Bool) (doy : Nat) : Nat := searchUp (dbm leap) doy 0 12

/-- (year, month 0..11, day-of-month 1..31) of the day `z` days after 1970-01-01 -/
def civilFromDays (z : Int) : Int × Nat × Nat :=
  let z' := z + 719528
  let era := z' / 146097
  let doe := (z' % 146097).toNat
  let yoe := findYear doe
  let doy := doe - dby yoe
  let m := findMonth (isLeap yoe) doy
  (era * 400 + yoe, m, doy - dbm (isLeap yoe) m + 1)

/-! ### `struct tm` and the libc functions -/

/-- the fields of `struct tm` the code reads or the harness observes -/
structure Tm where
  sec : Int
  min : Int
  hour : Int
  mday : Int
  /-- `tm_mon`, 0..11 -/
  mon : Int
  /-- `tm_year`, years since 1900 -/
  year : Int
  gmtoff : Int
deriving DecidableEq, Repr

/-- `timegm(&tm)`: accepts un-normalised fields -/
def timegm (tm : Tm) : Int :=
  86400 * daysFromCivil (tm.year + 1900 + tm.mon / 12) (tm.mon % 12).toNat tm.mday
    + 3600 * tm.hour + 60 * tm.min + tm.sec

/-- `gmtime_r(&t, &tm)` -/
def gmtime (t : Int) : Tm :=
  let c := civilFromDays (t / 86400)
  let r := t % 86400
  { sec := r % 60, min := r / 60 % 60, hour := r / 3600, mday := c.2.2, mon := c.2.1,
    year := c.1 - 1900, gmtoff := 0 }

/-- `localtime_r(&t, &tm)` in a zone whose offset from UTC at `t` is `off` seconds -/
def localtime (t off : Int) : Tm := { gmtime (t + off) with gmtoff := off }

/-! ### printf helpers -/

/-- decimal digits (ASCII) of a natural number -/
def decDigits (n : Nat) : List Nat :=
  if n < 10 then [48 + n] else decDigits (n / 10) ++ [48 + n % 10]

/-- `printf("%0<w>d", v)` -/
def fmtD (w : Nat) (v : Int) : List Nat :=
  if v < 0 then
    let ds := decDigits v.natAbs
    0x2d :: (List.replicate (w - 1 - ds.length) 48 ++ ds)
  else
    let ds := decDigits v.toNat
    List.replicate (w - ds.length) 48 ++ ds

/-- `printf("%+03ld", v)` -/
def fmtPlus3 (v : Int) : List Nat :=
  let ds := decDigits v.natAbs
  (if v < 0 then 0x2d else 0x2b) :: (List.replicate (2 - ds.length) 48 ++ ds)

/-! ### `asn_time2GT_frac` -/

/-- the `do { … } while(fbase > 0 && frac_value > 0 && z < end)` loop with `fbase = 10^k`;
    `room` = how many more characters fit before `end`; `none` = the `digit > 9` abort (`z = 0`) -/
def fracLoop : Nat → Nat → Nat → Option (List Nat)
  | 0, _, fv => if fv > 9 then none else some [48 + fv]          -- fbase = 1, then fbase /= 10 gives 0
  | k + 1, room, fv =>
    let digit := fv / 10 ^ (k + 1)
    if digit > 9 then none
    else if fv % 10 ^ (k + 1) > 0 ∧ room - 1 > 0 then
      (fracLoop k (room - 1) (fv % 10 ^ (k + 1))).map (fun ds => (48 + digit) :: ds)
    else some [48 + digit]

/-- drop trailing '0' characters -/
def stripZeros (ds : List Nat) : List Nat := (ds.reverse.dropWhile (· = 48)).reverse

/-- the "Deal with fractions" block: the characters appended after the 14 digits -/
def fracText (fv fd : Int) : List Nat :=
  if fv > 0 ∧ fd > 0 then
    -- while(frac_digits-- > 9) frac_value /= 10;   (at most 10 divisions change the value)
    let fv1 := if fd > 9 then fv.toNat / 10 ^ (min (fd - 9).toNat 10) else fv.toNat
    -- for(fbase = 1; frac_digits--;) fbase *= 10;
    let k := if fd > 9 then 8 else (fd - 1).toNat
    match fracLoop k 9 fv1 with
    | none => []
    | some ds =>
      let ds' := stripZeros ds
      if ds' = [] then [] else 0x2e :: ds'
  else []

/-- the `snprintf(p, …, "%+03ld%02ld", gmtoff / 3600, labs(gmtoff % 3600) / 60)` block
    (C division truncates towards zero); `none` = `ret != 5` -/
def offsetText (gmtoff : Int) : Option (List Nat) :=
  let g := Int.tmod gmtoff 86400
  let s := fmtPlus3 (Int.tdiv g 3600) ++ fmtD 2 ((Int.tmod g 3600).natAbs / 60 : Nat)
  if s.length = 5 then some s else none

/-- `asn_time2GT_frac(0, &tm, frac_value, frac_digits, force_gmt)`: the text, `none` = NULL/EINVAL -/
def time2GTfrac (tm : Tm) (fv fd : Int) (forceGmt : Bool) : Option Bytes :=
  -- if(force_gmt && gmtoff) { tm_s = *tm; tm_s.tm_sec -= gmtoff; timegm(&tm_s); tm = &tm_s; }
  let tm' := if forceGmt ∧ tm.gmtoff ≠ 0 then gmtime (timegm { tm with sec := tm.sec - tm.gmtoff }) else tm
  let head := fmtD 4 (tm'.year + 1900) ++ fmtD 2 (tm'.mon + 1) ++ fmtD 2 tm'.mday
              ++ fmtD 2 tm'.hour ++ fmtD 2 tm'.min ++ fmtD 2 tm'.sec
  if head.length ≠ 14 then none
  else if forceGmt then some (head ++ fracText fv fd ++ [0x5a])
  else match offsetText tm.gmtoff with
    | some o => some (head ++ fracText fv fd ++ o)
    | none => none

/-- `asn_time2GT` -/
def time2GT (tm : Tm) (forceGmt : Bool) : Option Bytes := time2GTfrac tm 0 0 forceGmt

/-- `asn_time2UT`: the GeneralizedTime text without its first two characters -/
def time2UT (tm : Tm) (forceGmt : Bool) : Option Bytes := (time2GT tm forceGmt).map (·.drop 2)

/-! ### `asn_GT2time_frac` -/

/-- the `B2F(var)` macro: one decimal digit appended to `var`.
    (`[]` cannot occur: every use is preceded by a length test in the C code.) -/
def b2f (var : Int) : Bytes → Option (Int × Bytes)
  | [] => none
  | c :: r => if c < 0x30 ∨ c > 0x39 then none else some (var * 10 + ((c : Int) - 0x30), r)

/-- two consecutive `B2F` on the same variable -/
def b2f2 (var : Int) (bs : Bytes) : Option (Int × Bytes) :=
  match b2f var bs with
  | some (v, r) => b2f v r
  | none => none

/-- what the part of the text after "YYYYMMDDhh" yields -/
structure GtTail where
  min : Int
  sec : Int
  fvalue : Int
  fdigits : Int
  offsetSpecified : Bool
  gmtoff : Int
deriving DecidableEq, Repr

/-- the `offset:` label; `buf` starts at the sign character -/
def gtOffset (mn sc fv fd : Int) (buf : Bytes) : Option GtTail :=
  if buf.length < 3 then none else
  match buf with
  | [] => none
  | s :: r =>
    match b2f2 0 r with
    | none => none
    | some (h, r2) =>
      let sign : Int := if s = 0x2d then -1 else 1
      if r2.length = 2 then
        match b2f2 0 r2 with
        | none => none
        | some (m, _) => some ⟨mn, sc, fv, fd, true, sign * (3600 * h + 60 * m)⟩
      else if r2 ≠ [] then none
      else some ⟨mn, sc, fv, fd, true, sign * (3600 * h)⟩

/-- the fraction digit loop: `fvalue` stops growing at `INT_MAX / 10` -/
def gtFracLoop (fv fd : Int) : Bytes → Int × Int × Bytes
  | [] => (fv, fd, [])
  | c :: r =>
    if 0x30 ≤ c ∧ c ≤ 0x39 then
      if fv < 214748364 then gtFracLoop (fv * 10 + ((c : Int) - 0x30)) (fd + 1) r
      else gtFracLoop fv fd r
    else (fv, fd, c :: r)

/-- `if(buf == end) goto local_finish; switch(*buf) { '+','-': offset; 'Z': utc_finish; default: EINVAL }`.
    Note: nothing after the 'Z' is looked at. -/
def gtZone (mn sc fv fd : Int) (buf : Bytes) : Option GtTail :=
  match buf with
  | [] => some ⟨mn, sc, fv, fd, false, 0⟩
  | c :: r =>
    if c = 0x2b ∨ c = 0x2d then gtOffset mn sc fv fd (c :: r)
    else if c = 0x5a then some ⟨mn, sc, fv, fd, true, 0⟩
    else none

/-- after the seconds: optional `(.|,)ffff`, then the zone -/
def gtAfterSec (mn sc : Int) (buf : Bytes) : Option GtTail :=
  match buf with
  | [] => some ⟨mn, sc, 0, 0, false, 0⟩
  | c :: r =>
    if c = 0x2c ∨ c = 0x2e then
      let (fv, fd, r') := gtFracLoop 0 0 r
      gtZone mn sc fv fd r'
    else gtZone mn sc 0 0 (c :: r)

/-- after the minutes: `ss`, or the zone -/
def gtAfterMin (mn : Int) (buf : Bytes) : Option GtTail :=
  match buf with
  | [] => some ⟨mn, 0, 0, 0, false, 0⟩
  | c :: r =>
    if 0x30 ≤ c ∧ c ≤ 0x39 then
      if r = [] then none else
      match b2f ((c : Int) - 0x30) r with
      | none => none
      | some (sc, r') => gtAfterSec mn sc r'
    else gtZone mn 0 0 0 (c :: r)

/-- after "YYYYMMDDhh": `mm`, or the zone -/
def gtAfterHour (buf : Bytes) : Option GtTail :=
  match buf with
  | [] => some ⟨0, 0, 0, 0, false, 0⟩
  | c :: r =>
    if 0x30 ≤ c ∧ c ≤ 0x39 then
      if r = [] then none else
      match b2f ((c : Int) - 0x30) r with
      | none => none
      | some (mn, r') => gtAfterMin mn r'
    else gtZone 0 0 0 0 (c :: r)

inductive TRes where
  /-- returned `time_t`, `*frac_value`, `*frac_digits`, `*ret_tm` -/
  | ok (t : Int) (fv fd : Int) (tm : Tm)
  /-- return -1 with errno = EINVAL -/
  | einval
deriving DecidableEq, Repr

/-- the returned `time_t`, if the call succeeded -/
def TRes.time : TRes → Option Int
  | .ok t _ _ _ => some t
  | .einval => none

/-- `asn_GT2time_frac(st, &fv, &fd, &tm, as_gmt)` on a non-NULL buffer.
    `localOff`: UTC offset of the process's (fixed-offset) local zone, used where the C code calls
    `mktime` / `localtime_r`. -/
def GT2timeFrac (localOff : Int) (bs : Bytes) (asGmt : Bool) : TRes :=
  if bs.length < 10 then .einval else
  match b2f2 0 bs with
  | none => .einval
  | some (y2, r1) =>
  match b2f2 y2 r1 with
  | none => .einval
  | some (year, r2) =>
  match b2f2 0 r2 with
  | none => .einval
  | some (mon, r3) =>
  match b2f2 0 r3 with
  | none => .einval
  | some (mday, r4) =>
  match b2f2 0 r4 with
  | none => .einval
  | some (hour, r5) =>
  match gtAfterHour r5 with
  | none => .einval
  | some tl =>
    -- Validation (tm_min is not checked)
    if (mon > 12 ∨ mon < 1) ∨ (mday > 31 ∨ mday < 1) ∨ hour > 23 ∨ tl.sec > 60 then .einval else
    let tm_s : Tm := { sec := tl.sec - tl.gmtoff, min := tl.min, hour := hour, mday := mday,
                       mon := mon - 1, year := year - 1900, gmtoff := 0 }
    let tloc := if tl.offsetSpecified then timegm tm_s else timegm tm_s - localOff   -- mktime
    -- `if(tloc == -1 && tm_s.tm_wday == -1)`: a *failure* of timegm()/mktime(); the calendar model never
    -- fails (64-bit `time_t`), and the instant -1 itself is an ordinary result (F60 repaired)
    let rtm := if asGmt then gmtime tloc else localtime tloc localOff
    .ok tloc tl.fvalue tl.fdigits rtm

/-- `asn_GT2time` -/
def GT2time (localOff : Int) (bs : Bytes) (asGmt : Bool) : TRes := GT2timeFrac localOff bs asGmt

/-- second loop of `asn_GT2time_prec`: scale `fv` up by `n` digits, 0 on overflow -/
def precUp : Nat → Int → Int
  | 0, fv => fv
  | n + 1, fv => if fv < 214748364 then precUp n (fv * 10) else 0

/-- `asn_GT2time_prec(st, &frac_value, frac_digits, 0, as_gmt)`: (time, `*frac_value`);
    `none` = -1/EINVAL (then `*frac_value = 0`) -/
def GT2timePrec (localOff : Int) (bs : Bytes) (fracDigits : Int) (asGmt : Bool) : Option (Int × Int) :=
  match GT2timeFrac localOff bs asGmt with
  | .einval => none
  | .ok t fv fd _ =>
    if fd = 0 ∨ fracDigits ≤ 0 then some (t, 0)
    else if fd > fracDigits then some (t, fv / 10 ^ (fd - fracDigits).toNat)
    else some (t, precUp (fracDigits - fd).toNat fv)

/-- `asn_UT2time(st, &tm, as_gmt)` on a non-NULL buffer -/
def UT2time (localOff : Int) (bs : Bytes) (asGmt : Bool) : TRes :=
  if bs.length < 11 ∨ bs.length ≥ 22 then .einval else
  match bs with
  | [] => .einval
  | c :: _ =>
    let century := if c > 0x35 then [0x31, 0x39] else [0x32, 0x30]
    GT2time localOff (century ++ bs) asGmt

end Asn1c.Impl.Time
