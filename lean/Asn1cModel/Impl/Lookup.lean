/-
  C12: model of module lookup by name (libasn1fix/asn1fix_retrieve.c: asn1f_lookup_module without OIDs,
  asn1f_lookup_in_imports, asn1f_lookup_symbol for plain `Name` and `Module.Name` references).
  The module list `asn->modules` is in command-line order: `main` appends the modules of every parsed
  file (asn1c.c:333-347).  Core Lean only.
-/
namespace Asn1c.Lookup

structure LModule where
  name : String
  /-- names assigned in the module -/
  members : List String
  /-- IMPORTS: (symbols, FROM module) -/
  imports : List (List String × String)
  deriving Repr, DecidableEq

/-- `asn1f_lookup_module(arg, name, NULL)`: first module in list order whose name matches -/
def lookupModule (ms : List LModule) (name : String) : Option LModule :=
  ms.find? (fun m => m.name == name)

/-- a reference: optional module qualifier, identifier -/
structure Ref where
  modName : Option String
  ident : String
  deriving Repr, DecidableEq

/-- result of symbol resolution: (defining module, identifier) -/
def lookupSymbol (ms : List LModule) (cur : LModule) (r : Ref) : Option (String × String) :=
  match r.modName with
  | some mn =>
    match lookupModule ms mn with
    | some m => if m.members.contains r.ident then some (m.name, r.ident) else none
    | none => none
  | none =>
    if cur.members.contains r.ident then some (cur.name, r.ident)
    else
      match cur.imports.find? (fun (syms, _) => syms.contains r.ident) with
      | some (_, from_) =>
        match lookupModule ms from_ with
        | some m => if m.members.contains r.ident then some (m.name, r.ident) else none
        | none => none
      | none => none

/-- resolution of every reference of every module, keyed by (module, reference) -/
def resolveAll (ms : List LModule) (refs : LModule → List Ref) (cur : LModule) : List (Option (String × String)) :=
  (refs cur).map (lookupSymbol ms cur)

end Asn1c.Lookup
