import Asn1cModel.Impl.CRange
/-
  Impl.CTables — model of the constraint-table emitters of /repo/libasn1compiler/asn1c_C.c
  (`emit_single_member_PER_constraint` with alphabetsize = 0,
   `emit_single_member_OER_constraint_value`, `emit_single_member_OER_constraint_size`)
  and of the explanation printer `asn1print_constraint_explain_type` of libasn1print/asn1print.c.
  Core Lean only.
-/
namespace Asn1c.Impl.CTables
open Asn1c.Impl.CRange

/-- `enum asn_per_constraint_flags` without the extensible bit -/
inductive PerKind where
  | unconstrained   -- APC_UNCONSTRAINED
  | semi            -- APC_SEMI_CONSTRAINED
  | constrained     -- APC_CONSTRAINED
deriving DecidableEq, Repr

/-- one `asn_per_constraint_t` initialiser as emitted -/
structure PerC where
  kind : PerKind
  ext : Bool            -- `| APC_EXTENSIBLE`
  rangeBits : Int
  effBits : Int
  lb : Int
  ub : Int
deriving DecidableEq, Repr

def PerC.unconstrained : PerC := ⟨.unconstrained, false, -1, -1, 0, 0⟩

/-- "Compute real constraint": `for(rbits = 0; rbits < 128; rbits++) { if(r <= cover) break; cover *= 2; if(cover < 0) {FATAL; rbits = sizeof(r); break;} }`
    (`k` iterations left, `cover` = 2^rbits) -/
def rbitsLoop (r : Int) : Nat → Nat → Int → Int
  | 0, rbits, _ => rbits
  | k + 1, rbits, cover =>
    if r ≤ cover then rbits
    else if cover * 2 ≥ 2 ^ 127 then 16      -- `cover < 0` after the signed overflow
    else rbitsLoop r k (rbits + 1) (cover * 2)

def rangeBits (r : Int) : Int := rbitsLoop r 128 0 1

/-- X.691 #10.9.4.1: `for(ebits = 0; ebits <= 16; ebits++) if(r <= 1 << ebits) break;` -/
def ebitsLoop (r : Int) : Nat → Nat → Int
  | 0, e => e                   -- e = 17
  | k + 1, e => if r ≤ 2 ^ e then e else ebitsLoop r k (e + 1)

def effBits (r : Int) (ub : Int) : Int :=
  let e := ebitsLoop r 17 0
  if e == 17 || ub ≥ 65536 then -1 else e

/-- `emit_single_member_PER_constraint(arg, range, 0, type)`; `none` = NULL range -/
def perConstraint (range : Option Range) : PerC :=
  match range with
  | none => .unconstrained
  | some range =>
    if range.incompat || range.notPER then .unconstrained else
    match range.left, range.right with
    | .val l, .val u =>
      let r : Int := if range.empty then 0 else 1 + u - l
      ⟨.constrained, range.ext, rangeBits r, effBits r u, l, u⟩
    | .val l, _ => ⟨.semi, range.ext, -1, -1, l, 0⟩
    | _, _ => ⟨.unconstrained, range.ext, -1, -1, 0, 0⟩

/-- `asn_oer_constraint_number_t` -/
structure OerN where
  width : Nat
  positive : Nat
deriving DecidableEq, Repr

/-- `emit_single_member_OER_constraint_value` (not REAL) -/
def oerValue (range : Option Range) : OerN :=
  match range with
  | none => ⟨0, 0⟩
  | some range =>
    if range.incompat || range.notOER then ⟨0, 0⟩ else
    match range.left, range.right with
    | .val l, .max => if l ≥ 0 then ⟨0, 1⟩ else ⟨0, 0⟩
    | .val lb, .val ub =>
      if lb ≥ 0 then
        let w : Nat :=
          if ub ≤ 255 then 1
          else if ub ≤ 65535 then 2
          else if ub ≤ 4294967295 then 4
          else if ub ≤ 18446744073709551615 then 8      -- ub == (asn1c_integer_t)(unsigned long long)ub
          else 0
        ⟨w, 1⟩
      else
        let w : Nat :=
          if lb ≥ -128 && ub ≤ 127 then 1
          else if lb ≥ -32768 && ub ≤ 32767 then 2
          else if lb ≥ -2147483648 && ub ≤ 2147483647 then 4
          else if lb ≥ -9223372036854775808 && ub ≤ 9223372036854775807 then 8
          else 0
        ⟨w, 0⟩
    | _, _ => ⟨0, 0⟩

/-- `emit_single_member_OER_constraint_size`: −1 or the fixed size -/
def oerSize (range : Option Range) : Int :=
  match range with
  | none => -1
  | some range =>
    if range.incompat || range.notOER then -1 else
    match range.left, range.right with
    | .val l, .val u => if l == u && l ≥ 0 then l else -1
    | _, _ => -1

/-- `asn_per_constraints_t` / `asn_oer_constraints_t` of one type -/
structure Tables where
  perValue : PerC
  perSize : PerC
  oerValue : OerN
  oerSize : Int
deriving DecidableEq, Repr

def resRange : Res → Option Range
  | .ok r => some r
  | _ => none

/-- `emit_member_PER_constraints` + `emit_member_OER_constraints` for a type that is neither
    ENUMERATED/CHOICE nor a known-multiplier string: four calls of the range function
    (`asn1constraint_compute_PER_range` is called with CPR_PER_root_only and adds no strictness flag,
    `…_OER_range` adds CPR_strict_OER_visibility); a NULL range gives the "no constraint" initialiser. -/
def emitTables (valueCompat sizeCompat nkm : Bool) (ct : Option CT) : Tables :=
  { perValue := perConstraint (resRange (computeTop { req := .value, compat := valueCompat, nkm, rootOnly := true } ct))
    perSize := perConstraint (resRange (computeTop { req := .size, compat := sizeCompat, nkm, rootOnly := true } ct))
    oerValue := oerValue (resRange (computeTop { req := .value, compat := valueCompat, nkm, strictOER := true } ct))
    oerSize := oerSize (resRange (computeTop { req := .size, compat := sizeCompat, nkm, strictOER := true } ct)) }

/-! ### `asn1print_constraint_explain_type` -/

def showEdge : Edge → String
  | .min => "MIN"
  | .max => "MAX"
  | .val z => toString z

def showIv (i : Iv) : String :=
  if i.lo == i.hi then showEdge i.lo else showEdge i.lo ++ ".." ++ showEdge i.hi

/-- what `-print-constraints` writes for one request type; "" when nothing is written -/
def explain (p : Params) (res : Res) : String :=
  match res with
  | .ok range =>
    if range.incompat then ""
    else if p.strictOER && range.notOER then ""
    else if p.strictPER && range.notPER then ""
    else
      let body := " | ".intercalate (range.leaves.map showIv)
      let e := if range.ext then ",..." else ""
      let s := match p.req with
        | .size => "(SIZE(" ++ body ++ e ++ "))"
        | .value => "(" ++ body ++ e ++ ")"
      if range.empty then s ++ ":Empty!" else s
  | _ => ""

end Asn1c.Impl.CTables
