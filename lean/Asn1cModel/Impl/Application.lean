import Asn1cModel.Base
/-
  Impl.Application — model of skeletons/asn_application.c (encoder side), mirroring the code as it is.

  An *encoder* (`der_encode`, `uper_encode`, `oer_encode`, `xer_encode`, `print_struct` for one
  descriptor and one structure) is abstracted as an interaction tree `Enc`: it hands chunks to its
  callback, observes only whether the callback returned `< 0`, and finally returns an
  `asn_enc_rval_t` (`ok claimed` or `fail blame`).  The fault-free run of an encoder is its chunk list
  `Enc.trace` and `Enc.result`; `Enc.ofRun chunks out` is the well-behaved encoder with a given run.
  The callbacks (`overrun_encoder_cb`, `dynamic_encoder_cb`, `callback_count_bytes_cb`,
  `callback_failure_catch_cb`) are step functions on their key structures; the wrappers
  (`asn_encode_internal`, `asn_encode`, `asn_encode_to_buffer`, `asn_encode_to_new_buffer`) run the
  encoder against them.  `assert` failures are the distinguished outcome `Api.abort`.
  Not modelled: `size_t`/`ssize_t` wrap-around (sizes are unbounded `Nat`).
  Core Lean only.
-/
namespace Asn1c.Impl.Application
open Asn1c

/-! ## the abstract encoder -/

/-- the errno values asn_application.c assigns -/
inductive Errno | EINVAL | ENOENT | EBADF | EIO | ENOMEM
  deriving DecidableEq, Repr, Inhabited

/-- what `er.failed_type` of a failed encoder looks like to `asn_encode_internal`:
    `hasEnc` = non-NULL and `failed_type->op-><syntax>_encoder` non-NULL (→ EBADF);
    `noEnc` = NULL or without an encoder for the syntax (→ ENOENT). -/
inductive Blame | hasEnc | noEnc
  deriving DecidableEq, Repr, Inhabited

/-- `asn_enc_rval_t.encoded`: `ok n` (n ≥ 0; bits for uper_encode, bytes otherwise) or `-1` -/
inductive Outcome | ok (claimed : Nat) | fail (b : Blame)
  deriving DecidableEq, Repr, Inhabited

/-- An encoder run as an interaction tree: `emit c k f` = "call `cb(c)`; if it returned ≥ 0 continue
    as `k`, if it returned < 0 continue as `f`"; `ret o` = return `o`. -/
inductive Enc where
  | ret (o : Outcome)
  | emit (chunk : Bytes) (onOk : Enc) (onFail : Enc)
  deriving Repr, Inhabited

/-- chunks handed to a callback that never fails -/
def Enc.trace : Enc → List Bytes
  | .ret _ => []
  | .emit c k _ => c :: k.trace

/-- result with a callback that never fails -/
def Enc.result : Enc → Outcome
  | .ret o => o
  | .emit _ k _ => k.result

/-- the well-behaved encoder with fault-free run `(chunks, out)`: returns -1 (blaming a type that has the
    encoder) as soon as the callback fails -/
def Enc.ofRun : List Bytes → Outcome → Enc
  | [], out => .ret out
  | c :: cs, out => .emit c (Enc.ofRun cs out) (.ret (.fail .hasEnc))

/-- the encoder observed on C with the callback failing at invocation `k`: `chunks` = every invocation's chunk
    (the refused one included), `out` = what the encoder returned.  Only the path taken is known; the
    unobserved branches are filled with the well-behaved reaction. -/
def Enc.ofObserved (k : Nat) : List Bytes → Outcome → Enc
  | [], out => .ret out
  | c :: cs, out =>
    match k with
    | 0 => .emit c (.ret (.fail .hasEnc)) (Enc.ofRun cs out)
    | k + 1 => .emit c (Enc.ofObserved k cs out) (.ret (.fail .hasEnc))

/-- total number of octets of a chunk list -/
def total (chunks : List Bytes) : Nat := (chunks.map List.length).sum

/-- a callback: state × chunk ↦ new state × "returned ≥ 0" -/
abbrev Callback (σ : Type) := σ → Bytes → σ × Bool

/-- run an encoder against a callback -/
def Enc.run {σ : Type} (cb : Callback σ) : Enc → σ → σ × Outcome
  | .ret o, s => (s, o)
  | .emit c k f, s =>
    let r := cb s c
    if r.2 then k.run cb r.1 else f.run cb r.1

/-! ## the callbacks of asn_application.c -/

/-- `memcpy(mem + off, data, size)` on a flat memory image (no clamping: a write past the end of `mem`
    extends the image, so an overrun is visible) -/
def writeAt (mem : Bytes) (off : Nat) (data : Bytes) : Bytes :=
  mem.take off ++ data ++ mem.drop (off + data.length)

/-- `struct overrun_encoder_key` plus the memory the buffer pointer points into (`mem` = the caller's
    buffer followed by whatever lies behind it) and the high-water mark of all `memcpy`s. -/
structure OverrunKey where
  mem : Bytes
  bufferSize : Nat
  computedSize : Nat
  hiWater : Nat := 0
  deriving Repr, DecidableEq

/-- `overrun_encoder_cb` -/
def overrunCb : Callback OverrunKey := fun key data =>
  if key.computedSize + data.length > key.bufferSize then
    ({ key with bufferSize := 0, computedSize := key.computedSize + data.length }, true)
  else
    ({ key with mem := writeAt key.mem key.computedSize data,
                computedSize := key.computedSize + data.length,
                hiWater := max key.hiWater (key.computedSize + data.length) }, true)

/-- `do { new_size *= 2; } while(new_size <= target);` — `none` = the loop does not terminate
    (`new_size = 0`). -/
def growLoop (newSize target : Nat) : Option Nat :=
  if _h0 : newSize = 0 then none
  else if _h1 : 2 * newSize ≤ target then growLoop (2 * newSize) target
  else some (2 * newSize)
termination_by target + 1 - newSize
decreasing_by omega

/-- `struct dynamic_encoder_key`; `buffer = none` is the NULL pointer, `some b` a live heap block
    (`b.length = bufferSize`); `allocs` counts REALLOC calls (index into the allocation oracle);
    `stuck` records a non-terminating doubling loop. -/
structure DynKey where
  buffer : Option Bytes
  bufferSize : Nat
  computedSize : Nat
  allocs : Nat := 0
  stuck : Bool := false
  deriving Repr, DecidableEq

/-- `dynamic_encoder_cb`; `allocOk i` = "the i-th REALLOC succeeds"; fresh heap octets are `junk`. -/
def dynamicCb (allocOk : Nat → Bool) (junk : Nat) : Callback DynKey := fun key data =>
  match key.buffer with
  | none => ({ key with computedSize := key.computedSize + data.length }, true)
  | some b =>
    if key.computedSize + data.length ≥ key.bufferSize then
      match growLoop key.bufferSize (key.computedSize + data.length) with
      | none => ({ key with stuck := true }, true)
      | some newSize =>
        if allocOk key.allocs then
          let b' := b ++ List.replicate (newSize - b.length) junk
          ({ key with buffer := some (writeAt b' key.computedSize data), bufferSize := newSize,
                      computedSize := key.computedSize + data.length, allocs := key.allocs + 1 }, true)
        else
          ({ key with buffer := none, bufferSize := 0,
                      computedSize := key.computedSize + data.length, allocs := key.allocs + 1 }, true)
    else
      ({ key with buffer := some (writeAt b key.computedSize data),
                  computedSize := key.computedSize + data.length }, true)

/-- `callback_count_bytes_cb` around an inner callback -/
def countBytesCb {σ : Type} (cb : Callback σ) : Callback (σ × Nat) := fun key data =>
  let r := cb key.1 data
  if r.2 then ((r.1, key.2 + data.length), true) else ((r.1, key.2), false)

/-- `callback_failure_catch_cb` around the application's callback (`key.2` = `callback_failed`) -/
def failureCatchCb {σ : Type} (cb : Callback σ) : Callback (σ × Bool) := fun key data =>
  let r := cb key.1 data
  if r.2 then ((r.1, key.2), true) else ((r.1, true), false)

/-! ## asn_encode_internal -/

inductive Syntax
  | invalid | plaintext | random | ber | der | cer | basicOer | canonicalOer
  | basicUper | canonicalUper | basicXer | canonicalXer
  deriving DecidableEq, Repr, Inhabited

def XER_F_BASIC : Nat := 1
def XER_F_CANONICAL : Nat := 2

/-- the `xer_flags` computed by `asn_encode_internal` (initialised to XER_F_CANONICAL; the BASIC case
    clears CANONICAL and sets BASIC, then falls through) -/
def xerFlags : Syntax → Nat
  | .basicXer => ((XER_F_CANONICAL &&& (255 - XER_F_CANONICAL)) ||| XER_F_BASIC)
  | _ => XER_F_CANONICAL

/-- `td->op` of the descriptor together with the structure: which encoders exist, and how each runs on
    this structure.  `none` = function pointer is NULL. -/
structure TypeOps where
  print : Option Enc := none           -- print_struct (+ result < 0 = `fail`)
  der : Option Enc := none
  oer : Option Enc := none
  uper : Option Enc := none            -- uper_encode: `ok n` = n bits
  xer : Option (Nat → Enc) := none     -- xer_encode, by xer_flags
  deriving Inhabited

/-- `asn_enc_rval_t.encoded` and the value assigned to errno (if any) -/
structure Rval where
  encoded : Int
  errno : Option Errno
  deriving DecidableEq, Repr, Inhabited

def errnoOfBlame : Blame → Errno
  | .hasEnc => .EBADF
  | .noEnc => .ENOENT

/-- the common tail `er = X_encode(...); if(er.encoded == -1) errno = EBADF/ENOENT` -/
def stdBranch {σ : Type} (cb : Callback σ) (s : σ) (enc : Option Enc) : σ × Rval :=
  match enc with
  | none => (s, ⟨-1, some .ENOENT⟩)
  | some e =>
    match e.run cb s with
    | (s', .ok n) => (s', ⟨(n : Int), none⟩)
    | (s', .fail b) => (s', ⟨-1, some (errnoOfBlame b)⟩)

/-- `asn_encode_internal(opt_codec_ctx, syntax, td, sptr, callback, callback_key)`;
    `ops = none` models `!td || !sptr`. -/
def asnEncodeInternal {σ : Type} (syn : Syntax) (ops : Option TypeOps) (cb : Callback σ) (s : σ) : σ × Rval :=
  match ops with
  | none => (s, ⟨-1, some .EINVAL⟩)
  | some ops =>
    match syn with
    | .plaintext =>
      match ops.print with
      | none => (s, ⟨-1, some .ENOENT⟩)
      | some e =>
        match e.run (countBytesCb cb) (s, 0) with
        | (key, .fail _) => (key.1, ⟨-1, some .EBADF⟩)
        | (key, .ok _) =>
          let r := countBytesCb cb key [10]
          if r.2 then (r.1.1, ⟨(r.1.2 : Int), none⟩) else (r.1.1, ⟨-1, some .EBADF⟩)
    | .random => (s, ⟨-1, some .ENOENT⟩)
    | .ber | .der => stdBranch cb s ops.der
    | .cer => (s, ⟨-1, some .ENOENT⟩)
    | .basicOer | .canonicalOer => stdBranch cb s ops.oer
    | .basicUper | .canonicalUper =>
      match ops.uper with
      | none => (s, ⟨-1, some .ENOENT⟩)
      | some e =>
        match e.run cb s with
        | (s', .fail b) => (s', ⟨-1, some (errnoOfBlame b)⟩)
        | (s', .ok bits) =>
          if bits = 0 then
            -- Enforce "Complete Encoding" of X.691 #11.1
            let r := cb s' [0]
            if r.2 then (r.1, ⟨(((8 + 7) / 8 : Nat) : Int), none⟩) else (r.1, ⟨-1, some .EBADF⟩)
          else (s', ⟨(((bits + 7) / 8 : Nat) : Int), none⟩)
    | .basicXer | .canonicalXer =>
      stdBranch cb s (ops.xer.map (· (xerFlags syn)))
    | .invalid => (s, ⟨-1, some .ENOENT⟩)

/-! ## the public wrappers -/

/-- result of an API call: `abort` = an `assert` failed -/
inductive Api (α : Type) | abort | done (a : α)
  deriving Repr, DecidableEq, Inhabited

def Api.map {α β : Type} (f : α → β) : Api α → Api β
  | .abort => .abort
  | .done a => .done (f a)

/-- `asn_encode`; `cb = none` models a NULL callback. Returns the callback's final state too. -/
def asnEncode {σ : Type} (syn : Syntax) (ops : Option TypeOps) (cb : Option (Callback σ)) (s : σ) :
    Api (σ × Rval) :=
  match cb with
  | none => .done (s, ⟨-1, some .EINVAL⟩)
  | some cb =>
    match asnEncodeInternal syn ops (failureCatchCb cb) (s, false) with
    | (key, er) =>
      if key.2 then
        if er.encoded ≠ -1 then .abort                    -- assert(er.encoded == -1)
        else if er.errno ≠ some .EBADF then .abort        -- assert(errno == EBADF)
        else .done (key.1, ⟨er.encoded, some .EIO⟩)
      else .done (key.1, er)

/-- `asn_encode_to_buffer(…, buffer, buffer_size)`.  `mem` = memory image starting at `buffer`
    (`none` = NULL pointer); it may extend beyond `bufferSize` (what lies behind the buffer). -/
def asnEncodeToBuffer (syn : Syntax) (ops : Option TypeOps) (mem : Option Bytes) (bufferSize : Nat) :
    Api (OverrunKey × Rval) :=
  if bufferSize > 0 ∧ mem = none then .done (⟨[], bufferSize, 0, 0⟩, ⟨-1, some .EINVAL⟩)
  else
    match asnEncodeInternal syn ops overrunCb ⟨mem.getD [], bufferSize, 0, 0⟩ with
    | (key, er) =>
      -- assert(er.encoded < 0 || (size_t)er.encoded == buf_key.computed_size)
      if er.encoded ≥ 0 ∧ er.encoded ≠ (key.computedSize : Int) then .abort else .done (key, er)

/-- `asn_encode_to_new_buffer_result_t` -/
structure NewBuffer where
  buffer : Option Bytes      -- the heap block (all `buffer_size` octets), `none` = NULL
  result : Rval
  key : DynKey
  deriving Repr, DecidableEq

/-- `asn_encode_to_new_buffer`; `mallocOk` = the initial MALLOC(16) succeeds, `allocOk i` = the i-th REALLOC
    succeeds.  A non-terminating doubling loop is reported as `abort` as well (it never returns).
    `if(res.result.encoded < 0 && buf_key.buffer) { FREEMEM(buf_key.buffer); buf_key.buffer = 0; }` (errno is
    saved and restored around it): a failed encoding returns no buffer (repair of F39). -/
def asnEncodeToNewBuffer (syn : Syntax) (ops : Option TypeOps) (mallocOk : Bool) (allocOk : Nat → Bool)
    (junk : Nat) : Api NewBuffer :=
  let key0 : DynKey := ⟨if mallocOk then some (List.replicate 16 junk) else none, 16, 0, 0, false⟩
  match asnEncodeInternal syn ops (dynamicCb allocOk junk) key0 with
  | (key, er) =>
    if key.stuck then .abort
    else if er.encoded ≥ 0 ∧ er.encoded ≠ (key.computedSize : Int) then .abort
    else
      -- failed to encode: release the partial output, (.buffer) is NULL
      let key := if er.encoded < 0 then { key with buffer := none } else key
      match key.buffer with
      | none => .done ⟨none, er, key⟩
      | some b =>
        if ¬ (key.computedSize < key.bufferSize) then .abort      -- assert(computed_size < buffer_size)
        else .done ⟨some (writeAt b key.computedSize [0]), er, key⟩

/-! ## callbacks used by the properties and the driver -/

/-- application callback recording what it accepted and failing exactly at invocation index `k`
    (`none` = never): state = (number of invocations so far, accepted chunks in reverse) -/
structure RecState where
  calls : Nat := 0
  accepted : List Bytes := []     -- in order
  sizes : List Nat := []          -- size of every invocation, in order
  deriving Repr, DecidableEq

def failAtCb (k : Option Nat) : Callback RecState := fun st data =>
  if k = some st.calls then
    ({ st with calls := st.calls + 1, sizes := st.sizes ++ [data.length] }, false)
  else
    ({ calls := st.calls + 1, accepted := st.accepted ++ [data], sizes := st.sizes ++ [data.length] }, true)

/-- TypeOps with the same encoder installed for every syntax (driver convenience) -/
def TypeOps.all (e : Enc) : TypeOps := ⟨some e, some e, some e, some e, some (fun _ => e)⟩

end Asn1c.Impl.Application
