import Asn1cModel.Base
/-
  Impl model of skeletons/REAL.c: `asn_double2REAL` and `asn_REAL2double` (binary and special
  forms; the ISO 6093 decimal forms go through libc `strtod` and are outside the model).

  A `double` is its IEEE-754 binary64 bit pattern, a `Nat < 2^64`
  (bit 63 sign, bits 62..52 biased exponent field, bits 51..0 fraction).
  Floating-point arithmetic of the C code (`ilogb`, `ldexp`, `+`) is modelled exactly:
  values are dyadic numbers `m * 2^e` (`m : Nat`, `e : Int`) and every operation result is
  rounded once by `roundToDouble` (round-to-nearest-even, subnormal results, overflow to ∞).
-/
namespace Asn1c.Impl.Real
open Asn1c

/-! ### IEEE-754 binary64 bit patterns -/

def signOf (b : Nat) : Nat := b / 2 ^ 63 % 2
def expField (b : Nat) : Nat := b / 2 ^ 52 % 2048
def fracField (b : Nat) : Nat := b % 2 ^ 52

inductive FClass where
  | nan | inf | zero | subnormal | normal
deriving DecidableEq, Repr

def classify (b : Nat) : FClass :=
  if expField b = 2047 then (if fracField b = 0 then .inf else .nan)
  else if expField b = 0 then (if fracField b = 0 then .zero else .subnormal)
  else .normal

/-- bit pattern of +∞ (also: every pattern `≥ posInf` with the sign bit cleared is ∞ or NaN) -/
def posInf : Nat := 2047 * 2 ^ 52
/-- the bit pattern of the C macro `NAN` (gcc/glibc x86-64: quiet NaN, positive) -/
def nanBits : Nat := 2047 * 2 ^ 52 + 2 ^ 51
def signBit : Nat := 2 ^ 63

/-- magnitude of a finite double as a dyadic `(m, e)`: `|x| = m * 2^e` -/
def toDyadic (b : Nat) : Nat × Int :=
  if expField b = 0 then (fracField b, -1074)
  else (2 ^ 52 + fracField b, (expField b : Int) - 1075)

/-- `m / 2^sh` rounded to the nearest integer, ties to even (`sh ≤ 0`: exact `m * 2^(-sh)`) -/
def rne (m : Nat) (sh : Int) : Nat :=
  if sh ≤ 0 then m * 2 ^ (-sh).toNat
  else
    let s := sh.toNat
    let q := m / 2 ^ s
    let r := m % 2 ^ s
    if 2 * r > 2 ^ s ∨ (2 * r = 2 ^ s ∧ q % 2 = 1) then q + 1 else q

/-- The binary64 nearest to `m * 2^e` (round-to-nearest-even), as the bit pattern of a
    non-negative double: subnormal results are rounded at 2^-1074, results `≥ 2^1024` (after
    rounding) become +∞.  `bits = (q + 1074) * 2^52 + M` is the usual trick: with the quantum
    exponent `q` and the rounded significand `M ∈ [0, 2^53]`, the hidden bit of `M` increments
    the exponent field, and a carry to `2^53` increments it once more. -/
def roundToDouble (m : Nat) (e : Int) : Nat :=
  if m = 0 then 0 else
  let top : Int := (Nat.log2 m : Int) + e      -- 2^top ≤ m*2^e < 2^(top+1)
  let q : Int := max (top - 52) (-1074)         -- exponent of the last place
  let M := rne m (q - e)
  let bits := (q + 1074).toNat * 2 ^ 52 + M
  if bits ≥ posInf then posInf else bits

/-- `ldexp(x, k)` for a non-negative finite or +∞ `x` (bit pattern without sign) -/
def ldexpPos (b : Nat) (k : Int) : Nat :=
  if b ≥ posInf then b
  else roundToDouble (toDyadic b).1 ((toDyadic b).2 + k)

/-- `x + (double)n` for a non-negative finite or +∞ `x` and a small non-negative integer `n` -/
def addNat (b : Nat) (n : Nat) : Nat :=
  if b ≥ posInf then b
  else
    let m := (toDyadic b).1
    let e := (toDyadic b).2
    if e ≥ 0 then roundToDouble (m * 2 ^ e.toNat + n) 0
    else roundToDouble (m + n * 2 ^ (-e).toNat) e

/-- glibc `ilogb` on a finite non-zero double (zero / ∞ / NaN give the sentinel values
    `INT_MIN` / `INT_MAX`, which `asn_double2REAL` routes to its special-value branch) -/
def ilogb (b : Nat) : Int :=
  if expField b = 0 then (Nat.log2 (fracField b) : Int) - 1074
  else (expField b : Int) - 1023

/-! ### asn_double2REAL -/

/-- index of the last non-zero octet (`mstop - dscr`), 0 when there is none -/
def lastNonzero : Bytes → Nat → Nat → Nat
  | [], _, cur => cur
  | b :: bs, i, cur => lastNonzero bs (i + 1) (if b ≠ 0 then i else cur)

/-- `while(((mval >> shift_count) & 1) == 0) shift_count++;` (terminates since `0 < mval < 256`) -/
def scLoop (mval : Nat) : Nat → Nat → Nat
  | 0, sc => sc
  | fuel + 1, sc => if mval / 2 ^ sc % 2 = 0 then scLoop mval fuel (sc + 1) else sc

def shiftCount (mval : Nat) : Nat :=
  scLoop mval 8 (if mval % 16 = 0 then 4 else 1)

/-- the loop shifting `dscr[0..mstop]` right by `sc` bits;
    `accum` is the C variable (`mval << ishift`, not truncated until stored into a `uint8_t`) -/
def shiftR (sc : Nat) (accum : Nat) : Bytes → Bytes
  | [] => []
  | m :: rest => ((accum + m / 2 ^ sc) % 256) :: shiftR sc (m * 2 ^ (8 - sc)) rest

/-- first octet + exponent octets; `bm` = `bmsign` = `0x80 | sign << 6` -/
def expHeader (bm : Nat) (e : Int) : Bytes :=
  if e < 0 then
    if e ≥ -128 then [bm, (e % 256).toNat]
    else if e ≥ -32768 then [bm + 1, (e / 256 % 256).toNat, (e % 256).toNat]
    else [bm + 2, (e / 65536 % 256).toNat, (e / 256 % 256).toNat, (e % 256).toNat]
  else if e ≤ 0x7f then [bm, (e % 256).toNat]
  else if e ≤ 0x7fff then [bm + 1, (e / 256 % 256).toNat, (e % 256).toNat]
  else [bm + 2, (e / 65536 % 256).toNat, (e / 256 % 256).toNat, (e % 256).toNat]

/-- the 7 octets following the first one of the big-endian image of the double -/
def rawOctets (b : Nat) : Bytes := toBEn 7 (b % 2 ^ 56)

/-- `dscr[]` after the exponent bits are removed: `dscr[0] = 0x10 | (dscr[0] & 0x0f)` (explicit 1)
    for a normal double, `dscr[0] &= 0x0f` for a subnormal one (`expval < DBL_MIN_EXP - 1`) -/
def scratch (b : Nat) : Bytes :=
  match rawOctets b with
  | d0 :: ds => ((if ilogb b < -1022 then 0 else 16) + d0 % 16) :: ds
  | [] => []

/-- `while(mstart < mstop && *mstart == 0) mstart++;` on `dscr[0..mstop]`: leading zero octets
    are dropped, the last octet always stays -/
def stripZeros : Bytes → Bytes
  | [] => []
  | [x] => [x]
  | x :: y :: rest => if x = 0 then stripZeros (y :: rest) else x :: y :: rest

/-- second half of the general branch: `dscr` = `dscr[0..mstop]` with the exponent bits removed,
    `expval` already adjusted by `8 * ((mstop - dscr) + 1) - 4`; makes the mantissa odd
    (DER 11.3.1), skips leading zero mantissa octets and emits first octet, exponent and
    mantissa octets -/
def d2rEmit (bm : Nat) (expval : Int) (dscr : Bytes) : Bytes :=
  let mval := dscr.getLastD 0
  if mval ≠ 0 ∧ mval % 2 = 0 then
    let sc := shiftCount mval
    expHeader bm (expval + sc) ++ stripZeros (shiftR sc 0 dscr)
  else
    expHeader bm expval ++ stripZeros dscr

/-- the general (non-special) branch of `asn_double2REAL` -/
def double2REALfinite (b : Nat) : Bytes :=
  let mstop := lastNonzero (rawOctets b) 0 0          -- computed BEFORE the exponent bits are removed
  -- `if(expval < DBL_MIN_EXP - 1) expval = DBL_MIN_EXP - 1;` (subnormal: fixed exponent)
  let expval := if ilogb b < -1022 then -1022 else ilogb b
  d2rEmit (128 + 64 * signOf b) (expval - (8 * ((mstop : Int) + 1) - 4)) ((scratch b).take (mstop + 1))

/-- `asn_double2REAL(st, d)`: the content octets stored in `st` (`b` = bit pattern of `d`) -/
def double2REAL (b : Nat) : Bytes :=
  match classify b with
  | .nan => [0x42]
  | .inf => if signOf b = 1 then [0x41] else [0x40]
  | .zero => if signOf b = 1 then [0x43] else []
  | _ => double2REALfinite b

/-! ### asn_REAL2double -/

inductive R2D where
  | ok (bits : Nat)
  | erange
  | einval
  /-- ISO 6093 decimal form: handled by libc `strtod`, outside the model -/
  | decimal
deriving DecidableEq, Repr

/-- the exponent fetch: first octet as `int8_t`, then `expval = expval * 256 + octet` -/
def expValue : Bytes → Int
  | [] => 0
  | b :: bs => bs.foldl (fun (a : Int) (x : Nat) => a * 256 + x) (if b < 128 then (b : Int) else (b : Int) - 256)

/-- `for(; ptr < end; ptr++) m = ldexp(m, 8) + *ptr;` starting from `m` -/
def mantissaLoop (m : Nat) : Bytes → Nat
  | [] => m
  | b :: bs => mantissaLoop (addNat (ldexpPos m 8) b) bs

/-- binary branch once the exponent length `elen` (C variable, = octets − 1) and its offset are known -/
def REAL2doubleBin (bs : Bytes) (octv baseF elen p : Nat) : R2D :=
  if elen ≥ 3 then .erange
  else
    let expval := expValue ((bs.drop p).take (elen + 1))
    let m := mantissaLoop 0 (bs.drop (p + elen + 1))
    let scaleF := octv / 4 % 4
    let r := ldexpPos m (expval * (baseF : Int) + (scaleF : Int))
    if r ≥ posInf then .erange
    else .ok ((octv / 64 % 2) * signBit + r)

/-- `asn_REAL2double(st, &d)` on a non-NULL buffer with content octets `bs` -/
def REAL2double (bs : Bytes) : R2D :=
  match bs with
  | [] => .ok 0
  | octv :: _ =>
    if octv / 64 % 4 = 1 then
      if octv = 0x40 then .ok posInf
      else if octv = 0x41 then .ok (signBit + posInf)
      else if octv = 0x42 then .ok nanBits
      else if octv = 0x43 then .ok signBit
      else .einval
    else if octv / 64 % 4 = 0 then
      if octv = 0 ∨ octv / 4 % 16 ≠ 0 then .einval else .decimal
    else
      match (match octv / 16 % 4 with | 0 => some 1 | 1 => some 3 | 2 => some 4 | _ => none : Option Nat) with
      | none => .einval
      | some baseF =>
        if bs.length ≤ 1 + octv % 4 then .einval
        else if octv % 4 = 3 then
          let elen := bs.getD 1 0
          if elen = 0 ∨ bs.length ≤ 2 + elen then .einval
          else REAL2doubleBin bs octv baseF elen 2
        else REAL2doubleBin bs octv baseF (octv % 4) 1

end Asn1c.Impl.Real
