import Asn1cModel.Spec.Constraint
import Asn1cModel.Impl.CRange
/-
  Impl.ConsParse — from a constraint expression (`Spec.Constraint.Cons`) to the
  `asn1p_constraint_t` tree asn1c works on: model of the constraint rules of
  /repo/libasn1parser/asn1p_y.y (CONSTRAINT_INSERT, `Constraint`, `ManyConstraints`,
  `ElementSetSpecs`, `Elements`, `SizeConstraint`) for the binary, explicitly parenthesised
  sub-language, and of `asn1constraint_pullup` / `_remove_extensions`
  (/repo/libasn1fix/asn1fix_constraint.c) which builds `expr->combined_constraints`.
  Core Lean only.
-/
namespace Asn1c.Impl.ConsParse
open Asn1c.Spec.Constraint Asn1c.Impl.CRange

def endV : End → V
  | .min => .min
  | .max => .max
  | .val z => .num z

/-- `Constraint: '(' ConstraintSpec ')'` = CONSTRAINT_INSERT(ACT_CA_SET, $2, 0): wrap unless it already is an ACT_CA_SET -/
def wrapSet : CT → CT
  | .set l => .set l
  | c => .set [c]

/-- one ElementSetSpecs -/
def elemCT : Cons → CT
  | .single v => .value (.num v)
  | .range lo hi => .range (endV lo) (endV hi)
  | .union a b => .uni [elemCT a, elemCT b]
  | .inter a b => .int [elemCT a, elemCT b]
  | .except a b => .exc [elemCT a, elemCT b]
  | .paren a => .set [elemCT a]
  | .size a => .size (wrapSet (elemCT a))
  | .ext r => .csv [elemCT r, .ext]
  | .exta r a => .csv [elemCT r, .ext, elemCT a]
  | .serial a b => .set [elemCT a, elemCT b]      -- not written by the grammar at this level
  | .refine a b => .set [elemCT a, elemCT b]      -- idem

def setEls : CT → List CT
  | .set l => l
  | c => [c]

/-- `ManyConstraints`: the ACT_CA_SET of the constraints written after one type -/
def levelEls : Cons → List CT
  | .serial a b =>
    let l := setEls (wrapSet (elemCT b))
    levelEls a ++ (if l.length == 1 then l else [.set l])
  | c => setEls (wrapSet (elemCT c))

mutual
/-- `_remove_extensions(ct, 0)` -/
def removeExt : CT → CT
  | .set l => .set (removeExtList l)
  | .int l => .int (removeExtList l)
  | .csv l => .csv (removeExtList l)
  | .uni l => .uni (removeExtList l)
  | .exc l => .exc (removeExtList l)
  | .size c => .size (removeExt c)
  | c => c
def removeExtList : List CT → List CT
  | [] => []
  | .ext :: _ => []
  | c :: rest => removeExt c :: removeExtList rest
end

/-- `_remove_extensions(ct, 1)` on the top ACT_CA_SET: the last constraint keeps its marker -/
def removeExtTop : List CT → List CT
  | [] => []
  | .ext :: _ => []
  | [c] => [c]
  | c :: rest => removeExt c :: removeExtTop rest

/-- `asn1constraint_pullup`: the elements of `expr->combined_constraints` -/
def combinedEls : Cons → List CT
  | .refine a b => removeExtList (combinedEls a) ++ removeExtTop (levelEls b)
  | c => removeExtTop (levelEls c)

def combined (c : Cons) : CT := .set (combinedEls c)

end Asn1c.Impl.ConsParse
