import Asn1cModel.Base
/-
  Impl model of skeletons/asn_bit_data.c (bit-position semantics).

  The decoder's bit source (`asn_bit_data_t` without a refill callback, as used by
  `uper_decode`) is a `Bits` list: the bits from the current position to `nbits`.
  A read returns `none` where C returns -1; otherwise the value and the remaining bits.
  The encoder's sink (`asn_bit_outp_t`) is the list of bits written so far; *when* the 32-byte
  `tmpspace` is handed to the callback is deliberately not modelled (callback assumed to succeed).

  A second, byte-level model of `asn_get_few_bits` (`getFewRaw`: buffer / nboff / nbits, every
  `buf[i]` an explicit partial lookup with outcome `oob`) is given at the end; Proofs/PerSupport
  shows that it never reaches `oob` and computes the same value as the bit-list model.
-/
namespace Asn1c.Impl.BitData
open Asn1c

/-- `asn_get_few_bits(pd, nbits)`, `0 ≤ nbits`: -1 when fewer than `nbits` bits are left or `nbits > 31`
    (C: `nbits > nleft` → -1 (no refill); `off > 31 && nbits > 31` → undo, -1) -/
def getFewBits (n : Nat) (bs : Bits) : Option (Nat × Bits) :=
  if n > 31 then none
  else if (bs.take n).length < n then none       -- fewer than `n` bits left (`bs.length < n`, computed in O(n))
  else some (bitsVal 0 (bs.take n), bs.drop n)

/-- the C `int nbits` argument: negative → -1 -/
def getFewBitsI (n : Int) (bs : Bits) : Option (Nat × Bits) :=
  if n < 0 then none else getFewBits n.toNat bs

/-- the `while(nbits)` loop of `asn_get_many_bits` (left-aligned tail) -/
def getManyLoop (nbits : Nat) (bs : Bits) : Option (Bytes × Bits) :=
  if nbits = 0 then some ([], bs)
  else if nbits ≥ 24 then
    match getFewBits 24 bs with
    | none => none
    | some (v, bs') =>
      match getManyLoop (nbits - 24) bs' with
      | none => none
      | some (out, r) => some (v / 65536 % 256 :: v / 256 % 256 :: v % 256 :: out, r)
  else
    match getFewBits nbits bs with
    | none => none
    | some (v, bs') =>
      -- `if(nbits & 7) { value <<= 8 - (nbits & 7); nbits += 8 - (nbits & 7); }`
      let v' := if nbits % 8 ≠ 0 then v * 2 ^ (8 - nbits % 8) else v
      let nb := if nbits % 8 ≠ 0 then nbits + (8 - nbits % 8) else nbits
      some ((if nbits % 8 ≠ 0 ∧ nb > 24 then [v' / 16777216 % 256] else [])
            ++ (if nb > 16 then [v' / 65536 % 256] else [])
            ++ (if nb > 8 then [v' / 256 % 256] else [])
            ++ [v' % 256], bs')
termination_by nbits
decreasing_by omega

/-- `asn_get_many_bits(pd, dst, alright, nbits)`: the octets stored into `dst` -/
def getManyBits (alright : Bool) (nbits : Nat) (bs : Bits) : Option (Bytes × Bits) :=
  if alright ∧ nbits % 8 ≠ 0 then
    match getFewBits (nbits % 8) bs with
    | none => none
    | some (v, bs') =>
      match getManyLoop (nbits - nbits % 8) bs' with
      | none => none
      | some (out, r) => some (v % 256 :: out, r)
  else getManyLoop nbits bs

/-- `asn_put_few_bits(po, bits, obits)`: `none` = -1 (obits ≥ 32; negative obits are handled by
    `putFewBitsI`).  The value is masked: `bits &= (1 << obits) - 1`, so bits of `v` above `obits`
    are silently dropped.  (The `off > 31` case splits into 24 + (obits-24) bits, which is the same
    bit string.) -/
def putFewBits (obits : Nat) (v : Nat) : Option Bits :=
  if obits ≥ 32 then none else some (natBits obits v)

def putFewBitsI (obits : Int) (v : Nat) : Option Bits :=
  if obits < 0 then none else putFewBits obits.toNat v

/-- `asn_put_many_bits(po, src, nbits)`; reads of `src` beyond its end are modelled as 0
    (encoder side; callers pass `8 * size - unused` bits of a `size`-octet buffer) -/
def putManyBits (src : Bytes) (nbits : Nat) : Bits :=
  if nbits = 0 then []
  else if nbits ≥ 24 then
    natBits 24 (src.getD 0 0 * 65536 + src.getD 1 0 * 256 + src.getD 2 0) ++ putManyBits (src.drop 3) (nbits - 24)
  else
    let v0 := src.getD 0 0
    let v1 := if nbits > 8 then v0 * 256 + src.getD 1 0 else v0
    let v2 := if nbits > 16 then v1 * 256 + src.getD 2 0 else v1
    let v3 := if nbits % 8 ≠ 0 then v2 / 2 ^ (8 - nbits % 8) else v2
    natBits nbits v3
termination_by nbits
decreasing_by omega

/-- `asn_put_aligned_flush`: everything written so far, zero-padded to an octet boundary -/
def alignedFlush (written : Bits) : Bytes := bitsToBytes written

/-! ### byte-level model of `asn_get_few_bits` (for the no-out-of-bounds statement) -/

/-- `asn_bit_data_t` without refill: `buf` = octets from `pd->buffer` to the end of the allocation -/
structure Src where
  buf : Bytes
  nboff : Nat
  nbits : Nat
deriving Repr, DecidableEq

inductive RawRes where
  | ok (v : Nat) (s : Src)
  | fail                       -- -1
  | oob                        -- a `buf[i]` outside the buffer
deriving Repr, DecidableEq

/-- one `buf[i]` read -/
def rd (buf : Bytes) (i : Nat) (k : Nat → RawRes) : RawRes :=
  match buf[i]? with
  | none => .oob
  | some b => k b

/-- `pd->buffer += nboff >> 3; pd->nbits -= nboff & ~7; pd->nboff &= 7` -/
def Src.normalize (s : Src) : Src :=
  if s.nboff ≥ 8 then ⟨s.buf.drop (s.nboff / 8), s.nboff % 8, s.nbits - (s.nboff - s.nboff % 8)⟩ else s

/-- one activation of `asn_get_few_bits` that does not take the `off > 31` branch
    (end-of-data test, normalisation, the four `off` cases) -/
def getFewRawCore (s : Src) (nbits : Nat) : RawRes :=
  if (nbits : Int) > (s.nbits : Int) - s.nboff then .fail          -- `nbits > nleft`, no refill
  else
  let s1 := s.normalize
  let off := s1.nboff + nbits
  let s2 : Src := { s1 with nboff := off }
  let fin (accum : Nat) : RawRes := .ok (accum % 2 ^ nbits) s2
  if off ≤ 8 then
    if nbits ≠ 0 then rd s1.buf 0 fun b0 => fin (b0 / 2 ^ (8 - off)) else fin 0
  else if off ≤ 16 then
    rd s1.buf 0 fun b0 => rd s1.buf 1 fun b1 => fin ((b0 * 256 + b1) / 2 ^ (16 - off))
  else if off ≤ 24 then
    rd s1.buf 0 fun b0 => rd s1.buf 1 fun b1 => rd s1.buf 2 fun b2 =>
      fin ((b0 * 65536 + b1 * 256 + b2) / 2 ^ (24 - off))
  else if off ≤ 31 then
    rd s1.buf 0 fun b0 => rd s1.buf 1 fun b1 => rd s1.buf 2 fun b2 => rd s1.buf 3 fun b3 =>
      fin ((b0 * 16777216 + b1 * 65536 + b2 * 256 + b3) / 2 ^ (32 - off))
  else .fail   -- `off > 31` is handled by `getFewRaw`

/-- `asn_get_few_bits` on the byte buffer (no refill callback) -/
def getFewRaw (s : Src) (nbits : Nat) : RawRes :=
  if (nbits : Int) > (s.nbits : Int) - s.nboff then .fail
  else
    let s1 := s.normalize
    if s1.nboff + nbits ≤ 31 then getFewRawCore s nbits
    else if nbits ≤ 31 then
      -- `tpd = *pd; asn_get_undo(&tpd, nbits)` = the normalised, not yet advanced position;
      -- `accum = get(&tpd, nbits - 24) << 24; accum |= get(&tpd, 24)`
      match getFewRawCore s1 (nbits - 24) with
      | .ok hi t =>
        match getFewRawCore t 24 with
        | .ok lo _ => .ok ((hi * 16777216 + lo) % 2 ^ nbits) { s1 with nboff := s1.nboff + nbits }
        | r => r
      | r => r
    else .fail                                       -- `asn_get_undo(pd, nbits); return -1`

end Asn1c.Impl.BitData
