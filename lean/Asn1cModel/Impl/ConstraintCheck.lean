/-
  Impl for C08 (core Lean only): what `asn_check_constraints` does on a generated module.

  Mirrors, as they are in the tree (defects included):
  * libasn1compiler/asn1c_constraint.c
      `emit_range_comparison_code`          → `emitOne` / `emitRange` (+ `Cmp.eval`: the C comparison)
      `native_long_sign`, `asn1c_type_fits_long` (asn1c_misc.c)
      `asn1c_emit_constraint_checking_code` → `genInt`, `genStr`, `genSize`
      `asn1c_emit_constraint_tables`, `emit_alphabet_check_loop` → `alphaCheck`
  * libasn1compiler/asn1c_C.c: which descriptor slot gets which checker (type level vs member
      level, fall back `td->encoding_constraints.general_constraints(td, …)`), → `descrChk`,
      `occChk`, `memberChk`
  * skeletons: SEQUENCE_/SET_/CHOICE_/SET_OF_constraint → `walkSeq`, `walkSet`, `walkAlt`,
      `firstFail`; the built-in string checkers → `builtinStr`; UTF8String_length → `utf8Length`;
      constraints.c `_asn_i_ctfailcb` / `asn_check_constraints` → `ctfail`, `reportErr`.

  LP64, default compiler options (no -fwide-types), non-extensible constraints.
-/
import Asn1cModel.Spec.ConstraintCheck
import Asn1cModel.Generated.AlphabetTables
namespace Asn1c.Impl.ConstraintCheck
open Asn1c.Spec.ConstraintCheck
open Asn1c.Generated.AlphabetTables

/-! ### emit_range_comparison_code -/

/-- one parenthesised comparison group of the emitted C condition on the variable -/
inductive Cmp where
  | le (c : Int)            -- `var <= c`
  | ge (c : Int)            -- `var >= c`
  | eq (c : Int)            -- `var == c`
  | between (lo hi : Int)   -- `var >= lo && var <= hi`
deriving Repr, DecidableEq

/-- the emitted text is a disjunction of groups; `[]` is the empty buffer (`ab->length == 0`) -/
abbrev Code := List Cmp

/-- the C comparison.  gcc gives constants beyond `long long` the type `__int128`, the variable is
    `long` / `unsigned long` / `size_t` / `uintN_t` and every constant compared with an unsigned
    variable is non-negative, so each comparison is the mathematical one. -/
def Cmp.eval : Cmp → Int → Bool
  | .le c, x => decide (x ≤ c)
  | .ge c, x => decide (x ≥ c)
  | .eq c, x => decide (x = c)
  | .between lo hi, x => decide (x ≥ lo) && decide (x ≤ hi)

def Code.eval (cs : Code) (x : Int) : Bool := cs.any (·.eval x)

/-- `ignore_left`: MIN, or the bound is not above the natural start of the C type -/
def ignoreLeft (r : Range) (ns : Option Int) : Bool :=
  match r.lo, ns with
  | none, _ => true
  | some _, none => false
  | some l, some s => decide (l ≤ s)

def ignoreRight (r : Range) (ne : Option Int) : Bool :=
  match r.hi, ne with
  | none, _ => true
  | some _, none => false
  | some h, some e => decide (h ≥ e)

/-- the `el_count == 0` branch; `none` = nothing printed -/
def emitOne (r : Range) (ns ne : Option Int) : Option Cmp :=
  let il := ignoreLeft r ns
  let ir := ignoreRight r ne
  if il && ir then none
  else if il then some (.le (r.hi.getD 0))
  else if ir then some (.ge (r.lo.getD 0))
  else if r.lo.getD 0 == r.hi.getD 0 then some (.eq (r.hi.getD 0))
  else some (.between (r.lo.getD 0) (r.hi.getD 0))

/-- `emit_range_comparison_code(range, var, natural_start, natural_stop)` (`-1` = none in C):
    a single range is printed directly, a union prints its non-empty element texts joined by `||`
    (elements that print nothing are *ignored*) -/
def emitRange (rs : Cons) (ns ne : Option Int) : Code := rs.filterMap (emitOne · ns ne)

/-- leftmost / rightmost edge of the whole constraint (`range->left`, `range->right`) -/
def overallLo : Cons → Option Int
  | [] => none
  | [r] => r.lo
  | r :: rs => match r.lo, overallLo rs with
    | some a, some b => some (min a b)
    | _, _ => none

def overallHi : Cons → Option Int
  | [] => none
  | [r] => r.hi
  | r :: rs => match r.hi, overallHi rs with
    | some a, some b => some (max a b)
    | _, _ => none

/-! ### INTEGER: C representation and the emitted test -/

inductive IntRepr where
  | long | ulong | wide
deriving Repr, DecidableEq

/-- asn1c_type_fits_long (32-bit assumptions, no -fwide-types) for a constrained INTEGER -/
def fitsLong (rs : Cons) : IntRepr :=
  match overallLo rs, overallHi rs with
  | some l, none => if 0 ≤ l && l ≤ 2147483647 then .ulong
                    else if l < -2147483648 || l > 2147483647 then .wide else .long
  | some l, some r =>
      if 0 ≤ l && 2147483647 < r && r ≤ 4294967295 then .ulong
      else if l < -2147483648 || l > 2147483647 || r > 2147483647 || r < -2147483648 then .wide
      else .long
  | none, some r => if r > 2147483647 || r < -2147483648 then .wide else .long
  | none, none => .long

/-- native_long_sign: 1 unsigned, 0 = exactly `(0..4294967295)` (also unsigned; the callers only
    test `≥ 0` since the `ulong_optimization` shortcut is gone, F26), -1 signed.
    Last clause (repair of F81): an INTEGER_t (`FL_NOTFIT`) whose lower edge is a value ≥ 0 is read
    as `unsigned long` too — except the plain `(0..MAX)`, which the generated code tests by looking
    at the sign bit (not reachable here: without -fwide-types `(0..MAX)` is an `unsigned long`). -/
def nativeLongSign (rs : Cons) : Int :=
  match overallLo rs, overallHi rs with
  | some l, none =>
      if 0 ≤ l && l ≤ 2147483647 then 1
      else if 0 ≤ l && (0 < l || rs.length ≥ 2) && fitsLong rs == .wide then 1 else -1
  | some l, some r =>
      if 0 ≤ l && 2147483647 < r && r ≤ 4294967295 then
        (if rs.length == 1 && l == 0 && r == 4294967295 then 0 else 1)
      else if 0 ≤ l && fitsLong rs == .wide then 1
      else -1
  | _, _ => -1

/-- outcome of one checker invocation -/
inductive Why where
  | constraintFailed | valueTooLarge | utf8Broken | alphabet | badSize | padding
  | absent | noChoice | illTyped
deriving Repr, DecidableEq

inductive Verdict where
  | ok
  /-- `-1`, the message starts with `name:` -/
  | fail (name : String) (why : Why)
deriving Repr, DecidableEq

/-- result of the generated `if(...)`: the test passed, failed, or nothing applicable was
    emitted (`1 /* No applicable constraints whatsoever */`, the caller then falls back: the
    type-level function `<T>_constraint` to the checker of the underlying type
    (`return NativeInteger_constraint(td, …)`, `OCTET_STRING_constraint`, `SET_OF_constraint`, …),
    the member-level function to `td->encoding_constraints.general_constraints`, the checker of
    the member's type) -/
inductive Gen where
  | pass | fail (why : Why) | noTest
deriving Repr, DecidableEq

/-- what the generated code reads from the structure (`long` / `unsigned long` member, or
    INTEGER_t through asn_INTEGER2long — asn_INTEGER2ulong when `unsigned long value` was declared,
    `usign`; `none` = "value too large") -/
def readInt (repr : IntRepr) (usign : Bool) (v : Int) : Option Int :=
  match repr with
  | .long => some v
  | .ulong => some v
  | .wide =>
    if usign then (if 0 ≤ v && v ≤ 18446744073709551615 then some v else none)
    else if -9223372036854775808 ≤ v && v ≤ 9223372036854775807 then some v else none

/-- asn1c_emit_constraint_checking_code for INTEGER with constraint `rs` -/
def genInt (rs : Cons) (v : Int) : Gen :=
  -- r_value is dropped when it is the single range MIN..MAX (`el_count == 0`; a union is kept: F85)
  if decide (rs.length ≤ 1) && (overallLo rs).isNone && (overallHi rs).isNone then .noTest
  else
    let sign := nativeLongSign rs                                      -- ≥ 0: `unsigned long value`
    match readInt (fitsLong rs) (decide (sign ≥ 0)) v with
    | none => .fail .valueTooLarge
    | some x =>
      let code := emitRange rs (if sign ≥ 0 then some 0 else none) none
      if code.isEmpty then .noTest
      else if code.eval x then .pass else .fail .constraintFailed

/-! ### strings -/

/-- UTF8String__process without a destination: number of characters, `none` = any U8E_* error.
    Uses the extracted tables. -/
def utf8Want (b0 : Nat) : Option Nat :=
  match utf8Ht0[b0 / 16]? with
  | some w =>
    if w == -1 then
      match utf8Ht1[b0 % 16]? with
      | some w2 => if w2 ≤ 0 then none else some w2.toNat
      | none => none
    else if w ≤ 0 then none else some w.toNat
  | none => none

/-- the continuation loop: `value = (value << 6) | (ch & 0x3F)`, each octet in 0x80..0xBF -/
def utf8Cont : List Nat → Nat → Option Nat
  | [], acc => some acc
  | c :: cs, acc => if c < 128 || c > 191 then none else utf8Cont cs (acc * 64 + c % 64)

def utf8Length : Nat → List Nat → Option Nat
  | _, [] => some 0
  | 0, _ :: _ => none
  | fuel + 1, b0 :: rest =>
    match utf8Want b0 with
    | none => none                                     -- U8E_ILLSTART
    | some want =>
      if rest.length + 1 < want then none              -- U8E_TRUNC
      else
        match utf8Cont (rest.take (want - 1)) (b0 % (2 ^ (8 - want))) with
        | none => none                                 -- U8E_NOTCONT
        | some value =>
          if value < utf8Mv.getD want 0 then none      -- U8E_NOTMIN
          else (utf8Length fuel (rest.drop (want - 1))).map (· + 1)

def skelName : StrKind → String
  | .octet => "OCTET STRING" | .bit => "BIT STRING" | .ia5 => "IA5String"
  | .visible => "VisibleString" | .printable => "PrintableString" | .numeric => "NumericString"
  | .utf8 => "UTF8String" | .bmp => "BMPString" | .universal => "UniversalString"

/-- the checker in the skeleton descriptor of an unconstrained string type -/
def builtinStr (k : StrKind) (name : String) (bs : List Nat) (unused : Nat) : Verdict :=
  match k with
  | .octet => .ok                                                     -- asn_generic_no_constraint
  | .bit => if (bs.isEmpty && unused != 0) || unused > 7 then .fail name .padding else .ok
  | .ia5 => if bs.all (fun b => !(b > ia5Hi)) then .ok else .fail name .alphabet
  | .visible => if bs.all (fun b => !(b < visibleLo || b > visibleHi)) then .ok else .fail name .alphabet
  | .printable => if bs.all (fun b => printableTable.getD b 0 != 0) then .ok else .fail name .alphabet
  | .numeric => if bs.all (fun b => numericCases.contains b) then .ok else .fail name .alphabet
  | .utf8 => if (utf8Length bs.length bs).isSome then .ok else .fail name .utf8Broken
  | .bmp => if bs.length % 2 == 0 then .ok else .fail name .badSize
  | .universal => if bs.length % 4 == 0 then .ok else .fail name .badSize

def toCons (rs : List (Nat × Nat)) : Cons := rs.map fun (a, b) => ⟨some a, some b⟩

/-- the compiler's default permitted alphabet (asn1constraint_default_alphabet); `none` for the
    types FROM is not computed for -/
def defaultAlphabet : StrKind → Option Cons
  | .ia5 => some (toCons compilerIa5)
  | .visible => some (toCons compilerVisible)
  | .printable => some (toCons compilerPrintable)
  | .numeric => some (toCons compilerNumeric)
  | .bmp => some (toCons compilerBmp)
  | .universal => some (toCons compilerUniversal)
  | .utf8 => some [⟨some 0, some 2147483647⟩]
  | _ => none

/-- octets per character of the alphabet loop and the `natural_stop` of its variable -/
def charWidth : StrKind → Nat
  | .bmp => 2 | .universal => 4 | _ => 1
def naturalStop : StrKind → Int
  | .bmp => 65535 | .universal => 4294967295 | .utf8 => 4294967295 | _ => 255

/-- characters the alphabet loop iterates over (it reads `width` octets per step; a trailing
    partial group is excluded by the `size % width` test before the loop) -/
def loopChars (w : Nat) : Nat → List Nat → List Nat
  | _, [] => []
  | 0, _ => []
  | fuel + 1, bs => if bs.length < w || w == 0 then [] else ofBE 0 (bs.take w) :: loopChars w fuel (bs.drop w)

/-- the FROM range the compiler works with: the written one, else the default alphabet -/
def alphaRanges (k : StrKind) (alpha : Option Cons) : Option Cons :=
  match alpha with
  | some rs => some rs
  | none => defaultAlphabet k

/-- table (`permitted_alphabet_table_N`) or comparison loop?  A single range (`el_count == 0`) is
    tested by comparisons — except for UTF8String, which is tested through the table or not at all
    (repair of F83) -/
def useTable (k : StrKind) (rs : Cons) : Bool :=
  let stop := (overallHi rs).getD 0
  (decide (rs.length ≥ 2) || k == .utf8) && decide (stop ≤ 255) && (k != .utf8 || decide (stop < 128))

/-- the test applied to one character `cv` by the loop of `check_permitted_alphabet_N` -/
def charOK (k : StrKind) (rs : Cons) (cv : Nat) : Bool :=
  if useTable k rs then !(decide (cv > 255)) && inCons rs cv            -- `if(cv > 255) return -1; if(!table[cv]) return -1;`
  else
    let code := emitRange rs (some 0) (some (naturalStop k))
    code.isEmpty || code.eval cv                                         -- `(void)cv;` when nothing is printed

/-- the loop for the fixed-width character types (1 / 2 / 4 octets per character) -/
def alphaFixed (k : StrKind) (rs : Cons) (bs : List Nat) : Bool :=
  bs.length % charWidth k == 0 && (loopChars (charWidth k) bs.length bs).all (charOK k rs)

/-- `check_permitted_alphabet_N`: `none` = the function is not emitted; `some b` = its verdict -/
def alphaCheck (k : StrKind) (alpha : Option Cons) (gotSize : Bool) (bs : List Nat) : Option Bool :=
  match k with
  | .octet | .bit => none
  | .utf8 =>
    match alphaRanges .utf8 alpha with
    | none => none
    | some rs =>
      if useTable .utf8 rs then
        some (bs.all fun cv => !(decide (cv ≥ 128)) && inCons rs cv)     -- table[cv], 128 entries
      else if gotSize then none                                          -- "size has been determined"
      else some (utf8Length bs.length bs).isSome                         -- utf8_full_alphabet_check
  | _ => (alphaRanges k alpha).map fun rs => alphaFixed k rs bs

/-- `emit_size_determination_code`: `none` = UTF-8 broken encoding -/
def strSize (k : StrKind) (bs : List Nat) (unused : Nat) : Option Nat :=
  match k with
  | .bit => some (if bs.length > 0 then 8 * bs.length - unused % 8 else 0)
  | .universal => some (bs.length / 4)
  | .bmp => some (bs.length / 2)
  | .utf8 => utf8Length bs.length bs
  | _ => some bs.length

/-- is `r_size` kept?  (the single range with `left.value == 0 && right == MAX` is dropped; a union
    is kept: F85) -/
def keepSize (rs : Cons) : Bool :=
  !(decide (rs.length ≤ 1) && (overallLo rs == some 0 || (overallLo rs).isNone) && (overallHi rs).isNone)

/-- the emitted size test on `size` (`natural_start` 0): `none` = nothing printed -/
def sizeTest (rs : Cons) (n : Nat) : Option Bool :=
  let code := emitRange rs (some 0) none
  if code.isEmpty then none else some (code.eval n)

/-- `r_size` after the vacuity test -/
def keptSize (size : Option Cons) : Option Cons :=
  match size with
  | some rs => if keepSize rs then some rs else none
  | none => none

/-- the generated `if(size-test && value-test && !check_permitted_alphabet_N(st))`:
    `none` = that conjunct is not printed -/
def combine (st al : Option Bool) : Gen :=
  match st, al with
  | none, none => .noTest
  | _, _ => if st.getD true && al.getD true then .pass else .fail .constraintFailed

/-- asn1c_emit_constraint_checking_code for a string type with SIZE / FROM -/
def genStr (k : StrKind) (size alpha : Option Cons) (bs : List Nat) (unused : Nat) : Gen :=
  match keptSize size with
  | some rs =>
    match strSize k bs unused with
    | none => .fail .utf8Broken
    | some n => combine (sizeTest rs n) (alphaCheck k alpha true bs)
  | none => combine none (alphaCheck k alpha false bs)

/-- the size part of the generated checker of a SEQUENCE OF / SET OF -/
def genSize (size : Cons) (n : Nat) : Gen :=
  if keepSize size then
    match sizeTest size n with
    | none => .noTest
    | some true => .pass
    | some false => .fail .constraintFailed
  else .noTest

/-! ### which checker sits in which slot; the walkers -/

/-- does the component carry constraints of its own (`expr->constraints`), i.e. a member-level
    checker `memb_<id>_constraint_N`? -/
def hasOwn : Ty → Bool
  | .int (some _) => true
  | .str _ (some _) _ => true
  | .str _ _ (some _) => true
  | .listOf _ (some _) _ => true
  | _ => false

/-- `td->name` of the descriptor a component with inline type `t` points to -/
def inlineName (id : String) : Ty → String
  | .bool => "BOOLEAN"
  | .null => "NULL"
  | .enumerated => id
  | .int none => "INTEGER"
  | .int (some rs) => if fitsLong rs == .ulong then id else "INTEGER"
  | .str k _ _ => skelName k
  | .named n _ => n
  | _ => id

/-- name given to an anonymous element type of SEQUENCE OF / SET OF -/
def elemId : Ty → String
  | .seq _ => "SEQUENCE" | .set _ => "SET" | .choice _ => "CHOICE"
  | .listOf true _ _ => "SET OF" | .listOf false _ _ => "SEQUENCE OF"
  | .enumerated => "ENUMERATED"
  | _ => "Member"

/-- SET_OF_constraint loop: first non-zero verdict -/
def firstFail (f : Val → Verdict) : List Val → Verdict
  | [] => .ok
  | v :: vs => match f v with
    | .ok => firstFail f vs
    | r => r

def ofGen (name : String) (fallback : Verdict) (cont : Verdict) : Gen → Verdict
  | .pass => cont
  | .fail w => .fail name w
  | .noTest => fallback

/-- What the walker calls for a present component `id : t`, given `occ`, the verdict of the
    checker of its type (`elm->type->encoding_constraints.general_constraints`): the member-level
    checker `memb_<id>_constraint_N` when the component carries constraints of its own — which
    falls back to `occ` when nothing applicable was emitted — else `occ` itself. -/
def memberSel (id : String) (t : Ty) (v : Val) (occ : Verdict) : Verdict :=
  match t, v with
  | .int (some rs), .int i => ofGen (inlineName id t) occ .ok (genInt rs i)
  | .str k size alpha, v =>
      (match strValue k v with
       | some (bs, u) =>
         if size.isNone && alpha.isNone then occ
         else ofGen (skelName k) occ .ok (genStr k size alpha bs u)
       | none => occ)
  | .listOf _ (some rs) _, .list vs => ofGen id occ occ (genSize rs vs.length)
  | _, _ => occ

mutual
/-- the checker stored in the descriptor named `nm` whose type is `t` (directly, or through
    reference hops `T2 ::= T1`: the reference path of the compiler and the path for named
    SEQUENCE OF / SET OF types emit the same checker) -/
def descrChk (nm : String) : Ty → Val → Verdict
  | .named _ t, v => descrChk nm t v
  | .bool, .bool _ => .ok
  | .null, .null => .ok
  | .enumerated, .enum _ => .ok
  | .int none, .int _ => .ok                                         -- asn_generic_no_constraint
  | .int (some rs), .int i => ofGen nm .ok .ok (genInt rs i)         -- fall back = NativeInteger_/INTEGER_constraint
  | .str k size alpha, v =>
      (match strValue k v with
       | some (bs, u) =>
         if size.isNone && alpha.isNone then builtinStr k nm bs u
         else ofGen nm (builtinStr k nm bs u) .ok (genStr k size alpha bs u)   -- fall back = skeleton checker
       | none => .fail nm .illTyped)
  | .seq ms, .struct fs => walkSeq nm ms fs
  | .set ms, .struct fs => walkSet nm ms fs
  | .choice ms, .choice sel v => walkAlt nm ms sel v
  | .choice _, .choiceNone => .fail nm .noChoice
  | .listOf _ size elem, .list vs =>
      let walk := firstFail (fun v => memberSel (elemId elem) elem v (occChk (elemId elem) elem v)) vs
      match size with
      | some rs => ofGen nm walk walk (genSize rs vs.length)             -- `<T>_constraint`; fall back = SET_OF_constraint
      | none => walk                                                     -- SET_OF_constraint / SEQUENCE_OF_constraint
  | _, _ => .fail nm .illTyped
/-- the checker of `elm->type` for a component `id` of type `t` -/
def occChk (id : String) : Ty → Val → Verdict
  | .named n t, v => descrChk n t v
  | .int (some rs), .int i =>
      if fitsLong rs == .ulong then ofGen id .ok .ok (genInt rs i)         -- own descriptor `id_N`
      else .ok                                                            -- asn_DEF_NativeInteger / INTEGER
  | .int none, .int _ => .ok
  | .bool, .bool _ => .ok
  | .null, .null => .ok
  | .enumerated, .enum _ => .ok
  | .str k _ _, v =>
      (match strValue k v with
       | some (bs, u) => builtinStr k (skelName k) bs u
       | none => .fail id .illTyped)
  | .seq ms, .struct fs => walkSeq id ms fs
  | .set ms, .struct fs => walkSet id ms fs
  | .choice ms, .choice sel v => walkAlt id ms sel v
  | .choice _, .choiceNone => .fail id .noChoice
  | .listOf _ _ elem, .list vs =>
      firstFail (fun v => memberSel (elemId elem) elem v (occChk (elemId elem) elem v)) vs
  | _, _ => .fail id .illTyped
/-- SEQUENCE_constraint: every present component is checked in member order (member-level checker
    when it has one, else the checker of its type — `memberSel`); the first non-zero verdict is
    returned (`int ret = …; if(ret) return ret;` in both branches) -/
def walkSeq (nm : String) : Members → List (String × Val) → Verdict
  | .nil, _ => .ok
  | .cons id opt t rest, fs =>
    match lookupField id fs with
    | none => if opt then walkSeq nm rest fs else .fail nm .absent
    | some v =>
      match memberSel id t v (occChk id t v) with
      | .ok => walkSeq nm rest fs
      | r => r
/-- SET_constraint: the same loop -/
def walkSet (nm : String) : Members → List (String × Val) → Verdict
  | .nil, _ => .ok
  | .cons id opt t rest, fs =>
    match lookupField id fs with
    | none => if opt then walkSet nm rest fs else .fail nm .absent
    | some v =>
      match memberSel id t v (occChk id t v) with
      | .ok => walkSet nm rest fs
      | r => r
/-- CHOICE_constraint -/
def walkAlt (nm : String) : Members → String → Val → Verdict
  | .nil, _, _ => .fail nm .noChoice
  | .cons id _ t rest, sel, v =>
      if id == sel then memberSel id t v (occChk id t v) else walkAlt nm rest sel v
end

/-- the verdict the walkers obtain for a present component -/
def memberChk (id : String) (t : Ty) (v : Val) : Verdict := memberSel id t v (occChk id t v)

/-- `asn_check_constraints(&asn_DEF_<name>, value, …)` for the type assignment `name ::= t` -/
def check (name : String) (t : Ty) (v : Val) : Verdict := descrChk name t v

/-! ### constraints.c: `_asn_i_ctfailcb` and `asn_check_constraints` -/

/-- `_asn_i_ctfailcb` with a conforming `vsnprintf`: the octets written into `errbuf`
    (`[]` = nothing written) and the value left in `arg->errlen`.  `msg` is the formatted text
    without its NUL. -/
def ctfail (errlen : Nat) (msg : List Nat) : List Nat × Nat :=
  if errlen = 0 then ([], 0)
  else if msg.length ≥ errlen then (msg.take (errlen - 1) ++ [0], errlen - 1)
  else (msg ++ [0], msg.length)

/-- `asn_check_constraints`: returns (rc, octets written, *errlen afterwards) -/
def reportErr (failed : Option (List Nat)) (errlen : Nat) : Int × List Nat × Nat :=
  match failed with
  | none => (0, [], errlen)
  | some msg => let (w, n) := ctfail errlen msg; (-1, w, n)

end Asn1c.Impl.ConstraintCheck
