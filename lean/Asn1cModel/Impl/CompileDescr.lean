import Asn1cModel.Sexp
import Asn1cModel.Impl.BerTlv
import Asn1cModel.L2.Resolve
import Asn1cModel.Impl.ConsParse
import Asn1cModel.Impl.CTables
/-
  Impl.CompileDescr — model of the COMPILER's translation "module AST → descriptor tables":
  what /repo/libasn1fix (tag fixing, automatic tagging, tag chains: asn1fix_constr.c, asn1fix_tags.c)
  and /repo/libasn1compiler/asn1c_C.c (emit_tags_vectors, _fill_tag2el_map, emit_member_table,
  asn1c_lang_C_type_{SEQUENCE,SET,CHOICE,SEx_OF}_def, asn1c_lang_C_type_common_INTEGER,
  emit_member_{PER,OER}_constraints, emit_type_DEF, compute_canonical_members_order) put into the
  `asn_TYPE_descriptor_t` graph, computed from the generator's module s-expression (the same one the
  L2 reference codecs resolve, see `L2/Resolve.lean` for the format).

  `compileDescr M opts names T` is compared field by field with the `descr` dump (harness/reflect.c
  `rf_dump_descr`) of the code asn1c really generated (vlib/c10_compile.py).  Mirrors the code as it is.

  Modelled = every field `rf_dump_descr` prints: name, kind (native / wide representation), tags, all_tags,
  PER value/size records, OER width/positive/size, SEQUENCE first_extension / roms / aoms / oms / tag2el with
  toff_first / toff_last, SET extensible flag / tag2el, CHOICE ext_start / tag2el / to_canonical / from_canonical,
  INTEGER/ENUMERATED specifics (unsigned, strict, extension, value2enum), per member: name, flags (ATF_POINTER),
  optional run length, tag (or the ambiguous marker), tag_mode, default_value_cmp present, member-level PER/OER
  records, and which descriptor `type` points to (own generated / shared skeleton / named type; pointer identity
  as `(ref …)`), under the options -fwide-types, -findirect-choice, -no-gen-PER, -no-gen-OER.

  Not modelled (not dumped): pointer-ness caused by recursion breaking (`expr_break_recursion`; the generated
  recursive types only recurse through SET OF / OPTIONAL members, which are pointers anyway), `_presence_map` /
  mandatory-elements map and `tag2el_cxer` of SET, `enum2value`, PER alphabet code maps, general constraint
  functions, struct sizes/offsets, XER names; parameterized types, information object classes, COMPONENTS OF, ANY,
  named numbers / named bits, multiple extension markers, constraints beyond one value/size range + alphabet.
  Core Lean only.
-/
namespace Asn1c.Impl.CompileDescr
open Asn1c Asn1c.Impl.BerTlv

/-! ## module AST (the generator's s-expression, typed) -/

/-- `tag_mode`: TM_DEFAULT / TM_IMPLICIT / TM_EXPLICIT -/
inductive Mode where
  | dflt | imp | exp
deriving DecidableEq, Repr, Inhabited

/-- a written (or automatically assigned) tag: `[class number] MODE` -/
structure WTag where
  tag : Tag
  mode : Mode
deriving DecidableEq, Repr, Inhabited

/-- `(lo..hi[,...])`; `none` = MIN / MAX -/
structure Cons where
  lo : Option Int
  hi : Option Int
  ext : Bool
deriving DecidableEq, Repr, Inhabited

inductive PrimK where
  | boolean | null | real | oid | roid | utcTime | genTime
deriving DecidableEq, Repr, Inhabited

inductive CK where
  | sequence | set | choice
deriving DecidableEq, Repr, Inhabited

/-- mandatory / OPTIONAL / DEFAULT v (v: the default value as the L2 codecs read it) -/
inductive Opt where
  | mand
  | opt
  | dflt (v : Option L2.Val)
deriving Repr, Inhabited

def Opt.isMand : Opt → Bool
  | .mand => true
  | _ => false

mutual
inductive CTy where
  | prim (tag : Option WTag) (k : PrimK)
  | integer (tag : Option WTag) (c : Option Cons)
  | enumerated (tag : Option WTag) (root : List Int) (ext : Option (List Int))
  | bitstr (tag : Option WTag) (sz : Option Cons)
  | octstr (tag : Option WTag) (sz : Option Cons)
  | str (tag : Option WTag) (kind : String) (sz : Option Cons) (alpha : Option (List Int))
  /-- `ext` = index of the first extension addition (= number of components before `...`) -/
  | constr (tag : Option WTag) (k : CK) (ext : Option Nat) (comps : List Comp)
  | listOf (tag : Option WTag) (isSeq : Bool) (sz : Option Cons) (elem : CTy)
  | ref (tag : Option WTag) (name : String)
inductive Comp where
  | mk (name : String) (ty : CTy) (o : Opt)
end

instance : Inhabited CTy := ⟨.prim none .null⟩
instance : Inhabited Comp := ⟨.mk "" default .mand⟩

def Comp.name : Comp → String | .mk n _ _ => n
def Comp.ty : Comp → CTy | .mk _ t _ => t
def Comp.opt : Comp → Opt | .mk _ _ o => o

def CTy.tag : CTy → Option WTag
  | .prim t _ => t | .integer t _ => t | .enumerated t _ _ => t | .bitstr t _ => t | .octstr t _ => t
  | .str t _ _ _ => t | .constr t _ _ _ => t | .listOf t _ _ _ => t | .ref t _ => t

def CTy.withTag (g : Option WTag) : CTy → CTy
  | .prim _ k => .prim g k | .integer _ c => .integer g c | .enumerated _ r e => .enumerated g r e
  | .bitstr _ s => .bitstr g s | .octstr _ s => .octstr g s | .str _ k s a => .str g k s a
  | .constr _ k e cs => .constr g k e cs | .listOf _ q s e => .listOf g q s e | .ref _ n => .ref g n

structure Module where
  /-- "none" | "EXPLICIT" | "IMPLICIT" | "AUTOMATIC" -/
  tagDefault : String
  types : List (String × CTy)

def Module.lookup (M : Module) (n : String) : Option CTy := M.types.lookup n

/-- bound on the length of reference chains followed (C: `TM_RECURSION` marks stop cycles; the L2 resolver
    uses the same bound) -/
def Module.fuel (_M : Module) : Nat := 64

/-! ### parsing the s-expression -/

def parseTag : Sexp → Option (Option WTag)
  | .atom "-" => some none
  | .list [.atom c, .atom n, .atom m] =>
    let cls? := if c == "univ" then some 0 else if c == "app" then some 1 else if c == "ctx" then some 2
                else if c == "priv" then some 3 else none
    let mode? := if m == "d" then some Mode.dflt else if m == "i" then some .imp else if m == "e" then some .exp else none
    match cls?, n.toNat?, mode? with
    | some cls, some num, some mode => some (some ⟨⟨cls, num⟩, mode⟩)
    | _, _, _ => none
  | _ => none

def parseBound (s : String) : Option (Option Int) :=
  if s == "MIN" || s == "MAX" then some none else s.toInt?.map some

def parseCons : Sexp → Option (Option Cons)
  | .atom "-" => some none
  | .list [.atom lo, .atom hi, .atom e] =>
    match parseBound lo, parseBound hi with
    | some l, some h => some (some ⟨l, h, e == "1"⟩)
    | _, _ => none
  | _ => none

def parseInts : List Sexp → Option (List Int)
  | [] => some []
  | .atom s :: r =>
    match s.toInt?, parseInts r with
    | some z, some zs => some (z :: zs)
    | _, _ => none
  | _ => none

def parseOpt : List Sexp → Opt
  | [.atom "o"] => .opt
  | [.list [.atom "d", v]] => .dflt (L2.parseVal v)
  | _ => .mand

def strKinds : List String :=
  ["UTF8String", "NumericString", "PrintableString", "IA5String", "VisibleString", "UniversalString", "BMPString"]

mutual
def parseTy : Nat → Sexp → Option CTy
  | 0, _ => none
  | fuel + 1, e =>
    match e with
    | .list [.atom "BOOLEAN", tg] => (parseTag tg).map (.prim · .boolean)
    | .list [.atom "NULL", tg] => (parseTag tg).map (.prim · .null)
    | .list [.atom "REAL", tg] => (parseTag tg).map (.prim · .real)
    | .list [.atom "OID", tg] => (parseTag tg).map (.prim · .oid)
    | .list [.atom "ROID", tg] => (parseTag tg).map (.prim · .roid)
    | .list [.atom "UTCTime", tg] => (parseTag tg).map (.prim · .utcTime)
    | .list [.atom "GeneralizedTime", tg] => (parseTag tg).map (.prim · .genTime)
    | .list [.atom "INTEGER", tg, c] =>
      match parseTag tg, parseCons c with
      | some t, some c => some (.integer t c)
      | _, _ => none
    | .list [.atom "ENUMERATED", tg, .list root, ext] =>
      match parseTag tg, parseInts root with
      | some t, some rs =>
        match ext with
        | .atom "-" => some (.enumerated t rs none)
        | .list adds => (parseInts adds).map fun as => .enumerated t rs (some as)
        | _ => none
      | _, _ => none
    | .list [.atom "BITSTRING", tg, s] =>
      match parseTag tg, parseCons s with
      | some t, some s => some (.bitstr t s)
      | _, _ => none
    | .list [.atom "OCTETSTRING", tg, s] =>
      match parseTag tg, parseCons s with
      | some t, some s => some (.octstr t s)
      | _, _ => none
    | .list [.atom "STR", .atom k, tg, s, al] =>
      if !strKinds.contains k then none else
      match parseTag tg, parseCons s with
      | some t, some s =>
        match al with
        | .atom "-" => some (.str t k s none)
        | .list cs => (parseInts cs).map fun codes => .str t k s (some codes)
        | _ => none
      | _, _ => none
    | .list [.atom "SEQOF", tg, s, el] =>
      match parseTag tg, parseCons s, parseTy fuel el with
      | some t, some s, some e => some (.listOf t true s e)
      | _, _, _ => none
    | .list [.atom "SETOF", tg, s, el] =>
      match parseTag tg, parseCons s, parseTy fuel el with
      | some t, some s, some e => some (.listOf t false s e)
      | _, _, _ => none
    | .list [.atom "SEQUENCE", tg, ext, .list comps] => parseConstr fuel .sequence tg ext comps
    | .list [.atom "SET", tg, ext, .list comps] => parseConstr fuel .set tg ext comps
    | .list [.atom "CHOICE", tg, ext, .list comps] => parseConstr fuel .choice tg ext comps
    | .list [.atom "REF", tg, .atom name] => (parseTag tg).map (.ref · name)
    | _ => none
def parseConstr : Nat → CK → Sexp → Sexp → List Sexp → Option CTy
  | fuel, k, tg, ext, comps =>
    let ext? : Option (Option Nat) := match ext with
      | .atom "-" => some none
      | .atom s => s.toNat?.map some
      | _ => none
    match parseTag tg, ext?, parseComps fuel comps with
    | some t, some e, some cs => some (.constr t k e cs)
    | _, _, _ => none
def parseComps : Nat → List Sexp → Option (List Comp)
  | _, [] => some []
  | 0, _ => none
  | fuel + 1, c :: rest =>
    match c with
    | .list (.atom n :: tE :: optE) =>
      match parseTy fuel tE, parseComps fuel rest with
      | some t, some cs => some (.mk n t (parseOpt optE) :: cs)
      | _, _ => none
    | _ => none
end

def parseModuleSx : Sexp → Option Module
  | .list (.atom "module" :: .atom td :: defs) =>
    (defs.mapM fun (d : Sexp) =>
      match d with
      | .list [.atom n, t] => (parseTy 64 t).map fun ty => (n, ty)
      | _ => none).map fun ts => ⟨td, ts⟩
  | _ => none

/-! ## libasn1fix: tag fixing and automatic tagging -/

/-- `_asn1f_check_if_tag_must_be_explicit(v)`: with v's own tag removed no outermost tag can be fetched and
    the terminal type is a CHOICE: v is an untagged CHOICE, possibly behind untagged references -/
def mustExplicit (M : Module) : Nat → CTy → Bool
  | _, .constr _ .choice _ _ => true
  | fuel + 1, .ref _ n =>
    match M.lookup n with
    | some t => if t.tag.isSome then false else mustExplicit M fuel t
    | none => false
  | _, _ => false

def implicitDefault (M : Module) : Bool := M.tagDefault == "IMPLICIT" || M.tagDefault == "AUTOMATIC"

/-- `_asn1f_fix_type_tag` -/
def fixTag (M : Module) (me : Bool) (g : WTag) : WTag :=
  match g.mode with
  | .dflt => ⟨g.tag, if me || !implicitDefault M then .exp else .imp⟩
  | m => ⟨g.tag, if me then .exp else m⟩

mutual
/-- `asn1f_fix_constr_tag(arg, 0)` + `asn1f_fix_constr_autotag` on every constructed type inside `t`, the element
    type of SEQUENCE OF / SET OF included (the own tag of `t` is the business of the enclosing type) -/
def fixTy (M : Module) : CTy → CTy
  | .constr tag k ext comps =>
    let auto := M.tagDefault == "AUTOMATIC" && comps.all (fun c => c.ty.tag.isNone)
    .constr tag k ext (fixComps M auto 0 comps)
  | .listOf tag q sz e =>
    -- the element type: a written tag follows the module's tagging default (`_asn1f_fix_type_tag`), exactly as
    -- the tag of a component without automatic tagging
    let e1 := fixTy M e
    .listOf tag q sz (match e.tag with
      | some g => e1.withTag (some (fixTag M (mustExplicit M M.fuel e) g))
      | none => e1)
  | t => t
def fixComps (M : Module) (auto : Bool) (i : Nat) : List Comp → List Comp
  | [] => []
  | .mk n t o :: rest =>
    let t1 := fixTy M t
    let me := mustExplicit M M.fuel t
    let t2 := if auto then t1.withTag (some ⟨⟨2, i⟩, if me then .exp else .imp⟩)
              else match t.tag with
                | some g => t1.withTag (some (fixTag M me g))
                | none => t1
    .mk n t2 o :: fixComps M auto (i + 1) rest
end

/-- a top-level type: `asn1f_fix_constr_tag(arg, 1)` on its own tag, then the members -/
def fixTop (M : Module) (t : CTy) : CTy :=
  let t1 := fixTy M t
  match t.tag with
  | some g => t1.withTag (some (fixTag M (mustExplicit M M.fuel t) g))
  | none => t1

/-- the module after the fixer (tag modes decided, automatic tags assigned) -/
def fixModule (M : Module) : Module := ⟨M.tagDefault, M.types.map fun (n, t) => (n, fixTop M t)⟩

/-! ## tag chains: asn1fix_tags.c -/

/-- X.680 Table 1; 0 for CHOICE and references (`expr_type2uclass_value`) -/
def strUniv (k : String) : Nat :=
  if k == "UTF8String" then 12 else if k == "NumericString" then 18
  else if k == "PrintableString" then 19 else if k == "IA5String" then 22
  else if k == "VisibleString" then 26 else if k == "UniversalString" then 28
  else if k == "BMPString" then 30 else 0

def univNum : CTy → Nat
  | .prim _ .boolean => 1 | .prim _ .null => 5 | .prim _ .real => 9 | .prim _ .oid => 6
  | .prim _ .roid => 13 | .prim _ .utcTime => 23 | .prim _ .genTime => 24
  | .integer _ _ => 2 | .enumerated _ _ _ => 10 | .bitstr _ _ => 3 | .octstr _ _ => 4
  | .str _ k _ _ => strUniv k
  | .constr _ .sequence _ _ => 16 | .constr _ .set _ _ => 17 | .constr _ .choice _ _ => 0
  | .listOf _ true _ _ => 16 | .listOf _ false _ _ => 17
  | .ref _ _ => 0

/-- the `ADD_TAG(skip, newtag)` macro without AFT_FETCH_OUTMOST: state = (tags so far, skip) -/
def addTag (full : Bool) (g : WTag) (st : List Tag × Nat) : List Tag × Nat :=
  if st.2 > 0 && !full then (st.1, if g.mode != .imp then st.2 - 1 else st.2)
  else (st.1 ++ [g.tag], if g.mode == .imp then st.2 + 1 else st.2)

def addOwn (full : Bool) (t : CTy) (st : List Tag × Nat) : List Tag × Nat :=
  match t.tag with
  | some g => addTag full g st
  | none => st

/-- `asn1f_fetch_tags_impl` (flags 0 or AFT_FULL_COLLECT); `none` = −1 -/
def fetchTags (M : Module) (full : Bool) : Nat → CTy → List Tag × Nat → Option (List Tag × Nat)
  | fuel, t, st =>
    let st := addOwn full t st
    match t with
    | .ref _ n =>
      match fuel with
      | 0 => none
      | fuel + 1 =>
        match M.lookup n with
        | some t' => fetchTags M full fuel t' st
        | none => none
    | .constr _ .choice _ _ => if st.1.length > 0 then some st else none
    | t => some (addTag full ⟨⟨0, univNum t⟩, .dflt⟩ st)

/-- `asn1f_fetch_tags(…, 0)`: the effective tags (`td->tags`); [] when the fetch fails -/
def tagsOf (M : Module) (t : CTy) : List Tag :=
  match fetchTags M false M.fuel t ([], 0) with
  | some st => st.1
  | none => []

/-- `asn1f_fetch_tags(…, AFT_FULL_COLLECT)`: `td->all_tags` -/
def allTagsOf (M : Module) (t : CTy) : List Tag :=
  match fetchTags M true M.fuel t ([], 0) with
  | some st => st.1
  | none => []

/-- `asn1f_fetch_outmost_tag(…, AFT_IMAGINARY_ANY)`: the first tag `ADD_TAG` adds; `none` = no tag
    (untagged CHOICE) -/
def outmost (M : Module) : Nat → CTy → Option Tag
  | fuel, t =>
    match t.tag with
    | some g => some g.tag
    | none =>
      match t with
      | .ref _ n =>
        match fuel with
        | 0 => none
        | fuel + 1 =>
          match M.lookup n with
          | some t' => outmost M fuel t'
          | none => none
      | .constr _ .choice _ _ => none
      | t => some ⟨0, univNum t⟩

def tagLt (a b : Tag) : Bool := a.cls < b.cls || (a.cls == b.cls && a.num < b.num)

def minTag : List Tag → Option Tag
  | [] => none
  | t :: ts =>
    match minTag ts with
    | none => some t
    | some m => if tagLt m t then some m else some t

/-- `asn1f_fetch_outmost_tag(…, AFT_IMAGINARY_ANY | AFT_CANON_CHOICE)`: an untagged CHOICE yields the smallest
    outermost tag of its extension root (`asn1f_fetch_minimal_choice_root_tag`) -/
def canonKey (M : Module) : Nat → CTy → Option Tag
  | 0, _ => none
  | fuel + 1, t =>
    match t.tag with
    | some g => some g.tag
    | none =>
      match t with
      | .ref _ n =>
        match M.lookup n with
        | some t' => canonKey M fuel t'
        | none => none
      | .constr _ .choice ext comps =>
        let root := match ext with | some e => comps.take e | none => comps
        minTag (root.filterMap fun c => canonKey M fuel c.ty)
      | t => some ⟨0, univNum t⟩

/-! ## tag2el: `_fill_tag2el_map` / `_add_tag2el_member` / `_tag2el_cmp` -/

structure T2E where
  tag : Tag
  elNo : Nat
  toffFirst : Int := 0
  toffLast : Int := 0
deriving DecidableEq, Repr, Inhabited

/-- `_add_tag2el_member` for the member `t` with element number `el`: its outermost tag, or (untagged CHOICE,
    possibly behind references) the entries of all alternatives (root and additions) under the same `el` -/
def t2eMember (M : Module) : Nat → CTy → Nat → List (Tag × Nat)
  | 0, _, _ => []
  | fuel + 1, t, el =>
    match outmost M M.fuel t with
    | some g => [(g, el)]
    | none =>
      match t with
      | .constr _ .choice _ comps => comps.flatMap fun c => t2eMember M fuel c.ty el
      | .ref _ n =>
        match M.lookup n with
        | some t' => t2eMember M fuel t' el
        | none => []
      | _ => []

def t2eFuel : Nat := 64

/-- the unsorted map of a SEQUENCE / SET / CHOICE: member `i` contributes under element number `i` -/
def t2eRaw (M : Module) : Nat → List Comp → List (Tag × Nat)
  | _, [] => []
  | i, c :: rest => t2eMember M t2eFuel c.ty i ++ t2eRaw M (i + 1) rest

/-- `_tag2el_cmp(a, b) <= 0`: by class, then tag value, then element number -/
def t2eLe (a b : Tag × Nat) : Bool :=
  tagLt a.1 b.1 || (a.1 == b.1 && a.2 ≤ b.2)

def insertT2E (x : Tag × Nat) : List (Tag × Nat) → List (Tag × Nat)
  | [] => [x]
  | y :: ys => if t2eLe x y then x :: y :: ys else y :: insertT2E x ys

/-- `qsort(…, _tag2el_cmp)` -/
def sortT2E : List (Tag × Nat) → List (Tag × Nat)
  | [] => []
  | x :: xs => insertT2E x (sortT2E xs)

/-- "Initialize .toff_{first|last} members": offsets to the first / last entry of the run of equal tags;
    `pre` = the entries before, nearest first -/
def annotate (pre : List (Tag × Nat)) : List (Tag × Nat) → List T2E
  | [] => []
  | e :: rest =>
    { tag := e.1, elNo := e.2,
      toffFirst := -((pre.takeWhile (·.1 == e.1)).length : Int),
      toffLast := ((rest.takeWhile (·.1 == e.1)).length : Int) } :: annotate (e :: pre) rest

def tag2el (M : Module) (comps : List Comp) : List T2E := annotate [] (sortT2E (t2eRaw M 0 comps))

/-- `bsearch(&key, tag2el, count, sizeof, _search4tag)` as constr_CHOICE.c / constr_SET.c / constr_SEQUENCE.c use it:
    `_search4tag` orders by tag class, then tag value (the order `_tag2el_cmp` sorted the table by) -/
def bsearchGo (key : Tag) (l : List T2E) : Nat → Nat → Nat → Option T2E
  | 0, _, _ => none
  | fuel + 1, lo, hi =>
    if lo < hi then
      let mid := (lo + hi) / 2
      match l[mid]? with
      | none => none
      | some e =>
        if tagLt key e.tag then bsearchGo key l fuel lo mid
        else if tagLt e.tag key then bsearchGo key l fuel (mid + 1) hi
        else some e
    else none

def bsearchTag (key : Tag) (l : List T2E) : Option T2E := bsearchGo key l (l.length + 1) 0 l.length

/-! ## members: `emit_member_table` -/

/-- compiler options that influence the dumped fields -/
structure Opts where
  wide : Bool := false            -- -fwide-types
  indirectChoice : Bool := false  -- -findirect-choice
  genPER : Bool := true           -- absent -no-gen-PER
  genOER : Bool := true           -- absent -no-gen-OER
deriving Repr, Inhabited

/-- `EM_OMITABLE` of member `i`: OPTIONAL / DEFAULT, or (SEQUENCE and SET: `comp_mode == 1`) every member
    after the extension marker -/
def omitable (k : CK) (ext : Option Nat) (i : Nat) (c : Comp) : Bool :=
  !c.opt.isMand || (k != .choice && (match ext with | some e => decide (e ≤ i) | none => false))

/-- the `optional` field: length of the run of omitable members starting here.  The extension marker does not
    end a run: the type emitters (`asn1c_lang_C_type_SEQUENCE` / `_SET`: `if(comp_mode == 1) v->marker.flags |=
    EM_OMITABLE | EM_INDIRECT`) mark the `...` member itself omitable and `emit_member_table` steps over it
    without counting it, so a run of optional root members continues into the extension additions. -/
def optRuns (k : CK) (ext : Option Nat) : Nat → List Comp → List Nat
  | _, [] => []
  | i, c :: rest =>
    let r := optRuns k ext (i + 1) rest
    (if omitable k ext i c then 1 + r.headD 0 else 0) :: r

/-- one of the two loops that print `asn_MAP_…_oms`: the element numbers of the omitable members before
    (`root = true`) / after (`root = false`) the first extension marker (`e` = number of members before it) -/
def omsFrom (k : CK) (ext : Option Nat) (e : Nat) (root : Bool) : Nat → List Comp → List Nat
  | _, [] => []
  | i, c :: rest =>
    (if (decide (i < e) == root) && omitable k ext i c then [i] else []) ++ omsFrom k ext e root (i + 1) rest

/-- `asn_MAP_…_oms`: the omitable root members, then the omitable additions (element numbers, ascending) -/
def omsOf (k : CK) (ext : Option Nat) (comps : List Comp) : List Nat × List Nat :=
  let e := ext.getD comps.length
  (omsFrom k ext e true 0 comps, omsFrom k ext e false 0 comps)

/-! ## constraints: `emit_member_PER_constraints` / `emit_member_OER_constraints` -/

open Asn1c.Spec.Constraint in
def endOf (lo : Bool) : Option Int → End
  | some z => .val z
  | none => if lo then .min else .max

open Asn1c.Spec.Constraint in
/-- the constraint as the generator writes it (`cons_text`): `(v)`, `(lo..hi)`, with `,...` when extensible -/
def consExpr (c : Cons) : Spec.Constraint.Cons :=
  let body : Spec.Constraint.Cons :=
    match c.lo, c.hi with
    | some l, some h => if l == h then .single l else .range (.val l) (.val h)
    | l, h => .range (endOf true l) (endOf false h)
  if c.ext then .ext body else body

/-- what `expr->combined_constraints` is made from -/
inductive CKindC where
  | value (c : Cons)                                  -- INTEGER (c)
  | size (c : Cons)                                   -- (SIZE(c))
  | from_ (lo hi : Int)                               -- (FROM(…)): hull of the alphabet
  | sizeFrom (c : Cons) (lo hi : Int)                 -- (SIZE(c) ^ FROM(…))
deriving Repr

open Asn1c.Impl.CRange Asn1c.Impl.ConsParse in
/-- the `asn1p_constraint_t` tree of `combined_constraints` as far as the value / size requests see it: a FROM
    element yields an "incompatible" range for these requests, which the ACT_CA_SET / ACT_CA_INT loop skips,
    so it is left out here (the FROM request itself is modelled by `alphabetPer`). -/
def combinedCT : CKindC → CT
  | .value c => combined (consExpr c)
  | .size c => combined (.size (consExpr c))
  | .from_ _ _ => .set []
  | .sizeFrom c _ _ => .set [.int [elemCT (.size (consExpr c))]]

structure PerC where
  flags : Int
  rangeBits : Int
  effBits : Int
  lb : Int
  ub : Int
deriving DecidableEq, Repr, Inhabited

/-- `asn_per_constraint_t` as the C initialiser reads: flags = APC_UNCONSTRAINED 0 / SEMI 1 / CONSTRAINED 2,
    `| APC_EXTENSIBLE` 4 -/
def perOf (p : CTables.PerC) : PerC :=
  let k : Int := match p.kind with | .unconstrained => 0 | .semi => 1 | .constrained => 2
  ⟨k + (if p.ext then 4 else 0), p.rangeBits, p.effBits, p.lb, p.ub⟩

structure Enc where
  per : Option (PerC × PerC)
  oer : Option (Nat × Nat × Int)
deriving DecidableEq, Repr, Inhabited

def Enc.none : Enc := ⟨Option.none, Option.none⟩

/-- what the constraint emitters need to know about the terminal type (`expr_get_type`) -/
inductive TKind where
  | integer | enumerated (nroot : Nat) (ext : Bool) | choice (nroot : Nat) (ext : Bool)
  | bits | octets | km (kind : String) | utf8 | listOf | real | other
deriving Repr, Inhabited

/-- `asn1constraint_default_alphabet`: the ranges of the known-multiplier string types -/
def defaultAlphabet (k : String) : List (Int × Int) :=
  if k == "NumericString" then [(32, 32), (48, 57)]
  else if k == "PrintableString" then [(32, 32), (39, 41), (43, 58), (61, 61), (63, 63), (65, 90), (97, 122)]
  else if k == "VisibleString" then [(32, 126)]
  else if k == "IA5String" then [(0, 127)]
  else if k == "BMPString" then [(0, 65535)]
  else if k == "UniversalString" then [(0, 4294967295)]
  else []

def listMin : List Int → Int
  | [] => 0
  | x :: xs => xs.foldl min x
def listMax : List Int → Int
  | [] => 0
  | x :: xs => xs.foldl max x

/-- the PER "value" record of a known-multiplier string: `emit_single_member_PER_constraint(range, 1, 0)` on the
    FROM range: `range_bits = effective_bits` = bits for the number of characters, bounds = smallest / largest
    character (clamped to 0x7fffffff) -/
def alphabetPer (k : String) (alpha : Option (List Int)) : PerC :=
  if k == "UniversalString" && alpha.isNone then ⟨2, 32, 32, 0, 2147483647⟩      -- "special case 1"
  else
    let (n, lo, hi) : Int × Int × Int := match alpha with
      | some cs => let cs := cs.eraseDups; (cs.length, listMin cs, listMax cs)
      | none =>
        let rs := defaultAlphabet k
        (rs.foldl (fun a r => a + (1 + r.2 - r.1)) 0, listMin (rs.map (·.1)), listMax (rs.map (·.2)))
    let b := CTables.rangeBits n
    ⟨2, b, b, min lo 2147483647, min hi 2147483647⟩

/-- PER / OER records for a type whose terminal kind is `tk` and whose `combined_constraints` is `cc` -/
def encTables (tk : TKind) (cc : Option CKindC) (alpha : Option (List Int)) : (PerC × PerC) × (Nat × Nat × Int) :=
  let ct := cc.map combinedCT
  let (vc, sc, nkm) : Bool × Bool × Bool := match tk with
    | .integer => (true, false, false)
    | .real => (true, false, false)
    | .bits => (false, true, false)
    | .octets => (false, true, false)
    | .km _ => (false, true, false)
    | .utf8 => (false, true, true)
    | .listOf => (false, true, false)
    | _ => (false, false, false)
  let tb := CTables.emitTables vc sc nkm ct
  let oer : Nat × Nat × Int := (tb.oerValue.width, tb.oerValue.positive, tb.oerSize)
  match tk with
  | .enumerated n e | .choice n e =>
    let r : CRange.Range := { left := .val 0, right := .val (if n == 0 then 0 else (n : Int) - 1), ext := e, empty := n == 0 }
    ((perOf (CTables.perConstraint (some r)), perOf tb.perSize), oer)
  | .km k => ((alphabetPer k alpha, perOf tb.perSize), oer)
  | .real => ((perOf .unconstrained, perOf tb.perSize), ((0, 0, tb.oerSize)))
  | _ => ((perOf tb.perValue, perOf tb.perSize), oer)

/-! ## representation: `asn1c_type_fits_long` -/

inductive FitsLong where
  | notFit | presumed | signed | unsigned
deriving DecidableEq, Repr

open Asn1c.Impl.CRange in
/-- `asn1c_type_fits_long` for an INTEGER without named numbers / an ENUMERATED with item values `vals` -/
def fitsLong (o : Opts) (vals : List Int) (cc : Option Cons) : FitsLong :=
  if vals.any (fun v => v < -2147483648 || v > 2147483647) then .notFit else
  match cc with
  | none => if o.wide then .notFit else .presumed
  | some c =>
    let range := CTables.resRange (computeTop { req := .value } (some (combinedCT (.value c))))
    match range with
    | none => if o.wide then .notFit else .presumed
    | some r =>
      if (r.ext && o.wide) || r.empty || r.incompat || r.notPER then (if o.wide then .notFit else .presumed) else
      let isUnsignedOpen := !o.wide && (match r.left, r.right with
        | .val l, .max => decide (0 ≤ l ∧ l ≤ 2147483647) | _, _ => false)
      let isUnsigned32 := match r.left, r.right with
        | .val l, .val u => decide (0 ≤ l ∧ u > 2147483647 ∧ u ≤ 4294967295) | _, _ => false
      if isUnsignedOpen || isUnsigned32 then .unsigned else
      let out (e : Edge) : Bool := match e with | .val v => v < -2147483648 || v > 2147483647 | _ => false
      if out r.left || out r.right then .notFit else
      match r.left, r.right with
      | .val _, .val _ => .signed
      | _, _ => if o.wide then .notFit else .presumed

open Asn1c.Impl.CRange in
/-- `asn1c_INTEGER_is_unsigned`: the descriptor of the INTEGER needs `field_unsigned` - the type is kept in an
    `unsigned long` (FL_FITS_UNSIGN), or, under -fwide-types, in an `INTEGER_t` restricted to a non-extensible
    (lb..MAX) range with 0 ≤ lb ≤ 2^31-1, which is an `unsigned long` without -fwide-types (findings F172 / F173
    repaired: that descriptor had no specifics, INTEGER_encode_uper / INTEGER__dump took the signed paths) -/
def integerIsUnsigned (o : Opts) (cc : Option Cons) : Bool :=
  fitsLong o [] cc == .unsigned ||
  (o.wide &&
    match cc with
    | none => false
    | some c =>
      match CTables.resRange (computeTop { req := .value } (some (combinedCT (.value c)))) with
      | none => false
      | some r =>
        !r.ext && !r.empty && !r.incompat && !r.notPER &&
        (match r.left, r.right with
         | .val l, .max => decide (0 ≤ l ∧ l ≤ 2147483647)
         | _, _ => false))

/-! ## the descriptor graph -/

inductive DSpec where
  | none
  | seq (firstExt : Int) (roms aoms : Nat) (oms : List Nat) (t2e : List T2E)
  | set (ext : Nat) (t2e : List T2E)
  | choice (extStart : Int) (t2e : List T2E) (toCanon fromCanon : List Nat)
  | int (isUnsigned strict ext : Nat) (map : List (Int × String))
deriving Repr, Inhabited

mutual
inductive Descr where
  /-- a generated `asn_TYPE_descriptor_t` -/
  | node (name kind : String) (tags allTags : List Tag) (enc : Enc) (spec : DSpec) (members : List DMember)
  /-- a descriptor of the skeleton library (`asn_DEF_BOOLEAN`, `asn_DEF_NativeInteger`, …) -/
  | skel (name kind : String)
  /-- a descriptor met before in this dump -/
  | ref (name : String)
inductive DMember where
  | mk (name : String) (flags optional : Nat) (tag : Option Tag) (mode : Int) (hasDefault : Bool) (enc : Enc) (ty : Descr)
end

instance : Inhabited Descr := ⟨.ref ""⟩

/-- resolved view of a type through references: the terminal type (`asn1f_find_terminal_type`) -/
def terminal (M : Module) : Nat → CTy → Option CTy
  | fuel, .ref _ n =>
    match fuel with
    | 0 => none
    | fuel + 1 => (M.lookup n).bind (terminal M fuel)
  | _, t => some t

def ownCons : CTy → Option CKindC × Option (List Int)
  | .integer _ (some c) => (some (.value c), none)
  | .bitstr _ (some s) => (some (.size s), none)
  | .octstr _ (some s) => (some (.size s), none)
  | .listOf _ _ (some s) _ => (some (.size s), none)
  | .str _ _ sz alpha =>
    match sz, alpha with
    | some s, some a => (some (.sizeFrom s (listMin a) (listMax a)), alpha)
    | some s, none => (some (.size s), none)
    | none, some a => (some (.from_ (listMin a) (listMax a)), alpha)
    | none, none => (none, none)
  | _ => (none, none)

/-- `expr->combined_constraints`: own constraints, else those inherited through the reference -/
def combinedOf (M : Module) (t : CTy) : Option CKindC × Option (List Int) :=
  match terminal M M.fuel t with
  | some t' => ownCons t'
  | none => (none, none)

def rootCount (ext : Option Nat) (n : Nat) : Nat := match ext with | some e => min e n | none => n

def tkindOf : CTy → TKind
  | .integer _ _ => .integer
  | .enumerated _ root ext => .enumerated root.length ext.isSome
  | .constr _ .choice ext comps => .choice (rootCount ext comps.length) ext.isSome
  | .bitstr _ _ => .bits
  | .octstr _ _ => .octets
  | .str _ k _ _ => if k == "UTF8String" then .utf8 else .km k
  | .listOf _ _ _ _ => .listOf
  | .prim _ .real => .real
  | _ => .other

/-- `expr_get_PER_type`: the terminal kind as the PER emitters see it — the time types are VisibleString types
    (X.680 46.3, 47.3) -/
def perKind : TKind → Option CTy → TKind
  | _, some (.prim _ .utcTime) => .km "VisibleString"
  | _, some (.prim _ .genTime) => .km "VisibleString"
  | tk, _ => tk

/-- type-level `encoding_constraints` of the descriptor generated for `t`.  PER: `emit_type_DEF` and
    `emit_member_PER_constraints` both decide on the terminal type (`expr_get_PER_type`), so a type assignment
    that merely references (or tags) an ENUMERATED / CHOICE / known-multiplier string / time type carries the
    records of the type it references (F38, F123, F111 repaired).  OER: `emit_type_DEF` still decides on the
    pointer from the type's own syntactic kind, the emitter fills the record from the terminal type. -/
def typeEnc (M : Module) (o : Opts) (t : CTy) : Enc :=
  let (cc, alpha) := combinedOf M t
  let term := terminal M M.fuel t
  let tk := match term with | some t' => tkindOf t' | none => .other
  let ptk := perKind tk term
  let perSpecial := match ptk with | .enumerated _ _ | .choice _ _ | .km _ => true | _ => false
  let isEnum := match t with | .enumerated _ _ _ => true | _ => false
  let isChoice := match t with | .constr _ .choice _ _ => true | _ => false
  let (per, _) := encTables ptk cc alpha
  let (_, oer) := encTables tk cc alpha
  { per := if o.genPER && (cc.isSome || perSpecial) then some per else Option.none
    oer := if o.genOER && (cc.isSome || isEnum || isChoice) then some oer else Option.none }

/-- member-level `encoding_constraints`: only when the member has constraints of its own (`expr->constraints`) -/
def memberEnc (M : Module) (o : Opts) (t : CTy) : Enc :=
  let (own, _) := ownCons t
  match own with
  | Option.none => Enc.none
  | some _ =>
    let (cc, alpha) := combinedOf M t
    let tk := match terminal M M.fuel t with | some t' => tkindOf t' | none => .other
    let (per, oer) := encTables tk cc alpha
    { per := if o.genPER then some per else Option.none, oer := if o.genOER then some oer else Option.none }

def enumVals : CTy → List Int
  | .enumerated _ root ext => root ++ ext.getD []
  | _ => []

def consOfInt : CTy → Option Cons
  | .integer _ c => c
  | _ => Option.none

/-- `asn1c_type_fits_long(arg, expr)` (descends to the terminal type) -/
def fitsLongTy (M : Module) (o : Opts) (t : CTy) : FitsLong :=
  match terminal M M.fuel t with
  | some (.integer _ c) => fitsLong o [] c
  | some (.enumerated _ root ext) => fitsLong o (root ++ ext.getD []) Option.none
  | _ => .notFit

/-- `asn1c_INTEGER_is_unsigned(arg, expr)` (descends to the terminal type) -/
def integerIsUnsignedTy (M : Module) (o : Opts) (t : CTy) : Bool :=
  match terminal M M.fuel t with
  | some (.integer _ c) => integerIsUnsigned o c
  | _ => false

/-- name and kind of the skeleton descriptor `asn1c_type_name(…, TNF_SAFE)` selects for a basic type -/
def skelOf (M : Module) (o : Opts) (t : CTy) : String × String :=
  match t with
  | .prim _ .boolean => ("BOOLEAN", "boolean")
  | .prim _ .null => ("NULL", "null")
  | .prim _ .real => ("REAL", if o.wide then "real" else "nreal")
  | .prim _ .oid => ("OBJECT IDENTIFIER", "prim")
  | .prim _ .roid => ("RELATIVE-OID", "prim")
  | .prim _ .utcTime => ("UTCTime", "octets")
  | .prim _ .genTime => ("GeneralizedTime", "octets")
  | .integer _ _ => ("INTEGER", if fitsLongTy M o t == .notFit then "int" else "nint")
  | .enumerated _ _ _ => ("ENUMERATED", if fitsLongTy M o t == .notFit then "enum" else "nenum")
  | .bitstr _ _ => ("BIT STRING", "bits")
  | .octstr _ _ => ("OCTET STRING", "octets")
  | .str _ k _ _ => (k, "octets")
  | _ => ("?", "unknown")

/-- the `rf_kind` of the descriptor generated for (a reference chain ending in) `t'` -/
def kindOf (M : Module) (o : Opts) (t : CTy) : String :=
  match terminal M M.fuel t with
  | some (.constr _ .sequence _ _) => "sequence"
  | some (.constr _ .set _ _) => "set"
  | some (.constr _ .choice _ _) => "choice"
  | some (.listOf _ true _ _) => "seqof"
  | some (.listOf _ false _ _) => "setof"
  | some t' => (skelOf M o t').2
  | none => "unknown"

/-- `complex_contents` of `emit_member_table`: the member gets a descriptor of its own -/
def complexContents (M : Module) (o : Opts) : CTy → Bool
  | .constr _ _ _ _ => true
  | .listOf _ _ _ _ => true
  | .enumerated _ _ _ => true
  | .integer t c => integerIsUnsignedTy M o (.integer t c)
  | _ => false

/-- `ASN_EXPR_TYPE2STR` for the anonymous element type of SEQUENCE OF / SET OF -/
def anonName : CTy → String
  | .constr _ .sequence _ _ => "SEQUENCE"
  | .constr _ .set _ _ => "SET"
  | .constr _ .choice _ _ => "CHOICE"
  | .listOf _ true _ _ => "SEQUENCE OF"
  | .listOf _ false _ _ => "SET OF"
  | .enumerated _ _ _ => "ENUMERATED"
  | .integer _ _ => "INTEGER"
  | _ => "?"

def insertBy {α} (le : α → α → Bool) (x : α) : List α → List α
  | [] => [x]
  | y :: ys => if le x y then x :: y :: ys else y :: insertBy le x ys
def sortBy {α} (le : α → α → Bool) : List α → List α
  | [] => []
  | x :: xs => insertBy le x (sortBy le xs)

/-- `asn1c_lang_C_type_common_INTEGER`: value2enum sorted by value; `extension` = 1 + number of root items -/
def intSpec (M : Module) (o : Opts) (names : List String) (t : CTy) : DSpec :=
  match terminal M M.fuel t with
  | some (.enumerated _ root ext) =>
    let vals := root ++ ext.getD []
    let pairs := vals.zip (names ++ List.replicate (vals.length - names.length) "?")
    .int 0 1 (if ext.isSome then root.length + 1 else 0) (sortBy (fun a b => decide (a.1 ≤ b.1)) pairs)
  | some (.integer _ c) => if integerIsUnsigned o c then .int 1 0 0 [] else .none
  | _ => .none

/-- `compar_cameo` keys + `compute_canonical_members_order`: (to_canonical, from_canonical) as emitted, [] / []
    when the members already are in canonical order -/
def canonMaps (M : Module) (ext : Option Nat) (comps : List Comp) : List Nat × List Nat :=
  let keyed := (List.range comps.length).zip (comps.map fun c => canonKey M t2eFuel c.ty)
  let le (a b : Nat × Option Tag) : Bool := match a.2, b.2 with
    | some x, some y => !tagLt y x
    | some _, Option.none => true
    | Option.none, _ => false
  let e := rootCount ext comps.length
  let cmap := ((sortBy le (keyed.take e)) ++ (sortBy le (keyed.drop e))).map (·.1)
  if cmap == List.range comps.length then ([], [])
  else (cmap, (List.range comps.length).map fun i => cmap.idxOf i)

/-- SET OF / SEQUENCE OF element and CHOICE / SEQUENCE / SET member flags: ATF_POINTER (recursion breaking is
    not modelled) -/
def memberFlags (M : Module) (o : Opts) (k : CK) (ext : Option Nat) (i : Nat) (c : Comp) : Nat :=
  match k with
  | .choice =>
    let constructed := match terminal M M.fuel c.ty with
      | some (.constr _ _ _ _) => true | some (.listOf _ _ _ _) => true | _ => false
    if o.indirectChoice && constructed then 1 else 0
  | _ =>
    if !omitable k ext i c then 0 else
    -- `try_inline_default`: DEFAULT 0 / FALSE of a BOOLEAN or a long-sized INTEGER/ENUMERATED is kept inline
    let zeroDefault : Bool := match c.opt with
      | .dflt (some (.int 0)) => true
      | .dflt (some (.bool false)) => true
      | _ => false
    if zeroDefault then
      let fits : Bool := match terminal M M.fuel c.ty with
        | some (.prim _ .boolean) => true
        | some (.integer _ _) => fitsLongTy M o c.ty != .notFit
        | some (.enumerated _ _ _) => fitsLongTy M o c.ty != .notFit
        | _ => false
      if fits then 0 else 1
    else 1

def hasDefaultCmp (M : Module) (c : Comp) : Bool :=
  match c.opt with
  | .dflt (some (.int _)) | .dflt (some (.bool _)) =>
    (match terminal M M.fuel c.ty with
     | some (.prim _ .boolean) => true | some (.integer _ _) => true | some (.enumerated _ _ _) => true | _ => false)
  | _ => false

/-- `tag_mode` of a member: only for non-constructed types and CHOICE carrying a tag.  An EXPLICIT tag on a member that
    gets a descriptor of its own although it is not constructed (ENUMERATED, INTEGER kept in an unsigned long: see
    `complexContents`) is among the `tags` of that descriptor, so the member says 0 (it said +1, and the encoders wrote the
    tag twice); an IMPLICIT one stays −1, which replaces the first of the descriptor's tags by itself -/
def memberMode (M : Module) (o : Opts) (t : CTy) : Int :=
  let plain := match t with
    | .constr _ .choice _ _ => true
    | .constr _ _ _ _ => false
    | .listOf _ _ _ _ => false
    | _ => true
  let own := match t with
    | .enumerated _ _ _ => true
    | .integer tg c => integerIsUnsignedTy M o (.integer tg c)
    | _ => false
  match t.tag with
  | some g => if plain then (if g.mode == .imp then -1 else if own then 0 else 1) else 0
  | Option.none => 0

abbrev Names := List (String × List String)

mutual
/-- the descriptor generated for the type expression `t` known as `name` (`path` identifies it);
    `embedded` = it is an inline member type.  `seen` = identities already dumped. -/
def compTy (M : Module) (o : Opts) (nm : Names) : Nat → String → String → Bool → CTy → List String → Descr × List String
  | 0, _, name, _, _, seen => (.ref name, seen)
  | fuel + 1, path, name, embedded, t, seen =>
    if seen.contains path then (.ref name, seen) else
    let seen := path :: seen
    let kind := kindOf M o t
    let embChoice := embedded && (match t with | .constr _ .choice _ _ => true | _ => false)
    let tags := if embChoice then [] else tagsOf M t
    let allTags := if embChoice then [] else allTagsOf M t
    let enc := typeEnc M o t
    -- members and specifics come from the terminal type (`asn_MBR_<terminal>`, `asn_SPC_<terminal>_specs`)
    match terminalWithPath M M.fuel path t with
    | some (p', .constr _ k ext comps) =>
      let (ms, seen) := compMembers M o nm fuel p' k ext 0 (optRuns k ext 0 comps) comps seen
      let t2e := tag2el M comps
      let spec : DSpec := match k with
        | .sequence =>
          let (ro, ao) := omsOf k ext comps
          if (o.genPER || o.genOER) && ro.length + ao.length > 0
          then .seq (match ext with | some e => e | Option.none => -1) ro.length ao.length (ro ++ ao) t2e
          else .seq (match ext with | some e => e | Option.none => -1) 0 0 [] t2e
        | .set => .set (if ext.isSome then 1 else 0) t2e
        | .choice =>
          let (tc, fc) := if o.genPER && !comps.isEmpty then canonMaps M ext comps else ([], [])
          .choice (match ext with | some e => e | Option.none => -1) t2e tc fc
      (.node name kind tags allTags enc spec ms, seen)
    | some (p', .listOf _ _ _ e) =>
      let (m, seen) := compElem M o nm fuel p' e seen
      (.node name kind tags allTags enc .none [m], seen)
    | some (p', t') =>
      (.node name kind tags allTags enc (intSpec M o ((nm.lookup p').getD []) t') [], seen)
    | Option.none => (.node name kind tags allTags enc .none [], seen)
/-- what a member's `type` pointer refers to -/
def compMemberTy (M : Module) (o : Opts) (nm : Names) : Nat → String → String → CTy → List String → Descr × List String
  | 0, _, name, _, seen => (.ref name, seen)
  | fuel + 1, path, name, t, seen =>
    match t with
    | .ref _ n =>
      match M.lookup n with
      | some t' => compTy M o nm fuel n n false t' seen
      | Option.none => (.ref n, seen)
    | t =>
      if complexContents M o t then compTy M o nm fuel path name true t seen
      else let (sn, sk) := skelOf M o t; (.skel sn sk, seen)
def compMembers (M : Module) (o : Opts) (nm : Names) : Nat → String → CK → Option Nat → Nat → List Nat → List Comp → List String
    → List DMember × List String
  | 0, _, _, _, _, _, _, seen => ([], seen)
  | _, _, _, _, _, _, [], seen => ([], seen)
  | fuel + 1, path, k, ext, i, runs, c :: rest, seen =>
    let (d, seen) := compMemberTy M o nm fuel (path ++ "." ++ c.name) c.name c.ty seen
    let m := DMember.mk c.name (memberFlags M o k ext i c) (runs.headD 0) (outmost M M.fuel c.ty) (memberMode M o c.ty)
              (hasDefaultCmp M c) (memberEnc M o c.ty) d
    let (ms, seen) := compMembers M o nm fuel path k ext (i + 1) (runs.drop 1) rest seen
    (m :: ms, seen)
/-- the single member of SET OF / SEQUENCE OF: anonymous ("Member" → name ""), always a pointer -/
def compElem (M : Module) (o : Opts) (nm : Names) : Nat → String → CTy → List String → DMember × List String
  | 0, _, _, seen => (.mk "" 1 0 Option.none 0 false Enc.none (.ref ""), seen)
  | fuel + 1, path, e, seen =>
    let (d, seen) := compMemberTy M o nm fuel (path ++ ".@") (anonName e) e seen
    (.mk "" 1 0 (outmost M M.fuel e) (memberMode M o e) false (memberEnc M o e) d, seen)
/-- the terminal type together with the identity path of its definition -/
def terminalWithPath (M : Module) : Nat → String → CTy → Option (String × CTy)
  | fuel, path, t =>
    match t with
    | .ref _ n =>
      match fuel with
      | 0 => Option.none
      | fuel + 1 => (M.lookup n).bind (terminalWithPath M fuel n)
    | t => some (path, t)
end

/-- **the compiler model**: the descriptor graph asn1c generates for the top-level type `name` of the module
    (given as parsed, i.e. before the fixer) -/
def compileDescr (M0 : Module) (o : Opts) (nm : Names) (name : String) : Option Descr :=
  let M := fixModule M0
  (M.lookup name).map fun t => (compTy M o nm 4096 name name false t []).1

/-! ## canonical text: the format of `rf_dump_descr` -/

def showTag (t : Tag) : String := s!"{t.cls}:{t.num}"
def showTags (ts : List Tag) : String := "(" ++ " ".intercalate (ts.map showTag) ++ ")"
def showPerC (c : PerC) : String := s!"({c.flags} {c.rangeBits} {c.effBits} {c.lb} {c.ub})"
def showEnc (e : Enc) : String :=
  "(per " ++ (match e.per with | some (v, s) => showPerC v ++ showPerC s | Option.none => "-") ++ ") (oer " ++
  (match e.oer with | some (w, p, s) => s!"{w} {p} {s}" | Option.none => "-") ++ ")"
def showNats (l : List Nat) : String := "(" ++ " ".intercalate (l.map toString) ++ ")"
def showT2E (withToff : Bool) (l : List T2E) : String :=
  "(" ++ " ".intercalate (l.map fun e =>
    showTag e.tag ++ s!">{e.elNo}" ++ (if withToff then s!"/{e.toffFirst}/{e.toffLast}" else "")) ++ ")"
def showSpec : DSpec → String
  | .none => ""
  | .seq fe ro ao oms t2e => s!" (spec first_ext={fe} roms={ro} aoms={ao} oms=" ++ showNats oms ++ " t2e=" ++ showT2E true t2e ++ ")"
  | .set e t2e => s!" (spec ext={e} t2e=" ++ showT2E false t2e ++ ")"
  | .choice es t2e tc fc => s!" (spec ext_start={es} t2e=" ++ showT2E false t2e ++ " to_canon=" ++ showNats tc ++
      " from_canon=" ++ showNats fc ++ ")"
  | .int u st e m => s!" (spec unsigned={u} strict={st} ext={e} map=(" ++
      " ".intercalate (m.map fun (v, n) => s!"{v}:{n}") ++ "))"

mutual
def showDescr : Descr → String
  | .ref n => s!"(ref {n})"
  | .skel n k => s!"(skel {n} {k})"
  | .node name kind tags all enc spec ms =>
    s!"(type {if name.isEmpty then "-" else name} {kind} (tags " ++ showTags tags ++ ") (alltags " ++ showTags all ++ ") " ++
    showEnc enc ++ showSpec spec ++ " (members" ++ showMembers ms ++ "))"
def showMembers : List DMember → String
  | [] => ""
  | .mk name fl op tag mode df enc d :: rest =>
    s!" (m {if name.isEmpty then "-" else name} flags={fl} opt={op} tag=" ++
    (match tag with | some t => showTag t | Option.none => "3:1073741823") ++
    s!" mode={mode} default={if df then 1 else 0} " ++ showEnc enc ++ " " ++ showDescr d ++ ")" ++ showMembers rest
end

end Asn1c.Impl.CompileDescr
