import Asn1cModel.Base
import Asn1cModel.Impl.Integer
/-
  Impl model of skeletons/oer_support.c (`size_t` = 64 bit, `RSIZE_MAX = SIZE_MAX >> 1`).
  Every `*b` of `oer_fetch_length` is an explicit partial lookup; its failure is the outcome `oob`
  (shown unreachable in Proofs/OerSupport).
-/
namespace Asn1c.Impl.OerSupport
open Asn1c

/-- outcome of `oer_fetch_length`: `ok len used` (return value > 0), `more` (0), `fail` (-1), `oob` -/
inductive LenRes where
  | ok (len : Nat) (used : Nat)
  | more
  | fail
  | oob
deriving DecidableEq, Repr

/-- `for(; b < bend && *b == 0; b++)` → the new `b` (`none` = read outside the buffer) -/
def skipZeros (buf : Bytes) : Nat → Nat → Nat → Option Nat
  | 0, b, _ => some b
  | fuel + 1, b, bend =>
    if b < bend then
      match buf[b]? with
      | none => none
      | some x => if x = 0 then skipZeros buf fuel (b + 1) bend else some b
    else some b

/-- `for(len = 0; b < bend; b++) len = (len << 8) + *b;` (at most 8 rounds: no `size_t` overflow) -/
def accumLen (buf : Bytes) : Nat → Nat → Nat → Nat → Option Nat
  | 0, _, _, len => some len
  | fuel + 1, b, bend, len =>
    if b < bend then
      match buf[b]? with
      | none => none
      | some x => accumLen buf fuel (b + 1) bend (len * 256 + x)
    else some len

/-- `oer_fetch_length(bufptr, size, &len)` with `size = buf.length` -/
def fetchLength (buf : Bytes) : LenRes :=
  if buf.length = 0 then .more
  else
    match buf[0]? with
    | none => .oob
    | some first =>
      if first / 128 % 2 = 0 then .ok first 1          -- short form
      else
        let lenLen := first % 128
        if 1 + lenLen > buf.length then .more
        else
          let bend := 1 + lenLen
          match skipZeros buf lenLen 1 bend with
          | none => .oob
          | some b =>
            if bend - b > 8 then .fail                  -- not representable in size_t
            else
              match accumLen buf (bend - b) b bend 0 with
              | none => .oob
              | some len => if len > 2 ^ 63 - 1 then .fail else .ok len (lenLen + 1)

/-- number of significant octets of a 64-bit `length` (the skip-leading-zeros loop of `oer_serialize_length`) -/
def sigOctets (n : Nat) : Nat :=
  if n / 2 ^ 56 % 256 ≠ 0 then 8 else if n / 2 ^ 48 % 256 ≠ 0 then 7 else if n / 2 ^ 40 % 256 ≠ 0 then 6
  else if n / 2 ^ 32 % 256 ≠ 0 then 5 else if n / 2 ^ 24 % 256 ≠ 0 then 4 else if n / 2 ^ 16 % 256 ≠ 0 then 3
  else if n / 2 ^ 8 % 256 ≠ 0 then 2 else 1

/-- `oer_serialize_length(length, cb, key)`: the octets handed to the callback (`length < 2^64`) -/
def serializeLength (n : Nat) : Bytes :=
  if n ≤ 127 then [n] else (128 + sigOctets n) :: toBEn (sigOctets n) n

/-! ### INTEGER_oer.c: the integer width logic (`ct.width` ∈ {0,1,2,4,8}, `ct.positive`) -/

/-- the "Remove leading zeros" loop of `INTEGER_encode_oer` (`ct.positive`): at least one octet is kept -/
def stripZeros : Bytes → Bytes
  | 0 :: b :: bs => stripZeros (b :: bs)
  | bs => bs

/-- `INTEGER_encode_oer` for the INTEGER contents `st` (`st->buf[0..size)`) under `(width, positive)`;
    `none` = ASN__ENCODE_FAILED.  The signed strip loop is `Impl.Integer.strip`. -/
def intEncodeOer (width : Nat) (positive : Bool) (st : Bytes) : Option Bytes :=
  match st with
  | [] => none                                                  -- `!st || st->size == 0`
  | b0 :: _ =>
    let sign := b0 ≥ 128                                        -- `buf[0] & 0x80`
    if positive ∧ sign then none                                -- "signed value. Can't proceed"
    else
      let buf := if positive then stripZeros st else Asn1c.Impl.Integer.strip st
      let useful := buf.length
      let hdr := if width ≠ 0 then [] else serializeLength useful
      let req := if width ≠ 0 then width else useful
      if req < useful then none
      else some (hdr ++ List.replicate (req - useful) (if sign then 255 else 0) ++ buf)

/-- outcome of `INTEGER_decode_oer`: the INTEGER contents and the octets consumed -/
inductive IntRes where
  | ok (content : Bytes) (used : Nat)
  | more            -- RC_WMORE
  | fail            -- RC_FAIL
  | oob             -- a read outside `[ptr, ptr + size)` (finding F5)
deriving DecidableEq, Repr

/-- `INTEGER_decode_oer` on `size = buf.length` octets under `(width, positive)`.  The contents stored in the
    `INTEGER_t` are the wire octets without their superfluous leading octets (repair of F36): the zero padding
    of an unsigned encoding (`stripZeros`, then a 0 in front when the top bit is set), the sign extension of a
    signed one (`Impl.Integer.strip`, the loop of `INTEGER_encode_der`); all `req` octets are consumed. -/
def intDecodeOer (width : Nat) (positive : Bool) (buf : Bytes) : IntRes :=
  let go (req off : Nat) : IntRes :=
    if req > buf.length - off then .more                        -- `req_bytes > size`
    else
      let body := (buf.drop off).take req
      if positive then
        -- `msb = *(const uint8_t *)ptr >> 7`; `req_bytes == 0` is rejected before (variable size) or impossible
        -- (width): the probe would read outside the `req_bytes` octets
        match stripZeros body with
        | [] => .oob
        | b :: bs => .ok ((if b / 128 % 2 = 1 then [0] else []) ++ b :: bs) (off + req)
      else .ok (Asn1c.Impl.Integer.strip body) (off + req)
  if width ≠ 0 then go width 0
  else
    match fetchLength buf with
    | .more => .more
    | .fail => .fail
    | .oob => .oob
    | .ok len used => if len = 0 then .fail else go len used     -- X.696 10.2: at least one octet (repair of F5)

end Asn1c.Impl.OerSupport
