import Asn1cModel.Base
/-
  Impl (C20): `ber_fetch_tag`, `ber_fetch_length`, `ber_tlv_tag_serialize`,
  `der_tlv_length_serialize` (skeletons/ber_tlv_tag.c, ber_tlv_length.c) as they are called
  by `unber` and `enber`: with an explicit `(buf, size)` pair.  Every read `buf[i]` is a
  partial lookup; a failed lookup is the distinguished outcome `oob` (proved unreachable
  in Proofs/Unber.lean).  Self-contained on purpose (core Lean only).

  `ber_tlv_tag_t` is a 32-bit unsigned `(number << 2) | class`; `ber_tlv_len_t` is a 64-bit
  signed `ssize_t`, `-1` = indefinite.
-/
namespace Asn1c.Impl.UnberTlv
open Asn1c

/-- result of the fetch functions: `ok v n` (return value `n > 0`), `more` (0), `fail` (-1),
    `oob` (the model would read outside `buf[0..size)`/outside the initialised part). -/
inductive Fetch (α : Type) where
  | ok (v : α) (n : Nat)
  | more
  | fail
  | oob
deriving DecidableEq, Repr

/-- the `for(val = 0, skipped = 2; skipped <= size; skipped++)` loop of `ber_fetch_tag`;
    `rest` = the buffer from `ptr` on.  Invariant at the loop head: `val < 2^23`, hence
    `(val << 7) | x < 2^30` and `(val << 2) | tclass` do not overflow the 32-bit type. -/
def fetchTagLoop (tclass : Nat) : Bytes → Nat → Nat → Nat → Fetch Nat
  | [], _, skipped, size => if skipped ≤ size then .oob else .more
  | oct :: rest, val, skipped, size =>
    if skipped ≤ size then
      if oct ≥ 128 then
        let val' := val * 128 + oct % 128
        if val' / 2 ^ 23 ≠ 0 then .fail
        else fetchTagLoop tclass rest val' (skipped + 1) size
      else
        .ok ((val * 128 + oct) * 4 % 2 ^ 32 + tclass) skipped
    else .more

/-- `ber_fetch_tag(ptr, size, &tag)`; the tag is `(number << 2) | class`. -/
def fetchTag (buf : Bytes) (size : Nat) : Fetch Nat :=
  if size = 0 then .more else
  match buf with
  | [] => .oob
  | b :: rest =>
    let tclass := b / 64
    if b % 32 ≠ 31 then .ok (b % 32 * 4 + tclass) 1
    else fetchTagLoop tclass rest 0 2 size

/-- the `for(len = 0, buf++, skipped = 1; oct && (++skipped <= size); buf++, oct--)` loop of
    `ber_fetch_length`.  `skipped` is the value *before* the `++skipped` of this round. -/
def fetchLenLoop : Bytes → Nat → Nat → Nat → Nat → Fetch Int
  | _, 0, len, skipped, _ =>
    -- `oct == 0`: `len < 0` cannot happen (`len < 2^55` before every shift)
    if len > 2 ^ 62 - 1 then .fail else .ok (Int.ofNat len) skipped
  | [], _ + 1, _, skipped, size => if skipped + 1 ≤ size then .oob else .more
  | b :: rest, oct + 1, len, skipped, size =>
    if skipped + 1 ≤ size then
      if len / 2 ^ 55 = 0 then fetchLenLoop rest oct (len * 256 + b) (skipped + 1) size
      else .fail
    else .more

/-- `ber_fetch_length(_is_constructed, buf, size, &len)` -/
def fetchLength (constructed : Bool) (buf : Bytes) (size : Nat) : Fetch Int :=
  if size = 0 then .more else
  match buf with
  | [] => .oob
  | oct :: rest =>
    if oct < 128 then .ok (Int.ofNat oct) 1
    else if constructed && oct == 128 then .ok (-1) 1
    else if oct == 255 then .fail
    else fetchLenLoop rest (oct % 128) 0 1 size

/-- `BER_TAG_CLASS`, `BER_TAG_VALUE` -/
def tagClass (tag : Nat) : Nat := tag % 4
def tagValue (tag : Nat) : Nat := tag / 4

/-- `required_size` loop of `ber_tlv_tag_serialize` (`i = 7, 14, 21, 28 < 32`) -/
def tagRequired (tval : Nat) : Nat :=
  if tval / 2 ^ 7 = 0 then 1 else if tval / 2 ^ 14 = 0 then 2 else if tval / 2 ^ 21 = 0 then 3
  else if tval / 2 ^ 28 = 0 then 4 else 5

/-- the fill loop: `k` groups, `0x80 | ((tval >> i) & 0x7F)` for all but the last -/
def tagGroupOctets : Nat → Nat → Bytes
  | 0, _ => []
  | 1, tval => [tval % 128]
  | k + 2, tval => (128 + tval / 2 ^ (7 * (k + 1)) % 128) :: tagGroupOctets (k + 1) tval

/-- `ber_tlv_tag_serialize(tag, buf, size)`: (octets written into `buf`, return value). -/
def tagSerialize (tag : Nat) (size : Nat) : Bytes × Nat :=
  let tclass := tagClass tag
  let tval := tagValue tag
  if tval ≤ 30 then (if size > 0 then [tclass * 64 + tval] else [], 1)
  else
    let first := if size > 0 then [tclass * 64 + 31] else []
    let size' := size - 1
    let req := tagRequired tval
    if size' < req then (first, req + 1)
    else (first ++ tagGroupOctets req tval, req + 1)

/-- `required_size` loop of `der_tlv_length_serialize` (`i = 8, …, 56 < 64`), for `len ≥ 0` -/
def lenRequired (len : Nat) : Nat :=
  if len / 2 ^ 8 = 0 then 1 else if len / 2 ^ 16 = 0 then 2 else if len / 2 ^ 24 = 0 then 3
  else if len / 2 ^ 32 = 0 then 4 else if len / 2 ^ 40 = 0 then 5 else if len / 2 ^ 48 = 0 then 6
  else if len / 2 ^ 56 = 0 then 7 else 8

/-- `der_tlv_length_serialize(len, buf, size)` for `0 ≤ len < 2^63` (enber rejects negative
    values before the call): (octets written, return value). -/
def lenSerialize (len : Nat) (size : Nat) : Bytes × Nat :=
  if len ≤ 127 then (if size > 0 then [len] else [], 1)
  else
    let req := lenRequired len
    if size ≤ req then ([], req + 1)
    else ((128 + req) :: toBEn req len, req + 1)

end Asn1c.Impl.UnberTlv
