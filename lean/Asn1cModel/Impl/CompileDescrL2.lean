import Asn1cModel.Impl.CompileDescr
import Asn1cModel.L2.Resolve
import Asn1cModel.L2.Der
/-
  Impl.CompileDescrL2 — the bridge between the compiler model and the L2 reference codecs.

  `L2.resolveTy` (L2/Resolve.lean) is a `partial def` on raw s-expressions: nothing can be proved about it.
  `toL2` restates it as a total function on the typed module AST of `Impl.CompileDescr` (same clauses, same
  tagging rules X.680 §31.2.7 / §25.8, same fuel discipline); the driver op `l2same` checks
  `toL2 M 64 t = resolveTy ctx 64 e` on every type the K leg visits, and the theorems of
  `Props/C10Compile.lean` speak about `toL2`.  Core Lean only.
-/
namespace Asn1c.Impl.CompileDescr
open Asn1c Asn1c.L2 Asn1c.Impl.BerTlv

def specOf : Option WTag → Option TagSpec
  | none => none
  | some g => some ⟨g.tag, match g.mode with | .dflt => 0 | .imp => 1 | .exp => 2⟩

/-- (L2 primitive kind, universal tag number) -/
def primOf : PrimK → Prim × Nat
  | .boolean => (.boolean, 1) | .null => (.null, 5) | .real => (.real, 9) | .oid => (.octets, 6)
  | .roid => (.octets, 13) | .utcTime => (.octets, 23) | .genTime => (.octets, 24)

def attrOf (o : Opt) (isExt : Bool) : Attr :=
  match o with
  | .opt => ⟨true, none, isExt⟩
  | .dflt v => ⟨true, v, isExt⟩
  | .mand => ⟨false, none, isExt⟩

/-- `go` of `L2.resolveComps`, with the resolver of the component types as a parameter -/
def l2Comps (res : CTy → Option Ty) (auto : Bool) (extAt : Nat) : Nat → List Comp → Option (List Ty × List Attr)
  | _, [] => some ([], [])
  | i, c :: rest =>
    match res c.ty, l2Comps res auto extAt (i + 1) rest with
    | some t, some (ts, as) =>
      let t' := if auto then
          (if isUntaggedChoice t then retag t (fun base => ⟨2, i⟩ :: base)
           else retag t (fun base => ⟨2, i⟩ :: base.drop 1))
        else t
      some (t' :: ts, attrOf c.opt (decide (i ≥ extAt)) :: as)
    | _, _ => none

def autoSelected (M : Module) (comps : List Comp) : Bool :=
  M.tagDefault == "AUTOMATIC" && comps.all (fun c => c.ty.tag.isNone)

/-- `L2.resolveTy` on the typed AST -/
def toL2 (M : Module) : Nat → CTy → Option Ty
  | 0, _ => none
  | fuel + 1, t =>
    let td := M.tagDefault
    match t with
    | .prim tag k => some (.prim (applyTag td (specOf tag) [univ (primOf k).2] false) (primOf k).1)
    | .integer tag _ => some (.prim (applyTag td (specOf tag) [univ 2] false) .integer)
    | .enumerated tag _ _ => some (.prim (applyTag td (specOf tag) [univ 10] false) .enumerated)
    | .bitstr tag _ => some (.prim (applyTag td (specOf tag) [univ 3] false) .bits)
    | .octstr tag _ => some (.prim (applyTag td (specOf tag) [univ 4] false) .octets)
    | .str tag k _ _ => (L2.strUniv k).bind fun u => some (.prim (applyTag td (specOf tag) [univ u] false) .octets)
    | .listOf tag q _ e =>
      (toL2 M fuel e).bind fun e' =>
        some (if q then .seqOf (applyTag td (specOf tag) [univ 16] false) e'
              else .setOf (applyTag td (specOf tag) [univ 17] false) e')
    | .constr tag k ext comps =>
      (l2Comps (toL2 M fuel) (autoSelected M comps) (ext.getD comps.length) 0 comps).bind fun (ms, as) =>
        match k with
        | .sequence => some (.seq (applyTag td (specOf tag) [univ 16] false) ms as ext.isSome)
        | .set => some (.set (applyTag td (specOf tag) [univ 17] false) ms as ext.isSome)
        | .choice => some (.choice (applyTag td (specOf tag) [] true) ms ext.isSome)
    | .ref tag n =>
      match M.lookup n with
      | none => none
      | some d =>
        (toL2 M fuel d).bind fun ty =>
          some (retag ty (fun base => applyTag td (specOf tag) base (isUntaggedChoice ty)))

/-- `L2.resolveNamed` -/
def toL2Named (M : Module) (name : String) : Option Ty := (M.lookup name).bind (toL2 M 64)

end Asn1c.Impl.CompileDescr
