import Asn1cModel.Impl.Integer
import Asn1cModel.Impl.BerTlv
/-
  Impl model of the representation-dependent codec paths (C13):
  skeletons/NativeInteger.c, NativeInteger_oer.c, NativeEnumerated.c, NativeEnumerated_oer.c,
  ENUMERATED.c and the INTEGER.c / INTEGER_oer.c encoders they delegate to.
  LP64: `long` = 64 bit.  A native cell (`long` / `unsigned long`) is its 64-bit pattern `w < 2^64`;
  `toSigned64 w` is the value read through `long`, `w` itself the value read through `unsigned long`.
  An `INTEGER_t` / `ENUMERATED_t` is its octet list `st->buf[0..size)`.
  Each definition mirrors one C function as it is.  Core Lean only.
-/
namespace Asn1c.Impl.Native
open Asn1c Asn1c.Impl.Integer Asn1c.Impl.BerTlv

/-- the 64-bit pattern of a `long` holding `v` -/
def wordOfLong (v : Int) : Nat := (v % 2 ^ 64).toNat

/-- the abstract value held by a native cell: read through `unsigned long` when the descriptor has
    `field_unsigned`, through `long` otherwise (what `%lu` / `%ld` print) -/
def nativeValue (unsigned : Bool) (w : Nat) : Int := if unsigned then (w : Int) else toSigned64 w

/-! ### DER -/

/-- `der_encode_primitive` for a type with one tag and `tag_mode = 0`:
    `der_write_tags` (identifier, primitive form, definite length) followed by the contents. -/
def derPrimitive (t : Tag) (content : Bytes) : Bytes :=
  tagSerialize t ++ lenSerialize content.length ++ content

/-- the contents octets `INTEGER_encode_der` puts on the wire (`st->buf` non-NULL):
    the leading-octet canonicalisation loop, i.e. `strip` -/
def INTEGER_der_content (bs : Bytes) : Bytes := strip bs

/-- `INTEGER_encode_der` (also the DER encoder of the wide `ENUMERATED_t`) -/
def INTEGER_encode_der (t : Tag) (bs : Bytes) : Bytes := derPrimitive t (INTEGER_der_content bs)

/-- the `sizeof(long)` octets, most significant first, of `*(const unsigned long *)ptr` -/
def nativeOctets (w : Nat) : Bytes := toBEn 8 w

/-- the fake INTEGER built by `NativeInteger_encode_der`: the octets of the cell; when the descriptor has
    `field_unsigned` and the most significant bit is set, a leading 00 octet is put in front
    (`ubuf[1 + sizeof(long)]`, since the repair of finding F20) so that the value stays positive -/
def nativeFakeINTEGER (unsigned : Bool) (w : Nat) : Bytes :=
  if unsigned && isNegative (nativeOctets w) then 0 :: nativeOctets w else nativeOctets w

def NativeInteger_der_content (unsigned : Bool) (w : Nat) : Bytes :=
  INTEGER_der_content (nativeFakeINTEGER unsigned w)

/-- `NativeInteger_encode_der` (also the DER encoder of NativeEnumerated, whose descriptors never have
    `field_unsigned`) -/
def NativeInteger_encode_der (unsigned : Bool) (t : Tag) (w : Nat) : Bytes :=
  INTEGER_encode_der t (nativeFakeINTEGER unsigned w)

/-! ### BER decoding of the contents octets (after `ber_check_tags`) -/

/-- `ber_decode_primitive`: the wide types keep the contents octets verbatim -/
def INTEGER_decode_ber_content (content : Bytes) : Bytes := content

/-- `NativeInteger_decode_ber` on the contents octets: the 64-bit pattern stored in `*native`,
    or RC_FAIL (`erange`).  `field_unsigned` selects `asn_INTEGER2ulong` (sic). -/
def NativeInteger_decode_ber_content (unsigned : Bool) (content : Bytes) : Conv Nat :=
  if unsigned then INTEGER2ulong content
  else match INTEGER2long content with
    | .ok v => .ok (wordOfLong v)
    | .erange => .erange
    | .einval => .einval

/-! ### OER -/

/-- `oer_serialize_length` -/
def oerLenSerialize (n : Nat) : Bytes :=
  if n ≤ 127 then [n] else (128 + (toBE n).length) :: toBE n

/-- the "Remove leading zeros" loop of `INTEGER_encode_oer` (`ct.positive`) -/
def oerStripZeros : Bytes → Bytes
  | 0 :: b :: bs => oerStripZeros (b :: bs)
  | bs => bs

/-- `INTEGER_encode_oer` with `ct = {width, positive}`; `none` = ASN__ENCODE_FAILED -/
def INTEGER_encode_oer (width : Nat) (positive : Bool) (bs : Bytes) : Option Bytes :=
  match bs with
  | [] => none
  | b0 :: _ =>
    let sign := decide (b0 ≥ 128)
    if positive && sign then none
    else
      let u := if positive then oerStripZeros bs else strip bs
      if width ≠ 0 then
        if width < u.length then none
        else some (List.replicate (width - u.length) (if sign then 255 else 0) ++ u)
      else some (oerLenSerialize u.length ++ u)

/-- the temporary INTEGER of `NativeInteger_encode_oer` / `_uper`:
    `asn_ulong2INTEGER` or `asn_long2INTEGER` of the native cell -/
def nativeToINTEGER (unsigned : Bool) (w : Nat) : Bytes :=
  if unsigned then ulong2INTEGER w else imax2INTEGER (toSigned64 w)

/-- `NativeInteger_encode_oer` -/
def NativeInteger_encode_oer (width : Nat) (positive : Bool) (unsigned : Bool) (w : Nat) : Option Bytes :=
  INTEGER_encode_oer width positive (nativeToINTEGER unsigned w)

/-! ### UPER -/

/-- `asn_per_constraint_t` (value constraint) -/
structure PerCt where
  ext : Bool          -- APC_EXTENSIBLE
  semi : Bool         -- APC_SEMI_CONSTRAINED
  rangeBits : Int     -- range_bits, -1 = none
  lb : Int            -- lower_bound (long)
  ub : Int            -- upper_bound (long)
deriving DecidableEq, Repr

/-- `per_long_range_rebase(v, lb, ub, &out)`: `v - lb` computed without signed overflow -/
def perRebase (v lb ub : Int) : Option Nat :=
  if v < lb ∨ v > ub ∨ (ub < 0 ∧ ¬ lb < 0) then none else some (v - lb).toNat

/-- `uper_put_length` + `per_put_many_bits` loop of the unconstrained INTEGER, for fewer than
    16384 octets (one iteration, no fragmentation; longer values are outside this model) -/
def uperLenOctets (bs : Bytes) : Option Bits :=
  if bs.length ≤ 127 then some (natBits 8 bs.length ++ bytesToBits bs)
  else if bs.length < 16384 then some (natBits 16 (bs.length + 32768) ++ bytesToBits bs)
  else none

/-- the octets of the semi-constrained offset: `do { *--op = offset & 0xff; offset >>= 8; } while(offset);`
    (the 8 octets of an `unsigned long` without the leading zero octets, one zero octet for 0) -/
def offsetOctets (n : Nat) : Bytes := oerStripZeros (toBEn 8 n)

/-- the tail of `INTEGER_encode_uper` once `ct` (possibly reset to NULL) and `value` are known -/
def INTEGER_uper_body (ct : Option PerCt) (value : Int) (bs : Bytes) : Option Bits :=
  match ct with
  | some c =>
    if c.rangeBits ≥ 0 then
      match perRebase value c.lb c.ub with
      | none => none
      | some v => some (natBits c.rangeBits.toNat v)
    else if c.semi then
      -- X.691 §10.7 (findings F42 / F110 repaired): `(unsigned long)value - (unsigned long)lower_bound`
      -- as a non-negative-binary-integer in the minimum number of octets, after its length
      uperLenOctets (offsetOctets ((value - c.lb) % 2 ^ 64).toNat)
    else if c.lb ≠ 0 then none          -- "TODO: adjust lower bound"
    else uperLenOctets (strip bs)       -- superfluous leading octets skipped (finding F18 repaired)
  | none => uperLenOctets (strip bs)

/-- `INTEGER_encode_uper`; `none` = ASN__ENCODE_FAILED -/
def INTEGER_encode_uper (unsigned : Bool) (ct : Option PerCt) (bs : Bytes) : Option Bits :=
  if bs = [] then none else
  match ct with
  | none => INTEGER_uper_body none 0 bs
  | some c =>
    -- `value` and the range test, through asn_INTEGER2ulong / asn_INTEGER2long
    let r : Option (Int × Bool) :=
      if unsigned then
        match INTEGER2ulong bs with
        | .ok uval =>
          let ulb := wordOfLong c.lb
          let uub := wordOfLong c.ub
          let inext := if c.semi then decide (uval < ulb)
                       else if c.rangeBits ≥ 0 then decide (uval < ulb ∨ uval > uub) else false
          some (toSigned64 uval, inext)
        | _ => none
      else
        match INTEGER2long bs with
        | .ok v =>
          let inext := if c.semi then decide (v < c.lb)
                       else if c.rangeBits ≥ 0 then decide (v < c.lb ∨ v > c.ub) else false
          some (v, inext)
        | _ => none
    match r with
    | none => none
    | some (value, inext) =>
      if c.ext then
        match INTEGER_uper_body (if inext then none else some c) value bs with
        | none => none
        | some body => some (inext :: body)
      else if inext then none
      else INTEGER_uper_body (some c) value bs

/-- `NativeInteger_encode_uper` -/
def NativeInteger_encode_uper (unsigned : Bool) (ct : Option PerCt) (w : Nat) : Option Bits :=
  INTEGER_encode_uper unsigned ct (nativeToINTEGER unsigned w)

/-! ### XER (text between the tags) -/

def asciiOf (s : String) : Bytes := s.toList.map Char.toNat

/-- `asn_INTEGER_specifics_t`: `value2enum` (value, name) sorted by value, `extension`,
    `strict_enumeration`, `field_unsigned` -/
structure IntSpecs where
  map : List (Int × String)
  extension : Nat
  strict : Bool
  unsigned : Bool
deriving Repr

/-- `INTEGER_map_value2enum` -/
def value2enum (sp : Option IntSpecs) (v : Int) : Option String :=
  match sp with
  | none => none
  | some s => (s.map.find? (fun e => e.1 == v)).map (·.2)

/-- `NativeInteger_encode_xer`: `snprintf("%ld" / "%lu")`, the named-number map is not consulted -/
def NativeInteger_encode_xer (sp : Option IntSpecs) (w : Nat) : Option Bytes :=
  let unsigned : Bool := match sp with | some s => s.unsigned | none => false
  some (asciiOf (if unsigned then toString w else toString (toSigned64 w)))

/-- `INTEGER__dump(plainOrXER = 1)` as used by `INTEGER_encode_xer` (also wide ENUMERATED), for
    values that convert (`ret == 0`); `none` = failure or the `xx:yy` long form (not modelled) -/
def INTEGER_encode_xer (sp : Option IntSpecs) (bs : Bytes) : Option Bytes :=
  let unsigned : Bool := match sp with | some s => s.unsigned | none => false
  let strict : Bool := match sp with | some s => s.strict | none => false
  let conv : Option Int :=
    if unsigned then (match INTEGER2umax bs with | .ok u => some (toSigned64 u) | _ => none)
    else (match INTEGER2imax bs with | .ok v => some v | _ => none)
  match conv with
  | none => none
  | some value =>
    let el := if value ≥ 0 ∨ unsigned = false then value2enum sp value else none
    match el with
    | some name => some (asciiOf ("<" ++ name ++ "/>"))
    | none =>
      if strict then none
      else some (asciiOf (if unsigned then toString (wordOfLong value) else toString value))

/-- `NativeEnumerated_encode_xer` -/
def NativeEnumerated_encode_xer (sp : Option IntSpecs) (w : Nat) : Option Bytes :=
  match value2enum sp (toSigned64 w) with
  | some name => some (asciiOf ("<" ++ name ++ "/>"))
  | none => none

/-! ### ENUMERATED: the native codec is the primary one, the wide type converts and delegates -/

/-- the byte loop of `NativeEnumerated_encode_oer` (long form): emits the low octet, shifts
    arithmetically, stops when the rest is pure sign and the sign bit of the last octet agrees -/
def enumOerLoop : Nat → Int → Int → Bytes → Bytes
  | 0, _, _, acc => acc
  | fuel + 1, native, fin, acc =>
    let b := (native % 256).toNat
    let native' := native / 256
    if native' = fin ∧ (if fin ≠ 0 then b ≥ 128 else b < 128) then b :: acc
    else enumOerLoop fuel native' fin (b :: acc)

/-- `NativeEnumerated_encode_oer` -/
def NativeEnumerated_encode_oer (w : Nat) : Option Bytes :=
  let native := toSigned64 w
  if 0 ≤ native ∧ native ≤ 127 then some [native.toNat]
  else
    let body := enumOerLoop 8 native (if native < 0 then -1 else 0) []
    some ((128 + body.length) :: body)

/-- `ENUMERATED_encode_oer`: `asn_INTEGER2long` then the native encoder -/
def ENUMERATED_encode_oer (bs : Bytes) : Option Bytes :=
  match INTEGER2long bs with
  | .ok v => NativeEnumerated_encode_oer (wordOfLong v)
  | _ => none

/-- `uper_put_nsnnwn` (with the marker bit `1` of X.691 §10.6.2 for n ≥ 64: finding F29 repaired) -/
def uperPutNsnnwn (n : Int) : Option Bits :=
  if n ≤ 63 then (if n < 0 then none else some (natBits 7 n.toNat))
  else
    let bytes := if n < 256 then 1 else if n < 65536 then 2 else if n < 256 * 65536 then 3 else 0
    if bytes = 0 then none else some (true :: (natBits 8 bytes ++ natBits (8 * bytes) n.toNat))

/-- position of `v` in `value2enum` (the `bsearch`) -/
def enumIndex (m : List (Int × String)) (v : Int) : Option Nat :=
  let i := m.findIdx (fun e => e.1 == v)
  if i < m.length then some i else none

/-- `NativeEnumerated_encode_uper` (`specs` and the value constraint are mandatory) -/
def NativeEnumerated_encode_uper (sp : Option IntSpecs) (ct : Option PerCt) (w : Nat) : Option Bits :=
  match sp, ct with
  | some s, some c =>
    match enumIndex s.map (toSigned64 w) with
    | none => none
    | some value =>
      let inext := decide (c.rangeBits ≥ 0) &&
        decide (value ≥ (if s.extension ≠ 0 then s.extension - 1 else s.map.length))
      let tail (ct : Option PerCt) : Option Bits :=
        match ct with
        | some c' =>
          if c'.rangeBits ≥ 0 then some (natBits c'.rangeBits.toNat value)
          else if s.extension = 0 then none
          else uperPutNsnnwn ((value : Int) - (if inext then (s.extension : Int) - 1 else 0))
        | none =>
          if s.extension = 0 then none
          else uperPutNsnnwn ((value : Int) - (if inext then (s.extension : Int) - 1 else 0))
      if c.ext then
        match tail (if inext then none else some c) with
        | none => none
        | some body => some (inext :: body)
      else if inext then none
      else tail (some c)
  | _, _ => none

/-- `ENUMERATED_encode_uper`: `asn_INTEGER2long` then the native encoder -/
def ENUMERATED_encode_uper (sp : Option IntSpecs) (ct : Option PerCt) (bs : Bytes) : Option Bits :=
  match INTEGER2long bs with
  | .ok v => NativeEnumerated_encode_uper sp ct (wordOfLong v)
  | _ => none

/-! ### where a member lives (ATF_POINTER), and names -/

/-- a member of a SEQUENCE/SET/CHOICE structure: stored inline, or behind a pointer
    (`ATF_POINTER`: OPTIONAL members, recursion breakers, CHOICE members under -findirect-choice) -/
inductive Slot (α : Type) where
  | inline (v : α)
  | pointer (p : Option α)
deriving Repr

/-- the `memb_ptr` computation shared by every constructed-type codec:
    `if(elm->flags & ATF_POINTER) memb_ptr = *(void **)((char *)sptr + elm->memb_offset);
     else memb_ptr = (char *)sptr + elm->memb_offset;` -/
def Slot.membPtr {α : Type} : Slot α → Option α
  | .inline v => some v
  | .pointer p => p

/-- one member as the constructed encoders see it: its encoder, its `optional` flag, its slot -/
structure Member (α β : Type) where
  enc : α → Option β
  optional : Bool
  slot : Slot α

/-- the per-member step of `SEQUENCE_encode_der/_uper/_oer/_xer`: absent OPTIONAL members are
    skipped, an absent mandatory member fails, a present one is encoded from `memb_ptr` -/
def encodeMember {α β : Type} (m : Member α β) : Option (List β) :=
  match m.slot.membPtr with
  | none => if m.optional then some [] else none
  | some v => (m.enc v).map (fun x => [x])

def encodeMembers {α β : Type} : List (Member α β) → Option (List β)
  | [] => some []
  | m :: ms =>
    match encodeMember m, encodeMembers ms with
    | some a, some b => some (a ++ b)
    | _, _ => none

/-- the names attached to a generated type: `td->name` (ASN.1 name), `td->xml_tag` (the ASN.1
    identifier, used as the XER element name) and the C identifier of the descriptor/struct
    (`asn_DEF_<cIdent>`, changed by -fcompound-names) -/
structure TypeNames where
  name : String
  xmlTag : String
  cIdent : String
deriving Repr

/-- `xer_encode` / member wrapping: `<tag>body</tag>` -/
def xerElement (n : TypeNames) (body : Bytes) : Bytes :=
  asciiOf ("<" ++ n.xmlTag ++ ">") ++ body ++ asciiOf ("</" ++ n.xmlTag ++ ">")

end Asn1c.Impl.Native
