/-
  C10: `WfDescr` — a decidable well-formedness predicate on the type-descriptor graph that asn1c emits
  (`asn_TYPE_descriptor_t` + members + specifics), evaluated on the s-expression dump printed by
  `harness/reflect.c` (`descr` op).  Core Lean only.

  The predicate collects what the runtime codecs rely on without checking it themselves:

   * tags / all_tags:  tags_count ≤ all_tags_count, both empty or both non-empty, `tags` is a
     subsequence of `all_tags` starting with the same (outermost) tag         (asn1c_C.c emit_tags_vectors)
   * member `optional` = length of the run of omitable members starting there    (emit_member_table)
   * tag2el: strictly sorted by (class, value, el_no) = `_tag2el_cmp`; every entry points to a member
     carrying that tag (or an untagged CHOICE member); every unambiguously tagged member is present;
     SEQUENCE: toff_first/toff_last delimit the run of equal tags; SET/CHOICE: tags pairwise distinct
   * SEQUENCE oms: root optional members (ascending) then addition optional members (ascending),
     roms_count/aoms_count consistent with first_extension (or all empty when neither PER nor OER
     support is generated)
   * CHOICE: to_canonical_order/from_canonical_order both absent or mutually inverse permutations
     that respect the root/extension split
   * INTEGER/ENUMERATED value2enum map strictly sorted by value, names unique
   * PER constraint records: constrained ⇒ lb ≤ ub, range_bits = ⌈log2(ub-lb+1)⌉, effective_bits as
     computed by emit_single_member_PER_constraint; semi- or unconstrained ⇒ −1/−1
-/
namespace Asn1c.Impl.WfDescr

/-! ### s-expressions -/

inductive Sx where
  | atom (s : String)
  | list (xs : List Sx)
  deriving Repr, Inhabited

/-- split into "(" , ")" and maximal runs of other non-blank characters -/
def tokenize (cs : List Char) : List String :=
  let flush (cur : List Char) (acc : List String) : List String :=
    if cur.isEmpty then acc else String.ofList cur.reverse :: acc
  let rec go : List Char → List Char → List String → List String
    | [], cur, acc => (flush cur acc).reverse
    | c :: rest, cur, acc =>
      if c = '(' then go rest [] ("(" :: flush cur acc)
      else if c = ')' then go rest [] (")" :: flush cur acc)
      else if c = ' ' || c = '\t' || c = '\n' || c = '\r' then go rest [] (flush cur acc)
      else go rest (c :: cur) acc
  go cs [] []

/-- stack machine; the bottom frame collects the top-level items -/
def parseToks : List String → List (List Sx) → Option (List Sx)
  | [], [top] => some top.reverse
  | [], _ => none
  | t :: rest, st =>
    if t = "(" then parseToks rest ([] :: st)
    else if t = ")" then
      match st with
      | top :: next :: st' => parseToks rest ((Sx.list top.reverse :: next) :: st')
      | _ => none
    else
      match st with
      | top :: st' => parseToks rest ((Sx.atom t :: top) :: st')
      | [] => none

def parseSx (s : String) : Option Sx :=
  match parseToks (tokenize s.toList) [[]] with
  | some [x] => some x
  | _ => none

mutual
/-- every list sub-expression (pre-order) -/
def Sx.subs : Sx → List Sx
  | .atom _ => []
  | .list xs => .list xs :: Sx.subsL xs
def Sx.subsL : List Sx → List Sx
  | [] => []
  | x :: xs => x.subs ++ Sx.subsL xs
end

/-! ### the typed view of one descriptor -/

structure Tag where
  cls : Nat
  num : Nat
  deriving Repr, DecidableEq, Inhabited

/-- `(ber_tlv_tag_t)-1`: the "ambiguous tag" of untagged CHOICE / ANY members -/
def Tag.amb : Tag := ⟨3, 1073741823⟩

def Tag.lt (a b : Tag) : Bool := a.cls < b.cls || (a.cls == b.cls && a.num < b.num)

structure PerC where
  flags : Int
  rangeBits : Int
  effBits : Int
  lb : Int
  ub : Int
  deriving Repr, DecidableEq, Inhabited

structure T2E where
  tag : Tag
  elNo : Nat
  toffFirst : Int := 0
  toffLast : Int := 0
  deriving Repr, DecidableEq, Inhabited

structure Member where
  name : String
  flags : Nat
  optional : Nat
  tag : Tag
  mode : Int
  hasDefault : Bool
  per : Option (PerC × PerC)
  /-- kind and effective tags of the member's type descriptor when it is dumped inline (not a back reference) -/
  child : Option (String × List Tag)
  deriving Repr, Inhabited

inductive Spec where
  | none
  | seq (firstExt : Int) (roms aoms : Nat) (oms : List Nat) (t2e : List T2E)
  | set (ext : Int) (t2e : List T2E)
  | choice (extStart : Int) (t2e : List T2E) (toCanon fromCanon : List Nat)
  | int (isUnsigned strict : Int) (ext : Int) (map : List (Int × String))
  deriving Repr, Inhabited

structure Node where
  name : String
  kind : String
  tags : List Tag
  allTags : List Tag
  per : Option (PerC × PerC)
  spec : Spec
  members : List Member
  deriving Repr, Inhabited

/-! ### reading the dump -/

def splitOn1 (s : String) (c : Char) : Option (String × String) :=
  let cs := s.toList
  match cs.span (· ≠ c) with
  | (a, _ :: b) => some (String.ofList a, String.ofList b)
  | _ => none

def kv (key : String) (s : String) : Option String :=
  match splitOn1 s '=' with
  | some (k, v) => if k = key then some v else none
  | none => none

def readTag (s : String) : Option Tag :=
  match splitOn1 s ':' with
  | some (a, b) => match a.toNat?, b.toNat? with
    | some c, some n => some ⟨c, n⟩
    | _, _ => none
  | none => none

def atoms : List Sx → Option (List String)
  | [] => some []
  | .atom a :: r => (atoms r).map (a :: ·)
  | _ => none

def readTags (x : Sx) : Option (List Tag) :=
  match x with
  | .list xs => (atoms xs).bind (fun as => as.mapM readTag)
  | _ => none

def readNats (x : Sx) : Option (List Nat) :=
  match x with
  | .list xs => (atoms xs).bind (fun as => as.mapM (·.toNat?))
  | _ => none

def readPerC (x : Sx) : Option PerC :=
  match x with
  | .list [.atom a, .atom b, .atom c, .atom d, .atom e] =>
    match a.toInt?, b.toInt?, c.toInt?, d.toInt?, e.toInt? with
    | some a, some b, some c, some d, some e => some ⟨a, b, c, d, e⟩
    | _, _, _, _, _ => none
  | _ => none

/-- `(per (v…)(s…))` or `(per -)` -/
def readPer (x : Sx) : Option (Option (PerC × PerC)) :=
  match x with
  | .list [.atom "per", .atom "-"] => some none
  | .list [.atom "per", v, s] =>
    match readPerC v, readPerC s with
    | some v, some s => some (some (v, s))
    | _, _ => none
  | _ => none

/-- `c:n>el` or `c:n>el/first/last` -/
def readT2E (s : String) : Option T2E :=
  match splitOn1 s '>' with
  | some (t, r) =>
    match readTag t with
    | some tag =>
      match r.splitOn "/" with
      | [e] => e.toNat?.map (fun e => ⟨tag, e, 0, 0⟩)
      | [e, f, l] =>
        match e.toNat?, f.toInt?, l.toInt? with
        | some e, some f, some l => some ⟨tag, e, f, l⟩
        | _, _, _ => none
      | _ => none
    | none => none
  | none => none

def readT2Es (x : Sx) : Option (List T2E) :=
  match x with
  | .list xs => (atoms xs).bind (fun as => as.mapM readT2E)
  | _ => none

def readMapEntry (s : String) : Option (Int × String) :=
  match splitOn1 s ':' with
  | some (v, n) => v.toInt?.map (fun v => (v, n))
  | none => none

def readSpec (x : Sx) : Option Spec :=
  match x with
  | .list [.atom "spec", .atom fe, .atom ro, .atom ao, .atom "oms=", oms, .atom "t2e=", t2e] =>
    match (kv "first_ext" fe).bind (·.toInt?), (kv "roms" ro).bind (·.toNat?), (kv "aoms" ao).bind (·.toNat?),
          readNats oms, readT2Es t2e with
    | some fe, some ro, some ao, some oms, some t2e => some (.seq fe ro ao oms t2e)
    | _, _, _, _, _ => none
  | .list [.atom "spec", .atom e, .atom "t2e=", t2e] =>
    match (kv "ext" e).bind (·.toInt?), readT2Es t2e with
    | some e, some t2e => some (.set e t2e)
    | _, _ => none
  | .list [.atom "spec", .atom es, .atom "t2e=", t2e, .atom "to_canon=", tc, .atom "from_canon=", fc] =>
    match (kv "ext_start" es).bind (·.toInt?), readT2Es t2e, readNats tc, readNats fc with
    | some es, some t2e, some tc, some fc => some (.choice es t2e tc fc)
    | _, _, _, _ => none
  | .list [.atom "spec", .atom u, .atom st, .atom e, .atom "map=", .list m] =>
    match (kv "unsigned" u).bind (·.toInt?), (kv "strict" st).bind (·.toInt?), (kv "ext" e).bind (·.toInt?),
          (atoms m).bind (fun as => as.mapM readMapEntry) with
    | some u, some st, some e, some m => some (.int u st e m)
    | _, _, _, _ => none
  | _ => none

/-- leading atoms of a list and the rest (type names such as "BIT STRING" contain blanks) -/
def leadAtoms : List Sx → List String × List Sx
  | .atom a :: r => let (as, rest) := leadAtoms r; (a :: as, rest)
  | r => ([], r)

/-- `(type NAME… KIND rest…)` → (name, kind, rest) -/
def typeHead (x : Sx) : Option (String × String × List Sx) :=
  match x with
  | .list (.atom "type" :: r) =>
    let (as, rest) := leadAtoms r
    match as.reverse with
    | kind :: nameRev@(_ :: _) => some (String.intercalate " " nameRev.reverse, kind, rest)
    | _ => none
  | _ => none

/-- kind and tags of an inline `(type …)` child, `none` for `(ref …)` -/
def readChild (x : Sx) : Option (Option (String × List Tag)) :=
  match x with
  | .list (.atom "ref" :: _) => some none
  | _ =>
    match typeHead x with
    | some (_, kind, .list [.atom "tags", tags] :: _) => (readTags tags).map (fun t => some (kind, t))
    | _ => none

def readMember (x : Sx) : Option Member :=
  match x with
  | .list [.atom "m", .atom name, .atom fl, .atom op, .atom tg, .atom mo, .atom df, per, _oer, child] =>
    match (kv "flags" fl).bind (·.toNat?), (kv "opt" op).bind (·.toNat?), (kv "tag" tg).bind readTag,
          (kv "mode" mo).bind (·.toInt?), (kv "default" df).bind (·.toNat?), readPer per, readChild child with
    | some fl, some op, some tg, some mo, some df, some per, some ch =>
      some ⟨name, fl, op, tg, mo, df != 0, per, ch⟩
    | _, _, _, _, _, _, _ => none
  | _ => none

def readMembers (x : Sx) : Option (List Member) :=
  match x with
  | .list (.atom "members" :: ms) => ms.mapM readMember
  | _ => none

/-- one `(type NAME KIND (tags …) (alltags …) (per …) (oer …) [(spec …)] (members …))` -/
def readNode (x : Sx) : Option Node :=
  match typeHead x with
  | some (name, kind, [.list [.atom "tags", tags], .list [.atom "alltags", all], per, _oer, ms]) =>
    match readTags tags, readTags all, readPer per, readMembers ms with
    | some t, some a, some p, some ms => some ⟨name, kind, t, a, p, .none, ms⟩
    | _, _, _, _ => none
  | some (name, kind, [.list [.atom "tags", tags], .list [.atom "alltags", all], per, _oer, spec, ms]) =>
    match readTags tags, readTags all, readPer per, readSpec spec, readMembers ms with
    | some t, some a, some p, some sp, some ms => some ⟨name, kind, t, a, p, sp, ms⟩
    | _, _, _, _, _ => none
  | _ => none

def isTypeForm : Sx → Bool
  | .list (.atom "type" :: _) => true
  | _ => false

/-! ### the predicate -/

/-- `xs` is a subsequence of `ys` -/
def isSubseq : List Tag → List Tag → Bool
  | [], _ => true
  | _ :: _, [] => false
  | x :: xs, y :: ys => if x = y then isSubseq xs ys else isSubseq (x :: xs) ys

def wfTags (tags all : List Tag) : Bool :=
  decide (tags.length ≤ all.length) && (tags.isEmpty == all.isEmpty) && isSubseq tags all
    && (tags.head? == all.head?)

/-- run lengths: the entry for position `i` is 0 if the member is not omitable, otherwise
    1 + the entry of the next position -/
def runLengths : List Bool → List Nat
  | [] => []
  | b :: bs =>
    let rest := runLengths bs
    (if b then 1 + rest.headD 0 else 0) :: rest

def wfOptional (ms : List Member) : Bool :=
  ms.map (·.optional) == runLengths (ms.map (fun m => decide (0 < m.optional)))

def T2E.lt (a b : T2E) : Bool :=
  a.tag.lt b.tag || (a.tag == b.tag && a.elNo < b.elNo)

def sortedBy {α} (lt : α → α → Bool) : List α → Bool
  | [] => true
  | [_] => true
  | a :: b :: r => lt a b && sortedBy lt (b :: r)

/-- entries point at members that carry the entry's tag (or are untagged CHOICE/ANY members) -/
def t2eSound (ms : List Member) (es : List T2E) : Bool :=
  es.all (fun e => match ms[e.elNo]? with
    | some m => m.tag == e.tag || m.tag == Tag.amb
    | none => false)

def enumFrom {α} : Nat → List α → List (Nat × α)
  | _, [] => []
  | i, x :: xs => (i, x) :: enumFrom (i + 1) xs

/-- every unambiguously tagged member is in the map, under its own index -/
def t2eComplete (ms : List Member) (es : List T2E) : Bool :=
  (enumFrom 0 ms).all (fun (i, m) => m.tag == Tag.amb || es.any (fun e => e.tag == m.tag && e.elNo == i))

/-- toff_first = −(number of preceding entries with the same tag), toff_last = number of following ones -/
def wfToff : (before : List T2E) → List T2E → Bool
  | _, [] => true
  | before, e :: rest =>
    let p := (before.filter (·.tag == e.tag)).length
    let f := (rest.filter (·.tag == e.tag)).length
    e.toffFirst == -(p : Int) && e.toffLast == (f : Int) && wfToff (e :: before) rest

def distinctTags (es : List T2E) : Bool := sortedBy (fun a b => a.tag.lt b.tag) es

def indicesWhere {α} (p : Nat → α → Bool) (xs : List α) : List Nat :=
  ((enumFrom 0 xs).filter (fun (i, x) => p i x)).map (·.1)

/-- `oms` = root optional members then addition optional members; `first_extension` in range -/
def wfOms (omsRequired : Bool) (ms : List Member) (firstExt : Int) (roms aoms : Nat) (oms : List Nat) : Bool :=
  let n := ms.length
  let inRoot (i : Nat) : Bool := firstExt < 0 || (i : Int) < firstExt
  let rootOpt := indicesWhere (fun i m => decide (0 < m.optional) && inRoot i) ms
  let addOpt := indicesWhere (fun i m => decide (0 < m.optional) && !inRoot i) ms
  decide (-1 ≤ firstExt) && decide (firstExt ≤ (n : Int)) &&
  ((oms == rootOpt ++ addOpt && roms == rootOpt.length && aoms == addOpt.length)
    || (!omsRequired && oms.isEmpty && roms == 0 && aoms == 0))

def isPermInverse (n : Nat) (to frm : List Nat) : Bool :=
  to.length == n && frm.length == n &&
  (List.range n).all (fun i =>
    match to[i]? with
    | some j => frm[j]? == some i
    | none => false) &&
  (List.range n).all (fun i =>
    match frm[i]? with
    | some j => to[j]? == some i
    | none => false)

def wfCanon (n : Nat) (extStart : Int) (to frm : List Nat) : Bool :=
  (to.isEmpty && frm.isEmpty) ||
  (isPermInverse n to frm &&
   (extStart < 0 || (enumFrom 0 to).all (fun (i, j) => decide ((i : Int) < extStart) == decide ((j : Int) < extStart))))

def namesUnique : List String → Bool
  | [] => true
  | x :: xs => !xs.contains x && namesUnique xs

def wfEnumMap (m : List (Int × String)) : Bool :=
  sortedBy (fun a b => decide (a.1 < b.1)) m && namesUnique (m.map (·.2))

/-- least `n` with `r ≤ 2^n`, searched up to `fuel` -/
def bitsForAux (r : Nat) : Nat → Nat → Nat
  | 0, n => n
  | fuel + 1, n => if r ≤ 2 ^ n then n else bitsForAux r fuel (n + 1)

def bitsFor (r : Nat) : Nat := bitsForAux r 130 0

/-- one `asn_per_constraint_t`; `alphabet` = the record is a permitted-alphabet constraint of a string
    type (range_bits counts characters, X.691 27.5.2) -/
def wfPerC (alphabet : Bool) (c : PerC) : Bool :=
  if c.flags < 0 || c.flags > 7 then false else
  let m := c.flags % 4
  if m == 0 || m == 1 then c.rangeBits == -1 && c.effBits == -1
  else if m == 2 then
    decide (c.lb ≤ c.ub) &&
    (let r := (c.ub - c.lb + 1).toNat
     if alphabet then
       c.rangeBits == c.effBits && decide (0 ≤ c.rangeBits) && decide (c.rangeBits ≤ 32)
     else
       c.rangeBits == (bitsFor r : Int) &&
       c.effBits == (if c.ub ≥ 65536 || r > 65536 then (-1 : Int) else (bitsFor r : Int)))
  else false

def wfPer (alphabetValue : Bool) : Option (PerC × PerC) → Bool
  | none => true
  | some (v, s) => wfPerC alphabetValue v && wfPerC false s

def wfMember (m : Member) : Bool :=
  (match m.child with
   | some (kind, tags) =>
     wfPer (kind == "octets") m.per &&
     -- an untagged member carries the outermost tag of its type (ambiguous for untagged CHOICE / ANY)
     (m.mode != 0 || (match tags.head? with
                      | some t => m.tag == t
                      | none => m.tag == Tag.amb))
   | none => true) &&
  (m.mode == 0 || m.mode == 1 || m.mode == -1) &&
  (m.mode == 0 || m.tag != Tag.amb)

def wfSpec (omsRequired : Bool) (n : Node) : Bool :=
  match n.kind, n.spec with
  | "sequence", .seq fe ro ao oms t2e =>
    wfOptional n.members && wfOms omsRequired n.members fe ro ao oms &&
    sortedBy T2E.lt t2e && t2eSound n.members t2e && t2eComplete n.members t2e && wfToff [] t2e
  | "set", .set _ t2e =>
    sortedBy T2E.lt t2e && distinctTags t2e && t2eSound n.members t2e && t2eComplete n.members t2e
  | "choice", .choice es t2e to frm =>
    sortedBy T2E.lt t2e && distinctTags t2e && t2eSound n.members t2e && t2eComplete n.members t2e &&
    decide (-1 ≤ es) && decide (es ≤ (n.members.length : Int)) && wfCanon n.members.length es to frm
  | "open", .choice _ _ _ _ => true
  | "nint", .int _ _ e m => wfEnumMap m && decide (0 ≤ e) && decide (e ≤ (m.length : Int) + 1)
  | "int", .int _ _ e m => wfEnumMap m && decide (0 ≤ e) && decide (e ≤ (m.length : Int) + 1)
  | "nenum", .int _ _ e m => wfEnumMap m && decide (0 ≤ e) && decide (e ≤ (m.length : Int) + 1)
  | "enum", .int _ _ e m => wfEnumMap m && decide (0 ≤ e) && decide (e ≤ (m.length : Int) + 1)
  | "sequence", _ => false
  | "set", _ => false
  | "choice", _ => false
  | _, _ => true

/-- first failing clause, for diagnostics -/
def nodeVerdict (omsRequired : Bool) (n : Node) : Option String :=
  if !wfTags n.tags n.allTags then some "tags"
  else if !wfPer (n.kind == "octets") n.per then some "per"
  else if !n.members.all wfMember then some "member"
  else if (n.kind == "setof" || n.kind == "seqof") && n.members.length != 1 then some "of-arity"
  else if !wfSpec omsRequired n then
    some (match n.kind, n.spec with
      | "sequence", .seq fe ro ao oms t2e =>
        if !wfOptional n.members then "optional-run"
        else if !wfOms omsRequired n.members fe ro ao oms then "oms"
        else if !(sortedBy T2E.lt t2e) then "tag2el-order"
        else if !(t2eSound n.members t2e && t2eComplete n.members t2e) then "tag2el-complete"
        else "tag2el-toff"
      | "choice", .choice es _ to frm =>
        if !wfCanon n.members.length es to frm then "canonical-order" else "choice-tag2el"
      | "set", _ => "set-tag2el"
      | _, _ => "specifics")
  else none

/-- **WfDescr** for one descriptor -/
def WfNode (omsRequired : Bool) (n : Node) : Prop := nodeVerdict omsRequired n = none

instance (o : Bool) (n : Node) : Decidable (WfNode o n) := by unfold WfNode; infer_instance

/-- the whole dump: `none` = ok, `some reason` otherwise -/
def dumpVerdict (omsRequired : Bool) (s : String) : Option String :=
  match parseSx s with
  | none => some "unparsable"
  | some x =>
    let forms := x.subs.filter isTypeForm
    if forms.isEmpty then some "no-type" else
    forms.foldl (fun acc f =>
      match acc with
      | some r => some r
      | none =>
        match readNode f with
        | none => some ("unreadable-node@" ++ (match f with
                     | .list (_ :: .atom a :: .atom b :: _) => a ++ "/" ++ b
                     | _ => "?"))
        | some n => (nodeVerdict omsRequired n).map (fun r => r ++ "@" ++ n.name)) none

end Asn1c.Impl.WfDescr
