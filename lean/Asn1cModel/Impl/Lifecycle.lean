/-
  Impl.Lifecycle (L4): ownership model of asn1c structures (property C14).

  Mirrors, as they are, the `free_struct` functions of the skeletons
    SEQUENCE_free (constr_SEQUENCE.c), SET_free (constr_SET.c), CHOICE_free (constr_CHOICE.c),
    SET_OF_free (constr_SET_OF.c) + asn_set_empty (asn_SET_OF.c), OCTET_STRING_free (OCTET_STRING.c),
    ASN__PRIMITIVE_TYPE_free (asn_codecs_prim.c)
  and the three `enum asn_struct_free_method` values of constr_TYPE.h
    ASFM_FREE_EVERYTHING (ASN_STRUCT_FREE), ASFM_FREE_UNDERLYING (ASN_STRUCT_FREE_CONTENTS_ONLY),
    ASFM_FREE_UNDERLYING_AND_RESET (ASN_STRUCT_RESET).

  * `Heap`  : finite map block id → size, `live` = the ids not yet released.
  * `Tree`  : what a C structure references on the heap, shaped like the walk of the free functions.
  * `frees` : the sequence of `FREEMEM(p)` calls with `p ≠ NULL`, in C's order.
  * `Edit`/`step` : what decoders do to a structure, one allocator-visible action at a time
    (an operation = a list of steps; an allocation failure / starvation / error cuts the list).
  Core Lean only.
-/
namespace Asn1c.Impl.Lifecycle

abbrev Id := Nat

/-! ## the heap (allocation ledger) -/

structure Heap where
  live : List Id          -- blocks allocated and not yet released
  size : Id → Nat         -- size recorded at allocation

def Heap.empty : Heap := ⟨[], fun _ => 0⟩

def Heap.alloc (h : Heap) (i : Id) (sz : Nat) : Option Heap :=
  if i ∈ h.live then none                       -- an id is handed out once
  else some ⟨i :: h.live, fun j => if j = i then sz else h.size j⟩

/-- `free(p)`: `none` = heap discipline violated (double free / free of a block that is not live) -/
def Heap.free (h : Heap) (i : Id) : Option Heap :=
  if i ∈ h.live then some ⟨h.live.erase i, h.size⟩ else none

def Heap.bytes (h : Heap) : Nat := (h.live.map h.size).sum

def Heap.allocAll (h : Heap) : List (Id × Nat) → Option Heap
  | [] => some h
  | (i, sz) :: r => (h.alloc i sz).bind (·.allocAll r)

def Heap.freeAll (h : Heap) : List Id → Option Heap
  | [] => some h
  | i :: r => (h.free i).bind (·.freeAll r)

/-- allocator events as logged by harness/alloc_wrap.c -/
inductive Ev where
  | alloc (id : Id) (sz : Nat)                 -- a<id>:<size>
  | free (id : Id)                             -- f<id>
  | realloc (old new : Id) (sz : Nat)          -- r<old>:<new>:<size>
  deriving Repr, DecidableEq

def Heap.apply (h : Heap) : Ev → Option Heap
  | .alloc i s => h.alloc i s
  | .free i => h.free i
  | .realloc o n s => (h.free o).bind (·.alloc n s)

def Heap.run (h : Heap) : List Ev → Option Heap
  | [] => some h
  | e :: r => (h.apply e).bind (·.run r)

/-- tolerant ledger: events that violate the discipline are counted and skipped -/
def Heap.runCount (h : Heap) (viol : Nat) : List Ev → Heap × Nat
  | [] => (h, viol)
  | e :: r => match h.apply e with
    | some h' => h'.runCount viol r
    | none => h.runCount (viol + 1) r

def Ev.allocd : Ev → List Id
  | .alloc i _ => [i] | .free _ => [] | .realloc _ n _ => [n]
def Ev.freed : Ev → List Id
  | .alloc _ _ => [] | .free i => [i] | .realloc o _ _ => [o]

/-! ## ownership tree -/

/-- What a structure of some ASN.1 type references on the heap.
  A *slot* of a constructed type is either an inline member (any constructor but `null`/`boxed`),
  or a pointer member: `null` or `boxed b t` (block `b` holds a structure with contents `t`). -/
inductive Tree where
  | native                                   -- BOOLEAN, NULL, NativeInteger, NativeEnumerated, NativeReal
  | null                                     -- NULL pointer
  | prim (buf : Option Id)                   -- ASN__PRIMITIVE_TYPE_t: INTEGER, ENUMERATED, REAL, OBJECT IDENTIFIER, RELATIVE-OID
  | ostr (buf : Option Id) (stack : Option Id) (els : List Id)
      -- OCTET_STRING_t and friends: buf; `_asn_ctx.ptr` = BER `struct _stack`; its `_stack_el` chain from `tail` along `prev`
  | seq (ctxptr : Option Id) (ms : List Tree)  -- SEQUENCE: `_asn_ctx.ptr` (OER preamble / extension bitmap), member slots
  | set (ms : List Tree)                     -- SET: member slots
  | choice (n present : Nat) (m : Tree)      -- CHOICE with n alternatives: `present` index and the union storage
  | setof (array : Option Id) (ctx : Tree) (elems : List Tree)
      -- SET OF / SEQUENCE OF: list.array block, `_asn_ctx.ptr` (element under construction), list.array[0..count)
  | boxed (blk : Id) (t : Tree)              -- non-NULL pointer to a heap block holding a structure
  deriving Repr, Inhabited

namespace Tree

mutual
/-- every block id the structure references (reachable by following all pointers) -/
def owned : Tree → List Id
  | .native => []
  | .null => []
  | .prim b => b.toList
  | .ostr b s els => b.toList ++ s.toList ++ els
  | .seq c ms => ownedL ms ++ c.toList
  | .set ms => ownedL ms
  | .choice _ _ m => owned m
  | .setof a cx es => ownedL es ++ a.toList ++ owned cx
  | .boxed b t => owned t ++ [b]
def ownedL : List Tree → List Id
  | [] => []
  | t :: ts => owned t ++ ownedL ts
end

mutual
/-- The `FREEMEM(p)` calls (p ≠ NULL), in order, of `free_struct(td, ptr, ASFM_FREE_UNDERLYING)` on the
  contents; for a pointer slot: of `if(ptr) ASN_STRUCT_FREE(td, ptr)`. -/
def frees : Tree → List Id
  | .native => []
  | .null => []                                   -- `if(!td || !ptr) return;`
  | .prim b => b.toList                           -- `if(st->buf) FREEMEM(st->buf);`
  | .ostr b s els =>                              -- buf; then `while(stck->tail) {FREEMEM(sel)}; FREEMEM(stck)` only `if(stck)`
      b.toList ++ (match s with | some sid => els ++ [sid] | none => [])
  | .seq c ms => freesL ms ++ c.toList            -- members in order, then `FREEMEM(ctx->ptr)`
  | .set ms => freesL ms                          -- members in order (SET_free does not touch ctx->ptr)
  | .choice n p m =>                              -- `if(present > 0 && present <= td->elements_count)` free that member
      if 0 < p ∧ p ≤ n then frees m else []
  | .setof a cx es => freesL es ++ a.toList ++ frees cx
      -- elements 0..count-1, `asn_set_empty` (FREEMEM(array)), then `if(ctx->ptr) ASN_STRUCT_FREE(elm, ctx->ptr)`
  | .boxed b t => frees t ++ [b]                  -- ASN_STRUCT_FREE: contents, then `FREEMEM(ptr)`
def freesL : List Tree → List Id
  | [] => []
  | t :: ts => frees t ++ freesL ts
end

mutual
/-- the structure after `memset(ptr, 0, struct_size)` (pointer slots become NULL, inline members are zeroed with it) -/
def zero : Tree → Tree
  | .native => .native
  | .null => .null
  | .prim _ => .prim none
  | .ostr _ _ _ => .ostr none none []
  | .seq _ ms => .seq none (zeroL ms)
  | .set ms => .set (zeroL ms)
  | .choice n _ _ => .choice n 0 .native
  | .setof _ _ _ => .setof none .null []
  | .boxed _ _ => .null
def zeroL : List Tree → List Tree
  | [] => []
  | t :: ts => zero t :: zeroL ts
end

mutual
/-- What is left behind by `ASFM_FREE_UNDERLYING` **without** the memset: only the fields the C code
  clears itself are cleared (`st->buf = 0` in OCTET_STRING_free; `list->count = 0`, `array = 0`,
  `ctx->ptr = 0` in SET_OF_free); every other pointer stays, dangling. -/
def afterUnderlying : Tree → Tree
  | .native => .native
  | .null => .null
  | .prim b => .prim b
  | .ostr _ s _ => .ostr none s []
  | .seq c ms => .seq c (afterUnderlyingL ms)
  | .set ms => .set (afterUnderlyingL ms)
  | .choice n p m => if 0 < p ∧ p ≤ n then .choice n p (afterUnderlying m) else .choice n p m
  | .setof _ _ _ => .setof none .null []
  | .boxed b t => .boxed b (afterUnderlying t)
def afterUnderlyingL : List Tree → List Tree
  | [] => []
  | t :: ts => afterUnderlying t :: afterUnderlyingL ts
end

mutual
/-- all-zero structure: what `calloc` returns / what `ASN_STRUCT_RESET` must leave -/
def isZero : Tree → Bool
  | .native => true
  | .null => true
  | .prim b => b.isNone
  | .ostr b s els => b.isNone && s.isNone && els.isEmpty
  | .seq c ms => c.isNone && isZeroL ms
  | .set ms => isZeroL ms
  | .choice _ p m => p == 0 && (match m with | .native => true | _ => false)
  | .setof a cx es => a.isNone && (match cx with | .null => true | _ => false) && es.isEmpty
  | .boxed _ _ => false
def isZeroL : List Tree → Bool
  | [] => true
  | t :: ts => isZero t && isZeroL ts
end

mutual
/-- Consistency conditions the free functions rely on:
  * the `_stack_el` chain hangs off the `_stack` block (`ctx->ptr`), so without a stack there is no chain;
  * a CHOICE whose `present` does not select a member must not own anything through its union storage
    (CHOICE_free does not look at it). -/
def wf : Tree → Bool
  | .native => true
  | .null => true
  | .prim _ => true
  | .ostr _ s els => s.isSome || els.isEmpty
  | .seq _ ms => wfL ms
  | .set ms => wfL ms
  | .choice n p m => wf m && ((0 < p && p ≤ n) || (owned m).isEmpty)
  | .setof _ cx es => wf cx && wfL es
  | .boxed _ t => wf t
def wfL : List Tree → Bool
  | [] => true
  | t :: ts => wf t && wfL ts
end

end Tree

open Tree

/-! ## the three free methods -/

inductive Method where
  | everything      -- ASFM_FREE_EVERYTHING            (ASN_STRUCT_FREE)
  | underlying      -- ASFM_FREE_UNDERLYING            (ASN_STRUCT_FREE_CONTENTS_ONLY)
  | reset           -- ASFM_FREE_UNDERLYING_AND_RESET  (ASN_STRUCT_RESET)
  deriving Repr, DecidableEq

/-- `td->op->free_struct(td, ptr, method)` on the application's structure pointer (a slot):
  the FREEMEM sequence and the slot afterwards.  `none`: ASFM_FREE_EVERYTHING applied to a structure
  that is not a heap block of its own (static / stack / inline) – `FREEMEM` of a non-heap pointer. -/
def freeStruct (m : Method) : Tree → Option (List Id × Tree)
  | .null => some ([], .null)
  | .boxed b t =>
    match m with
    | .everything => some (frees t ++ [b], .null)
    | .underlying => some (frees t, .boxed b (afterUnderlying t))
    | .reset => some (frees t, .boxed b (zero t))
  | t =>
    match m with
    | .everything => none
    | .underlying => some (frees t, afterUnderlying t)
    | .reset => some (frees t, zero t)

/-! ## decoder-side edits -/

/-- One allocator-visible action on the node a decoder is working on. -/
inductive Edit where
  | box (id : Id) (sz : Nat) (fresh : Tree)  -- `*sptr = CALLOC(1, struct_size)`: null ↦ boxed id fresh (fresh all-zero)
  | setBuf (id : Id) (sz : Nat)              -- `st->buf = MALLOC(n)` on a structure whose buf is NULL
  | reallocBuf (new : Id) (sz : Nat)         -- `st->buf = REALLOC(st->buf, n)` (old block released, new one owned)
  | freeBuf                                  -- `FREEMEM(st->buf); st->buf = 0`
  | newStack (id : Id) (sz : Nat)            -- OCTET STRING BER: `ctx->ptr = _new_stack()`
  | pushEl (id : Id) (sz : Nat)              -- OS__add_stack_el: new `_stack_el` linked at `tail`
  | setCtx (id : Id) (sz : Nat)              -- SEQUENCE OER: `ctx->ptr = preamble`
  | swapCtx (new : Id) (sz : Nat)            -- SEQUENCE OER: extadds allocated, `FREEMEM(preamble); ctx->ptr = extadds`
  | setPresent (k : Nat)                     -- `_set_present_idx(st, pres_offset, pres_size, k)`
  | growArray (new : Id) (sz : Nat)          -- asn_set_add: `REALLOC(as->array, newsize)`
  | addElem                                  -- asn_set_add stores `ctx->ptr` in the array; `ctx->ptr = 0` (ownership moves)
  | freeSlot                                 -- `ASN_STRUCT_FREE(*elm->type, ptr); ptr = 0` on a pointer slot
  | resetNode                                -- `ASN_STRUCT_RESET(*elm->type, memb_ptr)` on an inline member
  deriving Repr

/-- result of an edit: blocks allocated (with sizes), blocks released (in order), new node -/
structure EditOut where
  allocs : List (Id × Nat)
  rel : List Id
  node : Tree

def applyEdit : Edit → Tree → Option EditOut
  | .box id sz fresh, t =>
    match t with
    | .null => if (owned fresh).isEmpty && wf fresh then some ⟨[(id, sz)], [], .boxed id fresh⟩ else none
    | _ => none
  | .setBuf id sz, t =>
    match t with
    | .prim b => if b.isNone then some ⟨[(id, sz)], [], .prim (some id)⟩ else none
    | .ostr b s els => if b.isNone then some ⟨[(id, sz)], [], .ostr (some id) s els⟩ else none
    | _ => none
  | .reallocBuf new sz, t =>
    match t with
    | .prim b => if b.isSome then some ⟨[(new, sz)], b.toList, .prim (some new)⟩ else none
    | .ostr b s els => if b.isSome then some ⟨[(new, sz)], b.toList, .ostr (some new) s els⟩ else none
    | _ => none
  | .freeBuf, t =>
    match t with
    | .prim b => some ⟨[], b.toList, .prim none⟩
    | .ostr b s els => some ⟨[], b.toList, .ostr none s els⟩
    | _ => none
  | .newStack id sz, t =>
    match t with
    | .ostr b s els => if s.isNone && els.isEmpty then some ⟨[(id, sz)], [], .ostr b (some id) []⟩ else none
    | _ => none
  | .pushEl id sz, t =>
    match t with
    | .ostr b s els => if s.isSome then some ⟨[(id, sz)], [], .ostr b s (id :: els)⟩ else none
    | _ => none
  | .setCtx id sz, t =>
    match t with
    | .seq c ms => if c.isNone then some ⟨[(id, sz)], [], .seq (some id) ms⟩ else none
    | _ => none
  | .swapCtx new sz, t =>
    match t with
    | .seq c ms => if c.isSome then some ⟨[(new, sz)], c.toList, .seq (some new) ms⟩ else none
    | _ => none
  | .setPresent k, t =>
    match t with
    | .choice n _ m => some ⟨[], [], .choice n k m⟩
    | _ => none
  | .growArray new sz, t =>
    match t with
    | .setof a cx es => some ⟨[(new, sz)], a.toList, .setof (some new) cx es⟩
    | _ => none
  | .addElem, t =>
    match t with
    | .setof a cx es =>
      match cx with
      | .boxed b x => if a.isSome then some ⟨[], [], .setof a .null (es ++ [.boxed b x])⟩ else none
      | _ => none
    | _ => none
  | .freeSlot, t =>
    match t with
    | .boxed b x => some ⟨[], frees x ++ [b], .null⟩
    | .null => some ⟨[], [], .null⟩
    | _ => none
  | .resetNode, t =>
    match t with
    | .boxed _ _ => none
    | t => some ⟨[], frees t, zero t⟩

/-! ## addressing a node inside a structure -/

def child? : Tree → Nat → Option Tree
  | .seq _ ms, i => ms[i]?
  | .set ms, i => ms[i]?
  | .choice _ _ m, _ => some m
  | .setof _ cx _, 0 => some cx
  | .setof _ _ es, i + 1 => es[i]?
  | .boxed _ t, _ => some t
  | _, _ => none

def setChild : Tree → Nat → Tree → Tree
  | .seq c ms, i, x => .seq c (ms.set i x)
  | .set ms, i, x => .set (ms.set i x)
  | .choice n p _, _, x => .choice n p x
  | .setof a _ es, 0, x => .setof a x es
  | .setof a cx es, i + 1, x => .setof a cx (es.set i x)
  | .boxed b _, _, x => .boxed b x
  | t, _, _ => t

def subtreeAt : List Nat → Tree → Option Tree
  | [], t => some t
  | i :: p, t => (child? t i).bind (subtreeAt p)

def replaceAt : List Nat → Tree → Tree → Tree
  | [], x, _ => x
  | i :: p, x, t =>
    match child? t i with
    | some c => setChild t i (replaceAt p x c)
    | none => t

/-- a CHOICE node has a valid `present` index (anything else: true) -/
def choiceLive : Tree → Bool
  | .choice n pr _ => 0 < pr && pr ≤ n
  | _ => true

/-- every CHOICE the path passes through has a valid `present` (the decoder is inside the selected member) -/
def livePath : List Nat → Tree → Bool
  | [], _ => true
  | i :: p, t =>
    choiceLive t &&
    (match child? t i with | some c => livePath p c | none => true)

/-- edits that need a side condition at the node: `present` may be set to an invalid index only while the
  union storage owns nothing -/
def localOK : Edit → Tree → Bool
  | .setPresent k, .choice n _ m => (0 < k && k ≤ n) || (owned m).isEmpty
  | _, _ => true

/-! ## machine state and steps -/

structure State where
  heap : Heap
  root : Tree           -- the application's structure pointer (`void *sptr`): `null` or `boxed b t`

def step (p : List Nat) (e : Edit) (st : State) : Option State :=
  match subtreeAt p st.root with
  | none => none
  | some s =>
    match applyEdit e s with
    | none => none
    | some o =>
      match st.heap.allocAll o.allocs with
      | none => none
      | some h1 =>
        match h1.freeAll o.rel with
        | none => none
        | some h2 => some ⟨h2, replaceAt p o.node st.root⟩

/-- an operation: a list of addressed edits; `run` stops with `none` if a step is not executable -/
def run : List (List Nat × Edit) → State → Option State
  | [], st => some st
  | (p, e) :: r, st => (step p e st).bind (run r)

/-- `free_struct(td, sptr, method)` on the machine state -/
def freeState (m : Method) (st : State) : Option State :=
  match freeStruct m st.root with
  | none => none
  | some (ids, r) => (st.heap.freeAll ids).map (fun h => ⟨h, r⟩)

/-- the invariant: live ids are distinct; the structure references distinct blocks, all live;
  the consistency conditions hold -/
def Owned (st : State) : Prop :=
  st.heap.live.Nodup ∧ (owned st.root).Nodup ∧ (∀ i ∈ owned st.root, i ∈ st.heap.live) ∧ wf st.root = true

/-- closed world: moreover every live block is referenced by the structure -/
def Exact (st : State) : Prop := Owned st ∧ ∀ i ∈ st.heap.live, i ∈ owned st.root

/-- a decoder/encoder operation obeys the discipline: every step is taken at a live path and respects
  the local side condition (stated along the actual execution) -/
def okProg : List (List Nat × Edit) → State → Prop
  | [], _ => True
  | (p, e) :: r, st =>
    livePath p st.root = true ∧ (∀ s, subtreeAt p st.root = some s → localOK e s = true) ∧
    ∀ st', step p e st = some st' → okProg r st'

/-- the application's structure pointer is a pointer slot (NULL or a heap block) -/
def isPtr : Tree → Bool
  | .null => true
  | .boxed _ _ => true
  | _ => false


end Asn1c.Impl.Lifecycle
