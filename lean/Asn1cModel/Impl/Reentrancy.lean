/-
C19 — reentrancy model (core Lean only).

The C semantics sees one flat memory.  A library call executed by thread `i` is, at the finest
granularity, a sequence of *atomic steps*; a step is an arbitrary function of the WHOLE memory
(`Step`), because nothing in C stops a function from touching a `static` buffer or somebody else's
structure.  A `Schedule` is any finite sequence of (thread, step-input) events: every interleaving of
N threads running their deterministic scripts – at call granularity or at any finer granularity – is
one such list, and the script of thread `i` is the sub-list of its own events.

What asn1c's skeletons are supposed to guarantee is a *footprint discipline* (`Framed`):
  * every location has an owner: one thread (its stack, the structures/buffers it was handed or
    allocated), the read-only shared part (type descriptors, tables), or the writable shared part
    (`static` scratch buffers, counters, caches);
  * a step of thread `i` writes only locations owned by `i`            (`writes_own`);
  * its result and its writes depend only on locations owned by `i` and on the read-only shared part
    (`reads_visible`) – in particular not on writable shared state.
`Generated.writableGlobals` (translator) + `Props.C19.writable_globals_allowed` is the evidence that the
writable shared part is empty on the codec paths; the TSan thread driver observes the rest.

`run` executes a schedule; `Props/C19.lean` proves that under `Framed` every thread observes exactly
what it observes when its script runs alone, and that without the discipline this is false.
-/
namespace Asn1c.Impl.Reentrancy

abbrev Tid := Nat
abbrev Loc := Nat
/-- flat memory: location ↦ content -/
abbrev Mem := Loc → Nat

/-- who may touch a location -/
inductive Owner where
  | thread (i : Tid)   -- private to thread i: its stack, its structures, its output buffers
  | sharedRO           -- type descriptors, constraint/alphabet tables, code
  | sharedRW           -- writable globals: static scratch buffers, counters, caches
  deriving DecidableEq, Repr

/-- ownership map of the address space -/
abbrev Layout := Loc → Owner

/-- one atomic step of a library call as C sees it: thread, input, whole memory ↦ whole memory, result -/
abbrev Step (In Out : Type) := Tid → In → Mem → Mem × Out

/-- the locations thread `i` is entitled to read -/
def Visible (L : Layout) (i : Tid) (l : Loc) : Prop := L l = .thread i ∨ L l = .sharedRO

/-- two memories agree on everything thread `i` is entitled to read -/
def AgreeOn (L : Layout) (i : Tid) (m m' : Mem) : Prop := ∀ l, Visible L i l → m l = m' l

/-- The footprint discipline (frame property). -/
structure Framed {In Out : Type} (L : Layout) (f : Step In Out) : Prop where
  /-- a step of thread `i` leaves every location it does not own untouched -/
  writes_own : ∀ (i : Tid) (x : In) (m : Mem) (l : Loc), L l ≠ .thread i → (f i x m).1 l = m l
  /-- result and own writes are functions of the visible part of the memory only -/
  reads_visible : ∀ (i : Tid) (x : In) (m m' : Mem), AgreeOn L i m m' →
      (f i x m).2 = (f i x m').2 ∧ ∀ l, L l = .thread i → (f i x m).1 l = (f i x m').1 l

abbrev Event (In : Type) := Tid × In
abbrev Schedule (In : Type) := List (Event In)

/-- execute a schedule from memory `m`: final memory and the (thread, result) trace -/
def run {In Out : Type} (f : Step In Out) : Schedule In → Mem → Mem × List (Tid × Out)
  | [], m => (m, [])
  | (i, x) :: s, m =>
      let r := f i x m
      let t := run f s r.1
      (t.1, (i, r.2) :: t.2)

/-- the script of thread `i`: its own events, in order -/
def scriptOf {In : Type} (i : Tid) (s : Schedule In) : Schedule In := s.filter (fun e => e.1 == i)

/-- what thread `i` observed: the results of its own steps, in order -/
def outputsOf {Out : Type} (i : Tid) (t : List (Tid × Out)) : List Out :=
  (t.filter (fun e => e.1 == i)).map (·.2)

/-! ### The "shape" the design assumes, as a special case
A world of private states plus one read-only shared value; an operation of thread `i` is a function
(shared, stateᵢ, input) → (stateᵢ', output).  Encoded in the flat memory: location `2*i+1` holds the
private state of thread `i`, location `0` the shared value. -/

def shapeLayout : Layout := fun l => if l = 0 then .sharedRO else if l % 2 = 1 then .thread (l / 2) else .sharedRW

def shapeStep {In Out : Type} (op : Nat → Nat → In → Nat × Out) : Step In Out :=
  fun i x m =>
    let r := op (m 0) (m (2 * i + 1)) x
    (fun l => if l = 2 * i + 1 then r.1 else m l, r.2)

/-! ### A step function that violates the discipline: a `static` scratch buffer
`put v` formats a value into the shared scratch location 0, `get` hands the scratch contents to the
caller – the two halves of an encoder that formats into `static char scratch[]` and then copies out. -/

inductive ScratchIn where
  | put (v : Nat)
  | get
  deriving DecidableEq, Repr

def scratchLayout : Layout := fun l => if l = 0 then .sharedRW else .thread (l - 1)

def scratchStep : Step ScratchIn Nat := fun _ x m =>
  match x with
  | .put v => (fun l => if l = 0 then v else m l, 0)
  | .get => (m, m 0)

end Asn1c.Impl.Reentrancy
