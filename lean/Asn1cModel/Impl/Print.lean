/-
  C12: the printed subset of ASN.1 — AST (`Spec` part: shape of the parse tree as asn1c keeps it,
  the extension marker `...` being a member like any other), the printer (mirror of
  libasn1print/asn1print.c on this subset, at token level) and a recursive-descent parser for the
  printed token language (stand-in for asn1p_y.y on the subset).  Core Lean only.

  asn1print.c prints, for a type assignment / member (asn1print_expr):
      Identifier  [ "::=" at level 0 ]  tag (asn1p_tag2string: "[" [class] number "]" [IMPLICIT|EXPLICIT])
      type keyword | "SET"/"SEQUENCE" [" " constraint] " OF" | reference
      "{" members separated by "," "}"   (members of SET OF / SEQUENCE OF without braces)
      " " constraint (for everything but SET OF / SEQUENCE OF)
      for members: " DEFAULT " value | " OPTIONAL"
  and for constraints (asn1print_constraint): CA_SET "(" … ")", CA_CSV ",", CA_UNI " | ", CA_INT " ^ ",
  ranges "lo..hi", "SIZE" / "FROM" directly followed by the inner "(…)" set, "..." for the marker.
-/
namespace Asn1c.Print

/-! ### tokens -/

inductive Builtin where
  | boolean | null | real | oid | reloid | utctime | gentime | bitstring | octetstring
  | ia5 | visible | printable | numeric | utf8 | bmp | universal
  deriving Repr, DecidableEq, Inhabited

inductive Kw where
  | definitions | assign | begin_ | end_ | lbrace | rbrace | lparen | rparen | lbrack | rbrack
  | comma | dots | dotdot | bar | caret | optional | default_ | of_ | size | from_
  | sequence | set | choice | enumerated | integer | implicit | explicit | automatic | tags
  | application | private_ | universal | min | max | true_ | false_
  deriving Repr, DecidableEq, Inhabited

inductive Tok where
  | kw (k : Kw)
  | builtin (b : Builtin)
  | upper (s : String)      -- type reference / module reference
  | lower (s : String)      -- identifier / value reference
  | num (i : Int)
  | cstr (s : String)
  deriving Repr, DecidableEq, Inhabited

/-! ### AST -/

inductive TagClass where
  | ctx | app | priv | univ
  deriving Repr, DecidableEq, Inhabited

inductive TagMode where
  | dflt | implicit | explicit
  deriving Repr, DecidableEq, Inhabited

structure Tag where
  cls : TagClass
  num : Int
  mode : TagMode
  deriving Repr, DecidableEq, Inhabited

inductive Val where
  | int (i : Int) | min | max | str (s : String) | ident (s : String) | tru | fls
  deriving Repr, DecidableEq, Inhabited

inductive Elem where
  | single (v : Val)
  | range (lo hi : Val)
  deriving Repr, DecidableEq, Inhabited

/-- `e₁ | e₂ | … [, ...]` -/
structure ESet where
  first : Elem
  rest : List Elem
  ext : Bool
  deriving Repr, DecidableEq, Inhabited

inductive Cons where
  | value (s : ESet)                 -- (…)
  | size (s : ESet)                  -- (SIZE(…))
  | alpha (s : ESet)                 -- (FROM(…))
  | sizeAlpha (s a : ESet)           -- (SIZE(…) ^ FROM(…))
  deriving Repr, DecidableEq, Inhabited

/-- item of an ENUMERATED member list (the marker is a member like the others) -/
inductive EEntry where
  | item (name : String) (val : Option Int)
  | dots
  deriving Repr, DecidableEq, Inhabited

inductive Marker where
  | none | optional | dflt (v : Val)
  deriving Repr, DecidableEq, Inhabited

inductive CKind where
  | sequence | set | choice
  deriving Repr, DecidableEq, Inhabited

mutual
inductive Ty where
  | prim (b : Builtin) (c : Option Cons)
  | integer (named : List (String × Int)) (c : Option Cons)
  | enumerated (es : List EEntry)
  | ref (name : String)
  | constr (k : CKind) (cs : Comps)
  | listOf (isSet : Bool) (size : Option ESet) (elemTag : Option Tag) (elem : Ty)
inductive Comps where
  | nil
  | ext (rest : Comps)
  | comp (id : String) (tag : Option Tag) (t : Ty) (m : Marker) (rest : Comps)
end

inductive TagDefault where
  | explicit | implicit | automatic
  deriving Repr, DecidableEq, Inhabited

structure Assignment where
  name : String
  tag : Option Tag
  ty : Ty

structure Module where
  name : String
  tagDefault : Option TagDefault
  types : List Assignment

/-! ### printer -/
open Tok

def pTag : Option Tag → List Tok
  | none => []
  | some t =>
    [kw .lbrack]
    ++ (match t.cls with
        | .ctx => []
        | .app => [kw .application]
        | .priv => [kw .private_]
        | .univ => [kw .universal])
    ++ [num t.num, kw .rbrack]
    ++ (match t.mode with
        | .dflt => []
        | .implicit => [kw .implicit]
        | .explicit => [kw .explicit])

def pVal : Val → Tok
  | .int i => num i
  | .min => kw .min
  | .max => kw .max
  | .str s => cstr s
  | .ident s => lower s
  | .tru => kw .true_
  | .fls => kw .false_

def pElem : Elem → List Tok
  | .single v => [pVal v]
  | .range lo hi => [pVal lo, kw .dotdot, pVal hi]

def pMore : List Elem → List Tok
  | [] => []
  | e :: es => kw .bar :: pElem e ++ pMore es

def pESet (s : ESet) : List Tok :=
  pElem s.first ++ pMore s.rest ++ (if s.ext then [kw .comma, kw .dots] else [])

def pCons : Cons → List Tok
  | .value s => [kw .lparen] ++ pESet s ++ [kw .rparen]
  | .size s => [kw .lparen, kw .size, kw .lparen] ++ pESet s ++ [kw .rparen, kw .rparen]
  | .alpha s => [kw .lparen, kw .from_, kw .lparen] ++ pESet s ++ [kw .rparen, kw .rparen]
  | .sizeAlpha s a =>
    [kw .lparen, kw .size, kw .lparen] ++ pESet s ++ [kw .rparen, kw .caret, kw .from_, kw .lparen] ++ pESet a
      ++ [kw .rparen, kw .rparen]

def pOptCons : Option Cons → List Tok
  | none => []
  | some c => pCons c

def pNamedItems : List (String × Int) → List Tok
  | [] => []
  | [(n, v)] => [lower n, kw .lparen, num v, kw .rparen]
  | (n, v) :: r => [lower n, kw .lparen, num v, kw .rparen, kw .comma] ++ pNamedItems r

def pNamed : List (String × Int) → List Tok
  | [] => []
  | l => kw .lbrace :: pNamedItems l ++ [kw .rbrace]

def pEntry : EEntry → List Tok
  | .dots => [kw .dots]
  | .item n none => [lower n]
  | .item n (some v) => [lower n, kw .lparen, num v, kw .rparen]

def pEntries : List EEntry → List Tok
  | [] => []
  | [e] => pEntry e
  | e :: r => pEntry e ++ kw .comma :: pEntries r

def pMarker : Marker → List Tok
  | .none => []
  | .optional => [kw .optional]
  | .dflt v => [kw .default_, pVal v]

def pKind : CKind → Tok
  | .sequence => kw .sequence
  | .set => kw .set
  | .choice => kw .choice

def pSizeOf : Option ESet → List Tok
  | none => []
  | some s => [kw .lparen, kw .size, kw .lparen] ++ pESet s ++ [kw .rparen, kw .rparen]

def Comps.isNil : Comps → Bool
  | .nil => true
  | _ => false

def pSep (rest : Comps) : List Tok := if rest.isNil then [] else [kw .comma]

mutual
def pTy : Ty → List Tok
  | .prim b c => builtin b :: pOptCons c
  | .integer named c => kw .integer :: pNamed named ++ pOptCons c
  | .enumerated es => kw .enumerated :: kw .lbrace :: pEntries es ++ [kw .rbrace]
  | .ref n => [upper n]
  | .constr k cs => pKind k :: kw .lbrace :: pComps cs ++ [kw .rbrace]
  | .listOf isSet sz tag el =>
    (if isSet then kw .set else kw .sequence) :: pSizeOf sz ++ kw .of_ :: pTag tag ++ pTy el
def pComps : Comps → List Tok
  | .nil => []
  | .ext rest => kw .dots :: pSep rest ++ pComps rest
  | .comp id tag t m rest => lower id :: pTag tag ++ pTy t ++ pMarker m ++ pSep rest ++ pComps rest
end

def pTagDefault : Option TagDefault → List Tok
  | none => []
  | some .explicit => [kw .explicit, kw .tags]
  | some .implicit => [kw .implicit, kw .tags]
  | some .automatic => [kw .automatic, kw .tags]

def pAssignments : List Assignment → List Tok
  | [] => []
  | a :: r => upper a.name :: kw .assign :: pTag a.tag ++ pTy a.ty ++ pAssignments r

/-- **print** (token level) -/
def print (m : Module) : List Tok :=
  upper m.name :: kw .definitions :: pTagDefault m.tagDefault ++ kw .assign :: kw .begin_ :: pAssignments m.types
    ++ [kw .end_]

/-! ### parser -/

abbrev P (α : Type) := List Tok → Option (α × List Tok)

def parseTag : P (Option Tag)
  | kw .lbrack :: r =>
    let (cls, r1) : TagClass × List Tok := match r with
      | kw .application :: r' => (.app, r')
      | kw .private_ :: r' => (.priv, r')
      | kw .universal :: r' => (.univ, r')
      | r' => (.ctx, r')
    match r1 with
    | num n :: kw .rbrack :: r2 =>
      match r2 with
      | kw .implicit :: r3 => some (some ⟨cls, n, .implicit⟩, r3)
      | kw .explicit :: r3 => some (some ⟨cls, n, .explicit⟩, r3)
      | r3 => some (some ⟨cls, n, .dflt⟩, r3)
    | _ => none
  | r => some (none, r)

def parseVal : Tok → Option Val
  | num i => some (.int i)
  | kw .min => some .min
  | kw .max => some .max
  | cstr s => some (.str s)
  | lower s => some (.ident s)
  | kw .true_ => some .tru
  | kw .false_ => some .fls
  | _ => none

def parseElem : P Elem
  | a :: r =>
    match parseVal a with
    | some lo =>
      match r with
      | kw .dotdot :: b :: r' =>
        match parseVal b with
        | some hi => some (.range lo hi, r')
        | none => none
      | _ => some (.single lo, r)
    | none => none
  | [] => none

def parseMore : Nat → P (List Elem)
  | 0, _ => none
  | fuel + 1, toks =>
    match toks with
    | kw .bar :: r =>
      match parseElem r with
      | some (e, r1) =>
        match parseMore fuel r1 with
        | some (es, r2) => some (e :: es, r2)
        | none => none
      | none => none
    | r => some ([], r)

def parseExtMark : List Tok → Bool × List Tok
  | kw .comma :: kw .dots :: r => (true, r)
  | r => (false, r)

def parseESet : P ESet := fun toks =>
  match parseElem toks with
  | some (e, r1) =>
    match parseMore (r1.length + 1) r1 with
    | some (es, r2) => some (⟨e, es, (parseExtMark r2).1⟩, (parseExtMark r2).2)
    | none => none
  | none => none

/-- after the opening "(" -/
def parseConsBody : P Cons
  | kw .size :: kw .lparen :: r =>
    match parseESet r with
    | some (s, kw .rparen :: kw .rparen :: r1) => some (.size s, r1)
    | some (s, kw .rparen :: kw .caret :: kw .from_ :: kw .lparen :: r1) =>
      match parseESet r1 with
      | some (a, kw .rparen :: kw .rparen :: r2) => some (.sizeAlpha s a, r2)
      | _ => none
    | _ => none
  | kw .from_ :: kw .lparen :: r =>
    match parseESet r with
    | some (s, kw .rparen :: kw .rparen :: r1) => some (.alpha s, r1)
    | _ => none
  | r =>
    match parseESet r with
    | some (s, kw .rparen :: r1) => some (.value s, r1)
    | _ => none

def parseOptCons : P (Option Cons)
  | kw .lparen :: r => (parseConsBody r).map (fun (c, r1) => (some c, r1))
  | r => some (none, r)

/-- items `name(number)` separated by commas, after "{", up to and including "}" -/
def parseNamedItems : Nat → P (List (String × Int))
  | 0, _ => none
  | fuel + 1, toks =>
    match toks with
    | lower n :: kw .lparen :: num v :: kw .rparen :: r =>
      match r with
      | kw .comma :: r' =>
        match parseNamedItems fuel r' with
        | some (l, r1) => some ((n, v) :: l, r1)
        | none => none
      | kw .rbrace :: r' => some ([(n, v)], r')
      | _ => none
    | _ => none

def parseNamed : P (List (String × Int))
  | kw .lbrace :: r => parseNamedItems (r.length + 1) r
  | r => some ([], r)

def parseEntry : P EEntry
  | kw .dots :: r => some (.dots, r)
  | lower n :: r =>
    match r with
    | kw .lparen :: num v :: kw .rparen :: r' => some (.item n (some v), r')
    | _ => some (.item n none, r)
  | _ => none

/-- entries separated by commas, after "{", up to and including "}" -/
def parseEntries : Nat → P (List EEntry)
  | 0, _ => none
  | fuel + 1, toks =>
    match toks with
    | kw .rbrace :: r => some ([], r)
    | _ =>
      match parseEntry toks with
      | some (e, r0) =>
        match r0 with
        | kw .comma :: r =>
          match parseEntries fuel r with
          | some (es, r1) => some (e :: es, r1)
          | none => none
        | kw .rbrace :: r => some ([e], r)
        | _ => none
      | none => none

def parseMarker : P Marker
  | kw .optional :: r => some (.optional, r)
  | kw .default_ :: v :: r => (parseVal v).map (fun v => (.dflt v, r))
  | r => some (.none, r)

def parseSizeOf : P (Option ESet)
  | kw .lparen :: kw .size :: kw .lparen :: r =>
    match parseESet r with
    | some (s, kw .rparen :: kw .rparen :: r1) => some (some s, r1)
    | _ => none
  | r => some (none, r)

/-- closes a member list: the next token must be "}" -/
def closeBrace {α} (f : α → Ty) : Option (α × List Tok) → Option (Ty × List Tok)
  | some (x, kw .rbrace :: r) => some (f x, r)
  | _ => none

mutual
def parseTy : Nat → P Ty
  | 0, _ => none
  | fuel + 1, toks =>
    match toks with
    | builtin b :: r => (parseOptCons r).map (fun (c, r1) => (.prim b c, r1))
    | kw .integer :: r =>
      match parseNamed r with
      | some (named, r1) => (parseOptCons r1).map (fun (c, r2) => (.integer named c, r2))
      | none => none
    | kw .enumerated :: kw .lbrace :: r =>
      (parseEntries (r.length + 1) r).map (fun (es, r1) => (.enumerated es, r1))
    | upper n :: r => some (.ref n, r)
    | kw .choice :: kw .lbrace :: r => closeBrace (.constr .choice) (parseComps fuel r)
    | kw .sequence :: r =>
      match r with
      | kw .lbrace :: r' => closeBrace (.constr .sequence) (parseComps fuel r')
      | _ => parseOf fuel false r
    | kw .set :: r =>
      match r with
      | kw .lbrace :: r' => closeBrace (.constr .set) (parseComps fuel r')
      | _ => parseOf fuel true r
    | _ => none
/-- after "SEQUENCE"/"SET" when no "{" follows: `[ (SIZE(…)) ] OF [tag] Type` -/
def parseOf : Nat → Bool → P Ty
  | 0, _, _ => none
  | fuel + 1, isSet, r =>
    match parseSizeOf r with
    | some (sz, r0) =>
      match r0 with
      | kw .of_ :: r1 =>
        match parseTag r1 with
        | some (tag, r2) =>
          match parseTy fuel r2 with
          | some (el, r3) => some (.listOf isSet sz tag el, r3)
          | none => none
        | none => none
      | _ => none
    | none => none
/-- members up to (not including) the closing "}" -/
def parseComps : Nat → P Comps
  | 0, _ => none
  | fuel + 1, toks =>
    match toks with
    | kw .rbrace :: r => some (.nil, kw .rbrace :: r)
    | kw .dots :: r =>
      match r with
      | kw .comma :: r' =>
        match parseComps fuel r' with
        | some (rest, r1) => if rest.isNil then none else some (.ext rest, r1)
        | none => none
      | _ => some (.ext .nil, r)
    | lower id :: r =>
      match parseTag r with
      | some (tag, r1) =>
        match parseTy fuel r1 with
        | some (t, r2) =>
          match parseMarker r2 with
          | some (m, r3) =>
            match r3 with
            | kw .comma :: r4 =>
              match parseComps fuel r4 with
              | some (rest, r5) => if rest.isNil then none else some (.comp id tag t m rest, r5)
              | none => none
            | _ => some (.comp id tag t m .nil, r3)
          | none => none
        | none => none
      | none => none
    | _ => none
end

def parseTagDefault : P (Option TagDefault)
  | kw .explicit :: kw .tags :: r => some (some .explicit, r)
  | kw .implicit :: kw .tags :: r => some (some .implicit, r)
  | kw .automatic :: kw .tags :: r => some (some .automatic, r)
  | r => some (none, r)

/-- assignments up to and including END -/
def parseAssignments : Nat → P (List Assignment)
  | 0, _ => none
  | fuel + 1, toks =>
    match toks with
    | kw .end_ :: r => some ([], r)
    | upper n :: kw .assign :: r =>
      match parseTag r with
      | some (tag, r1) =>
        match parseTy (r1.length + 1) r1 with
        | some (t, r2) =>
          match parseAssignments fuel r2 with
          | some (l, r3) => some (⟨n, tag, t⟩ :: l, r3)
          | none => none
        | none => none
      | none => none
    | _ => none

/-- **parse**: the whole token list must be one module -/
def parse (toks : List Tok) : Option Module :=
  match toks with
  | upper name :: kw .definitions :: r =>
    match parseTagDefault r with
    | some (td, kw .assign :: kw .begin_ :: r1) =>
      match parseAssignments (r1.length + 1) r1 with
      | some (types, []) => some ⟨name, td, types⟩
      | _ => none
    | _ => none
  | _ => none

/-! ### rendering (for the correspondence with `asn1c -E`; whitespace is not significant) -/

def Builtin.text : Builtin → String
  | .boolean => "BOOLEAN" | .null => "NULL" | .real => "REAL" | .oid => "OBJECT IDENTIFIER"
  | .reloid => "RELATIVE-OID" | .utctime => "UTCTime" | .gentime => "GeneralizedTime"
  | .bitstring => "BIT STRING" | .octetstring => "OCTET STRING" | .ia5 => "IA5String"
  | .visible => "VisibleString" | .printable => "PrintableString" | .numeric => "NumericString"
  | .utf8 => "UTF8String" | .bmp => "BMPString" | .universal => "UniversalString"

def Kw.text : Kw → String
  | .definitions => "DEFINITIONS" | .assign => "::=" | .begin_ => "BEGIN" | .end_ => "END"
  | .lbrace => "{" | .rbrace => "}" | .lparen => "(" | .rparen => ")" | .lbrack => "[" | .rbrack => "]"
  | .comma => "," | .dots => "..." | .dotdot => ".." | .bar => "|" | .caret => "^"
  | .optional => "OPTIONAL" | .default_ => "DEFAULT" | .of_ => "OF" | .size => "SIZE" | .from_ => "FROM"
  | .sequence => "SEQUENCE" | .set => "SET" | .choice => "CHOICE" | .enumerated => "ENUMERATED"
  | .integer => "INTEGER" | .implicit => "IMPLICIT" | .explicit => "EXPLICIT" | .automatic => "AUTOMATIC"
  | .tags => "TAGS" | .application => "APPLICATION" | .private_ => "PRIVATE" | .universal => "UNIVERSAL"
  | .min => "MIN" | .max => "MAX" | .true_ => "TRUE" | .false_ => "FALSE"

def Tok.text : Tok → String
  | .kw k => k.text
  | .builtin b => b.text
  | .upper s => s
  | .lower s => s
  | .num i => toString i
  | .cstr s => "\"" ++ s ++ "\""

def render (toks : List Tok) : String := String.intercalate " " (toks.map Tok.text)

end Asn1c.Print
