/-
  Impl (L3): status propagation of `main` in asn1c/asn1c.c (lines 320-427), mirrored as it is.

    for each input file: asn1p_parse_file == NULL → "Cannot parse", exit_code = EX_DATAERR (65), stop
    -E without -F : asn1print != 0 → EX_SOFTWARE (70) else return 0
    importStandardModules != 0 && -Werror → EX_DATAERR
    ret = asn1f_process():  0 → go on;  1 → go on unless -Werror (then EX_DATAERR);  -1 → EX_DATAERR;
                            any other value falls out of the `switch` and goes on
    -E -F : asn1print != 0 → EX_SOFTWARE else return 0
    -debug-type-naming → return 0
    asn1_compile != 0 → EX_SOFTWARE (70)
    exit(exit_code) if non-zero, else return 0
-/
namespace Asn1c.Impl.CompilerMain

def EX_DATAERR : Nat := 65
def EX_SOFTWARE : Nat := 70

structure MainIn where
  printOut : Bool := false        -- -E
  fixAndPrint : Bool := false     -- -F
  werror : Bool := false          -- -Werror
  debugTypeNames : Bool := false  -- -debug-type-naming=…
  parse : List Bool               -- per input file, in command-line order: parsed successfully
  printRet : Int := 0             -- asn1print()
  stdModulesFail : Bool := false  -- importStandardModules() != 0
  fixRet : Int                    -- asn1f_process()
  compileRet : Int                -- asn1_compile()
  deriving Repr

def mainStatus (i : MainIn) : Nat :=
  if !i.parse.all id then EX_DATAERR
  else if i.printOut && !i.fixAndPrint then (if i.printRet != 0 then EX_SOFTWARE else 0)
  else if i.stdModulesFail && i.werror then EX_DATAERR
  else if i.fixRet == -1 then EX_DATAERR
  else if i.fixRet == 1 && i.werror then EX_DATAERR
  else if i.printOut && i.fixAndPrint then (if i.printRet != 0 then EX_SOFTWARE else 0)
  else if i.debugTypeNames then 0
  else if i.compileRet != 0 then EX_SOFTWARE
  else 0

end Asn1c.Impl.CompilerMain
