/-
  C08: the explicit, decidable guard domain `dom` of `check_iff_satisfies_partial`
  (core Lean only; evaluated by the driver op `c08dom` so that the Python side can count how many
  generated cases lie inside the proved region).

  `dom` excludes exactly the regions where the tree deviates from X.680 (each has a
  counter-example theorem in Props/C08.lean) plus structures that cannot sit in the C types.
  It puts no restriction on the shape of SEQUENCE / SET / CHOICE types (F25, the early return of
  the SEQUENCE / SET walkers, is repaired): only the leaves are restricted.

  F81r INTEGER_t-backed INTEGER whose value does not fit the C variable the generated code reads it
       into ("value too large"): `unsigned long` when the lower edge of the constraint is a value
       ≥ 0 (F81 repaired: every value up to 2^64-1 is inside), `long` otherwise.
  F83r FROM on UTF8String that reaches beyond U+007F (not tested), FROM on OCTET STRING /
       BIT STRING (not applicable).  A FROM within 0..127 — one range or several — is tested
       through the table (F83 repaired) and lies inside.
  F84  UTF-8 sequences on which UTF8String_length (RFC 2279 era) and RFC 3629 disagree.
  F182 a value / SIZE bound of 2^64 or more in magnitude: the C compiler truncates the decimal
       constant of the emitted comparison ("integer constant is too large for its type"), which
       `Cmp.eval` does not model.
  Repaired and inside: unions whose outer edges are MIN / MAX (`(MIN..0 | 5..MAX)`,
  `SIZE(0..2 | 5..MAX)`, F85); BMPString cells FFFE / FFFF under a SIZE / FROM constraint (F86).
-/
import Asn1cModel.Impl.ConstraintCheck
namespace Asn1c.Impl.ConstraintCheck
open Asn1c.Spec.ConstraintCheck

/-- no element of a multi-range union prints nothing (crange's canonical unions satisfy this: the
    elements are disjoint, so none of them can span the whole natural range of the variable) -/
def mixedFree (rs : Cons) (ns ne : Option Int) : Bool :=
  rs.length ≤ 1 || rs.all (fun r => (emitOne r ns ne).isSome)

def dropped (rs : Cons) : Bool := decide (rs.length ≤ 1) && (overallLo rs).isNone && (overallHi rs).isNone

def intNs (rs : Cons) : Option Int := if nativeLongSign rs ≥ 0 then some 0 else none

/-- the value can sit in the C member and is read back exactly (`usign`: an INTEGER_t read
    through asn_INTEGER2ulong) -/
def reprOK (r : IntRepr) (usign : Bool) (i : Int) : Bool :=
  match r with
  | .ulong => decide (0 ≤ i) && decide (i ≤ 18446744073709551615)
  | .wide =>
    if usign then decide (0 ≤ i) && decide (i ≤ 18446744073709551615)
    else decide (-9223372036854775808 ≤ i) && decide (i ≤ 9223372036854775807)
  | .long => decide (-9223372036854775808 ≤ i) && decide (i ≤ 9223372036854775807)

/-- every written bound is a decimal constant the C compiler can type (`long`, `long long`, or
    `__int128` for the values up to 2^64-1 that do not fit them) -/
def boundsFit (rs : Cons) : Bool :=
  rs.all fun r =>
    (match r.lo with | some l => decide (-18446744073709551615 ≤ l) && decide (l ≤ 18446744073709551615) | none => true) &&
    (match r.hi with | some h => decide (-18446744073709551615 ≤ h) && decide (h ≤ 18446744073709551615) | none => true)

def intDom (rs : Cons) (i : Int) : Bool :=
  !rs.isEmpty && reprOK (fitsLong rs) (decide (nativeLongSign rs ≥ 0)) i
  && mixedFree rs (intNs rs) none && boundsFit rs

/-- the generated INTEGER checker contains a test -/
def intTests (rs : Cons) : Bool := !dropped rs && !(emitRange rs (intNs rs) none).isEmpty

def sizeDom (rs : Cons) : Bool :=
  !rs.isEmpty && mixedFree rs (some 0) none
  && (match overallLo rs with | some l => decide (0 ≤ l) | none => true)      -- sizes are not negative
  && boundsFit rs

/-- guard for an optional SIZE constraint -/
def sizeOptDom (size : Option Cons) : Bool :=
  match size with
  | some rs => sizeDom rs
  | none => true

def sizeTests (rs : Cons) : Bool := keepSize rs && !(emitRange rs (some 0) none).isEmpty

def is8bit : StrKind → Bool
  | .ia5 | .visible | .printable | .numeric => true
  | _ => false

def alphaDom (k : StrKind) (rs : Cons) : Bool :=
  !rs.isEmpty && (overallHi rs).isSome                 -- asn1c asserts `range->right.type == ARE_VALUE`
  && mixedFree rs (some 0) (some (naturalStop k))
  && (!is8bit k || (List.range 256).all (fun c => !inCons rs c || builtinChar k c))

/-- UTF8String_length and the RFC 3629 decoder agree on these octets -/
def utf8Agree (bs : List Nat) : Bool :=
  utf8Length bs.length bs == (utf8Decode bs.length bs).map List.length

def strDom (k : StrKind) (size alpha : Option Cons) (bs : List Nat) (unused : Nat) : Bool :=
  bs.all (· < 256)
  && (k != .bit || (decide (unused ≤ 7) && (!bs.isEmpty || unused == 0)))
  && sizeOptDom size
  && (match alpha with
      | some rs => k != .octet && k != .bit && (k != .utf8 || useTable .utf8 rs) && alphaDom k rs
      | none => true)
  && (k != .utf8 || utf8Agree bs)

mutual
/-- guard for `descrChk _ t v` -/
def domDescr : Ty → Val → Bool
  | .named _ t, v => domDescr t v
  | .int none, .int i => reprOK .long false i
  | .int (some rs), .int i => intDom rs i
  | .str k size alpha, v =>
      (match strValue k v with
       | some (bs, u) => strDom k size alpha bs u
       | none => true)
  | .seq ms, .struct fs => domMembers ms fs
  | .set ms, .struct fs => domMembers ms fs
  | .choice ms, .choice sel v => domAlt ms sel v
  | .listOf _ size elem, .list vs =>
      sizeOptDom size && vs.all (fun v => domMember elem v)
  | _, _ => true
/-- guard for `memberChk _ t v` -/
def domMember : Ty → Val → Bool
  | .named _ t, v => domDescr t v
  | .int none, .int i => reprOK .long false i
  | .int (some rs), .int i => intDom rs i
  | .str k size alpha, v =>
      (match strValue k v with
       | some (bs, u) => strDom k size alpha bs u
       | none => true)
  | .seq ms, .struct fs => domMembers ms fs
  | .set ms, .struct fs => domMembers ms fs
  | .choice ms, .choice sel v => domAlt ms sel v
  | .listOf _ size elem, .list vs =>
      sizeOptDom size && vs.all (fun v => domMember elem v)
  | _, _ => true
def domMembers : Members → List (String × Val) → Bool
  | .nil, _ => true
  | .cons id _ t rest, fs =>
      (match lookupField id fs with
       | none => true
       | some v => domMember t v) && domMembers rest fs
def domAlt : Members → String → Val → Bool
  | .nil, _, _ => true
  | .cons id _ t rest, sel, v => if id == sel then domMember t v else domAlt rest sel v
end

/-- the guard domain of `check_iff_satisfies_partial` for `asn_check_constraints(&asn_DEF_name, v)` -/
def dom (_name : String) (t : Ty) (v : Val) : Bool := domDescr t v

end Asn1c.Impl.ConstraintCheck
