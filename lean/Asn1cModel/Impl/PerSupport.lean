import Asn1cModel.Impl.BitData
/-
  Impl model of skeletons/per_support.c (UPER part), mirroring the C code as it is.
  Readers: `Bits → Option (result × remaining bits)`, `none` = the C function returns -1.
  Writers: the bits put on the wire (`Option` where the C function can fail).
  `x | y` and `x << k` of the C code are written as `+` / `*` where the operands cannot overlap
  (justified by the value bounds of `getFewBits`; the correspondence run checks it on C).
-/
namespace Asn1c.Impl.PerSupport
open Asn1c Asn1c.Impl.BitData

/-- `uper_get_length(pd, ebits, lower_bound, &repeat)` → `(value, repeat, rest)`.
    `0 ≤ ebits ≤ 16`: constrained (value = bits + lower_bound); every other `ebits` (negative **or > 16**)
    reads an unconstrained length determinant: `0xxxxxxx`, `10xxxxxx xxxxxxxx`, `11mmmmmm` (1 ≤ m ≤ 4). -/
def getLength (ebits : Int) (lb : Nat) (bs : Bits) : Option (Nat × Bool × Bits) :=
  if 0 ≤ ebits ∧ ebits ≤ 16 then
    match getFewBits ebits.toNat bs with
    | none => none
    | some (v, r) => some (v + lb, false, r)
  else
    match getFewBits 8 bs with
    | none => none                                   -- -1 & 0x80, -1 & 0x40, then `value < 0`
    | some (v, r) =>
      if v / 128 % 2 = 0 then some (v % 128, false, r)
      else if v / 64 % 2 = 0 then
        match getFewBits 8 r with
        | none => none                               -- `x | -1` = -1 passes through
        | some (w, r') => some (v % 64 * 256 + w, false, r')
      else
        let m := v % 64
        if m < 1 ∨ m > 4 then none else some (16384 * m, true, r)

/-- `uper_get_nslength(pd)` -/
def getNslength (bs : Bits) : Option (Nat × Bits) :=
  let long (r : Bits) : Option (Nat × Bits) :=
    match getLength (-1) 0 r with
    | some (len, false, r') => some (len, r')
    | _ => none                                      -- error, or `repeat` (> 16K extensions unsupported)
  match getFewBits 1 bs with
  | none => long bs                                  -- -1 ≠ 0: the `else` branch, position unchanged
  | some (v, r) =>
    if v = 0 then
      match getFewBits 6 r with
      | none => none                                 -- -1 + 1 = 0 → `length <= 0` → -1
      | some (w, r') => some (w + 1, r')
    else long r

/-- `uper_get_nsnnwn(pd)` -/
def getNsnnwn (bs : Bits) : Option (Nat × Bits) :=
  match getFewBits 7 bs with
  | none => none          -- value = -1: `& 64` ≠ 0, `(63 << 2) | x` has bit 128 set → -1
  | some (v, r) =>
    if v / 64 % 2 = 1 then
      match getFewBits 2 r with
      | none => none      -- `x | -1` = -1 → `& 128` → -1
      | some (w, r2) =>
        let len := v % 64 * 4 + w
        if len / 128 % 2 = 1 then none
        else if len = 0 then some (0, r2)
        else if len > 3 then none
        else getFewBits (8 * len) r2
    else some (v, r)

/-- `uper_put_nsnnwn(po, n)`.  For `n ≥ 64`: the marker bit `1` of X.691 §10.6.2 (finding F29 repaired),
    the length octet, the octets. -/
def putNsnnwn (n : Int) : Option Bits :=
  if n ≤ 63 then
    if n < 0 then none else putFewBits 7 n.toNat
  else
    let put (bytes : Nat) : Option Bits :=
      match putFewBits 1 1, putFewBits 8 bytes, putFewBits (8 * bytes) n.toNat with
      | some m, some a, some b => some (m ++ a ++ b)
      | _, _, _ => none
    if n < 256 then put 1 else if n < 65536 then put 2 else if n < 256 * 65536 then put 3 else none

/-- `uper_get_constrained_whole_number(pd, &v, nbits)`, `0 ≤ nbits` -/
def getCwn (nbits : Nat) (bs : Bits) : Option (Nat × Bits) :=
  if nbits ≤ 31 then getFewBits nbits bs
  else if nbits > 64 then none
  else
    match getFewBits 31 bs with
    | none => none
    | some (half, r) =>
      match getCwn (nbits - 31) r with
      | none => none
      | some (lhalf, r') => some (half * 2 ^ (nbits - 31) + lhalf, r')
termination_by nbits
decreasing_by omega

def getCwnI (nbits : Int) (bs : Bits) : Option (Nat × Bits) :=
  if nbits < 0 then none else getCwn nbits.toNat bs

/-- `uper_put_constrained_whole_number_u(po, v, nbits)`, `v < 2^64`, `0 ≤ nbits` -/
def putCwnU (v : Nat) (nbits : Nat) : Option Bits :=
  if nbits ≤ 31 then putFewBits nbits v
  else
    match putCwnU (v / 2 ^ 31) (nbits - 31) with
    | none => none
    | some hi => match putFewBits 31 v with
      | none => none
      | some lo => some (hi ++ lo)
termination_by nbits
decreasing_by omega

def putCwnUI (v : Nat) (nbits : Int) : Option Bits :=
  if nbits < 0 then none else putCwnU v nbits.toNat

/-- `uper_put_length(po, length, &need_eom)` → (bits, return value = items covered by this round, need_eom) -/
def putLength (n : Nat) : Bits × Nat × Bool :=
  if n ≤ 127 then (natBits 8 n, n, false)
  else if n < 16384 then (natBits 16 (n + 32768), n, false)      -- `length | 0x8000`
  else
    let m := n / 16384
    if m > 4 then (natBits 8 (192 + 4), 4 * 16384, false)
    else (natBits 8 (192 + m), m * 16384, n % 16384 == 0)       -- `0xC0 | m`

/-- `uper_put_nslength(po, length)`.  For `length > 64`: the bit `1` of X.691 §10.9.3.4 (finding F64 repaired),
    then `uper_put_length`. -/
def putNslength (n : Nat) : Option Bits :=
  if n ≤ 64 then
    if n = 0 then none else putFewBits 7 (n - 1)
  else
    match putFewBits 1 1 with
    | none => none
    | some m =>
      let (b, cov, eom) := putLength n
      if cov ≠ n ∨ eom then none else some (m ++ b)

/-! ### the length-determinant loops of the callers -/

/-- the loop of `OCTET_STRING_encode_uper` / `SET_OF_encode_uper` / `SEQUENCE_OF_encode_uper` /
    `INTEGER_encode_uper` / `uper_open_type_put` for an unconstrained length:
    `do { may = uper_put_length(left, &eom); put may items; left -= may; if(eom) uper_put_length(0) } while(left)`;
    `items` = the already encoded items (octets, characters, elements). -/
def putLoop (items : List Bits) : Bits :=
  if _h : (putLength items.length).2.1 = 0 ∨ items.length ≤ (putLength items.length).2.1 then
    -- last round: `while(left)` ends (cov = 0 only for the empty list)
    (putLength items.length).1 ++ (items.take (putLength items.length).2.1).flatten
      ++ (if (putLength items.length).2.2 then (putLength 0).1 else [])
  else
    (putLength items.length).1 ++ (items.take (putLength items.length).2.1).flatten
      ++ (if (putLength items.length).2.2 then (putLength 0).1 else [])
      ++ putLoop (items.drop (putLength items.length).2.1)
termination_by items.length
decreasing_by simp only [List.length_drop]; omega

/-- read `k` items with the item reader `rd` -/
def getItems {α : Type} (rd : Bits → Option (α × Bits)) : Nat → Bits → Option (List α × Bits)
  | 0, bs => some ([], bs)
  | k + 1, bs =>
    match rd bs with
    | none => none
    | some (a, bs') =>
      match getItems rd k bs' with
      | none => none
      | some (as, r) => some (a :: as, r)

/-- the loop of `SET_OF_decode_uper` / `OCTET_STRING_decode_uper` / … for an unconstrained length:
    `do { n = uper_get_length(pd, -1, 0, &repeat); read n items } while(repeat)`.
    `fuel` bounds the number of rounds (every round consumes ≥ 8 bits). -/
def getLoopF {α : Type} (rd : Bits → Option (α × Bits)) : Nat → Bits → Option (List α × Bits)
  | 0, _ => none
  | fuel + 1, bs =>
    match getLength (-1) 0 bs with
    | none => none
    | some (n, rep, bs1) =>
      match getItems rd n bs1 with
      | none => none
      | some (xs, bs2) =>
        if rep then
          match getLoopF rd fuel bs2 with
          | none => none
          | some (ys, r) => some (xs ++ ys, r)
        else some (xs, bs2)

def getLoop {α : Type} (rd : Bits → Option (α × Bits)) (bs : Bits) : Option (List α × Bits) :=
  getLoopF rd (bs.length / 8 + 1) bs

/-! ### `per_long_range_rebase` / `per_long_range_unrebase` (`long` = 64 bit) -/

def longMin : Int := -(2 ^ 63)
def longMax : Int := 2 ^ 63 - 1
def isLong (v : Int) : Prop := longMin ≤ v ∧ v ≤ longMax
instance (v : Int) : Decidable (isLong v) := by unfold isLong; infer_instance

/-- `per__long_range(lb, ub, &range)`; `none` = the `assert(!"Unreachable")` branch (lb ≥ 0 > ub).
    In the same-sign case the subtraction is done in `unsigned long` (wraps when lb > ub). -/
def longRange (lb ub : Int) : Option Nat :=
  if (ub < 0) = (lb < 0) then some ((ub - lb) % 2 ^ 64).toNat
  else if lb < 0 then some (1 + (ub.toNat + (-(lb + 1)).toNat))
  else none

/-- `per_long_range_rebase(v, lb, ub, &out)`, precondition `lb ≤ ub` (C: `assert`) -/
def rebase (v lb ub : Int) : Option Nat :=
  if v < lb ∨ v > ub ∨ longRange lb ub = none then none
  else if (v < 0) = (lb < 0) then some (v - lb).toNat
  else if v < 0 then some (1 + (-(v + 1)).toNat + lb.toNat)      -- unreachable when lb ≤ v
  else if lb < 0 then some (1 + (-(lb + 1)).toNat + v.toNat)
  else none

/-- `per_long_range_unrebase(inp, lb, ub, &out)`, `inp < 2^64`, precondition `lb ≤ ub` -/
def unrebase (inp : Nat) (lb ub : Int) : Option Int :=
  match longRange lb ub with
  | none => none
  | some range =>
    if inp > range then none
    else if (inp : Int) ≤ longMax then some (inp + lb)
    else some ((lb + longMax + 1) + ((inp : Int) - longMax - 1))

end Asn1c.Impl.PerSupport
