import Asn1cModel.Base
import Asn1cModel.Impl.BerTlv
import Asn1cModel.Generated.StackGuard
/-
  Impl model for C15 (bounded stack, heap proportional to the input).  Core Lean only.

  * §1 `nestL` / `decodeNest` — the recursion skeleton shared by all constructed decoders together with
    `ASN__STACK_OVERFLOW_CHECK` (asn_internal.h).  The frame sizes are *parameters* (they are decided by
    the C compiler); the theorems quantify over them.
  * §2 which decoders perform the check: read from the regenerated table `Generated.StackGuard`.
  * §3 the allocation ledger and `asn_set_add`.
  * §4 decoders that allocate from a length prefix: `ber_decode_primitive`, `OCTET_STRING_decode_oer`.
  * §5 `uper_get_length`, `SET_OF_decode_uper` (fixed-width elements, the zero-width guard),
       `OCTET_STRING_decode_uper` (SIZE preallocation, fragments).
  * §6 `oer_fetch_length`, `oer_fetch_quantity`, `SET_OF_decode_oer`.
  * §7 the buffer growth policy of `OCTET_STRING_decode_ber` (APPEND macro) and its heap `_stack`.
-/
namespace Asn1c.Impl.StackGuard
open Asn1c Asn1c.Impl.BerTlv

/-- decoder verdicts; `overflow` = the C stack is exhausted (SIGSEGV), which the property forbids -/
inductive Outcome where
  | ok | more | fail | overflow
deriving DecidableEq, Repr, Inhabited

def Outcome.name : Outcome → String
  | .ok => "ok" | .more => "more" | .fail => "fail" | .overflow => "overflow"

/-! ## 1. recursion and the stack check -/

/-- `ASN__STACK_OVERFLOW_CHECK(ctx)` returns -1: a limit is set (`max_stack_size ≠ 0`) and the stack used
    since the codec context was put on the stack exceeds it. -/
def limitReached (max used : Nat) : Bool := max != 0 && decide (used > max)

/-- Nested decoder invocations.  `frames` = the frame cost of each successive invocation the input asks
    for (its length is the nesting depth of the input), `used` = stack used so far, `phys` = the real
    stack size.  Returns the verdict and the number of invocations started.
    A frame that does not fit is `overflow`; a guarded decoder whose check fires is `fail`. -/
def nestL (guarded : Bool) (max phys : Nat) : Nat → List Nat → Outcome × Nat
  | _, [] => (.ok, 0)
  | used, f :: rest =>
    if used + f > phys then (.overflow, 1)
    else if guarded && limitReached max (used + f) then (.fail, 1)
    else
      let r := nestL guarded max phys (used + f) rest
      (r.1, r.2 + 1)

/-- constant frame cost `δ`, nesting `depth` -/
def decodeNest (guarded : Bool) (max phys δ depth : Nat) : Outcome × Nat :=
  nestL guarded max phys 0 (List.replicate depth δ)

/-- number of decoder invocations started (the deepest one may be the one whose check fails) -/
def maxReachedDepth (guarded : Bool) (max phys δ depth : Nat) : Nat := (decodeNest guarded max phys δ depth).2

/-! ## 2. which decoders check -/

def lookup (tbl : List (String × Bool)) (name : String) : Bool :=
  match tbl.find? (·.1 == name) with
  | some (_, b) => b
  | none => false

/-- the body contains `if(ASN__STACK_OVERFLOW_CHECK(..))` -/
def directlyGuarded (name : String) : Bool := lookup Generated.StackGuard.guardedDecoders name

/-- guarded directly, or on entry through `ber_check_tags` (every BER type decoder starts with it) -/
def isGuarded (name : String) : Bool :=
  directlyGuarded name ||
  (lookup Generated.StackGuard.callsBerCheckTags name && directlyGuarded "ber_check_tags")

/-- the decoders through which a recursive type definition recurses (one per constructed kind and syntax),
    plus the TLV skipper.  (There is no SET decoder for UPER / OER in this tree.) -/
def recursingDecoders : List String := [
  "SEQUENCE_decode_ber", "SET_decode_ber", "CHOICE_decode_ber", "SET_OF_decode_ber", "ber_skip_length",
  "SEQUENCE_decode_uper", "CHOICE_decode_uper", "SET_OF_decode_uper",
  "SEQUENCE_decode_oer", "CHOICE_decode_oer", "SET_OF_decode_oer",
  "SEQUENCE_decode_xer", "SET_decode_xer", "CHOICE_decode_xer", "SET_OF_decode_xer"]

/-- finding F13 (repaired): the recursing decoders that had no check before the repair -/
def formerlyUnguarded : List String := [
  "CHOICE_decode_oer", "SEQUENCE_decode_xer", "SET_decode_xer", "CHOICE_decode_xer", "SET_OF_decode_xer"]

/-- the open-type readers of per_opentype.c, which called the check and discarded its verdict before the repair -/
def formerlyDiscarding : List String := ["uper_open_type_get_simple", "uper_open_type_get_complex"]

/-! ## 3. allocation ledger -/

/-- bytes requested and still held (`live`), the maximum of `live` so far, number of allocation calls -/
structure Heap where
  live : Nat := 0
  peak : Nat := 0
  allocs : Nat := 0
deriving DecidableEq, Repr, Inhabited

def Heap.alloc (h : Heap) (n : Nat) : Heap :=
  ⟨h.live + n, max h.peak (h.live + n), h.allocs + 1⟩
def Heap.free (h : Heap) (n : Nat) : Heap := ⟨h.live - n, h.peak, h.allocs⟩
/-- `realloc(old block of size old, new)`: accounted as release + acquire -/
def Heap.realloc (h : Heap) (old new : Nat) : Heap :=
  ⟨h.live - old + new, max h.peak (h.live - old + new), h.allocs + 1⟩

/-- `asn_set_add`: the pointer array doubles (4, 8, 16, …) when full.  State = (count, capacity). -/
def setAdd (h : Heap) (cnt cap : Nat) : Heap × Nat × Nat :=
  if cnt = cap then
    let ncap := if cap = 0 then 4 else cap * 2
    (h.realloc (8 * cap) (8 * ncap), cnt + 1, ncap)
  else (h, cnt + 1, cap)

/-! ## 4. allocation from a length prefix (BER primitive, OER OCTET STRING) -/

structure PrimResult where
  rc : Outcome
  consumed : Nat
  structReq : Nat            -- CALLOC(1, sizeof(*st))
  bufReq : Option Nat        -- MALLOC(length + 1), if reached
deriving DecidableEq, Repr

def PrimResult.heap (r : PrimResult) : Heap :=
  let h := ({} : Heap).alloc r.structReq
  match r.bufReq with
  | some n => h.alloc n
  | none => h

/-- `ber_decode_primitive` for a type with the single primitive tag `tag` (tag_mode 0, last_tag_form 0):
    `ber_check_tags` with one tag, then the `length > size` test, then `MALLOC(length + 1)`.
    `lengthCheck = false` models the mutant without the test. -/
def berPrimitive (lengthCheck : Bool) (tag : Tag) (bs : Bytes) : PrimResult :=
  let ssz := 16          -- sizeof(ASN__PRIMITIVE_TYPE_t): buf pointer + size
  match fetchTag bs with
  | .more => ⟨.more, 0, ssz, none⟩
  | .fail => ⟨.fail, 0, ssz, none⟩
  | .ok t tl =>
    if t ≠ tag then ⟨.fail, 0, ssz, none⟩
    else if isConstructed (bs.headD 0) then ⟨.fail, 0, ssz, none⟩
    else
      match fetchLength false (bs.drop tl) with
      | .more => ⟨.more, 0, ssz, none⟩
      | .fail => ⟨.fail, 0, ssz, none⟩
      | .ok len ll =>
        let length := len.toNat
        let size := bs.length - (tl + ll)
        if lengthCheck && decide (length > size) then ⟨.more, 0, ssz, none⟩
        else if length ≥ 2 ^ 31 then ⟨.fail, tl + ll, ssz, none⟩     -- `(int)length != length`
        else ⟨.ok, tl + ll + length, ssz, some (length + 1)⟩

/-- `oer_fetch_length(bufptr, size, &len)` -/
def oerFetchLength (bs : Bytes) : Fetch Nat :=
  match bs with
  | [] => .more
  | b :: rest =>
    if b < 128 then .ok b 1
    else
      let ll := b % 128
      if 1 + ll > bs.length then .more
      else
        let ds := (rest.take ll).dropWhile (· == 0)
        if ds.length > 8 then .fail
        else
          let len := ofBE 0 ds
          if len > 2 ^ 63 - 1 then .fail     -- RSIZE_MAX
          else .ok len (ll + 1)

/-- `OCTET_STRING_decode_oer` (`ctSize` = the OER size constraint, if any; `unit` = bytes per character) -/
def osOer (ssz : Nat) (ctSize : Option Nat) (unit : Nat) (bs : Bytes) : PrimResult :=
  match ctSize with
  | some n =>
    let expected := unit * n
    if bs.length < expected then ⟨.more, 0, ssz, none⟩
    else ⟨.ok, expected, ssz, some (expected + 1)⟩
  | none =>
    match oerFetchLength bs with
    | .more => ⟨.more, 0, ssz, none⟩
    | .fail => ⟨.fail, 0, ssz, none⟩
    | .ok expected ll =>
      if expected % unit ≠ 0 then ⟨.fail, 0, ssz, none⟩
      else if bs.length - ll < expected then ⟨.more, 0, ssz, none⟩
      else ⟨.ok, ll + expected, ssz, some (expected + 1)⟩

/-! ## 5. UPER -/

/-- `per_get_few_bits(pd, n)`: `none` = not enough bits (-1) -/
def getBits (n : Nat) (bits : Bits) : Option (Nat × Bits) :=
  if bits.length < n then none else some (bitsVal 0 (bits.take n), bits.drop n)

/-- `uper_get_length(pd, ebits, lower_bound, &repeat)`; `eb = none` is `ebits = -1`.
    Result: (value, repeat, rest); `none` = -1 (starved or a prohibited fragment multiplier). -/
def uperGetLength (eb : Option Nat) (lb : Nat) (bits : Bits) : Option (Nat × Bool × Bits) :=
  match eb with
  | some e =>
    match getBits e bits with
    | none => none
    | some (v, r) => some (v + lb, false, r)
  | none =>
    match getBits 8 bits with
    | none => none
    | some (v, r) =>
      if v < 128 then some (v, false, r)
      else if v < 192 then
        match getBits 8 r with
        | none => none
        | some (w, r2) => some (v % 64 * 256 + w, false, r2)
      else
        let m := v % 64
        if m < 1 ∨ m > 4 then none else some (16384 * m, true, r)

/-- the parameters of a SET OF / SEQUENCE OF whose elements have a fixed width -/
structure SetOfCfg where
  ssz : Nat            -- specs->struct_size
  esz : Nat            -- bytes allocated per element
  w : Nat              -- bits (UPER) / bytes (OER) consumed per element
  rep0 : Bool          -- the element decoder reports `rv.consumed == 0` (read by the OER guard only)
  limit : Option Nat   -- the zero-width guard (`none` = no guard)
deriving Repr

structure LoopState where
  h : Heap
  cnt : Nat := 0
  cap : Nat := 0
deriving Repr

/-- the `for(i = 0; i < nelems; i++)` loop of SET_OF_decode_uper; `todo` counts down, `nelems` is the
    announced count the guard looks at.  The guard compares `pd->moved` before and after the element decoder
    (`pd->moved == moved && nelems > 200`, finding F47 repaired): it fires exactly for elements that took no
    bits, whatever `rv.consumed` the element decoder reports (INTEGER, ENUMERATED, SEQUENCE … report 0). -/
def elemsUper (c : SetOfCfg) (nelems : Nat) : Nat → Bits → LoopState → Outcome × Bits × LoopState
  | 0, bits, s => (.ok, bits, s)
  | i + 1, bits, s =>
    if bits.length < c.w then
      -- element decoder allocates, starves, the element is freed again
      (.more, bits, { s with h := (s.h.alloc c.esz).free c.esz })
    else
      let (h2, cnt2, cap2) := setAdd (s.h.alloc c.esz) s.cnt s.cap
      let s2 : LoopState := ⟨h2, cnt2, cap2⟩
      match c.limit with
      | some lim =>
        if decide (c.w = 0) && decide (nelems > lim) then (.fail, bits.drop c.w, s2)
        else elemsUper c nelems i (bits.drop c.w) s2
      | none => elemsUper c nelems i (bits.drop c.w) s2

/-- the `do { … } while(repeat)` loop; `first` = element count already known from a SIZE constraint -/
def roundsUper (c : SetOfCfg) : Nat → Option Nat → Bits → LoopState → Outcome × Bits × LoopState
  | 0, _, bits, s => (.fail, bits, s)
  | fuel + 1, first, bits, s =>
    let len := match first with
      | some n => some (n, false, bits)
      | none => uperGetLength none 0 bits
    match len with
    | none => (.more, bits, s)
    | some (n, rep, bits1) =>
      match elemsUper c n n bits1 s with
      | (.ok, bits2, s2) => if rep then roundsUper c fuel none bits2 s2 else (.ok, bits2, s2)
      | r => r

/-- `SET_OF_decode_uper`; `ct = some (effective_bits, lower_bound)` for a (non-extensible) SIZE constraint -/
def setOfUper (c : SetOfCfg) (ct : Option (Nat × Nat)) (bits : Bits) : Outcome × Bits × LoopState :=
  let s0 : LoopState := { h := ({} : Heap).alloc c.ssz }
  match ct with
  | none => roundsUper c (bits.length + 1) none bits s0
  | some (eb, lb) =>
    match getBits eb bits with
    | none => (.more, bits, s0)
    | some (v, r) => roundsUper c (r.length + 1) (some (v + lb)) r s0

/-- `uper_decode` + `uper_decode_complete`: consumed octets and the final code -/
def uperComplete (nbytes : Nat) (firstByte : Nat) (rc : Outcome) (consumedBits : Nat) : Outcome × Nat :=
  match rc with
  | .ok =>
    if consumedBits ≠ 0 then (.ok, (consumedBits + 7) / 8)
    else if nbytes = 0 then (.more, 0)
    else if firstByte = 0 then (.ok, 1) else (.fail, 0)
  | o => (o, 0)

/-- result of the string decoder: verdict, unread bits, ledger, number of length determinants read -/
structure OsResult where
  rc : Outcome
  rest : Bits
  h : Heap
  rounds : Nat
deriving Repr

/-- the string decoder `OCTET_STRING_decode_uper` for unit width `u` bits, `bpc` bytes per character, no
    alphabet translation: the `do { … } while(repeat)` loop.  Characters of width 0 (single-character permitted
    alphabet) are refused as soon as a length determinant announces a fragment (finding F71, repaired).  `buf` = size of the block `st->buf` points
    to (if any), `size` = `st->size`, `rounds` = length determinants read so far. -/
def osUperLoop (bpc u : Nat) (eb : Option Nat) (lb : Nat) :
    Nat → Bits → Heap → (buf : Option Nat) → (size : Nat) → (rounds : Nat) → OsResult
  | 0, bits, h, _, _, k => ⟨.fail, bits, h, k⟩
  | fuel + 1, bits, h, buf, size, k =>
    match uperGetLength eb lb bits with
    | none => ⟨.more, bits, h, k⟩
    | some (rawLen, rep, bits1) =>
      if rawLen = 0 ∧ buf.isSome then ⟨.ok, bits1, h, k + 1⟩
      else if u = 0 ∧ rep = true then ⟨.fail, bits1, h, k + 1⟩     -- `unit_bits == 0 && repeat`: zero-width characters, fragmented
      else
        let lenBytes := rawLen * bpc
        let h1 := match buf with
          | some old => h.realloc old (size + lenBytes + 1)
          | none => h.alloc (size + lenBytes + 1)
        if bits1.length < rawLen * u then ⟨.more, bits1, h1, k + 1⟩
        else
          let bits2 := bits1.drop (rawLen * u)
          if rep then osUperLoop bpc u eb lb fuel bits2 h1 (some (size + lenBytes + 1)) (size + lenBytes) (k + 1)
          else ⟨.ok, bits2, h1, k + 1⟩

/-- `OCTET_STRING_decode_uper`.  `csiz = none`: no PER-visible size constraint (`effective_bits = -1`);
    `some (eb, lb, ub)`: `effective_bits = eb ≥ 0`, bounds `lb..ub`.  Only a fixed size (`eb = 0`) is allocated
    up front; a variable size is allocated when its length has been read (finding F70, repaired: the
    `ub·bpc + 1` preallocation used to be made for every `eb ≥ 0` and was kept for empty strings). -/
def osUper (ssz bpc u : Nat) (csiz : Option (Nat × Nat × Nat)) (bits : Bits) : OsResult :=
  let h0 := ({} : Heap).alloc ssz
  match csiz with
  | none => osUperLoop bpc u none 0 (bits.length + 1) bits h0 none 0 0
  | some (eb, lb, ub) =>
    if eb = 0 then
      let h1 := h0.alloc (ub * bpc + 1)        -- MALLOC(st->size + 1) with st->size = upper_bound * bpc
      if bits.length < u * ub then ⟨.more, bits, h1, 0⟩ else ⟨.ok, bits.drop (u * ub), h1, 0⟩
    else osUperLoop bpc u (some eb) lb (bits.length + 1) bits h0 none 0 0

/-! ## 6. OER collections -/

/-- `oer_fetch_quantity` (constr_SET_OF_oer.c) -/
def oerFetchQuantity (bs : Bytes) : Fetch Nat :=
  match oerFetchLength bs with
  | .more => .more
  | .fail => .fail
  | .ok len ll =>
    if ll + len > bs.length then .more
    else
      let ds := ((bs.drop ll).take len).dropWhile (· == 0)
      if ds.length > 8 then .fail
      else
        let q := ofBE 0 ds
        if q > 2 ^ 63 - 1 then .fail else .ok q (ll + len)

/-- phase 1 of `SET_OF_decode_oer`: `left` elements to go, `done` decoded so far in this call,
    `moved` = some element consumed input (`base_ptr != ptr`) -/
def elemsOer (c : SetOfCfg) : Nat → Nat → Bool → Bytes → LoopState → Outcome × Bytes × LoopState
  | 0, _, _, bs, s => (.ok, bs, s)
  | left + 1, done, moved, bs, s =>
    if bs.length < c.w then
      -- the element decoder (BOOLEAN_decode_oer: `if(size < 1) ASN__DECODE_STARVED` before the CALLOC)
      -- asks for more without allocating
      (.more, bs, s)
    else
      let (h2, cnt2, cap2) := setAdd (s.h.alloc c.esz) s.cnt s.cap
      let s2 : LoopState := ⟨h2, cnt2, cap2⟩
      let moved2 := moved || decide (c.w > 0)
      match c.limit with
      | some lim =>
        if c.rep0 && !moved2 && decide (done > lim) then (.fail, bs.drop c.w, s2)
        else elemsOer c left (done + 1) moved2 (bs.drop c.w) s2
      | none => elemsOer c left (done + 1) moved2 (bs.drop c.w) s2

def setOfOer (c : SetOfCfg) (bs : Bytes) : Outcome × Bytes × LoopState :=
  let s0 : LoopState := { h := ({} : Heap).alloc c.ssz }
  match oerFetchQuantity bs with
  | .more => (.more, bs, s0)
  | .fail => (.fail, bs, s0)
  | .ok q used => elemsOer c q 0 false (bs.drop used) s0

/-! ## 7. OCTET STRING (BER): buffer growth and the expectation stack -/

/-- the capacity chosen by the `APPEND` macro: current capacity `ns`, needed size `es`
    (`do ns = ns ? ns<<1 : 16 while(ns <= es)` when `ns <= es`).  `fuel` ≥ 64 suffices. -/
def appendCapLoop : Nat → Nat → Nat → Nat
  | 0, ns, _ => ns
  | fuel + 1, ns, es =>
    let ns' := if ns = 0 then 16 else ns * 2
    if ns' ≤ es then appendCapLoop fuel ns' es else ns'

def appendCap (ns es : Nat) : Nat := if ns ≤ es then appendCapLoop (es + 1) ns es else ns

/-- heap held by a constructed OCTET STRING decode at nesting `depth`: string structure, `_stack` (16),
    one `_stack_el` (48 bytes) per open constructed TLV, buffer of capacity `cap` -/
def osBerHeap (ssz depth cap : Nat) : Nat := ssz + 16 + 48 * depth + cap

/-- peak heap of `OCTET_STRING_decode_ber` on `depth` nested constructed TLVs around one primitive segment
    of `len` octets (`depth = 0`: the primitive form, decoded without the `_stack`) -/
def osBerPeak (ssz depth len : Nat) : Nat :=
  if depth = 0 then ssz + appendCap 0 len
  else osBerHeap ssz (depth + 1) (if len = 0 then 0 else appendCap 0 len)   -- the primitive segment gets a `_stack_el` too

end Asn1c.Impl.StackGuard
