/-
  Base layer (L0): bytes, bits, hex I/O, big-endian helpers.
  Core Lean only (no Mathlib) so that the driver links as a `lean_exe`.
-/
namespace Asn1c

abbrev Bytes := List Nat
abbrev Bits := List Bool

/-- every element is an octet -/
def Bytes.wf (bs : Bytes) : Prop := ∀ b ∈ bs, b < 256

instance (bs : Bytes) : Decidable (Bytes.wf bs) := by unfold Bytes.wf; infer_instance

/-- big-endian accumulate -/
def ofBE (acc : Nat) : Bytes → Nat
  | [] => acc
  | b :: bs => ofBE (acc * 256 + b) bs

/-- minimal big-endian base-256 digits; `[]` for 0 -/
def toBE (n : Nat) : Bytes :=
  if _h : n = 0 then [] else toBE (n / 256) ++ [n % 256]
termination_by n
decreasing_by omega

/-- exactly `k` big-endian octets of `n % 256^k` -/
def toBEn : Nat → Nat → Bytes
  | 0, _ => []
  | k + 1, n => (n / 256 ^ k % 256) :: toBEn k n

/-! ### hex I/O (driver side, not used in theorems) -/

def hexDigit (n : Nat) : Char :=
  if n < 10 then Char.ofNat (48 + n) else Char.ofNat (87 + n)

def hexByte (b : Nat) : String :=
  String.ofList [hexDigit (b / 16 % 16), hexDigit (b % 16)]

def toHex (bs : Bytes) : String :=
  if bs.isEmpty then "-" else String.join (bs.map hexByte)

def hexVal (c : Char) : Option Nat :=
  if '0' ≤ c ∧ c ≤ '9' then some (c.toNat - 48)
  else if 'a' ≤ c ∧ c ≤ 'f' then some (c.toNat - 87)
  else if 'A' ≤ c ∧ c ≤ 'F' then some (c.toNat - 55)
  else none

def parseHexAux : List Char → Bytes → Option Bytes
  | [], acc => some acc.reverse
  | [_], _ => none
  | a :: b :: rest, acc =>
    match hexVal a, hexVal b with
    | some x, some y => parseHexAux rest ((x * 16 + y) :: acc)
    | _, _ => none

def parseHex (s : String) : Option Bytes :=
  if s == "-" then some [] else parseHexAux s.toList []

def parseInt (s : String) : Option Int := s.toInt?
def parseNat (s : String) : Option Nat := s.toNat?

/-- bits of a byte, most significant first -/
def byteBits (b : Nat) : Bits :=
  [b / 128 % 2 == 1, b / 64 % 2 == 1, b / 32 % 2 == 1, b / 16 % 2 == 1,
   b / 8 % 2 == 1, b / 4 % 2 == 1, b / 2 % 2 == 1, b % 2 == 1]

def bytesToBits (bs : Bytes) : Bits := bs.flatMap byteBits

/-- big-endian value of a bit list -/
def bitsVal (acc : Nat) : Bits → Nat
  | [] => acc
  | b :: bs => bitsVal (acc * 2 + (if b then 1 else 0)) bs

/-- `k` bits, most significant first, of `n % 2^k` -/
def natBits : Nat → Nat → Bits
  | 0, _ => []
  | k + 1, n => natBits k (n / 2) ++ [n % 2 == 1]

/-- pack bits into bytes, zero-padding the last octet -/
def bitsToBytes (bs : Bits) : Bytes :=
  if _h : bs = [] then [] else
    bitsVal 0 ((bs.take 8) ++ List.replicate (8 - (bs.take 8).length) false) :: bitsToBytes (bs.drop 8)
termination_by bs.length
decreasing_by
  have : bs.length ≠ 0 := by simpa using _h
  simp [List.length_drop]; omega

def bitsToString (bs : Bits) : String :=
  if bs.isEmpty then "-" else String.ofList (bs.map fun b => if b then '1' else '0')

def parseBits (s : String) : Option Bits :=
  if s == "-" then some [] else
  s.toList.mapM fun c => if c == '0' then some false else if c == '1' then some true else none

end Asn1c
