def hello := "world"
