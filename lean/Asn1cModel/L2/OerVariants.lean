import Asn1cModel.L2.Oer
/-
  L2 OER variants: the valid BASIC-OER encodings of a value that the canonical encoder `L2.Oer.encOER`
  does *not* produce (property C03: "decoders accept every valid encoding, not only the library's own").

  ITU-T X.696 (08/2015) distinguishes BASIC-OER from CANONICAL-OER by a short list of sender's options.
  X.696 is not available in this sandbox beyond /verif/notes/standards-notes.md and the clause citations in
  asn1c's own sources, so only the forms are modelled whose validity is certain:

  (a) §16.4/§16.5 extension additions and version skew (X.680 §52 extensibility model: a receiver must accept the
      encodings of every earlier and later version of an extensible type):
        * `older`  — the sender's version of the SEQUENCE has fewer extension additions: its presence bitmap is
                     shorter than the receiver's list; the additions it does not know are trailing and absent;
        * `newer`  — the sender's version has more additions: the bitmap is longer; the unknown additions are
                     absent (extra zero bits) or present, each as an open type (§30: length determinant + any
                     octets) that the receiver has to skip;
  (b) §8.6.4/§8.6.5 length determinant: the long form (0x80 | k, then k octets) where the short form would do, and
      with leading zero octets ("there is no requirement for the minimum number of octets" in BASIC-OER; §8.6.6?
      restricts CANONICAL-OER to the shortest form).  Applies to every length determinant: variable-size
      INTEGER, REAL, OCTET/BIT/character strings, the presence bitmap, open types, the quantity field of
      SEQUENCE OF / SET OF (only its *length* octet(s); the count itself stays minimal, §10.4);
  (c) §11.3 ENUMERATED: the long form (0x81, value) for the values 0..127 (the short form §11.2 is mandatory only in
      CANONICAL-OER, §11.4);
  (d) §9.2 BOOLEAN: any non-zero octet for TRUE (0xFF only in CANONICAL-OER);
  (e) §19 SET OF: the elements in any order (sorted only in CANONICAL-OER).  `encV` never sorts: it emits the
      elements in the order of the value's list, so every order is the `encV` of a permuted list
      (`permSetOf` produces such lists for the driver).
  Left out on purpose: an unknown extension *alternative* of a CHOICE / unknown ENUMERATED item is not "the same
  value"; DEFAULT-valued components encoded explicitly, non-minimal INTEGER / ENUMERATED contents octets and
  non-zero unused bits of BIT STRINGs are not modelled (not certain without the text).

  `encV t v s`: the encoding of `v` with the variation selected by the state `s : VSt` applied at the chosen
  applicable position(s) — positions are counted in encoding order through nested types by threading `s`.
  `Props/C03Oer.lean` proves that the reference decoder `decOER` accepts every `encV` output (for *every* state,
  hence for any combination of positions) and returns the value.  Core Lean only.
-/
namespace Asn1c.L2.OerVar
open Asn1c Asn1c.L2 Asn1c.L2.Oer Asn1c.Impl.BerTlv

inductive Kind where
  | none          -- no variation: the BASIC-OER encoding with SET OF elements in list order
  | boolTrue      -- (d)
  | enumLong      -- (c)
  | lenLong       -- (b)
  | older         -- (a) shorter presence bitmap
  | newer         -- (a) longer presence bitmap, unknown additions absent / present
deriving DecidableEq, Repr, Inhabited

/-- which variation, where: the `skip` first applicable positions are left canonical, the next one is varied
    (and all later ones too when `all`); `param` / `extra` parametrise the variation; `hits` counts the varied positions -/
structure VSt where
  kind : Kind := .none
  skip : Nat := 0
  all : Bool := false
  /-- lenLong: number of leading zero octets; boolTrue: selects the octet; older: how many droppable bits stay -/
  param : Nat := 0
  /-- newer: the additions unknown to the receiver, `none` = absent, `some p` = present with open-type contents `p` -/
  extra : List (Option Bytes) := []
  hits : Nat := 0
deriving Repr, Inhabited

/-- is the position (of kind `k`, where the variation is `applicable`) the chosen one? -/
def VSt.site (s : VSt) (k : Kind) (applicable : Bool) : Bool × VSt :=
  if s.kind = k ∧ applicable = true then
    if s.skip = 0 then (true, { s with kind := if s.all then s.kind else .none, hits := s.hits + 1 })
    else (false, { s with skip := s.skip - 1 })
  else (false, s)

/-! ### the variable building blocks -/

/-- §8.6.5 long form with `pad` leading zero octets: 0x80 | k, then the length in k octets -/
def lenLong (pad n : Nat) : Bytes :=
  (128 + (List.replicate pad 0 ++ unsOctets n).length) :: (List.replicate pad 0 ++ unsOctets n)

/-- a length determinant (position of kind `lenLong`; k ≤ 127, and the form must differ from the canonical one) -/
def lenV (n : Nat) (s : VSt) : Bytes × VSt :=
  let r := s.site .lenLong (decide (s.param + (unsOctets n).length ≤ 127 ∧ (n ≤ 127 ∨ 0 < s.param)))
  (if r.1 then lenLong s.param n else lenDet n, r.2)

/-- length determinant + contents -/
def lenBody (c : Bytes) (s : VSt) : Bytes × VSt := ((lenV c.length s).1 ++ c, (lenV c.length s).2)

/-- §9.2: the octet of TRUE: 0xFF, or any of 0x01..0xFE at a chosen position -/
def boolV (s : VSt) : Nat × VSt :=
  let r := s.site .boolTrue true
  (if r.1 then 1 + s.param % 254 else 255, r.2)

/-- §11: the canonical form, or the long form for 0..127 at a chosen position -/
def encEnumV (z : Int) (s : VSt) : Option (Bytes × VSt) :=
  let r := s.site .enumLong (decide (0 ≤ z ∧ z ≤ 127))
  if r.1 then some ([129, z.toNat], r.2) else (encEnum z).map fun x => (x, r.2)

def encIntV : IntShape → Int → VSt → Option (Bytes × VSt)
  | .varU, z, s => if 0 ≤ z then some (lenBody (unsOctets z.toNat) s) else none
  | .varS, z, s => some (lenBody (intOctets z) s)
  | .fixedU w, z, s => (encInt (.fixedU w) z).map fun x => (x, s)
  | .fixedS w, z, s => (encInt (.fixedS w) z).map fun x => (x, s)

/-- length of the shortest prefix of the bitmap that holds every set bit -/
def needLen : Bits → Nat
  | [] => 0
  | b :: bs => if b || needLen bs != 0 then needLen bs + 1 else 0

/-- the first `k` bits, provided only zero bits are dropped -/
def shorten (k : Nat) (bits : Bits) : Bits :=
  if (bits.drop k).all (· == false) then bits.take k else bits

def extraBits : List (Option Bytes) → Bits
  | [] => []
  | none :: r => false :: extraBits r
  | some _ :: r => true :: extraBits r

/-- the present unknown additions, each as an open type (§30) -/
def extraBody : List (Option Bytes) → Bytes
  | [] => []
  | none :: r => extraBody r
  | some p :: r => openType p ++ extraBody r

/-- (a): the presence bitmap as sent + the encodings of the additions unknown to the receiver.
    `older`: applicable when an addition is present (otherwise no bitmap is sent at all) and trailing ones are absent;
    `newer`: applicable to every extensible SEQUENCE. -/
def versionV (ext : Bool) (abits : Bits) (s : VSt) : Bits × Bytes × VSt :=
  let k := needLen abits + s.param % (abits.length - needLen abits)
  let r := s.site .older (ext && decide (0 < needLen abits ∧ needLen abits < abits.length))
  if r.1 then (shorten k abits, [], r.2)
  else
    let q := r.2.site .newer (ext && !s.extra.isEmpty)
    if q.1 then (abits ++ extraBits s.extra, extraBody s.extra, q.2) else (abits, [], q.2)

/-! ### the encoder -/

def mapEncV (f : Val → VSt → Option (Bytes × VSt)) : List Val → VSt → Option (List Bytes × VSt)
  | [], s => some ([], s)
  | v :: vs, s =>
    match f v s with
    | none => none
    | some (x, s1) =>
      match mapEncV f vs s1 with
      | none => none
      | some (xs, s2) => some (x :: xs, s2)

mutual
def encV : OTy → Val → VSt → Option (Bytes × VSt)
  | .boolean, .bool b, s => if b then some ([(boolV s).1], (boolV s).2) else some ([0], s)      -- §9
  | .null, .null, s => some ([], s)
  | .integer sh, .int z, s => encIntV sh z s                                                    -- §10
  | .enumerated, .int z, s => encEnumV z s                                                      -- §11
  | .real, .real bits, s => some (lenBody (Asn1c.Impl.Real.double2REAL bits) s)                 -- §12
  | .octets none, .octets bs, s => some (lenBody bs s)
  | .octets (some n), .octets bs, s => if bs.length = n then some (bs, s) else none
  | .bits none, .bits bs u, s =>
    if u ≤ 7 ∧ (bs = [] → u = 0) then some (lenBody (u :: maskLast bs u) s) else none
  | .bits (some n), .bits bs u, s =>
    if u ≤ 7 ∧ bs.length = (n + 7) / 8 ∧ u = padBits n then some (maskLast bs u, s) else none
  | .seq root rattrs ext adds aattrs, .seq vs, s =>                                             -- §16
    match encRootV root rattrs (vs.take root.length) s with
    | none => none
    | some (rbits, rbody, s1) =>
      match encAddsV adds aattrs (vs.drop root.length) s1 with
      | none => none
      | some (abits, abody, s2) =>
        let r := versionV ext abits s2
        if r.1.any id then
          if ext then
            some (bitsToBytes (true :: rbits) ++ rbody
                  ++ ((lenBody (padBits r.1.length :: bitsToBytes r.1) r.2.2).1 ++ (abody ++ r.2.1)),
                  (lenBody (padBits r.1.length :: bitsToBytes r.1) r.2.2).2)
          else none
        else some (bitsToBytes ((if ext then [false] else []) ++ rbits) ++ rbody, r.2.2)
  | .choice tags alts nroot, .choice i v, s =>                                                  -- §20
    match tags[i]?, encAltV alts i v s with
    | some t, some (body, s1) =>
      if i < nroot then some (Oer.tagOctets t ++ body, s1)
      else some (Oer.tagOctets t ++ (lenBody body s1).1, (lenBody body s1).2)
    | _, _ => none
  | .seqOf e, .list vs, s =>                                                                    -- §17
    match mapEncV (encV e) vs s with
    | some (els, s1) => some ((lenBody (unsOctets vs.length) s1).1 ++ flatten els, (lenBody (unsOctets vs.length) s1).2)
    | none => none
  | .setOf e, .list vs, s =>                                                                    -- §19, BASIC-OER: any order
    match mapEncV (encV e) vs s with
    | some (els, s1) => some ((lenBody (unsOctets vs.length) s1).1 ++ flatten els, (lenBody (unsOctets vs.length) s1).2)
    | none => none
  | _, _, _ => none
termination_by structural t => t
def encRootV : List OTy → List Attr → List Val → VSt → Option (Bits × Bytes × VSt)
  | [], [], [], s => some ([], [], s)
  | m :: ms, a :: as, v :: vs, s =>
    if isPresent a v then
      match encV m v s with
      | none => none
      | some (x, s1) =>
        match encRootV ms as vs s1 with
        | none => none
        | some (bits, body, s2) => some ((if a.optional then true :: bits else bits), x ++ body, s2)
    else if a.optional then
      match encRootV ms as vs s with
      | some (bits, body, s2) => some (false :: bits, body, s2)
      | none => none
    else none
  | _, _, _, _ => none
termination_by structural ms => ms
def encAddsV : List OTy → List Attr → List Val → VSt → Option (Bits × Bytes × VSt)
  | [], [], [], s => some ([], [], s)
  | m :: ms, a :: as, v :: vs, s =>
    if isPresent a v then
      match encV m v s with
      | none => none
      | some (x, s1) =>
        match encAddsV ms as vs (lenBody x s1).2 with
        | none => none
        | some (bits, body, s2) => some (true :: bits, (lenBody x s1).1 ++ body, s2)
    else
      match encAddsV ms as vs s with
      | some (bits, body, s2) => some (false :: bits, body, s2)
      | none => none
  | _, _, _, _ => none
termination_by structural ms => ms
def encAltV : List OTy → Nat → Val → VSt → Option (Bytes × VSt)
  | [], _, _, _ => none
  | a :: _, 0, v, s => encV a v s
  | _ :: as, i + 1, v, s => encAltV as i v s
termination_by structural ms => ms
end

/-! ### SET OF element order (e): a permuted list is the same abstract value -/

/-- rotate left by `k` (k = 0: reverse) -/
def permList (k : Nat) (vs : List Val) : List Val :=
  if k % vs.length = 0 then vs.reverse else vs.drop (k % vs.length) ++ vs.take (k % vs.length)

abbrev PSt := Nat × Bool × Nat     -- (skip, all, param)

def mapPerm (f : Val → PSt → Val × PSt) : List Val → PSt → List Val × PSt
  | [], s => ([], s)
  | v :: vs, s => ((f v s).1 :: (mapPerm f vs (f v s).2).1, (mapPerm f vs (f v s).2).2)

mutual
/-- the value with the list of the `skip`-th SET OF with ≥ 2 elements (in encoding order, inner ones first; all
    later ones too when `all`) permuted -/
def permSetOf : OTy → Val → PSt → Val × PSt
  | .setOf e, .list vs, s =>
    let r := mapPerm (permSetOf e) vs s
    if 2 ≤ vs.length then
      if r.2.1 = 0 then (.list (permList r.2.2.2 r.1), (if r.2.2.1 then 0 else 1000000000, r.2.2.1, r.2.2.2))
      else (.list r.1, (r.2.1 - 1, r.2.2.1, r.2.2.2))
    else (.list r.1, r.2)
  | .seqOf e, .list vs, s => (.list (mapPerm (permSetOf e) vs s).1, (mapPerm (permSetOf e) vs s).2)
  | .seq root _ _ adds _, .seq vs, s =>
    let r := permComps root (vs.take root.length) s
    let q := permComps adds (vs.drop root.length) r.2
    (.seq (r.1 ++ q.1), q.2)
  | .choice _ alts _, .choice i v, s => (.choice i (permAlt alts i v s).1, (permAlt alts i v s).2)
  | _, v, s => (v, s)
termination_by structural t => t
def permComps : List OTy → List Val → PSt → List Val × PSt
  | m :: ms, v :: vs, s =>
    ((permSetOf m v s).1 :: (permComps ms vs (permSetOf m v s).2).1, (permComps ms vs (permSetOf m v s).2).2)
  | _, vs, s => (vs, s)
termination_by structural ms => ms
def permAlt : List OTy → Nat → Val → PSt → Val × PSt
  | [], _, v, s => (v, s)
  | a :: _, 0, v, s => permSetOf a v s
  | _ :: as, i + 1, v, s => permAlt as i v s
termination_by structural ms => ms
end

end Asn1c.L2.OerVar
