import Asn1cModel.L2.Tlv
import Asn1cModel.Impl.Real
import Asn1cModel.Spec.Twos
/-
  L2 DER/BER codec over resolved types:
    encDER t v  = Tlv.enc (toTlv t v)         (X.690 §8 + §10/§11 canonical choices)
    decBER t bs = interp t (parseTlv bs)      (accepts every length form, any SET order)
-/
namespace Asn1c.L2
open Asn1c Asn1c.Impl.BerTlv

/-! ### contents octets of the primitive kinds -/

/-- minimal two's complement octets of an arbitrary integer (X.690 §8.3) -/
def natOctets (n : Nat) : Bytes :=
  match toBE n with
  | [] => [0]
  | b :: bs => if b ≥ 128 then 0 :: b :: bs else b :: bs

def intOctets (z : Int) : Bytes :=
  if z ≥ 0 then natOctets z.toNat else (natOctets (-z - 1).toNat).map (255 - ·)

def Tlv.tag : Tlv → Tag
  | .prim t _ _ => t
  | .cons t _ _ => t

/-- mask the unused bits of the last octet (C: `last & (0xff << unused)`) -/
def maskLast (bs : Bytes) (unused : Nat) : Bytes :=
  match bs.reverse with
  | [] => []
  | l :: r => (r.reverse) ++ [l / 2 ^ unused * 2 ^ unused % 256]

def primContent : Prim → Val → Option Bytes
  | .boolean, .bool b => some [if b then 255 else 0]
  | .null, .null => some []
  | .integer, .int z => some (intOctets z)
  | .enumerated, .int z => some (intOctets z)
  | .real, .real bits => some (Asn1c.Impl.Real.double2REAL bits)
  | .octets, .octets bs => some bs
  | .bits, .bits bs unused => if unused ≤ 7 ∧ (bs = [] → unused = 0) then some (unused :: maskLast bs unused) else none
  | _, _ => none

/-- explicit wrappers `ts` (outermost first) around `x` -/
def wrapAround : List Tag → Tlv → Tlv
  | [], x => x
  | t :: ts, x => .cons t (some 0) [wrapAround ts x]

/-- a node with tag chain `tags` (outermost first; the last tag carries the content) -/
def wrapTags (tags : List Tag) (mk : Tag → Tlv) : Option Tlv :=
  match tags.reverse with
  | [] => none
  | inner :: outerRev => some (wrapAround outerRev.reverse (mk inner))

/-- insertion sort used for the canonical orders of SET (by tag) and SET OF (by encoding) -/
def insertBy {α : Type} (le : α → α → Bool) (x : α) : List α → List α
  | [] => [x]
  | y :: ys => if le x y then x :: y :: ys else y :: insertBy le x ys
def sortBy {α : Type} (le : α → α → Bool) : List α → List α
  | [] => []
  | x :: xs => insertBy le x (sortBy le xs)

def tagLe (a b : Tag) : Bool := a.cls < b.cls || (a.cls == b.cls && a.num ≤ b.num)

/-- lexicographic order on octet strings, a proper prefix being smaller (C: `_el_buf_cmp`) -/
def bytesLe : Bytes → Bytes → Bool
  | [], _ => true
  | _ :: _, [] => false
  | a :: as, b :: bs => a < b || (a == b && bytesLe as bs)

mutual
/-- value → DER TLV tree -/
def toTlv : Ty → Val → Option Tlv
  | .prim tags p, v =>
    match primContent p v with
    | some c => wrapTags tags (fun t => .prim t 0 c)
    | none => none
  | .seq tags ms attrs _, .seq vs =>
    match toTlvs ms attrs vs with
    | some cs => wrapTags tags (fun t => .cons t (some 0) cs)
    | none => none
  | .set tags ms attrs _, .seq vs =>
    match toTlvs ms attrs vs with
    | some cs => wrapTags tags (fun t => .cons t (some 0) (sortBy (fun a b => tagLe a.tag b.tag) cs))
    | none => none
  | .choice tags alts _, .choice i v =>
    match toTlvAlt alts i v with
    | some x => some (wrapAround tags x)
    | none => none
  | .seqOf tags e, .list vs =>
    match toTlvList e vs with
    | some cs => wrapTags tags (fun t => .cons t (some 0) cs)
    | none => none
  | .setOf tags e, .list vs =>
    match toTlvList e vs with
    | some cs => wrapTags tags (fun t => .cons t (some 0) (sortBy (fun a b => bytesLe a.enc b.enc) cs))
    | none => none
  | _, _ => none
/-- components of SEQUENCE/SET: absent OPTIONAL and DEFAULT-valued components produce nothing -/
def toTlvs : List Ty → List Attr → List Val → Option (List Tlv)
  | [], [], [] => some []
  | m :: ms, a :: as, v :: vs =>
    match v with
    | .absent => if a.optional then toTlvs ms as vs else none
    | v =>
      if isDefault a v then toTlvs ms as vs
      else
        match toTlv m v, toTlvs ms as vs with
        | some x, some xs => some (x :: xs)
        | _, _ => none
  | _, _, _ => none
def toTlvAlt : List Ty → Nat → Val → Option Tlv
  | [], _, _ => none
  | a :: _, 0, v => toTlv a v
  | _ :: as, i + 1, v => toTlvAlt as i v
def toTlvList (e : Ty) : List Val → Option (List Tlv)
  | [] => some []
  | v :: vs =>
    match toTlv e v, toTlvList e vs with
    | some x, some xs => some (x :: xs)
    | _, _ => none
end

/-- DER encoding -/
def encDER (t : Ty) (v : Val) : Option Bytes := (toTlv t v).map Tlv.enc

/-! ### TLV tree → value -/

mutual
/-- the set of tags a value of the type can start with (X.680 §31.2.7 "outermost tags") -/
def outerTags : Ty → List Tag
  | .prim tags _ => tags.take 1
  | .seq tags _ _ _ => tags.take 1
  | .set tags _ _ _ => tags.take 1
  | .choice tags alts _ => if tags.isEmpty then outerTagsAlts alts else tags.take 1
  | .seqOf tags _ => tags.take 1
  | .setOf tags _ => tags.take 1
def outerTagsAlts : List Ty → List Tag
  | [] => []
  | a :: as => outerTags a ++ outerTagsAlts as
end

/-- strip the explicit wrappers `ts` (each a constructed node with exactly one child) -/
def unwrapAround : List Tag → Tlv → Option Tlv
  | [], x => some x
  | t :: ts, .cons t' _ [c] => if t' = t then unwrapAround ts c else none
  | _ :: _, _ => none

/-- locate the innermost node of a tag chain -/
def unwrapTags (tags : List Tag) (x : Tlv) : Option Tlv :=
  match tags.reverse with
  | [] => none
  | inner :: outerRev =>
    match unwrapAround outerRev.reverse x with
    | some y => if y.tag = inner then some y else none
    | none => none

-- concatenated contents of a primitive or (arbitrarily nested) constructed string (X.690 §8.7.3)
mutual
def stringContent : Tlv → Bytes
  | .prim _ _ c => c
  | .cons _ _ cs => stringContentList cs
def stringContentList : List Tlv → Bytes
  | [] => []
  | x :: xs => stringContent x ++ stringContentList xs
end

-- primitive segments (unused-bit count, data) of a possibly nested constructed BIT STRING (X.690 §8.6.4)
mutual
def bitLeaves : Tlv → Option (List (Nat × Bytes))
  | .prim _ _ (u :: bs) => some [(u, bs)]
  | .prim _ _ [] => none
  | .cons _ _ cs => bitLeavesList cs
def bitLeavesList : List Tlv → Option (List (Nat × Bytes))
  | [] => some []
  | x :: xs =>
    match bitLeaves x, bitLeavesList xs with
    | some a, some b => some (a ++ b)
    | _, _ => none
end

/-- only the last segment may have unused bits -/
def combineBits : List (Nat × Bytes) → Option (Bytes × Nat)
  | [] => some ([], 0)
  | [(u, bs)] => if u ≤ 7 ∧ (bs = [] → u = 0) then some (bs, u) else none
  | (0, bs) :: rest => (combineBits rest).map fun (r, u) => (bs ++ r, u)
  | _ => none

def bitSegments (cs : List Tlv) : Option (Bytes × Nat) := (bitLeavesList cs).bind combineBits

def decPrim (p : Prim) (x : Tlv) : Option Val :=
  match p, x with
  | .boolean, .prim _ _ [b] => some (.bool (b != 0))
  | .null, .prim _ _ [] => some .null
  | .integer, .prim _ _ (b :: bs) => some (.int (Asn1c.Spec.twosVal (b :: bs)))
  | .enumerated, .prim _ _ (b :: bs) => some (.int (Asn1c.Spec.twosVal (b :: bs)))
  | .real, .prim _ _ c =>
    match Asn1c.Impl.Real.REAL2double c with
    | .ok bits => some (.real bits)
    | _ => none
  | .octets, x => some (.octets (stringContent x))
  | .bits, .prim _ _ (u :: bs) => if u ≤ 7 ∧ (bs = [] → u = 0) then some (.bits (maskLast bs u) u) else none
  | .bits, .cons _ _ cs => (bitSegments cs).map fun (bs, u) => .bits (maskLast bs u) u
  | _, _ => none

mutual
def interp : Ty → Tlv → Option Val
  | .prim tags p, x =>
    match unwrapTags tags x with
    | some y => decPrim p y
    | none => none
  | .seq tags ms attrs ext, x =>
    match unwrapTags tags x with
    | some (.cons _ _ cs) => (interpSeq ms attrs ext cs).map .seq
    | _ => none
  | .set tags ms attrs ext, x =>
    match unwrapTags tags x with
    | some (.cons _ _ cs) => (interpSet ms attrs cs).map .seq
    | _ => none
  | .choice tags alts _, x =>
    match unwrapAround tags x with
    | some y => interpAlt alts 0 y
    | none => none
  | .seqOf tags e, x =>
    match unwrapTags tags x with
    | some (.cons _ _ cs) => (interpList e cs).map .list
    | _ => none
  | .setOf tags e, x =>
    match unwrapTags tags x with
    | some (.cons _ _ cs) => (interpList e cs).map .list
    | _ => none
/-- SEQUENCE components in order; a child that does not start the next component is matched
    against later components if the skipped ones are OPTIONAL/DEFAULT -/
def interpSeq : List Ty → List Attr → Bool → List Tlv → Option (List Val)
  | [], [], ext, cs => if cs.isEmpty || ext then some [] else none
  | m :: ms, a :: as, ext, [] => if a.optional then (interpSeq ms as ext []).map (.absent :: ·) else none
  | m :: ms, a :: as, ext, c :: cs =>
    if (outerTags m).contains c.tag then
      match interp m c, interpSeq ms as ext cs with
      | some v, some vs => some (v :: vs)
      | _, _ => none
    else if a.optional then (interpSeq ms as ext (c :: cs)).map (.absent :: ·)
    else none
  | _, _, _, _ => none
/-- SET components: each component takes the child carrying one of its outermost tags -/
def interpSet : List Ty → List Attr → List Tlv → Option (List Val)
  | [], [], _ => some []
  | m :: ms, a :: as, cs =>
    match cs.find? (fun c => (outerTags m).contains c.tag) with
    | some c =>
      match interp m c, interpSet ms as cs with
      | some v, some vs => some (v :: vs)
      | _, _ => none
    | none => if a.optional then (interpSet ms as cs).map (.absent :: ·) else none
  | _, _, _ => none
def interpAlt : List Ty → Nat → Tlv → Option Val
  | [], _, _ => none
  | a :: as, i, x =>
    if (outerTags a).contains x.tag then (interp a x).map (.choice i) else interpAlt as (i + 1) x
def interpList (e : Ty) : List Tlv → Option (List Val)
  | [] => some []
  | c :: cs =>
    match interp e c, interpList e cs with
    | some v, some vs => some (v :: vs)
    | _, _ => none
end

/-- BER decoding: result value and unconsumed rest -/
def decBER (fuel : Nat) (t : Ty) (bs : Bytes) : PRes Val :=
  match parseTlv fuel bs with
  | .ok x rest =>
    match interp t x with
    | some v => .ok v rest
    | none => .fail
  | .more => .more
  | .fail => .fail

end Asn1c.L2
