import Asn1cModel.L2.Resolve
import Asn1cModel.L2.Der
/-
  L2: the PER view of a type (`PTy`): what ITU-T X.691 needs to know about a type —
  PER-visible constraints (X.691 §10.3: value range of INTEGER, SIZE of strings and "OF" types, permitted
  alphabet of the known-multiplier character strings), the enumeration indexes of ENUMERATED (§14.1), the
  OPTIONAL/DEFAULT and extension structure of SEQUENCE (§19), the canonical order of the root alternatives of
  CHOICE (§23.2: by outermost tag, X.680 §8.6) — resolved from the generator's module s-expression (format:
  see `L2/Resolve.lean`; tags come from `L2.resolveComps`, i.e. X.680 §31 tagging incl. AUTOMATIC).
  References are inlined; recursive types and SET (no PER codec in asn1c, finding F32) resolve to `none`
  (`unsupported-type`).  Core Lean only.
-/
namespace Asn1c.L2
open Asn1c Asn1c.Impl.BerTlv

/-- PER-visible value constraint of INTEGER: `lb`/`ub` = `none` for MIN/MAX (or no constraint) -/
structure IntC where
  lb : Option Int
  ub : Option Int
  ext : Bool
deriving Repr, Inhabited, DecidableEq

/-- effective size constraint (units: bits / octets / characters / elements) -/
structure SizeC where
  lb : Nat
  ub : Option Nat
  ext : Bool
deriving Repr, Inhabited, DecidableEq

/-- an alphabet: ascending, disjoint, non-empty ranges of character values -/
abbrev Alpha := List (Nat × Nat)

inductive PTy where
  | boolean
  | null
  | integer (c : IntC)
  /-- `root`: the root enumeration values sorted ascending (index = position, X.691 §14.1);
      `ext`: `some additions` (in definition order) when the type has an extension marker -/
  | enumerated (root : List Int) (ext : Option (List Int))
  | real
  | bitstr (sz : SizeC)
  | octstr (sz : SizeC)
  /-- known-multiplier character string (X.691 §30.1–30.5): `cw` octets per character in the abstract value,
      `alpha` = effective permitted alphabet, `base` = alphabet of the unconstrained type -/
  | kmstr (cw : Nat) (alpha base : Alpha) (sz : SizeC)
  /-- types encoded as an unconstrained length + octets (X.691 §30.6 UTF8String, §24/§25 OID, RELATIVE-OID) -/
  | unkstr
  /-- `root`/`rattrs`: the components of the extension root with OPTIONAL/DEFAULT attributes;
      `adds`/`aattrs`: the extension additions (each an open type on the wire, X.691 §19.7–19.9) and their
      attributes (a DEFAULT value matters: CANONICAL-PER encodes a component holding it as absent) -/
  | seq (root : List PTy) (rattrs : List Attr) (extensible : Bool) (adds : List PTy) (aattrs : List Attr)
  /-- `order`: the declaration indexes of the root alternatives listed in canonical (tag) order, so the
      CHOICE index (X.691 §23.2) of declared alternative `i` is the position of `i` in `order` -/
  | choice (root : List PTy) (order : List Nat) (extensible : Bool) (adds : List PTy)
  | seqOf (sz : SizeC) (e : PTy)
  | setOf (sz : SizeC) (e : PTy)
deriving Repr, Inhabited

/-! ### constraints -/

def parseBound (s : String) : Option (Option Int) :=
  if s == "MIN" || s == "MAX" then some none else s.toInt?.map some

def parseIntC : Sexp → Option IntC
  | .atom "-" => some ⟨none, none, false⟩
  | .list [.atom lo, .atom hi, .atom e] =>
    match parseBound lo, parseBound hi with
    | some l, some h => some ⟨l, h, e == "1"⟩
    | _, _ => none
  | _ => none

def parseSizeC : Sexp → Option SizeC
  | .atom "-" => some ⟨0, none, false⟩
  | .list [.atom lo, .atom hi, .atom e] =>
    match parseBound lo, parseBound hi with
    | some l, some h => some ⟨(l.getD 0).toNat, h.map Int.toNat, e == "1"⟩
    | _, _ => none
  | _ => none

def parseInts : List Sexp → Option (List Int)
  | [] => some []
  | .atom s :: r =>
    match s.toInt?, parseInts r with
    | some z, some zs => some (z :: zs)
    | _, _ => none
  | _ => none

def intLe (a b : Int) : Bool := decide (a ≤ b)

/-! ### alphabets of the known-multiplier character string types (X.680 §41, X.691 §30.5.2) -/

/-- (octets per character in the value, characters of the unconstrained type) -/
def baseAlphabet (k : String) : Option (Nat × Alpha) :=
  if k == "IA5String" then some (1, [(0, 127)])
  else if k == "VisibleString" then some (1, [(32, 126)])
  else if k == "NumericString" then some (1, [(32, 32), (48, 57)])
  else if k == "PrintableString" then
    some (1, [(32, 32), (39, 41), (43, 58), (61, 61), (63, 63), (65, 90), (97, 122)])
  else if k == "BMPString" then some (2, [(0, 65535)])
  else if k == "UniversalString" then some (4, [(0, 4294967295)])
  else none

def natLe (a b : Nat) : Bool := decide (a ≤ b)

/-- a FROM constraint given as a list of character values → ascending singleton ranges -/
def alphaOfCodes (cs : List Int) : Alpha :=
  let sorted := sortBy natLe (cs.map Int.toNat)
  (sorted.eraseDups).map fun c => (c, c)

/-! ### canonical order of CHOICE alternatives (X.680 §8.6, X.691 §23.2) -/

/-- declaration indexes sorted by key (stable insertion sort on `tagLe`) -/
def canonicalOrder (keys : List Tag) : List Nat :=
  (sortBy (fun (a b : Tag × Nat) => tagLe a.1 b.1) (keys.zip (List.range keys.length))).map (·.2)

def minTag : List Tag → Option Tag
  | [] => none
  | t :: ts =>
    match minTag ts with
    | none => some t
    | some m => if tagLe t m then some t else some m

/-- follow untagged references to the CHOICE definition: (ext, alternatives) -/
partial def choiceDef (ctx : ModCtx) (seen : List String) : Sexp → Option (Sexp × List Sexp)
  | .list [.atom "CHOICE", _, ext, .list alts] => some (ext, alts)
  | .list [.atom "REF", _, .atom name] =>
    if seen.contains name then none
    else (ctx.env.lookup name).bind (choiceDef ctx (name :: seen))
  | _ => none

def extIndex (ext : Sexp) (n : Nat) : Nat :=
  match ext with
  | .atom s => s.toNat?.getD n
  | _ => n

def compType : Sexp → Option Sexp
  | .list (_ :: t :: _) => some t
  | _ => none

/-- the tag an alternative is ordered by: its outermost tag, or – for an untagged CHOICE – the smallest
    tag of the extension root of that CHOICE (recursively) -/
partial def orderKey (ctx : ModCtx) (depth : Nat) (altTy : Sexp) (resolved : Ty) : Option Tag :=
  match tyTags resolved with
  | t :: _ => some t
  | [] =>
    match depth with
    | 0 => none
    | depth + 1 =>
      match choiceDef ctx [] altTy with
      | none => none
      | some (ext, alts) =>
        match resolveComps ctx 64 ext alts with
        | none => none
        | some (tys, _) =>
          let n := extIndex ext alts.length
          let ks := ((alts.zip tys).take n).map fun (a, t) => (compType a).bind fun te => orderKey ctx depth te t
          if ks.all Option.isSome then minTag (ks.filterMap id) else none

/-! ### resolution -/

mutual
/-- `seen`: names of the references being expanded (recursion → `none`) -/
partial def resolvePTy (ctx : ModCtx) (seen : List String) (e : Sexp) : Option PTy :=
  match e with
  | .list [.atom "BOOLEAN", _] => some .boolean
  | .list [.atom "NULL", _] => some .null
  | .list [.atom "INTEGER", _, c] => (parseIntC c).map .integer
  | .list [.atom "ENUMERATED", _, .list root, ext] =>
    match parseInts root with
    | none => none
    | some rs =>
      let rs := sortBy intLe rs
      match ext with
      | .atom "-" => some (.enumerated rs none)
      | .list adds => (parseInts adds).map fun as => .enumerated rs (some as)
      | _ => none
  | .list [.atom "REAL", _] => some .real
  | .list [.atom "BITSTRING", _, s] => (parseSizeC s).map .bitstr
  | .list [.atom "OCTETSTRING", _, s] => (parseSizeC s).map .octstr
  | .list [.atom "STR", .atom k, _, s, al] =>
    if k == "UTF8String" then some .unkstr      -- SIZE / FROM are not PER-visible (X.691 §10.3.? / §30.6)
    else
      match baseAlphabet k, parseSizeC s with
      | some (cw, base), some sz =>
        match al with
        | .atom "-" => some (.kmstr cw base base sz)
        | .list cs => (parseInts cs).map fun codes => .kmstr cw (alphaOfCodes codes) base sz
        | _ => none
      | _, _ => none
  | .list [.atom "OID", _] => some .unkstr
  | .list [.atom "ROID", _] => some .unkstr
  -- X.680 §46/§47: GeneralizedTime / UTCTime are [UNIVERSAL 24/23] IMPLICIT VisibleString
  | .list [.atom "UTCTime", _] => some (.kmstr 1 [(32, 126)] [(32, 126)] ⟨0, none, false⟩)
  | .list [.atom "GeneralizedTime", _] => some (.kmstr 1 [(32, 126)] [(32, 126)] ⟨0, none, false⟩)
  | .list [.atom "SEQOF", _, s, el] =>
    match parseSizeC s, resolvePTy ctx seen el with
    | some sz, some e' => some (.seqOf sz e')
    | _, _ => none
  | .list [.atom "SETOF", _, s, el] =>
    match parseSizeC s, resolvePTy ctx seen el with
    | some sz, some e' => some (.setOf sz e')
    | _, _ => none
  | .list [.atom "SEQUENCE", _, ext, .list comps] =>
    let n := extIndex ext comps.length
    match resolvePComps ctx seen comps with
    | none => none
    | some cs =>
      let root := cs.take n
      some (.seq (root.map (·.1)) (root.map fun c => { c.2 with ext := false }) (ext != .atom "-") ((cs.drop n).map (·.1))
              ((cs.drop n).map (·.2)))
  | .list [.atom "CHOICE", _, ext, .list alts] =>
    let n := extIndex ext alts.length
    match resolvePComps ctx seen alts with
    | none => none
    | some cs =>
      match resolveComps ctx 64 ext alts with
      | none => none
      | some (tys, _) =>
        let ks := ((alts.zip tys).take n).map fun (a, t) => (compType a).bind fun te => orderKey ctx 16 te t
        if ks.all Option.isSome then
          some (.choice ((cs.take n).map (·.1)) (canonicalOrder (ks.filterMap id)) (ext != .atom "-") ((cs.drop n).map (·.1)))
        else none
  | .list [.atom "REF", _, .atom name] =>
    if seen.contains name then none
    else (ctx.env.lookup name).bind (resolvePTy ctx (name :: seen))
  | _ => none      -- SET (F32: no PER codec in asn1c) and anything unknown
partial def resolvePComps (ctx : ModCtx) (seen : List String) (comps : List Sexp) : Option (List (PTy × Attr)) :=
  match comps with
  | [] => some []
  | c :: rest =>
    match c with
    | .list (_ :: tE :: optE) =>
      match resolvePTy ctx seen tE, resolvePComps ctx seen rest with
      | some t, some ts =>
        let attr : Attr := match optE with
          | [.atom "o"] => ⟨true, none, false⟩
          | [.list [.atom "d", v]] => ⟨true, parseVal v, false⟩
          | _ => ⟨false, none, false⟩
        some ((t, attr) :: ts)
      | _, _ => none
    | _ => none
end

def resolveNamedP (ctx : ModCtx) (name : String) : Option PTy :=
  (ctx.env.lookup name).bind (resolvePTy ctx [name])

end Asn1c.L2
