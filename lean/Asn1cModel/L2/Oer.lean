import Asn1cModel.L2.OerTypes
import Asn1cModel.Spec.Oer
/-
  L2 reference codec for canonical OER, written from ITU-T X.696 (08/2015):
    encOER t v   : Option Bytes        (`none`: the value is not a value of the type)
    decOER t bs  : PRes Val            (value + unconsumed rest | more | fail)
  §8.6 length determinant (`Spec.Oer.length`), §8.7 tags, §9 BOOLEAN, §10 INTEGER, §11 ENUMERATED,
  §12 REAL, §13 BIT STRING, §14 OCTET STRING, §15 NULL, §16 SEQUENCE, §17 SEQUENCE OF, §19 SET OF,
  §20 CHOICE, §21/§22 OID, §27 restricted character strings, §29 time types, §30 open type.
  REAL contents are those of the C16 Impl model (`Impl.Real.double2REAL`), as in `L2/Der.lean`.
  Core Lean only.
-/
namespace Asn1c.L2.Oer
open Asn1c Asn1c.L2 Asn1c.Impl.BerTlv

/-! ### building blocks -/

/-- X.696 §8.6 length determinant (canonical form) -/
abbrev lenDet (n : Nat) : Bytes := Asn1c.Spec.Oer.length n

/-- X.696 §30: an open type = length determinant + the encoding -/
def openType (body : Bytes) : Bytes := lenDet body.length ++ body

/-- minimal unsigned big-endian octets, at least one (X.696 §10.4 a) -/
def unsOctets (n : Nat) : Bytes := if n = 0 then [0] else toBE n

/-- base-128 digits of `n`, most significant first, every octet with bit 8 set; `[]` for 0 -/
def b128hi (n : Nat) : Bytes :=
  if _h : n = 0 then [] else b128hi (n / 128) ++ [128 + n % 128]
termination_by n
decreasing_by omega

/-- X.696 §8.7: tag class in bits 8–7; number in bits 6–1 if < 63, otherwise 0x3F and the number in
    base 128, bit 8 set in every subsequent octet but the last, fewest octets -/
def tagOctets (t : Tag) : Bytes :=
  if t.num < 63 then [t.cls * 64 + t.num]
  else (t.cls * 64 + 63) :: (b128hi (t.num / 128) ++ [t.num % 128])

/-- X.696 §17.2 quantity field: an INTEGER (0..MAX), i.e. length determinant + minimal unsigned count -/
def quantity (n : Nat) : Bytes := lenDet (unsOctets n).length ++ unsOctets n

/-- X.696 §10 -/
def encInt : IntShape → Int → Option Bytes
  | .fixedU w, z => if 0 ≤ z ∧ z < 256 ^ w then some (toBEn w z.toNat) else none
  | .fixedS w, z =>
    if -(256 ^ w / 2 : Int) ≤ z ∧ z < (256 ^ w / 2 : Int) then some (toBEn w (z % (256 ^ w : Int)).toNat) else none
  | .varU, z => if 0 ≤ z then some (lenDet (unsOctets z.toNat).length ++ unsOctets z.toNat) else none
  | .varS, z => some (lenDet (intOctets z).length ++ intOctets z)

/-- X.696 §11: 0..127 in one octet; otherwise 0x80 | n followed by n octets of minimal two's complement -/
def encEnum (z : Int) : Option Bytes :=
  if 0 ≤ z ∧ z ≤ 127 then some [z.toNat]
  else if (intOctets z).length ≤ 127 then some ((128 + (intOctets z).length) :: intOctets z) else none

/-- number of unused bits in the last octet of an `n`-bit string -/
def padBits (n : Nat) : Nat := (8 - n % 8) % 8

/-- X.696 §16.4: the extension addition presence bitmap, encoded like a BIT STRING of varying size:
    length determinant, unused-bits octet, the bits -/
def bitmapField (bits : Bits) : Bytes :=
  lenDet (1 + (bitsToBytes bits).length) ++ [padBits bits.length] ++ bitsToBytes bits

/-- a component value that is encoded (present and, for DEFAULT, different from the default value) -/
def isPresent (a : Attr) (v : Val) : Bool :=
  match v with
  | .absent => false
  | v => !isDefault a v

def flatten : List Bytes → Bytes
  | [] => []
  | x :: xs => x ++ flatten xs

/-! ### encoder -/

/-- the encodings of the elements of a SEQUENCE OF / SET OF under the element encoder `f` -/
def mapEnc (f : Val → Option Bytes) : List Val → Option (List Bytes)
  | [] => some []
  | v :: vs =>
    match f v, mapEnc f vs with
    | some x, some xs => some (x :: xs)
    | _, _ => none

mutual
def encOER : OTy → Val → Option Bytes
  | .boolean, .bool b => some [if b then 255 else 0]                     -- §9
  | .null, .null => some []                                              -- §15
  | .integer sh, .int z => encInt sh z                                   -- §10
  | .enumerated, .int z => encEnum z                                     -- §11
  | .real, .real bits =>                                                 -- §12
    let c := Asn1c.Impl.Real.double2REAL bits
    some (lenDet c.length ++ c)
  | .octets none, .octets bs => some (lenDet bs.length ++ bs)            -- §14.2 / §27.4
  | .octets (some n), .octets bs => if bs.length = n then some bs else none   -- §14.1 / §27.1–27.3
  | .bits none, .bits bs u =>                                            -- §13.2
    if u ≤ 7 ∧ (bs = [] → u = 0) then some (lenDet (1 + bs.length) ++ [u] ++ maskLast bs u) else none
  | .bits (some n), .bits bs u =>                                        -- §13.1
    if u ≤ 7 ∧ bs.length = (n + 7) / 8 ∧ u = padBits n then some (maskLast bs u) else none
  | .seq root rattrs ext adds aattrs, .seq vs =>                         -- §16
    match encRoot root rattrs (vs.take root.length), encAdds adds aattrs (vs.drop root.length) with
    | some (rbits, rbody), some (abits, abody) =>
      let anyAdd := abits.any id
      if anyAdd && !ext then none
      else
        some (bitsToBytes ((if ext then [anyAdd] else []) ++ rbits) ++ rbody
              ++ (if anyAdd then bitmapField abits ++ abody else []))
    | _, _ => none
  | .choice tags alts nroot, .choice i v =>                              -- §20
    match tags[i]?, encAlt alts i v with
    | some t, some body => some (tagOctets t ++ (if i < nroot then body else openType body))
    | _, _ => none
  | .seqOf e, .list vs =>                                                -- §17
    match mapEnc (encOER e) vs with
    | some els => some (quantity vs.length ++ flatten els)
    | none => none
  | .setOf e, .list vs =>                                                -- §19: canonical order of X.690 §11.6
    match mapEnc (encOER e) vs with
    | some els => some (quantity vs.length ++ flatten (sortBy bytesLe els))
    | none => none
  | _, _ => none
termination_by structural t => t
/-- root components: presence bits of the OPTIONAL/DEFAULT ones (§16.2) and the concatenated encodings (§16.3) -/
def encRoot : List OTy → List Attr → List Val → Option (Bits × Bytes)
  | [], [], [] => some ([], [])
  | m :: ms, a :: as, v :: vs =>
    if isPresent a v then
      match encOER m v, encRoot ms as vs with
      | some x, some (bits, body) => some ((if a.optional then true :: bits else bits), x ++ body)
      | _, _ => none
    else if a.optional then
      match encRoot ms as vs with
      | some (bits, body) => some (false :: bits, body)
      | none => none
    else none
  | _, _, _ => none
termination_by structural ms => ms
/-- extension additions: one presence bit each (§16.4) and every present one as an open type (§16.5) -/
def encAdds : List OTy → List Attr → List Val → Option (Bits × Bytes)
  | [], [], [] => some ([], [])
  | m :: ms, a :: as, v :: vs =>
    if isPresent a v then
      match encOER m v, encAdds ms as vs with
      | some x, some (bits, body) => some (true :: bits, openType x ++ body)
      | _, _ => none
    else
      match encAdds ms as vs with
      | some (bits, body) => some (false :: bits, body)
      | none => none
  | _, _, _ => none
termination_by structural ms => ms
def encAlt : List OTy → Nat → Val → Option Bytes
  | [], _, _ => none
  | a :: _, 0, v => encOER a v
  | _ :: as, i + 1, v => encAlt as i v
termination_by structural ms => ms
end

/-- the encodings of the elements `vs` of a SEQUENCE OF / SET OF with element type `e` -/
abbrev encElems (e : OTy) (vs : List Val) : Option (List Bytes) := mapEnc (encOER e) vs

/-! ### decoder -/

/-- §8.6: a length determinant (short form, or long form with any number of octets) -/
def decLen : Bytes → PRes Nat
  | [] => .more
  | b :: rest =>
    if b < 128 then .ok b rest
    else
      let k := b - 128
      if k = 0 then .fail
      else if rest.length < k then .more
      else .ok (ofBE 0 (rest.take k)) (rest.drop k)

/-- `n` octets -/
def takeN (n : Nat) (bs : Bytes) : PRes Bytes :=
  if bs.length < n then .more else .ok (bs.take n) (bs.drop n)

/-- length determinant + that many octets -/
def decLenBody (bs : Bytes) : PRes Bytes :=
  match decLen bs with
  | .ok n rest => takeN n rest
  | .more => .more
  | .fail => .fail

/-- subsequent octets of a long tag: value so far, octets until one with bit 8 clear -/
def decTagLoop : Nat → Bytes → PRes Nat
  | _, [] => .more
  | acc, b :: rest => if b < 128 then .ok (acc * 128 + b) rest else decTagLoop (acc * 128 + (b - 128)) rest

/-- §8.7 -/
def decTag : Bytes → PRes Tag
  | [] => .more
  | b :: rest =>
    if b % 64 < 63 then .ok ⟨b / 64, b % 64⟩ rest
    else
      match decTagLoop 0 rest with
      | .ok n rest' => .ok ⟨b / 64, n⟩ rest'
      | .more => .more
      | .fail => .fail

def decInt : IntShape → Bytes → PRes Int
  | .fixedU w, bs =>
    match takeN w bs with
    | .ok c rest => .ok (Asn1c.Spec.unsVal c) rest
    | .more => .more | .fail => .fail
  | .fixedS w, bs =>
    match takeN w bs with
    | .ok c rest => .ok (Asn1c.Spec.twosVal c) rest
    | .more => .more | .fail => .fail
  | .varU, bs =>
    match decLenBody bs with
    | .ok c rest => if c = [] then .fail else .ok (Asn1c.Spec.unsVal c) rest
    | .more => .more | .fail => .fail
  | .varS, bs =>
    match decLenBody bs with
    | .ok c rest => if c = [] then .fail else .ok (Asn1c.Spec.twosVal c) rest
    | .more => .more | .fail => .fail

def decEnum : Bytes → PRes Int
  | [] => .more
  | b :: rest =>
    if b < 128 then .ok b rest
    else if b = 128 then .fail
    else
      match takeN (b - 128) rest with
      | .ok c rest' => .ok (Asn1c.Spec.twosVal c) rest'
      | .more => .more | .fail => .fail

/-- find the alternative carrying tag `t` -/
def findTag (t : Tag) : List Tag → Nat → Option Nat
  | [], _ => none
  | x :: xs, i => if x = t then some i else findTag t xs (i + 1)

/-- `n` elements with decoder `d` -/
def decRep (d : Bytes → PRes Val) : Nat → Bytes → PRes (List Val)
  | 0, bs => .ok [] bs
  | n + 1, bs =>
    match d bs with
    | .ok v rest =>
      match decRep d n rest with
      | .ok vs rest' => .ok (v :: vs) rest'
      | .more => .more | .fail => .fail
    | .more => .more | .fail => .fail

/-- an open type holding a value decoded by `d`: the contents must be consumed exactly -/
def decOpen (d : Bytes → PRes Val) (bs : Bytes) : PRes Val :=
  match decLenBody bs with
  | .ok c rest =>
    match d c with
    | .ok v [] => .ok v rest
    | _ => .fail
  | .more => .more | .fail => .fail

/-- skip the open types of unknown extension additions (one per set bit) -/
def skipOpen : Bits → Bytes → PRes Unit
  | [], bs => .ok () bs
  | false :: bits, bs => skipOpen bits bs
  | true :: bits, bs =>
    match decLenBody bs with
    | .ok _ rest => skipOpen bits rest
    | .more => .more | .fail => .fail

mutual
def decOER : OTy → Bytes → PRes Val
  | .boolean, bs =>
    match bs with
    | [] => .more
    | b :: rest => .ok (.bool (b != 0)) rest
  | .null, bs => .ok .null bs
  | .integer sh, bs =>
    match decInt sh bs with
    | .ok z rest => .ok (.int z) rest
    | .more => .more | .fail => .fail
  | .enumerated, bs =>
    match decEnum bs with
    | .ok z rest => .ok (.int z) rest
    | .more => .more | .fail => .fail
  | .real, bs =>
    match decLenBody bs with
    | .ok c rest =>
      match Asn1c.Impl.Real.REAL2double c with
      | .ok bits => .ok (.real bits) rest
      | _ => .fail
    | .more => .more | .fail => .fail
  | .octets none, bs =>
    match decLenBody bs with
    | .ok c rest => .ok (.octets c) rest
    | .more => .more | .fail => .fail
  | .octets (some n), bs =>
    match takeN n bs with
    | .ok c rest => .ok (.octets c) rest
    | .more => .more | .fail => .fail
  | .bits none, bs =>
    match decLenBody bs with
    | .ok (u :: c) rest => if u ≤ 7 ∧ (c = [] → u = 0) then .ok (.bits (maskLast c u) u) rest else .fail
    | .ok [] _ => .fail
    | .more => .more | .fail => .fail
  | .bits (some n), bs =>
    match takeN ((n + 7) / 8) bs with
    | .ok c rest => .ok (.bits (maskLast c (padBits n)) (padBits n)) rest
    | .more => .more | .fail => .fail
  | .seq root rattrs ext adds aattrs, bs =>
    let nopt := (rattrs.filter (·.optional)).length
    let nbits := (if ext then 1 else 0) + nopt
    match takeN ((nbits + 7) / 8) bs with
    | .ok pre rest =>
      let bits := bytesToBits pre
      let extPresent := ext && bits.headD false
      match decRoot root rattrs (bits.drop (if ext then 1 else 0)) rest with
      | .ok rvs rest1 =>
        if extPresent then
          match decLenBody rest1 with
          | .ok (u :: bm) rest2 =>
            if u ≤ 7 ∧ (bm = [] → u = 0) then
              let abits := (bytesToBits bm).take (bm.length * 8 - u)
              match decAdds adds aattrs abits rest2 with
              | .ok avs rest3 =>
                match skipOpen (abits.drop adds.length) rest3 with
                | .ok _ rest4 => .ok (.seq (rvs ++ avs)) rest4
                | .more => .more | .fail => .fail
              | .more => .more | .fail => .fail
            else .fail
          | .ok [] _ => .fail
          | .more => .more | .fail => .fail
        else .ok (.seq (rvs ++ adds.map fun _ => Val.absent)) rest1
      | .more => .more | .fail => .fail
    | .more => .more | .fail => .fail
  | .choice tags alts nroot, bs =>
    match decTag bs with
    | .ok t rest =>
      match findTag t tags 0 with
      | some i =>
        match decAlt alts i nroot rest with
        | .ok v rest' => .ok (.choice i v) rest'
        | .more => .more | .fail => .fail
      | none => .fail
    | .more => .more | .fail => .fail
  | .seqOf e, bs =>
    match decInt .varU bs with
    | .ok n rest =>
      match decRep (decOER e) n.toNat rest with
      | .ok vs rest' => .ok (.list vs) rest'
      | .more => .more | .fail => .fail
    | .more => .more | .fail => .fail
  | .setOf e, bs =>
    match decInt .varU bs with
    | .ok n rest =>
      match decRep (decOER e) n.toNat rest with
      | .ok vs rest' => .ok (.list vs) rest'
      | .more => .more | .fail => .fail
    | .more => .more | .fail => .fail
/-- root components: an OPTIONAL/DEFAULT one consumes a presence bit -/
def decRoot : List OTy → List Attr → Bits → Bytes → PRes (List Val)
  | [], _, _, bs => .ok [] bs
  | m :: ms, a :: as, bits, bs =>
    if a.optional then
      match bits with
      | [] => .fail
      | false :: bits' =>
        match decRoot ms as bits' bs with
        | .ok vs rest => .ok (.absent :: vs) rest
        | .more => .more | .fail => .fail
      | true :: bits' =>
        match decOER m bs with
        | .ok v rest =>
          match decRoot ms as bits' rest with
          | .ok vs rest' => .ok (v :: vs) rest'
          | .more => .more | .fail => .fail
        | .more => .more | .fail => .fail
    else
      match decOER m bs with
      | .ok v rest =>
        match decRoot ms as bits rest with
        | .ok vs rest' => .ok (v :: vs) rest'
        | .more => .more | .fail => .fail
      | .more => .more | .fail => .fail
  | _ :: _, [], _, _ => .fail
/-- extension additions: a bit per addition (missing bits = absent), present ones as open types -/
def decAdds : List OTy → List Attr → Bits → Bytes → PRes (List Val)
  | [], _, _, bs => .ok [] bs
  | m :: ms, a :: as, bits, bs =>
    match bits with
    | true :: bits' =>
      match decOpen (decOER m) bs with
      | .ok v rest =>
        match decAdds ms as bits' rest with
        | .ok vs rest' => .ok (v :: vs) rest'
        | .more => .more | .fail => .fail
      | .more => .more | .fail => .fail
    | _ =>
      match decAdds ms as (bits.drop 1) bs with
      | .ok vs rest => .ok (.absent :: vs) rest
      | .more => .more | .fail => .fail
  | _ :: _, [], _, _ => .fail
def decAlt : List OTy → Nat → Nat → Bytes → PRes Val
  | [], _, _, _ => .fail
  | a :: _, 0, nroot, bs => if 0 < nroot then decOER a bs else decOpen (decOER a) bs
  | _ :: as, i + 1, nroot, bs => decAlt as i (nroot - 1) bs
end

end Asn1c.L2.Oer
