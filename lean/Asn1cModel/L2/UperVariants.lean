import Asn1cModel.L2.Uper
import Asn1cModel.L2.OerVariants
/-
  L2 UPER variants (property C03): the valid UNALIGNED-PER encodings of a value that the library's own encoder
  never emits.  X.691 leaves the sender of BASIC-PER very few options:
    * §19.5 DEFAULT components: the encoding of a component whose value is its DEFAULT value "shall be absent" when
      the component is of a *simple* type (everything but SET / SEQUENCE / SET OF / SEQUENCE OF / CHOICE / …) and is a
      sender's option only for structured types.  asn1c implements DEFAULT for BOOLEAN / INTEGER / ENUMERATED only
      (`default_value_set`); a structured DEFAULT component is handled like an OPTIONAL one, so "explicitly encoded
      DEFAULT" either is not a valid encoding (simple types) or is the encoder's own form (structured types).
    * §22 SET OF order, §10.9 fragmentation, §10.6/§13/§14 forms are all fixed ("shall") in BASIC-PER as far as a
      decoder can tell apart; an in-root value of an extensible type must be encoded as in-root (§13.1, §16.6 …).
  What remains is *version skew* of extensible SEQUENCEs (X.680 §52, X.691 §19.7–§19.9): the addition presence
  bitmap has the length of the *sender's* list of additions:
    * `older` — shorter bitmap: the trailing additions the sender does not know are absent;
    * `newer` — longer bitmap: additions the receiver does not know are absent (zero bits) or present as open types
                (§11.2: unconstrained length + at least one octet) which the receiver must skip.
  `encUV t v s` applies the variation selected by `s` (see `L2.OerVar.VSt`) at the chosen extensible SEQUENCE(s).
  SET OF elements are emitted in the order of the value's list (BASIC-PER, §22: only CANONICAL-PER sorts them), so
  that a variation inside an element cannot reorder the list.
  Core Lean only.
-/
namespace Asn1c.L2.UperVar
open Asn1c Asn1c.L2 Asn1c.Spec.Per
open Asn1c.L2.OerVar (VSt Kind needLen shorten extraBits)

/-- `absent` -/
def isAbs : Val → Bool
  | .absent => true
  | _ => false

/-- the present unknown additions as open types; an open type holds at least one octet (§11.1 / §11.2) -/
def extraBodyU : List (Option Bytes) → Bits
  | [] => []
  | none :: r => extraBodyU r
  | some p :: r => encOctetsUnc (if p.isEmpty then [0] else p) ++ extraBodyU r

/-- the contents of the unknown additions are octets -/
def extraWf : List (Option Bytes) → Bool
  | [] => true
  | none :: r => extraWf r
  | some p :: r => p.all (· < 256) && extraWf r

/-- the presence bitmap as sent + the open types of the additions unknown to the receiver -/
def versionU (abits : Bits) (s : VSt) : Bits × Bits × VSt :=
  let k := needLen abits + s.param % (abits.length - needLen abits)
  let r := s.site .older (decide (0 < needLen abits ∧ needLen abits < abits.length))
  if r.1 then (shorten k abits, [], r.2)
  else
    let q := r.2.site .newer (!s.extra.isEmpty && extraWf s.extra && decide (abits.length + s.extra.length < 16384))
    if q.1 then (abits ++ extraBits s.extra, extraBodyU s.extra, q.2) else (abits, [], q.2)

def mapEncU (f : Val → VSt → Option (Bits × VSt)) : List Val → VSt → Option (List Bits × VSt)
  | [], s => some ([], s)
  | v :: vs, s =>
    match f v s with
    | none => none
    | some (x, s1) =>
      match mapEncU f vs s1 with
      | some (xs, s2) => some (x :: xs, s2)
      | none => none

mutual
def encUV : PTy → Val → VSt → Option (Bits × VSt)
  | .seq root rattrs extensible adds _, .seq vs, s =>
    match encRootU root rattrs vs s with
    | none => none
    | some (preamble, body, rest, s1) =>
      match encAddsU adds rest s1 with
      | none => none
      | some (bitmap, abody, s2) =>
        if extensible then
          let r := versionU bitmap s2
          if r.1.any id then
            some (true :: (preamble ++ body ++ normallySmallLength r.1.length ++ r.1 ++ abody ++ r.2.1), r.2.2)
          else some (false :: (preamble ++ body), r.2.2)
        else if adds.isEmpty then some (preamble ++ body, s2) else none
  | .choice root order extensible adds, .choice i v, s =>
    if i < root.length then
      match encAltU root i v s with
      | none => none
      | some (x, s1) =>
        if order.contains i then
          some ((if extensible then [false] else []) ++
                constrainedWholeNumber 0 ((root.length : Int) - 1) (order.idxOf i) ++ x, s1)
        else none
    else if extensible then
      match encAltU adds (i - root.length) v s with
      | none => none
      | some (x, s1) => some (true :: (normallySmall (i - root.length) ++ openType x), s1)
    else none
  | .seqOf sz e, .list vs, s =>
    match mapEncU (encUV e) vs s with
    | none => none
    | some (items, s1) => (encSized sz items).map fun x => (x, s1)
  | .setOf sz e, .list vs, s =>
    match mapEncU (encUV e) vs s with
    | none => none
    | some (items, s1) => (encSized sz items).map fun x => (x, s1)      -- BASIC-PER: in the order of the value's list
  | .boolean, .bool b, s => some ([b], s)                                                   -- as `encUPER`
  | .null, .null, s => some ([], s)
  | .integer c, .int z, s => (encInt c z).map fun x => (x, s)
  | .enumerated root ext, .int z, s => (encEnum root ext z).map fun x => (x, s)
  | .real, .real bits, s => some (encOctetsUnc (Asn1c.Impl.Real.double2REAL bits), s)
  | .bitstr sz, .bits bs unused, s => (encBitString sz bs unused).map fun x => (x, s)
  | .octstr sz, .octets os, s => (encSized sz (octetItems os)).map fun x => (x, s)
  | .kmstr cw alpha base sz, .octets os, s => (encKmString cw alpha base sz os).map fun x => (x, s)
  | .unkstr, .octets os, s => some (encOctetsUnc os, s)
  | _, _, _ => none
termination_by structural t => t
def encRootU : List PTy → List Attr → List Val → VSt → Option (Bits × Bits × List Val × VSt)
  | [], _, vs, s => some ([], [], vs, s)
  | m :: ms, a :: as, v :: vs, s =>
    if isAbs v then
      if a.optional then
        match encRootU ms as vs s with
        | some (p, b, r, s1) => some (false :: p, b, r, s1)
        | none => none
      else none
    else if isDefault a v then
      match encRootU ms as vs s with
      | some (p, b, r, s1) => some (false :: p, b, r, s1)
      | none => none
    else
      match encUV m v s with
      | none => none
      | some (x, s1) =>
        match encRootU ms as vs s1 with
        | some (p, b, r, s2) => some (if a.optional then true :: p else p, x ++ b, r, s2)
        | none => none
  | _, _, _, _ => none
termination_by structural ms => ms
def encAddsU : List PTy → List Val → VSt → Option (List Bool × Bits × VSt)
  | [], [], s => some ([], [], s)
  | m :: ms, v :: vs, s =>
    if isAbs v then
      match encAddsU ms vs s with
      | some (bm, b, s1) => some (false :: bm, b, s1)
      | none => none
    else
      match encUV m v s with
      | none => none
      | some (x, s1) =>
        match encAddsU ms vs s1 with
        | some (bm, b, s2) => some (true :: bm, openType x ++ b, s2)
        | none => none
  | _, _, _ => none
termination_by structural ms => ms
def encAltU : List PTy → Nat → Val → VSt → Option (Bits × VSt)
  | [], _, _, _ => none
  | a :: _, 0, v, s => encUV a v s
  | _ :: as, i + 1, v, s => encAltU as i v s
termination_by structural ms => ms
end

end Asn1c.L2.UperVar
