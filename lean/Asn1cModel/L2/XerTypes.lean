import Asn1cModel.L2.Resolve
import Asn1cModel.L2.Der
import Asn1cModel.L2.PerTypes
/-
  L2 XER: the XER view `XTy` of a type of the generator's module s-expression.

  XER (X.693) is the only transfer syntax that shows *identifiers*: the tag of an element is the
  identifier of the component / alternative, the type name at the top level and for the elements of
  SEQUENCE OF / SET OF, and the value of an ENUMERATED is the identifier of the item.  `L2.Ty` (tag
  resolution) carries no names, hence this parallel structure with its own resolver.

  Module s-expression: the format of `L2/Resolve.lean` with ONE extension, produced by
  `vlib/c01_xer.py: xer_module_sexp`: the items of an ENUMERATED carry their identifiers,
      (ENUMERATED tag ((name value)...) -)   |   (ENUMERATED tag ((name value)...) ((name value)...))
  `stripNames` maps the extended format back to the format of `L2.Resolve`, which is used for the one place
  where tags matter in XER: the order in which asn1c writes the components of a SET (`tag2el_cxer`:
  canonical tag order of the extension root, X.693 §9.1 / X.680 §8.6).

  What is kept per type is exactly what skeletons/*_encode_xer / *_decode_xer and the tables emitted by
  libasn1compiler/asn1c_C.c look at:
  * INTEGER: the C representation (`long` / `unsigned long` / `INTEGER_t`, asn1c_type_fits_long) - it
    selects the printf format and the range accepted by the decoder;
  * ENUMERATED: identifiers and values (`asn_INTEGER_enum_map_t`);
  * SEQUENCE / SET: identifiers, OPTIONAL / DEFAULT / extension attributes, `first_extension`,
    SET: `tag2el_cxer` order and `extensible`;
  * CHOICE: identifiers, `ext_start != -1`;
  * SEQUENCE OF / SET OF: `as_XMLValueList` (0: elements wrapped in a tag, 1: BOOLEAN / ENUMERATED / NULL
    value list, 2: CHOICE elements, no wrapper) and the element tag.
  REAL (finding F40: text not exact), open types and ANY are not modelled (`none` = "unsupported-type").
  Core Lean only.
-/
namespace Asn1c.L2.Xer
open Asn1c Asn1c.L2 Asn1c.Impl.BerTlv

/-- how asn1c stores an INTEGER (`asn1c_type_fits_long`): native `long`, native `unsigned long`, `INTEGER_t` -/
inductive IntRepr where
  | long | ulong | wide
deriving DecidableEq, Repr, Inhabited

inductive XTy where
  | boolean
  | null
  | integer (r : IntRepr)
  /-- identifiers and values of all items (root and additions), in declaration order -/
  | enumerated (names : List Bytes) (vals : List Int)
  /-- OCTET STRING: hexadecimal -/
  | hexstr
  /-- BIT STRING: binary digits -/
  | bitstr
  /-- UTF8String, IA5String, VisibleString, PrintableString, NumericString: `OCTET_STRING_encode_xer_utf8` -/
  | utf8str
  /-- GeneralizedTime (`utc = false`) / UTCTime: text; CANONICAL-XER first validates the time -/
  | timestr (utc : Bool)
  | bmpstr
  | unistr
  | oid
  | roid
  /-- `firstExt` = `first_extension` of asn_SEQUENCE_specifics_t (`none` = -1) -/
  | seq (names : List Bytes) (ms : List XTy) (attrs : List Attr) (firstExt : Option Nat)
  /-- `order` = `tag2el_cxer[].el_no` -/
  | set (names : List Bytes) (ms : List XTy) (attrs : List Attr) (order : List Nat) (extensible : Bool)
  | choice (names : List Bytes) (alts : List XTy) (extensible : Bool)
  /-- `mode` = `as_XMLValueList`; `ename`: the tag the elements are wrapped in (mode 0), the xml tag of the
      element type (mode 1: written as `<ename/>` for an element with an empty encoding), `[]` (mode 2) -/
  | seqOf (mode : Nat) (ename : Bytes) (e : XTy)
  | setOf (mode : Nat) (ename : Bytes) (e : XTy)
deriving Repr, Inhabited

/-- a type together with `td->xml_tag` -/
structure XTop where
  name : Bytes
  ty : XTy
deriving Repr, Inhabited

def strBytes (s : String) : Bytes := s.toUTF8.toList.map (·.toNat)

/-! ### back to the format of `L2.Resolve` -/

partial def stripNames : Sexp → Sexp
  | .list [.atom "ENUMERATED", tg, .list items, ext] =>
    let vals (xs : List Sexp) : List Sexp := xs.map fun
      | .list [_, v] => v
      | x => x
    .list [.atom "ENUMERATED", tg, .list (vals items),
           match ext with
           | .list adds => .list (vals adds)
           | x => x]
  | .list xs => .list (xs.map stripNames)
  | x => x

def stdCtx (ctx : ModCtx) : ModCtx := { ctx with env := ctx.env.map fun (n, t) => (n, stripNames t) }

/-! ### C representation of INTEGER (asn1c_type_fits_long, with its 32-bit assumptions) -/

def intRepr : Sexp → Option IntRepr
  | .atom "-" => some .long
  | .list [.atom lo, .atom hi, _] =>
    let l? : Option (Option Int) := if lo == "MIN" then some none else lo.toInt?.map some
    let h? : Option (Option Int) := if hi == "MAX" then some none else hi.toInt?.map some
    match l?, h? with
    | some (some l), some none => some (if 0 ≤ l then .ulong else .wide)
    | some (some l), some (some h) =>
      some (if -(2 ^ 31) ≤ l ∧ h ≤ 2 ^ 31 - 1 then .long else if 0 ≤ l ∧ h ≤ 2 ^ 32 - 1 then .ulong else .wide)
    | some none, some _ => some .wide
    | _, _ => none
  | _ => none

/-- `tag2el_cxer[].el_no` of a SET whose first `n` of `total` components form the extension root (X.693 §9.3): the
    root in canonical tag order (X.680 §8.6; an untagged CHOICE counts with its smallest tag), then the extension
    additions in textual order (`_fill_tag2el_map(FTE_CANONICAL_XER)`: "CXER mandates sorting only for the root part") -/
def setCxerOrder (keys : List Tag) (n total : Nat) : List Nat :=
  L2.canonicalOrder (keys.take n) ++ (List.range (total - n)).map (· + n)

/-- identifiers / values of `((name value)...)` -/
def enumItems : List Sexp → Option (List (Bytes × Int))
  | [] => some []
  | .list [.atom n, .atom v] :: r =>
    match v.toInt?, enumItems r with
    | some z, some xs => some ((strBytes n, z) :: xs)
    | _, _ => none
  | _ => none

/-- follow references to the defining type expression -/
partial def terminal (ctx : ModCtx) (seen : List String) : Sexp → Option Sexp
  | .list [.atom "REF", _, .atom name] =>
    if seen.contains name then none else (ctx.env.lookup name).bind (terminal ctx (name :: seen))
  | e => some e

/-- `td->xml_tag` of the descriptor a member / element of this type expression points to -/
def xmlTagOf : Sexp → Option Bytes
  | .list [.atom "REF", _, .atom name] => some (strBytes name)
  | .list (.atom "STR" :: .atom k :: _) => some (strBytes k)
  | .list (.atom k :: _) =>
    some (strBytes (if k == "BITSTRING" then "BIT_STRING" else if k == "OCTETSTRING" then "OCTET_STRING"
      else if k == "OID" then "OBJECT_IDENTIFIER" else if k == "ROID" then "RELATIVE_OID"
      else if k == "SEQOF" then "SEQUENCE_OF" else if k == "SETOF" then "SET_OF" else k))
  | _ => none

/-- `expr_as_xmlvaluelist` (X.680 §25.5 table 5): 1 for BOOLEAN / ENUMERATED / NULL, 2 for CHOICE -/
def valueListMode (ctx : ModCtx) (el : Sexp) : Nat :=
  match terminal ctx [] el with
  | some (.list (.atom k :: _)) =>
    if k == "BOOLEAN" || k == "ENUMERATED" || k == "NULL" then 1 else if k == "CHOICE" then 2 else 0
  | _ => 0

def compName : Sexp → Option Bytes
  | .list (.atom n :: _) => some (strBytes n)
  | _ => none

mutual
partial def resolveXTy (ctx : ModCtx) (seen : List String) (e : Sexp) : Option XTy :=
  match e with
  | .list [.atom "BOOLEAN", _] => some .boolean
  | .list [.atom "NULL", _] => some .null
  | .list [.atom "INTEGER", _, c] => (intRepr c).map .integer
  | .list [.atom "ENUMERATED", _, .list root, ext] =>
    match enumItems root, (match ext with | .list adds => enumItems adds | _ => some []) with
    | some rs, some as => some (.enumerated ((rs ++ as).map (·.1)) ((rs ++ as).map (·.2)))
    | _, _ => none
  | .list [.atom "BITSTRING", _, _] => some .bitstr
  | .list [.atom "OCTETSTRING", _, _] => some .hexstr
  | .list [.atom "STR", .atom k, _, _, _] =>
    if k == "BMPString" then some .bmpstr else if k == "UniversalString" then some .unistr
    else (L2.strUniv k).map fun _ => .utf8str
  | .list [.atom "OID", _] => some .oid
  | .list [.atom "ROID", _] => some .roid
  | .list [.atom "UTCTime", _] => some (.timestr true)
  | .list [.atom "GeneralizedTime", _] => some (.timestr false)
  | .list [.atom "SEQOF", _, _, el] =>
    let mode := valueListMode ctx el
    match resolveXTy ctx seen el, xmlTagOf el with
    | some e', some tg => some (.seqOf mode (if mode == 2 then [] else tg) e')
    | _, _ => none
  | .list [.atom "SETOF", _, _, el] =>
    let mode := valueListMode ctx el
    match resolveXTy ctx seen el, xmlTagOf el with
    | some e', some tg => some (.setOf mode (if mode == 2 then [] else tg) e')
    | _, _ => none
  | .list [.atom "SEQUENCE", _, ext, .list comps] =>
    match resolveXComps ctx seen comps, comps.mapM compName, L2.resolveComps (stdCtx ctx) 64 ext (comps.map stripNames) with
    | some ms, some ns, some (_, attrs) =>
      let fe : Option Nat := if comps.isEmpty then none else
        match ext with
        | .atom s => s.toNat?
        | _ => none
      some (.seq ns ms attrs fe)
    | _, _, _ => none
  | .list [.atom "SET", _, ext, .list comps] =>
    let sctx := stdCtx ctx
    let scomps := comps.map stripNames
    match resolveXComps ctx seen comps, comps.mapM compName, L2.resolveComps sctx 64 ext scomps with
    | some ms, some ns, some (tys, attrs) =>
      let n := L2.extIndex ext comps.length
      let ks := (scomps.zip tys).map fun (a, t) => (L2.compType a).bind fun te => L2.orderKey sctx 16 te t
      if ks.all Option.isSome then
        let keys := ks.filterMap id
        -- tag2el_cxer (X.693 §9.3 / X.680 §8.6): the extension root sorted by (smallest) tag, then the extension
        -- additions in textual order.  asn1c_lang_C_type_SET_def drops that table only when it is the same as the
        -- table of ALL tags in canonical order (finding F65 repaired: the comparison covers every entry; it was
        -- `memcmp(tag2el, tag2el_cxer, tag2el_count)`, a BYTE count), so SET_encode_xer always walks this order.
        some (.set ns ms attrs (setCxerOrder keys n comps.length) (ext != .atom "-"))
      else none
    | _, _, _ => none
  | .list [.atom "CHOICE", _, ext, .list alts] =>
    match resolveXComps ctx seen alts, alts.mapM compName with
    | some ms, some ns => some (.choice ns ms (ext != .atom "-"))
    | _, _ => none
  | .list [.atom "REF", _, .atom name] =>
    if seen.contains name then none
    else (ctx.env.lookup name).bind (resolveXTy ctx (name :: seen))
  | _ => none      -- REAL and anything unknown
partial def resolveXComps (ctx : ModCtx) (seen : List String) (comps : List Sexp) : Option (List XTy) :=
  comps.mapM fun
    | .list (_ :: tE :: _) => resolveXTy ctx seen tE
    | _ => none
end

def resolveXNamed (ctx : ModCtx) (name : String) : Option XTop :=
  ((ctx.env.lookup name).bind (resolveXTy ctx [name])).map fun t => ⟨strBytes name, t⟩

end Asn1c.L2.Xer
