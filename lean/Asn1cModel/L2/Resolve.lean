import Asn1cModel.Sexp
import Asn1cModel.L2.Types
/-
  Resolution of the generator's module s-expression into `Ty`:
  X.680 §31.2.7 (IMPLICIT/EXPLICIT), §25.8/§29.x (AUTOMATIC tagging), universal tag numbers (§8.6 table),
  references inlined (fuel-bounded; recursive types resolve to `none`).
  Format (rendered by vlib/genmod.py: `module_sexp`):
    (module <none|EXPLICIT|IMPLICIT|AUTOMATIC> (Name ty)...)
    ty := (BOOLEAN tag) | (NULL tag) | (INTEGER tag cons) | (ENUMERATED tag (root...) ext) | (REAL tag)
        | (BITSTRING tag size) | (OCTETSTRING tag size) | (STR <kind> tag size alpha) | (OID tag) | (ROID tag)
        | (UTCTime tag) | (GeneralizedTime tag)
        | (SEQUENCE tag ext (comp...)) | (SET tag ext (comp...)) | (CHOICE tag ext (alt...))
        | (SEQOF tag size ty) | (SETOF tag size ty) | (REF tag name)
    tag := - | (<univ|app|ctx|priv> <num> <d|i|e>)       comp := (id ty <m|o|(d val)>)     alt := (id ty)
    ext := - | <index of the first extension addition>
-/
namespace Asn1c.L2
open Asn1c Asn1c.Impl.BerTlv

structure TagSpec where
  tag : Tag
  mode : Nat      -- 0 = default, 1 = IMPLICIT, 2 = EXPLICIT
deriving Repr

def parseTagSpec : Sexp → Option (Option TagSpec)
  | .atom "-" => some none
  | .list [.atom c, .atom n, .atom m] =>
    let cls? := if c == "univ" then some 0 else if c == "app" then some 1 else if c == "ctx" then some 2
                else if c == "priv" then some 3 else none
    let mode? := if m == "d" then some 0 else if m == "i" then some 1 else if m == "e" then some 2 else none
    match cls?, n.toNat?, mode? with
    | some cls, some num, some mode => some (some ⟨⟨cls, num⟩, mode⟩)
    | _, _, _ => none
  | _ => none

def univ (n : Nat) : Tag := ⟨0, n⟩

def strUniv (k : String) : Option Nat :=
  if k == "UTF8String" then some 12 else if k == "NumericString" then some 18
  else if k == "PrintableString" then some 19 else if k == "IA5String" then some 22
  else if k == "VisibleString" then some 26 else if k == "UniversalString" then some 28
  else if k == "BMPString" then some 30 else none

/-- positional value syntax: (bool t|f) (null) (int z) (real <hex16>) (os <hex>) (bs <hex> <unused>)
    (seq v|- ...) (choice <idx> v) (list v...) -/
partial def parseVal : Sexp → Option Val
  | .atom "-" => some .absent
  | .list [.atom "bool", .atom b] => some (.bool (b == "t"))
  | .list [.atom "null"] => some .null
  | .list [.atom "int", .atom z] => z.toInt?.map .int
  | .list [.atom "enum", .atom z] => z.toInt?.map .int
  | .list [.atom "real", .atom h] => (parseHex h).map fun bs => .real (ofBE 0 bs)
  | .list [.atom "os", .atom h] => (parseHex h).map .octets
  | .list [.atom "bs", .atom h, .atom u] =>
    match parseHex h, u.toNat? with
    | some bs, some n => some (.bits bs n)
    | _, _ => none
  | .list (.atom "seq" :: vs) => (vs.mapM parseVal).map .seq
  | .list (.atom "list" :: vs) => (vs.mapM parseVal).map .list
  | .list [.atom "choice", .atom i, v] =>
    match i.toNat?, parseVal v with
    | some n, some x => some (.choice n x)
    | _, _ => none
  | _ => none

partial def showVal : Val → String
  | .absent => "-"
  | .bool b => if b then "(bool t)" else "(bool f)"
  | .null => "(null)"
  | .int z => s!"(int {z})"
  | .real bits => "(real " ++ String.join ((toBEn 8 bits).map hexByte) ++ ")"
  | .octets bs => "(os " ++ toHex bs ++ ")"
  | .bits bs u => "(bs " ++ toHex bs ++ s!" {u})"
  | .seq vs => "(seq" ++ String.join (vs.map fun v => " " ++ showVal v) ++ ")"
  | .list vs => "(list" ++ String.join (vs.map fun v => " " ++ showVal v) ++ ")"
  | .choice i v => s!"(choice {i} " ++ showVal v ++ ")"

structure ModCtx where
  tagDefault : String
  env : List (String × Sexp)

def parseModule : Sexp → Option ModCtx
  | .list (.atom "module" :: .atom td :: defs) =>
    let env := defs.filterMap fun
      | .list [.atom n, t] => some (n, t)
      | _ => none
    some ⟨td, env⟩
  | _ => none

/-- apply a written tag to the tag list of the base type (X.680 §31.2.7) -/
def applyTag (td : String) (ts : Option TagSpec) (base : List Tag) (isChoice : Bool) : List Tag :=
  match ts with
  | none => base
  | some s =>
    let explicit := s.mode == 2 || (s.mode == 0 && (td == "none" || td == "EXPLICIT")) || isChoice || base.isEmpty
    if explicit then s.tag :: base else s.tag :: base.drop 1

def retag (t : Ty) (f : List Tag → List Tag) : Ty :=
  match t with
  | .prim tags p => .prim (f tags) p
  | .seq tags ms as e => .seq (f tags) ms as e
  | .set tags ms as e => .set (f tags) ms as e
  | .choice tags alts e => .choice (f tags) alts e
  | .seqOf tags e => .seqOf (f tags) e
  | .setOf tags e => .setOf (f tags) e

def tyTags : Ty → List Tag
  | .prim tags _ => tags | .seq tags _ _ _ => tags | .set tags _ _ _ => tags
  | .choice tags _ _ => tags | .seqOf tags _ => tags | .setOf tags _ => tags

def isUntaggedChoice : Ty → Bool
  | .choice tags _ _ => tags.isEmpty
  | _ => false

def hasWrittenTag : Sexp → Bool
  | .list (_ :: .list _ :: _) => true      -- second element is a tag spec list
  | .list (.atom "STR" :: _ :: .list _ :: _) => true
  | _ => false

mutual
/-- resolve a type expression; `fuel` bounds reference inlining -/
partial def resolveTy (ctx : ModCtx) (fuel : Nat) (e : Sexp) : Option Ty :=
  match fuel with
  | 0 => none
  | fuel + 1 =>
  let mk (tagS : Sexp) (base : List Tag → Ty) (baseTags : List Tag) : Option Ty :=
    (parseTagSpec tagS).map fun ts => base (applyTag ctx.tagDefault ts baseTags false)
  match e with
  | .list [.atom "BOOLEAN", tg] => mk tg (.prim · .boolean) [univ 1]
  | .list [.atom "NULL", tg] => mk tg (.prim · .null) [univ 5]
  | .list [.atom "INTEGER", tg, _] => mk tg (.prim · .integer) [univ 2]
  | .list [.atom "ENUMERATED", tg, _, _] => mk tg (.prim · .enumerated) [univ 10]
  | .list [.atom "REAL", tg] => mk tg (.prim · .real) [univ 9]
  | .list [.atom "BITSTRING", tg, _] => mk tg (.prim · .bits) [univ 3]
  | .list [.atom "OCTETSTRING", tg, _] => mk tg (.prim · .octets) [univ 4]
  | .list [.atom "STR", .atom k, tg, _, _] => (strUniv k).bind fun u => mk tg (.prim · .octets) [univ u]
  | .list [.atom "OID", tg] => mk tg (.prim · .octets) [univ 6]
  | .list [.atom "ROID", tg] => mk tg (.prim · .octets) [univ 13]
  | .list [.atom "UTCTime", tg] => mk tg (.prim · .octets) [univ 23]
  | .list [.atom "GeneralizedTime", tg] => mk tg (.prim · .octets) [univ 24]
  | .list [.atom "SEQOF", tg, _, el] =>
    (resolveTy ctx fuel el).bind fun e' => mk tg (.seqOf · e') [univ 16]
  | .list [.atom "SETOF", tg, _, el] =>
    (resolveTy ctx fuel el).bind fun e' => mk tg (.setOf · e') [univ 17]
  | .list [.atom "SEQUENCE", tg, ext, .list comps] =>
    (resolveComps ctx fuel ext comps).bind fun (ms, as) => mk tg (.seq · ms as (ext != .atom "-")) [univ 16]
  | .list [.atom "SET", tg, ext, .list comps] =>
    (resolveComps ctx fuel ext comps).bind fun (ms, as) => mk tg (.set · ms as (ext != .atom "-")) [univ 17]
  | .list [.atom "CHOICE", tg, ext, .list alts] =>
    (resolveComps ctx fuel ext alts).bind fun (ms, _) =>
      (parseTagSpec tg).map fun ts => .choice (applyTag ctx.tagDefault ts [] true) ms (ext != .atom "-")
  | .list [.atom "REF", tg, .atom name] =>
    match ctx.env.lookup name with
    | none => none
    | some def_ =>
      (resolveTy ctx fuel def_).bind fun t =>
        (parseTagSpec tg).map fun ts => retag t (fun base => applyTag ctx.tagDefault ts base (isUntaggedChoice t))
  | _ => none
/-- components (or alternatives) with automatic tagging when applicable -/
partial def resolveComps (ctx : ModCtx) (fuel : Nat) (ext : Sexp) (comps : List Sexp) : Option (List Ty × List Attr) :=
  let extAt : Nat := match ext with | .atom s => s.toNat?.getD comps.length | _ => comps.length
  let tyOf : Sexp → Option Sexp := fun
    | .list (_ :: t :: _) => some t
    | _ => none
  let auto := ctx.tagDefault == "AUTOMATIC" && comps.all fun c => match tyOf c with | some t => !hasWrittenTag t | none => true
  let rec go (i : Nat) (cs : List Sexp) : Option (List Ty × List Attr) :=
    match cs with
    | [] => some ([], [])
    | c :: rest =>
      match c with
      | .list (_ :: tE :: optE) =>
        match resolveTy ctx fuel tE, go (i + 1) rest with
        | some t, some (ts, as) =>
          let t' := if auto then
              (if isUntaggedChoice t then retag t (fun base => ⟨2, i⟩ :: base)
               else retag t (fun base => ⟨2, i⟩ :: base.drop 1))
            else t
          let attr : Attr := match optE with
            | [.atom "o"] => ⟨true, none, i ≥ extAt⟩
            | [.list [.atom "d", v]] => ⟨true, parseVal v, i ≥ extAt⟩
            | _ => ⟨false, none, i ≥ extAt⟩
          some (t' :: ts, attr :: as)
        | _, _ => none
      | _ => none
  go 0 comps
end

def resolveNamed (ctx : ModCtx) (name : String) : Option Ty :=
  (ctx.env.lookup name).bind (resolveTy ctx 64)

end Asn1c.L2
