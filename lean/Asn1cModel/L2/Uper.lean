import Asn1cModel.L2.PerTypes
import Asn1cModel.Spec.Per
import Asn1cModel.Spec.Twos
import Asn1cModel.Impl.Real
import Asn1cModel.Impl.PerSupport
/-
  L2: reference UNALIGNED PER codec (CANONICAL-PER where X.691 distinguishes), written from ITU-T X.691
  (clause numbers of the 2008/2015 edition; the 2002 edition numbers §30 as §27):
    encUPER t v      : the field-list of the value as one bit string
    encUPERbytes     : the complete encoding (§11.1: zero-padded to octets, at least one octet)
    decUPER t bits   : value + remaining bits
  Building blocks: `Spec.Per` (§10.5–§10.9).  The decoder reads unconstrained lengths (with 16K
  fragmentation) through `Impl.PerSupport.getLoop`, which `Props.L1Per.lengthLoop_roundtrip` /
  `putLength_eq_spec` prove to invert `Spec.Per.lengthPrefixed`.
  REAL contents octets (§15: X.690 §8.5 restricted as in §11.3) are `Impl.Real.double2REAL` as in `L2/Der.lean`.
  Core Lean only.
-/
namespace Asn1c.L2
open Asn1c Asn1c.Spec.Per

/-! ## bit readers -/

/-- non-negative-binary-integer in exactly `n` bits (§10.3) -/
def rdBits (n : Nat) (bs : Bits) : Option (Nat × Bits) :=
  if (bs.take n).length < n then none else some (bitsVal 0 (bs.take n), bs.drop n)

def rdBit : Bits → Option (Bool × Bits)
  | [] => none
  | b :: r => some (b, r)

/-- `n` single bits -/
def rdBools (n : Nat) (bs : Bits) : Option (List Bool × Bits) :=
  if (bs.take n).length < n then none else some (bs.take n, bs.drop n)

/-- read `k` items -/
abbrev rdItems {α : Type} := @Asn1c.Impl.PerSupport.getItems α
/-- unconstrained length determinant(s) + items, §10.9.3.5–10.9.3.8 -/
abbrev rdLengthPrefixed {α : Type} := @Asn1c.Impl.PerSupport.getLoop α

/-! ## §10.9 / §16.5–16.11 / §17.5–17.8 / §20.5–20.6 / §30.5.7: items preceded by their count -/

def sizeInRoot (sz : SizeC) (n : Nat) : Bool :=
  decide (sz.lb ≤ n) && (match sz.ub with | some u => decide (n ≤ u) | none => true)

/-- count within the effective size constraint `lb..ub`: §10.9.4.1 constrained whole number when `ub < 64K`
    (no bits at all for a fixed size), otherwise the unconstrained form §10.9.4.2 → §10.9.3.5–10.9.3.8 -/
def encCounted (lb : Nat) (ub : Option Nat) (items : List Bits) : Bits :=
  match ub with
  | some u =>
    if u < 65536 then constrainedLength lb u items.length ++ items.flatten
    else lengthPrefixed (items.length + 1) items
  | none => lengthPrefixed (items.length + 1) items

/-- extensible size constraint: one bit, and a count outside the root is encoded as if unconstrained -/
def encSized (sz : SizeC) (items : List Bits) : Option Bits :=
  if sizeInRoot sz items.length then
    some ((if sz.ext then [false] else []) ++ encCounted sz.lb sz.ub items)
  else if sz.ext then some (true :: lengthPrefixed (items.length + 1) items)
  else none

def decCounted {α : Type} (lb : Nat) (ub : Option Nat) (rd : Bits → Option (α × Bits)) (bs : Bits) :
    Option (List α × Bits) :=
  match ub with
  | some u =>
    if u < 65536 then
      match rdBits (bitWidth (u + 1 - lb)) bs with
      | none => none
      | some (k, r) => if lb + k ≤ u then rdItems rd (lb + k) r else none
    else rdLengthPrefixed rd bs
  | none => rdLengthPrefixed rd bs

/-- `inRoot` tells the caller which item reader applies (§30.4: alphabet of the unconstrained type outside the root) -/
def decSized {α : Type} (sz : SizeC) (rd rdOut : Bits → Option (α × Bits)) (bs : Bits) : Option (List α × Bits) :=
  if sz.ext then
    match bs with
    | [] => none
    | false :: r => decCounted sz.lb sz.ub rd r
    | true :: r => rdLengthPrefixed rdOut r
  else decCounted sz.lb sz.ub rd bs

/-! ## octets -/

def octetItems (os : Bytes) : List Bits := os.map (nnbi 8)

/-- octets preceded by an unconstrained length -/
def encOctetsUnc (os : Bytes) : Bits := lengthPrefixed (os.length + 1) (octetItems os)

def decOctetsUnc (bs : Bits) : Option (Bytes × Bits) := rdLengthPrefixed (rdBits 8) bs

/-- §11.2 open type: the complete encoding of the value as octets with an unconstrained length -/
def openType (field : Bits) : Bits := encOctetsUnc (complete field)

/-! ## §13 INTEGER -/

def intInRoot (c : IntC) (z : Int) : Bool :=
  (match c.lb with | some l => decide (l ≤ z) | none => true) &&
  (match c.ub with | some u => decide (z ≤ u) | none => true)

/-- §13.2: root value — constrained (§10.5), semi-constrained (§10.7) or unconstrained (§10.8) whole number -/
def encIntRoot (c : IntC) (z : Int) : Bits :=
  match c.lb, c.ub with
  | some l, some u => constrainedWholeNumber l u z
  | some l, none => semiConstrainedWholeNumber l z
  | none, _ => unconstrainedWholeNumber z

/-- §13.1: extension bit; a value outside the root is encoded as an unconstrained whole number -/
def encInt (c : IntC) (z : Int) : Option Bits :=
  if intInRoot c z then some ((if c.ext then [false] else []) ++ encIntRoot c z)
  else if c.ext then some (true :: unconstrainedWholeNumber z)
  else none

def decUnconstrainedInt (bs : Bits) : Option (Int × Bits) :=
  match decOctetsUnc bs with
  | some (b :: os, r) => some (Asn1c.Spec.twosVal (b :: os), r)
  | _ => none

def decIntRoot (c : IntC) (bs : Bits) : Option (Int × Bits) :=
  match c.lb, c.ub with
  | some l, some u =>
    match rdBits (bitWidth (u - l + 1).toNat) bs with
    | some (k, r) => if l + k ≤ u then some (l + k, r) else none
    | none => none
  | some l, none =>
    match decOctetsUnc bs with
    | some (b :: os, r) => some (l + (ofBE 0 (b :: os) : Nat), r)
    | _ => none
  | none, _ => decUnconstrainedInt bs

def decInt (c : IntC) (bs : Bits) : Option (Int × Bits) :=
  if c.ext then
    match bs with
    | [] => none
    | false :: r => decIntRoot c r
    | true :: r => decUnconstrainedInt r
  else decIntRoot c bs

/-! ## §10.6 normally small non-negative whole number, §10.9.3.4 normally small length -/

def decNormallySmall (bs : Bits) : Option (Nat × Bits) :=
  match bs with
  | [] => none
  | false :: r => rdBits 6 r
  | true :: r =>
    match decOctetsUnc r with
    | some (b :: os, r') => some (ofBE 0 (b :: os), r')
    | _ => none

def decLengthDetSmall (bs : Bits) : Option (Nat × Bits) :=
  match bs with
  | false :: r => rdBits 7 r
  | true :: false :: r => rdBits 14 r
  | _ => none

def decNormallySmallLength (bs : Bits) : Option (Nat × Bits) :=
  match bs with
  | [] => none
  | false :: r => (rdBits 6 r).map fun (k, r') => (k + 1, r')
  | true :: r => decLengthDetSmall r

/-! ## §14 ENUMERATED -/

/-- `root` sorted ascending: the enumeration index of a root value is its position (§14.1);
    additions are indexed in definition order and encoded as a normally small number (§14.3) -/
def encEnum (root : List Int) (ext : Option (List Int)) (z : Int) : Option Bits :=
  if z ∈ root then
    some ((if ext.isSome then [false] else []) ++ constrainedWholeNumber 0 ((root.length : Int) - 1) (root.idxOf z))
  else
    match ext with
    | some adds => if z ∈ adds then some (true :: normallySmall (adds.idxOf z)) else none
    | none => none

def decEnumRoot (root : List Int) (bs : Bits) : Option (Int × Bits) :=
  match rdBits (bitWidth root.length) bs with
  | some (k, r) => (root[k]?).map fun z => (z, r)
  | none => none

def decEnum (root : List Int) (ext : Option (List Int)) (bs : Bits) : Option (Int × Bits) :=
  match ext with
  | none => decEnumRoot root bs
  | some adds =>
    match bs with
    | [] => none
    | false :: r => decEnumRoot root r
    | true :: r =>
      match decNormallySmall r with
      | some (k, r') => (adds[k]?).map fun z => (z, r')
      | none => none

/-! ## §16 BIT STRING -/

/-- the bits of a BIT STRING value `(octets, unused)` -/
def bitsOfValue (bs : Bytes) (unused : Nat) : Bits := (bytesToBits bs).take (8 * bs.length - unused)

def encBitString (sz : SizeC) (bs : Bytes) (unused : Nat) : Option Bits :=
  if unused ≤ 7 ∧ (bs = [] → unused = 0) then encSized sz ((bitsOfValue bs unused).map fun b => [b])
  else none

def valueOfBits (bits : Bits) : Val :=
  .bits (bitsToBytes bits) ((8 - bits.length % 8) % 8)

/-! ## §30 restricted character strings -/

def alphaCount : Alpha → Nat
  | [] => 0
  | (lo, hi) :: r => (hi + 1 - lo) + alphaCount r

/-- largest character value of the alphabet -/
def alphaMax : Alpha → Nat
  | [] => 0
  | (_, hi) :: r => max hi (alphaMax r)

/-- position of `c` in the canonical (ascending) order of the alphabet -/
def alphaIndex (c : Nat) : Alpha → Option Nat
  | [] => none
  | (lo, hi) :: r =>
    if lo ≤ c ∧ c ≤ hi then some (c - lo) else (alphaIndex c r).map (· + (hi + 1 - lo))

def alphaNth (i : Nat) : Alpha → Option Nat
  | [] => none
  | (lo, hi) :: r => if i < hi + 1 - lo then some (lo + i) else alphaNth (i - (hi + 1 - lo)) r

/-- §30.5.2–30.5.4: `b` = least number of bits for `N` characters; a character is encoded by its value `v`
    when the largest value `ub ≤ 2^b − 1`, otherwise by its index in the canonical order of the alphabet -/
def charWidth (alpha : Alpha) : Nat := bitWidth (alphaCount alpha)
def byValue (alpha : Alpha) : Bool := decide (alphaMax alpha < 2 ^ charWidth alpha)

def encChar (alpha : Alpha) (c : Nat) : Option Bits :=
  match alphaIndex c alpha with
  | none => none
  | some i => some (nnbi (charWidth alpha) (if byValue alpha then c else i))

def decChar (alpha : Alpha) (bs : Bits) : Option (Nat × Bits) :=
  match rdBits (charWidth alpha) bs with
  | none => none
  | some (k, r) =>
    if byValue alpha then (if (alphaIndex k alpha).isSome then some (k, r) else none)
    else (alphaNth k alpha).map fun c => (c, r)

/-- the characters of a value stored with `cw` octets per character -/
def charsOf : Nat → Nat → Bytes → Option (List Nat)
  | 0, _, bs => if bs.isEmpty then some [] else none
  | f + 1, cw, bs =>
    if bs.isEmpty then some []
    else if cw = 0 ∨ (bs.take cw).length < cw then none
    else (charsOf f cw (bs.drop cw)).map (ofBE 0 (bs.take cw) :: ·)

def mapOpt {α β : Type} (f : α → Option β) : List α → Option (List β)
  | [] => some []
  | a :: as =>
    match f a, mapOpt f as with
    | some b, some bs => some (b :: bs)
    | _, _ => none

/-- §30.4/§30.5: size in the root → effective alphabet; outside → "as if there was no effective size constraint"
    and with "the set of all characters of the unconstrained type" as permitted alphabet -/
def encKmString (cw : Nat) (alpha base : Alpha) (sz : SizeC) (os : Bytes) : Option Bits :=
  match charsOf os.length cw os with
  | none => none
  | some cs =>
    match mapOpt (encChar (if sizeInRoot sz cs.length then alpha else base)) cs with
    | none => none
    | some items => encSized sz items

def octetsOfChars (cw : Nat) (cs : List Nat) : Bytes := cs.flatMap (toBEn cw)

/-! ## SET OF: canonical order of the element encodings (§22.1 → X.690 §11.6: compared as octet strings,
    the shorter padded with trailing zero octets, each encoding padded with zero bits to an octet) -/

def paddedLe : Bytes → Bytes → Bool
  | [], [] => true
  | [], b :: bs => b == 0 && paddedLe [] bs || decide (0 < b)
  | a :: as, [] => a == 0 && paddedLe as []
  | a :: as, b :: bs => a < b || (a == b && paddedLe as bs)

def canonicalSetOf (items : List Bits) : List Bits :=
  sortBy (fun a b => paddedLe (bitsToBytes a) (bitsToBytes b)) items

/-! ## the encoder -/

def absentVals (n : Nat) : List Val := List.replicate n .absent

mutual
/-- the field-list of `v : t` (X.691 §12–§30), `none` when `v` is not a value of `t` -/
def encUPER : PTy → Val → Option Bits
  | .boolean, .bool b => some [b]                                      -- §12
  | .null, .null => some []                                            -- §18
  | .integer c, .int z => encInt c z                                   -- §13
  | .enumerated root ext, .int z => encEnum root ext z                 -- §14
  | .real, .real bits => some (encOctetsUnc (Asn1c.Impl.Real.double2REAL bits))   -- §15
  | .bitstr sz, .bits bs unused => encBitString sz bs unused           -- §16
  | .octstr sz, .octets os => encSized sz (octetItems os)              -- §17
  | .kmstr cw alpha base sz, .octets os => encKmString cw alpha base sz os   -- §30.1–30.5
  | .unkstr, .octets os => some (encOctetsUnc os)                      -- §30.6, §24, §25
  | .seq root rattrs extensible adds aattrs, .seq vs =>                -- §19
    match encRoot root rattrs vs with
    | none => none
    | some (preamble, body, rest) =>
      match encAdds adds aattrs rest with
      | none => none
      | some (bitmap, abody) =>
        if extensible then
          if bitmap.any id then
            -- §19.1 extension bit, §19.2/19.3 preamble, §19.4 root, §19.7–19.9 additions bitmap + open types
            some (true :: (preamble ++ body ++ normallySmallLength bitmap.length ++ bitmap ++ abody))
          else some (false :: (preamble ++ body))
        else if adds.isEmpty then some (preamble ++ body) else none
  | .choice root order extensible adds, .choice i v =>                 -- §23
    if i < root.length then
      match encAlt root i v with
      | none => none
      | some x =>
        if order.contains i then
          some ((if extensible then [false] else []) ++
                constrainedWholeNumber 0 ((root.length : Int) - 1) (order.idxOf i) ++ x)
        else none
    else if extensible then
      match encAlt adds (i - root.length) v with
      | none => none
      | some x => some (true :: (normallySmall (i - root.length) ++ openType x))
    else none
  | .seqOf sz e, .list vs =>                                           -- §20
    match encList e vs with
    | none => none
    | some items => encSized sz items
  | .setOf sz e, .list vs =>                                           -- §22
    match encList e vs with
    | none => none
    | some items => encSized sz (canonicalSetOf items)
  | _, _ => none
/-- root components: (preamble bits, concatenated component encodings, values of the extension additions).
    CANONICAL-PER (§19.5): a component equal to its DEFAULT value is encoded as absent. -/
def encRoot : List PTy → List Attr → List Val → Option (Bits × Bits × List Val)
  | [], _, vs => some ([], [], vs)
  | m :: ms, a :: as, v :: vs =>
    match v with
    | .absent =>
      if a.optional then
        match encRoot ms as vs with
        | some (p, b, r) => some (false :: p, b, r)
        | none => none
      else none
    | v =>
      if isDefault a v then
        match encRoot ms as vs with
        | some (p, b, r) => some (false :: p, b, r)
        | none => none
      else
        match encUPER m v, encRoot ms as vs with
        | some x, some (p, b, r) => some (if a.optional then true :: p else p, x ++ b, r)
        | _, _ => none
  | _, _, _ => none
/-- extension additions: (presence bitmap, concatenated open types).
    CANONICAL-PER (§19.5): an addition equal to its DEFAULT value is encoded as absent, like a root component. -/
def encAdds : List PTy → List Attr → List Val → Option (List Bool × Bits)
  | [], _, [] => some ([], [])
  | m :: ms, a :: as, v :: vs =>
    match v with
    | .absent =>
      match encAdds ms as vs with
      | some (bm, b) => some (false :: bm, b)
      | none => none
    | v =>
      if isDefault a v then
        match encAdds ms as vs with
        | some (bm, b) => some (false :: bm, b)
        | none => none
      else
        match encUPER m v, encAdds ms as vs with
        | some x, some (bm, b) => some (true :: bm, openType x ++ b)
        | _, _ => none
  | _, _, _ => none
def encAlt : List PTy → Nat → Val → Option Bits
  | [], _, _ => none
  | a :: _, 0, v => encUPER a v
  | _ :: as, i + 1, v => encAlt as i v
def encList (e : PTy) : List Val → Option (List Bits)
  | [] => some []
  | v :: vs =>
    match encUPER e v, encList e vs with
    | some x, some xs => some (x :: xs)
    | _, _ => none
end

/-- §11.1 complete encoding -/
def encUPERbytes (t : PTy) (v : Val) : Option Bytes := (encUPER t v).map complete

/-! ## the decoder -/

def optCount : List Attr → Nat
  | [] => 0
  | a :: as => (if a.optional then 1 else 0) + optCount as

/-- skip the open types of unknown extension additions -/
def skipOpen : List Bool → Bits → Option Bits
  | [], bs => some bs
  | false :: bm, bs => skipOpen bm bs
  | true :: bm, bs =>
    match decOctetsUnc bs with
    | some (_, r) => skipOpen bm r
    | none => none

def decKmString (cw : Nat) (alpha base : Alpha) (sz : SizeC) (bs : Bits) : Option (Val × Bits) :=
  match decSized sz (decChar alpha) (decChar base) bs with
  | some (cs, r) => some (.octets (octetsOfChars cw cs), r)
  | none => none

mutual
def decUPER : PTy → Bits → Option (Val × Bits)
  | .boolean, bs =>
    match bs with
    | [] => none
    | b :: r => some (.bool b, r)
  | .null, bs => some (.null, bs)
  | .integer c, bs => (decInt c bs).map fun (z, r) => (.int z, r)
  | .enumerated root ext, bs => (decEnum root ext bs).map fun (z, r) => (.int z, r)
  | .real, bs =>
    match decOctetsUnc bs with
    | some (os, r) =>
      match Asn1c.Impl.Real.REAL2double os with
      | .ok bits => some (.real bits, r)
      | _ => none
    | none => none
  | .bitstr sz, bs =>
    match decSized sz rdBit rdBit bs with
    | some (bits, r) => some (valueOfBits bits, r)
    | none => none
  | .octstr sz, bs =>
    match decSized sz (rdBits 8) (rdBits 8) bs with
    | some (os, r) => some (.octets os, r)
    | none => none
  | .kmstr cw alpha base sz, bs => decKmString cw alpha base sz bs
  | .unkstr, bs =>
    match decOctetsUnc bs with
    | some (os, r) => some (.octets os, r)
    | none => none
  | .seq root rattrs extensible adds _, bs =>
    match (if extensible then rdBit bs else some (false, bs)) with
    | none => none
    | some (eb, bs1) =>
      match rdBools (optCount rattrs) bs1 with
      | none => none
      | some (pres, bs2) =>
        match decRoot root rattrs pres bs2 with
        | none => none
        | some (vs, bs3) =>
          if eb then
            match decNormallySmallLength bs3 with
            | none => none
            | some (n, bs4) =>
              match rdBools n bs4 with
              | none => none
              | some (bitmap, bs5) =>
                match decAdds adds bitmap bs5 with
                | none => none
                | some (avs, bs6) => some (.seq (vs ++ avs), bs6)
          else some (.seq (vs ++ absentVals adds.length), bs3)
  | .choice root order extensible adds, bs =>
    match (if extensible then rdBit bs else some (false, bs)) with
    | none => none
    | some (false, bs1) =>
      match rdBits (bitWidth root.length) bs1 with
      | none => none
      | some (k, bs2) =>
        match order[k]? with
        | none => none
        | some i =>
          match decAlt root i bs2 with
          | some (v, r) => some (.choice i v, r)
          | none => none
    | some (true, bs1) =>
      match decNormallySmall bs1 with
      | none => none
      | some (j, bs2) =>
        match decOctetsUnc bs2 with
        | none => none
        | some (os, r) =>
          match decAlt adds j (bytesToBits os) with
          | some (v, _) => some (.choice (root.length + j) v, r)
          | none => none
  | .seqOf sz e, bs =>
    match decSized sz (decUPER e) (decUPER e) bs with
    | some (vs, r) => some (.list vs, r)
    | none => none
  | .setOf sz e, bs =>
    match decSized sz (decUPER e) (decUPER e) bs with
    | some (vs, r) => some (.list vs, r)
    | none => none
def decRoot : List PTy → List Attr → List Bool → Bits → Option (List Val × Bits)
  | [], _, _, bs => some ([], bs)
  | m :: ms, a :: as, pres, bs =>
    if a.optional then
      match pres with
      | [] => none
      | false :: ps =>
        match decRoot ms as ps bs with
        | some (vs, r) => some (.absent :: vs, r)
        | none => none
      | true :: ps =>
        match decUPER m bs with
        | none => none
        | some (v, r) =>
          match decRoot ms as ps r with
          | some (vs, r') => some (v :: vs, r')
          | none => none
    else
      match decUPER m bs with
      | none => none
      | some (v, r) =>
        match decRoot ms as pres r with
        | some (vs, r') => some (v :: vs, r')
        | none => none
  | _ :: _, [], _, _ => none
def decAdds : List PTy → List Bool → Bits → Option (List Val × Bits)
  | [], bitmap, bs => (skipOpen bitmap bs).map fun r => ([], r)
  | m :: ms, [], bs =>
    match decAdds ms [] bs with
    | some (vs, r) => some (.absent :: vs, r)
    | none => none
  | m :: ms, false :: bm, bs =>
    match decAdds ms bm bs with
    | some (vs, r) => some (.absent :: vs, r)
    | none => none
  | m :: ms, true :: bm, bs =>
    match decOctetsUnc bs with
    | none => none
    | some (os, r) =>
      match decUPER m (bytesToBits os) with
      | none => none
      | some (v, _) =>
        match decAdds ms bm r with
        | some (vs, r') => some (v :: vs, r')
        | none => none
def decAlt : List PTy → Nat → Bits → Option (Val × Bits)
  | [], _, _ => none
  | a :: _, 0, bs => decUPER a bs
  | _ :: as, i + 1, bs => decAlt as i bs
end

/-- octets consumed as `uper_decode_complete` reports them -/
def consumedOctets (total rest : Nat) : Nat :=
  let bits := total - rest
  if bits = 0 then 1 else (bits + 7) / 8

end Asn1c.L2
